// Package c04 enumerates every save point of search iterators: Save, Load and
// the continued original must both produce exactly the remaining reference
// sequence, in order (DESIGN.md section 4, C04).
package c04

import (
	"bufio"
	"bytes"
	"fmt"
	"io"
	"sort"
	"testing/iotest"

	"github.com/Tom-Johnston/mamba/graph"
	"github.com/Tom-Johnston/mamba/graph/search"

	"verif/internal/engine"
	"verif/internal/oracle/rg"
	"verif/internal/props/srch"
)

func init() {
	engine.Register(&engine.Property{
		ID:    "C04",
		Level: "fault_enumeration",
		Rule: "for every configuration (n, a, m, predicate placement) with n <= 7 (8 thorough; 9 at seeded positions; n = 10..14 (18 thorough) at 8 positions among the first 320 values, compared on the next 40 values with the prefix of an uninterrupted run) and EVERY save position k in 0..len(output) (before the first Next, after each k-th, after exhaustion): a fresh iterator is advanced k times (checked against the reference log S of an uninterrupted run), saved, loaded, and then original and loaded copy are advanced alternately; both must yield exactly S[k:], in order, and then report exhaustion twice. Chains save-load-advance-save-load of depth 3 at seeded positions; periodic checkpoints: ONE iterator saved again and again while it advances, into the same buffer (reset or growing) and into fresh buffers, each checkpoint loaded on its own. " +
			"non-trivial = save position strictly inside the output (0 < k < len(S)); distinct = (configuration, k) by construction",
		Assumptions: []string{
			"the reference log S is the output of one uninterrupted run of the same configuration in the same process (C03 judges S itself)",
			"values are compared as graph6 strings written by the harness from IsEdge",
			"Save is only called between graphs, as documented",
		},
		Run:            run,
		MinEvaluations: map[string]int{"quick": 300000, "thorough": 20000000},
		MinNontrivial:  map[string]int{"quick": 3000, "thorough": 30000},
		RequiredObs:    []string{"checkpoints_loaded_by_a_process_that_never_saved", "checkpoints_loaded_from_a_stream_holding_several", "load_through_reader_kind_1", "load_through_reader_kind_2", "load_through_reader_kind_3", "load_through_reader_kind_4", "load_through_reader_kind_5", "load_through_reader_kind_6", "save_points_in_orders>=10(prefix of the output)", "failed_save_attempts", "saves_on_same_iterator", "save_points", "save_points_after_exhaustion", "save_points_before_first", "chains", "interleaved_steps", "configs_with_predicate"},
	})
}

type config struct {
	n, a, m   int
	pred      int // index into srch.Preds, -1 none
	placement int // 0 preprune 1 prune
}

func (cf config) name() string {
	s := fmt.Sprintf("n%d-a%d-m%d", cf.n, cf.a, cf.m)
	if cf.pred >= 0 {
		s += "-" + srch.Preds()[cf.pred].Name + "-" + []string{"preprune", "prune"}[cf.placement]
	}
	return s
}

func (cf config) funcs() (pre, pru func(*graph.DenseGraph) bool) {
	pre, pru = srch.None, srch.None
	if cf.pred >= 0 {
		p := srch.Preds()[cf.pred]
		calls := 0
		bad := ""
		f := srch.AsPrune(p, &calls, &bad)
		if cf.placement == 0 {
			pre = f
		} else {
			pru = f
		}
	}
	return
}

func (cf config) fresh() *search.GraphIterator {
	pre, pru := cf.funcs()
	return search.WithPruning(cf.n, cf.a, cf.m, pre, pru)
}

func val(it *search.GraphIterator) string { return rg.FromGraph(it.Value()).G6() }

type mon struct {
	c  *engine.Ctx
	cf config
}

func (m *mon) viol(kind string, k int, detail map[string]interface{}, obs, exp string) {
	detail["config"] = m.cf.name()
	detail["save_position"] = k
	m.c.Violation(fmt.Sprintf("resume|%s|%s|k=%d", kind, m.cf.name(), k), detail, obs, exp)
}

// reference runs the configuration uninterrupted.
func (m *mon) reference() ([]string, bool) { return m.referenceN(0) }

// referenceN stops after limit values (0 = run to the end): a prefix of the output, for orders whose whole output
// is out of reach.
func (m *mon) referenceN(limit int) ([]string, bool) {
	var S []string
	var it *search.GraphIterator
	key := "resume|" + m.cf.name() + "|reference"
	if pi := m.c.Call(key, func() { it = m.cf.fresh() }); pi != nil {
		m.viol("panic@"+engine.SiteNoLine(pi.Site), -1, map[string]interface{}{}, pi.String(), "an iterator")
		return nil, false
	}
	for {
		var ok bool
		var g6 string
		if pi := m.c.CallN(key, int64(len(S)), func() {
			ok = it.Next()
			if ok {
				g6 = val(it)
			}
		}); pi != nil {
			m.viol("panic@"+engine.SiteNoLine(pi.Site)+"|reference", len(S), map[string]interface{}{}, pi.String(), "Next returns")
			return nil, false
		}
		if !ok {
			return S, true
		}
		S = append(S, g6)
		if limit > 0 && len(S) >= limit {
			return S, true
		}
		if len(S) > 300000 {
			m.c.Inconclusive("reference run of " + m.cf.name() + " exceeds 300000 values")
			return nil, false
		}
	}
}

// advance steps it r times expecting S[pos:pos+r]; returns false on violation.
func (m *mon) advance(it *search.GraphIterator, who string, S []string, pos, r, k int) bool {
	key := "resume|" + m.cf.name() + "|advance-" + who
	for i := 0; i < r; i++ {
		var ok bool
		var g6 string
		if pi := m.c.CallN(key, int64(k)<<24|int64(pos+i), func() {
			ok = it.Next()
			if ok {
				g6 = val(it)
			}
		}); pi != nil {
			m.viol("panic@"+engine.SiteNoLine(pi.Site)+"|"+who, k, map[string]interface{}{"at_output_index": pos + i}, pi.String(), "Next returns")
			return false
		}
		m.c.Eval(1)
		if pos+i >= len(S) {
			if ok {
				m.viol(who+"-yields-after-end", k, map[string]interface{}{"extra": g6}, "Next returned true with "+g6+" after the reference output ended", "false")
				return false
			}
			continue
		}
		if !ok {
			m.viol(who+"-ends-early", k, map[string]interface{}{"at_output_index": pos + i, "expected": S[pos+i]}, fmt.Sprintf("Next returned false at output index %d of %d", pos+i, len(S)), "value "+S[pos+i])
			return false
		}
		if g6 != S[pos+i] {
			m.viol(who+"-differs", k, map[string]interface{}{"at_output_index": pos + i, "got": g6, "expected": S[pos+i]}, fmt.Sprintf("output index %d is %s", pos+i, g6), "value "+S[pos+i]+" (same order as the uninterrupted run)")
			return false
		}
	}
	return true
}

func (m *mon) saveLoad(it *search.GraphIterator, k int) (*search.GraphIterator, bool) {
	var buf bytes.Buffer
	key := fmt.Sprintf("resume|%s|save-load", m.cf.name())
	var lo *search.GraphIterator
	if pi := m.c.CallN(key, int64(k), func() { it.Save(&buf) }); pi != nil {
		m.viol("panic@"+engine.SiteNoLine(pi.Site)+"|Save", k, map[string]interface{}{}, pi.String(), "Save returns")
		return nil, false
	}
	data := append([]byte(nil), buf.Bytes()...)
	// the checkpoint reaches Load through every kind of io.Reader: all at once, one byte per Read, half of what is
	// asked for, the last bytes together with io.EOF, through a small bufio.Reader, and with trailing data behind it
	kind := k % 7
	var rd io.Reader = bytes.NewReader(data)
	switch kind {
	case 1:
		rd = iotest.OneByteReader(rd)
	case 2:
		rd = iotest.HalfReader(rd)
	case 3:
		rd = iotest.DataErrReader(rd)
	case 4:
		rd = iotest.DataErrReader(iotest.OneByteReader(rd))
	case 5:
		rd = bufio.NewReaderSize(rd, 16)
	case 6:
		rd = bytes.NewReader(append(append([]byte(nil), data...), "trailing bytes that belong to the caller"...))
	}
	m.c.Obs(fmt.Sprintf("load_through_reader_kind_%d", kind), 1)
	if pi := m.c.CallN(key, int64(k), func() {
		pre, pru := m.cf.funcs()
		lo = search.Load(rd, pre, pru)
	}); pi != nil {
		m.viol("panic@"+engine.SiteNoLine(pi.Site)+"|Load", k, map[string]interface{}{"saved_bytes": len(data)}, pi.String(), "Load returns an iterator")
		return nil, false
	}
	return lo, true
}

// checkPosition: fresh iterator, advance k, save/load, interleave both to the end (or window values).
func (m *mon) checkPosition(S []string, k int, window int) bool {
	c := m.c
	var it *search.GraphIterator
	if pi := c.Call("resume|"+m.cf.name()+"|new", func() { it = m.cf.fresh() }); pi != nil {
		m.viol("panic@"+engine.SiteNoLine(pi.Site), k, map[string]interface{}{}, pi.String(), "an iterator")
		return false
	}
	kk := k
	if kk > len(S) {
		kk = len(S) + 1 // one Next beyond the end: the iterator has reported exhaustion
	}
	if !m.advance(it, "original-before-save", S, 0, kk, k) {
		return false
	}
	lo, ok := m.saveLoad(it, k)
	if !ok {
		return false
	}
	c.Obs("save_points", 1)
	switch {
	case k == 0:
		c.Obs("save_points_before_first", 1)
	case k > len(S):
		c.Obs("save_points_after_exhaustion", 1)
	case k < len(S):
		c.NTDistinct(1)
	}
	rem := len(S) - kk
	if rem < 0 {
		rem = 0
	}
	steps := rem + 2 // two probes after exhaustion
	if window > 0 && steps > window {
		steps = window
	}
	for i := 0; i < steps; i++ {
		// alternate who goes first
		first, second, fn, sn := it, lo, "original", "loaded"
		if i%2 == 1 {
			first, second, fn, sn = lo, it, "loaded", "original"
		}
		if !m.advance(first, fn, S, kk+i, 1, k) || !m.advance(second, sn, S, kk+i, 1, k) {
			return false
		}
		c.Obs("interleaved_steps", 1)
	}
	return true
}

// chain: save/load repeatedly, always continuing with the loaded copy.
func (m *mon) chain(S []string, ks []int) bool {
	c := m.c
	var it *search.GraphIterator
	if pi := c.Call("resume|"+m.cf.name()+"|new", func() { it = m.cf.fresh() }); pi != nil {
		return false
	}
	pos := 0
	for d, k := range ks {
		if k < pos {
			k = pos
		}
		if !m.advance(it, fmt.Sprintf("chain-depth%d", d), S, pos, k-pos, k) {
			return false
		}
		pos = k
		lo, ok := m.saveLoad(it, k)
		if !ok {
			return false
		}
		// the abandoned original must still be intact for a few steps (saving does not disturb it)
		if !m.advance(it, fmt.Sprintf("chain-original-depth%d", d), S, pos, 3, k) {
			return false
		}
		it = lo
	}
	rem := len(S) - pos + 2
	if rem > 400 {
		rem = 400
	}
	if !m.advance(it, "chain-final", S, pos, rem, ks[len(ks)-1]) {
		return false
	}
	c.Obs("chains", 1)
	return true
}

// checkpoints: ONE iterator is saved again and again while it advances (periodic checkpointing), into the same
// writer value: mode 0 = one bytes.Buffer that is Reset between saves, mode 1 = one bytes.Buffer that keeps growing
// (each checkpoint = the bytes appended by that Save), mode 2 = a fresh buffer per save.  Every checkpoint must load
// on its own and continue with the remaining reference output.
func (m *mon) checkpoints(S []string, positions []int, mode int) bool {
	c := m.c
	var it *search.GraphIterator
	if pi := c.Call("resume|"+m.cf.name()+"|new", func() { it = m.cf.fresh() }); pi != nil {
		return false
	}
	var shared bytes.Buffer
	pos := 0
	for _, k := range positions {
		if k < pos {
			continue
		}
		kk := k
		if kk > len(S) {
			kk = len(S) + 1
		}
		if !m.advance(it, "checkpointed-original", S, pos, kk-pos, k) {
			return false
		}
		pos = kk
		var data []byte
		key := fmt.Sprintf("resume|%s|checkpoint-mode%d", m.cf.name(), mode)
		var pi *engine.PanicInfo
		switch mode {
		case 0:
			pi = c.CallN(key, int64(k), func() { shared.Reset(); it.Save(&shared) })
			data = append([]byte(nil), shared.Bytes()...)
		case 1:
			before := shared.Len()
			pi = c.CallN(key, int64(k), func() { it.Save(&shared) })
			data = append([]byte(nil), shared.Bytes()[before:]...)
		default:
			var b bytes.Buffer
			pi = c.CallN(key, int64(k), func() { it.Save(&b) })
			data = append([]byte(nil), b.Bytes()...)
		}
		if pi != nil {
			m.viol(fmt.Sprintf("panic@%s|Save|checkpoint-mode%d", engine.SiteNoLine(pi.Site), mode), k, map[string]interface{}{}, pi.String(), "Save returns")
			return false
		}
		var lo *search.GraphIterator
		if pi := c.CallN(key+"|Load", int64(k), func() {
			pre, pru := m.cf.funcs()
			lo = search.Load(bytes.NewReader(data), pre, pru)
		}); pi != nil {
			m.viol(fmt.Sprintf("panic@%s|Load|checkpoint-mode%d", engine.SiteNoLine(pi.Site), mode), k, map[string]interface{}{"checkpoint_bytes": len(data), "earlier_saves_on_this_iterator": c.ObsGet("saves_on_same_iterator")}, pi.String(), "every checkpoint written by Save loads on its own")
			return false
		}
		c.Obs("saves_on_same_iterator", 1)
		rem := len(S) - pos + 2
		if rem > 40 {
			rem = 40
		}
		if rem < 0 {
			rem = 2
		}
		if !m.advance(lo, fmt.Sprintf("loaded-from-checkpoint-mode%d", mode), S, pos, rem, k) {
			return false
		}
		// every third checkpoint is FOLLOWED by a Save into a writer that fails (at once, or after a few bytes); the
		// iterator then advances to the next checkpoint position.
		// Save is documented to panic on a write error; the attempt must leave no trace: the original goes on
		// correctly and the next checkpoint loads on its own.
		if (k+mode)%3 == 0 {
			fw := &failingWriter{okBytes: []int{0, 10, 1}[(k/3)%3]}
			pf := c.CallN(key+"|Save-into-failing-writer", int64(k), func() { it.Save(fw) })
			if pf == nil {
				c.Obs("failed_save_attempts_returning_normally", 1)
			} else {
				c.Obs("failed_save_attempts_panicking(documented)", 1)
			}
			c.Obs("failed_save_attempts", 1)
		}
	}
	return true
}

// failingWriter accepts okBytes bytes and then fails every Write.
type failingWriter struct {
	okBytes int
	written int
}

func (w *failingWriter) Write(p []byte) (int, error) {
	if w.written+len(p) <= w.okBytes {
		w.written += len(p)
		return len(p), nil
	}
	n := w.okBytes - w.written
	if n < 0 {
		n = 0
	}
	w.written += n
	return n, fmt.Errorf("injected write failure after %d bytes", w.written)
}

func configs(thorough bool) []config {
	var r []config
	triFree, maxdeg3 := -1, -1
	for i, p := range srch.Preds() {
		if p.Name == "triangle-free" {
			triFree = i
		}
		if p.Name == "maxdeg<=3" {
			maxdeg3 = i
		}
	}
	maxN := 7
	if thorough {
		maxN = 8
	}
	for n := 0; n <= maxN; n++ {
		for _, m := range []int{1, 2, 3} {
			for a := 0; a < m; a++ {
				r = append(r, config{n, a, m, -1, 0})
				if n >= 3 {
					r = append(r, config{n, a, m, triFree, 1}, config{n, a, m, maxdeg3, 0})
				}
			}
		}
	}
	return r
}

func run(c *engine.Ctx) {
	for _, cf := range configs(c.Thorough()) {
		cf := cf
		// positions are split into blocks so that large configurations spread over the shards
		blocks := 1
		if cf.n == 7 && cf.pred < 0 {
			blocks = 8
		}
		if cf.n == 8 {
			blocks = 64
			if cf.pred >= 0 {
				blocks = 8
			}
		}
		for b := 0; b < blocks; b++ {
			b := b
			c.Unit(fmt.Sprintf("%s/block%d", cf.name(), b), func() {
				m := &mon{c: c, cf: cf}
				S, ok := m.reference()
				if !ok {
					return
				}
				if cf.pred >= 0 {
					c.Obs("configs_with_predicate", 1)
				}
				cnt := 0
				for k := b; k <= len(S)+1 && !c.Stopped(); k += blocks {
					window := 0
					if cf.n >= 8 && k%16 != 0 {
						window = 300
					}
					if !m.checkPosition(S, k, window) {
						return
					}
					cnt++
				}
				if b == 0 {
					// chains at seeded positions
					nch := c.Pick(6, 20)
					for t := 0; t < nch && len(S) > 0; t++ {
						r := c.Rand("c04-chain-"+cf.name(), t)
						k1 := r.Intn(len(S) + 1)
						k2 := k1 + r.Intn(len(S)-k1+1)
						k3 := k2 + r.Intn(len(S)-k2+1)
						if !m.chain(S, []int{k1, k2, k3}) {
							return
						}
					}
					// periodic checkpoints on one iterator
					for mode := 0; mode < 3; mode++ {
						var positions []int
						if len(S) <= 120 {
							for k := 0; k <= len(S)+1; k++ {
								positions = append(positions, k)
							}
						} else {
							r := c.Rand("c04-checkpoints-"+cf.name(), mode)
							positions = append(positions, 0)
							for t := 0; t < 50; t++ {
								positions = append(positions, 1+r.Intn(len(S)))
							}
							positions = append(positions, len(S), len(S)+1)
							sort.Ints(positions)
						}
						if !m.checkpoints(S, positions, mode) {
							return
						}
					}
					c.Obs(fmt.Sprintf("exhaustive:every save position 0..%d of %s", len(S)+1, cf.name()), 1)
					if cf.n == 6 && cf.m == 1 {
						c.Sample("config", map[string]interface{}{"config": cf.name(), "output_len": len(S), "first_values": S[:3]})
					}
				}
				c.Obs("positions_n="+fmt.Sprint(cf.n), cnt)
			})
		}
	}
	// a checkpoint loaded by ANOTHER process (one that has never saved anything)
	for ci, cf := range []config{{5, 0, 1, -1, 0}, {6, 1, 2, -1, 0}, {7, 2, 3, -1, 0}, {6, 0, 1, -2, 1}, {7, 1, 2, -2, 0}} {
		ci, cf := ci, cf
		if cf.pred == -2 {
			for i, p := range srch.Preds() {
				if p.Name == "triangle-free" {
					cf.pred = i
				}
			}
		}
		c.Unit("fresh-process/"+cf.name(), func() {
			m := &mon{c: c, cf: cf}
			S, ok := m.reference()
			if !ok {
				return
			}
			r := c.Rand("c04-fresh", ci)
			for _, k := range []int{0, 1, 1 + r.Intn(len(S)), 1 + r.Intn(len(S)), len(S), len(S) + 1} {
				if !m.freshProcess(S, k, 12) {
					return
				}
			}
		})
	}

	// orders 10..14 (thorough: ..18): the output is out of reach but its first few hundred values are not.  Save
	// positions near the start, compared with the prefix of an uninterrupted run (widths of the saved fields change
	// with n: the stack of choices has one entry per vertex and its entries one bit per vertex)
	maxDeep := c.Pick(14, 18)
	for n := 10; n <= maxDeep; n++ {
		for ci, am := range [][2]int{{0, 1}, {1, 3}, {1, 2}} {
			n, ci, am := n, ci, am
			c.Unit(fmt.Sprintf("deep/n%d-a%d-m%d", n, am[0], am[1]), func() {
				cf := config{n, am[0], am[1], -1, 0}
				m := &mon{c: c, cf: cf}
				L := 40
				ks := []int{0, 1, 2, 3, 7, 20}
				r := c.Rand("c04-deep", n*8+ci)
				ks = append(ks, 21+r.Intn(100), 121+r.Intn(200))
				S, ok := m.referenceN(ks[len(ks)-1] + L)
				if !ok {
					return
				}
				for _, k := range ks {
					if k+L > len(S) {
						continue // the shard is shorter than the prefix asked for
					}
					if !m.checkPosition(S[:k+L], k, L) {
						return
					}
					c.Obs("save_points_in_orders>=10(prefix of the output)", 1)
				}
				c.Obs("positions_n="+fmt.Sprint(n), len(ks))
			})
		}
	}

	// several checkpoints in one stream (streams.go)
	streamUnits(c)

	// n = 9 at seeded positions (thorough)
	if c.Thorough() {
		for u := 0; u < 50; u++ {
			u := u
			c.Unit(fmt.Sprintf("n9-seeded/%d", u), func() {
				cf := config{9, u % 3, 3, -1, 0}
				m := &mon{c: c, cf: cf}
				S, ok := m.reference()
				if !ok {
					return
				}
				for t := 0; t < 4; t++ {
					r := c.Rand("c04-n9", u*4+t)
					k := r.Intn(len(S) + 1)
					if !m.checkPosition(S, k, 2000) {
						return
					}
				}
			})
		}
	}
}

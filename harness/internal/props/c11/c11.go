package c11

// Demonstration for C18-8 (FindBuffered/UnionBuffered use only buf[:len(buf)]; short, empty and nil buffers are accepted).
//
// Run (from the root of the library worktree):
//   mkdir -p demo_c18_8 && cp /tmp/green-out/C18/8/demo_test.go demo_c18_8/ &&
//   GOFLAGS=-mod=mod GOPROXY=off GOSUMDB=off GOTOOLCHAIN=local go test -vet=off -count=1 -timeout 120s ./demo_c18_8/ ; rm -rf demo_c18_8
//
// TestProperty and the property checks inside the other tests pass on the clean tree and with the change.
// TestIncidentalSpareCapacity and TestIncidentalNilBuffer assert the OLD incidental behaviour: they pass on the
// clean tree and fail with the change.
package demo

import (
	"math/rand"
	"reflect"
	"testing"

	"github.com/Tom-Johnston/mamba/disjoint"
)

// naive model: label per element.
type model []int

func (m model) union(x, y int) {
	a, b := m[x], m[y]
	if a == b {
		return
	}
	for i := range m {
		if m[i] == b {
			m[i] = a
		}
	}
}

func checkAgainstModel(t *testing.T, ds disjoint.Set, m model) {
	t.Helper()
	n := len(m)
	reps := make([]int, n)
	buf := make([]int, n+1)
	for i := 0; i < n; i++ {
		reps[i] = ds.Find(i)
		if r := ds.FindBuffered(i, buf); r != reps[i] {
			t.Fatalf("Find(%d)=%d FindBuffered=%d", i, reps[i], r)
		}
	}
	for i := 0; i < n; i++ {
		if m[reps[i]] != m[i] {
			t.Fatalf("representative %d of %d is not in its set", reps[i], i)
		}
		for j := 0; j < n; j++ {
			if (reps[i] == reps[j]) != (m[i] == m[j]) {
				t.Fatalf("elements %d,%d: same rep %v, connected %v", i, j, reps[i] == reps[j], m[i] == m[j])
			}
		}
	}
	// expected Sets and SmallestRep
	var wantSets [][]int
	wantSR := make([]int, n)
	idx := map[int]int{}
	for i := 0; i < n; i++ {
		k, ok := idx[m[i]]
		if !ok {
			k = len(wantSets)
			idx[m[i]] = k
			wantSets = append(wantSets, nil)
		}
		wantSets[k] = append(wantSets[k], i)
		wantSR[i] = wantSets[k][0]
	}
	got := ds.Sets()
	if len(got) != len(wantSets) {
		t.Fatalf("Sets: %v want %v", got, wantSets)
	}
	for i := range got {
		if !reflect.DeepEqual(append([]int(nil), got[i]...), wantSets[i]) {
			t.Fatalf("Sets: %v want %v", got, wantSets)
		}
	}
	if sr := ds.SmallestRep(); n > 0 && !reflect.DeepEqual(sr, wantSR) {
		t.Fatalf("SmallestRep: %v want %v", sr, wantSR)
	}
	roots := append([]int(nil), ds.Roots()...)
	if len(roots) != len(wantSets) {
		t.Fatalf("Roots: %v for %d sets", roots, len(wantSets))
	}
	seen := map[int]bool{}
	for _, r := range roots {
		if seen[m[r]] {
			t.Fatalf("Roots: two roots in one set: %v", roots)
		}
		seen[m[r]] = true
	}
}

func TestProperty(t *testing.T) {
	rng := rand.New(rand.NewSource(18))
	for trial := 0; trial < 300; trial++ {
		n := 1 + rng.Intn(40)
		ds := disjoint.New(n)
		m := make(model, n)
		for i := range m {
			m[i] = i
		}
		buf := make([]int, n)
		steps := rng.Intn(3 * n)
		for s := 0; s < steps; s++ {
			x, y := rng.Intn(n), rng.Intn(n)
			switch rng.Intn(5) {
			case 0:
				ds.Union(x, y)
				m.union(x, y)
			case 1:
				ds.UnionBuffered(x, y, buf)
				m.union(x, y)
			case 2:
				ds.Find(x)
			case 3:
				ds.FindBuffered(y, buf)
			case 4:
				checkAgainstModel(t, ds, m)
			}
		}
		checkAgainstModel(t, ds, m)
	}
	// a long chain of pairings: trees of every rank
	n := 1 << 10
	ds := disjoint.New(n)
	m := make(model, n)
	for i := range m {
		m[i] = i
	}
	for step := 1; step < n; step *= 2 {
		for i := 0; i+step < n; i += 2 * step {
			ds.Union(i, i+step)
			m.union(i, i+step)
		}
		if step == 16 {
			checkAgainstModel(t, ds, m)
		}
	}
	checkAgainstModel(t, ds, m)
}

// chain builds the Set on 8 elements with the path 0 -> 1 -> 3 -> 7 (no lookup has compressed it yet).
func chain() disjoint.Set {
	ds := disjoint.New(8)
	ds.Union(0, 1)
	ds.Union(2, 3)
	ds.Union(1, 3)
	ds.Union(4, 5)
	ds.Union(6, 7)
	ds.Union(5, 7)
	ds.Union(3, 7)
	return ds
}

func checkChain(t *testing.T, ds disjoint.Set) {
	t.Helper()
	m := make(model, 8) // everything is in one set
	checkAgainstModel(t, ds, m)
	if want := []int{7, 7, 7, 7, 7, 7, 7}; !reflect.DeepEqual([]int(ds[:7]), want) || ds[7] >= 0 {
		t.Fatalf("after the lookups the tree should be flat below 7: %v", []int(ds))
	}
}

func TestIncidentalSpareCapacity(t *testing.T) {
	ds := chain()
	if want := []int{1, 3, 3, 7, 5, 7, 7, -4}; !reflect.DeepEqual([]int(ds), want) {
		t.Fatalf("unexpected starting point %v", []int(ds))
	}
	// The caller owns big; it hands its first entry to FindBuffered as the buffer.
	big := []int{-7, -7, -7, -7, -7, -7}
	buf := big[:1]
	if r := ds.FindBuffered(0, buf); r != 7 {
		t.Fatalf("FindBuffered(0)=%d want 7", r)
	}
	// the compression is the same on both trees
	if want := []int{7, 7, 3, 7, 5, 7, 7, -4}; !reflect.DeepEqual([]int(ds), want) {
		t.Fatalf("after FindBuffered(0): %v want %v", []int(ds), want)
	}
	t.Logf("big after FindBuffered(0, big[:1]) on the path 0,1,3,7: %v", big)
	// OLD behaviour: the path spills over into big[1:4], behind the length of the buffer.
	if want := []int{0, 1, 3, 7, -7, -7}; !reflect.DeepEqual(big, want) {
		t.Errorf("big = %v, the clean tree leaves %v", big, want)
	}
	checkChain(t, ds)
}

func TestIncidentalNilBuffer(t *testing.T) {
	ds := chain()
	panicked := func() (p bool) {
		defer func() { p = recover() != nil }()
		ds.FindBuffered(0, nil)
		return
	}()
	t.Logf("FindBuffered(0, nil) on a non-root panics: %v", panicked)
	// OLD behaviour: buf[:1] of a nil buffer is refused by the runtime.
	if !panicked {
		t.Errorf("FindBuffered(0, nil) did not panic; the clean tree panics (slice bounds out of range)")
	}
	checkChain(t, ds)
}

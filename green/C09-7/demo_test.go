// Demo for C09 change 7: AllMaximalCliques no longer stalls its search while the receiver is busy: a clique that
// cannot be handed over at once is kept in a small internal FIFO queue (at most 64 cliques) and the search goes on.
//
// Run (from the root of the library worktree, offline):
//
//	export GOFLAGS=-mod=mod GOPROXY=off GOSUMDB=off GOTOOLCHAIN=local
//	mkdir -p greendemo && cp /tmp/green-out/C09/7/demo_test.go greendemo/demo_test.go
//	go test -vet=off -count=1 -timeout 600s -v ./greendemo
//	rm -r greendemo
//
// TestIncidentalSearchWaitsForReceiver hands AllMaximalCliques a graph.Graph implemented in this file that counts the
// IsEdge calls, takes ONE clique from an unbuffered channel and then does not receive for a while.  It asserts what
// the OLD implementation does: the search stands still inside the send of the second clique, i.e. the number of
// IsEdge calls made while the receiver is away stays below the total of the whole run.  It PASSES on the clean tree
// and FAILS with the change (the search runs to its end while the receiver is away: all IsEdge calls are made).
// TestPropertyAllMaximalCliques checks what C09 demands of AllMaximalCliques: the cliques received are exactly the
// maximal cliques of the graph (brute force over all vertex subsets), each exactly once, and then the channel is
// closed - for the dense, sparse, view and caller-implemented representations, for relabellings, for n = 0, 1 and
// disconnected graphs, for graphs with more maximal cliques than the internal queue holds, and for receivers that
// are fast, slow, or use a buffered channel and call the function synchronously.  It PASSES on both trees.
package greendemo

import (
	"fmt"
	"math/rand"
	"sort"
	"sync/atomic"
	"testing"
	"time"

	"github.com/Tom-Johnston/mamba/graph"
	"github.com/Tom-Johnston/mamba/sortints"
)

// counting is a read only graph implemented by the caller; it counts the IsEdge calls.
type counting struct {
	g      graph.Graph
	isEdge *int64
}

func (c counting) N() int { return c.g.N() }
func (c counting) M() int { return c.g.M() }
func (c counting) IsEdge(i, j int) bool {
	atomic.AddInt64(c.isEdge, 1)
	return c.g.IsEdge(i, j)
}
func (c counting) Neighbours(v int) []int { return c.g.Neighbours(v) }
func (c counting) Degrees() []int         { return c.g.Degrees() }

func newCounting(g graph.Graph) counting { return counting{g, new(int64)} }

func TestIncidentalSearchWaitsForReceiver(t *testing.T) {
	for _, tc := range []struct {
		name string
		g    graph.Graph
	}{
		{"Cycle(12)", graph.Cycle(12)},
		{"K_{2,2,2,2}", graph.CompletePartiteGraph(2, 2, 2, 2)},
		{"Petersen", graph.KneserGraph(5, 2)},
	} {
		cg := newCounting(tc.g)
		c := make(chan []int)
		go graph.AllMaximalCliques(cg, c)
		first := <-c
		// Do not receive; wait until the search has stopped moving.
		last, stable := int64(-1), 0
		for stable < 3 {
			time.Sleep(200 * time.Millisecond)
			now := atomic.LoadInt64(cg.isEdge)
			if now == last {
				stable++
			} else {
				stable = 0
				last = now
			}
		}
		whileAway := last
		cliques := 1
		for range c {
			cliques++
		}
		total := atomic.LoadInt64(cg.isEdge)
		t.Logf("%s: first clique %v, %d cliques; IsEdge calls made while the receiver was away after the first clique: %d of %d", tc.name, first, cliques, whileAway, total)
		if whileAway >= total {
			t.Errorf("%s: the search did not wait for the receiver: all %d IsEdge calls were made before the second clique was taken (old behaviour: the search stands still in the send of the second clique)", tc.name, total)
		}
	}
}

// bruteMaximalCliques returns the sorted list of the maximal cliques (as sorted vertex lists written as strings).
func bruteMaximalCliques(g graph.Graph) []string {
	n := g.N()
	isClique := make([]bool, 1<<uint(n))
	for s := 0; s < 1<<uint(n); s++ {
		ok := true
	check:
		for i := 0; i < n; i++ {
			if s&(1<<uint(i)) == 0 {
				continue
			}
			for j := 0; j < i; j++ {
				if s&(1<<uint(j)) != 0 && !g.IsEdge(i, j) {
					ok = false
					break check
				}
			}
		}
		isClique[s] = ok
	}
	res := []string{}
	for s := 0; s < 1<<uint(n); s++ {
		if !isClique[s] {
			continue
		}
		maximal := true
		for v := 0; v < n; v++ {
			if s&(1<<uint(v)) == 0 && isClique[s|1<<uint(v)] {
				maximal = false
				break
			}
		}
		if maximal {
			vs := []int{}
			for v := 0; v < n; v++ {
				if s&(1<<uint(v)) != 0 {
					vs = append(vs, v)
				}
			}
			res = append(res, fmt.Sprint(vs))
		}
	}
	sort.Strings(res)
	return res
}

func normalise(cliques [][]int) []string {
	res := make([]string, len(cliques))
	for i, cl := range cliques {
		tmp := append([]int{}, cl...)
		sort.Ints(tmp)
		res[i] = fmt.Sprint(tmp)
	}
	sort.Strings(res)
	return res
}

// receive collects the cliques in one of several ways and fails if the channel is not closed in the end.
func receive(g graph.Graph, mode int, expected int) [][]int {
	res := [][]int{}
	switch mode {
	case 0: // unbuffered, eager receiver
		c := make(chan []int)
		go graph.AllMaximalCliques(g, c)
		for cl := range c {
			res = append(res, cl)
		}
	case 1: // unbuffered, receiver that is away now and then and scribbles on what it got
		c := make(chan []int)
		go graph.AllMaximalCliques(g, c)
		k := 0
		for cl := range c {
			res = append(res, append([]int{}, cl...))
			for i := range cl {
				cl[i] = -7
			}
			_ = append(cl, -9)
			if k%5 == 0 {
				time.Sleep(time.Millisecond)
			}
			k++
		}
	case 2: // buffered channel that holds everything, synchronous call
		c := make(chan []int, expected)
		graph.AllMaximalCliques(g, c)
		for cl := range c {
			res = append(res, cl)
		}
	case 3: // small buffer
		c := make(chan []int, 3)
		go graph.AllMaximalCliques(g, c)
		for cl := range c {
			res = append(res, cl)
		}
	}
	return res
}

func toSparse(g graph.Graph) *graph.SparseGraph {
	n := g.N()
	nb := make([]sortints.SortedInts, n)
	for v := 0; v < n; v++ {
		nb[v] = append([]int{}, g.Neighbours(v)...)
	}
	return graph.NewSparse(n, nb)
}

func relabel(g graph.Graph, perm []int) *graph.DenseGraph {
	n := g.N()
	h := graph.NewDense(n, nil)
	for i := 0; i < n; i++ {
		for j := 0; j < i; j++ {
			if g.IsEdge(i, j) {
				h.AddEdge(perm[i], perm[j])
			}
		}
	}
	return h
}

func TestPropertyAllMaximalCliques(t *testing.T) {
	rng := rand.New(rand.NewSource(9))
	pool := []graph.Graph{
		graph.NewDense(0, nil), graph.NewDense(1, nil), graph.NewDense(2, nil), graph.NewDense(5, nil),
		graph.CompleteGraph(2), graph.CompleteGraph(6), graph.Path(7), graph.Cycle(9), graph.Star(8),
		graph.KneserGraph(5, 2), graph.FriendshipGraph(4), graph.CompletePartiteGraph(2, 2, 2, 2),
		graph.CompletePartiteGraph(3, 3, 3, 3),          // 81 maximal cliques, more than the queue holds
		graph.CompletePartiteGraph(3, 3, 3, 3, 3),       // 243
		graph.CompletePartiteGraph(2, 2, 2, 2, 2, 2, 2), // 128
	}
	// disconnected: two triangles and an isolated vertex
	d := graph.NewDense(7, nil)
	for _, e := range [][2]int{{0, 1}, {1, 2}, {0, 2}, {3, 4}, {4, 5}, {3, 5}} {
		d.AddEdge(e[0], e[1])
	}
	pool = append(pool, d)
	for i := 0; i < 60; i++ {
		pool = append(pool, graph.RandomGraph(rng.Intn(10), rng.Float64(), rng.Int63()))
	}
	runs := 0
	for gi, g0 := range pool {
		n := g0.N()
		perm := rng.Perm(n)
		rel := relabel(g0, perm)
		reps := map[string]graph.Graph{
			"dense":      g0,
			"relabelled": rel,
			"sparse":     toSparse(rel),
			"view":       graph.InducedSubgraph(g0, rng.Perm(n)),
			"view2":      graph.Complement(graph.Complement(toSparse(g0))),
			"caller":     newCounting(g0),
		}
		for name, g := range reps {
			want := bruteMaximalCliques(g)
			for mode := 0; mode < 4; mode++ {
				got := normalise(receive(g, mode, len(want)))
				runs++
				if fmt.Sprint(got) != fmt.Sprint(want) {
					t.Fatalf("graph %d (%s, n=%d) mode %d: got %d cliques %v, want %d cliques %v", gi, name, n, mode, len(got), got, len(want), want)
				}
			}
		}
	}
	t.Logf("%d runs agree with the definition, every maximal clique exactly once, channel closed", runs)
}

package c20

// A reader for the part of the TSPLIB 95 format that tsp.LIB produces,
// written from the format description (Reinelt, "TSPLIB 95"): a specification
// part of "<keyword> : <value>" lines, then data sections introduced by a bare
// keyword, terminated by EOF.  It shares nothing with the library.

import (
	"fmt"
	"strconv"
	"strings"

	"verif/internal/selfcheck"
)

// keywords of the specification part (TSPLIB 95, section 1.1)
var specKeywords = map[string]bool{
	"NAME": true, "TYPE": true, "COMMENT": true, "DIMENSION": true, "CAPACITY": true,
	"EDGE_WEIGHT_TYPE": true, "EDGE_WEIGHT_FORMAT": true, "EDGE_DATA_FORMAT": true,
	"NODE_COORD_TYPE": true, "DISPLAY_DATA_TYPE": true,
}

// keywords of the data part (TSPLIB 95, section 1.2)
var sectionKeywords = map[string]bool{
	"NODE_COORD_SECTION": true, "DEPOT_SECTION": true, "DEMAND_SECTION": true, "EDGE_DATA_SECTION": true,
	"FIXED_EDGES_SECTION": true, "DISPLAY_DATA_SECTION": true, "TOUR_SECTION": true, "EDGE_WEIGHT_SECTION": true,
}

type tspDoc struct {
	Spec        map[string]string
	SpecOrder   []string
	Rows        [][]int64 // lines of the EDGE_WEIGHT_SECTION
	BlankInSect int       // blank lines inside the weight section (ignored)
	HasEOF      bool
	WeightStart int // byte offset of the first byte after the EDGE_WEIGHT_SECTION line
	EOFStart    int // byte offset of the line that ends the weight section (EOF keyword), or len(data)
	EndsNewline bool
}

// parseErr: Kind is a stable short name used in violation keys.
type parseErr struct {
	Kind string
	Msg  string
}

func (e *parseErr) Error() string { return e.Kind + ": " + e.Msg }

func perr(kind, format string, a ...interface{}) *parseErr {
	return &parseErr{Kind: kind, Msg: fmt.Sprintf(format, a...)}
}

// parseTSPLIB reads a TSPLIB file that has (at most) an EDGE_WEIGHT_SECTION.
func parseTSPLIB(data []byte) (*tspDoc, *parseErr) {
	d := &tspDoc{Spec: map[string]string{}, WeightStart: -1, EOFStart: len(data)}
	for _, b := range data {
		if b >= 0x80 || (b < 0x20 && b != '\n' && b != '\r' && b != '\t') {
			return nil, perr("not-text", "byte 0x%02x in the output", b)
		}
	}
	d.EndsNewline = len(data) > 0 && data[len(data)-1] == '\n'
	type line struct {
		off  int
		text string
	}
	var lines []line
	for off := 0; off < len(data); {
		nl := off
		for nl < len(data) && data[nl] != '\n' {
			nl++
		}
		lines = append(lines, line{off, string(data[off:nl])})
		off = nl + 1
	}
	state := "spec" // spec | weights | done
	for li, ln := range lines {
		t := strings.TrimSpace(ln.text)
		switch state {
		case "spec":
			if t == "" {
				return nil, perr("malformed-header", "blank line %d in the specification part", li+1)
			}
			if t == "EOF" {
				d.HasEOF = true
				d.EOFStart = ln.off
				state = "done"
				continue
			}
			if c := strings.IndexByte(t, ':'); c >= 0 {
				k := strings.TrimSpace(t[:c])
				v := strings.TrimSpace(t[c+1:])
				if !specKeywords[k] {
					return nil, perr("malformed-header", "line %d: %q is not a TSPLIB specification keyword", li+1, k)
				}
				if _, dup := d.Spec[k]; dup {
					return nil, perr("malformed-header", "line %d: keyword %s given twice", li+1, k)
				}
				d.Spec[k] = v
				d.SpecOrder = append(d.SpecOrder, k)
				continue
			}
			if t == "EDGE_WEIGHT_SECTION" {
				state = "weights"
				d.WeightStart = ln.off + len(ln.text) + 1
				if d.WeightStart > len(data) {
					d.WeightStart = len(data)
				}
				continue
			}
			if sectionKeywords[t] {
				return nil, perr("malformed-header", "line %d: unexpected data section %s", li+1, t)
			}
			return nil, perr("malformed-header", "line %d: %q is neither '<keyword> : <value>' nor a section keyword", li+1, t)
		case "weights":
			if t == "" {
				// a trailing empty string after the last newline is not a line
				d.BlankInSect++
				continue
			}
			if t == "EOF" {
				d.HasEOF = true
				d.EOFStart = ln.off
				state = "done"
				continue
			}
			fs := strings.Fields(t)
			row := make([]int64, 0, len(fs))
			for _, f := range fs {
				v, err := strconv.ParseInt(f, 10, 64)
				if err != nil {
					return nil, perr("malformed-weights", "line %d: %q is not an integer (%v)", li+1, f, err)
				}
				row = append(row, v)
			}
			d.Rows = append(d.Rows, row)
		case "done":
			if t != "" {
				return nil, perr("data-after-EOF", "line %d: %q after EOF", li+1, t)
			}
		}
	}
	return d, nil
}

// checkDoc compares a parsed document with what LIB(w, n, weights) has to
// write: the problem is a TSP of DIMENSION n with EXPLICIT weights in
// LOWER_DIAG_ROW format; row i = want(i,0) ... want(i,i-1) 0; EOF.
func checkDoc(d *tspDoc, n int, want func(i, j int) int64) *parseErr {
	if e := checkSpec(d.Spec, d.WeightStart >= 0, n); e != nil {
		return e
	}
	// the numbers, read as TSPLIB readers do (a stream), then the row structure
	var flat []int64
	for _, r := range d.Rows {
		flat = append(flat, r...)
	}
	if len(flat) != n*(n+1)/2 {
		return perr("wrong-weight-count", "the weight section has %d numbers, want n(n+1)/2 = %d", len(flat), n*(n+1)/2)
	}
	k := 0
	for i := 0; i < n; i++ {
		for j := 0; j <= i; j++ {
			w := int64(0)
			if j < i {
				w = want(i, j)
			}
			if flat[k] != w {
				return wrongEntry(i, j, flat[k], w)
			}
			k++
		}
	}
	if len(d.Rows) != n {
		return perr("wrong-row-count", "the weight section has %d rows, want %d", len(d.Rows), n)
	}
	for i, r := range d.Rows {
		if len(r) != i+1 {
			return perr("wrong-row-length", "row %d has %d numbers, want %d", i, len(r), i+1)
		}
	}
	if !d.HasEOF {
		return perr("missing-EOF", "the file does not end with EOF")
	}
	return nil
}

func wrongEntry(i, j int, got, w int64) *parseErr {
	if j == i {
		return perr("nonzero-diagonal", "entry (%d,%d) is %d, want 0", i, j, got)
	}
	return perr("wrong-weight", "entry (%d,%d) is %d, want weights(%d,%d) = %d", i, j, got, i, j, w)
}

// checkSpec: the specification part of what LIB(w, n, weights) has to write
// (shared by the reader of whole documents and the streaming reader of
// volume.go).  hasSection: an EDGE_WEIGHT_SECTION line was seen.
func checkSpec(spec map[string]string, hasSection bool, n int) *parseErr {
	need := func(k, v string) *parseErr {
		got, ok := spec[k]
		if !ok {
			return perr("missing-"+k, "no %s line", k)
		}
		if got != v {
			return perr("wrong-"+k, "%s is %q, want %q", k, got, v)
		}
		return nil
	}
	if e := need("TYPE", "TSP"); e != nil {
		return e
	}
	dim, ok := spec["DIMENSION"]
	if !ok {
		return perr("missing-DIMENSION", "no DIMENSION line")
	}
	if v, err := strconv.ParseInt(dim, 10, 64); err != nil || v != int64(n) {
		return perr("wrong-DIMENSION", "DIMENSION is %q, want %d", dim, n)
	}
	if e := need("EDGE_WEIGHT_TYPE", "EXPLICIT"); e != nil {
		return e
	}
	if e := need("EDGE_WEIGHT_FORMAT", "LOWER_DIAG_ROW"); e != nil {
		return e
	}
	// No coordinates are written, so the only display type that is
	// consistent is NO_DISPLAY (it is also the default when absent).
	if v, ok := spec["DISPLAY_DATA_TYPE"]; ok && v != "NO_DISPLAY" {
		return perr("wrong-DISPLAY_DATA_TYPE", "DISPLAY_DATA_TYPE is %q but no display data follows", v)
	}
	if v, ok := spec["NODE_COORD_TYPE"]; ok && v != "NO_COORDS" {
		return perr("wrong-NODE_COORD_TYPE", "NODE_COORD_TYPE is %q but no coordinates follow", v)
	}
	if !hasSection {
		return perr("missing-EDGE_WEIGHT_SECTION", "no EDGE_WEIGHT_SECTION")
	}
	return nil
}

// readerCorpus: a hand-written document in the layout of the TSPLIB 95
// description (spaces around ':' as printed there, free alignment of the
// numbers), its weights, and corrupted versions of it with the kind of error a
// reader has to report.
func readerCorpus() (good string, w func(i, j int) int64, bad []struct{ kind, doc string }) {
	good = "NAME : tiny\nCOMMENT : three cities\nTYPE : TSP\nDIMENSION : 3\nEDGE_WEIGHT_TYPE : EXPLICIT\n" +
		"EDGE_WEIGHT_FORMAT : LOWER_DIAG_ROW\nEDGE_WEIGHT_SECTION\n0\n  -5 0\n 7\t9223372036854775807   0\nEOF\n"
	w = func(i, j int) int64 {
		return map[[2]int]int64{{1, 0}: -5, {2, 0}: 7, {2, 1}: 9223372036854775807}[[2]int{i, j}]
	}
	bad = []struct{ kind, doc string }{
		{"wrong-DIMENSION", strings.Replace(good, "DIMENSION : 3", "DIMENSION : 4", 1)},
		{"missing-DIMENSION", strings.Replace(good, "DIMENSION : 3\n", "", 1)},
		{"wrong-TYPE", strings.Replace(good, "TYPE : TSP", "TYPE : ATSP", 1)},
		{"wrong-EDGE_WEIGHT_FORMAT", strings.Replace(good, "LOWER_DIAG_ROW", "UPPER_DIAG_ROW", 1)},
		{"wrong-EDGE_WEIGHT_TYPE", strings.Replace(good, "EXPLICIT", "EUC_2D", 1)},
		{"wrong-weight", strings.Replace(good, "-5", "5", 1)},
		{"wrong-weight", strings.Replace(good, "9223372036854775807", "9223372036854775806", 1)},
		{"nonzero-diagonal", strings.Replace(good, "-5 0", "-5 1", 1)},
		{"wrong-weight-count", strings.Replace(good, "  -5 0\n", "", 1)},
		{"wrong-weight-count", strings.Replace(good, "-5 0", "-5 0 0", 1)},
		{"wrong-row-count", strings.Replace(good, "0\n  -5 0", "0  -5 0", 1)},
		{"wrong-row-length", strings.Replace(good, "0\n  -5 0", "0 -5\n 0", 1)},
		{"missing-EOF", strings.Replace(good, "EOF\n", "", 1)},
		{"data-after-EOF", good + "1\n"},
		{"malformed-weights", strings.Replace(good, "-5", "-5.0", 1)},
		{"malformed-weights", strings.Replace(good, "9223372036854775807", "9223372036854775808", 1)},
		{"malformed-header", strings.Replace(good, "NAME :", "NAMES :", 1)},
		{"malformed-header", strings.Replace(good, "TYPE : TSP\n", "TYPE : TSP\nTYPE : TSP\n", 1)},
		{"malformed-header", strings.Replace(good, "EDGE_WEIGHT_SECTION", "EDGE_WEIGHT", 1)},
		{"wrong-DISPLAY_DATA_TYPE", "DISPLAY_DATA_TYPE: TWOD_DISPLAY\n" + good},
		{"not-text", strings.Replace(good, "tiny", "t\x00ny", 1)},
	}
	return
}

func init() {
	selfcheck.Add("c20: TSPLIB reader", func() error {
		good, w, bad := readerCorpus()
		d, e := parseTSPLIB([]byte(good))
		if e != nil {
			return fmt.Errorf("good document rejected: %v", e)
		}
		if e := checkDoc(d, 3, w); e != nil {
			return fmt.Errorf("good document rejected: %v", e)
		}
		if d.WeightStart != strings.Index(good, "EDGE_WEIGHT_SECTION\n")+len("EDGE_WEIGHT_SECTION\n") || d.EOFStart != strings.Index(good, "EOF") {
			return fmt.Errorf("section offsets wrong: %d %d", d.WeightStart, d.EOFStart)
		}
		// the format of the library's output for n=0 (no rows)
		d, e = parseTSPLIB([]byte("TYPE: TSP\nDIMENSION: 0\nEDGE_WEIGHT_TYPE: EXPLICIT\nEDGE_WEIGHT_FORMAT: LOWER_DIAG_ROW\nEDGE_WEIGHT_SECTION\nEOF\n"))
		if e != nil || checkDoc(d, 0, w) != nil {
			return fmt.Errorf("empty problem rejected")
		}
		for i, b := range bad {
			d, e := parseTSPLIB([]byte(b.doc))
			if e == nil {
				e = checkDoc(d, 3, w)
			}
			if e == nil || e.Kind != b.kind {
				return fmt.Errorf("bad document %d: got %v, want kind %s", i, e, b.kind)
			}
		}
		return nil
	})
}

// Demonstration for C01, change 5 (CanonicalIsomorphFull reads g.N() once, never calls g.M() and takes the number of
// edges from the neighbourhoods it fetches anyway).
//
// Run (from the root of the library, public API only):
//
//	export GOFLAGS=-mod=mod GOPROXY=off GOSUMDB=off GOTOOLCHAIN=local
//	cp demo_test.go graph/zz_demo_test.go
//	go test -vet=off -count=1 -timeout 300s -run 'TestDemo' -v ./graph/
//	rm graph/zz_demo_test.go
//
// TestDemoProperty checks the property itself: CanonicalIsomorph returns a permutation, the canonical graph is the same
// for EVERY relabelling of every graph with at most 5 vertices, for all 40320 relabellings of G|WW}K and GhcqSK, for
// random relabellings of larger symmetric graphs, dense and sparse, and the number of distinct canonical graphs is the
// number of isomorphism classes.  It passes before and after the change.
// TestDemoIncidentalCalls asserts the calls the CLEAN tree happens to make on the Graph it is given (N four times, M
// three times, Neighbours once per vertex).  With the change: N once, M never.
// TestDemoIncidentalOutsideDomain hands over a value that is NOT a consistent simple graph (a *DenseGraph whose exported
// field NumberOfEdges was zeroed by hand while the adjacencies still describe the path 0-1-2-3).  The clean tree trusts
// M(), treats it as edgeless and returns the identity; with the change the adjacencies are canonicalised ([3 0 2 1]).
// Both incidental tests pass on the clean tree and fail with the change.
package graph_test

import (
	"fmt"
	"math/rand"
	"testing"

	"github.com/Tom-Johnston/mamba/graph"
	"github.com/Tom-Johnston/mamba/sortints"
)

func d5IsPerm(p []int, n int) bool {
	if len(p) != n {
		return false
	}
	seen := make([]bool, n)
	for _, v := range p {
		if v < 0 || v >= n || seen[v] {
			return false
		}
		seen[v] = true
	}
	return true
}

func d5Sparse(g graph.Graph) *graph.SparseGraph {
	n := g.N()
	nb := make([]sortints.SortedInts, n)
	for i := 0; i < n; i++ {
		nb[i] = append(sortints.SortedInts{}, g.Neighbours(i)...)
	}
	return graph.NewSparse(n, nb)
}

func d5Canon(t *testing.T, g graph.EditableGraph) string {
	p := graph.CanonicalIsomorph(g)
	if !d5IsPerm(p, g.N()) {
		t.Fatalf("not a permutation: %v for %v", p, graph.Graph6Encode(g))
	}
	return graph.Graph6Encode(g.InducedSubgraph(p))
}

func d5Perms(n int, f func([]int)) {
	a := make([]int, n)
	for i := range a {
		a[i] = i
	}
	var rec func(k int)
	rec = func(k int) {
		if k == n {
			f(a)
			return
		}
		for i := k; i < n; i++ {
			a[k], a[i] = a[i], a[k]
			rec(k + 1)
			a[k], a[i] = a[i], a[k]
		}
	}
	rec(0)
}

func TestDemoProperty(t *testing.T) {
	classes := []int{1, 1, 2, 4, 11, 34}
	for n := 0; n <= 5; n++ {
		N := n * (n - 1) / 2
		set := map[string]bool{}
		for mask := 0; mask < 1<<uint(N); mask++ {
			edges := make([]byte, N)
			for j := range edges {
				edges[j] = byte(mask >> uint(j) & 1)
			}
			g := graph.NewDense(n, edges)
			c := d5Canon(t, g)
			set[c] = true
			if cs := d5Canon(t, d5Sparse(g)); cs != c {
				t.Fatalf("sparse and dense differ for %v", graph.Graph6Encode(g))
			}
			d5Perms(n, func(pi []int) {
				if c2 := d5Canon(t, g.InducedSubgraph(pi)); c2 != c {
					t.Fatalf("%v relabelled by %v: %v, want %v", graph.Graph6Encode(g), pi, c2, c)
				}
			})
		}
		if len(set) != classes[n] {
			t.Fatalf("n=%v: %v canonical graphs, want %v", n, len(set), classes[n])
		}
	}
	for _, s := range []string{"G|WW}K", "GhcqSK"} {
		g, err := graph.Graph6Decode(s)
		if err != nil {
			t.Fatal(err)
		}
		c := d5Canon(t, g)
		k := 0
		d5Perms(8, func(pi []int) {
			h := g.InducedSubgraph(pi)
			if c2 := d5Canon(t, h); c2 != c {
				t.Fatalf("%v relabelled by %v: %v, want %v", s, pi, c2, c)
			}
			if k%64 == 0 {
				if c2 := d5Canon(t, d5Sparse(h)); c2 != c {
					t.Fatalf("%v (sparse) relabelled by %v: %v, want %v", s, pi, c2, c)
				}
			}
			k++
		})
	}
	rng := rand.New(rand.NewSource(5))
	big := []graph.EditableGraph{graph.KneserGraph(5, 2), graph.HypercubeGraph(4), graph.RookGraph(4, 4), graph.Cycle(12), graph.CompleteGraph(9), graph.NewDense(7, nil), graph.CirculantGraph(13, 1, 3, 4), graph.RandomGraph(20, 0.4, 7), graph.RandomTree(25, 3)}
	seen := map[string]int{}
	for i, g := range big {
		c := d5Canon(t, g)
		if j, ok := seen[c]; ok {
			t.Fatalf("graphs %v and %v share a canonical graph", i, j)
		}
		seen[c] = i
		for r := 0; r < 200; r++ {
			h := g.InducedSubgraph(rng.Perm(g.N()))
			if r%2 == 1 {
				h = d5Sparse(h)
			}
			if c2 := d5Canon(t, h); c2 != c {
				t.Fatalf("graph %v: a relabelling has another canonical graph", i)
			}
		}
	}
}

// d5Counting wraps a Graph and counts the calls made on it.
type d5Counting struct {
	g                 graph.Graph
	n, m, nbrs, other int
}

func (c *d5Counting) N() int                 { c.n++; return c.g.N() }
func (c *d5Counting) M() int                 { c.m++; return c.g.M() }
func (c *d5Counting) IsEdge(i, j int) bool   { c.other++; return c.g.IsEdge(i, j) }
func (c *d5Counting) Neighbours(v int) []int { c.nbrs++; return c.g.Neighbours(v) }
func (c *d5Counting) Degrees() []int         { c.other++; return c.g.Degrees() }

func TestDemoIncidentalCalls(t *testing.T) {
	g := graph.KneserGraph(5, 2)
	w := &d5Counting{g: g}
	p := graph.CanonicalIsomorph(w)
	//The property on this input: same answer as for the unwrapped graph, which is a permutation.
	if q := graph.CanonicalIsomorph(g); fmt.Sprint(p) != fmt.Sprint(q) || !d5IsPerm(p, 10) {
		t.Fatalf("wrapped %v unwrapped %v", p, q)
	}
	got := fmt.Sprintf("N:%d M:%d Neighbours:%d other:%d", w.n, w.m, w.nbrs, w.other)
	t.Log(got)
	if want := "N:4 M:3 Neighbours:10 other:0"; got != want {
		t.Errorf("calls on the graph: %v, the clean tree makes %v", got, want)
	}
}

func TestDemoIncidentalOutsideDomain(t *testing.T) {
	g := graph.Path(4)
	good := graph.CanonicalIsomorph(g)
	if !d5IsPerm(good, 4) {
		t.Fatal("not a permutation")
	}
	//Not a consistent graph any more: M() says 0, the adjacencies say 3 edges.
	g.NumberOfEdges = 0
	p := graph.CanonicalIsomorph(g)
	t.Logf("consistent graph: %v, inconsistent value: %v", good, p)
	if fmt.Sprint(p) != "[0 1 2 3]" {
		t.Errorf("inconsistent value: %v, the clean tree returns the identity (it believes M() == 0)", p)
	}
}

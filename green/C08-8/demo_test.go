// Demo for C08 green change 8 (Sparse6Decode refuses declared sizes far outside the property's domain which are out of
// all proportion to the length of the input: n > 2^20 and more than 64 vertices per byte).
//
// Run (from the root of the library worktree):
//
//	cp /tmp/green-out/C08/8/demo_test.go graph/zz_c08_demo_test.go
//	export GOFLAGS=-mod=mod GOPROXY=off GOSUMDB=off GOTOOLCHAIN=local
//	go test -vet=off -count=1 -timeout 300s -run 'TestC08Demo' -v ./graph/
//	rm graph/zz_c08_demo_test.go
//
// TestC08DemoProperty       checks the property itself on random, truncated, padded and corrupted sparse6 strings
//
//	with a declared n <= 4096 (no panic; error or well-formed graph on the declared n;
//	re-encode and decode again gives the same graph) and that every n up to 2^20, and a
//	larger n in a proportionally long string, is still decoded.
//	PASSES on the clean tree and with the change.
//
// TestC08DemoIncidentalOld  asserts the OLD behaviour OUTSIDE the domain: the nine byte string ":~~??C??@" (n = 2^20+1,
//
//	no edges) is decoded to the empty graph on 1048577 vertices.  PASSES on the clean tree
//	(allocating about 60 MB), FAILS with the change (error 'Graph too large for the length
//	of the input').
package graph_test

import (
	"fmt"
	"math/rand"
	"sort"
	"strings"
	"testing"

	"github.com/Tom-Johnston/mamba/graph"
)

func c08WellFormedSparse(g *graph.SparseGraph, n int) error {
	if g == nil {
		return fmt.Errorf("nil graph")
	}
	if g.N() != n || len(g.Neighbourhoods) != n || len(g.DegreeSequence) != n {
		return fmt.Errorf("N = %v (%v, %v), declared %v", g.N(), len(g.Neighbourhoods), len(g.DegreeSequence), n)
	}
	sum := 0
	for v, nb := range g.Neighbourhoods {
		if len(nb) != g.DegreeSequence[v] {
			return fmt.Errorf("degree of %v", v)
		}
		sum += len(nb)
		if !sort.IntsAreSorted(nb) {
			return fmt.Errorf("neighbourhood of %v not sorted", v)
		}
		for i, u := range nb {
			if u < 0 || u >= n || u == v || (i > 0 && nb[i-1] == u) {
				return fmt.Errorf("bad neighbour %v of %v", u, v)
			}
			w := g.Neighbourhoods[u]
			k := sort.SearchInts(w, v)
			if k == len(w) || w[k] != v {
				return fmt.Errorf("edge %v-%v not symmetric", u, v)
			}
		}
	}
	if sum != 2*g.M() {
		return fmt.Errorf("M = %v, degree sum %v", g.M(), sum)
	}
	return nil
}

// c08SameSparse compares two well-formed sparse graphs (graph.Equal asks IsEdge for every pair, too slow for n = 4096 in a loop).
func c08SameSparse(g, h *graph.SparseGraph) bool {
	if g.N() != h.N() || g.M() != h.M() || len(g.Neighbourhoods) != len(h.Neighbourhoods) {
		return false
	}
	for v := range g.Neighbourhoods {
		if len(g.Neighbourhoods[v]) != len(h.Neighbourhoods[v]) {
			return false
		}
		for i, u := range g.Neighbourhoods[v] {
			if h.Neighbourhoods[v][i] != u {
				return false
			}
		}
	}
	return true
}

// c08DeclaredN reads the size header of a sparse6 body (after the ':') the way formats.txt defines it.
func c08DeclaredN(s string) (n uint64, ok bool) {
	if len(s) == 0 {
		return 0, false
	}
	if s[0] != 126 {
		return uint64(s[0] - 63), true
	}
	if len(s) < 2 || s[1] != 126 {
		if len(s) < 4 {
			return 0, false
		}
		return uint64(s[1]-63)<<12 + uint64(s[2]-63)<<6 + uint64(s[3]-63), true
	}
	if len(s) < 8 {
		return 0, false
	}
	for _, c := range []byte(s[2:8]) {
		n = n<<6 + uint64(c-63)
	}
	return n, true
}

func c08CheckSparse6(t *testing.T, s string) {
	t.Helper()
	body := strings.TrimPrefix(s, ">>sparse6<<")
	n := -1
	if len(body) > 0 && body[0] == ':' {
		body = body[1:]
		inRange := true
		for i := 0; i < len(body); i++ {
			if body[i] < 63 || body[i] > 126 {
				inRange = false
			}
		}
		if inRange {
			if d, ok := c08DeclaredN(body); ok {
				if d > 4096 {
					return //outside the quantifier
				}
				n = int(d)
			}
		}
	}
	var g *graph.SparseGraph
	var err error
	func() {
		defer func() {
			if r := recover(); r != nil {
				t.Fatalf("Sparse6Decode(%q) panicked: %v", s, r)
			}
		}()
		g, err = graph.Sparse6Decode(s)
	}()
	if err != nil {
		return
	}
	if n < 0 {
		t.Fatalf("Sparse6Decode(%q) succeeded without a readable size", s)
	}
	if e := c08WellFormedSparse(g, n); e != nil {
		t.Fatalf("Sparse6Decode(%q): %v", s, e)
	}
	h, err := graph.Sparse6Decode(graph.Sparse6Encode(g))
	if err != nil || !c08SameSparse(g, h) || c08WellFormedSparse(h, n) != nil {
		t.Fatalf("Sparse6Decode(%q): round trip failed", s)
	}
	if n <= 200 {
		d, err := graph.Graph6Decode(graph.Graph6Encode(g))
		if err != nil || !graph.Equal(g, d) {
			t.Fatalf("Sparse6Decode(%q): graph6 round trip failed", s)
		}
	}
}

func c08Header(n int) string {
	if n <= 62 {
		return ":" + string(rune(n+63))
	}
	if n <= 258047 {
		return ":~" + string([]byte{byte(n>>12&63) + 63, byte(n>>6&63) + 63, byte(n&63) + 63})
	}
	return ":~~" + string([]byte{byte(n>>30&63) + 63, byte(n>>24&63) + 63, byte(n>>18&63) + 63, byte(n>>12&63) + 63, byte(n>>6&63) + 63, byte(n&63) + 63})
}

func TestC08DemoProperty(t *testing.T) {
	rng := rand.New(rand.NewSource(88))
	fixed := []string{"", ":", "~", ":~", ":~~", ":~~~", ":?", ":@", ":A", ":A_", ":An", ":Fa@x^", ":D]N", ":K`ADOccQXK`IaXcQMb",
		">>sparse6<<:K`ADOccQXK`IaXcQMb", ">>sparse6<<", ">>sparse6<<:", ":~??D", ":~??D~~~", ":~~?????D", ":~~?????D~~", ":~~~~~~~", "DQc",
		":D\x00c", ":D\xffc", ":D\n", ";D", c08Header(4096), c08Header(4096) + "~~~~", c08Header(4096) + "????", c08Header(4095) + "~?~?~?"}
	for _, s := range fixed {
		c08CheckSparse6(t, s)
	}
	for it := 0; it < 3000; it++ {
		n := rng.Intn(70)
		if it%50 == 0 {
			n = 63 + rng.Intn(4034)
		}
		g := graph.NewSparse(n, nil)
		for k := rng.Intn(3*n + 1); k > 0; k-- {
			g.AddEdge(rng.Intn(n), rng.Intn(n))
		}
		s := graph.Sparse6Encode(g)
		c08CheckSparse6(t, s)
		h, err := graph.Sparse6Decode(s)
		if err != nil || !c08SameSparse(g, h) {
			t.Fatalf("decode(encode(g)) != g for %q", s)
		}
		b := []byte(s)
		switch rng.Intn(6) {
		case 0:
			b = b[:rng.Intn(len(b)+1)]
		case 1:
			for k := rng.Intn(6); k >= 0; k-- {
				b = append(b, byte(63+rng.Intn(64)))
			}
		case 2:
			b[rng.Intn(len(b))] = byte(rng.Intn(256))
		case 3:
			b[1] = byte(63 + rng.Intn(64)) //another size with the same stream: vertex numbers >= n
		case 4:
			b = append([]byte{':', 126}, b[1:]...)
		case 5:
			for k := 2; k < len(b); k++ {
				if rng.Intn(4) == 0 {
					b[k] = byte(63 + rng.Intn(64))
				}
			}
		}
		c08CheckSparse6(t, string(b))
	}

	//Out of the property's domain but still decoded as before: every size up to 2^20 however short the string ...
	for _, n := range []int{4097, 258047, 258048, 1 << 20} {
		g, err := graph.Sparse6Decode(c08Header(n))
		if err != nil || g.N() != n || g.M() != 0 {
			t.Fatalf("n = %v without edges: %v", n, err)
		}
	}
	//... and a larger size when the string has a byte for every 64 vertices (here: the edge 0-1 and then padding bits which point past n).
	n := 1<<20 + 1
	s := c08Header(n) + "_??B" + strings.Repeat("~", n/64)
	g, err := graph.Sparse6Decode(s)
	if err != nil || g.N() != n || g.M() != 1 || !g.IsEdge(0, 1) {
		t.Fatalf("n = %v in a long string: %v", n, err)
	}
}

func TestC08DemoIncidentalOld(t *testing.T) {
	n := 1<<20 + 1
	s := c08Header(n)
	if s != ":~~??C??@" {
		t.Fatalf("header %q", s)
	}
	g, err := graph.Sparse6Decode(s)
	if err != nil {
		t.Fatalf("OLD: Sparse6Decode(%q) is the empty graph on %v vertices; now error %q (graph N = %v)", s, n, err, g.N())
	}
	if g.N() != n || g.M() != 0 || len(g.Neighbourhoods) != n {
		t.Fatalf("OLD: empty graph on %v vertices; now N = %v M = %v", n, g.N(), g.M())
	}
}

package c20

// OUTPUT VOLUME as a dimension of the workload.
//
// The other planes stop at about a thousand rows of one-digit weights (1 MiB of
// output).  What LIB does with the weight section - buffer it, align it, hand
// it on in pieces - may depend on HOW MUCH text there is: a threshold in bytes
// of weight text, in entries, in rows, in bytes per row.  The instances here
// are built to reach 1, 2, 4, 8, 16 (quick) .. 32, 64, 128 MiB (thorough) of
// weight text by combining n up to about 4200 with weights of 1..20 characters
// (one digit, short distances with a sign, 7-8 digit negatives, mixed widths,
// 19 digits up to MaxInt64 / MinInt64, seeded random).
//
// Nothing of the output is kept: LIB writes into a streamReader, a TSPLIB
// reader that consumes the bytes as they arrive (line by line, bounded by the
// longest line) and compares every number with weights(i, j) recomputed on
// the fly.  Its verdict is, by construction and by self-check, the verdict of
// parseTSPLIB + checkDoc on the same bytes.
//
// Write failures at volume: for some of the instances a failing write is
// injected at one (seeded) position in every band of the output
// [start of the weights, 1 MiB), [1, 2), [2, 4), [4, 8), ... and at the last
// write before the trailer.  Event records "vbase"/"vfault", verdicts
// re-derived offline.

import (
	"bytes"
	"fmt"
	"math/bits"
	"sort"
	"strconv"
	"strings"

	"github.com/Tom-Johnston/mamba/tsp"

	"verif/internal/engine"
	"verif/internal/selfcheck"
)

const mib = 1 << 20

// volClasses: the thresholds (MiB) by which instances, outputs and fault
// positions are classified.
var volClasses = []int{1, 2, 4, 8, 16, 32, 64, 128}

// ---- the streaming reader ------------------------------------------------------

const (
	srSpec = iota
	srWeights
	srDone
)

// streamReader is an io.Writer that never fails and reads what it is given as
// a TSPLIB document of dimension n with the weights want(i, j).
type streamReader struct {
	n    int
	want func(i, j int) int64

	// the byte stream
	calls     int
	bytes     int
	maxWrite  int
	zeroLen   int // zero-length writes
	lastByte  byte
	boundCall []int // boundCall[k] = index of the first Write call that starts at or beyond volClasses[k] MiB
	firstW    int   // index of the first Write call that starts in the weight section (-1: none yet)
	eofCall   int   // index of the Write call that completed the EOF line (-1: none)

	// lines
	line    []byte // the unfinished line
	off     int    // offset of the first byte of the unfinished line
	lineNo  int
	maxLine int
	state   int
	fatal   *parseErr // a syntax error: nothing after it is read

	spec      map[string]string
	ws, es    int
	hasEOF    bool
	blank     int
	header    []byte // the bytes before the weight section (bounded)
	headerCut bool

	// the numbers of the weight section, as a stream and as rows
	count       int // numbers read
	fi, fj      int // the entry the next number is compared with
	rows        int
	firstWrong  *parseErr // first number that differs from its entry
	firstRowLen *parseErr // first line whose length differs from its row
	gotText     int64     // sum of (characters + 1) over the numbers read
}

func newStreamReader(n int, want func(i, j int) int64) *streamReader {
	return &streamReader{n: n, want: want, spec: map[string]string{}, ws: -1, es: -1, firstW: -1, eofCall: -1}
}

func (r *streamReader) Write(p []byte) (int, error) {
	for len(r.boundCall) < len(volClasses) && r.bytes >= volClasses[len(r.boundCall)]*mib {
		r.boundCall = append(r.boundCall, r.calls)
	}
	if r.firstW < 0 && r.ws >= 0 && r.bytes >= r.ws {
		r.firstW = r.calls
	}
	if len(p) == 0 {
		r.zeroLen++
	} else {
		r.lastByte = p[len(p)-1]
	}
	if len(p) > r.maxWrite {
		r.maxWrite = len(p)
	}
	r.bytes += len(p)
	r.feed(p)
	r.calls++
	return len(p), nil
}

func (r *streamReader) feed(p []byte) {
	for len(p) > 0 {
		k := bytes.IndexByte(p, '\n')
		if k < 0 {
			r.line = append(r.line, p...)
			return
		}
		if len(r.line) == 0 {
			r.doLine(p[:k])
			r.off += k + 1
		} else {
			r.line = append(r.line, p[:k]...)
			r.doLine(r.line)
			r.off += len(r.line) + 1
			r.line = r.line[:0]
		}
		p = p[k+1:]
	}
}

// close: the stream has ended; an unterminated last line is a line.
func (r *streamReader) close() {
	if len(r.line) > 0 {
		r.doLine(r.line)
		r.off += len(r.line)
		r.line = r.line[:0]
	}
}

func isBlank(b byte) bool { return b == ' ' || b == '\t' || b == '\r' }

func (r *streamReader) doLine(b []byte) {
	if r.fatal != nil {
		return
	}
	r.lineNo++
	if len(b) > r.maxLine {
		r.maxLine = len(b)
	}
	for _, ch := range b {
		if ch >= 0x80 || (ch < 0x20 && ch != '\r' && ch != '\t') {
			r.fatal = perr("not-text", "byte 0x%02x in the output (line %d)", ch, r.lineNo)
			return
		}
	}
	if r.state == srSpec {
		if len(r.header)+len(b)+1 <= 1<<16 {
			r.header = append(append(r.header, b...), '\n')
		} else {
			r.headerCut = true
		}
	}
	lo, hi := 0, len(b)
	for lo < hi && isBlank(b[lo]) {
		lo++
	}
	for hi > lo && isBlank(b[hi-1]) {
		hi--
	}
	t := b[lo:hi]
	switch r.state {
	case srSpec:
		ts := string(t)
		if ts == "" {
			r.fatal = perr("malformed-header", "blank line %d in the specification part", r.lineNo)
			return
		}
		if ts == "EOF" {
			r.hasEOF, r.es, r.eofCall, r.state = true, r.off, r.calls, srDone
			return
		}
		if c := strings.IndexByte(ts, ':'); c >= 0 {
			k := strings.TrimSpace(ts[:c])
			v := strings.TrimSpace(ts[c+1:])
			if !specKeywords[k] {
				r.fatal = perr("malformed-header", "line %d: %q is not a TSPLIB specification keyword", r.lineNo, k)
				return
			}
			if _, dup := r.spec[k]; dup {
				r.fatal = perr("malformed-header", "line %d: keyword %s given twice", r.lineNo, k)
				return
			}
			r.spec[k] = v
			return
		}
		if ts == "EDGE_WEIGHT_SECTION" {
			r.state = srWeights
			r.ws = r.off + len(b) + 1
			return
		}
		if sectionKeywords[ts] {
			r.fatal = perr("malformed-header", "line %d: unexpected data section %s", r.lineNo, ts)
			return
		}
		r.fatal = perr("malformed-header", "line %d: %q is neither '<keyword> : <value>' nor a section keyword", r.lineNo, clip(ts, 80))
	case srWeights:
		if len(t) == 0 {
			r.blank++
			return
		}
		if len(t) == 3 && t[0] == 'E' && t[1] == 'O' && t[2] == 'F' {
			r.hasEOF, r.es, r.eofCall, r.state = true, r.off, r.calls, srDone
			return
		}
		inLine := 0
		for k := 0; k < len(t); {
			for k < len(t) && isBlank(t[k]) {
				k++
			}
			e := k
			for e < len(t) && !isBlank(t[e]) {
				e++
			}
			if e == k {
				break
			}
			tok := t[k:e]
			k = e
			if len(tok) > 40 {
				r.fatal = perr("malformed-weights", "line %d: %q is not an integer (number %d of the line, %d characters)", r.lineNo, clip(string(tok), 60), inLine+1, len(tok))
				return
			}
			v, err := strconv.ParseInt(string(tok), 10, 64)
			if err != nil {
				r.fatal = perr("malformed-weights", "line %d: %q is not an integer (%v)", r.lineNo, string(tok), err)
				return
			}
			inLine++
			r.gotText += int64(len(tok) + 1)
			r.number(v)
		}
		if inLine != r.rows+1 && r.firstRowLen == nil {
			r.firstRowLen = perr("wrong-row-length", "row %d has %d numbers, want %d", r.rows, inLine, r.rows+1)
		}
		r.rows++
	case srDone:
		if len(t) != 0 {
			r.fatal = perr("data-after-EOF", "line %d: %q after EOF", r.lineNo, clip(string(t), 80))
		}
	}
}

// number: the next number of the weight section, read as a stream.
func (r *streamReader) number(v int64) {
	r.count++
	if r.fi >= r.n {
		return // more numbers than entries: the count decides
	}
	w := int64(0)
	if r.fj < r.fi {
		w = r.want(r.fi, r.fj)
	}
	if v != w && r.firstWrong == nil {
		r.firstWrong = wrongEntry(r.fi, r.fj, v, w)
	}
	r.fj++
	if r.fj > r.fi {
		r.fi, r.fj = r.fi+1, 0
	}
}

// verdict (after close): the verdict of parseTSPLIB followed by checkDoc on the
// same bytes, in the same order of precedence.
func (r *streamReader) verdict() *parseErr {
	if r.fatal != nil {
		return r.fatal
	}
	if e := checkSpec(r.spec, r.ws >= 0, r.n); e != nil {
		return e
	}
	if want := r.n * (r.n + 1) / 2; r.count != want {
		return perr("wrong-weight-count", "the weight section has %d numbers, want n(n+1)/2 = %d", r.count, want)
	}
	if r.firstWrong != nil {
		return r.firstWrong
	}
	if r.rows != r.n {
		return perr("wrong-row-count", "the weight section has %d rows, want %d", r.rows, r.n)
	}
	if r.firstRowLen != nil {
		return r.firstRowLen
	}
	if !r.hasEOF {
		return perr("missing-EOF", "the file does not end with EOF")
	}
	return nil
}

// streamVerdict feeds data in the given pieces (nil: one piece) to a fresh reader.
func streamVerdict(data []byte, sizes []int, n int, want func(i, j int) int64) (*streamReader, *parseErr) {
	r := newStreamReader(n, want)
	off := 0
	for _, s := range sizes {
		if off+s > len(data) {
			break
		}
		r.Write(data[off : off+s])
		off += s
	}
	if off < len(data) {
		r.Write(data[off:])
	}
	r.close()
	return r, r.verdict()
}

// decLen: the number of characters of v in decimal.
func decLen(v int64) int {
	l := 1
	u := uint64(v)
	if v < 0 {
		l = 2
		u = uint64(-(v + 1)) + 1
	}
	for u >= 10 {
		u /= 10
		l++
	}
	return l
}

// volExpect: the weight text of an instance = sum over all entries of the
// lower triangle with its diagonal of (characters of the entry + 1 separator),
// and the number of entries of every width.
func volExpect(fam string, n int, rs uint64) (text int64, widths [21]int64) {
	for i := 0; i < n; i++ {
		for j := 0; j < i; j++ {
			l := decLen(weightValue(fam, n, rs, i, j))
			widths[l]++
			text += int64(l + 1)
		}
		widths[1]++
		text += 2
	}
	return
}

// ---- the instances ---------------------------------------------------------------

type volInstance struct {
	fam    string
	cls    int // MiB of weight text the instance is built to reach
	nLo    int // n = nLo + seeded offset below span
	span   int
	faults bool // write failures are injected too
}

func (in volInstance) name() string { return fmt.Sprintf("%s>=%dMiB", in.fam, in.cls) }

// volInstances: quick crosses 1, 4, 8 and 16 MiB with short, mixed-width and
// 19-digit weights; thorough adds the ladder up to 128 MiB, one-digit weights
// (the most entries, rows, and Write calls per MiB) up to 4200 rows, and rows
// of more than 64 KiB.
func volInstances(thorough bool) []volInstance {
	r := []volInstance{
		{"short", 1, 740, 32, false},
		{"short", 4, 1480, 64, true},
		{"huge", 8, 930, 32, true},
		{"stair", 8, 1260, 40, false},
		{"huge", 16, 1310, 32, false},
		{randFamily, 4, 1000, 100, false},
	}
	if thorough {
		r = append(r,
			volInstance{"small", 4, 2080, 40, false},
			volInstance{"small", 8, 2960, 40, false},
			volInstance{"small", 16, 4180, 40, false},
			volInstance{"short", 8, 2080, 40, false},
			volInstance{"short", 16, 2940, 40, false},
			volInstance{"neg", 16, 2000, 40, false},
			volInstance{"large", 8, 1150, 40, false},
			volInstance{"stair", 16, 1780, 40, true},
			volInstance{"stair", 32, 2500, 40, false},
			volInstance{"huge", 32, 1850, 40, false},
			volInstance{"huge", 64, 2620, 40, true},
			volInstance{"huge", 128, 3680, 40, false},
			volInstance{randFamily, 16, 1800, 60, false},
			volInstance{randFamily, 32, 2540, 60, false},
		)
	}
	return r
}

func volFaultModes(thorough bool) []string {
	if thorough {
		return joinModes(faultModes, fullCountModes)
	}
	return []string{modeTransient, modeFullErr}
}

// pick: the seeded parameters of an instance (independent of the tier).
func (in volInstance) pick(c *engine.Ctx) (n int, rs uint64) {
	rg := c.Rand("volume/"+in.name(), 0)
	n = in.nLo + rg.Intn(in.span)
	if in.fam == randFamily {
		rs = rg.U64()
	}
	return
}

type volDetail struct {
	Instance string `json:"instance"`
	N        int    `json:"n"`
	Weights  string `json:"weights"`
	RS       uint64 `json:"rand_word,omitempty"`
	Text     int64  `json:"weight_text_bytes"`
	Output   int    `json:"output_bytes,omitempty"`
	Writes   int    `json:"write_calls,omitempty"`
	Header   string `json:"header,omitempty"`
	Fault    string `json:"fault,omitempty"`
	Pos      int    `json:"position,omitempty"`
	Sect     string `json:"section,omitempty"`
	Note     string `json:"note,omitempty"`
}

type volBase struct {
	n         int
	rs        uint64
	text      int64
	W         int
	bytes     int
	ws, es    int
	firstW    int
	eofCall   int
	boundCall []int
	header    string
}

func atLeast(c *engine.Ctx, what string, v int64, bounds []int64, names []string) {
	for k, b := range bounds {
		if v >= b {
			c.Obs("volume:"+what+names[k], 1)
		}
	}
}

// volumeClean: one fault-free call on the streaming reader.  nil after a
// violation.  quiet: the same instance is judged by its volume/<instance> unit.
func volumeClean(c *engine.Ctx, in volInstance, n int, rs uint64, quiet bool) *volBase {
	fam, name := in.fam, in.name()
	violation := c.Violation
	if quiet {
		violation = func(key string, detail interface{}, observed, expected string) {
			c.Obs("volume:base_run_violations_left_to_the_clean_units", 1)
		}
	} else {
		c.Eval(1)
	}
	text, widths := volExpect(fam, n, rs)
	if text < int64(in.cls)*mib {
		c.Inconclusive(fmt.Sprintf("volume: instance %s (n=%d) has %d bytes of weight text, built for %d MiB", name, n, text, in.cls))
		return nil
	}
	c.Obs("volume:clean_runs", 1)
	want := func(i, j int) int64 { return weightValue(fam, n, rs, i, j) }
	asked := make([]uint64, (n*n+63)/64)
	ncalls, nbad := 0, 0
	var bad [][2]int
	wf := func(i, j int) int {
		ncalls++
		if !(0 <= j && j < i && i < n) {
			nbad++
			if len(bad) < 8 {
				bad = append(bad, [2]int{i, j})
			}
		} else {
			k := i*n + j
			asked[k>>6] |= 1 << (k & 63)
		}
		return int(weightValue(fam, n, rs, i, j))
	}
	r := newStreamReader(n, want)
	var err error
	pi := c.Call("LIB|volume|"+name, func() { err = tsp.LIB(r, n, wf) })
	r.close()
	det := volDetail{Instance: name, N: n, Weights: fam, RS: rs, Text: text, Output: r.bytes, Writes: r.calls, Header: clip(string(r.header), 400),
		Note: "the output is not kept: it is read as it is written, every number against weights(i,j) recomputed (family in workload.go)"}
	if pi != nil {
		violation("LIB|volume|panic|"+engine.SiteNoLine(pi.Site)+"|"+name, det, pi.String(), "LIB returns")
		return nil
	}
	c.Obs("weight_calls", ncalls)
	c.Obs("volume:weight_calls", ncalls)
	if err != nil {
		violation("LIB|volume|error-without-write-failure|"+name, det, "error "+err.Error(), "nil: no write failed")
		return nil
	}
	if nbad > 0 {
		violation("LIB|volume|weights-called-out-of-range|"+name, det, fmt.Sprintf("weights called %d times outside the range, first with (i,j) in %v", nbad, bad), "only 0 <= j < i < n")
		return nil
	}
	distinct := 0
	for _, w := range asked {
		distinct += bits.OnesCount64(w)
	}
	if d := ncalls - distinct; d > 0 {
		c.Obs("weight_pairs_asked_more_than_once", d)
	}
	if m := n*(n-1)/2 - distinct; m > 0 {
		c.Obs("weight_pairs_never_asked", m) // judged through the output
	}
	if pe := r.verdict(); pe != nil {
		violation("LIB|volume|output|"+pe.Kind+"|"+name, det, pe.Msg+fmt.Sprintf(" (n=%d, %d bytes of weight text expected, %d bytes written in %d writes, %d numbers in %d rows read)", n, text, r.bytes, r.calls, r.count, r.rows),
			"a TSPLIB file with DIMENSION n and rows weights(i,0..i-1) 0 in LOWER_DIAG_ROW, then EOF")
		return nil
	}
	if r.gotText != text {
		// every number equals its entry, so the texts can only differ by the spelling of a number (+5, 007, -0)
		c.Obs("volume:runs_with_numbers_not_in_canonical_spelling", 1)
	}
	if r.blank > 1 || (r.blank == 1 && r.hasEOF) {
		c.Obs("blank_lines_in_weight_section", r.blank)
	}
	if r.bytes > 0 && r.lastByte != '\n' {
		c.Obs("output_without_final_newline", 1)
	}
	if quiet {
		c.Obs("volume:clean_runs_repeated_as_base_of_a_fault_unit", 1)
	} else {
		// what was exercised
		c.Obs("volume:instances_checked", 1)
		c.Obs("volume:instances:"+fam, 1)
		c.Obs("volume:entries_checked_by_the_streaming_reader", r.count)
		c.Obs("volume:rows_checked_by_the_streaming_reader", r.rows)
		c.Obs("volume:bytes_read_by_the_streaming_reader", r.bytes)
		c.Obs("volume:write_calls", r.calls)
		c.ObsMax("volume:max:weight_text_bytes", int(text))
		c.ObsMax("volume:max:output_bytes", r.bytes)
		c.ObsMax("volume:max:n", n)
		c.ObsMax("volume:max:entries", r.count)
		c.ObsMax("volume:max:write_calls", r.calls)
		c.ObsMax("volume:max:longest_line_bytes", r.maxLine)
		c.ObsMax("volume:max:largest_write_bytes", r.maxWrite)
		var bs []int64
		var ns []string
		for _, m := range volClasses {
			bs, ns = append(bs, int64(m)*mib), append(ns, fmt.Sprintf(">=%dMiB", m))
		}
		atLeast(c, "weight_text", text, bs, ns)
		atLeast(c, "output", int64(r.bytes), bs, ns)
		atLeast(c, "entries", int64(r.count), []int64{1 << 18, 1 << 19, 1 << 20, 1 << 21, 1 << 22, 1 << 23}, []string{">=2^18", ">=2^19", ">=2^20", ">=2^21", ">=2^22", ">=2^23"})
		atLeast(c, "rows", int64(n), []int64{513, 1025, 2049, 4097}, []string{">512", ">1024", ">2048", ">4096"})
		atLeast(c, "longest_line", int64(r.maxLine), []int64{4 << 10, 16 << 10, 64 << 10}, []string{">=4KiB", ">=16KiB", ">=64KiB"})
		for w, k := range widths {
			if k > 0 {
				c.Obs(fmt.Sprintf("volume:entries:width=%02d", w), int(k))
			}
		}
		c.Sample("volume/"+name, map[string]interface{}{"n": n, "weights": fam, "weight_text_bytes": text, "output_bytes": r.bytes, "write_calls": r.calls,
			"entries_read": r.count, "rows_read": r.rows, "longest_line_bytes": r.maxLine, "largest_write_bytes": r.maxWrite})
	}
	return &volBase{n: n, rs: rs, text: text, W: r.calls, bytes: r.bytes, ws: r.ws, es: r.es, firstW: r.firstW, eofCall: r.eofCall, boundCall: r.boundCall, header: clip(string(r.header), 400)}
}

// picks: one seeded position in every band of Write calls
// [first write of the weights, 1 MiB), [1, 2), [2, 4), ... (by the offset at
// which the call starts in the fault-free run), and the last write before the
// one that completes the EOF line.
func (b *volBase) picks(rg *engine.Rng) (ps []int, band map[int]string) {
	band = map[int]string{}
	end := b.eofCall
	if end < 0 || end > b.W {
		end = b.W
	}
	lo := b.firstW
	if lo < 0 {
		lo = 0
	}
	add := func(p int, what string) {
		if p >= 0 && p < b.W {
			if _, dup := band[p]; !dup {
				band[p] = what
				ps = append(ps, p)
			}
		}
	}
	prev := "<1MiB"
	for k := 0; k <= len(b.boundCall); k++ {
		hi := end
		if k < len(b.boundCall) && b.boundCall[k] < end {
			hi = b.boundCall[k]
		}
		if hi > lo {
			add(lo+rg.Intn(hi-lo), prev)
			lo = hi
		}
		if k < len(b.boundCall) {
			prev = fmt.Sprintf(">=%dMiB", volClasses[k])
		}
	}
	add(end-1, "last-before-trailer")
	if len(ps) == 0 {
		add(0, "first")
	}
	sort.Ints(ps)
	return
}

func volumeFaults(c *engine.Ctx, in volInstance, mode string, mi int) {
	name := in.name()
	c.Obs("volume:fault_units", 1)
	n, rs := in.pick(c)
	b := volumeClean(c, in, n, rs, true)
	if b == nil {
		c.Obs("volume:fault_units_skipped_after_clean_violation", 1)
		return
	}
	fam := in.fam
	ps, band := b.picks(c.Rand("volume-fault/"+name, mi))
	c.Emit(stream, event{K: "vbase", ID: name, N: n, WF: fam, RS: rs, W: b.W, Bytes: b.bytes, WS: b.ws, ES: b.es, Header: b.header, Modes: []string{mode}, Picks: ps, ErrNil: true})
	c.Obs(fmt.Sprintf("volume(sampled, not exhaustive):%s mode=%s positions", name, mode), len(ps))
	wf := func(i, j int) int { return int(weightValue(fam, n, rs, i, j)) }
	for _, p := range ps {
		if c.Stopped() {
			return
		}
		w := &lightWriter{pos: p, mode: mode}
		var err error
		pi := c.Call(fmt.Sprintf("LIB|volume|%s|%s@%d", name, mode, p), func() { err = tsp.LIB(w, n, wf) })
		sect, loc := "", ""
		if w.fired {
			sect = sectionAt(w.firedOff, w.firedLen, b.ws, b.es)
			loc = locationAt(w.firedOff, w.firedLen, b.ws, b.es, b.header)
		}
		ev := event{K: "vfault", ID: name, N: n, WF: fam, RS: rs, W: b.W, Fault: &faultDesc{Pos: p, Mode: mode, Len: w.firedLen, Sect: sect, Off: w.firedOff},
			Fired: w.fired, NW: w.calls, Got: w.off, ErrNil: err == nil, Ret: w.firedRet, RetErr: w.firedErr, FLen: w.firedLen}
		if err != nil {
			ev.Err = errText(err)
		}
		if pi != nil {
			ev.Panic = pi.String()
		}
		c.Emit(stream, ev)
		c.Obs("volume:fault_runs:"+mode, 1)
		c.Obs("volume:fault_runs:band:"+band[p], 1)
		if w.fired {
			c.Obs("volume:section:"+sect, 1)
			// how far into the output the failed write reaches (its last byte; its offset when it is empty):
			// independent of the sizes in which the library hands the text on
			for _, m := range volClasses {
				if w.firedOff+w.firedLen >= m*mib {
					c.Obs(fmt.Sprintf("volume:failed_writes_reaching>=%dMiB", m), 1)
				}
				if w.firedOff >= m*mib {
					c.Obs(fmt.Sprintf("volume:failed_writes_starting>=%dMiB", m), 1)
				}
			}
			if coversWeights(sect) {
				c.NTDistinct(1)
			}
		}
		det := func() volDetail {
			return volDetail{Instance: name, N: n, Weights: fam, RS: rs, Text: b.text, Output: b.bytes, Writes: b.W, Fault: mode, Pos: p, Sect: sect,
				Note: fmt.Sprintf("write %d of %d (band %s) begins at byte %d of %d in the fault-free run; %d bytes were accepted in the injected run", p, b.W, band[p], w.firedOff, b.bytes, w.off)}
		}
		if pi != nil {
			c.Violation("LIB|panic-on-write-failure|"+engine.SiteNoLine(pi.Site)+"|"+mode+"|at="+loc, det(), pi.String(), "a non-nil error")
			continue
		}
		if !w.fired {
			if !nilErrorMode(mode) {
				c.Obs("fault_not_reached", 1)
			}
			continue
		}
		if !judgedMode(mode) {
			res := "nil"
			if err != nil {
				res = "error"
			}
			c.Obs("volume:"+mode+":LIB_returned_"+res+":at="+sect, 1)
			continue
		}
		if err == nil {
			c.Violation(violKey(mode, loc), det(), fmt.Sprintf("LIB returned nil although write %d failed (instance %s, n=%d, %d of %d bytes reached the writer)", p, name, n, w.off, b.bytes), "a non-nil error")
		}
	}
}

// readersAgree: the streaming reader and the reader of whole documents on the
// same bytes of the library (fed in the pieces in which they were written),
// and on those bytes damaged in the harness.  A disagreement is a defect of
// the oracle: INCONCLUSIVE.
func readersAgree(c *engine.Ctx) {
	kind := func(e *parseErr) string {
		if e == nil {
			return "accepted"
		}
		return e.Kind
	}
	for _, cs := range []struct {
		n   int
		fam string
	}{{0, "short"}, {1, "short"}, {2, "neg"}, {37, "large"}, {90, "stair"}, {64, "huge"}, {130, randFamily}} {
		n, fam := cs.n, cs.fam
		rs := c.Rand("volume-readers", n).U64()
		want := func(i, j int) int64 { return weightValue(fam, n, rs, i, j) }
		w := &recWriter{pos: -1}
		if pi := c.Call(fmt.Sprintf("LIB|readers|n=%d,w=%s", n, fam), func() { tsp.LIB(w, n, func(i, j int) int { return int(want(i, j)) }) }); pi != nil {
			c.Obs("volume:readers:call_panicked(left to the clean units)", 1)
			continue
		}
		compare := func(what string, data []byte, sizes []int, mustReject bool) {
			var be *parseErr
			d, e := parseTSPLIB(data)
			if e == nil {
				e = checkDoc(d, n, want)
			}
			be = e
			_, se := streamVerdict(data, sizes, n, want)
			if kind(be) != kind(se) {
				c.Inconclusive(fmt.Sprintf("volume: the streaming reader says %q, the reader of whole documents %q (n=%d weights=%s, %s)", kind(se), kind(be), n, fam, what))
				return
			}
			if mustReject && se == nil {
				c.Inconclusive(fmt.Sprintf("volume: both readers accept a damaged document (n=%d weights=%s, %s)", n, fam, what))
				return
			}
			if mustReject {
				c.Obs("volume:readers_agree_on_damaged_output", 1)
				c.Obs("volume:readers_agree_on_damaged_output:"+kind(se), 1)
			} else {
				c.Obs("volume:readers_agree_on_library_output", 1)
				c.Obs("volume:readers_agree_on_library_output:"+kind(se), 1)
			}
		}
		compare("as written", w.data, w.sizes, false)
		compare("in one piece", w.data, nil, false)
		if n < 3 {
			continue
		}
		// damage inside the weight section, found by looking at the bytes only
		ws := bytes.Index(w.data, []byte("EDGE_WEIGHT_SECTION\n"))
		es := bytes.LastIndex(w.data, []byte("EOF"))
		if ws < 0 || es < ws {
			continue
		}
		ws += len("EDGE_WEIGHT_SECTION\n")
		body := w.data[ws:es]
		rg := c.Rand("volume-damage", n)
		// a line of the second half with at least three numbers
		lines := bytes.Split(body, []byte("\n"))
		li := len(lines)/2 + rg.Intn(len(lines)/3+1)
		if li >= len(lines) || len(bytes.Fields(lines[li])) < 3 {
			continue
		}
		rebuild := func(l []byte) []byte {
			var out []byte
			out = append(out, w.data[:ws]...)
			for k, x := range lines {
				if k == li {
					x = l
				}
				out = append(out, x...)
				if k < len(lines)-1 {
					out = append(out, '\n')
				}
			}
			return append(out, w.data[es:]...)
		}
		f := bytes.Fields(lines[li])
		m := len(f)
		join := func(fs [][]byte) []byte { return bytes.Join(fs, []byte(" ")) }
		// the last two weights of the row run together
		fused := append(append([][]byte{}, f[:m-3]...), append(append([]byte{}, f[m-3]...), f[m-2]...), f[m-1])
		compare("two numbers fused", rebuild(join(fused)), nil, true)
		dropped := append(append([][]byte{}, f[:m-2]...), f[m-1])
		compare("a number missing", rebuild(join(dropped)), nil, true)
		// the line break after the row is missing
		if li+1 < len(lines) {
			nb := append(append(append([]byte{}, lines[li]...), ' '), lines[li+1]...)
			save := lines[li+1]
			lines[li+1] = nil
			doc := rebuild(nb)
			lines[li+1] = save
			// (an empty line remains where the next row was: rows are counted by their numbers)
			compare("a line break missing", doc, nil, true)
		}
		compare("cut short", w.data[:ws+len(body)/2], nil, true)
	}
}

func volumeUnits(c *engine.Ctx) {
	insts := volInstances(c.Thorough())
	for _, in := range insts {
		in := in
		c.Unit("volume/"+in.name(), func() {
			n, rs := in.pick(c)
			volumeClean(c, in, n, rs, false)
		})
	}
	for _, in := range insts {
		if !in.faults {
			continue
		}
		for mi, mode := range volFaultModes(c.Thorough()) {
			in, mi, mode := in, mi, mode
			c.Unit("volume-fault/"+in.name()+"/"+mode, func() { volumeFaults(c, in, mode, mi) })
		}
	}
	c.Unit("volume/readers-agree", func() { readersAgree(c) })
}

// volumeFinish is the offline checker of the write failures at volume (a pure
// function of the "vbase"/"vfault" records).  It returns the number of judged records.
func volumeFinish(s *engine.Super, vbases, vfaults []event) int64 {
	type info struct {
		ev    event
		picks map[int]bool
		seen  map[int]bool
	}
	bases := map[string]*info{}
	id := func(ev *event, mode string) string { return ev.ID + "|" + mode }
	for i := range vbases {
		ev := &vbases[i]
		if len(ev.Modes) != 1 || len(ev.Picks) == 0 {
			s.Inconclusive("event log: volume base record without a mode or without positions")
			return 0
		}
		k := id(ev, ev.Modes[0])
		if _, dup := bases[k]; dup {
			s.AddObs("offline:duplicate_base_records", 1)
			continue
		}
		bi := &info{ev: *ev, picks: map[int]bool{}, seen: map[int]bool{}}
		for _, p := range ev.Picks {
			if p < 0 || p >= ev.W {
				s.Inconclusive(fmt.Sprintf("event log: volume base record of %s plans position %d of %d", ev.ID, p, ev.W))
				return 0
			}
			bi.picks[p] = true
		}
		bases[k] = bi
	}
	judged, viol := int64(0), int64(0)
	for i := range vfaults {
		ev := &vfaults[i]
		if ev.Fault == nil {
			s.Inconclusive("event log: volume fault record without a fault")
			return judged
		}
		bi := bases[id(ev, ev.Fault.Mode)]
		if bi == nil || bi.ev.W != ev.W || bi.ev.N != ev.N || bi.ev.RS != ev.RS || !bi.picks[ev.Fault.Pos] {
			s.Inconclusive(fmt.Sprintf("event log: volume injected run without a matching base record or outside its plan (%s mode=%s pos=%d)", ev.ID, ev.Fault.Mode, ev.Fault.Pos))
			return judged
		}
		if bi.seen[ev.Fault.Pos] {
			s.AddObs("offline:duplicate_fault_records", 1)
			continue
		}
		bi.seen[ev.Fault.Pos] = true
		if ev.Panic != "" {
			s.AddObs("offline:panics", 1)
			continue
		}
		if !ev.Fired {
			if !nilErrorMode(ev.Fault.Mode) {
				s.AddObs("offline:fault_not_reached", 1)
			}
			continue
		}
		if sect := sectionAt(ev.Fault.Off, ev.FLen, bi.ev.WS, bi.ev.ES); sect != ev.Fault.Sect {
			s.Inconclusive(fmt.Sprintf("event log: section of volume position %d re-derived as %s, recorded %s", ev.Fault.Pos, sect, ev.Fault.Sect))
			return judged
		}
		if !checkRet(s, ev) {
			return judged
		}
		if !judgedMode(ev.Fault.Mode) {
			s.AddObs(notJudgedObs("offline:volume:", ev.Fault.Mode), 1)
			continue
		}
		judged++
		s.AddObs("offline:volume:judged:"+ev.Fault.Mode, 1)
		if ev.Fault.Off+ev.FLen >= 4*mib {
			s.AddObs("offline:volume:judged:failed_write_reaching>=4MiB", 1)
		}
		if ev.ErrNil {
			viol++
			loc := locationAt(ev.Fault.Off, ev.FLen, bi.ev.WS, bi.ev.ES, bi.ev.Header)
			s.Violation(violKey(ev.Fault.Mode, loc), ev, fmt.Sprintf("LIB returned nil although write %d failed (instance %s, n=%d, %d of %d bytes reached the writer)", ev.Fault.Pos, ev.ID, ev.N, ev.Got, bi.ev.Bytes), "a non-nil error")
		}
	}
	s.AddObs("offline:volume:records_judged", judged)
	s.AddObs("offline:volume:verdicts_violated", viol)
	// the log against the plans, and the plans against the tier
	complete, allOK := int64(0), true
	for _, in := range volInstances(s.Thorough()) {
		if !in.faults {
			continue
		}
		for _, m := range volFaultModes(s.Thorough()) {
			bi := bases[in.name()+"|"+m]
			if bi == nil {
				allOK = false
				continue
			}
			if len(bi.seen) != len(bi.picks) {
				allOK = false
				s.Inconclusive(fmt.Sprintf("event log: volume instance %s mode=%s has %d of %d planned positions", in.name(), m, len(bi.seen), len(bi.picks)))
				continue
			}
			complete++
		}
	}
	s.AddObs("volume(sampled, not exhaustive):(instance, mode) pairs complete against their plan in the event log", complete)
	skipped := s.Obs("volume:fault_units_skipped_after_clean_violation")
	if !allOK && skipped == 0 {
		s.Inconclusive("event log: the write failures at volume of this tier are not complete")
	}
	// thorough climbs the ladder to the top (checked when every instance was read and accepted)
	if s.Thorough() && s.Obs("volume:instances_checked") == int64(len(volInstances(true))) {
		for _, name := range []string{"volume:weight_text>=32MiB", "volume:weight_text>=64MiB", "volume:weight_text>=128MiB", "volume:rows>4096", "volume:entries>=2^23", "volume:longest_line>=64KiB"} {
			if s.Obs(name) == 0 {
				s.Inconclusive("thorough: observation " + name + " is 0")
			}
		}
	}
	return judged
}

func init() {
	selfcheck.Add("c20: streaming reader = reader of whole documents", func() error {
		for _, v := range []int64{0, 1, -1, 9, 10, -10, 99, 100, 999999999999999999, 1000000000000000000, -1000000000000000000, 9223372036854775807, -9223372036854775808, -9223372036854775807} {
			if decLen(v) != len(strconv.FormatInt(v, 10)) {
				return fmt.Errorf("decLen(%d) = %d", v, decLen(v))
			}
		}
		good, w, bad := readerCorpus()
		kind := func(e *parseErr) string {
			if e == nil {
				return ""
			}
			return e.Kind
		}
		docs := []struct{ kind, doc string }{{"", good}}
		docs = append(docs, bad...)
		// further documents: wrong numbers in several places, which one is reported
		docs = append(docs,
			// two defects: the missing number decides (the count comes first)
			struct{ kind, doc string }{"wrong-weight-count", strings.Replace(strings.Replace(good, "-5", "5", 1), " 7\t", " ", 1)},
			// a wrong number, then something that is no number: the syntax error decides
			struct{ kind, doc string }{"malformed-weights", strings.Replace(strings.Replace(good, "-5", "5", 1), " 7\t", " 7x\t", 1)},
			// a wrong number and a wrong line structure: the numbers are a stream first
			struct{ kind, doc string }{"wrong-weight", strings.Replace(good, "  -5 0\n 7\t", "  -4 0 7\n", 1)},
			struct{ kind, doc string }{"wrong-row-length", strings.Replace(good, "  -5 0\n 7\t", "  -5 0 7\n", 1)},
			struct{ kind, doc string }{"missing-EOF", strings.TrimSuffix(good, "EOF\n") + "\n\n"},
			struct{ kind, doc string }{"", strings.TrimSuffix(good, "\n")},
			struct{ kind, doc string }{"", strings.Replace(good, "\n", "\r\n", -1)},
			struct{ kind, doc string }{"", strings.Replace(good, "EOF\n", "\n  EOF  \n\n \n", 1)},
			struct{ kind, doc string }{"wrong-weight-count", strings.Replace(good, "9223372036854775807", "7 9223372036854775807", 1)},
		)
		for di, dc := range docs {
			d, e := parseTSPLIB([]byte(dc.doc))
			if e == nil {
				e = checkDoc(d, 3, w)
			}
			if kind(e) != dc.kind {
				return fmt.Errorf("document %d: the reader of whole documents says %q, want %q", di, kind(e), dc.kind)
			}
			for _, piece := range []int{0, 1, 2, 3, 5, 7, 16, 64} {
				var sizes []int
				for k := 0; piece > 0 && k < len(dc.doc); k += piece {
					if k+piece <= len(dc.doc) {
						sizes = append(sizes, piece)
						if k%3 == 0 {
							sizes = append(sizes, 0) // zero-length writes are part of the stream
						}
					}
				}
				r, se := streamVerdict([]byte(dc.doc), sizes, 3, w)
				if kind(se) != kind(e) {
					return fmt.Errorf("document %d in pieces of %d: streaming reader says %q, reader of whole documents %q", di, piece, kind(se), kind(e))
				}
				if e == nil && (r.ws != d.WeightStart || r.es != d.EOFStart || r.count != 6 || r.rows != 3 || r.bytes != len(dc.doc)) {
					return fmt.Errorf("document %d in pieces of %d: offsets %d %d (want %d %d), %d numbers in %d rows", di, piece, r.ws, r.es, d.WeightStart, d.EOFStart, r.count, r.rows)
				}
			}
		}
		// a larger document produced here (not by the library): 60 rows, numbers of all widths, fed in odd pieces;
		// then the same with two numbers run together, one at a time at a few places
		n := 60
		want := func(i, j int) int64 { return weightValue("stair", n, 0, i, j) }
		var sb strings.Builder
		sb.WriteString("TYPE: TSP\nDIMENSION: 60\nEDGE_WEIGHT_TYPE: EXPLICIT\nEDGE_WEIGHT_FORMAT: LOWER_DIAG_ROW\nEDGE_WEIGHT_SECTION\n")
		var seps []int // offsets of the blank between the last two weights of a row
		for i := 0; i < n; i++ {
			for j := 0; j < i; j++ {
				if j == i-1 && i >= 2 {
					seps = append(seps, sb.Len())
				}
				fmt.Fprintf(&sb, " %d", want(i, j))
			}
			sb.WriteString(" 0\n")
		}
		sb.WriteString("EOF\n")
		doc := sb.String()
		sizes := []int{}
		for k := 0; k < len(doc)/37; k++ {
			sizes = append(sizes, 37)
		}
		if _, e := streamVerdict([]byte(doc), sizes, n, want); e != nil {
			return fmt.Errorf("generated document rejected: %v", e)
		}
		for _, k := range []int{0, len(seps) / 2, len(seps) - 1} {
			dmg := doc[:seps[k]] + doc[seps[k]+1:]
			_, se := streamVerdict([]byte(dmg), sizes, n, want)
			d, be := parseTSPLIB([]byte(dmg))
			if be == nil {
				be = checkDoc(d, n, want)
			}
			if se == nil || be == nil || se.Kind != be.Kind {
				return fmt.Errorf("two numbers run together (place %d): streaming reader %v, reader of whole documents %v", k, se, be)
			}
		}
		return nil
	})
}

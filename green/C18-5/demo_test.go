// Demo for C18 change 5 (elements are range-checked up front: Find/FindBuffered/Union/UnionBuffered refuse an element
// outside {0,...,n-1} with a descriptive string panic, and Union/UnionBuffered do so BEFORE any lookup, so a refused
// union no longer leaves a compressed path behind).
//
// Run (from the root of the library worktree):
//
//	cp /tmp/green-out/C18/5/demo_test.go disjoint/zz_demo_test.go
//	GOFLAGS=-mod=mod GOPROXY=off GOSUMDB=off GOTOOLCHAIN=local go test -vet=off -count=1 -timeout 120s -run 'TestDemo' -v ./disjoint/
//	rm disjoint/zz_demo_test.go
//
// TestDemoProperty checks the property C18 itself on random interleavings of Union/UnionBuffered/Find/FindBuffered
// (all arguments inside {0,...,n-1}, as the property quantifies) and, in addition, that a refused call with an element
// outside the domain never changes the PARTITION.  It passes before and after the change.
// TestDemoIncidentalOld asserts the OLD incidental behaviour on calls outside the domain (panic value is a
// runtime.Error "index out of range"; Union(0, n) has already compressed the path of 0 when it panics): it passes on
// the clean tree and fails with the change.
package disjoint_test

import (
	"math/rand"
	"reflect"
	"runtime"
	"sort"
	"strings"
	"testing"

	"github.com/Tom-Johnston/mamba/disjoint"
)

// model is a naive reference: m[i] is a component label.
type model []int

func newModel(n int) model {
	m := make(model, n)
	for i := range m {
		m[i] = i
	}
	return m
}

func (m model) union(x, y int) {
	a, b := m[x], m[y]
	if a == b {
		return
	}
	for i := range m {
		if m[i] == b {
			m[i] = a
		}
	}
}

func (m model) sets() [][]int {
	var out [][]int
	done := make([]bool, len(m))
	for i := range m {
		if done[i] {
			continue
		}
		var s []int
		for j := i; j < len(m); j++ {
			if m[j] == m[i] {
				s = append(s, j)
				done[j] = true
			}
		}
		out = append(out, s)
	}
	return out
}

func checkAgainstModel(t *testing.T, ds disjoint.Set, m model, where string) {
	t.Helper()
	n := len(m)
	// lookups never change the partition: take all representatives twice.
	reps := make([]int, n)
	for i := 0; i < n; i++ {
		reps[i] = ds.Find(i)
	}
	buf := make([]int, n+1)
	for i := 0; i < n; i++ {
		if r := ds.FindBuffered(i, buf); r != reps[i] {
			t.Fatalf("%s: FindBuffered(%d)=%d but Find gave %d", where, i, r, reps[i])
		}
	}
	for i := 0; i < n; i++ {
		for j := 0; j < n; j++ {
			if (reps[i] == reps[j]) != (m[i] == m[j]) {
				t.Fatalf("%s: elements %d,%d: same representative=%v, connected=%v", where, i, j, reps[i] == reps[j], m[i] == m[j])
			}
		}
	}
	want := m.sets()
	got := ds.Sets()
	if len(got) != len(want) {
		t.Fatalf("%s: Sets()=%v want %v", where, got, want)
	}
	for i := range want {
		if !reflect.DeepEqual(append([]int(nil), got[i]...), want[i]) {
			t.Fatalf("%s: Sets()=%v want %v", where, got, want)
		}
	}
	sr := ds.SmallestRep()
	if len(sr) != n {
		t.Fatalf("%s: SmallestRep has length %d", where, len(sr))
	}
	for _, s := range want {
		for _, v := range s {
			if sr[v] != s[0] {
				t.Fatalf("%s: SmallestRep()[%d]=%d want %d", where, v, sr[v], s[0])
			}
		}
	}
	roots := ds.Roots()
	if len(roots) != len(want) {
		t.Fatalf("%s: Roots()=%v but there are %d sets", where, roots, len(want))
	}
	seen := map[int]bool{}
	for _, r := range roots {
		if r < 0 || r >= n || seen[m[r]] {
			t.Fatalf("%s: Roots()=%v is not one element per set", where, roots)
		}
		seen[m[r]] = true
	}
}

// refused runs f and returns the recovered panic value (nil if f returned normally).
func refused(f func()) (v interface{}) {
	defer func() { v = recover() }()
	f()
	return nil
}

func TestDemoProperty(t *testing.T) {
	rng := rand.New(rand.NewSource(18))
	for iter := 0; iter < 300; iter++ {
		n := 1 + rng.Intn(40)
		ds := disjoint.New(n)
		m := newModel(n)
		buf := make([]int, n+1)
		steps := rng.Intn(3 * n)
		for s := 0; s < steps; s++ {
			x, y := rng.Intn(n), rng.Intn(n)
			switch rng.Intn(6) {
			case 0:
				ds.Union(x, y)
				m.union(x, y)
			case 1:
				ds.UnionBuffered(x, y, buf)
				m.union(x, y)
			case 2:
				ds.Find(x)
			case 3:
				ds.FindBuffered(x, buf)
			case 4:
				// a call outside the domain is refused and must not change the partition
				bad := []int{-1, n, n + 3, -7}[rng.Intn(4)]
				if refused(func() { ds.Union(x, bad) }) == nil {
					t.Fatalf("Union(%d,%d) on %d elements was not refused", x, bad, n)
				}
				if refused(func() { ds.UnionBuffered(bad, y, buf) }) == nil {
					t.Fatalf("UnionBuffered(%d,%d) on %d elements was not refused", bad, y, n)
				}
			case 5:
				// chain-building unions in a fixed pattern (long paths, path compression)
				ds.Union(x, (x+1)%n)
				m.union(x, (x+1)%n)
			}
			if s%7 == 0 {
				checkAgainstModel(t, ds, m, "mid")
			}
		}
		checkAgainstModel(t, ds, m, "end")
	}
}

// chain8 builds 0 -> 1 -> 3 -> 7 (a path of length 3) with union by rank.
func chain8() disjoint.Set {
	ds := disjoint.New(8)
	ds.Union(0, 1)
	ds.Union(2, 3)
	ds.Union(1, 3)
	ds.Union(4, 5)
	ds.Union(6, 7)
	ds.Union(5, 7)
	ds.Union(3, 7)
	return ds
}

func TestDemoIncidentalOld(t *testing.T) {
	ds := chain8()
	// Find the deepest element by reading the raw slice (Set is a []int), without any lookup.
	depth := func(x int) int {
		d := 0
		for ds[x] >= 0 {
			x = ds[x]
			d++
		}
		return d
	}
	deep, best := 0, -1
	for i := range ds {
		if d := depth(i); d > best {
			deep, best = i, d
		}
	}
	if best < 3 {
		t.Skipf("no path of length 3 in %v (different linking rule); nothing to show", []int(ds))
	}
	before := append([]int(nil), ds...)

	// (a) panic value of an out-of-range Find: old = the runtime's own bounds error.
	v := refused(func() { ds.Find(8) })
	re, isRuntime := v.(runtime.Error)
	if !isRuntime || !strings.Contains(re.Error(), "index out of range [8] with length 8") {
		t.Errorf("OLD behaviour gone: Find(8) panicked with %T %q, expected runtime.Error 'index out of range [8] with length 8'", v, v)
	}
	v = refused(func() { ds.FindBuffered(-1, make([]int, 9)) })
	if _, isRuntime = v.(runtime.Error); !isRuntime {
		t.Errorf("OLD behaviour gone: FindBuffered(-1) panicked with %T %q, expected a runtime.Error", v, v)
	}
	if !reflect.DeepEqual([]int(ds), before) {
		t.Fatalf("a refused Find changed the raw slice: %v -> %v", before, []int(ds))
	}

	// (b) state after a refused Union: old = the first argument has already been looked up (path compressed).
	v = refused(func() { ds.Union(deep, 8) })
	if v == nil {
		t.Fatalf("Union(%d,8) was not refused", deep)
	}
	if _, isRuntime = v.(runtime.Error); !isRuntime {
		t.Errorf("OLD behaviour gone: Union(%d,8) panicked with %T %q, expected a runtime.Error", deep, v, v)
	}
	after := append([]int(nil), ds...)
	if reflect.DeepEqual(after, before) {
		t.Errorf("OLD behaviour gone: the refused Union(%d,8) left the raw slice untouched (%v); the old code had compressed the path of %d first", deep, after, deep)
	} else {
		t.Logf("refused Union(%d,8): raw slice %v -> %v (path of %d compressed before the panic)", deep, before, after, deep)
	}
	// in both versions the partition is what it was
	sets := ds.Sets()
	sort.Slice(sets, func(i, j int) bool { return sets[i][0] < sets[j][0] })
	if len(sets) != 1 || len(sets[0]) != 8 {
		t.Fatalf("partition changed by refused calls: %v", sets)
	}
}

// Demonstration for green change C10/5 (Distance and Eccentricity take their BFS working memory from a sync.Pool and
// use a slice as the queue instead of container/list).
//
// Run (from the repository root, clean tree or patched tree):
//
//	cp /tmp/green-out/C10/5/demo_test.go graph/zz_green_c10_5_demo_test.go
//	export GOFLAGS=-mod=mod GOPROXY=off GOSUMDB=off GOTOOLCHAIN=local
//	go test -vet=off -count=1 -timeout 120s -v -run 'TestGreenC10_5' ./graph/
//	rm graph/zz_green_c10_5_demo_test.go
//
// TestGreenC10_5_Property checks the property itself (Distance, Eccentricity, Diameter, Radius equal the shortest-path
// definitions, in several representations, on graphs of wildly alternating sizes so that recycled working memory of
// the wrong size / with old contents would show, also from many goroutines at once): passes on BOTH trees.
// TestGreenC10_5_Incidental asserts the OLD allocation behaviour (every call allocates its own distance array, a
// container/list and one list element per vertex put on the queue): passes on the CLEAN tree, FAILS with the patch
// (0 or 1 allocations per call).
package graph_test

import (
	"math/rand"
	"reflect"
	"sync"
	"testing"

	"github.com/Tom-Johnston/mamba/graph"
)

// adjGraph is a plain adjacency-list representation whose Neighbours hands out its own (sorted) lists without
// copying, so that it does not allocate by itself. A valid read-only graph.Graph.
type adjGraph struct {
	adj [][]int
}

func (a *adjGraph) N() int { return len(a.adj) }
func (a *adjGraph) M() int {
	m := 0
	for _, l := range a.adj {
		m += len(l)
	}
	return m / 2
}
func (a *adjGraph) IsEdge(i, j int) bool {
	for _, w := range a.adj[i] {
		if w == j {
			return true
		}
	}
	return false
}
func (a *adjGraph) Neighbours(v int) []int { return a.adj[v] }
func (a *adjGraph) Degrees() []int {
	d := make([]int, len(a.adj))
	for i, l := range a.adj {
		d[i] = len(l)
	}
	return d
}

func c105Adj(g graph.Graph) *adjGraph {
	n := g.N()
	a := &adjGraph{adj: make([][]int, n)}
	for i := 0; i < n; i++ {
		a.adj[i] = []int{}
		for j := 0; j < n; j++ {
			if i != j && g.IsEdge(i, j) {
				a.adj[i] = append(a.adj[i], j)
			}
		}
	}
	return a
}

// c105Reference returns the distance matrix by Floyd-Warshall (-1 = no path).
func c105Reference(g graph.Graph) [][]int {
	n := g.N()
	const inf = 1 << 30
	d := make([][]int, n)
	for i := range d {
		d[i] = make([]int, n)
		for j := range d[i] {
			if i == j {
				d[i][j] = 0
			} else if g.IsEdge(i, j) {
				d[i][j] = 1
			} else {
				d[i][j] = inf
			}
		}
	}
	for k := 0; k < n; k++ {
		for i := 0; i < n; i++ {
			for j := 0; j < n; j++ {
				if d[i][k]+d[k][j] < d[i][j] {
					d[i][j] = d[i][k] + d[k][j]
				}
			}
		}
	}
	for i := range d {
		for j := range d[i] {
			if d[i][j] >= inf {
				d[i][j] = -1
			}
		}
	}
	return d
}

func c105Check(t *testing.T, name string, g graph.Graph, ref [][]int) {
	n := g.N()
	connected := true
	for i := 0; i < n; i++ {
		for j := 0; j < n; j++ {
			if ref[i][j] == -1 {
				connected = false
			}
		}
	}
	wantEcc := make([]int, n)
	diam, rad := 0, 0
	for i := 0; i < n; i++ {
		e := 0
		for j := 0; j < n; j++ {
			if ref[i][j] > e {
				e = ref[i][j]
			}
		}
		if !connected {
			e = -1
		}
		wantEcc[i] = e
		if i == 0 || e > diam {
			diam = e
		}
		if i == 0 || e < rad {
			rad = e
		}
	}
	// Interleave Distance and Eccentricity calls so that both users of the working memory alternate.
	for i := 0; i < n; i++ {
		for j := 0; j < n; j++ {
			if got := graph.Distance(g, i, j); got != ref[i][j] {
				t.Fatalf("%s: Distance(%d,%d) = %d, want %d", name, i, j, got, ref[i][j])
			}
		}
		if i%3 == 0 {
			if got := graph.Eccentricity(g); !reflect.DeepEqual(got, wantEcc) {
				t.Fatalf("%s: Eccentricity = %v, want %v", name, got, wantEcc)
			}
		}
	}
	if got := graph.Eccentricity(g); len(got) != n || (n > 0 && !reflect.DeepEqual(got, wantEcc)) {
		t.Fatalf("%s: Eccentricity = %v, want %v", name, got, wantEcc)
	}
	if n > 0 {
		if got := graph.Diameter(g); got != diam {
			t.Fatalf("%s: Diameter = %d, want %d", name, got, diam)
		}
		if got := graph.Radius(g); got != rad {
			t.Fatalf("%s: Radius = %d, want %d", name, got, rad)
		}
	}
}

func c105Graphs() []*graph.DenseGraph {
	rng := rand.New(rand.NewSource(105))
	gs := []*graph.DenseGraph{graph.NewDense(0, nil), graph.NewDense(1, nil), graph.NewDense(2, nil), graph.Path(2)}
	// sizes jump up and down: a recycled buffer is sometimes longer, sometimes shorter than needed
	sizes := []int{40, 3, 17, 1, 64, 5, 0, 33, 2, 50, 9, 28, 4, 61, 12, 7, 45, 6, 21, 3}
	for r, n := range sizes {
		p := []float64{0.05, 0.12, 0.3, 0.7}[r%4]
		gs = append(gs, graph.RandomGraph(n, p, rng.Int63()))
		if n > 2 {
			gs = append(gs, graph.RandomTree(n, rng.Int63()))
		}
	}
	gs = append(gs, graph.Path(70), graph.Cycle(3), graph.Cycle(31), graph.Star(20), graph.CompleteGraph(9), graph.FriendshipGraph(6), graph.HypercubeGraph(5))
	return gs
}

func TestGreenC10_5_Property(t *testing.T) {
	gs := c105Graphs()
	refs := make([][][]int, len(gs))
	for k, g := range gs {
		refs[k] = c105Reference(g)
	}
	for k, g := range gs {
		n := g.N()
		c105Check(t, "dense", g, refs[k])
		nb := make([][]int, n)
		for v := range nb {
			nb[v] = g.Neighbours(v)
		}
		sp := graph.NewSparse(n, nil)
		for v := range nb {
			for _, w := range nb[v] {
				sp.AddEdge(v, w)
			}
		}
		c105Check(t, "sparse", sp, refs[k])
		c105Check(t, "adjacency", c105Adj(g), refs[k])
		// a relabelled copy
		perm := rand.New(rand.NewSource(int64(k))).Perm(n)
		h := graph.NewDense(n, nil)
		pref := make([][]int, n)
		for i := range pref {
			pref[i] = make([]int, n)
		}
		for i := 0; i < n; i++ {
			for j := 0; j < n; j++ {
				if i != j && g.IsEdge(i, j) {
					h.AddEdge(perm[i], perm[j])
				}
				pref[perm[i]][perm[j]] = refs[k][i][j]
			}
		}
		c105Check(t, "relabelled", h, pref)
	}
	// the same from many goroutines at once, each walking the list from a different start
	var wg sync.WaitGroup
	for w := 0; w < 8; w++ {
		wg.Add(1)
		go func(w int) {
			defer wg.Done()
			for r := 0; r < len(gs); r++ {
				k := (r*7 + w*5) % len(gs)
				g := gs[k]
				n := g.N()
				for i := 0; i < n; i++ {
					for j := 0; j < n; j += 1 + w%3 {
						if got := graph.Distance(g, i, j); got != refs[k][i][j] {
							t.Errorf("concurrent: graph %d Distance(%d,%d) = %d, want %d", k, i, j, got, refs[k][i][j])
							return
						}
					}
				}
				e := graph.Eccentricity(g)
				for i := 0; i < n; i++ {
					want := 0
					for j := 0; j < n; j++ {
						if refs[k][i][j] == -1 {
							want = -1
							break
						}
						if refs[k][i][j] > want {
							want = refs[k][i][j]
						}
					}
					if (want == -1) != (e[i] == -1) || (want != -1 && e[i] != want) {
						t.Errorf("concurrent: graph %d Eccentricity[%d] = %d, want %d", k, i, e[i], want)
						return
					}
				}
			}
		}(w)
	}
	wg.Wait()
}

func TestGreenC10_5_Incidental(t *testing.T) {
	const n = 400
	a := c105Adj(graph.Path(n))
	var g graph.Graph = a
	if d := graph.Distance(g, 0, n-1); d != n-1 {
		t.Fatalf("Distance on the path = %d", d)
	}
	allocsD := testing.AllocsPerRun(20, func() { graph.Distance(g, 0, n-1) })
	allocsE := testing.AllocsPerRun(5, func() { graph.Eccentricity(g) })
	t.Logf("allocations per call on the path with %d vertices: Distance(0,%d) %.0f, Eccentricity %.0f", n, n-1, allocsD, allocsE)
	// OLD behaviour: a distance array, a list and one list element per queued vertex, for every single call / source.
	if allocsD < n {
		t.Errorf("Distance allocates %.0f times per call, the old implementation allocated at least %d times (one per queued vertex)", allocsD, n)
	}
	if allocsE < n*n {
		t.Errorf("Eccentricity allocates %.0f times per call, the old implementation allocated at least %d times", allocsE, n*n)
	}
}

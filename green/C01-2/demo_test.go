// Demonstration for C01, change 2 (children of a search node are visited in increasing instead of decreasing order).
//
// Run (from the root of the library, public API only):
//
//	export GOFLAGS=-mod=mod GOPROXY=off GOSUMDB=off GOTOOLCHAIN=local
//	cp demo_test.go graph/zz_demo_test.go
//	go test -vet=off -count=1 -timeout 300s -run 'TestDemo' -v ./graph/
//	rm graph/zz_demo_test.go
//
// TestDemoProperty checks the property itself (permutation, same canonical graph for every relabelling, dense and
// sparse, different canonical graphs for non-isomorphic graphs) and passes before and after the change.
// TestDemoIncidentalPermutation asserts the permutation that the CLEAN tree happens to return for some graphs with
// automorphisms.  It passes on the clean tree and fails with the change: the new permutations differ from the old ones
// by an automorphism of the graph, so the canonical GRAPH (also asserted there, and unchanged) is the same.
package graph_test

import (
	"fmt"
	"math/rand"
	"testing"

	"github.com/Tom-Johnston/mamba/graph"
	"github.com/Tom-Johnston/mamba/sortints"
)

type demoCase struct {
	name      string
	g         *graph.DenseGraph
	oldPerm   []int  //What CanonicalIsomorph returns on the clean tree.
	canonical string //graph6 of the canonical graph (the same before and after the change).
}

func demoG6(s string) *graph.DenseGraph {
	g, err := graph.Graph6Decode(s)
	if err != nil {
		panic(err)
	}
	return g
}

func demoCases() []demoCase {
	return []demoCase{
		{"P4", graph.Path(4), []int{3, 0, 2, 1}, "CR"},
		{"C5", graph.Cycle(5), []int{4, 3, 0, 2, 1}, "DqK"},
		{"C6", graph.Cycle(6), []int{5, 4, 0, 3, 1, 2}, "EqGW"},
		{"K33", graph.CompletePartiteGraph(3, 3), []int{5, 2, 1, 0, 4, 3}, `Es\o`},
		{"Q3", graph.HypercubeGraph(3), []int{7, 6, 5, 3, 4, 2, 1, 0}, "GsXP_["},
		{"G|WW}K", demoG6("G|WW}K"), []int{7, 6, 5, 1, 0, 4, 3, 2}, "G{drO{"},
		{"GhcqSK", demoG6("GhcqSK"), []int{7, 6, 0, 5, 4, 1, 3, 2}, "GsX_ok"},
		{"petersen", graph.KneserGraph(5, 2), []int{9, 2, 1, 0, 6, 3, 4, 7, 5, 8}, "IsP@PGXD_"},
	}
}

func demoIsPerm(p []int, n int) bool {
	if len(p) != n {
		return false
	}
	seen := make([]bool, n)
	for _, v := range p {
		if v < 0 || v >= n || seen[v] {
			return false
		}
		seen[v] = true
	}
	return true
}

func demoSparse(g graph.Graph) *graph.SparseGraph {
	nb := make([]sortints.SortedInts, g.N())
	for i := range nb {
		nb[i] = append(sortints.SortedInts{}, g.Neighbours(i)...)
	}
	return graph.NewSparse(g.N(), nb)
}

func demoRelabel(g graph.Graph, pi []int) *graph.DenseGraph {
	h := graph.NewDense(g.N(), nil)
	for i := 0; i < g.N(); i++ {
		for _, j := range g.Neighbours(i) {
			if i < j {
				h.AddEdge(pi[i], pi[j])
			}
		}
	}
	return h
}

// demoCanon returns the graph6 string of the canonical graph, computed through the dense and the sparse representation.
func demoCanon(t *testing.T, g *graph.DenseGraph) string {
	t.Helper()
	p := graph.CanonicalIsomorph(g)
	if !demoIsPerm(p, g.N()) {
		t.Fatalf("%v: %v is not a permutation", graph.Graph6Encode(g), p)
	}
	c := graph.Graph6Encode(g.InducedSubgraph(p))
	s := demoSparse(g)
	q := graph.CanonicalIsomorph(s)
	if !demoIsPerm(q, g.N()) {
		t.Fatalf("%v (sparse): %v is not a permutation", graph.Graph6Encode(g), q)
	}
	if cs := graph.Graph6Encode(s.InducedSubgraph(q)); cs != c {
		t.Fatalf("%v: dense canonical graph %v, sparse canonical graph %v", graph.Graph6Encode(g), c, cs)
	}
	return c
}

func demoAllPerms(n int, f func(pi []int)) {
	pi := make([]int, n)
	for i := range pi {
		pi[i] = i
	}
	var rec func(k int)
	rec = func(k int) {
		if k == n {
			f(pi)
			return
		}
		for i := k; i < n; i++ {
			pi[k], pi[i] = pi[i], pi[k]
			rec(k + 1)
			pi[k], pi[i] = pi[i], pi[k]
		}
	}
	rec(0)
}

func TestDemoProperty(t *testing.T) {
	seen := map[string]string{}
	for _, c := range demoCases() {
		base := demoCanon(t, c.g)
		if other, ok := seen[base]; ok {
			t.Errorf("%v and %v are not isomorphic but have the same canonical graph", c.name, other)
		}
		seen[base] = c.name
		check := func(pi []int) {
			if got := demoCanon(t, demoRelabel(c.g, pi)); got != base {
				t.Fatalf("%v relabelled with %v: canonical graph %v, expected %v", c.name, pi, got, base)
			}
		}
		if c.g.N() <= 8 {
			demoAllPerms(c.g.N(), check)
		} else {
			rng := rand.New(rand.NewSource(1))
			for r := 0; r < 5000; r++ {
				check(rng.Perm(c.g.N()))
			}
		}
	}
}

func TestDemoIncidentalPermutation(t *testing.T) {
	for _, c := range demoCases() {
		p := graph.CanonicalIsomorph(c.g)
		canon := graph.Graph6Encode(c.g.InducedSubgraph(p))
		fmt.Printf("%-8v permutation %v canonical graph %v\n", c.name, p, canon)
		if canon != c.canonical {
			t.Errorf("%v: canonical graph %v, on the clean tree %v", c.name, canon, c.canonical)
		}
		if fmt.Sprint(p) != fmt.Sprint(c.oldPerm) {
			t.Errorf("%v: permutation %v, on the clean tree %v (both give the canonical graph %v)", c.name, p, c.oldPerm, canon)
		}
	}
}

// Package rg is the harness-owned reference graph: a plain bit-matrix simple
// graph that shares no code with the library under test, plus the
// well-formedness / conformance checker for any graph.Graph value.
package rg

import (
	"fmt"
	"math/bits"
	"sort"
	"strings"

	"github.com/Tom-Johnston/mamba/graph"
	"github.com/Tom-Johnston/mamba/sortints"
)

// G is a simple undirected graph on vertices 0..N-1.
type G struct {
	N int
	W int      // words per row
	A []uint64 // N*W words
}

// New returns the edgeless graph on n vertices.
func New(n int) *G {
	w := (n + 63) / 64
	if w == 0 {
		w = 1
	}
	return &G{N: n, W: w, A: make([]uint64, n*w)}
}

// Has reports whether ij is an edge.
func (g *G) Has(i, j int) bool { return g.A[i*g.W+j>>6]>>(uint(j)&63)&1 == 1 }

// Add adds the edge ij (ignored if i == j).
func (g *G) Add(i, j int) {
	if i == j {
		return
	}
	g.A[i*g.W+j>>6] |= 1 << (uint(j) & 63)
	g.A[j*g.W+i>>6] |= 1 << (uint(i) & 63)
}

// Del removes the edge ij.
func (g *G) Del(i, j int) {
	if i == j {
		return
	}
	g.A[i*g.W+j>>6] &^= 1 << (uint(j) & 63)
	g.A[j*g.W+i>>6] &^= 1 << (uint(i) & 63)
}

// Row returns the adjacency words of v.
func (g *G) Row(v int) []uint64 { return g.A[v*g.W : (v+1)*g.W] }

// Deg returns the degree of v.
func (g *G) Deg(v int) int {
	d := 0
	for _, w := range g.Row(v) {
		d += bits.OnesCount64(w)
	}
	return d
}

// Degrees returns the degree sequence.
func (g *G) Degrees() []int {
	d := make([]int, g.N)
	for v := range d {
		d[v] = g.Deg(v)
	}
	return d
}

// M returns the number of edges.
func (g *G) M() int {
	m := 0
	for _, w := range g.A {
		m += bits.OnesCount64(w)
	}
	return m / 2
}

// Nbrs returns the ascending neighbour list of v.
func (g *G) Nbrs(v int) []int {
	r := []int{}
	for wi, w := range g.Row(v) {
		for w != 0 {
			b := bits.TrailingZeros64(w)
			r = append(r, wi*64+b)
			w &= w - 1
		}
	}
	return r
}

// Copy returns an independent copy.
func (g *G) Copy() *G {
	h := &G{N: g.N, W: g.W, A: make([]uint64, len(g.A))}
	copy(h.A, g.A)
	return h
}

// Equal reports labelled equality.
func (g *G) Equal(h *G) bool {
	if g.N != h.N {
		return false
	}
	for i := range g.A {
		if g.A[i] != h.A[i] {
			return false
		}
	}
	return true
}

// Induced returns the graph whose vertex i is V[i] of g (the convention of
// InducedSubgraph in the library's documentation).  With a permutation V it
// is the relabelling of g by V.
func (g *G) Induced(V []int) *G {
	h := New(len(V))
	for i := range V {
		for j := 0; j < i; j++ {
			if g.Has(V[i], V[j]) {
				h.Add(i, j)
			}
		}
	}
	return h
}

// Complement returns the complement graph.
func (g *G) Complement() *G {
	h := New(g.N)
	for i := 0; i < g.N; i++ {
		for j := 0; j < i; j++ {
			if !g.Has(i, j) {
				h.Add(i, j)
			}
		}
	}
	return h
}

// RemoveVertex returns g with v deleted (larger vertices shift down).
func (g *G) RemoveVertex(v int) *G {
	V := make([]int, 0, g.N-1)
	for i := 0; i < g.N; i++ {
		if i != v {
			V = append(V, i)
		}
	}
	return g.Induced(V)
}

// AddVertex returns g plus a new last vertex adjacent to nbrs.
func (g *G) AddVertex(nbrs []int) *G {
	h := New(g.N + 1)
	for i := 0; i < g.N; i++ {
		for j := 0; j < i; j++ {
			if g.Has(i, j) {
				h.Add(i, j)
			}
		}
	}
	for _, u := range nbrs {
		h.Add(g.N, u)
	}
	return h
}

// Edges lists the edges (i<j) in the order 01,02,12,03,...
func (g *G) Edges() [][2]int {
	var r [][2]int
	for j := 0; j < g.N; j++ {
		for i := 0; i < j; i++ {
			if g.Has(i, j) {
				r = append(r, [2]int{i, j})
			}
		}
	}
	return r
}

// Key is a compact, harness-defined text form (n:hex upper triangle) usable as
// a map key; it is not graph6.
func (g *G) Key() string {
	var sb strings.Builder
	fmt.Fprintf(&sb, "%d:", g.N)
	var acc uint
	nb := 0
	for j := 0; j < g.N; j++ {
		for i := 0; i < j; i++ {
			acc <<= 1
			if g.Has(i, j) {
				acc |= 1
			}
			nb++
			if nb == 4 {
				sb.WriteByte("0123456789abcdef"[acc])
				acc, nb = 0, 0
			}
		}
	}
	if nb > 0 {
		acc <<= uint(4 - nb)
		sb.WriteByte("0123456789abcdef"[acc])
	}
	return sb.String()
}

// G6 is the harness's own graph6 writer for n <= 62 (used for readable
// witnesses; the full reference codec lives in oracle/codec).
func (g *G) G6() string {
	if g.N > 62 {
		return g.Key()
	}
	b := []byte{byte(g.N + 63)}
	var acc byte
	nb := 0
	for j := 0; j < g.N; j++ {
		for i := 0; i < j; i++ {
			acc <<= 1
			if g.Has(i, j) {
				acc |= 1
			}
			nb++
			if nb == 6 {
				b = append(b, acc+63)
				acc, nb = 0, 0
			}
		}
	}
	if nb > 0 {
		acc <<= uint(6 - nb)
		b = append(b, acc+63)
	}
	return string(b)
}

// FromG6 parses a graph6 string with n <= 62 written by G6 (harness side).
func FromG6(s string) *G {
	n := int(s[0]) - 63
	g := New(n)
	k := 0
	for j := 0; j < n; j++ {
		for i := 0; i < j; i++ {
			if (s[1+k/6]-63)>>(5-uint(k%6))&1 == 1 {
				g.Add(i, j)
			}
			k++
		}
	}
	return g
}

// FromGraph reads any library graph through IsEdge only.
func FromGraph(h graph.Graph) *G {
	n := h.N()
	g := New(n)
	for i := 0; i < n; i++ {
		for j := 0; j < i; j++ {
			if h.IsEdge(i, j) {
				g.Add(i, j)
			}
		}
	}
	return g
}

// EdgeBytes returns the upper-triangle byte array in the library's documented
// order (edge ij, i<j, at j(j-1)/2+i).
func (g *G) EdgeBytes() []byte {
	b := make([]byte, g.N*(g.N-1)/2)
	if g.N == 0 {
		return []byte{}
	}
	for j := 0; j < g.N; j++ {
		for i := 0; i < j; i++ {
			if g.Has(i, j) {
				b[j*(j-1)/2+i] = 1
			}
		}
	}
	return b
}

// Dense builds a *graph.DenseGraph by filling the exported fields directly
// (does not go through any constructor under test).
func (g *G) Dense() *graph.DenseGraph {
	return &graph.DenseGraph{NumberOfVertices: g.N, NumberOfEdges: g.M(), DegreeSequence: g.Degrees(), Edges: g.EdgeBytes()}
}

// DenseVariant builds a *graph.DenseGraph that represents the same graph as Dense() but differs in everything the
// documentation leaves open: k = 0 is Dense(); for k > 0 every edge byte is some value in 1..255 (NewDense and all
// observers treat any byte > 0 as an edge) and the Edges / DegreeSequence slices have spare capacity filled with
// non-zero garbage (AddVertex is documented to reuse spare capacity).
func (g *G) DenseVariant(k int) *graph.DenseGraph {
	if k == 0 {
		return g.Dense()
	}
	eb := g.EdgeBytes()
	spare := 3 + (k*7+g.N)%11
	edges := make([]byte, len(eb), len(eb)+spare*(g.N+2))
	h := uint32(k)*2654435761 + 12345
	for i, b := range eb {
		if b != 0 {
			h = h*1664525 + 1013904223
			edges[i] = byte(1 + (h>>16)%255)
		}
	}
	full := edges[:cap(edges)]
	for i := len(edges); i < len(full); i++ {
		full[i] = 0xA5
	}
	deg := g.Degrees()
	ds := make([]int, len(deg), len(deg)+spare)
	copy(ds, deg)
	fd := ds[:cap(ds)]
	for i := len(ds); i < len(fd); i++ {
		fd[i] = -7
	}
	return &graph.DenseGraph{NumberOfVertices: g.N, NumberOfEdges: g.M(), DegreeSequence: ds, Edges: edges}
}

// SparseVariant is Sparse() with spare capacity (filled with garbage) behind every neighbourhood and behind the
// slices of the struct for k > 0.
func (g *G) SparseVariant(k int) *graph.SparseGraph {
	if k == 0 {
		return g.Sparse()
	}
	spare := 2 + (k*5+g.N)%7
	nb := make([]sortints.SortedInts, g.N, g.N+spare)
	for v := range nb {
		l := g.Nbrs(v)
		x := make([]int, len(l), len(l)+spare)
		copy(x, l)
		fx := x[:cap(x)]
		for i := len(x); i < len(fx); i++ {
			fx[i] = -3
		}
		nb[v] = sortints.SortedInts(x)
	}
	deg := g.Degrees()
	ds := make([]int, len(deg), len(deg)+spare)
	copy(ds, deg)
	fd := ds[:cap(ds)]
	for i := len(ds); i < len(fd); i++ {
		fd[i] = -7
	}
	return &graph.SparseGraph{NumberOfVertices: g.N, NumberOfEdges: g.M(), Neighbourhoods: nb, DegreeSequence: ds}
}

// Sparse builds a *graph.SparseGraph by filling the exported fields directly.
func (g *G) Sparse() *graph.SparseGraph {
	nb := make([]sortints.SortedInts, g.N)
	for v := range nb {
		nb[v] = sortints.SortedInts(g.Nbrs(v))
	}
	return &graph.SparseGraph{NumberOfVertices: g.N, NumberOfEdges: g.M(), Neighbourhoods: nb, DegreeSequence: g.Degrees()}
}

// Conforms checks that every observer of h agrees with the model g and returns
// a description of the first disagreement ("" if none).  The caller guards
// panics.
func Conforms(h graph.Graph, g *G) string {
	if h.N() != g.N {
		return fmt.Sprintf("N()=%d, model has %d vertices", h.N(), g.N)
	}
	n := g.N
	for i := 0; i < n; i++ {
		for j := 0; j < n; j++ {
			want := i != j && g.Has(i, j)
			if got := h.IsEdge(i, j); got != want {
				return fmt.Sprintf("IsEdge(%d,%d)=%v, model %v", i, j, got, want)
			}
		}
	}
	if h.M() != g.M() {
		return fmt.Sprintf("M()=%d, model has %d edges", h.M(), g.M())
	}
	deg := h.Degrees()
	if len(deg) != n {
		return fmt.Sprintf("len(Degrees())=%d, n=%d", len(deg), n)
	}
	for v := 0; v < n; v++ {
		if deg[v] != g.Deg(v) {
			return fmt.Sprintf("Degrees()[%d]=%d, model degree %d (Degrees=%v)", v, deg[v], g.Deg(v), deg)
		}
		nb := h.Neighbours(v)
		want := g.Nbrs(v)
		if len(nb) != len(want) {
			return fmt.Sprintf("Neighbours(%d)=%v, model %v", v, nb, want)
		}
		for k := range nb {
			if nb[k] != want[k] {
				return fmt.Sprintf("Neighbours(%d)=%v, model %v", v, nb, want)
			}
		}
	}
	return ""
}

// WellFormed checks internal consistency of h alone (symmetric, loop-free,
// M/Degrees/Neighbours equal to the adjacency read through IsEdge).
func WellFormed(h graph.Graph) string {
	return Conforms(h, FromGraph(h))
}

// String renders the edge list.
func (g *G) String() string {
	var parts []string
	for _, e := range g.Edges() {
		parts = append(parts, fmt.Sprintf("%d-%d", e[0], e[1]))
	}
	return fmt.Sprintf("n=%d{%s}", g.N, strings.Join(parts, " "))
}

// DegreeMultiset returns the sorted degree sequence.
func (g *G) DegreeMultiset() []int {
	d := g.Degrees()
	sort.Ints(d)
	return d
}

// Union returns the disjoint union of g and h.
func Union(g, h *G) *G {
	r := New(g.N + h.N)
	for _, e := range g.Edges() {
		r.Add(e[0], e[1])
	}
	for _, e := range h.Edges() {
		r.Add(g.N+e[0], g.N+e[1])
	}
	return r
}

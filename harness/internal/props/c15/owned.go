package c15

// Caller-owned arguments.  Product, RestrictedPrefixProduct and
// MultisetPermutations visibly take a private copy of the slice they are given
// (the source of the two products says "Create a deep copy of n in case it
// changes"; MultisetPermutations expands freq into its own array), so what the
// caller does with its slice afterwards must not matter: the slice is
// overwritten right after construction, after the k-th Next, or reused as a
// scratch slice for several iterators before any of them is drained, and the
// enumeration is compared with the reference for the ORIGINAL contents.
// MultisetCombinations keeps the caller's m today and nothing documents
// otherwise: the same cases are run but only recorded (not judged).
// Returned values are overwritten only where the documentation says that is
// safe (Partitions, MultisetCombinations.Value).

import (
	"fmt"

	"verif/internal/engine"
)

func scribble(a []int, mode string) {
	for i := range a {
		switch mode {
		case "zero":
			a[i] = 0
		case "plus3":
			a[i] += 3
		case "ones":
			a[i] = 1
		}
	}
}

// overwrittenAfter: the caller's slice is overwritten after the at-th successful Next (at = 0: right after construction).
func overwrittenAfter(k *kase, orig []int, at int, mode string) *kase {
	mk := k.mk
	if at == 0 {
		k.witness += fmt.Sprintf(",caller-slice-overwritten-after-construction(%s)", mode)
	} else {
		k.witness += fmt.Sprintf(",caller-slice-overwritten-after-Next#%d(%s)", at, mode)
	}
	k.build = func() iface {
		arg := cpInts(orig)
		it := mk(arg)
		if at == 0 {
			scribble(arg, mode)
		}
		inner := it.next
		n := 0
		it.next = func() bool {
			ok := inner()
			if ok {
				n++
				if n == at {
					scribble(arg, mode)
				}
			}
			return ok
		}
		return it
	}
	return k
}

// scratchReused: iterators for all vectors of the group are built one after the other from the same scratch slice; the j-th is drained.
func scratchReused(k *kase, group [][]int, j int) *kase {
	mk := k.mk
	k.witness += fmt.Sprintf(",scratch-slice-reused(iterator %d of %d built from one slice)", j+1, len(group))
	k.build = func() iface {
		max := 0
		for _, v := range group {
			if len(v) > max {
				max = len(v)
			}
		}
		scratch := make([]int, max)
		var its []iface
		for _, v := range group {
			s := scratch[:len(v)]
			copy(s, v)
			its = append(its, mk(s))
		}
		return its[j]
	}
	return k
}

func ownedVectors(maxSum int) [][]int {
	var vs [][]int
	for sum := 0; sum <= maxSum; sum++ {
		for l := 1; l <= 4; l++ {
			vectors(l, sum, func(v []int) { vs = append(vs, cpInts(v)) })
		}
	}
	return vs
}

func runOwned(c *engine.Ctx) {
	type maker struct {
		api   string
		judge bool
		mk    func(v []int, variant int) []*kase // the cases of one vector (fresh kase per call)
	}
	hp := func(stream string, i int) pred {
		return hashPred(c.Rand(stream, i).U64()&0xffffffffff, 3, 4, 0xffff)
	}
	makers := []maker{
		{"Product", true, func(v []int, _ int) []*kase { return []*kase{productCase(v)} }},
		{"RestrictedPrefixProduct", true, func(v []int, i int) []*kase {
			return []*kase{restrictedProductCase(v, fixedPreds(len(v))[0]), restrictedProductCase(v, hp("owned-RestrictedPrefixProduct", i))}
		}},
		{"MultisetPermutations", true, func(v []int, _ int) []*kase { return []*kase{multisetPermutationsCase(v)} }},
		{"MultisetCombinations", false, func(v []int, i int) []*kase {
			return []*kase{multisetCombinationsCase(v, i%(sumOf(v)+2))}
		}},
	}
	maxSum := c.Pick(5, 7)
	vs := ownedVectors(maxSum)
	modes := []string{"zero", "plus3", "ones"}
	for _, mkr := range makers {
		mkr := mkr
		blocks(len(vs), 60, func(lo, hi int) {
			c.Unit(fmt.Sprintf("caller-owned/%s/vectors %d-%d", mkr.api, lo, hi-1), func() {
				r := newRunner(c)
				finish := func(k *kase) {
					if !mkr.judge {
						k.recordOnly = "not_judged:MultisetCombinations_aliases_m"
					} else {
						c.Obs("caller_owned_argument_cases:"+mkr.api, 1)
					}
					r.run(k)
				}
				for i := lo; i < hi; i++ {
					v := vs[i]
					// number of objects decides after which Next calls to overwrite
					nobj := 0
					if ks := mkr.mk(v, i); len(ks) > 0 {
						nobj = len(ks[0].want)
					}
					for vi := range mkr.mk(v, i) {
						for mi, mode := range modes {
							finish(overwrittenAfter(mkr.mk(v, i)[vi], v, 0, mode))
							for _, at := range []int{1, 2, nobj / 2, nobj - 1, nobj} {
								if at >= 1 && (at <= 2 || at == nobj-1 && mi == 0 || at == nobj/2 && mi == 1 || at == nobj && mi == 2) {
									finish(overwrittenAfter(mkr.mk(v, i)[vi], v, at, mode))
								}
							}
						}
						// several iterators from one reused slice: this vector together with its neighbours in the list
						group := [][]int{vs[(i+len(vs)-1)%len(vs)], v, vs[(i+1)%len(vs)], vs[(i*7+3)%len(vs)]}
						for j := range group {
							// the case under test is the one for group[j]
							finish(scratchReused(mkr.mk(group[j], i)[vi], group, j))
						}
					}
				}
			})
		})
	}

	// long vectors
	c.Unit("caller-owned/long vectors", func() {
		r := newRunner(c)
		for _, l := range []int{65, 130} {
			v := withEntries(constVec(l, 1), 0, 2, 64, 3, l-1, 2)
			for _, mode := range []string{"zero", "plus3"} {
				for _, at := range []int{0, 1, 5} {
					r.run(overwrittenAfter(productCase(v), v, at, mode))
					r.run(overwrittenAfter(restrictedProductCase(v, fixedPreds(l)[0]), v, at, mode))
					c.Obs("caller_owned_argument_cases:Product", 1)
					c.Obs("caller_owned_argument_cases:RestrictedPrefixProduct", 1)
				}
			}
			f := withEntries(constVec(l, 0), 3, 1, 64, 2, l-1, 1)
			for _, at := range []int{0, 1, 7} {
				r.run(overwrittenAfter(multisetPermutationsCase(f), f, at, "plus3"))
				c.Obs("caller_owned_argument_cases:MultisetPermutations", 1)
			}
		}
	})

	// returned values that the documentation allows the caller to modify
	c.Unit("caller-owned/returned values overwritten", func() {
		r := newRunner(c)
		for n := 1; n <= c.Pick(8, 9); n++ {
			k := partitionsCase(n)
			k.scribbleValues = true
			k.witness += ",every-returned-value-overwritten"
			r.run(k)
			c.Obs("returned_value_overwritten_cases:Partitions", 1)
		}
		for _, v := range ownedVectors(c.Pick(5, 6)) {
			for kk := 0; kk <= sumOf(v)+1; kk++ {
				k := multisetCombinationsCase(v, kk)
				k.scribbleValues = true
				k.witness += ",every-returned-Value-overwritten"
				r.run(k)
				c.Obs("returned_value_overwritten_cases:MultisetCombinations.Value", 1)
			}
		}
	})
}

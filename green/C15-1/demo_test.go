// Demonstration for C15 / change 1 (PermutationsByPattern visits the children of a DFS node in increasing instead of
// decreasing order of the appended value).
//
// Run (from the root of the library, offline):
//
//	export GOFLAGS=-mod=mod GOPROXY=off GOSUMDB=off GOTOOLCHAIN=local
//	cp /tmp/green-out/C15/1/demo_test.go itertools/zz_c15_demo1_test.go
//	go test -vet=off -count=1 -timeout 300s -run 'TestC15Demo1' -v ./itertools/
//	rm itertools/zz_c15_demo1_test.go
//
// TestC15Demo1Property checks the property itself (exactly the permutations all of whose standardised prefixes are
// accepted, once each, then exhaustion for ever) and passes on the clean tree AND with the change.
// TestC15Demo1IncidentalOrder asserts the OLD, undocumented order of the results. It passes on the clean tree and
// FAILS with the change.
package itertools_test

import (
	"fmt"
	"sort"
	"testing"

	"github.com/Tom-Johnston/mamba/itertools"
)

// standardise returns the permutation of {0, ..., len(a)-1} which is order-isomorphic to a.
func standardise(a []int) []int {
	s := append([]int(nil), a...)
	sort.Ints(s)
	out := make([]int, len(a))
	for i, v := range a {
		out[i] = sort.SearchInts(s, v)
	}
	return out
}

type namedPred struct {
	name string
	f    func([]int) bool
}

func demo1Preds() []namedPred {
	return []namedPred{
		{"all", func(a []int) bool { return true }},
		{"none", func(a []int) bool { return false }},
		{"onlyLength<=2", func(a []int) bool { return len(a) <= 2 }},
		{"lastNotMax", func(a []int) bool { return len(a) == 1 || a[len(a)-1] != len(a)-1 }},
		{"lastNotMin", func(a []int) bool { return len(a) == 1 || a[len(a)-1] != 0 }},
		{"noDoubleAscent", func(a []int) bool {
			n := len(a)
			return n < 3 || !(a[n-3] < a[n-2] && a[n-2] < a[n-1])
		}},
		{"avoids021", func(a []int) bool {
			//Does some pattern 021 end at the last entry?
			n := len(a)
			for i := 0; i < n-1; i++ {
				for j := i + 1; j < n-1; j++ {
					if a[i] < a[n-1] && a[n-1] < a[j] {
						return false
					}
				}
			}
			return true
		}},
		{"firstTwoDescend", func(a []int) bool { return len(a) < 2 || a[0] > a[1] }},
		{"hashy", func(a []int) bool {
			h := 7
			for _, v := range a {
				h = h*31 + v + 1
			}
			return h%5 != 0
		}},
	}
}

func TestC15Demo1Property(t *testing.T) {
	for n := 0; n <= 7; n++ {
		for _, p := range demo1Preds() {
			//Reference: filter the unrestricted enumeration.
			want := map[string]bool{}
			all := itertools.Permutations(n)
			for all.Next() {
				v := all.Value()
				ok := true
				for l := 1; l <= n && ok; l++ {
					ok = p.f(standardise(v[:l]))
				}
				if ok {
					want[fmt.Sprint(v)] = true
				}
			}

			got := map[string]bool{}
			iter := itertools.PermutationsByPattern(n, p.f)
			for iter.Next() {
				key := fmt.Sprint(iter.Value())
				if len(iter.Value()) != n {
					t.Fatalf("n=%d %s: value %v has the wrong length", n, p.name, iter.Value())
				}
				if got[key] {
					t.Fatalf("n=%d %s: %s yielded twice", n, p.name, key)
				}
				if !want[key] {
					t.Fatalf("n=%d %s: %s yielded but not in the filtered family", n, p.name, key)
				}
				got[key] = true
			}
			if len(got) != len(want) {
				t.Fatalf("n=%d %s: yielded %d of %d", n, p.name, len(got), len(want))
			}
			for i := 0; i < 3; i++ {
				if iter.Next() {
					t.Fatalf("n=%d %s: Next returned true after exhaustion", n, p.name)
				}
			}
		}
	}
}

func TestC15Demo1IncidentalOrder(t *testing.T) {
	//The order in which the clean tree happens to produce the results. No doc comment promises it.
	old := "[0 1 2] [0 2 1] [1 2 0] [1 0 2] [2 0 1] [2 1 0]"
	got := ""
	iter := itertools.PermutationsByPattern(3, func([]int) bool { return true })
	for iter.Next() {
		if got != "" {
			got += " "
		}
		got += fmt.Sprint(iter.Value())
	}
	t.Logf("PermutationsByPattern(3, all) order: %s", got)
	if got != old {
		t.Fatalf("order differs from the old incidental order\n got %s\nwant %s", got, old)
	}
}

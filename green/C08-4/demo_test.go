// Demo for C08 green change 4 (Sparse6Decode: a number >= n inside the edge stream is skipped instead of becoming the
// current vertex, so the pairs that follow it are still read).
//
// Run (from the root of the library worktree):
//
//	cp /tmp/green-out/C08/4/demo_test.go graph/zz_c08_demo4_test.go
//	export GOFLAGS=-mod=mod GOPROXY=off GOSUMDB=off GOTOOLCHAIN=local
//	go test -vet=off -count=1 -timeout 300s -run 'TestC08Demo4' -v ./graph/
//	rm graph/zz_c08_demo4_test.go
//
// TestC08Demo4Property        checks the property itself, literally: no panic, termination, and EITHER an error OR a
//
//	well-formed graph on the number of vertices declared by the size header, which survives
//	re-encode + decode.  Many of the inputs are sparse6 streams with numbers >= n in them.
//	It also checks that every string produced by Sparse6Encode decodes to the graph it encodes.
//	PASSES on the clean tree and with the change.
//
// TestC08Demo4IncidentalOld   asserts the OLD incidental behaviour: WHICH graph comes out of a corrupt stream.  The old
//
//	decoder follows the letter of formats.txt ("if x > v then v = x"), so a number >= n makes
//	v >= n for good and everything after it is dropped.  E.g. ":D]N" (n=5, pairs (0,7) (1,0))
//	decodes to the empty graph on 5 vertices.  The test compares the library with a small
//	reference decoder written to that rule on 3000 random corrupt streams.
//	PASSES on the clean tree, FAILS with the change (":D]N" now has the edge 0-1).
package graph_test

import (
	"fmt"
	"math/rand"
	"strings"
	"testing"

	"github.com/Tom-Johnston/mamba/graph"
)

// c08d4DeclaredN reads the size header at the start of body (the text after the optional >>..<< header and, for
// sparse6, after the colon).  Only the bytes of the size header itself are looked at.  ok is false if there is no
// complete size header made of bytes in 63..126.
func c08d4DeclaredN(body string) (n uint64, ok bool) {
	in := func(k int) bool {
		if len(body) < k {
			return false
		}
		for i := 0; i < k; i++ {
			if body[i] < 63 || body[i] > 126 {
				return false
			}
		}
		return true
	}
	if !in(1) {
		return 0, false
	}
	if body[0] != 126 {
		return uint64(body[0] - 63), true
	}
	if len(body) < 2 || body[1] != 126 {
		if !in(4) {
			return 0, false
		}
		return uint64(body[1]-63)<<12 | uint64(body[2]-63)<<6 | uint64(body[3]-63), true
	}
	if !in(8) {
		return 0, false
	}
	for j := 2; j < 8; j++ {
		n = n<<6 | uint64(body[j]-63)
	}
	return n, true
}

// c08d4WellFormed checks through the Graph interface only that g is a simple undirected graph on n vertices with
// consistent edge count, degrees and neighbour lists.
func c08d4WellFormed(g graph.Graph, n int) error {
	if g.N() != n {
		return fmt.Errorf("N() = %d, declared %d", g.N(), n)
	}
	deg := g.Degrees()
	if len(deg) != n {
		return fmt.Errorf("len(Degrees()) = %d", len(deg))
	}
	sum := 0
	for v := 0; v < n; v++ {
		nb := g.Neighbours(v)
		if len(nb) != deg[v] {
			return fmt.Errorf("vertex %d: %d neighbours, degree %d", v, len(nb), deg[v])
		}
		for k, u := range nb {
			if u < 0 || u >= n || u == v {
				return fmt.Errorf("vertex %d: bad neighbour %d", v, u)
			}
			if k > 0 && nb[k-1] >= u {
				return fmt.Errorf("vertex %d: neighbours not strictly increasing", v)
			}
			if !g.IsEdge(u, v) || !g.IsEdge(v, u) {
				return fmt.Errorf("edge %d-%d not symmetric", u, v)
			}
		}
		if g.IsEdge(v, v) {
			return fmt.Errorf("loop at %d", v)
		}
		sum += deg[v]
	}
	if sum != 2*g.M() {
		return fmt.Errorf("degree sum %d, M() = %d", sum, g.M())
	}
	if n <= 200 {
		for v := 0; v < n; v++ {
			c := 0
			for u := 0; u < n; u++ {
				if g.IsEdge(u, v) {
					c++
				}
			}
			if c != deg[v] {
				return fmt.Errorf("vertex %d: IsEdge row has %d edges, degree %d", v, c, deg[v])
			}
		}
	}
	return nil
}

func c08d4CheckG6(s string) (err error) {
	defer func() {
		if r := recover(); r != nil {
			err = fmt.Errorf("Graph6Decode(%q) panicked: %v", s, r)
		}
	}()
	body := strings.TrimPrefix(s, ">>graph6<<")
	n, ok := c08d4DeclaredN(body)
	if ok && n > 4096 {
		return nil // outside the quantifier
	}
	g, derr := graph.Graph6Decode(s)
	if derr != nil {
		return nil
	}
	if len(body) == 0 {
		n, ok = 0, true // documented: the empty string is the empty graph
	}
	if !ok {
		return fmt.Errorf("Graph6Decode(%q) succeeded without a readable size header", s)
	}
	if e := c08d4WellFormed(g, int(n)); e != nil {
		return fmt.Errorf("Graph6Decode(%q): %v", s, e)
	}
	h, derr := graph.Graph6Decode(graph.Graph6Encode(g))
	if derr != nil || !graph.Equal(g, h) {
		return fmt.Errorf("Graph6Decode(%q): re-encoding does not give the same graph (%v)", s, derr)
	}
	return nil
}

func c08d4CheckS6(s string) (err error) {
	defer func() {
		if r := recover(); r != nil {
			err = fmt.Errorf("Sparse6Decode(%q) panicked: %v", s, r)
		}
	}()
	body := strings.TrimPrefix(s, ">>sparse6<<")
	colon := strings.HasPrefix(body, ":")
	body = strings.TrimPrefix(body, ":")
	n, ok := c08d4DeclaredN(body)
	if colon && ok && n > 4096 {
		return nil
	}
	g, derr := graph.Sparse6Decode(s)
	if derr != nil {
		return nil
	}
	if !colon || !ok {
		return fmt.Errorf("Sparse6Decode(%q) succeeded without a readable size header", s)
	}
	if e := c08d4WellFormed(g, int(n)); e != nil {
		return fmt.Errorf("Sparse6Decode(%q): %v", s, e)
	}
	h, derr := graph.Sparse6Decode(graph.Sparse6Encode(g))
	if derr != nil || !graph.Equal(g, h) {
		return fmt.Errorf("Sparse6Decode(%q): re-encoding does not give the same graph (%v)", s, derr)
	}
	return nil
}

// c08d4Stream packs the pairs (b, x) into a sparse6 string for n vertices, padding the last character with 1 bits.
func c08d4Stream(n int, pairs [][2]int) string {
	var s []byte
	switch {
	case n <= 62:
		s = []byte{':', byte(n + 63)}
	default:
		s = []byte{':', 126, byte((n>>12)&63) + 63, byte((n>>6)&63) + 63, byte(n&63) + 63}
	}
	k := 0
	for (1 << uint(k)) < n {
		k++
	}
	var bits []byte
	for _, p := range pairs {
		bits = append(bits, byte(p[0]))
		for j := k - 1; j >= 0; j-- {
			bits = append(bits, byte((p[1]>>uint(j))&1))
		}
	}
	for len(bits)%6 != 0 {
		bits = append(bits, 1)
	}
	for i := 0; i < len(bits); i += 6 {
		var c byte
		for j := 0; j < 6; j++ {
			c = c<<1 | bits[i+j]
		}
		s = append(s, c+63)
	}
	return string(s)
}

// c08d4OldRule decodes the edge stream of a sparse6 string (small header forms only, all bytes assumed in range) by
// the letter of formats.txt: b=1 -> v++;  x > v -> v = x;  otherwise the edge {x,v} if v < n.  Returns the sorted
// list of edges (loops and repeated edges dropped).
func c08d4OldRule(s string) (n int, edges map[[2]int]bool) {
	s = s[1:]
	i := 1
	n = int(s[0] - 63)
	if s[0] == 126 {
		n = int(s[1]-63)<<12 | int(s[2]-63)<<6 | int(s[3]-63)
		i = 4
	}
	k := 0
	for (1 << uint(k)) < n {
		k++
	}
	var bits []int
	for ; i < len(s); i++ {
		for j := 5; j >= 0; j-- {
			bits = append(bits, int((s[i]-63)>>uint(j))&1)
		}
	}
	edges = map[[2]int]bool{}
	v := 0
	for p := 0; p+1+k <= len(bits); p += 1 + k {
		if bits[p] == 1 {
			v++
		}
		x := 0
		for j := 0; j < k; j++ {
			x = x<<1 | bits[p+1+j]
		}
		if x > v {
			v = x
		} else if v < n && x != v {
			edges[[2]int{x, v}] = true
		}
	}
	return n, edges
}

func c08d4RandomStream(rng *rand.Rand) string {
	ns := []int{2, 3, 4, 5, 6, 7, 9, 10, 12, 17, 20, 33, 40, 63, 100}
	n := ns[rng.Intn(len(ns))]
	if rng.Intn(100) == 0 {
		n = []int{1000, 4096}[rng.Intn(2)]
	}
	k := 0
	for (1 << uint(k)) < n {
		k++
	}
	pairs := make([][2]int, rng.Intn(14))
	for i := range pairs {
		x := rng.Intn(n)
		switch rng.Intn(4) {
		case 0:
			x = rng.Intn(1 << uint(k)) // may be >= n
		case 1:
			if (1<<uint(k))-n > 0 {
				x = n + rng.Intn((1<<uint(k))-n) // certainly >= n
			}
		case 2:
			x = rng.Intn(1 + rng.Intn(n)) // small, so that edges are likely
		}
		pairs[i] = [2]int{rng.Intn(2), x}
	}
	return c08d4Stream(n, pairs)
}

var c08d4Fixed = []string{
	"", "~", "~~", "~?", "~??", "~~?????", "~~??", ":", ":~", ":~?", ":~~", ":~~????", ":A", ":A~", ":A~~~~", ":A?", ":A_",
	"?", "@", "A", "A_", "A?", "A~~~", "D", "DQ", "DQc", "DQc~~~", "DQ\x00", "D\x80c", "\x00", " ", "DQc\n", ">>graph6<<", ">>graph6<<DQc",
	">>graph6<<~", ">>sparse6<<", ">>sparse6<<:", ">>sparse6<<:K`ADOccQXK`IaXcQMb", ":K`ADOccQXK`IaXcQMb", ":K`ADOccQXK`IaXcQM",
	":K`ADOcc\x1fXK", ":?", ":?~~~~~~~~~~~~~~", ":@", ":@~~~", ":@???", ":Bf", ":B~~~~~", ":C~~~~~~~~", ":Fa@x^", ":Fa@x^~~~~", "Ks@HOo?PGdCK",
	"Ks@HOo?PGdC", ":~?@?", ":~?@?~~~~~~~~~~~", ":~?@?_OGCA@", "~?@?", ":~@??~~~~~~~~~~~~~~~~~~~~~~", ":~@??", "K", ":K", ":K~", "x", ":x",
	"X", ":\x00", "::", ":A\x00", ">>graph6<<:A", ">>sparse6<<A_", ":D]N", ":D]", ":D~~~~", ":D^~?", ":Dw?w?", ":?????", ":@?~?~", ":E~?~?~?",
}

func TestC08Demo4Property(t *testing.T) {
	inputs := append([]string(nil), c08d4Fixed...)
	rng := rand.New(rand.NewSource(84))
	heads := []string{"", "", "", ":", ":", ":", ">>graph6<<", ">>sparse6<<:", ":~?", "~?", ":~@", ":~", "~"}
	for k := 0; k < 2500; k++ {
		b := []byte(heads[rng.Intn(len(heads))])
		l := rng.Intn(24)
		for j := 0; j < l; j++ {
			switch rng.Intn(12) {
			case 0:
				b = append(b, byte(rng.Intn(256)))
			case 1:
				b = append(b, 126)
			case 2:
				b = append(b, 63)
			default:
				b = append(b, byte(63+rng.Intn(64)))
			}
		}
		inputs = append(inputs, string(b))
	}
	for k := 0; k < 3000; k++ {
		inputs = append(inputs, c08d4RandomStream(rng))
	}
	for _, v := range []string{"OsaBA`GP@`dIHWEcas_]O", ":O`ACGPDC[QPJGYCqG\\KafPK`ckeSqDsIWyn", ":Ji?c@pEUPBFaGhg@CKf", ":~?@c_OGCA@?ow", "~?@c"} {
		for i := 0; i <= len(v); i++ {
			inputs = append(inputs, v[:i], v[:i]+"~", v[:i]+"?", v[:i]+"\n")
		}
	}
	for _, s := range inputs {
		if err := c08d4CheckG6(s); err != nil {
			t.Error(err)
		}
		if err := c08d4CheckS6(s); err != nil {
			t.Error(err)
		}
	}
	t.Logf("property checked on %d inputs for each decoder", len(inputs))

	// Every string produced by the encoder decodes to the graph it encodes (all n up to 40, several densities).
	count := 0
	for n := 0; n <= 40; n++ {
		for rep := 0; rep < 25; rep++ {
			g := graph.NewDense(n, nil)
			p := []float64{0, 0.05, 0.2, 0.5, 1}[rep%5]
			for i := 0; i < n; i++ {
				for j := 0; j < i; j++ {
					if rng.Float64() < p {
						g.AddEdge(i, j)
					}
				}
			}
			if rep >= 20 && n >= 2 {
				// the cases the padding rule of the encoder is about: last vertex isolated, last but one not
				for j := 0; j < n-1; j++ {
					g.RemoveEdge(n-1, j)
				}
				g.AddEdge(n-2, 0)
			}
			s := graph.Sparse6Encode(g)
			h, err := graph.Sparse6Decode(s)
			if err != nil || !graph.Equal(g, h) {
				t.Errorf("Sparse6Decode(Sparse6Encode(g)) != g for %q (%v)", s, err)
			}
			count++
		}
	}
	t.Logf("%d encoder outputs decoded to the graph they encode", count)
}

func TestC08Demo4IncidentalOld(t *testing.T) {
	// n = 5, k = 3.  Pairs (b=0, x=7) (b=1, x=0), then 1-padding.  7 is not a vertex.
	in := c08d4Stream(5, [][2]int{{0, 7}, {1, 0}})
	if in != ":D]N" {
		t.Fatalf("stream builder: %q", in)
	}
	g, err := graph.Sparse6Decode(in)
	if err != nil {
		t.Fatalf("Sparse6Decode(%q): %v", in, err)
	}
	t.Logf("Sparse6Decode(%q): n=%d m=%d graph6=%q", in, g.N(), g.M(), graph.Graph6Encode(g))
	if g.N() != 5 || g.M() != 0 {
		t.Errorf("Sparse6Decode(%q): OLD behaviour is the empty graph on 5 vertices (everything after the 7 is dropped), got m=%d graph6=%q", in, g.M(), graph.Graph6Encode(g))
	}

	rng := rand.New(rand.NewSource(4))
	bad := 0
	for k := 0; k < 3000; k++ {
		s := c08d4RandomStream(rng)
		n, want := c08d4OldRule(s)
		g, err := graph.Sparse6Decode(s)
		if err != nil {
			t.Fatalf("Sparse6Decode(%q): %v", s, err)
		}
		same := g.N() == n && g.M() == len(want)
		for e := range want {
			same = same && g.IsEdge(e[0], e[1])
		}
		if !same {
			bad++
			if bad <= 5 {
				t.Errorf("Sparse6Decode(%q): OLD behaviour is the graph of the formats.txt rule with %d edges, got %d edges", s, len(want), g.M())
			}
		}
	}
	if bad > 0 {
		t.Errorf("%d of 3000 corrupt streams decode to another graph than under the OLD rule", bad)
	}
}

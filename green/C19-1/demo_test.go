// C19 harmless change 1: addAugmentations (graph/search) takes its two scratch buffers from a package-level sync.Pool
// instead of allocating them for every k at every node of the search.
//
// Run (from the root of the library worktree):
//
//	export GOFLAGS=-mod=mod GOPROXY=off GOSUMDB=off GOTOOLCHAIN=local
//	cp /tmp/green-out/C19/1/demo_test.go graph/search/zz_c19_demo_test.go
//	go test -race -vet=off -count=1 -timeout 600s -run 'TestC19' -v ./graph/search/
//	go test       -vet=off -count=1 -timeout 600s -run 'TestC19' -v ./graph/search/
//	rm graph/search/zz_c19_demo_test.go
//
// Clean tree:   TestC19Property PASS (no race report), TestC19IncidentalAllocations PASS (1232 / 7930 allocations).
// With patch 1: TestC19Property PASS (no race report, the pool is hit from 112 goroutines at once),
//               TestC19IncidentalAllocations FAIL (710 / 4244 allocations without -race, about 843 / 5100 with -race:
//               the buffers are now recycled through the shared pool).
package search_test

import (
	"fmt"
	"sync"
	"testing"

	"github.com/Tom-Johnston/mamba/graph"
	"github.com/Tom-Johnston/mamba/graph/search"
)

type c19Shard struct{ n, a, m int }

//c19Run runs one shard to the end and returns the graphs it produces, in order, as graph6 strings.
func c19Run(s c19Shard) []string {
	var out []string
	it := search.All(s.n, s.a, s.m)
	for it.Next() {
		out = append(out, graph.Graph6Encode(it.Value()))
	}
	return out
}

//c19Canon returns the graph6 string of the canonical isomorph of the graph with graph6 string s.
func c19Canon(s string) string {
	g, err := graph.Graph6Decode(s)
	if err != nil {
		panic(err)
	}
	return graph.Graph6Encode(graph.InducedSubgraph(g, graph.CanonicalIsomorph(g)))
}

//TestC19Property checks the property itself: shards of split searches (of several sizes, so that buffers of different sizes are in flight)
//run in parallel, each obtains exactly the sequence of graphs it obtains running alone, and the m shards partition the isomorphism classes.
//Run it with -race.
func TestC19Property(t *testing.T) {
	classes := []int{1, 1, 2, 4, 11, 34, 156, 1044, 12346}
	var shards []c19Shard
	for _, n := range []int{8, 3, 7, 4, 6, 5, 2} {
		for _, m := range []int{1, 4, 3} {
			for a := 0; a < m; a++ {
				shards = append(shards, c19Shard{n, a, m})
			}
		}
	}

	//Every shard alone, one after another.
	alone := make([][]string, len(shards))
	for i, s := range shards {
		alone[i] = c19Run(s)
	}

	//Every shard in its own goroutine, all started together, twice over so that identical shards also run side by side.
	const copies = 2
	together := make([][]string, copies*len(shards))
	start := make(chan struct{})
	var wg sync.WaitGroup
	for c := 0; c < copies; c++ {
		for i := range shards {
			wg.Add(1)
			go func(slot int, s c19Shard) {
				defer wg.Done()
				<-start
				together[slot] = c19Run(s)
			}(c*len(shards)+i, shards[i])
		}
	}
	close(start)
	wg.Wait()

	for slot, got := range together {
		s := shards[slot%len(shards)]
		want := alone[slot%len(shards)]
		if len(got) != len(want) {
			t.Fatalf("shard %+v: %d graphs in parallel, %d alone", s, len(got), len(want))
		}
		for j := range got {
			if got[j] != want[j] {
				t.Fatalf("shard %+v: graph %d is %q in parallel but %q alone", s, j, got[j], want[j])
			}
		}
	}

	//The shards of every split, as produced by the parallel run, partition the isomorphism classes.
	type split struct{ n, m int }
	seen := map[split]map[string]c19Shard{}
	for slot := 0; slot < len(shards); slot++ {
		s := shards[slot]
		key := split{s.n, s.m}
		if seen[key] == nil {
			seen[key] = map[string]c19Shard{}
		}
		for _, g6 := range together[slot] {
			c := c19Canon(g6)
			if prev, ok := seen[key][c]; ok {
				t.Fatalf("n=%d m=%d: class %q produced by shard %d and again by shard %d", s.n, s.m, c, prev.a, s.a)
			}
			seen[key][c] = s
		}
	}
	for key, set := range seen {
		if len(set) != classes[key.n] {
			t.Fatalf("n=%d m=%d: %d classes, want %d", key.n, key.m, len(set), classes[key.n])
		}
	}
	t.Logf("%d goroutines ran %d different shards in parallel; every one matched its sequential run and every split is a partition", len(together), len(shards))
}

//TestC19IncidentalAllocations pins down something the property does not talk about: how many heap allocations a complete search makes.
//On the clean tree every call of addAugmentations allocates two fresh buffers per set size k; this gives exactly the numbers below
//(the same with and without -race). The patch recycles the buffers through a sync.Pool so the numbers drop.
func TestC19IncidentalAllocations(t *testing.T) {
	old := map[int]float64{7: 1232, 8: 7930}
	for _, n := range []int{7, 8} {
		got := testing.AllocsPerRun(3, func() {
			it := search.All(n, 0, 1)
			for it.Next() {
			}
		})
		msg := fmt.Sprintf("All(%d, 0, 1) run to the end: %v allocations (clean tree: %v)", n, got, old[n])
		if got != old[n] {
			t.Error(msg)
		} else {
			t.Log(msg)
		}
	}
}

package c11

// Representations other than a freshly filled DenseGraph / SparseGraph, and
// values with a history.
//
// The Graph interface of the library has four implementations: DenseGraph,
// SparseGraph and the two LIVE views graph.InducedSubgraph(g, V) ("the
// properties of the induced subgraph are calculated from g when called and
// reflect the current state of g") and graph.Complement(g) ("updating the
// original graph changes the complement"); views can be stacked.  IsPlanar
// takes any Graph, so "for every graph" covers
//
//   - static: a certified graph presented through a random chain of views
//     over a dense / sparse base that contains it (wrapPlan, representation
//     bit `view` of judge), and
//   - sessions: one editable host, several views created up front, and a
//     sequence of edits of the host (edge moved, 2-switch, edge added /
//     removed, vertex appended / removed, edge split, edit reverted);
//     IsPlanar of the host and of every view - most of which have been asked
//     before the edit - is compared with the certified planarity of the graph
//     the value represents NOW (the model is edited in parallel and the host
//     is checked against it after every edit).

import (
	"fmt"
	"hash/fnv"
	"strings"

	"github.com/Tom-Johnston/mamba/graph"

	"verif/internal/engine"
	"verif/internal/oracle/planarity"
	"verif/internal/oracle/rg"
)

// view is the third representation bit of judge (dense = 1, sparse = 2).
const view = 4

func hashID(id string) uint64 {
	h := fnv.New64a()
	h.Write([]byte(id))
	return h.Sum64()
}

// chainOp is one view constructor: graph.Complement (V == nil) or
// graph.InducedSubgraph(., V).
type chainOp struct {
	V []int
}

func chainShape(ops []chainOp) string {
	if len(ops) == 0 {
		return "host"
	}
	var sb strings.Builder
	for i, o := range ops {
		if i > 0 {
			sb.WriteByte('>')
		}
		if o.V == nil {
			sb.WriteByte('C')
		} else {
			sb.WriteByte('I')
		}
	}
	return sb.String()
}

// chainFull renders the chain innermost first: "InducedSubgraph[2 0 1] > Complement".
func chainFull(ops []chainOp) string {
	if len(ops) == 0 {
		return "the editable graph itself"
	}
	var parts []string
	for _, o := range ops {
		if o.V == nil {
			parts = append(parts, "Complement")
		} else {
			parts = append(parts, fmt.Sprintf("InducedSubgraph%v", o.V))
		}
	}
	return strings.Join(parts, " > ")
}

// applyChain builds the library value (calls into the library: run it inside c.Call).
func applyChain(base graph.Graph, ops []chainOp) graph.Graph {
	h := base
	for _, o := range ops {
		if o.V == nil {
			h = graph.Complement(h)
		} else {
			h = graph.InducedSubgraph(h, o.V)
		}
	}
	return h
}

// modelChain is applyChain on the reference graph.
func modelChain(h *rg.G, ops []chainOp) (*rg.G, bool) {
	for _, o := range ops {
		if o.V == nil {
			h = h.Complement()
			continue
		}
		for _, v := range o.V {
			if v < 0 || v >= h.N {
				return nil, false
			}
		}
		h = h.Induced(o.V)
	}
	return h, true
}

func obsChain(c *engine.Ctx, ops []chainOp) {
	ni, nc := 0, 0
	for _, o := range ops {
		if o.V == nil {
			nc++
		} else {
			ni++
		}
	}
	if ni > 0 {
		c.Obs("view:induced", 1)
	}
	if nc > 0 {
		c.Obs("view:complement", 1)
	}
	if len(ops) >= 2 {
		c.Obs("view:nested", 1)
	}
	c.Obs("view:shape "+chainShape(ops), 1)
}

// wrapPlan returns a base graph and a chain of 1..3 views such that the
// chain applied to the base is exactly g: complements are undone by
// complementing, induced subgraphs by embedding the graph into a larger one
// (random injection, random junk vertices and edges outside the image) or by
// relabelling (V a permutation).
func wrapPlan(r *engine.Rng, g *rg.G) (*rg.G, []chainOp) {
	L := 1
	switch x := r.Intn(10); {
	case x >= 8:
		L = 3
	case x >= 5:
		L = 2
	}
	ops := make([]chainOp, L)
	x := g
	for k := L - 1; k >= 0; k-- {
		if r.Bool(0.35) {
			x = x.Complement()
			continue // ops[k].V stays nil
		}
		extra := 0
		if r.Bool(0.6) {
			extra = 1 + r.Intn(3)
			if r.Bool(0.3) {
				extra += r.Intn(1 + x.N/3)
			}
		}
		N2 := x.N + extra
		inj := append([]int{}, r.Perm(N2)[:x.N]...)
		y := rg.New(N2)
		for _, e := range x.Edges() {
			y.Add(inj[e[0]], inj[e[1]])
		}
		if extra > 0 {
			used := make([]bool, N2)
			for _, v := range inj {
				used[v] = true
			}
			for j := 0; j < N2; j++ {
				if used[j] {
					continue
				}
				p := r.Float() * 0.6
				for u := 0; u < N2; u++ {
					if r.Bool(p) {
						y.Add(j, u)
					}
				}
			}
		}
		x = y
		ops[k] = chainOp{V: inj}
	}
	return x, ops
}

// libBase fills a dense or sparse library value for the model (no constructor under test).
func libBase(r *engine.Rng, g *rg.G) (graph.EditableGraph, string) {
	k := 0
	if r.Bool(0.4) {
		k = 1 + r.Intn(5)
	}
	if r.Bool(0.5) {
		if k > 0 {
			return g.DenseVariant(k), fmt.Sprintf("dense (edge bytes > 1, spare capacity, variant %d)", k)
		}
		return g.Dense(), "dense"
	}
	if k > 0 {
		return g.SparseVariant(k), fmt.Sprintf("sparse (spare capacity, variant %d)", k)
	}
	return g.Sparse(), "sparse"
}

// ---------------------------------------------------------------- sessions

const (
	pAddE = iota
	pDelE
	pAddV
	pDelV
)

// prim is one primitive edit of the target graph T.
type prim struct {
	kind int
	a, b int
	nb   []int
}

type lens struct {
	ops     []chainOp
	h       graph.Graph
	asked   bool // IsPlanar has been called on this value
	edits   int  // edits of the host since the last IsPlanar call on this value
	lastAns bool // certified truth at the last call
	lastN   int  // N(), M() and degree multiset of the host at the last call
	lastM   int
	lastDeg string
}

type certEntry struct {
	ct   *planarity.Cert
	kind string
}

type session struct {
	m     *mon
	c     *engine.Ctx
	idx   int
	r     *engine.Rng
	compl bool // the host holds the complement of T
	free  bool // all views are complement chains: every vertex may be removed
	T, H  *rg.G
	n0    int // vertices of the host when the views were created
	lib   graph.EditableGraph
	repr  string
	init  *rg.G
	lens  []*lens
	log   []string
	step  int
	certs map[string]certEntry
	last  []prim // last edit if it consisted of edge primitives only
	dead  bool
}

func (s *session) logf(format string, a ...interface{}) {
	s.log = append(s.log, fmt.Sprintf(format, a...))
}

// cert returns a verified certificate for g (nil after a checker rejection).
func (s *session) cert(g *rg.G) (*planarity.Cert, string) {
	k := g.Key()
	if e, ok := s.certs[k]; ok {
		return e.ct, e.kind
	}
	ct := planarity.Reference(g)
	kind, err := ct.Verify(g)
	if err != nil {
		s.c.Obs("uncertified", 1)
		s.c.Obs("uncertified:session", 1)
		s.c.Inconclusive(fmt.Sprintf("view session %d: certificate of the reference rejected for %s: %v", s.idx, gid(g), err))
		s.dead = true
		return nil, ""
	}
	s.certs[k] = certEntry{ct, kind}
	return ct, kind
}

func degKey(g *rg.G) string {
	d := g.Degrees()
	sortInts(d)
	return fmt.Sprint(d)
}

// startGraph returns a graph near the planar / non-planar boundary.
func startGraph(r *engine.Rng, n int) (*rg.G, string) {
	switch r.Intn(4) {
	case 0:
		g := rg.New(n)
		hi := 3*n - 4
		if mx := n * (n - 1) / 2; hi > mx {
			hi = mx
		}
		lo := n + 2
		if lo > hi {
			lo = hi
		}
		want := r.Range(lo, hi)
		for t := 0; t < 40*want && g.M() < want; t++ {
			g.Add(r.Intn(n), r.Intn(n))
		}
		return g, "random graph"
	case 1:
		f := stacked(r, n)
		flipSome(r, f, r.Intn(3*n))
		g := rg.New(n)
		for _, e := range f.EdgeList() {
			g.Add(e[0], e[1])
		}
		es := g.Edges()
		for t := r.Intn(3); t > 0; t-- {
			e := es[r.Intn(len(es))]
			g.Del(e[0], e[1])
		}
		for t := r.Intn(2); t > 0; t-- {
			g.Add(r.Intn(n), r.Intn(n))
		}
		return g, "triangulation -d +a edges"
	case 2:
		maxSub := 0
		if n >= 10 {
			maxSub = r.Intn(1 + (n-6)/8)
			if maxSub > 4 {
				maxSub = 4
			}
		}
		k := kSubdivision(r, r.Bool(0.5), 0, maxSub)
		N := n
		if k.n > N {
			N = k.n
		}
		g := rg.New(N)
		for _, e := range k.edges {
			g.Add(e[0], e[1])
		}
		for v := k.n; v < N; v++ {
			for t := r.Intn(3); t >= 0; t-- {
				g.Add(v, r.Intn(N))
			}
		}
		if r.Bool(0.6) {
			e := k.edges[r.Intn(len(k.edges))]
			g.Del(e[0], e[1])
		}
		g = g.Induced(r.Perm(N))
		return g, "subdivided " + k.kind + " -0/1 edge + attached vertices"
	default:
		f := randomPlane(r, n, r.Float()*r.Float())
		g := rg.New(f.N)
		for _, e := range f.EdgeList() {
			g.Add(e[0], e[1])
		}
		for t := r.Intn(3); t > 0; t-- {
			g.Add(r.Intn(g.N), r.Intn(g.N))
		}
		return g, "random plane graph + a edges"
	}
}

// newChain draws a chain of 0..3 views for a host on n0 vertices whose
// result represents an induced subgraph of T (even number of complements over
// a host holding T, odd over a host holding the complement of T).
func (s *session) newChain() []chainOp {
	r := s.r
	L := r.Intn(4)
	var kinds []bool // true = complement
	nc := 0
	for i := 0; i < L; i++ {
		cpl := s.free || r.Bool(0.35)
		kinds = append(kinds, cpl)
		if cpl {
			nc++
		}
	}
	if (nc%2 == 1) != s.compl {
		at := r.Intn(len(kinds) + 1)
		kinds = append(kinds, false)
		copy(kinds[at+1:], kinds[at:])
		kinds[at] = true
	}
	sz := s.n0
	var ops []chainOp
	for _, cpl := range kinds {
		if cpl {
			ops = append(ops, chainOp{})
			continue
		}
		k := sz
		if r.Bool(0.5) && sz > 6 {
			k = sz - 1 - r.Intn(3)
			if k < 6 {
				k = 6
			}
		}
		V := append([]int{}, r.Perm(sz)[:k]...)
		if r.Bool(0.15) {
			V = identity(sz)[:k]
		}
		ops = append(ops, chainOp{V: V})
		sz = k
	}
	return ops
}

func (s *session) addLens(ops []chainOp) bool {
	c := s.c
	l := &lens{ops: ops}
	if pi := c.Call(fmt.Sprintf("views|session %d|build %s", s.idx, chainShape(ops)), func() { l.h = applyChain(s.lib, ops) }); pi != nil {
		c.Obs("session:view-constructor-panicked(not judged)", 1)
		s.dead = true
		return false
	}
	s.logf("view %d := %s", len(s.lens), chainFull(ops))
	s.lens = append(s.lens, l)
	c.Obs("session:views", 1)
	if len(ops) > 0 {
		obsChain(c, ops)
	}
	return true
}

// apply applies one primitive edit of T to the models and to the library host.
func (s *session) apply(p prim) bool {
	c := s.c
	var what string
	var f func()
	n := s.T.N
	switch p.kind {
	case pAddE, pDelE:
		add := p.kind == pAddE
		if add {
			s.T.Add(p.a, p.b)
		} else {
			s.T.Del(p.a, p.b)
		}
		if s.compl {
			add = !add
		}
		if add {
			s.H.Add(p.a, p.b)
			what = fmt.Sprintf("AddEdge(%d,%d)", p.a, p.b)
			f = func() { s.lib.AddEdge(p.a, p.b) }
		} else {
			s.H.Del(p.a, p.b)
			what = fmt.Sprintf("RemoveEdge(%d,%d)", p.a, p.b)
			f = func() { s.lib.RemoveEdge(p.a, p.b) }
		}
	case pAddV:
		s.T = s.T.AddVertex(p.nb)
		nb := p.nb
		if s.compl {
			in := make([]bool, n)
			for _, v := range p.nb {
				in[v] = true
			}
			nb = []int{}
			for v := 0; v < n; v++ {
				if !in[v] {
					nb = append(nb, v)
				}
			}
		}
		s.H = s.H.AddVertex(nb)
		what = fmt.Sprintf("AddVertex(%v)", nb)
		arg := append([]int{}, nb...)
		f = func() { s.lib.AddVertex(arg) }
	case pDelV:
		s.T = s.T.RemoveVertex(p.a)
		s.H = s.H.RemoveVertex(p.a)
		what = fmt.Sprintf("RemoveVertex(%d)", p.a)
		f = func() { s.lib.RemoveVertex(p.a) }
	}
	s.logf("host.%s", what)
	if pi := c.Call(fmt.Sprintf("views|session %d|step %d|%s", s.idx, s.step, what), f); pi != nil {
		c.Obs("session:edit-panicked(not judged)", 1)
		s.dead = true
		return false
	}
	return true
}

func (s *session) nonEdge(tries int) (int, int, bool) {
	n := s.T.N
	for t := 0; t < tries; t++ {
		a, b := s.r.Intn(n), s.r.Intn(n)
		if a != b && !s.T.Has(a, b) {
			return a, b, true
		}
	}
	return 0, 0, false
}

// someEdge picks an edge of T, preferring one of the Kuratowski subgraph when T is not planar.
func (s *session) someEdge() (int, int, bool) {
	es := s.T.Edges()
	if len(es) == 0 {
		return 0, 0, false
	}
	if s.r.Bool(0.6) {
		if ct, _ := s.cert(s.T); ct != nil && !ct.Planar && len(ct.Kur) > 0 {
			e := ct.Kur[s.r.Intn(len(ct.Kur))]
			return e[0], e[1], true
		}
	}
	e := es[s.r.Intn(len(es))]
	return e[0], e[1], true
}

func sortedDistinct(a []int) []int {
	sortInts(a)
	out := a[:0]
	for i, v := range a {
		if i == 0 || v != a[i-1] {
			out = append(out, v)
		}
	}
	return out
}

// edit performs one random edit of the host.  Returns its kind ("" if none was possible).
func (s *session) edit() string {
	r := s.r
	T := s.T
	n := T.N
	var ps []prim
	kind := ""
	x := r.Intn(100)
	switch {
	case x < 30: // move an edge: N() and M() stay
		a, b, ok := s.someEdge()
		if s.dead || !ok {
			return ""
		}
		u, v, ok2 := s.nonEdge(30)
		if r.Bool(0.4) { // re-route one end
			u = a
			ok2 = false
			for t := 0; t < 20; t++ {
				v = r.Intn(n)
				if v != u && !T.Has(u, v) {
					ok2 = true
					break
				}
			}
		}
		if !ok2 {
			return ""
		}
		ps = []prim{{kind: pDelE, a: a, b: b}, {kind: pAddE, a: u, b: v}}
		if r.Bool(0.5) {
			ps[0], ps[1] = ps[1], ps[0]
		}
		kind = "move-edge"
	case x < 40: // 2-switch: the degree sequence stays as well
		es := T.Edges()
		for t := 0; t < 30 && len(es) >= 2; t++ {
			e, f := es[r.Intn(len(es))], es[r.Intn(len(es))]
			a, b, cc, d := e[0], e[1], f[0], f[1]
			if r.Bool(0.5) {
				cc, d = d, cc
			}
			if a == cc || a == d || b == cc || b == d || T.Has(a, cc) || T.Has(b, d) {
				continue
			}
			ps = []prim{{kind: pDelE, a: a, b: b}, {kind: pDelE, a: cc, b: d}, {kind: pAddE, a: a, b: cc}, {kind: pAddE, a: b, b: d}}
			kind = "2-switch"
			break
		}
	case x < 52:
		if a, b, ok := s.nonEdge(30); ok {
			ps = []prim{{kind: pAddE, a: a, b: b}}
			kind = "add-edge"
		}
	case x < 64:
		if a, b, ok := s.someEdge(); ok && !s.dead {
			ps = []prim{{kind: pDelE, a: a, b: b}}
			kind = "remove-edge"
		}
	case x < 68: // edits that change nothing
		if a, b, ok := s.someEdge(); ok && !s.dead && r.Bool(0.5) {
			ps = []prim{{kind: pAddE, a: a, b: b}}
			kind = "no-op"
		} else if a, b, ok := s.nonEdge(30); ok {
			ps = []prim{{kind: pDelE, a: a, b: b}}
			kind = "no-op"
		}
	case x < 78:
		k := r.Intn(5)
		if k > n {
			k = n
		}
		nb := sortedDistinct(append([]int{}, r.Perm(n)[:k]...))
		ps = []prim{{kind: pAddV, nb: nb}}
		kind = "add-vertex"
	case x < 84:
		if v, ok := s.removable(); ok {
			ps = []prim{{kind: pDelV, a: v}}
			kind = "remove-vertex"
		}
	case x < 90:
		if a, b, ok := s.someEdge(); ok && !s.dead {
			ps = []prim{{kind: pDelE, a: a, b: b}, {kind: pAddV, nb: sortedDistinct([]int{a, b})}}
			kind = "split-edge"
		}
	case x < 95: // undo the last edit
		if len(s.last) > 0 {
			for i := len(s.last) - 1; i >= 0; i-- {
				p := s.last[i]
				p.kind = pAddE + pDelE - p.kind
				ps = append(ps, p)
			}
			kind = "revert"
		}
	default: // replace a vertex by one of the same degree elsewhere: N() and M() stay
		if v, ok := s.removable(); ok {
			d := T.Deg(v)
			if d <= n-1 {
				nb := sortedDistinct(append([]int{}, r.Perm(n - 1)[:d]...))
				ps = []prim{{kind: pDelV, a: v}, {kind: pAddV, nb: nb}}
				kind = "replace-vertex"
			}
		}
	}
	if s.dead || kind == "" {
		return ""
	}
	s.logf("-- edit %d: %s", s.step, kind)
	edgeOnly := true
	for _, p := range ps {
		if p.kind == pAddV || p.kind == pDelV {
			edgeOnly = false
		}
	}
	// only primitives that change T are invertible by their opposite
	var inv []prim
	for _, p := range ps {
		if edgeOnly {
			has := s.T.Has(p.a, p.b)
			if (p.kind == pAddE) != has {
				inv = append(inv, p)
			}
		}
		if !s.apply(p) {
			return ""
		}
	}
	s.last = nil
	if edgeOnly && kind != "revert" {
		s.last = inv
	}
	return kind
}

// removable picks a vertex that may be removed without invalidating a view:
// one appended after the views were created (every V lists smaller indices
// only, which keep their meaning), or any vertex when no view has a V.
func (s *session) removable() (int, bool) {
	n := s.T.N
	if s.free && n > 6 {
		return s.r.Intn(n), true
	}
	if n > s.n0 {
		return s.n0 + s.r.Intn(n-s.n0), true
	}
	return 0, false
}

// verifyHost compares the library host with the model; a host that went
// astray under the edits is not IsPlanar's business (C05): nothing is judged.
func (s *session) verifyHost() bool {
	c := s.c
	msg := ""
	pi := c.Call(fmt.Sprintf("views|session %d|step %d|read host", s.idx, s.step), func() { msg = rg.Conforms(s.lib, s.H) })
	if pi != nil || msg != "" {
		c.Obs("session:host-differs-from-model-after-edit(not judged)", 1)
		s.dead = true
		return false
	}
	return true
}

func (s *session) detail(j int, E *rg.G, ct *planarity.Cert, kind string) map[string]interface{} {
	d := map[string]interface{}{
		"workload":   "view session (views created first, host edited, IsPlanar asked again)",
		"session":    s.idx,
		"step":       s.step,
		"host_repr":  s.repr,
		"host_holds": map[bool]string{false: "the target graph", true: "the complement of the target graph"}[s.compl],
		"value":      fmt.Sprintf("view %d = %s", j, chainFull(s.lens[j].ops)),
		"transcript": append([]string(nil), s.log...),
	}
	ih := map[string]interface{}{}
	graphJSON(ih, s.init)
	d["initial_host"] = ih
	graphJSON(d, E)
	certJSON(d, ct, kind)
	conf := ""
	if pi := s.c.Call(fmt.Sprintf("views|session %d|step %d|read view %d", s.idx, s.step, j), func() { conf = rg.Conforms(s.lens[j].h, E) }); pi != nil {
		conf = "reading the view panicked: " + pi.String()
	}
	if conf == "" {
		conf = "all observers of the value agree with the model"
	}
	d["observers_of_the_value_vs_model"] = conf
	return d
}

// ask judges IsPlanar of view j against the certified planarity of what it represents now.
func (s *session) ask(j int) bool {
	c := s.c
	l := s.lens[j]
	E, ok := modelChain(s.H, l.ops)
	if !ok {
		return true
	}
	ct, kind := s.cert(E)
	if ct == nil {
		return false
	}
	truth := ct.Planar
	shape := chainShape(l.ops)
	key := fmt.Sprintf("IsPlanar|session %d|step %d|view %d %s", s.idx, s.step, j, shape)
	calls := 1
	if s.r.Bool(0.25) {
		calls = 2
	}
	for t := 0; t < calls; t++ {
		var got bool
		k := key
		if t > 0 {
			k += "|again"
			c.Obs("session:repeat-call", 1)
		}
		pi := c.Call(k, func() { got = graph.IsPlanar(l.h) })
		c.Eval(1)
		c.Obs("calls:view-session", 1)
		if len(l.ops) == 0 {
			c.Obs("session:calls-on-host", 1)
		} else {
			c.Obs("session:calls-on-view", 1)
		}
		expect := fmt.Sprintf("IsPlanar = %v (certificate verified for the graph the value represents now: %s)", truth, kind)
		if pi != nil {
			c.Obs("panics", 1)
			s.logf("IsPlanar(view %d) panicked", j)
			c.Violation(fmt.Sprintf("IsPlanar|panic|%s|session|%s|session=%d,step=%d,view=%d", engine.SiteNoLine(pi.Site), shape, s.idx, s.step, j), s.detail(j, E, ct, kind), pi.String(), expect)
			s.dead = true
			return false
		}
		s.logf("IsPlanar(view %d) = %v", j, got)
		if got != truth {
			what := "planar-reported-nonplanar"
			if got {
				what = "nonplanar-reported-planar"
			}
			hist := "never asked before"
			if t > 0 {
				hist = "second call in a row"
			} else if l.asked {
				hist = fmt.Sprintf("asked before; %d edits of the host since", l.edits)
			}
			c.Violation(fmt.Sprintf("IsPlanar|wrong|%s|session|%s|session=%d,step=%d,view=%d", what, shape, s.idx, s.step, j), s.detail(j, E, ct, kind),
				fmt.Sprintf("IsPlanar = %v (%s)", got, hist), expect)
			s.dead = true
			return false
		}
	}
	if truth {
		c.Obs("verdict:planar", 1)
	} else {
		c.Obs("verdict:nonplanar", 1)
	}
	s.m.nontrivial(E)
	dk := degKey(s.H)
	if l.asked && l.edits > 0 {
		c.Obs("session:requery-after-edit", 1)
		same := s.H.N == l.lastN && s.H.M() == l.lastM
		if same {
			c.Obs("session:requery-after-edit,N+M-same", 1)
		}
		if truth != l.lastAns {
			c.Obs("session:requery:truth-changed", 1)
			if same {
				c.Obs("session:requery:truth-changed,N+M-same", 1)
				if dk == l.lastDeg {
					c.Obs("session:requery:truth-changed,N+M+degrees-same", 1)
				}
			}
			if s.H.N != l.lastN {
				c.Obs("session:requery:truth-changed,N-changed", 1)
			}
		}
	} else if !l.asked && s.step > 0 {
		c.Obs("session:first-query-after-edits", 1)
	}
	l.asked, l.edits, l.lastAns, l.lastN, l.lastM, l.lastDeg = true, 0, truth, s.H.N, s.H.M(), dk
	return true
}

// prime asks the view for something else than IsPlanar (state left by other
// observers on the value); results are not judged here.
func (s *session) prime(j int) {
	c := s.c
	l := s.lens[j]
	what := s.r.Intn(3)
	names := []string{"Neighbours of every vertex", "BiconnectedComponents", "M+Degrees+ConnectedComponents"}
	pi := c.Call(fmt.Sprintf("views|session %d|step %d|prime view %d: %s", s.idx, s.step, j, names[what]), func() {
		switch what {
		case 0:
			for v, n := 0, l.h.N(); v < n; v++ {
				l.h.Neighbours(v)
			}
		case 1:
			graph.BiconnectedComponents(l.h)
		default:
			l.h.M()
			l.h.Degrees()
			graph.ConnectedComponents(l.h)
		}
	})
	s.logf("%s(view %d)", names[what], j)
	c.Obs("session:other-observer-before-edit", 1)
	if pi != nil {
		c.Obs("session:other-observer-panicked(not judged)", 1)
	}
}

func (m *mon) runSession(i int) {
	c := m.c
	r := c.Rand("session", i)
	s := &session{m: m, c: c, idx: i, r: r, certs: map[string]certEntry{}}
	var n int
	switch x := r.Intn(20); {
	case x < 11:
		n = r.Range(6, 9)
	case x < 17:
		n = r.Range(10, 16)
	case x < 19 || !c.Thorough():
		n = r.Range(17, 30)
	default:
		n = r.Range(31, 90)
	}
	s.compl = r.Bool(0.3)
	s.free = r.Bool(0.2)
	var fam string
	s.T, fam = startGraph(r, n)
	if s.compl {
		s.H = s.T.Complement()
	} else {
		s.H = s.T.Copy()
	}
	s.n0 = s.H.N
	s.init = s.H.Copy()
	s.lib, s.repr = libBase(r, s.H)
	c.Obs("session:started", 1)
	c.Obs("session:family "+fam, 1)
	if s.compl {
		c.Obs("session:host-is-complement", 1)
	}
	if strings.HasPrefix(s.repr, "dense") {
		c.Obs("session:host-dense", 1)
	} else {
		c.Obs("session:host-sparse", 1)
	}
	s.logf("host := %s graph on %d vertices (%s%s)", s.repr, s.H.N, map[bool]string{false: "", true: "complement of a "}[s.compl], fam)
	if !s.compl {
		if !s.addLens(nil) {
			return
		}
	}
	for k := 3 + r.Intn(3); k > 0; k-- {
		if !s.addLens(s.newChain()) {
			return
		}
	}
	steps := c.Pick(8, 12) + r.Intn(5)
	for s.step = 0; s.step <= steps && !s.dead && !c.Stopped(); s.step++ {
		s.certs = map[string]certEntry{}
		p := 0.75
		if s.step == steps {
			p = 1
		}
		for j := range s.lens {
			if !r.Bool(p) {
				if s.step < steps && r.Bool(0.3) {
					s.prime(j)
				}
				continue
			}
			if !s.ask(j) {
				return
			}
		}
		if s.step == steps {
			break
		}
		kind := ""
		for t := 0; t < 4 && kind == "" && !s.dead; t++ {
			kind = s.edit()
		}
		if s.dead {
			return
		}
		if kind == "" {
			c.Obs("session:edit:none-possible", 1)
			continue
		}
		c.Obs("session:edits", 1)
		c.Obs("session:edit:"+kind, 1)
		for _, l := range s.lens {
			l.edits++
		}
		if !s.verifyHost() {
			return
		}
		if r.Bool(0.12) { // a view created in the middle of the history
			if !s.addLens(s.newChain()) {
				return
			}
		}
	}
	c.Obs("session:completed", 1)
	if i < 3 {
		c.Sample("view session", map[string]interface{}{"session": i, "transcript": s.log})
	}
}

func (m *mon) viewSessions() {
	c := m.c
	cases := c.Pick(400, 6000)
	per := 8
	for u := 0; u*per < cases; u++ {
		u := u
		c.Unit(fmt.Sprintf("viewsessions/%d", u), func() {
			for i := u * per; i < (u+1)*per && i < cases && !c.Stopped(); i++ {
				m.runSession(i)
			}
		})
	}
}

package c04

// streams.go: SEVERAL checkpoints in one stream.  All parts of a split search (or one iterator at several positions)
// are saved one after the other into one buffer and loaded back one by one, in order, from that same stream: every Load
// must take exactly its own checkpoint and leave the rest where it is.  Readers that can hand out single bytes
// (*bytes.Buffer, *bytes.Reader, *bufio.Reader - the ones encoding/gob reads from without a buffer of its own); plain
// io.Readers are out: gob itself reads ahead on those, which the library does not promise to avoid.

import (
	"bufio"
	"bytes"
	"fmt"
	"io"

	"github.com/Tom-Johnston/mamba/graph/search"

	"verif/internal/engine"
)

func streamUnits(c *engine.Ctx) {
	type sc struct {
		n, m, pred, placement int
	}
	cases := []sc{{4, 1, -1, 0}, {5, 2, -1, 0}, {5, 3, -1, 0}, {6, 3, -1, 0}, {6, 4, 0, 0}, {6, 3, 0, 1}, {7, 5, -1, 0}}
	if c.Thorough() {
		cases = append(cases, sc{7, 8, 0, 0}, sc{8, 6, 0, 1}, sc{8, 16, -1, 0})
	}
	for ci, k := range cases {
		ci, k := ci, k
		c.Unit(fmt.Sprintf("one-stream/n%d-m%d-pred%d-%d", k.n, k.m, k.pred, k.placement), func() {
			for readerKind := 0; readerKind < 3; readerKind++ {
				for _, adv := range []int{0, 1, 5} {
					if !oneStream(c, k.n, k.m, k.pred, k.placement, adv+ci%2, readerKind) {
						return
					}
				}
			}
		})
	}
}

// oneStream: the m parts, each advanced by adv (+ its index) values, saved into one buffer; loaded back in order.
func oneStream(c *engine.Ctx, n, m, pred, placement, adv, readerKind int) bool {
	var buf bytes.Buffer
	type part struct {
		mo  *mon
		S   []string
		pos int
		it  *search.GraphIterator
	}
	parts := make([]*part, m)
	for a := 0; a < m; a++ {
		mo := &mon{c: c, cf: config{n: n, a: a, m: m, pred: pred, placement: placement}}
		S, ok := mo.reference()
		if !ok {
			return false
		}
		p := &part{mo: mo, S: S}
		if pi := c.Call("resume|"+mo.cf.name()+"|new", func() { p.it = mo.cf.fresh() }); pi != nil {
			return false
		}
		p.pos = adv + a
		if p.pos > len(S) {
			p.pos = len(S) + 1
		}
		if !mo.advance(p.it, "original-before-save", S, 0, p.pos, p.pos) {
			return false
		}
		if pi := c.Call("resume|"+mo.cf.name()+"|save-into-the-common-stream", func() { p.it.Save(&buf) }); pi != nil {
			mo.viol("panic@"+engine.SiteNoLine(pi.Site)+"|Save", p.pos, map[string]interface{}{"history": fmt.Sprintf("checkpoint %d of %d written into one bytes.Buffer", a+1, m)}, pi.String(), "Save returns")
			return false
		}
		parts[a] = p
	}
	total := buf.Len()
	var rd io.Reader
	kindName := ""
	switch readerKind {
	case 0:
		rd, kindName = &buf, "the *bytes.Buffer they were saved into"
	case 1:
		rd, kindName = bytes.NewReader(append([]byte(nil), buf.Bytes()...)), "a *bytes.Reader"
	default:
		rd, kindName = bufio.NewReader(bytes.NewReader(append([]byte(nil), buf.Bytes()...))), "a *bufio.Reader"
	}
	for a, p := range parts {
		var lo *search.GraphIterator
		det := map[string]interface{}{"history": fmt.Sprintf("%d checkpoints (the parts of n=%d split %d ways, each advanced a few values) saved one after the other into one stream of %d bytes and loaded back in order from %s; this is Load number %d", m, n, m, total, kindName, a+1)}
		if pi := c.Call("resume|"+p.mo.cf.name()+"|load-from-the-common-stream", func() {
			pre, pru := p.mo.cf.funcs()
			lo = search.Load(rd, pre, pru)
		}); pi != nil {
			p.mo.viol(fmt.Sprintf("several-checkpoints-in-one-stream|Load-%d-of-%d|panic@%s", a+1, m, engine.SiteNoLine(pi.Site)), p.pos, det, pi.String(), "Load returns the iterator of its own checkpoint")
			return false
		}
		c.Obs("checkpoints_loaded_from_a_stream_holding_several", 1)
		kk := p.pos
		if kk > len(p.S) {
			kk = len(p.S) + 1
		}
		rem := len(p.S) - kk
		if rem < 0 {
			rem = 0
		}
		if !p.mo.advance(lo, fmt.Sprintf("loaded-%d-of-%d-from-one-stream", a+1, m), p.S, kk, rem+2, p.pos) {
			return false
		}
		if rem > 0 {
			c.NTDistinct(1)
		}
	}
	return true
}

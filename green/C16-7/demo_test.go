// Demonstration for C16 change 7 (Coeffs cuts all rows out of one block of memory).
//
// Run from the repository root (copy this file into a fresh directory of the module first):
//
//	mkdir -p demo7 && cp /tmp/green-out/C16/7/demo_test.go demo7/ && \
//	GOFLAGS=-mod=mod GOPROXY=off GOSUMDB=off GOTOOLCHAIN=local go test -vet=off -count=1 -timeout 300s ./demo7/ -v ; rm -rf demo7
//
// TestProperty passes before and after the change.
// TestIncidentalOneAllocationPerRow asserts the OLD incidental behaviour (one heap allocation per row):
// it passes on the clean tree and fails with the change (2 allocations in total).
package demo7

import (
	"math/big"
	"testing"

	"github.com/Tom-Johnston/mamba/comb"
)

// The property: Coeffs(n) is Pascal's triangle (rows 0..n, entries k <= m/2), checked against math/big
// for every n for which all entries fit an int (n <= 66), plus the independence a caller can rely on.
func TestProperty(t *testing.T) {
	for n := 0; n <= 66; n++ {
		c := comb.Coeffs(n)
		if len(c) != n+1 {
			t.Fatalf("Coeffs(%d) has %d rows", n, len(c))
		}
		for m := 0; m <= n; m++ {
			if len(c[m]) != m/2+1 {
				t.Fatalf("Coeffs(%d)[%d] has %d entries", n, m, len(c[m]))
			}
			for k := 0; k <= m/2; k++ {
				want := new(big.Int).Binomial(int64(m), int64(k))
				if !want.IsInt64() || int64(c[m][k]) != want.Int64() {
					t.Fatalf("Coeffs(%d)[%d][%d] = %d, want %v", n, m, k, c[m][k], want)
				}
			}
		}
	}
	// A caller may do what it likes with its result: overwrite and append to rows; the other rows and
	// the results of other calls are not affected.
	a := comb.Coeffs(30)
	b := comb.Coeffs(30)
	for m := 0; m <= 30; m++ {
		row := append(a[m], -7, -7, -7)
		for i := range row {
			row[i] = -7
		}
		for i := range a[m] {
			a[m][i] = -9
		}
		for m2 := m + 1; m2 <= 30; m2++ {
			for k := range a[m2] {
				if a[m2][k] != b[m2][k] {
					t.Fatalf("writing to row %d changed row %d", m, m2)
				}
			}
		}
	}
	c := comb.Coeffs(30)
	for m := range b {
		for k := range b[m] {
			if b[m][k] != c[m][k] || int64(b[m][k]) != new(big.Int).Binomial(int64(m), int64(k)).Int64() {
				t.Fatalf("results of separate calls are not independent")
			}
		}
	}
}

// Incidental: how many heap allocations a call makes. Old: the outer slice and one per row (n+2).
func TestIncidentalOneAllocationPerRow(t *testing.T) {
	const n = 40
	allocs := testing.AllocsPerRun(20, func() { _ = comb.Coeffs(n) })
	t.Logf("Coeffs(%d) makes %v allocations", n, allocs)
	if allocs != n+2 {
		t.Fatalf("Coeffs(%d) made %v allocations, the row-by-row implementation makes %d", n, allocs, n+2)
	}
}

// Demo for C12 change 3 (exported sentinel errors ErrDuplicate / ErrOutOfOrder / ErrFinished with new texts replace the
// two anonymous errors.New values of Builder.Add and Builder.Finish).
//
// Run (from the root of the library worktree):
//
//	cp /tmp/green-out/C12/3/demo_test.go dawg/c12demo3_test.go
//	GOFLAGS=-mod=mod GOPROXY=off GOSUMDB=off GOTOOLCHAIN=local go test -vet=off -count=1 -timeout 600s -run 'TestC12Demo3' -v ./dawg/
//	rm dawg/c12demo3_test.go
//
// TestC12Demo3Property checks the property itself (accepts exactly the words, NumberOfWords, ranks of members, false
// for non-members, minimal node count, rejected Adds return an error and are harmless) on fixed and random word sets and
// passes before and after the change.
// TestC12Demo3Incidental asserts the OLD incidental behaviour (the text of the error of a rejected Add, the same text
// for duplicates and for out-of-order words, and the text of the error New returns) and therefore passes on the clean
// tree and fails with the change.
package dawg_test

import (
	"encoding/hex"
	"math/rand"
	"sort"
	"testing"

	"github.com/Tom-Johnston/mamba/dawg"
)

var c12demo3Sets = [][]string{
	{},
	{""},
	{"", "a"},
	{"abject", "abjection", "abjections", "abjectly", "abjectness", "ablate", "ablated", "ablation", "ablations"},
	{"", "a", "aa", "ab", "b", "ba", "bb", "tap", "taps", "top", "tops"},
	{"\x00", "\x00\xff", "\xff", "\xff\x00\xff"},
}

// randomSets returns sorted duplicate-free random word sets over small alphabets (many shared prefixes and suffixes).
func randomSets(n int, seed int64) [][]string {
	rng := rand.New(rand.NewSource(seed))
	var sets [][]string
	for k := 0; k < n; k++ {
		alpha := 1 + rng.Intn(3)
		maxLen := 1 + rng.Intn(5)
		set := map[string]bool{}
		for i, m := 0, rng.Intn(14); i < m; i++ {
			w := make([]byte, rng.Intn(maxLen+1))
			for j := range w {
				w[j] = "ab\xff"[rng.Intn(alpha)]
			}
			set[string(w)] = true
		}
		words := []string{}
		for w := range set {
			words = append(words, w)
		}
		sort.Strings(words)
		sets = append(sets, words)
	}
	return sets
}

// minimalNodes is the number of states of the minimal (trim) deterministic acyclic automaton of the set: the number of
// distinct non-empty right languages of prefixes, and 1 (just the root) for the empty set.
func minimalNodes(words []string) int {
	langs := map[string]bool{}
	for _, w := range words {
		for i := 0; i <= len(w); i++ {
			p := w[:i]
			var rl []string
			for _, v := range words {
				if len(v) >= len(p) && v[:len(p)] == p {
					rl = append(rl, v[len(p):])
				}
			}
			sort.Strings(rl)
			key := ""
			for _, s := range rl {
				key += hex.EncodeToString([]byte(s)) + ","
			}
			langs[key] = true
		}
	}
	if len(langs) == 0 {
		return 1
	}
	return len(langs)
}

// encodedNumNodes reads the node count which GobEncode writes first.
func encodedNumNodes(t *testing.T, d *dawg.Dawg) int {
	b, err := d.GobEncode()
	if err != nil {
		t.Fatal(err)
	}
	if b[0] <= 127 {
		return int(b[0])
	}
	n := int(b[0]) - 128
	x := 0
	for _, c := range b[1 : 1+n] {
		x = x<<8 | int(c)
	}
	return x
}

func probes(words []string) []string {
	set := map[string]bool{"": true, "zz": true, "a": true, "\x00": true}
	for _, w := range words {
		set[w] = true
		set[w+"a"] = true
		set[w+"\x00"] = true
		for i := 0; i < len(w); i++ {
			set[w[:i]] = true
			set[w[:i]+"\x01"] = true
			set[w[:i]+"b"] = true
		}
	}
	var ps []string
	for p := range set {
		ps = append(ps, p)
	}
	sort.Strings(ps)
	return ps
}

func checkDawg(t *testing.T, d *dawg.Dawg, words []string) {
	t.Helper()
	if d.NumberOfWords() != len(words) {
		t.Errorf("%q: NumberOfWords = %d, want %d", words, d.NumberOfWords(), len(words))
	}
	rank := map[string]int{}
	for i, w := range words {
		rank[w] = i
	}
	for _, p := range probes(words) {
		r, ok := d.Lookup([]byte(p))
		wr, wok := rank[p]
		if ok != wok || (ok && r != wr) {
			t.Errorf("%q: Lookup(%q) = (%d, %v), want (%d, %v)", words, p, r, ok, wr, wok)
		}
	}
	if got, want := encodedNumNodes(t, d), minimalNodes(words); got != want {
		t.Errorf("%q: %d nodes, minimal automaton has %d", words, got, want)
	}
}

func TestC12Demo3Property(t *testing.T) {
	rng := rand.New(rand.NewSource(12))
	for _, words := range append(c12demo3Sets, randomSets(3000, 3)...) {
		var bs [][]byte
		for _, w := range words {
			bs = append(bs, []byte(w))
		}
		d, err := dawg.New(bs)
		if err != nil {
			t.Fatal(err)
		}
		checkDawg(t, d, words)

		// The same set through a Builder with rejected Adds (duplicates and out-of-order words) in between.
		db := new(dawg.Builder)
		for i, w := range words {
			if err := db.Add([]byte(w)); err != nil {
				t.Fatal(err)
			}
			if err := db.Add([]byte(w)); err == nil {
				t.Errorf("%q: duplicate %q accepted", words, w)
			}
			if i > 0 {
				j := rng.Intn(i)
				if err := db.Add([]byte(words[j])); err == nil {
					t.Errorf("%q: out-of-order %q accepted", words, words[j])
				}
			}
			if w != "" {
				if err := db.Add([]byte(w[:len(w)-1])); err == nil {
					t.Errorf("%q: out-of-order %q accepted", words, w[:len(w)-1])
				}
			}
		}
		d, err = db.Finish()
		if err != nil {
			t.Fatal(err)
		}
		checkDawg(t, d, words)

		// New rejects a list with a duplicate or an inversion.
		if len(bs) > 0 {
			if _, err := dawg.New(append(bs[:len(bs):len(bs)], bs[rng.Intn(len(bs))])); err == nil {
				t.Errorf("%q: New accepted a list which is not strictly increasing", words)
			}
		}
	}
}

// On the clean tree every rejected Add returns the same text, whether the word is a duplicate or out of order, and New
// passes it on. The property only asks for an error.
func TestC12Demo3Incidental(t *testing.T) {
	const old = "byte slices must be added in lexicographical order"
	db := new(dawg.Builder)
	if err := db.Add([]byte("b")); err != nil {
		t.Fatal(err)
	}
	dup := db.Add([]byte("b"))
	ooo := db.Add([]byte("a"))
	if dup == nil || ooo == nil {
		t.Fatal("rejected Add returned nil")
	}
	t.Logf("duplicate: %q", dup)
	t.Logf("out of order: %q", ooo)
	if dup.Error() != old {
		t.Errorf("duplicate: error text %q, old text %q", dup, old)
	}
	if ooo.Error() != old {
		t.Errorf("out of order: error text %q, old text %q", ooo, old)
	}
	if dup.Error() != ooo.Error() {
		t.Errorf("duplicates and out-of-order words are now reported differently: %q / %q", dup, ooo)
	}
	_, err := dawg.New([][]byte{[]byte("a"), []byte("a")})
	if err == nil {
		t.Fatal("New accepted a duplicate")
	}
	t.Logf("New: %q", err)
	if err.Error() != old {
		t.Errorf("New: error text %q, old text %q", err, old)
	}
}

// Demonstration for C01, change 3 (disjoint.Set: union by size, ties go to the first argument's root, instead of
// union by rank with ties going to the second argument's root).
//
// Run (from the root of the library, public API only):
//
//	export GOFLAGS=-mod=mod GOPROXY=off GOSUMDB=off GOTOOLCHAIN=local
//	cp demo_test.go graph/zz_demo_test.go
//	go test -vet=off -count=1 -timeout 300s -run 'TestDemo' -v ./graph/
//	rm graph/zz_demo_test.go
//
// TestDemoProperty checks the property itself (CanonicalIsomorph returns a permutation; the relabelled graph has the
// same canonical graph for every relabelling, dense and sparse; non-isomorphic graphs get different canonical graphs)
// and passes before and after the change.
// TestDemoIncidental asserts what the CLEAN tree happens to do: the raw contents / roots of a disjoint.Set after some
// unions, the raw contents of the orbit Set returned by CanonicalIsomorphFull, and the permutation returned for some
// graphs with automorphisms.  It passes on the clean tree and fails with the change, while the orbit PARTITION and the
// canonical GRAPH asserted in the same test are the same on both trees.
package graph_test

import (
	"fmt"
	"math/rand"
	"testing"

	"github.com/Tom-Johnston/mamba/disjoint"
	"github.com/Tom-Johnston/mamba/graph"
	"github.com/Tom-Johnston/mamba/sortints"
)

func demoG6(s string) *graph.DenseGraph {
	g, err := graph.Graph6Decode(s)
	if err != nil {
		panic(err)
	}
	return g
}

func demoIsPerm(p []int, n int) bool {
	if len(p) != n {
		return false
	}
	seen := make([]bool, n)
	for _, v := range p {
		if v < 0 || v >= n || seen[v] {
			return false
		}
		seen[v] = true
	}
	return true
}

func demoSparse(g graph.Graph) *graph.SparseGraph {
	nb := make([]sortints.SortedInts, g.N())
	for i := range nb {
		nb[i] = append(sortints.SortedInts{}, g.Neighbours(i)...)
	}
	return graph.NewSparse(g.N(), nb)
}

func demoCanon(t *testing.T, g graph.EditableGraph) string {
	p := graph.CanonicalIsomorph(g)
	if !demoIsPerm(p, g.N()) {
		t.Fatalf("%v: %v is not a permutation", graph.Graph6Encode(g), p)
	}
	return graph.Graph6Encode(g.InducedSubgraph(p))
}

// demoPerms calls f with every permutation of 0..n-1 (Heap's algorithm).
func demoPerms(n int, f func([]int)) {
	a := make([]int, n)
	for i := range a {
		a[i] = i
	}
	c := make([]int, n)
	f(a)
	for i := 0; i < n; {
		if c[i] < i {
			if i%2 == 0 {
				a[0], a[i] = a[i], a[0]
			} else {
				a[c[i]], a[i] = a[i], a[c[i]]
			}
			f(a)
			c[i]++
			i = 0
		} else {
			c[i] = 0
			i++
		}
	}
}

func TestDemoProperty(t *testing.T) {
	canon := map[string]string{}
	//Every relabelling of the graphs with at most 8 vertices.
	for _, s := range []string{"CR", "DqK", "EqGW", "G|WW}K", "GhcqSK", "G`iRYw", "GsXPOk"} {
		g := demoG6(s)
		c0 := demoCanon(t, g)
		count := 0
		demoPerms(g.N(), func(pi []int) {
			h := g.InducedSubgraph(pi)
			c := ""
			if count%5 == 4 {
				c = demoCanon(t, demoSparse(h))
			} else {
				c = demoCanon(t, h)
			}
			count++
			if c != c0 {
				t.Fatalf("%v relabelled with %v: canonical graph %v, want %v", s, pi, c, c0)
			}
		})
		canon[s] = c0
	}
	//Random relabellings of larger ones.
	rng := rand.New(rand.NewSource(7))
	larger := map[string]graph.EditableGraph{
		"petersen":     graph.KneserGraph(5, 2),
		"KhEKA?aCOT?i": demoG6("KhEKA?aCOT?i"), //generalised Petersen graph GP(6,2)
		"KhEG?CB???_B": demoG6("KhEG?CB???_B"), //C6 + 2 K3
		"rook44":       graph.RookGraph(4, 4),
		"Q4":           graph.HypercubeGraph(4),
		"K6":           graph.CompleteGraph(6),
		"E6":           graph.NewDense(6, nil),
	}
	for name, g := range larger {
		c0 := demoCanon(t, g)
		for r := 0; r < 3000; r++ {
			pi := rng.Perm(g.N())
			h := g.InducedSubgraph(pi)
			c := ""
			if r%5 == 4 {
				c = demoCanon(t, demoSparse(h))
			} else {
				c = demoCanon(t, h)
			}
			if c != c0 {
				t.Fatalf("%v relabelled with %v: canonical graph %v, want %v", name, pi, c, c0)
			}
		}
		canon[name] = c0
	}
	//Pairwise non-isomorphic graphs have pairwise different canonical graphs.
	seen := map[string]string{}
	for name, c := range canon {
		if other, ok := seen[c]; ok {
			t.Fatalf("%v and %v have the same canonical graph", name, other)
		}
		seen[c] = name
	}
}

func TestDemoIncidental(t *testing.T) {
	//1. The raw representation of a disjoint.Set.
	ds := disjoint.New(6)
	ds.Union(0, 1)
	if got, want := fmt.Sprint([]int(ds), ds.Roots()), "[1 -2 -1 -1 -1 -1] [1 2 3 4 5]"; got != want {
		t.Errorf("after Union(0,1): raw set and roots %v, the clean tree gives %v", got, want)
	}
	ds.Union(2, 3)
	ds.Union(0, 2)
	ds.Union(4, 0)
	if got, want := fmt.Sprint([]int(ds), ds.Roots()), "[3 3 3 -3 3 -1] [3 5]"; got != want {
		t.Errorf("after four unions: raw set and roots %v, the clean tree gives %v", got, want)
	}
	if got, want := fmt.Sprint(ds.Sets()), "[[0 1 2 3 4] [5]]"; got != want {
		t.Fatalf("the PARTITION must be the same on both trees: %v, want %v", got, want)
	}

	//2. CanonicalIsomorphFull / CanonicalIsomorph.
	cases := []struct {
		g6        string
		oldPerm   []int
		oldOrbits []int
		sets      string //the orbit partition, the same on both trees
		canonical string //the canonical graph, the same on both trees
	}{
		{"CR", []int{1, 0, 3, 2}, []int{1, -2, 3, -2}, "[[0 1] [2 3]]", "CR"},
		{"DqK", []int{4, 3, 2, 1, 0}, []int{3, 3, 3, -3, 3}, "[[0 1 2 3 4]]", "DqK"},
		{"IsP@PGXD_", []int{9, 6, 5, 3, 4, 2, 1, 7, 8, 0}, []int{7, 7, 7, 7, 7, 7, 7, -3, 7, 7}, "[[0 1 2 3 4 5 6 7 8 9]]", "IsP@PGXD_"},
		{"G|WW}K", []int{7, 6, 5, 1, 0, 4, 3, 2}, []int{1, -2, 1, 4, -2, 6, -2, 4}, "[[0 1 2] [3 4 7] [5 6]]", "G{drO{"},
		{"G{drO{", []int{6, 2, 1, 7, 4, 5, 0, 3}, []int{6, 2, -2, 4, -2, 6, -2, 4}, "[[0 5 6] [1 2] [3 4 7]]", "G{drO{"},
		{"GsX_ok", []int{4, 2, 1, 6, 5, 0, 7, 3}, []int{4, 2, -2, 6, -2, 4, -2, 6}, "[[0 4 5] [1 2] [3 6 7]]", "GsX_ok"},
		{"G`iRYw", []int{1, 0, 3, 2, 7, 6, 5, 4}, []int{1, -2, 3, -2, 7, 7, 7, -3}, "[[0 1] [2 3] [4 5 6 7]]", "G`iRYw"},
		{"KhEKA?aCOT?i", []int{4, 10, 5, 3, 6, 8, 0, 2, 11, 9, 1, 7}, []int{4, 4, 4, 4, -3, 4, 10, 10, 10, 10, -3, 10}, "[[0 1 2 3 4 5] [6 7 8 9 10 11]]", "KsPHOg_CGE?F"},
		{"KhEG?CB???_B", []int{3, 4, 2, 5, 1, 0, 11, 10, 9, 8, 7, 6}, []int{3, 3, 3, -3, 3, 3, 10, 10, 10, 10, -3, 10}, "[[0 1 2 3 4 5] [6 7 8 9 10 11]]", "KqGW?CB???_B"},
	}
	for _, c := range cases {
		g := demoG6(c.g6)
		perm, orbits, gens := graph.CanonicalIsomorphFull(g, nil)
		if !demoIsPerm(perm, g.N()) {
			t.Fatalf("%v: not a permutation", c.g6)
		}
		if got := graph.Graph6Encode(g.InducedSubgraph(perm)); got != c.canonical {
			t.Fatalf("%v: the canonical GRAPH must be the same on both trees: %v, want %v", c.g6, got, c.canonical)
		}
		if got := fmt.Sprint(orbits.Sets()); got != c.sets {
			t.Fatalf("%v: the orbit PARTITION must be the same on both trees: %v, want %v", c.g6, got, c.sets)
		}
		for _, a := range gens {
			if !demoIsPerm(a, g.N()) || !graph.Equal(g, g.InducedSubgraph(a)) {
				t.Fatalf("%v: generator %v is not an automorphism", c.g6, a)
			}
		}
		if fmt.Sprint([]int(orbits)) != fmt.Sprint(c.oldOrbits) {
			t.Errorf("%v: raw orbit set %v, the clean tree gives %v (same partition %v)", c.g6, []int(orbits), c.oldOrbits, c.sets)
		}
		if p := graph.CanonicalIsomorph(g); fmt.Sprint(p) != fmt.Sprint(c.oldPerm) {
			t.Errorf("%v: permutation %v, the clean tree gives %v (same canonical graph %v)", c.g6, p, c.oldPerm, c.canonical)
		}
	}
}

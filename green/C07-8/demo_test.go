// Demo for C07 harmless change 8 (Sparse6Decode collects the neighbourhoods by appending and builds the SparseGraph
// in one go instead of calling AddEdge for every pair of the stream).
//
// Run (from the root of the library worktree):
//
//	cp /tmp/green-out/C07/8/demo_test.go graph/zz_c07_demo_test.go
//	GOFLAGS=-mod=mod GOPROXY=off GOSUMDB=off GOTOOLCHAIN=local go test -vet=off -count=1 -timeout 300s -run 'TestC07Demo' -v ./graph/
//	rm graph/zz_c07_demo_test.go
//
// TestC07DemoIncidental asserts the OLD incidental representation of the result: the graph returned by Sparse6Decode
// was field by field (reflect.DeepEqual) what NewSparse(n, nil) followed by AddEdge calls builds, in particular the
// neighbourhood of an isolated vertex was an empty NON-NIL slice, and decoding cost several allocations per edge.
// It passes on the clean tree and fails with the change (isolated vertices have a nil neighbourhood, which is the
// zero value of sortints.SortedInts and an equally good empty set; a handful of allocations per vertex).
// TestC07DemoProperty checks the property itself on the same graphs and more: sparse6 round trip with and without
// header (n = 0, 1, 2, powers of two, 17..32, 62..65, 300, edgeless, complete, random), for DenseGraph and SparseGraph
// arguments, streams that list the edges of a vertex in another order or twice, and that the result is an ordinary
// independent SparseGraph (editing it behaves like editing a graph built with AddEdge; a second decode is unaffected).
// It passes on both trees.
package graph_test

import (
	"math/rand"
	"reflect"
	"testing"

	"github.com/Tom-Johnston/mamba/graph"
)

func c07Random(rng *rand.Rand, n int, p float64) *graph.SparseGraph {
	g := graph.NewSparse(n, nil)
	for j := 1; j < n; j++ {
		for i := 0; i < j; i++ {
			if rng.Float64() < p {
				g.AddEdge(i, j)
			}
		}
	}
	return g
}

func c07Graphs() []*graph.SparseGraph {
	rng := rand.New(rand.NewSource(8))
	var gs []*graph.SparseGraph
	for _, n := range []int{0, 1, 2, 3, 4, 5, 7, 8, 9, 15, 16, 17, 20, 24, 31, 32, 33, 62, 63, 64, 65, 300} {
		for _, p := range []float64{0, 0.02, 0.1, 0.5, 1} {
			gs = append(gs, c07Random(rng, n, p))
		}
	}
	return gs
}

func TestC07DemoIncidental(t *testing.T) {
	//A path 0-1-2 and three isolated vertices.
	g := graph.NewSparse(6, nil)
	g.AddEdge(0, 1)
	g.AddEdge(1, 2)
	h, err := graph.Sparse6Decode(graph.Sparse6Encode(g))
	if err != nil || !graph.Equal(g, h) {
		t.Fatalf("round trip: %v", err)
	}
	for v := 3; v < 6; v++ {
		if h.Neighbourhoods[v] == nil {
			t.Errorf("old behaviour: the neighbourhood of the isolated vertex %v is an empty non-nil slice, got nil", v)
		}
	}
	for _, g := range c07Graphs() {
		h, err := graph.Sparse6Decode(graph.Sparse6Encode(g))
		if err != nil || !graph.Equal(g, h) {
			t.Fatalf("round trip: %v", err)
		}
		if !reflect.DeepEqual(g, h) {
			t.Fatalf("old behaviour: the decoded graph is reflect.DeepEqual to the graph built with NewSparse + AddEdge (n=%v m=%v)", g.N(), g.M())
		}
	}
	k := c07Random(rand.New(rand.NewSource(1)), 60, 0.5)
	s := graph.Sparse6Encode(k)
	allocs := testing.AllocsPerRun(10, func() { graph.Sparse6Decode(s) })
	t.Logf("n=60 m=%v: %v allocations per Sparse6Decode", k.M(), allocs)
	if allocs < float64(3*k.M()) {
		t.Errorf("old behaviour: at least 3 allocations per edge (AddEdge builds both neighbourhoods afresh), got %v for %v edges", allocs, k.M())
	}
}

//c07Writer writes a sparse6 string pair by pair.
type c07Writer struct {
	out  []byte
	b    byte
	pos  int
	k, v int
}

func (w *c07Writer) bit(x int) {
	if x != 0 {
		w.b |= 1 << uint(5-w.pos)
	}
	w.pos++
	if w.pos == 6 {
		w.out = append(w.out, w.b+63)
		w.b, w.pos = 0, 0
	}
}

func (w *c07Writer) pair(b, x int) {
	w.bit(b)
	for j := w.k - 1; j >= 0; j-- {
		w.bit((x >> uint(j)) & 1)
	}
}

//edge writes the edge {x, y} with x < y. y must not be smaller than the y of the edge before.
func (w *c07Writer) edge(x, y int) {
	if y == w.v {
		w.pair(0, x)
	} else if y == w.v+1 {
		w.pair(1, x)
		w.v++
	} else {
		w.pair(1, y)
		w.pair(0, x)
		w.v = y
	}
}

func (w *c07Writer) finish() string {
	for w.pos != 0 {
		w.bit(1)
	}
	return string(w.out)
}

func TestC07DemoProperty(t *testing.T) {
	for _, g := range c07Graphs() {
		d := graph.NewDense(g.N(), nil)
		for v := 0; v < g.N(); v++ {
			for _, u := range g.Neighbours(v) {
				d.AddEdge(u, v)
			}
		}
		for _, arg := range []graph.Graph{g, *g, d, *d} {
			s6 := graph.Sparse6Encode(arg)
			if s6[0] != ':' {
				t.Fatalf("sparse6 %q does not start with ':'", s6)
			}
			for i := 1; i < len(s6); i++ {
				if s6[i] < 63 || s6[i] > 126 {
					t.Fatalf("sparse6 byte %v out of range in %q", s6[i], s6)
				}
			}
			for _, s := range []string{s6, ">>sparse6<<" + s6} {
				h, err := graph.Sparse6Decode(s)
				if err != nil || !graph.Equal(g, h) || !graph.Equal(h, d) {
					t.Fatalf("sparse6 round trip failed for %q: %v", s, err)
				}
				if h.N() != g.N() || h.M() != g.M() || !reflect.DeepEqual(h.Degrees(), g.Degrees()) {
					t.Fatalf("N, M or Degrees differ after the round trip of %q", s)
				}
				for v := 0; v < g.N(); v++ {
					a, b := h.Neighbours(v), g.Neighbours(v)
					if len(a) != len(b) {
						t.Fatalf("Neighbours(%v) differ", v)
					}
					for i := range a {
						if a[i] != b[i] {
							t.Fatalf("Neighbours(%v) differ", v)
						}
					}
				}
				if graph.Sparse6Encode(h) != s6 || graph.Graph6Encode(h) != graph.Graph6Encode(d) {
					t.Fatalf("re-encoding the decoded graph differs for %q", s)
				}
			}
		}
	}

	//The decoded graph is an ordinary, independent SparseGraph.
	rng := rand.New(rand.NewSource(88))
	for iter := 0; iter < 200; iter++ {
		n := 2 + rng.Intn(20)
		g := c07Random(rng, n, []float64{0, 0.1, 0.4}[iter%3])
		s := graph.Sparse6Encode(g)
		h, _ := graph.Sparse6Decode(s)
		h2, _ := graph.Sparse6Decode(s)
		ref := g.Copy()
		for step := 0; step < 30; step++ {
			switch rng.Intn(4) {
			case 0:
				i, j := rng.Intn(h.N()), rng.Intn(h.N())
				h.AddEdge(i, j)
				ref.AddEdge(i, j)
			case 1:
				i, j := rng.Intn(h.N()), rng.Intn(h.N())
				h.RemoveEdge(i, j)
				ref.RemoveEdge(i, j)
			case 2:
				var nb []int
				for v := 0; v < h.N(); v++ {
					if rng.Intn(3) == 0 {
						nb = append(nb, v)
					}
				}
				h.AddVertex(nb)
				ref.AddVertex(nb)
			case 3:
				if h.N() > 2 {
					v := rng.Intn(h.N())
					h.RemoveVertex(v)
					ref.RemoveVertex(v)
				}
			}
			if !graph.Equal(h, ref) || h.M() != ref.M() || !reflect.DeepEqual(h.Degrees(), ref.Degrees()) {
				t.Fatalf("editing the decoded graph went wrong at step %v", step)
			}
			c := h.Copy()
			if !graph.Equal(c, ref) {
				t.Fatal("Copy of the edited decoded graph")
			}
		}
		if !graph.Equal(h2, g) {
			t.Fatal("a second decode was affected by editing the first")
		}
		h3, _ := graph.Sparse6Decode(s)
		if !graph.Equal(h3, g) {
			t.Fatal("a later decode was affected by editing the first")
		}
	}

	//Valid sparse6 streams which list the smaller neighbours of a vertex in another order, or an edge twice.
	for iter := 0; iter < 300; iter++ {
		n := []int{3, 5, 6, 7, 11, 23, 40, 60}[iter%8]
		g := c07Random(rng, n, []float64{0.05, 0.3, 0.8}[iter%3])
		k := 0
		for 1<<uint(k) < n {
			k++
		}
		w := &c07Writer{out: []byte{':', byte(n + 63)}, k: k}
		for y := 1; y < n; y++ {
			var xs []int
			for _, x := range g.Neighbours(y) {
				if x < y {
					xs = append(xs, x)
					if rng.Intn(4) == 0 {
						xs = append(xs, x)
					}
				}
			}
			rng.Shuffle(len(xs), func(i, j int) { xs[i], xs[j] = xs[j], xs[i] })
			for _, x := range xs {
				w.edge(x, y)
			}
		}
		s := w.finish()
		h, err := graph.Sparse6Decode(s)
		if err != nil || !graph.Equal(g, h) || h.M() != g.M() || !reflect.DeepEqual(h.Degrees(), g.Degrees()) {
			t.Fatalf("shuffled stream %q: %v", s, err)
		}
		for v := 0; v < n; v++ {
			if !reflect.DeepEqual(append([]int{}, h.Neighbours(v)...), append([]int{}, g.Neighbours(v)...)) {
				t.Fatalf("shuffled stream %q: Neighbours(%v)", s, v)
			}
		}
	}
}

// Demo for C12 change 1 (node ids are renumbered densely by Finish).
//
// Run (from the root of the library worktree):
//
//	cp /tmp/green-out/C12/1/demo_test.go dawg/c12demo1_test.go
//	GOFLAGS=-mod=mod GOPROXY=off GOSUMDB=off GOTOOLCHAIN=local go test -vet=off -count=1 -timeout 600s -run 'TestC12Demo1' -v ./dawg/
//	rm dawg/c12demo1_test.go
//
// TestC12Demo1Property checks the property itself (accepts exactly the words, NumberOfWords, ranks, non-members,
// minimal node count, rejected Adds are harmless) and passes before and after the change.
// TestC12Demo1Incidental asserts the OLD incidental behaviour (the exact bytes of GobEncode, which embed the
// internal node ids) and therefore passes on the clean tree and fails with the change.
package dawg_test

import (
	"bytes"
	"encoding/hex"
	"sort"
	"testing"

	"github.com/Tom-Johnston/mamba/dawg"
)

var c12demo1Sets = [][]string{
	{},
	{""},
	{"", "a"},
	{"abject", "abjection", "abjections", "abjectly", "abjectness", "ablate", "ablated", "ablation", "ablations"},
	{"", "a", "aa", "ab", "b", "ba", "bb", "tap", "taps", "top", "tops"},
	{"\x00", "\x00\xff", "\xff", "\xff\x00\xff"},
}

// minimalNodes is the number of states of the minimal (trim) deterministic acyclic automaton of the set: the number of
// distinct non-empty right languages of prefixes, and 1 (just the root) for the empty set.
func minimalNodes(words []string) int {
	langs := map[string]bool{}
	for _, w := range words {
		for i := 0; i <= len(w); i++ {
			p := w[:i]
			var rl []string
			for _, v := range words {
				if len(v) >= len(p) && v[:len(p)] == p {
					rl = append(rl, v[len(p):])
				}
			}
			sort.Strings(rl)
			key := ""
			for _, s := range rl {
				key += hex.EncodeToString([]byte(s)) + ","
			}
			langs[key] = true
		}
	}
	if len(langs) == 0 {
		return 1
	}
	return len(langs)
}

// encodedNumNodes reads the node count which GobEncode writes first.
func encodedNumNodes(t *testing.T, d *dawg.Dawg) int {
	b, err := d.GobEncode()
	if err != nil {
		t.Fatal(err)
	}
	if b[0] <= 127 {
		return int(b[0])
	}
	n := int(b[0]) - 128
	x := 0
	for _, c := range b[1 : 1+n] {
		x = x<<8 | int(c)
	}
	return x
}

func probes(words []string) []string {
	set := map[string]bool{"": true, "zz": true, "a": true, "\x00": true}
	for _, w := range words {
		set[w] = true
		set[w+"a"] = true
		set[w+"\x00"] = true
		for i := 0; i < len(w); i++ {
			set[w[:i]] = true
			set[w[:i]+"\x01"] = true
		}
	}
	var ps []string
	for p := range set {
		ps = append(ps, p)
	}
	sort.Strings(ps)
	return ps
}

func checkDawg(t *testing.T, d *dawg.Dawg, words []string) {
	t.Helper()
	if d.NumberOfWords() != len(words) {
		t.Errorf("%q: NumberOfWords = %d, want %d", words, d.NumberOfWords(), len(words))
	}
	rank := map[string]int{}
	for i, w := range words {
		rank[w] = i
	}
	for _, p := range probes(words) {
		r, ok := d.Lookup([]byte(p))
		wr, wok := rank[p]
		if ok != wok || (ok && r != wr) {
			t.Errorf("%q: Lookup(%q) = (%d, %v), want (%d, %v)", words, p, r, ok, wr, wok)
		}
	}
	if got, want := encodedNumNodes(t, d), minimalNodes(words); got != want {
		t.Errorf("%q: %d nodes, minimal automaton has %d", words, got, want)
	}
	// The encoding still round-trips to an equivalent dawg.
	b, _ := d.GobEncode()
	e := new(dawg.Dawg)
	if err := e.GobDecode(b); err != nil {
		t.Fatal(err)
	}
	if e.NumberOfWords() != len(words) {
		t.Errorf("%q: decoded NumberOfWords = %d", words, e.NumberOfWords())
	}
	for _, p := range probes(words) {
		r, ok := e.Lookup([]byte(p))
		wr, wok := rank[p]
		if ok != wok || (ok && r != wr) {
			t.Errorf("%q: decoded Lookup(%q) = (%d, %v), want (%d, %v)", words, p, r, ok, wr, wok)
		}
	}
}

func TestC12Demo1Property(t *testing.T) {
	for _, words := range c12demo1Sets {
		var bs [][]byte
		for _, w := range words {
			bs = append(bs, []byte(w))
		}
		d, err := dawg.New(bs)
		if err != nil {
			t.Fatal(err)
		}
		checkDawg(t, d, words)

		// The same set through a Builder with rejected Adds (duplicates and out-of-order words) in between.
		db := new(dawg.Builder)
		for i, w := range words {
			if err := db.Add([]byte(w)); err != nil {
				t.Fatal(err)
			}
			if err := db.Add([]byte(w)); err == nil {
				t.Errorf("%q: duplicate %q accepted", words, w)
			}
			if i > 0 {
				if err := db.Add([]byte(words[i-1])); err == nil {
					t.Errorf("%q: out-of-order %q accepted", words, words[i-1])
				}
			}
		}
		d, err = db.Finish()
		if err != nil {
			t.Fatal(err)
		}
		checkDawg(t, d, words)
	}
}

// The exact GobEncode bytes on the clean tree. They contain the internal node ids (which have gaps where nodes were
// merged during minimisation), which the property says nothing about.
var c12demo1OldEncodings = []string{
	"010000000000",
	"010000010100",
	"02000100020101610101010100",
	"13000102030405060708090a0b0d0e0f11121314000900016101010900016202020900026a036c0f0305000165040405000163050505000174060605010369076c0b6e0c070200016f08080200016e0909020101730a0a0101000b010001790a0c010001650d0d010001730e0e010001730a0f0400016110100400017411110400026512690712020101640a",
	"06000102070809000b01036101620174030103010261026202020101000304000261046f04040200017005050201017302",
	"050001020304000400020001ff0301020101ff020201010003020101000404010001ff02",
}

func TestC12Demo1Incidental(t *testing.T) {
	for i, words := range c12demo1Sets {
		var bs [][]byte
		for _, w := range words {
			bs = append(bs, []byte(w))
		}
		d, err := dawg.New(bs)
		if err != nil {
			t.Fatal(err)
		}
		b, err := d.GobEncode()
		if err != nil {
			t.Fatal(err)
		}
		want, _ := hex.DecodeString(c12demo1OldEncodings[i])
		t.Logf("%q: GobEncode = %x", words, b)
		if !bytes.Equal(b, want) {
			t.Errorf("%q: GobEncode = %x, old behaviour %x", words, b, want)
		}
	}
}

// Demo for C07 harmless change 5 (MulticodeDecodeMultiple: all graphs of a stream carved out of four allocations).
//
// Run (from the root of the library worktree):
//
//	cp /tmp/green-out/C07/5/demo_test.go graph/zz_c07_demo_test.go
//	GOFLAGS=-mod=mod GOPROXY=off GOSUMDB=off GOTOOLCHAIN=local go test -vet=off -count=1 -timeout 300s -run 'TestC07Demo' -v ./graph/
//	rm graph/zz_c07_demo_test.go
//
// TestC07DemoIncidental asserts the OLD incidental memory behaviour: decoding a stream of k records with n >= 2
// allocated every graph on its own (struct, degree sequence, edge array: at least 3k allocations per call; 609 for
// k = 200). It passes on the clean tree and fails with the change (4 allocations per call whatever k is).
// TestC07DemoProperty checks the property itself on the same kind of input: concatenations of Multicode records
// (random graphs, n = 0, 1, 2, graphs using the last vertex, edgeless graphs, n = 255) decode to graphs equal to the
// originals, record by record, and agree with MulticodeDecode of the single record; the results are independent
// objects (AddEdge / RemoveEdge / AddVertex / RemoveVertex on one of them leaves the others and a later decode
// unchanged). It passes on both trees.
package graph_test

import (
	"math/rand"
	"testing"

	"github.com/Tom-Johnston/mamba/graph"
)

func c07RandomDense(rng *rand.Rand, n int, p float64) *graph.DenseGraph {
	g := graph.NewDense(n, nil)
	for j := 1; j < n; j++ {
		for i := 0; i < j; i++ {
			if rng.Float64() < p {
				g.AddEdge(i, j)
			}
		}
	}
	return g
}

func c07SameGraph(a, b graph.Graph) bool {
	if a.N() != b.N() || a.M() != b.M() {
		return false
	}
	n := a.N()
	da, db := a.Degrees(), b.Degrees()
	if len(da) != n || len(db) != n {
		return false
	}
	for i := 0; i < n; i++ {
		if da[i] != db[i] {
			return false
		}
		for j := 0; j < n; j++ {
			if a.IsEdge(i, j) != b.IsEdge(i, j) {
				return false
			}
		}
	}
	return true
}

func c07Stream(rng *rand.Rand, k int) ([]*graph.DenseGraph, []byte) {
	var gs []*graph.DenseGraph
	var s []byte
	for i := 0; i < k; i++ {
		var g *graph.DenseGraph
		switch rng.Intn(8) {
		case 0:
			g = graph.NewDense(rng.Intn(3), nil) //n = 0, 1, 2 edgeless
		case 1:
			g = graph.NewDense(2, []byte{1}) //K2
		case 2:
			g = graph.NewDense(2+rng.Intn(10), nil) //edgeless
		case 3:
			n := 2 + rng.Intn(10)
			g = graph.NewDense(n, nil)
			g.AddEdge(n-2, n-1) //only the last pair
		default:
			g = c07RandomDense(rng, 2+rng.Intn(14), rng.Float64())
		}
		gs = append(gs, g)
		s = append(s, graph.MulticodeEncode(g)...)
	}
	return gs, s
}

func TestC07DemoIncidental(t *testing.T) {
	rng := rand.New(rand.NewSource(7))
	const k = 200
	var s []byte
	for i := 0; i < k; i++ {
		s = append(s, graph.MulticodeEncode(c07RandomDense(rng, 5+rng.Intn(6), 0.5))...)
	}
	var sink []*graph.DenseGraph
	allocs := testing.AllocsPerRun(20, func() {
		sink = graph.MulticodeDecodeMultiple(s)
	})
	if len(sink) != k {
		t.Fatalf("decoded %v graphs, want %v", len(sink), k)
	}
	t.Logf("MulticodeDecodeMultiple of %v records: %v allocations per call", k, allocs)
	if allocs < 3*k {
		t.Errorf("OLD incidental behaviour gone: %v allocations for %v records, the old decoder allocated each graph separately (>= %v)", allocs, k, 3*k)
	}
}

func TestC07DemoProperty(t *testing.T) {
	rng := rand.New(rand.NewSource(1))
	if got := graph.MulticodeDecodeMultiple(nil); len(got) != 0 {
		t.Fatalf("empty stream decoded to %v graphs", len(got))
	}
	for iter := 0; iter < 300; iter++ {
		gs, s := c07Stream(rng, rng.Intn(12))
		if iter == 0 {
			big := c07RandomDense(rng, 255, 0.3)
			big.AddEdge(253, 254)
			gs = append(gs, big)
			s = append(s, graph.MulticodeEncode(big)...)
			gs = append(gs, graph.NewDense(0, nil))
			s = append(s, 0)
		}
		hs := graph.MulticodeDecodeMultiple(s)
		if len(hs) != len(gs) {
			t.Fatalf("iter %v: %v graphs decoded, want %v", iter, len(hs), len(gs))
		}
		for i := range gs {
			if !c07SameGraph(gs[i], hs[i]) || !graph.Equal(gs[i], hs[i]) {
				t.Fatalf("iter %v: record %v does not round trip", iter, i)
			}
			if single := graph.MulticodeDecode(graph.MulticodeEncode(gs[i])); !c07SameGraph(single, hs[i]) {
				t.Fatalf("iter %v: record %v differs from MulticodeDecode", iter, i)
			}
			if len(hs[i].Edges) != hs[i].N()*(hs[i].N()-1)/2 || len(hs[i].DegreeSequence) != hs[i].N() {
				t.Fatalf("iter %v: record %v has a malformed representation", iter, i)
			}
		}
		//The results are independent objects: edit every other one heavily and look at the rest.
		for i := 0; i < len(hs); i += 2 {
			h := hs[i]
			n := h.N()
			all := make([]int, n)
			for v := range all {
				all[v] = v
			}
			h.AddVertex(all)
			h.AddVertex(nil)
			for a := 0; a < n; a++ {
				for b := 0; b < a; b++ {
					if h.IsEdge(a, b) {
						h.RemoveEdge(a, b)
					} else {
						h.AddEdge(a, b)
					}
				}
			}
			if n > 0 {
				h.RemoveVertex(0)
			}
			h.AddVertex(nil)
			h.AddVertex([]int{0})
		}
		for i := 1; i < len(hs); i += 2 {
			if !c07SameGraph(gs[i], hs[i]) {
				t.Fatalf("iter %v: record %v changed when its neighbours were edited", iter, i)
			}
		}
		again := graph.MulticodeDecodeMultiple(s)
		for i := range gs {
			if !c07SameGraph(gs[i], again[i]) {
				t.Fatalf("iter %v: second decode of record %v is wrong", iter, i)
			}
		}
	}
}

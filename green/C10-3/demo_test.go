// Demonstration for green change C10/3 (ConnectedComponent walks adjacency lists instead of probing IsEdge).
//
// Run (from the repository root, clean tree or patched tree):
//
//	cp /tmp/green-out/C10/3/demo_test.go graph/zz_green_c10_3_demo_test.go
//	export GOFLAGS=-mod=mod GOPROXY=off GOSUMDB=off GOTOOLCHAIN=local
//	go test -vet=off -count=1 -timeout 120s -v -run 'TestGreenC10_3' ./graph/
//	rm graph/zz_green_c10_3_demo_test.go
//
// TestGreenC10_3_Property checks the property itself (ConnectedComponent returns exactly the component of v, sorted,
// in every representation and labelling): passes on BOTH trees.
// TestGreenC10_3_Incidental asserts the OLD way the function interrogates the graph it is handed (only IsEdge, never
// Neighbours; n-1 IsEdge probes for the first vertex): passes on the CLEAN tree, FAILS with the patch.
package graph_test

import (
	"math/rand"
	"reflect"
	"testing"

	"github.com/Tom-Johnston/mamba/graph"
)

// countingGraph is a read-only view of another graph that counts how it is interrogated. It is a perfectly valid
// implementation of graph.Graph ("another representation").
type countingGraph struct {
	g                   graph.Graph
	isEdge, neighbours  *int
	degrees, nCalls, mC *int
}

func newCounting(g graph.Graph) countingGraph {
	return countingGraph{g, new(int), new(int), new(int), new(int), new(int)}
}
func (c countingGraph) N() int                { *c.nCalls++; return c.g.N() }
func (c countingGraph) M() int                { *c.mC++; return c.g.M() }
func (c countingGraph) IsEdge(i, j int) bool  { *c.isEdge++; return c.g.IsEdge(i, j) }
func (c countingGraph) Neighbours(v int) []int { *c.neighbours++; return c.g.Neighbours(v) }
func (c countingGraph) Degrees() []int        { *c.degrees++; return c.g.Degrees() }

// refComponent computes the component of v by transitive closure on an adjacency matrix built by the test itself.
func refComponent(n int, adj [][]bool, v int) []int {
	reach := make([]bool, n)
	reach[v] = true
	for changed := true; changed; {
		changed = false
		for a := 0; a < n; a++ {
			if !reach[a] {
				continue
			}
			for b := 0; b < n; b++ {
				if adj[a][b] && !reach[b] {
					reach[b] = true
					changed = true
				}
			}
		}
	}
	r := []int{}
	for a := 0; a < n; a++ {
		if reach[a] {
			r = append(r, a)
		}
	}
	return r
}

func checkAll(t *testing.T, n int, adj [][]bool) {
	d := graph.NewDense(n, nil)
	s := graph.NewSparse(n, nil)
	for a := 0; a < n; a++ {
		for b := 0; b < a; b++ {
			if adj[a][b] {
				d.AddEdge(a, b)
				s.AddEdge(a, b)
			}
		}
	}
	all := make([]int, n)
	for i := range all {
		all[i] = i
	}
	reps := map[string]graph.Graph{"dense": d, "sparse": s, "induced": graph.InducedSubgraph(d, all), "wrapped": newCounting(s)}
	for v := 0; v < n; v++ {
		want := refComponent(n, adj, v)
		for name, h := range reps {
			got := graph.ConnectedComponent(h, v)
			if !reflect.DeepEqual(got, want) {
				t.Fatalf("n=%d %s: ConnectedComponent(%d) = %v, want %v (adj %v)", n, name, v, got, want, adj)
			}
		}
	}
}

func TestGreenC10_3_Property(t *testing.T) {
	// Every labelled graph on 1..5 vertices.
	for n := 1; n <= 5; n++ {
		m := n * (n - 1) / 2
		for mask := 0; mask < 1<<uint(m); mask++ {
			adj := make([][]bool, n)
			for i := range adj {
				adj[i] = make([]bool, n)
			}
			k := 0
			for a := 1; a < n; a++ {
				for b := 0; b < a; b++ {
					if mask>>uint(k)&1 == 1 {
						adj[a][b], adj[b][a] = true, true
					}
					k++
				}
			}
			checkAll(t, n, adj)
		}
	}
	// Random sparse and dense graphs on up to 40 vertices (many components, bridges, cut vertices), random labels.
	rng := rand.New(rand.NewSource(10))
	for it := 0; it < 300; it++ {
		n := 6 + rng.Intn(35)
		p := []float64{0.02, 0.05, 0.1, 0.5}[rng.Intn(4)]
		adj := make([][]bool, n)
		for i := range adj {
			adj[i] = make([]bool, n)
		}
		for a := 1; a < n; a++ {
			for b := 0; b < a; b++ {
				if rng.Float64() < p {
					adj[a][b], adj[b][a] = true, true
				}
			}
		}
		checkAll(t, n, adj)
	}
}

func TestGreenC10_3_Incidental(t *testing.T) {
	// The path 0-1-2-3-4-5 plus the isolated vertex 6.
	s := graph.NewSparse(7, nil)
	for i := 0; i < 5; i++ {
		s.AddEdge(i, i+1)
	}
	c := newCounting(s)
	got := graph.ConnectedComponent(c, 0)
	if !reflect.DeepEqual(got, []int{0, 1, 2, 3, 4, 5}) {
		t.Fatalf("property violated: component of 0 is %v", got)
	}
	t.Logf("ConnectedComponent(P6+K1, 0): IsEdge calls = %d, Neighbours calls = %d", *c.isEdge, *c.neighbours)
	// OLD behaviour: adjacency is only ever probed pair by pair through IsEdge (6+5+4+3+2+1 = 21 probes here), and
	// Neighbours is never asked for.
	if *c.neighbours != 0 {
		t.Errorf("incidental: Neighbours was called %d times, the clean tree never calls it", *c.neighbours)
	}
	if *c.isEdge != 21 {
		t.Errorf("incidental: IsEdge was called %d times, the clean tree calls it 21 times", *c.isEdge)
	}
}

package c14

import (
	"bytes"
	"encoding/gob"
	"fmt"

	"github.com/Tom-Johnston/mamba/dawg"

	"verif/internal/engine"
	"verif/internal/oracle/refdawg"
	"verif/internal/props/c12"
	"verif/internal/props/c12/dawgx"
)

// Caller-owned byte slices.  The bytes handed to GobDecode and the bytes
// returned by GobEncode belong to the caller: a read buffer is reused for the
// next record, an encoding is overwritten once it has been written out.  A
// decoded Dawg that keeps sub-slices of its input, or an encoder whose result
// aliases internal or pooled memory, passes every round trip through fresh
// bytes and breaks only afterwards.  Everything here is judged like a decode
// into a fresh receiver, but AFTER the caller has reused its bytes.

var scribbles = []string{"overwritten-with-#", "overwritten-with-zeros", "overwritten-with-another-encoding"}

// scribble overwrites b in the given way; alt (may be nil) is another
// encoding of the same length.
func scribble(b []byte, how int, alt []byte) {
	switch {
	case how == 0:
		for i := range b {
			b[i] = '#'
		}
	case how == 1:
		for i := range b {
			b[i] = 0
		}
	case alt != nil && len(alt) == len(b):
		copy(b, alt)
	default: // no other encoding of that length: shift every byte
		for i := range b {
			b[i] = b[i]*7 + 13
		}
	}
}

// ownedDecode: GobDecode(in), then the caller overwrites in, then the full comparison.
func ownedDecode(c *engine.Ctx, callKey string, p *prepared, how int, alt []byte) bool {
	path := "GobDecode-then-caller-overwrites-its-bytes"
	w := scribbles[how]
	det := dawgx.Detail(p.label, p.set, map[string]interface{}{"call": callKey, "after_GobDecode_the_input_slice_was": scribbles[how], "encoding_bytes": len(p.enc)})
	in := append([]byte{}, p.enc...)
	r := new(dawg.Dawg)
	var err error
	pi := c.Call(callKey+"|GobDecode", func() { err = r.GobDecode(in) })
	c.Eval(1)
	if pi != nil || err != nil {
		return true // judged by the round-trip part
	}
	scribble(in, how, alt)
	if !compareCopyW(c, false, path, w, callKey, r, p.set, p.probes, p.d, p.nodes, p.enc, p.queries, det) {
		return false
	}
	c.Obs("owned:decode_input_"+scribbles[how], 1)
	return true
}

// readBuffer: the records are decoded one after the other through ONE read
// buffer (record k is copied into buf[:len] and decoded from there); then ALL
// decoded automata are checked.
func readBuffer(c *engine.Ctx, callKey string, recs []*prepared) bool {
	path := "GobDecode-from-one-reused-read-buffer"
	max := 0
	for _, p := range recs {
		if len(p.enc) > max {
			max = len(p.enc)
		}
	}
	buf := make([]byte, max+16)
	out := make([]*dawg.Dawg, len(recs))
	for k, p := range recs {
		n := copy(buf, p.enc)
		r := new(dawg.Dawg)
		var err error
		pi := c.Call(fmt.Sprintf("%s|GobDecode(record %d)", callKey, k), func() { err = r.GobDecode(buf[:n]) })
		if pi != nil || err != nil {
			return true // judged by the round-trip part
		}
		out[k] = r
	}
	for i := range buf {
		buf[i] = '#'
	}
	var sizes []int
	for _, p := range recs {
		sizes = append(sizes, len(p.enc))
	}
	for k, p := range recs {
		c.Eval(1)
		w := "earlier-record"
		if k == len(recs)-1 {
			w = "last-record"
		}
		det := dawgx.Detail(p.label, p.set, map[string]interface{}{"call": callKey, "record": k, "records_decoded_through_the_same_buffer": len(recs), "record_sizes": sizes})
		if !compareCopyW(c, false, path, w, callKey, out[k], p.set, p.probes, p.d, p.nodes, p.enc, p.queries[:1], det) {
			return false
		}
	}
	c.Obs("owned:read_buffer_sequences", 1)
	c.Obs("owned:read_buffer_records", len(recs))
	return true
}

// ownedEncode: the slice returned by GobEncode is the caller's.  Overwriting
// it leaves the Dawg and later encodings alone; and encodings of other
// automata made later (larger and smaller) leave an earlier result alone.
func ownedEncode(c *engine.Ctx, callKey string, p *prepared, others []*prepared) bool {
	path := "GobEncode-result-owned-by-the-caller"
	det := dawgx.Detail(p.label, p.set, map[string]interface{}{"call": callKey, "encoding_bytes": len(p.enc)})
	b1, err, pi := dawgx.Encode(c, callKey+"|first", p.d)
	c.Eval(1)
	if pi != nil || err != nil {
		return true
	}
	if !bytes.Equal(b1, p.enc) {
		c.Violation(path+"|second-encoding-differs|before-any-overwrite", det, fmt.Sprintf("%d bytes, first difference at offset %d", len(b1), firstDiff(b1, p.enc)), "the same bytes as the first encoding of this Dawg")
		return false
	}
	// (1) later encodings of other automata must not change b1
	var sizes []int
	for k, o := range others {
		ob, oerr, opi := dawgx.Encode(c, fmt.Sprintf("%s|other%d", callKey, k), o.d)
		if opi != nil || oerr != nil {
			continue
		}
		sizes = append(sizes, len(ob))
		c.Eval(1)
		if !bytes.Equal(ob, o.enc) {
			det["encodings_made_before"] = sizes
			c.Violation(path+"|encoding-depends-on-earlier-encodings", dawgx.Detail(o.label, o.set, map[string]interface{}{"call": callKey, "encoded_after_sizes": sizes}), fmt.Sprintf("%d bytes, first difference at offset %d", len(ob), firstDiff(ob, o.enc)), "the same bytes as when this Dawg was encoded first")
			return false
		}
		for i := range ob { // the caller is done with it
			ob[i] = '#'
		}
	}
	c.Eval(1)
	if !bytes.Equal(b1, p.enc) {
		det["later_encodings_sizes"] = sizes
		c.Violation(path+"|earlier-result-changed-by-later-encodings", det, fmt.Sprintf("first difference at offset %d", firstDiff(b1, p.enc)), "the bytes as they were when GobEncode returned")
		return false
	}
	// (2) overwrite the result; the Dawg and its next encoding are unaffected
	for i := range b1 {
		b1[i] = '#'
	}
	b1 = append(b1[:0], bytes.Repeat([]byte{0xEE}, cap(b1))...) // the spare capacity as well
	nodes, pi := dawgx.Nodes(c, callKey+"|after-overwrite", p.d)
	c.Eval(1)
	if pi != nil {
		dawgx.Report(c, nil, pi, path+"|VerifNodes", "result-overwritten", det)
		return false
	}
	if diff := dawgx.NodesEqual(p.nodes, nodes); diff != "" {
		c.Violation(path+"|dawg-changed|result-overwritten", det, diff, "the Dawg is unaffected by what the caller does with the encoding")
		return false
	}
	if f, pi, api := dawgx.FullCheck(c, callKey+"|after-overwrite", p.d, p.set, dawgx.CheckOpts{Probes: p.probes, SkipEncode: true}); f != nil || pi != nil {
		dawgx.Report(c, f, pi, path+"|dawg-changed:"+api, "result-overwritten", det)
		return false
	}
	b2, err, pi := dawgx.Encode(c, callKey+"|second", p.d)
	c.Eval(1)
	if pi != nil {
		dawgx.Report(c, nil, pi, path+"|GobEncode", "result-overwritten", det)
		return false
	}
	if err != nil || !bytes.Equal(b2, p.enc) {
		c.Violation(path+"|second-encoding-differs|result-overwritten", det, fmt.Sprintf("err=%v, %d bytes, first difference at offset %d", err, len(b2), firstDiff(b2, p.enc)), "the original bytes again")
		return false
	}
	c.Obs("owned:encode_results_overwritten", 1)
	if len(sizes) > 0 {
		c.Obs("owned:encode_then_other_encodes", 1)
	}
	return true
}

// gobStream: several Dawgs through one Encoder / Decoder pair; the encoder
// writes into a buffer that is Reset before every message and the bytes are
// handed to the decoder through a second buffer that is Reset and refilled;
// every message goes into its own variable and ALL of them are checked at the end.
func gobStream(c *engine.Ctx, callKey string, recs []*prepared) bool {
	path := "encoding/gob-stream-with-reset-buffers"
	var wire, rd bytes.Buffer
	enc := gob.NewEncoder(&wire)
	dec := gob.NewDecoder(&rd)
	out := make([]*dawg.Dawg, len(recs))
	for k, p := range recs {
		wire.Reset()
		var err error
		pi := c.Call(fmt.Sprintf("%s|gob.Encode(message %d)", callKey, k), func() { err = enc.Encode(p.d) })
		if pi != nil || err != nil {
			return true // judged by the round-trip part
		}
		rd.Reset()
		rd.Write(wire.Bytes())
		wb := wire.Bytes()
		for i := range wb { // the sender's buffer is reused at once
			wb[i] = '#'
		}
		v := new(dawg.Dawg)
		pi = c.Call(fmt.Sprintf("%s|gob.Decode(message %d)", callKey, k), func() { err = dec.Decode(v) })
		c.Eval(1)
		det := dawgx.Detail(p.label, p.set, map[string]interface{}{"call": callKey, "message": k, "messages": len(recs)})
		if pi != nil {
			dawgx.Report(c, nil, pi, path+"|Decode", "message", det)
			return false
		}
		if err != nil {
			c.Violation(path+"|Decode-error|message", det, err.Error(), "nil")
			return false
		}
		out[k] = v
	}
	rd.Reset()
	rd.Write(bytes.Repeat([]byte{'#'}, 64))
	for k, p := range recs {
		w := "earlier-message"
		if k == len(recs)-1 {
			w = "last-message"
		}
		det := dawgx.Detail(p.label, p.set, map[string]interface{}{"call": callKey, "message": k, "messages": len(recs)})
		if !compareCopyW(c, false, path, w, callKey, out[k], p.set, p.probes, p.d, p.nodes, p.enc, p.queries[:1], det) {
			return false
		}
	}
	c.Obs("owned:gob_stream_sequences", 1)
	c.Obs("owned:gob_stream_messages", len(recs))
	return true
}

// ownedAll runs the four scenarios over a list of prepared automata.
func ownedAll(c *engine.Ctx, callKey string, ps []*prepared, rg *engine.Rng) {
	var list []*prepared
	byLen := map[int][]int{}
	for _, p := range ps {
		if p != nil {
			byLen[len(p.enc)] = append(byLen[len(p.enc)], len(list))
			list = append(list, p)
		}
	}
	if len(list) == 0 {
		return
	}
	for i, p := range list {
		for how := range scribbles {
			var alt []byte
			if same := byLen[len(p.enc)]; how == 2 && len(same) > 1 {
				j := same[(rg.Intn(len(same)-1)+1+indexOf(same, i))%len(same)]
				alt = list[j].enc
				if !bytes.Equal(alt, p.enc) {
					c.Obs("owned:another_encoding_of_the_same_length_used", 1)
				}
			}
			if !ownedDecode(c, fmt.Sprintf("%s|decode#%d|%s", callKey, i, scribbles[how]), p, how, alt) && c.Stopped() {
				return
			}
		}
		// others: a larger and a smaller one where they exist, and a random one
		var others []*prepared
		for _, q := range list {
			if len(q.enc) > len(p.enc) {
				others = append(others, q)
				break
			}
		}
		for _, q := range list {
			if len(q.enc) < len(p.enc) {
				others = append(others, q)
				break
			}
		}
		others = append(others, list[rg.Intn(len(list))])
		if !ownedEncode(c, fmt.Sprintf("%s|encode#%d", callKey, i), p, others) && c.Stopped() {
			return
		}
	}
	// sequences through one buffer: windows of a shuffled order, so that long, short and medium records follow each other
	perm := rg.Perm(len(list))
	for at := 0; at < len(perm); at += 5 {
		end := at + 6 // overlapping by one
		if end > len(perm) {
			end = len(perm)
		}
		var recs []*prepared
		for _, k := range perm[at:end] {
			recs = append(recs, list[k])
		}
		if len(recs) < 2 {
			continue
		}
		if !readBuffer(c, fmt.Sprintf("%s|read-buffer@%d", callKey, at), recs) && c.Stopped() {
			return
		}
		if !gobStream(c, fmt.Sprintf("%s|gob-stream@%d", callKey, at), recs) && c.Stopped() {
			return
		}
	}
}

func indexOf(a []int, x int) int {
	for i, v := range a {
		if v == x {
			return i
		}
	}
	return 0
}

func callerOwnedBytes(c *engine.Ctx) {
	// (a) the 64 subsets of a 6-word universe
	u := [][]byte{[]byte(""), []byte("a"), []byte("aa"), []byte("ab"), []byte("b"), []byte("ba")}
	label := "caller-owned bytes: the 64 subsets of {\"\",a,aa,ab,b,ba}: input overwritten after GobDecode in 3 ways, records through one read buffer, GobEncode results overwritten / followed by other encodes, gob streams with reset buffers"
	c.Unit("caller-owned/subsets64", func() {
		rg := engine.NewRng(8100)
		var ps []*prepared
		for m := 0; m < 1<<uint(len(u)); m++ {
			ps = append(ps, prepare(c, fmt.Sprintf("owned|subsets64|mask=%d", m), label, c12.SubsetOf(u, m), []byte("ab"), rg, 1))
		}
		ownedAll(c, "owned|subsets64", ps, rg)
		c.Obs("exhaustive:"+label, 1)
		c.Sample("caller-owned", map[string]interface{}{"universe": refdawg.QuoteList(u, 10), "scribbles": scribbles})
	})
	// (b) the 2^10 subsets of the words of length <= 2 over {a,b,c} without the longest ones, in blocks (more encodings of equal length, more shapes)
	u2 := refdawg.Universe([]byte("abc"), 2)[:10]
	for blk := 0; blk < 16; blk++ {
		blk := blk
		c.Unit(fmt.Sprintf("caller-owned/subsets1024/%02d", blk), func() {
			rg := engine.NewRng(uint64(8200 + blk))
			var ps []*prepared
			for m := blk * 64; m < (blk+1)*64; m++ {
				ps = append(ps, prepare(c, fmt.Sprintf("owned|subsets1024|mask=%d", m), "caller-owned bytes: subsets of the first 10 words over {a,b,c}", c12.SubsetOf(u2, m), []byte("abc"), rg, 1))
			}
			ownedAll(c, fmt.Sprintf("owned|subsets1024|%02d", blk), ps, rg)
		})
	}
	// (c) the contrasting fixed sets (wide fans, long chains, with / without the empty word)
	c.Unit("caller-owned/contrast", func() {
		rg := engine.NewRng(8300)
		var ps []*prepared
		for _, f := range contrastSets() {
			ps = append(ps, prepare(c, "owned|contrast|"+f.Name, "caller-owned bytes: contrast "+f.Name, f.Set, f.Alpha, rg, 2))
		}
		for round := 0; round < 3; round++ {
			ownedAll(c, fmt.Sprintf("owned|contrast|round%d", round), ps, rg)
		}
	})
}

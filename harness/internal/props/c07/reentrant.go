package c07

// reentrant.go: calls of the codec functions that are NESTED in one another.
//
// The encoders take a graph.Graph, an interface the caller may implement.  Such a graph is free to use the library
// while it answers: an implicit graph (a complement, a product, a graph read lazily from a file of graph6 lines)
// whose IsEdge / Neighbours / Degrees / N / M decodes a string, encodes another graph (a cache key, a log line) or
// calls the very function that is running on another graph.  All the other workloads of this package make one call
// after the other: every call has returned before the next one starts, so state that a function keeps between calls
// (a package-level buffer, a pool, scratch space shared by two functions) is only ever seen by one call at a time.
//
// Here every encoder is called on a callerGraph (a graph.Graph implemented in this file, answering from a reference
// graph) whose observers, at chosen moments of the outer call (the first, a middle, the last call of each observer
// the function uses, every call, seeded positions), make an inner call of one of the nine functions on another input
// (same size, smaller, larger; the same function on the same graph value; an inner call whose own argument makes a
// further inner call).  The outer result and every inner result are judged against the reference codec exactly like
// the results of the plain calls.  No goroutines: the calls are nested, not concurrent (concurrency is C19's).

import (
	"fmt"
	"runtime/debug"
	"strings"

	"github.com/Tom-Johnston/mamba/graph"

	"verif/internal/engine"
	"verif/internal/oracle/codec"
	"verif/internal/oracle/rg"
)

const (
	obN = iota
	obM
	obIsEdge
	obNeighbours
	obDegrees
	numOb
)

var obName = [numOb]string{"N", "M", "IsEdge", "Neighbours", "Degrees"}

var encoderAPIs = []string{"Graph6Encode", "Sparse6Encode", "MulticodeEncode", "PruferEncode"}

// callerGraph is a graph.Graph implemented by the caller.  It answers from a reference graph, hands out fresh slices
// (the interface does not say who owns them) and counts the calls of each observer; a hook makes a library call from
// inside the k-th call of one observer.
type callerGraph struct {
	g     *rg.G
	adj   [][]int
	m     int
	cnt   [numOb]int
	hooks []*hook
	busy  bool // a hook of this graph is running: its observers answer without counting or firing
}

func newCaller(g *rg.G) *callerGraph {
	u := &callerGraph{g: g, adj: make([][]int, g.N), m: g.M()}
	for v := range u.adj {
		u.adj[v] = g.Nbrs(v)
	}
	return u
}

func (u *callerGraph) tick(kind int) {
	if u.busy {
		return
	}
	u.cnt[kind]++
	k := u.cnt[kind]
	for _, h := range u.hooks {
		if h.kind == kind && (h.k == 0 || h.k == k) {
			u.fire(h)
		}
	}
}

func (u *callerGraph) fire(h *hook) {
	u.busy = true
	defer func() { u.busy = false }()
	h.fired++
	h.op.exec(true)
}

func (u *callerGraph) N() int { u.tick(obN); return u.g.N }
func (u *callerGraph) M() int { u.tick(obM); return u.m }
func (u *callerGraph) IsEdge(i, j int) bool {
	u.tick(obIsEdge)
	if i < 0 || j < 0 || i >= u.g.N || j >= u.g.N || i == j {
		return false
	}
	return u.g.Has(i, j)
}
func (u *callerGraph) Neighbours(v int) []int {
	u.tick(obNeighbours)
	return append([]int{}, u.adj[v]...)
}
func (u *callerGraph) Degrees() []int {
	u.tick(obDegrees)
	d := make([]int, len(u.adj))
	for v := range d {
		d[v] = len(u.adj[v])
	}
	return d
}

// hook: from inside the k-th call (1-based; 0 = every call) of one observer, make the library call op.
type hook struct {
	kind   int
	k      int
	of     int // number of calls of that observer the outer function makes (from the run without hooks)
	moment string
	op     *op
	fired  int
}

func (h *hook) String() string {
	at := fmt.Sprintf("call %d of %d", h.k, h.of)
	if h.k == 0 {
		at = fmt.Sprintf("each of the %d calls", h.of)
	}
	return fmt.Sprintf("%s (%s, %s) -> %s", obName[h.kind], at, h.moment, h.op.desc)
}

// opRes is what one execution of an op returned.
type opRes struct {
	s             string
	b, bSnap      []byte
	ints, iSnap   []int
	h             graph.Graph
	hs            []*graph.DenseGraph
	err           error
	returned      bool
	panicVal      string
	panicSite     string
	judgedAlready bool
}

// op is one call of one of the nine functions on a fixed input; it may be executed several times.
type op struct {
	api      string
	desc     string
	n        int
	arg      graph.Graph // encoders
	model    *rg.G       // the graph (the tree, for Pruefer) that is encoded / that the input encodes
	models   []*rg.G     // MulticodeDecodeMultiple
	str      string
	byt      []byte
	code     []int
	wantS    string
	wantB    []byte
	wantI    []int
	self     bool // the argument is the graph whose observer makes the call
	edgeOnly bool
	res      []*opRes
}

func libSite(stack string) string {
	for _, l := range strings.Split(stack, "\n") {
		if strings.HasPrefix(l, "github.com/Tom-Johnston/mamba/") {
			fn := strings.TrimPrefix(l, "github.com/Tom-Johnston/mamba/")
			if p := strings.LastIndexByte(fn, '('); p > 0 {
				fn = fn[:p]
			}
			return fn
		}
	}
	return "?"
}

// exec makes the library call (nothing else: the verdicts are formed after the outermost call has returned).
// nested = called from an observer: a panic is caught here so that the outer call goes on.
func (o *op) exec(nested bool) {
	r := &opRes{}
	o.res = append(o.res, r)
	if u, ok := o.arg.(*callerGraph); ok && !u.busy {
		u.cnt = [numOb]int{}
	}
	if nested {
		defer func() {
			if p := recover(); p != nil {
				r.panicVal = fmt.Sprint(p)
				r.panicSite = libSite(string(debug.Stack()))
			}
		}()
	}
	switch o.api {
	case "Graph6Encode":
		r.s = graph.Graph6Encode(o.arg)
	case "Sparse6Encode":
		r.s = graph.Sparse6Encode(o.arg)
	case "MulticodeEncode":
		r.b = graph.MulticodeEncode(o.arg)
		r.bSnap = append([]byte(nil), r.b...)
	case "PruferEncode":
		r.ints = graph.PruferEncode(o.arg)
		r.iSnap = append([]int(nil), r.ints...)
	case "Graph6Decode":
		r.h, r.err = graph.Graph6Decode(o.str)
	case "Sparse6Decode":
		r.h, r.err = graph.Sparse6Decode(o.str)
	case "MulticodeDecode":
		r.h = graph.MulticodeDecode(append([]byte(nil), o.byt...))
	case "MulticodeDecodeMultiple":
		r.hs = graph.MulticodeDecodeMultiple(append([]byte(nil), o.byt...))
	case "PruferDecode":
		r.h = graph.PruferDecode(append([]int(nil), o.code...))
	}
	r.returned = true
}

// s6Verdict judges a sparse6 string the way the plain checks do: the strict reader must read it as exactly g.
func s6Verdict(s string, g *rg.G) (kind, obs, exp string) {
	if v := validBytes(s, true); v != "" {
		return "illegal-bytes", clip(s) + ": " + v, "':' followed by bytes in 63..126"
	}
	sc, err := codec.Sparse6Scan(s, 1<<20)
	if err != nil {
		return "unreadable", clip(s) + ": " + err.Error(), clip(codec.Sparse6OfGraph(g))
	}
	if int(sc.N) != g.N || sc.Loops != 0 || sc.Repeats != 0 || !sc.Graph().Equal(g) {
		return "string-is-another-graph", fmt.Sprintf("%s reads (formats.txt rule) as n=%d with %d loops, %d repeated edges: %s", clip(s), sc.N, sc.Loops, sc.Repeats, describeScan(sc)),
			"a string that reads as " + clip(g.String()) + ", e.g. " + clip(codec.Sparse6OfGraph(g))
	}
	return "", "", ""
}

func sameInts(a, b []int) bool {
	if len(a) != len(b) {
		return false
	}
	for i := range a {
		if a[i] != b[i] {
			return false
		}
	}
	return true
}

// verdict judges one result of the op against the reference codec ("" = right).  Only called when no library call is
// in progress (it reads decoded graphs through guarded calls).
func (o *op) verdict(m *mon, key string, r *opRes) (kind, obs, exp string) {
	if r.panicVal != "" {
		return "panic|" + r.panicSite, "panic: " + r.panicVal, "no panic on a valid input"
	}
	if !r.returned {
		return "", "", "" // cut short by a panic of an enclosing call (judged there)
	}
	rd := &session{m: m}
	switch o.api {
	case "Graph6Encode":
		if r.s != o.wantS {
			x := clip(r.s)
			if v := validBytes(r.s, false); v != "" {
				x += " (" + v + ")"
			}
			return "not-the-graph6-string", x, clip(o.wantS) + " (formats.txt)"
		}
	case "Sparse6Encode":
		return s6Verdict(r.s, o.model)
	case "MulticodeEncode":
		if string(r.bSnap) != string(o.wantB) {
			if back, rest, err := codec.MulticodeParse(r.bSnap); err != nil || len(rest) != 0 || !back.Equal(o.model) {
				return "wrong-bytes", clipBytes(r.bSnap), clipBytes(o.wantB)
			}
		}
		if string(r.b) != string(r.bSnap) {
			return "result-changed-after-it-was-returned", clipBytes(r.b), clipBytes(r.bSnap) + " (what was returned)"
		}
	case "PruferEncode":
		if !sameInts(r.iSnap, o.wantI) {
			return "wrong-code", clipInts(r.iSnap), clipInts(o.wantI)
		}
		if !sameInts(r.ints, r.iSnap) {
			return "result-changed-after-it-was-returned", clipInts(r.ints), clipInts(r.iSnap) + " (what was returned)"
		}
	case "Graph6Decode", "Sparse6Decode":
		if r.err != nil {
			return "error-on-valid-string", "error: " + r.err.Error() + " for " + clip(o.str), "the graph " + clip(o.model.String())
		}
		fallthrough
	case "MulticodeDecode", "PruferDecode":
		bad, pi := rd.reads(key+"|read-result", r.h, o.model, o.edgeOnly)
		if pi != nil {
			return "result-panics|" + engine.SiteNoLine(pi.Site), pi.String(), "the graph " + clip(o.model.String())
		}
		if bad != "" {
			return "wrong-graph", bad, "the graph " + clip(o.model.String())
		}
	case "MulticodeDecodeMultiple":
		if len(r.hs) != len(o.models) {
			return "wrong-number-of-graphs", fmt.Sprintf("%d graphs", len(r.hs)), fmt.Sprintf("%d graphs", len(o.models))
		}
		for i, h := range r.hs {
			bad, pi := rd.reads(fmt.Sprintf("%s|read-result-%d", key, i), h, o.models[i], false)
			if pi != nil {
				return "result-panics|" + engine.SiteNoLine(pi.Site), pi.String(), fmt.Sprintf("graph %d readable", i)
			}
			if bad != "" {
				return "wrong-graph", fmt.Sprintf("graph %d: %s", i, bad), clip(o.models[i].String())
			}
		}
	}
	return "", "", ""
}

// modelOf: the graph an encoder is given for the input x (the tree for PruferEncode); nil = not applicable.
func modelOf(api string, x *hin) *rg.G {
	switch api {
	case "PruferEncode":
		return x.tree
	case "MulticodeEncode":
		if x.g.N > 255 {
			return nil
		}
	}
	return x.g
}

func argOf(g *rg.G, rep int) (string, graph.Graph) {
	if rep%5 == 4 {
		return "caller-implemented Graph", newCaller(g)
	}
	return repOf(g, rep%5)
}

func inKey(api string, x *hin) string {
	if api == "PruferEncode" || api == "PruferDecode" {
		return "tree with code " + x.ck
	}
	return x.gk
}

// encodeOp: api(arg) where arg holds the graph of x; nil if not applicable.
func encodeOp(api string, x *hin, argName string, arg graph.Graph) *op {
	g := modelOf(api, x)
	if g == nil {
		return nil
	}
	o := &op{api: api, n: g.N, arg: arg, model: g, desc: api + "(" + argName + " " + inKey(api, x) + ")"}
	switch api {
	case "Graph6Encode":
		o.wantS = codec.Graph6(g)
	case "MulticodeEncode":
		o.wantB = codec.Multicode(g)
	case "PruferEncode":
		o.wantI = x.code
	}
	return o
}

func encodeRep(api string, x *hin, rep int) *op {
	g := modelOf(api, x)
	if g == nil {
		return nil
	}
	name, arg := argOf(g, rep)
	return encodeOp(api, x, name, arg)
}

// decodeOp: the decoder api on the reference encoding of x (more = further records for MulticodeDecodeMultiple).
func decodeOp(api string, x *hin, hdr bool, more ...*hin) *op {
	o := &op{api: api, n: x.g.N, model: x.g}
	switch api {
	case "Graph6Decode":
		o.str = codec.Graph6(x.g)
		if hdr {
			o.str = codec.G6Header + o.str
		}
		o.desc = api + "(" + strKey(o.str) + ")"
	case "Sparse6Decode":
		o.str = codec.Sparse6OfGraph(x.g)
		if hdr {
			o.str = codec.S6Header + o.str
		}
		o.desc = api + "(" + strKey(o.str) + ")"
	case "MulticodeDecode":
		if x.g.N > 255 {
			return nil
		}
		o.byt = codec.Multicode(x.g)
		o.desc = api + "(record of " + x.gk + ")"
	case "MulticodeDecodeMultiple":
		names := ""
		for _, y := range append([]*hin{x}, more...) {
			if y == nil || y.g.N > 255 {
				continue
			}
			o.byt = append(o.byt, codec.Multicode(y.g)...)
			o.models = append(o.models, y.g)
			names += " " + y.gk + ";"
		}
		if len(o.models) == 0 {
			return nil
		}
		o.desc = fmt.Sprintf("%s(%d records:%s)", api, len(o.models), strings.TrimSuffix(names, ";"))
	case "PruferDecode":
		if x.tree == nil {
			return nil
		}
		o.code, o.model, o.edgeOnly = x.code, x.tree, true
		o.desc = api + "(code " + x.ck + ")"
	}
	return o
}

// re runs the re-entrant cases of one unit.
type re struct {
	m   *mon
	dry map[string][numOb]int
	bad map[string]bool
}

func newRe(m *mon) *re { return &re{m: m, dry: map[string][numOb]int{}, bad: map[string]bool{}} }

// counts makes the plain call api(callerGraph of x) - no hooks - judges it and returns how often each observer was
// called.  ok = false: not applicable or wrong already without any nested call (reported here, once).
func (e *re) counts(api string, x *hin) (cnt [numOb]int, ok bool) {
	id := api + "|" + inKey(api, x)
	if e.bad[id] {
		return cnt, false
	}
	if c, have := e.dry[id]; have {
		return c, true
	}
	g := modelOf(api, x)
	if g == nil {
		e.bad[id] = true
		return cnt, false
	}
	m, c := e.m, e.m.c
	u := newCaller(g)
	o := encodeOp(api, x, "caller-implemented Graph", u)
	key := "reentrant|plain|" + o.desc
	c.Eval(1)
	c.Obs("reentrant:plain_calls_on_a_caller-implemented_graph(no nested call)", 1)
	pi := c.Call(key, func() { o.exec(false) })
	det := map[string]interface{}{"call": o.desc, "graph": graphDetail(g, x.label), "note": "the argument is a graph.Graph implemented by the caller (answers from adjacency lists, hands out fresh slices); no nested call is made"}
	if pi != nil {
		m.viol(api, "panic-on-a-caller-implemented-graph|"+engine.SiteNoLine(pi.Site), inKey(api, x), det, pi.String(), "the encoding")
		e.bad[id] = true
		return cnt, false
	}
	if kind, obs, exp := o.verdict(m, key, o.res[0]); kind != "" {
		m.viol(api, "on-a-caller-implemented-graph:"+kind, inKey(api, x), det, obs, exp)
		e.bad[id] = true
		return cnt, false
	}
	e.dry[id] = u.cnt
	return u.cnt, true
}

// moments of an observer that is called cnt times: first, a middle, the last call.
func moments(cnt int) []struct {
	k    int
	name string
} {
	type mk = struct {
		k    int
		name string
	}
	switch {
	case cnt <= 0:
		return nil
	case cnt == 1:
		return []mk{{1, "only_call"}}
	case cnt == 2:
		return []mk{{1, "first_call"}, {2, "last_call"}}
	}
	return []mk{{1, "first_call"}, {(cnt + 1) / 2, "middle_call"}, {cnt, "last_call"}}
}

// busiest returns the observer the function calls most often.
func busiest(cnt [numOb]int) int {
	b := obN
	for k := range cnt {
		if cnt[k] > cnt[b] {
			b = k
		}
	}
	return b
}

const numInnerKinds = 12

// innerOp builds the inner call number kind for the outer call api(u) on x; p and q are the other inputs.  nil = not
// applicable.
func (e *re) innerOp(kind int, api string, u *callerGraph, x, p, q *hin, variant int) *op {
	switch kind {
	case 0, 1, 2, 3: // encode another graph
		return encodeRep(encoderAPIs[kind], p, variant+kind)
	case 4:
		return decodeOp("Graph6Decode", p, variant%2 == 1)
	case 5:
		return decodeOp("Sparse6Decode", p, variant%2 == 0)
	case 6:
		return decodeOp("MulticodeDecode", p, false)
	case 7:
		return decodeOp("MulticodeDecodeMultiple", p, false, x, q)
	case 8:
		return decodeOp("PruferDecode", p, false)
	case 9: // the function that is running, on the graph value whose observer is being asked
		o := encodeOp(api, x, "the same caller-implemented Graph", u)
		if o != nil {
			o.self = true
		}
		return o
	case 10, 11: // an inner call whose own argument makes a further inner call
		mid, deep := api, api
		if kind == 11 {
			mid = encoderAPIs[(indexOf(encoderAPIs, api)+1+variant%3)%4]
		}
		cnt, ok := e.counts(mid, p)
		if !ok || q == nil {
			return nil
		}
		inner := encodeRep(deep, q, variant)
		if inner == nil {
			return nil
		}
		ob := busiest(cnt)
		pu := newCaller(modelOf(mid, p))
		pu.hooks = []*hook{{kind: ob, k: (cnt[ob] + 1) / 2, of: cnt[ob], moment: "middle_call", op: inner}}
		return encodeOp(mid, p, "caller-implemented Graph whose "+obName[ob]+" calls "+inner.desc+":", pu)
	}
	return nil
}

func indexOf(l []string, s string) int {
	for i, x := range l {
		if x == s {
			return i
		}
	}
	return 0
}

// run makes the outer call api(u) with the hooks installed and judges the outer and all inner results.
func (e *re) run(api string, x *hin, u *callerGraph, hooks []*hook, prelude []*op, label string) {
	m, c := e.m, e.m.c
	if len(hooks) == 0 {
		return
	}
	g := modelOf(api, x)
	u.hooks = hooks
	outer := encodeOp(api, x, "caller-implemented Graph", u)
	var hd []string
	for _, h := range hooks {
		hd = append(hd, h.String())
	}
	witness := inKey(api, x) + "; " + strings.Join(hd, "; ")
	if len(witness) > 300 {
		witness = fmt.Sprintf("%s...(fnv=%08x)", witness[:220], hash32(witness))
	}
	var pd []string
	for i, p := range prelude {
		pd = append(pd, p.desc)
		c.Call(fmt.Sprintf("reentrant|earlier-call-%d|%s", i, p.desc), func() { p.exec(false) })
	}
	if len(prelude) > 0 {
		c.Obs("reentrant:cases_with_earlier_plain_calls_on_other_sizes", 1)
	}
	key := "reentrant|" + api + "|" + witness
	det := map[string]interface{}{"workload": label, "outer_call": outer.desc, "graph": graphDetail(g, x.label),
		"calls_made_by_the_observers_of_the_argument": hd, "earlier_calls": pd,
		"note": "the argument is a graph.Graph implemented by the caller; while the outer call is running its observers make the listed library calls (nested, one goroutine); without them the same call returns the expected value"}
	c.Eval(1)
	pi := c.Call(key, func() { outer.exec(false) })
	u.hooks = nil
	if pi != nil {
		m.viol(api, "nested-calls:outer-call-panics|"+engine.SiteNoLine(pi.Site), witness, det, pi.String(), "the encoding of the argument")
		return
	}
	c.Obs("reentrant:"+api+":outer_calls_during_which_an_observer_called_the_library", 1)
	if kind, obs, exp := outer.verdict(m, key, outer.res[0]); kind != "" {
		m.viol(api, "nested-calls:outer-result:"+kind, witness, det, obs, exp+" (what the same call returns when the observers make no call)")
		return
	}
	if g.N >= 3 && g.M() >= 1 {
		c.NT("reentrant", api, g.Key(), strings.Join(hd, ";"))
	}
	e.judgeHooks(api, g.N, hooks, 1, key, witness, det)
}

// judgeHooks judges every result of the inner calls (and of the calls made inside them).
func (e *re) judgeHooks(outerAPI string, outerN int, hooks []*hook, depth int, key, witness string, det map[string]interface{}) {
	m, c := e.m, e.m.c
	for hi, h := range hooks {
		if h.fired == 0 {
			c.Obs("reentrant:moment_not_reached(recorded)", 1)
			continue
		}
		c.Obs("reentrant:inner_call_made_from:"+obName[h.kind], h.fired)
		c.Obs("reentrant:moment="+h.moment, 1)
		c.Obs("reentrant:inner:"+h.op.api, h.fired)
		c.Obs(fmt.Sprintf("reentrant:nesting_depth=%d", depth), h.fired)
		switch {
		case h.op.self:
			c.Obs("reentrant:inner_call_of_the_running_function_on_the_same_graph_value", h.fired)
		case h.op.api == outerAPI:
			c.Obs("reentrant:inner_call_of_the_running_function_on_another_graph", h.fired)
		}
		switch {
		case h.op.n == outerN:
			c.Obs("reentrant:inner_input_of_the_same_size", h.fired)
		case h.op.n < outerN:
			c.Obs("reentrant:inner_input_smaller", h.fired)
		default:
			c.Obs("reentrant:inner_input_larger", h.fired)
		}
		for ri, r := range h.op.res {
			if r.judgedAlready {
				continue
			}
			r.judgedAlready = true
			c.Eval(1)
			c.Obs("reentrant:inner_results_judged", 1)
			kind, obs, exp := h.op.verdict(m, fmt.Sprintf("%s|inner-%d-%d-%d", key, depth, hi, ri), r)
			if kind != "" {
				d := map[string]interface{}{}
				for k, v := range det {
					d[k] = v
				}
				d["wrong_inner_call"] = h.String()
				d["execution_of_that_inner_call"] = ri + 1
				m.viol(h.op.api, "nested-calls:inner-result:"+kind, "made during "+outerAPI+" of "+witness, d, obs, exp)
				return
			}
		}
		if pu, ok := h.op.arg.(*callerGraph); ok && !h.op.self && len(pu.hooks) > 0 {
			e.judgeHooks(h.op.api, h.op.n, pu.hooks, depth+1, key, witness, det)
		}
	}
}

// s6UsedBits: length in bits of the pair stream of the reference sparse6 string (before padding).
func s6UsedBits(g *rg.G) int {
	k := codec.BitsFor(g.N)
	used, cur := 0, 0
	for _, e := range g.Edges() {
		if e[1] > cur+1 {
			used += 1 + k
		}
		cur = e[1]
		used += 1 + k
	}
	return used
}

// paddingRuleGraph returns a graph on n = 4, 8 or 16 vertices whose sparse6 stream leaves room for a whole pair in the
// last byte (the case in which the writer has to look at the degrees), last vertex isolated, last-but-one not.
func paddingRuleGraph(n, salt int) *rg.G {
	k := codec.BitsFor(n)
	for t := 0; t < 4000; t++ {
		g := genRandom(fixedRng(salt*7919+t), n-1, 0.45)
		if n >= 3 && g.Deg(n-2) == 0 {
			g.Add(n-2, t%(n-2))
		}
		g = g.AddVertex(nil)
		if pos := s6UsedBits(g) % 6; pos != 0 && 6-pos >= k+1 {
			return g
		}
	}
	return nil
}

// partner returns another input for the inner calls: class 0 the same size, 1 smaller, 2 larger.
func partner(r floater, x *hin, class, salt int) *hin {
	n := x.g.N
	switch class {
	case 1:
		n -= 1 + salt%3
		if n < 0 {
			n = 0
		}
	case 2:
		n += 1 + salt%4
	}
	p := []float64{0.5, 0.3, 0.7}[salt%3]
	return newHin(genRandom(r, n, p), fmt.Sprintf("partner (%s) #%d", []string{"same size", "smaller", "larger"}[class], salt))
}

// preludeOps: plain calls of all the functions on an input of another size, made before the nested calls (state a
// function keeps from earlier calls depends on the sizes it has seen).
func preludeOps(y *hin, variant int) []*op {
	var out []*op
	for i, api := range encoderAPIs {
		if o := encodeRep(api, y, variant+i); o != nil {
			out = append(out, o)
		}
	}
	for _, api := range []string{"Graph6Decode", "Sparse6Decode", "MulticodeDecode", "PruferDecode"} {
		if o := decodeOp(api, y, variant%2 == 0); o != nil {
			out = append(out, o)
		}
	}
	return out
}

func reentrantPool() []*hin {
	type e = [2]int
	list := []struct {
		name string
		g    *rg.G
	}{
		{"triangle + isolated vertex, n=4", edgesOf(4, e{0, 1}, e{0, 2}, e{1, 2})},
		{"house n=5", edgesOf(5, e{0, 1}, e{1, 2}, e{2, 3}, e{0, 3}, e{0, 4}, e{1, 4})},
		{"seeded-free p=0.5 n=7", genRandom(fixedRng(71), 7, 0.5)},
		{"padding-rule graph n=8", paddingRuleGraph(8, 1)},
		{"seeded-free p=0.5 n=11", genRandom(fixedRng(111), 11, 0.5)},
		{"seeded-free tree n=13", genTree(fixedRng(131), 13)},
		{"padding-rule graph n=16", paddingRuleGraph(16, 2)},
		{"seeded-free p=0.4 n=20", genRandom(fixedRng(201), 20, 0.4)},
	}
	var out []*hin
	for _, x := range list {
		if x.g != nil {
			out = append(out, newHin(x.g, x.name))
		}
	}
	return out
}

func reentrantUnits(c *engine.Ctx) {
	// (a) systematic: every encoder x every observer it uses x first / middle / last call x every kind of inner call
	// x partner of the same size / smaller / larger, on a fixed pool
	for _, api := range encoderAPIs {
		api := api
		unit(c, "reentrant/systematic/"+api, func(m *mon) {
			e := newRe(m)
			cases := 0
			for xi, x := range reentrantPool() {
				cnt, ok := e.counts(api, x)
				if !ok {
					continue
				}
				for class := 0; class < 3; class++ {
					p := partner(fixedRng(xi*31+class*7+1), x, class, xi+class)
					q := partner(fixedRng(xi*31+class*7+2), x, (class+1)%3, xi+class+1)
					for ob := 0; ob < numOb; ob++ {
						for _, mo := range moments(cnt[ob]) {
							for kind := 0; kind < numInnerKinds; kind++ {
								if c.Stopped() {
									return
								}
								u := newCaller(modelOf(api, x))
								o := e.innerOp(kind, api, u, x, p, q, xi+class+ob+mo.k)
								if o == nil {
									continue
								}
								var pre []*op
								if (xi+class+ob+mo.k+kind)%8 == 0 { // now and then: earlier calls on a larger / smaller input
									pre = preludeOps(partner(fixedRng(kind+3), x, 1+(kind+mo.k)%2, kind), kind)
								}
								e.run(api, x, u, []*hook{{kind: ob, k: mo.k, of: cnt[ob], moment: mo.name, op: o}}, pre, "systematic: one inner call at the first / a middle / the last call of one observer")
								cases++
							}
						}
					}
				}
				// every call of the observer makes the inner call (small graphs)
				if x.g.N <= 8 {
					p := partner(fixedRng(xi*31+5), x, 0, xi)
					q := partner(fixedRng(xi*31+6), x, 1, xi)
					for ob := 0; ob < numOb; ob++ {
						if cnt[ob] < 2 {
							continue
						}
						for kind := 0; kind < numInnerKinds; kind++ {
							u := newCaller(modelOf(api, x))
							o := e.innerOp(kind, api, u, x, p, q, xi+ob)
							if o == nil {
								continue
							}
							e.run(api, x, u, []*hook{{kind: ob, k: 0, of: cnt[ob], moment: "every_call", op: o}}, nil, "systematic: every call of one observer makes the inner call")
							cases++
						}
					}
				}
			}
			c.Obs("reentrant:systematic_cases", cases)
			c.Obs("exhaustive:"+api+" on 8 caller-implemented graphs (n = 4..20): every observer it calls x first / middle / last call x 12 kinds of inner call x inner input of the same size / smaller / larger", 1)
			if api == "Graph6Encode" {
				c.Sample("reentrant", map[string]interface{}{"outer": "Graph6Encode(caller-implemented Graph, seeded-free p=0.5 n=11)", "inner": "made from the 28th of 55 IsEdge calls: Graph6Encode(DenseGraph, partner of the same size)", "judged": "outer string and inner string against the reference codec"})
			}
		})
	}

	// (b) thorough: every position of every observer on the small graphs of the pool
	if c.Thorough() {
		for _, api := range encoderAPIs {
			api := api
			unit(c, "reentrant/every-position/"+api, func(m *mon) {
				e := newRe(m)
				for xi, x := range reentrantPool() {
					cnt, ok := e.counts(api, x)
					if !ok || x.g.N > 11 {
						continue
					}
					p := partner(fixedRng(xi*17+1), x, 0, xi)
					q := partner(fixedRng(xi*17+2), x, 1, xi)
					for ob := 0; ob < numOb; ob++ {
						for k := 1; k <= cnt[ob]; k++ {
							for _, kind := range []int{indexOf(encoderAPIs, api), (indexOf(encoderAPIs, api) + 1) % 4, 4 + k%5, 9, 10} {
								if c.Stopped() {
									return
								}
								u := newCaller(modelOf(api, x))
								o := e.innerOp(kind, api, u, x, p, q, k)
								if o == nil {
									continue
								}
								e.run(api, x, u, []*hook{{kind: ob, k: k, of: cnt[ob], moment: "every_position_in_turn", op: o}}, nil, "every position of every observer in turn")
							}
						}
					}
				}
				c.Obs("exhaustive:"+api+": an inner call at every single observer call in turn, pool graphs with n <= 11", 1)
			})
		}
	}

	// (c) seeded: sizes up to the 4-byte size header, 1..3 inner calls at seeded positions of seeded observers,
	// seeded earlier calls
	ns := c.Pick(480, 9600)
	per := 40
	for un := 0; un*per < ns; un++ {
		un := un
		unit(c, fmt.Sprintf("reentrant/seeded/%d", un), func(m *mon) {
			e := newRe(m)
			for i := un * per; i < (un+1)*per && i < ns; i++ {
				if c.Stopped() {
					return
				}
				r := c.Rand("reentrant", i)
				var n int
				switch r.Intn(10) {
				case 0:
					n = r.Intn(5)
				case 1:
					n = []int{4, 8, 16, 32}[r.Intn(4)]
				case 2:
					n = 60 + r.Intn(11) // both sides of the 62/63 size header boundary
				case 3:
					if c.Thorough() {
						n = 100 + r.Intn(60)
					} else {
						n = 41 + r.Intn(20)
					}
				default:
					n = 5 + r.Intn(36)
				}
				var g *rg.G
				switch r.Intn(4) {
				case 0:
					g = genTree(r, n)
				case 1:
					g = genRandom(r, n, 2.0/float64(n+1))
				case 2:
					g = genRandom(r, n, 0.5)
					if n >= 3 && r.Bool(0.5) { // last vertex isolated, last-but-one not: the padding rule of sparse6
						for v := 0; v < n; v++ {
							g.Del(n-1, v)
						}
						g.Add(n-2, r.Intn(n-2))
					}
				default:
					g = genRandom(r, n, r.Float())
				}
				x := newHin(g, fmt.Sprintf("seeded #%d", i))
				api := encoderAPIs[(i+r.Intn(2)*2)%4]
				cnt, ok := e.counts(api, x)
				if !ok {
					continue
				}
				u := newCaller(modelOf(api, x))
				var used []int
				for ob := 0; ob < numOb; ob++ {
					if cnt[ob] > 0 {
						used = append(used, ob)
					}
				}
				var hooks []*hook
				for k := 1 + r.Intn(3); k > 0 && len(used) > 0; k-- {
					ob := used[r.Intn(len(used))]
					if cnt[busiest(cnt)] > 1 && r.Bool(0.6) {
						ob = busiest(cnt)
					}
					pos, moment := 1+r.Intn(cnt[ob]), "seeded_position"
					if ms := moments(cnt[ob]); r.Bool(0.3) {
						mo := ms[r.Intn(len(ms))]
						pos, moment = mo.k, mo.name
					}
					dup := false
					for _, h := range hooks {
						dup = dup || (h.kind == ob && h.k == pos)
					}
					if dup {
						continue
					}
					class := []int{0, 0, 1, 2}[r.Intn(4)]
					p := partner(r, x, class, r.Intn(12))
					q := partner(r, x, r.Intn(3), r.Intn(12))
					kind := r.Intn(numInnerKinds)
					if r.Bool(0.25) {
						kind = indexOf(encoderAPIs, api) // the running function on another graph
					}
					if o := e.innerOp(kind, api, u, x, p, q, r.Intn(10)); o != nil {
						hooks = append(hooks, &hook{kind: ob, k: pos, of: cnt[ob], moment: moment, op: o})
					}
				}
				var pre []*op
				if r.Bool(0.3) {
					pre = preludeOps(partner(r, x, 1+r.Intn(2), r.Intn(12)), r.Intn(10))
				}
				if len(hooks) > 1 {
					c.Obs("reentrant:outer_calls_with_several_inner_calls_at_different_moments", 1)
				}
				e.run(api, x, u, hooks, pre, fmt.Sprintf("seeded #%d", i))
			}
		})
	}
}

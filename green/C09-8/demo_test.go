// Demo for C09 change 8: ChromaticPolynomial edits the intermediate graphs of its deletion-contraction recursion in
// place (they are its own copies) instead of copying every one of them twice; only the caller's graph is still
// copied before the edge is deleted.
//
// Run (from the root of the library worktree, offline):
//
//	export GOFLAGS=-mod=mod GOPROXY=off GOSUMDB=off GOTOOLCHAIN=local
//	mkdir -p greendemo && cp /tmp/green-out/C09/8/demo_test.go greendemo/demo_test.go
//	go test -vet=off -count=1 -timeout 600s -v ./greendemo
//	rm -r greendemo
//
// TestIncidentalCopiesOfIntermediateGraphs hands ChromaticPolynomial a graph.EditableGraph implemented in this file
// (a thin wrapper around a library graph whose Copy() hands out wrappers of the same kind) and asserts what the OLD
// implementation does with the copies it obtains: two Copy() calls for every RemoveEdge() call, and no object is ever
// edited after it has been copied (every copy is edited by one kind of operation and RemoveEdge at most once).  It
// PASSES on the clean tree and FAILS with the change (one Copy() per RemoveEdge() plus one; the library's own copies
// receive RemoveEdge after having been copied, some of them several times).
// TestPropertyChromaticPolynomial checks what C09 demands of ChromaticPolynomial: the polynomial evaluates at every
// k = 0..n+1 to the number of proper k-colourings (brute force), for the dense, sparse and caller-implemented
// representations and for relabellings, including n = 0, 1 and disconnected graphs; in addition the argument is
// never edited (not even the caller-implemented one, which records every attempt) and the same argument object
// gives the same answer when it is used again.  It PASSES on both trees.
package greendemo

import (
	"fmt"
	"math/rand"
	"testing"

	"github.com/Tom-Johnston/mamba/graph"
	"github.com/Tom-Johnston/mamba/sortints"
)

// stats is shared by a caller's graph and everything copied from it.
type stats struct {
	copies, removeEdge, removeVertex, addEdge, addVertex int
	editsOfOriginal                                      int
	editedAfterCopied                                    int
	maxRemoveEdgePerObject                               int
}

// tracked is a caller-implemented EditableGraph: a wrapper around a library graph that records how it is used.
type tracked struct {
	graph.EditableGraph
	st          *stats
	original    bool
	copied      bool
	removeEdges int
}

func (t *tracked) edit() {
	if t.original {
		t.st.editsOfOriginal++
	}
	if t.copied {
		t.st.editedAfterCopied++
	}
}
func (t *tracked) Copy() graph.EditableGraph {
	t.st.copies++
	t.copied = true
	return &tracked{EditableGraph: t.EditableGraph.Copy(), st: t.st}
}
func (t *tracked) InducedSubgraph(V []int) graph.EditableGraph {
	return &tracked{EditableGraph: t.EditableGraph.InducedSubgraph(V), st: t.st}
}
func (t *tracked) RemoveEdge(i, j int) {
	t.edit()
	t.st.removeEdge++
	t.removeEdges++
	if t.removeEdges > t.st.maxRemoveEdgePerObject {
		t.st.maxRemoveEdgePerObject = t.removeEdges
	}
	t.EditableGraph.RemoveEdge(i, j)
}
func (t *tracked) AddEdge(i, j int) {
	t.edit()
	t.st.addEdge++
	t.EditableGraph.AddEdge(i, j)
}
func (t *tracked) RemoveVertex(v int) {
	t.edit()
	t.st.removeVertex++
	t.EditableGraph.RemoveVertex(v)
}
func (t *tracked) AddVertex(nb []int) {
	t.edit()
	t.st.addVertex++
	t.EditableGraph.AddVertex(nb)
}

func newTracked(g graph.EditableGraph) *tracked {
	return &tracked{EditableGraph: g.Copy(), st: &stats{}, original: true}
}

func TestIncidentalCopiesOfIntermediateGraphs(t *testing.T) {
	for _, tc := range []struct {
		name string
		g    graph.EditableGraph
	}{
		{"K3", graph.CompleteGraph(3)},
		{"Path(5)", graph.Path(5)},
		{"Cycle(6)", graph.Cycle(6)},
		{"K_{3,3}", graph.CompletePartiteGraph(3, 3)},
		{"Petersen", graph.KneserGraph(5, 2)},
	} {
		tg := newTracked(tc.g)
		poly := graph.ChromaticPolynomial(tg)
		st := tg.st
		t.Logf("%s: polynomial %v; Copy %d, RemoveEdge %d, RemoveVertex %d, AddEdge %d; edits of an object that had been copied: %d; most RemoveEdge calls on one object: %d; edits of the caller's graph: %d",
			tc.name, poly, st.copies, st.removeEdge, st.removeVertex, st.addEdge, st.editedAfterCopied, st.maxRemoveEdgePerObject, st.editsOfOriginal)
		if st.copies != 2*st.removeEdge {
			t.Errorf("%s: %d Copy calls for %d RemoveEdge calls (old behaviour: exactly two copies per deleted edge)", tc.name, st.copies, st.removeEdge)
		}
		if st.editedAfterCopied != 0 || st.maxRemoveEdgePerObject != 1 {
			t.Errorf("%s: intermediate graphs are edited in place: %d edits of objects that had been copied, up to %d RemoveEdge calls on one object (old behaviour: 0 and 1)", tc.name, st.editedAfterCopied, st.maxRemoveEdgePerObject)
		}
	}
}

func countColourings(g graph.Graph, k int) int {
	n := g.N()
	col := make([]int, n)
	var rec func(v int) int
	rec = func(v int) int {
		if v == n {
			return 1
		}
		total := 0
		for c := 0; c < k; c++ {
			ok := true
			for u := 0; u < v; u++ {
				if col[u] == c && g.IsEdge(u, v) {
					ok = false
					break
				}
			}
			if ok {
				col[v] = c
				total += rec(v + 1)
			}
		}
		return total
	}
	return rec(0)
}

func eval(poly []int, k int) int {
	r := 0
	for i := len(poly) - 1; i >= 0; i-- {
		r = r*k + poly[i]
	}
	return r
}

func edgeString(g graph.Graph) string {
	n := g.N()
	b := make([]byte, 0, n*n/2)
	for i := 1; i < n; i++ {
		for j := 0; j < i; j++ {
			if g.IsEdge(i, j) {
				b = append(b, '1')
			} else {
				b = append(b, '0')
			}
		}
	}
	return fmt.Sprint(n, " ", g.M(), " ", string(b), " ", g.Degrees())
}

func toSparse(g graph.Graph) *graph.SparseGraph {
	n := g.N()
	nb := make([]sortints.SortedInts, n)
	for v := 0; v < n; v++ {
		nb[v] = append([]int{}, g.Neighbours(v)...)
	}
	return graph.NewSparse(n, nb)
}

func relabel(g graph.Graph, perm []int) *graph.DenseGraph {
	n := g.N()
	h := graph.NewDense(n, nil)
	for i := 0; i < n; i++ {
		for j := 0; j < i; j++ {
			if g.IsEdge(i, j) {
				h.AddEdge(perm[i], perm[j])
			}
		}
	}
	return h
}

func TestPropertyChromaticPolynomial(t *testing.T) {
	rng := rand.New(rand.NewSource(8))
	pool := []*graph.DenseGraph{
		graph.NewDense(0, nil), graph.NewDense(1, nil), graph.NewDense(2, nil), graph.NewDense(4, nil),
		graph.CompleteGraph(2), graph.CompleteGraph(5), graph.Path(6), graph.Cycle(7), graph.Star(6),
		graph.FriendshipGraph(3), graph.CompletePartiteGraph(2, 2, 2), graph.CompletePartiteGraph(3, 3),
	}
	d := graph.NewDense(7, nil) // disconnected: two triangles and an isolated vertex
	for _, e := range [][2]int{{0, 1}, {1, 2}, {0, 2}, {3, 4}, {4, 5}, {3, 5}} {
		d.AddEdge(e[0], e[1])
	}
	pool = append(pool, d)
	for i := 0; i < 60; i++ {
		pool = append(pool, graph.RandomGraph(rng.Intn(8), rng.Float64(), rng.Int63()))
	}
	checked := 0
	for gi, g0 := range pool {
		n := g0.N()
		want := make([]int, n+2)
		for k := range want {
			want[k] = countColourings(g0, k)
		}
		rel := relabel(g0, rng.Perm(n))
		tr := newTracked(toSparse(rel))
		reps := map[string]graph.EditableGraph{
			"dense":      g0,
			"relabelled": rel,
			"sparse":     toSparse(g0),
			"caller":     newTracked(g0),
			"caller2":    tr,
		}
		for name, g := range reps {
			before := edgeString(g)
			var first []int
			for round := 0; round < 2; round++ { // the same argument object is used twice
				poly := graph.ChromaticPolynomial(g)
				if len(poly) != n+1 {
					t.Fatalf("graph %d (%s): %d coefficients for n = %d", gi, name, len(poly), n)
				}
				for k, w := range want {
					if got := eval(poly, k); got != w {
						t.Fatalf("graph %d (%s, n=%d) round %d: P(%d) = %d, but there are %d proper %d-colourings; poly %v", gi, name, n, round, k, got, w, k, poly)
					}
				}
				if round == 0 {
					first = poly
				} else if fmt.Sprint(first) != fmt.Sprint(poly) {
					t.Fatalf("graph %d (%s): second call gives %v, first gave %v", gi, name, poly, first)
				}
				if after := edgeString(g); after != before {
					t.Fatalf("graph %d (%s): the argument was changed: %s -> %s", gi, name, before, after)
				}
				checked++
			}
			if tg, ok := g.(*tracked); ok && tg.st.editsOfOriginal != 0 {
				t.Fatalf("graph %d (%s): %d editing calls on the caller's graph", gi, name, tg.st.editsOfOriginal)
			}
		}
	}
	t.Logf("%d calls agree with the number of proper k-colourings for k = 0..n+1; no argument was edited", checked)
}

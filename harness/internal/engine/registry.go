// Package engine is the common runtime-monitoring machinery: case scheduling
// over child processes, journals, CPU watchdog, verdicts, evidence and known
// findings.  See /verif/DESIGN.md section 2.
package engine

import (
	"fmt"
	"sort"
)

// Property describes one monitored property.
type Property struct {
	ID          string
	Level       string   // "exploration" | "fault_enumeration"
	Rule        string   // how cases are generated and what makes one non-trivial / distinct
	Assumptions []string // trust base
	// Run enumerates all units of the workload (in a deterministic order) and
	// executes the ones that belong to this child.  It runs in every child.
	Run func(c *Ctx)
	// Finish, if set, runs once in the supervisor after all children have
	// finished, over the merged observations and the event streams emitted by
	// the children (offline checkers).
	Finish func(s *Super)
	// Floors below which a run is INCONCLUSIVE ("observed nothing").
	MinEvaluations map[string]int // per tier
	MinNontrivial  map[string]int // per tier
	// RequiredObs lists observation counters that must be > 0 at the end of a
	// run; a counter at zero means the monitor never saw the mechanism it is
	// there for and the run is INCONCLUSIVE.
	RequiredObs []string
	// Race: the child must be the -race build (C19).
	Race bool
	// UnitPerProcess: every unit runs in a fresh child process (cold package-level
	// state, cold caches inside shared values); MaxJobs caps the number of
	// concurrent children (0 = VERIF_JOBS).
	UnitPerProcess bool
	MaxJobs        int
	// CoverFiles are the library files (suffixes such as "graph/canonical.go")
	// whose per-function statement coverage, measured by the compiler's
	// coverage counters during this very run, is written to the evidence.
	CoverFiles []string
	// Mechanisms are "file.go:func" entries that must have been executed
	// (coverage > 0); otherwise the run is INCONCLUSIVE ("hook never reached").
	Mechanisms []string
}

// SetMechanisms attaches the observation table of a property (called from
// init functions after Register).
func SetMechanisms(id string, files, required []string) {
	if p, ok := registry[id]; ok {
		p.CoverFiles = files
		p.Mechanisms = required
	} else {
		pendingMech[id] = [2][]string{files, required}
	}
}

var pendingMech = map[string][2][]string{}

var registry = map[string]*Property{}

// Register adds a property to the registry (called from init functions).
func Register(p *Property) {
	if _, dup := registry[p.ID]; dup {
		panic("duplicate property " + p.ID)
	}
	registry[p.ID] = p
	if m, ok := pendingMech[p.ID]; ok {
		p.CoverFiles, p.Mechanisms = m[0], m[1]
	}
}

// Lookup returns the registered property or an error.
func Lookup(id string) (*Property, error) {
	p, ok := registry[id]
	if !ok {
		return nil, fmt.Errorf("unknown property %q (known: %v)", id, IDs())
	}
	return p, nil
}

// IDs lists registered property ids in order.
func IDs() []string {
	var r []string
	for k := range registry {
		r = append(r, k)
	}
	sort.Strings(r)
	return r
}

// Helpers are small programs of a monitor that have to run in a process of their own (for example "load this
// checkpoint in a process that has never saved anything"): `vrun helper <name> args...`.  They are started by the
// monitor with HelperCommand and talk through their arguments, stdout and exit code.
var helpers = map[string]func(args []string) int{}

// RegisterHelper registers a helper program (called from init functions).
func RegisterHelper(name string, f func(args []string) int) { helpers[name] = f }

// RunHelper runs a registered helper; ok is false if there is none of that name.
func RunHelper(name string, args []string) (code int, ok bool) {
	f, ok := helpers[name]
	if !ok {
		return 2, false
	}
	return f(args), true
}

package c20

import (
	"math"
	"strings"
)

// ---- weight function families ------------------------------------------
//
// Every family is a pure function of (name, n, rs) so that the strace helper
// process can rebuild exactly the weights of its parent.  All of them except
// zero/const are asymmetric in definition (w(i,j) != w(j,i)): only j < i may
// be asked for.

var fixedFamilies = []string{"neg", "large", "asym", "zero", "const", "stair"}

const randFamily = "rand"

var largeTable = []int64{
	math.MaxInt64, math.MinInt64, math.MaxInt64 - 1, math.MinInt64 + 1, 1 << 62, -(1 << 62),
	0, 1, -1, 999999999999999999, -1000000000000000000, 4294967296, -2147483649,
}

var pow10 = func() []int64 {
	p := make([]int64, 19)
	p[0] = 1
	for i := 1; i < 19; i++ {
		p[i] = p[i-1] * 10
	}
	return p
}()

func mix(x uint64) uint64 {
	x += 0x9E3779B97F4A7C15
	x = (x ^ (x >> 30)) * 0xBF58476D1CE4E5B9
	x = (x ^ (x >> 27)) * 0x94D049BB133111EB
	return x ^ (x >> 31)
}

// weightValue is the definition of the families (total on all i, j).
func weightValue(fam string, n int, rs uint64, i, j int) int64 {
	switch fam {
	case "neg":
		return -int64(1 + i*(n+1) + j)
	case "large":
		return largeTable[(i*3+j*7)%len(largeTable)]
	case "asym":
		return int64(i*1000 + j + 1)
	case "zero":
		return 0
	case "small":
		// one digit, asymmetric: short rows for the large instances
		return int64((i*7 + j*13) % 10)
	case "const":
		return 7
	case "short":
		// the weights of a distance matrix: 1..3 digits, some of them negative
		// (1..4 characters); the large instances of volume.go
		v := int64((i*7919 + j*104729) % 1000)
		if (i+2*j)%5 == 0 {
			v = -v
		}
		return v
	case "huge":
		// 19 digits, 20 characters when negative: MaxInt64 / MinInt64 themselves
		// now and then, otherwise a little inside them
		d := int64((i*4099 + j) % 1000003)
		if d%1009 == 0 {
			d = 0
		}
		if (i+j)%2 == 0 {
			return math.MaxInt64 - d
		}
		return math.MinInt64 + d
	case "stair":
		// the width differs inside every column and between columns
		d := pow10[((i-j)%19+19)%19]
		if (i+j)%3 == 0 {
			return -d
		}
		return d
	case randFamily:
		h := mix(rs ^ mix(uint64(i)*0x100000001B3^uint64(j)<<32))
		var v int64
		switch h % 8 {
		case 0:
			v = int64(mix(h)) // full range
		case 1:
			v = int64(mix(h) % 10)
		default:
			v = int64(mix(h) % uint64(pow10[1+int((h>>8)%18)]))
		}
		if (h>>40)&1 == 1 && v != math.MinInt64 {
			v = -v
		}
		return v
	}
	panic("unknown weight family " + fam)
}

// ---- recording / fault-injecting writer ---------------------------------

// The fault modes (faultSpec, mode lists, error values) are in faultspec.go.

// recWriter is an io.Writer that keeps every accepted byte, the size of every
// Write call, and injects one fault.
type recWriter struct {
	data  []byte
	sizes []int
	pos   int    // position (index of the Write call) of the fault; -1 none
	mode  string // fault mode
	fired bool
	// state at the moment the fault fired
	firedLen    int // len(p) of the faulted write
	firedOff    int // bytes accepted before it
	shortN      int // bytes accepted from the faulted write
	writesAfter int // Write calls after the (first) faulted one
	// used when the writer is a device below another writer (writers.go)
	afterReturn      bool // set by the harness once LIB has returned (caller's Flush / Close follow)
	firedAfterReturn bool // the fault fired in a write made after LIB returned
	failedCalls      int  // calls that returned a non-nil error
	viaString        int  // calls that arrived through WriteString
	viaReadFrom      int  // calls that arrived through ReadFrom
	// what the faulted call returned
	firedRet int
	firedErr string
	spec     *faultSpec
	specMode string
}

func (w *recWriter) Write(p []byte) (int, error) {
	idx := len(w.sizes)
	w.sizes = append(w.sizes, len(p))
	if w.fired {
		w.writesAfter++
	}
	if w.mode != modeNone && idx >= w.pos {
		if w.spec == nil || w.specMode != w.mode {
			sp, ok := specOf(w.mode)
			if !ok {
				panic("c20: unknown fault mode " + w.mode)
			}
			w.spec, w.specMode = &sp, w.mode
		}
		if w.spec.active(w.pos, idx) {
			ret, take, err, deviates := w.spec.result(len(p))
			if idx == w.pos {
				if !deviates {
					// nil error and count == len(p) (a zero-length write cannot be short): not a fault
					w.data = append(w.data, p...)
					return len(p), nil
				}
				w.fired = true
				w.firedLen = len(p)
				w.firedOff = len(w.data)
				w.firedAfterReturn = w.afterReturn
				w.shortN = take
				w.firedRet = ret
				w.firedErr = errText(err)
			}
			w.data = append(w.data, p[:take]...)
			if err != nil {
				w.failedCalls++
			}
			return ret, err
		}
	}
	w.data = append(w.data, p...)
	return len(p), nil
}

// sectionOf classifies write number p of a fault-free run by the byte range it
// covers: sizes are the Write sizes of that run, ws the offset at which the
// weight section begins, es the offset of the EOF line.
func sectionOf(sizes []int, ws, es, p int) string {
	off := 0
	for k := 0; k < p; k++ {
		off += sizes[k]
	}
	return sectionAt(off, sizes[p], ws, es)
}

// sectionAt classifies a write of l bytes at byte offset off of the document by
// the parts of the document it covers (ws = first byte of the weight section,
// es = first byte of the EOF line): "header", "weights", "trailer", or several
// joined by "+" when one write spans a boundary (a library that buffers
// internally may make a single write of the whole document).  A zero-length
// write belongs to the part in which it falls.
func sectionAt(off, l, ws, es int) string {
	if l == 0 {
		switch {
		case off < ws:
			return "header"
		case off <= es:
			return "weights" // zero-length write between the header and EOF (the flush)
		}
		return "trailer"
	}
	end := off + l
	r := ""
	add := func(s string) {
		if r != "" {
			r += "+"
		}
		r += s
	}
	if off < ws {
		add("header")
	}
	if (off < es && end > ws) || (ws == es && off < ws && end > ws) {
		add("weights")
	}
	if end > es {
		add("trailer")
	}
	return r
}

// coversWeights: the non-triviality rule of the fault planes.
func coversWeights(sect string) bool { return strings.Contains(sect, "weights") }

// obsCovered counts the parts of the document covered by an injected write.
func obsCovered(obs func(string, int), prefix, sect string) {
	for _, part := range strings.Split(sect, "+") {
		obs(prefix+part, 1)
	}
}

// locationOf names the place of write p for violation keys: the section, and
// for header writes the keyword of the header line in which the write begins.
// header = the bytes of the fault-free output before the weight section.
func locationOf(sizes []int, ws, es int, header string, p int) string {
	off := 0
	for k := 0; k < p; k++ {
		off += sizes[k]
	}
	return locationAt(off, sizes[p], ws, es, header)
}

func locationAt(off, l, ws, es int, header string) string {
	sect := sectionAt(off, l, ws, es)
	if sect != "header" {
		return sect
	}
	if off > len(header) {
		return sect
	}
	ls := off
	for ls > 0 && header[ls-1] != '\n' {
		ls--
	}
	le := ls
	for le < len(header) && header[le] != '\n' && header[le] != ':' {
		le++
	}
	return sect + ":" + header[ls:le]
}

// writeKind describes the bytes of one write of the weight section.
func writeKind(b []byte) string {
	if len(b) == 0 {
		return "empty"
	}
	sp, nl, dg := 0, 0, 0
	for _, c := range b {
		switch {
		case c == ' ' || c == '\t':
			sp++
		case c == '\n':
			nl++
		default:
			dg++
		}
	}
	switch {
	case sp == len(b):
		return "padding"
	case nl == len(b):
		return "newline"
	case dg == len(b):
		return "number"
	}
	return "mixed"
}

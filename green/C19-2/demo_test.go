// C19 harmless change 2: graph.Eccentricity (and so Diameter and Radius) divides its n independent breadth first searches
// between up to GOMAXPROCS worker goroutines which are all joined before it returns.
//
// Run (from the root of the library worktree):
//
//	export GOFLAGS=-mod=mod GOPROXY=off GOSUMDB=off GOTOOLCHAIN=local
//	cp /tmp/green-out/C19/2/demo_test.go graph/zz_c19_demo_test.go
//	go test -race -vet=off -count=1 -timeout 600s -run 'TestC19' -v ./graph/
//	go test       -vet=off -count=1 -timeout 600s -run 'TestC19' -v ./graph/
//	rm graph/zz_c19_demo_test.go
//
// Clean tree:   TestC19Property PASS (no race report), TestC19IncidentalCallingGoroutine PASS
//               (every g.Neighbours call made by Eccentricity comes from the goroutine that called Eccentricity,
//               and no goroutine is started).
// With patch 2: TestC19Property PASS (no race report), TestC19IncidentalCallingGoroutine FAIL
//               (g.Neighbours is called from 4 other goroutines and never from the caller's).
package graph_test

import (
	"fmt"
	"reflect"
	"runtime"
	"strings"
	"sync"
	"testing"
	"time"

	"github.com/Tom-Johnston/mamba/graph"
	"github.com/Tom-Johnston/mamba/ints"
	"github.com/Tom-Johnston/mamba/sortints"
)

//c19RefEccentricity is an independent reference: BFS from every vertex over adjacency lists, -1 for every vertex which does not reach all others.
func c19RefEccentricity(g graph.Graph) []int {
	n := g.N()
	adj := make([][]int, n)
	for v := range adj {
		adj[v] = g.Neighbours(v)
	}
	ecc := make([]int, n)
	for s := 0; s < n; s++ {
		dist := make([]int, n)
		for i := range dist {
			dist[i] = -1
		}
		dist[s] = 0
		queue := []int{s}
		seen, e := 1, 0
		for len(queue) > 0 {
			v := queue[0]
			queue = queue[1:]
			for _, u := range adj[v] {
				if dist[u] == -1 {
					dist[u] = dist[v] + 1
					e = dist[u]
					seen++
					queue = append(queue, u)
				}
			}
		}
		if seen == n {
			ecc[s] = e
		} else {
			ecc[s] = -1
		}
	}
	return ecc
}

type c19Case struct {
	name string
	g    graph.Graph
}

func c19Cases() []c19Case {
	//A sparse graph: a path on 150 vertices with a few chords.
	nb := make([]sortints.SortedInts, 150)
	add := func(i, j int) { nb[i].Add(j); nb[j].Add(i) }
	for i := range nb {
		nb[i] = sortints.SortedInts{}
	}
	for i := 0; i+1 < 150; i++ {
		add(i, i+1)
	}
	for i := 0; i+17 < 150; i += 11 {
		add(i, i+17)
	}
	//A disconnected dense graph: two cycles.
	two := graph.NewDense(90, nil)
	for i := 0; i < 40; i++ {
		two.AddEdge(i, (i+1)%40)
	}
	for i := 0; i < 50; i++ {
		two.AddEdge(40+i, 40+(i+1)%50)
	}
	big := graph.RandomGraph(160, 0.03, 5)
	verts := make([]int, 0, 100)
	for i := 159; i >= 0; i -= 2 {
		verts = append(verts, i)
	}
	return []c19Case{
		{"RandomGraph(200,0.02)", graph.RandomGraph(200, 0.02, 1)},
		{"RandomGraph(120,0.1)", graph.RandomGraph(120, 0.1, 2)},
		{"RandomTree(180)", graph.RandomTree(180, 3)},
		{"Cycle(101)", graph.Cycle(101)},
		{"HypercubeGraph(7)", graph.HypercubeGraph(7)},
		{"sparse path with chords (150)", graph.NewSparse(150, nb)},
		{"two cycles (90)", two},
		{"Complement(Cycle(64))", graph.Complement(graph.Cycle(64))},
		{"InducedSubgraph(RandomGraph(160,0.03), odd vertices reversed)", graph.InducedSubgraph(big, verts)},
		{"Petersen (10, below any threshold)", graph.KneserGraph(5, 2)},
		{"Path(33)", graph.Path(33)},
	}
}

//TestC19Property checks the property itself on read-only queries of shared finished graphs: many goroutines call Eccentricity, Diameter and
//Radius (and other observers) on the same graphs at the same time, and each gets exactly what a goroutine running alone gets. Run it with -race.
func TestC19Property(t *testing.T) {
	cases := c19Cases()
	type result struct {
		ecc          []int
		diam, radius int
		degrees      []int
		m            int
	}
	query := func(g graph.Graph) result {
		return result{graph.Eccentricity(g), graph.Diameter(g), graph.Radius(g), g.Degrees(), g.M()}
	}

	//Alone, and against the independent reference.
	alone := make([]result, len(cases))
	for i, c := range cases {
		alone[i] = query(c.g)
		ref := c19RefEccentricity(c.g)
		if !reflect.DeepEqual(alone[i].ecc, ref) {
			t.Fatalf("%s: Eccentricity = %v, reference %v", c.name, alone[i].ecc, ref)
		}
		wantD, wantR := ints.Max(ref), ints.Min(ref)
		if wantR == -1 {
			wantD = -1
		}
		if alone[i].diam != wantD || alone[i].radius != wantR {
			t.Fatalf("%s: Diameter, Radius = %d, %d, reference %d, %d", c.name, alone[i].diam, alone[i].radius, wantD, wantR)
		}
	}

	//Together: 6 goroutines per graph, all sharing the one value, all started at once.
	const perGraph = 6
	together := make([]result, perGraph*len(cases))
	start := make(chan struct{})
	var wg sync.WaitGroup
	for r := 0; r < perGraph; r++ {
		for i := range cases {
			wg.Add(1)
			go func(slot int, g graph.Graph) {
				defer wg.Done()
				<-start
				together[slot] = query(g)
			}(r*len(cases)+i, cases[i].g)
		}
	}
	close(start)
	wg.Wait()
	for slot, got := range together {
		i := slot % len(cases)
		if !reflect.DeepEqual(got, alone[i]) {
			t.Fatalf("%s: a goroutine running next to others obtained %+v, alone %+v", cases[i].name, got, alone[i])
		}
	}
	t.Logf("%d goroutines queried %d shared graphs in parallel; all results equal the sequential ones and the reference", len(together), len(cases))
}

//c19Spy is a read-only view of a graph which notes from which goroutines its Neighbours method is called. It is safe for concurrent use.
type c19Spy struct {
	graph.Graph
	mu      *sync.Mutex
	callers map[string]int
}

func c19GoroutineID() string {
	buf := make([]byte, 64)
	buf = buf[:runtime.Stack(buf, false)]
	//The first line is "goroutine 123 [running]:".
	return strings.Fields(string(buf))[1]
}

func (s c19Spy) Neighbours(v int) []int {
	id := c19GoroutineID()
	s.mu.Lock()
	s.callers[id]++
	s.mu.Unlock()
	return s.Graph.Neighbours(v)
}

//TestC19IncidentalCallingGoroutine pins down something the property does not talk about: HOW Eccentricity walks over the graph.
//On the clean tree it is a plain loop, so every one of its calls of g.Neighbours is made by the goroutine which called Eccentricity.
//The patch hands the n searches to worker goroutines (joined before Eccentricity returns), so the calls come from other goroutines.
//The answers are the same either way, which is also checked here.
func TestC19IncidentalCallingGoroutine(t *testing.T) {
	defer runtime.GOMAXPROCS(runtime.GOMAXPROCS(4)) //So that the outcome does not depend on the machine.
	g := graph.RandomGraph(200, 0.02, 1)
	spy := c19Spy{Graph: g, mu: new(sync.Mutex), callers: map[string]int{}}

	me := c19GoroutineID()
	before := runtime.NumGoroutine()
	got := graph.Eccentricity(spy)
	after := runtime.NumGoroutine()
	for i := 0; i < 200 && after > before; i++ { //A worker which has just signalled that it is done may need a moment to disappear.
		time.Sleep(5 * time.Millisecond)
		after = runtime.NumGoroutine()
	}

	if want := c19RefEccentricity(g); !reflect.DeepEqual(got, want) {
		t.Fatalf("wrong answer through the spy: %v, want %v", got, want)
	}
	if after > before {
		t.Errorf("PROPERTY-RELEVANT: %d goroutines before the call, %d after it: something was left running", before, after)
	}

	total := 0
	for _, c := range spy.callers {
		total += c
	}
	desc := fmt.Sprintf("Eccentricity made %d calls of g.Neighbours from %d goroutine(s): %v; the caller is goroutine %s", total, len(spy.callers), spy.callers, me)
	if len(spy.callers) != 1 || spy.callers[me] != total {
		t.Errorf("%s (clean tree: all calls come from the caller's goroutine)", desc)
	} else {
		t.Log(desc)
	}
}

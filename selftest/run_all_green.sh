#!/bin/bash
# usage: selftest/run_all_green.sh <root-dir-with-<ID>/<k>/patch.diff> [tier] [name-regex]
# Runs every behaviour-preserving change under <root> against its property's check; prints one line per change.
root="${1:-/verif/green}"; tier="${2:-quick}"; only="${3:-.}"
cd "$(dirname "$0")/.."
for d in "$root"/C*/*/ "$root"/C*-*/; do
  [ -f "$d/patch.diff" ] || continue
  echo "$d" | grep -qE "$only" || continue
  id=$(echo "$d" | grep -oE "C[0-9]{2}" | head -1)
  res=$(selftest/green_run.sh "$d" "$id" "$tier" 2>&1)
  verdict=$(echo "$res" | grep -E "^(SILENT|FALSE-ALARM|NOT-CLEAN|PATCH|DOES|FAILS)" | head -1)
  key=$(echo "$res" | grep -E "^  key=|^INCONCLUSIVE" | head -2 | tr '\n' ' ' | cut -c1-260)
  echo "$d | $verdict | $key"
done

// Demo for C08 green change 2 (which non-zero byte Graph6Decode stores in DenseGraph.Edges for an edge).
//
// Run (from the root of the library worktree):
//
//	cp /tmp/green-out/C08/2/demo_test.go graph/zz_c08_demo_test.go
//	export GOFLAGS=-mod=mod GOPROXY=off GOSUMDB=off GOTOOLCHAIN=local
//	go test -vet=off -count=1 -timeout 300s -run 'TestC08Demo' -v ./graph/
//	rm graph/zz_c08_demo_test.go
//
// TestC08DemoProperty         checks the property itself (total, error or well-formed graph on the declared n,
//                             re-encode/decode fixpoint).  PASSES on the clean tree and with the change.
// TestC08DemoIncidentalOld    asserts the OLD incidental behaviour: the exported Edges array of a graph decoded
//                             from graph6 holds exactly 1 for every edge, so the struct is reflect.DeepEqual to the
//                             same graph built with NewDense + AddEdge.  PASSES on the clean tree, FAILS with the change.
package graph_test

import (
	"fmt"
	"math/rand"
	"reflect"
	"testing"

	"github.com/Tom-Johnston/mamba/graph"
)

// c08DeclaredN parses the size header of a graph6 / sparse6 body (after the optional >>..<< header and, for sparse6,
// the colon).  ok is false if the header itself is malformed or cut short.
func c08DeclaredN(body string) (n uint64, ok bool) {
	for i := 0; i < len(body); i++ {
		if body[i] < 63 || body[i] > 126 {
			return 0, false
		}
	}
	if len(body) == 0 {
		return 0, false
	}
	if body[0] != 126 {
		return uint64(body[0] - 63), true
	}
	if len(body) < 2 || body[1] != 126 {
		if len(body) < 4 {
			return 0, false
		}
		return uint64(body[1]-63)<<12 | uint64(body[2]-63)<<6 | uint64(body[3]-63), true
	}
	if len(body) < 8 {
		return 0, false
	}
	for j := 2; j < 8; j++ {
		n = n<<6 | uint64(body[j]-63)
	}
	return n, true
}

func c08StripG6(s string) string {
	if len(s) >= 10 && s[:10] == ">>graph6<<" {
		return s[10:]
	}
	return s
}

func c08StripS6(s string) (string, bool) {
	if len(s) >= 11 && s[:11] == ">>sparse6<<" {
		s = s[11:]
	}
	if len(s) == 0 || s[0] != ':' {
		return "", false
	}
	return s[1:], true
}

// c08WellFormed checks through the Graph interface only that g is a simple undirected graph on n vertices with
// consistent edge count, degrees and neighbour lists.
func c08WellFormed(g graph.Graph, n int) error {
	if g.N() != n {
		return fmt.Errorf("N() = %d, declared %d", g.N(), n)
	}
	deg := g.Degrees()
	if len(deg) != n {
		return fmt.Errorf("len(Degrees()) = %d", len(deg))
	}
	sum := 0
	for v := 0; v < n; v++ {
		nb := g.Neighbours(v)
		if len(nb) != deg[v] {
			return fmt.Errorf("vertex %d: %d neighbours, degree %d", v, len(nb), deg[v])
		}
		for k, u := range nb {
			if u < 0 || u >= n || u == v {
				return fmt.Errorf("vertex %d: bad neighbour %d", v, u)
			}
			if k > 0 && nb[k-1] >= u {
				return fmt.Errorf("vertex %d: neighbours not strictly increasing", v)
			}
			if !g.IsEdge(u, v) || !g.IsEdge(v, u) {
				return fmt.Errorf("edge %d-%d not symmetric", u, v)
			}
		}
		if g.IsEdge(v, v) {
			return fmt.Errorf("loop at %d", v)
		}
		sum += deg[v]
	}
	if sum != 2*g.M() {
		return fmt.Errorf("degree sum %d, M() = %d", sum, g.M())
	}
	if n <= 200 {
		for v := 0; v < n; v++ {
			c := 0
			for u := 0; u < n; u++ {
				if g.IsEdge(u, v) {
					c++
				}
			}
			if c != deg[v] {
				return fmt.Errorf("vertex %d: IsEdge row has %d edges, degree %d", v, c, deg[v])
			}
		}
	}
	return nil
}

func c08CheckG6(s string) (err error) {
	defer func() {
		if r := recover(); r != nil {
			err = fmt.Errorf("Graph6Decode(%q) panicked: %v", s, r)
		}
	}()
	body := c08StripG6(s)
	n, ok := c08DeclaredN(body)
	if ok && n > 4096 {
		return nil // outside the quantifier
	}
	g, derr := graph.Graph6Decode(s)
	if derr != nil {
		return nil
	}
	if len(body) == 0 {
		n, ok = 0, true // documented: the empty string is the empty graph
	}
	if !ok {
		return fmt.Errorf("Graph6Decode(%q) succeeded without a readable size header", s)
	}
	if e := c08WellFormed(g, int(n)); e != nil {
		return fmt.Errorf("Graph6Decode(%q): %v", s, e)
	}
	h, derr := graph.Graph6Decode(graph.Graph6Encode(g))
	if derr != nil || !graph.Equal(g, h) {
		return fmt.Errorf("Graph6Decode(%q): re-encoding does not give the same graph (%v)", s, derr)
	}
	return nil
}

func c08CheckS6(s string) (err error) {
	defer func() {
		if r := recover(); r != nil {
			err = fmt.Errorf("Sparse6Decode(%q) panicked: %v", s, r)
		}
	}()
	body, colon := c08StripS6(s)
	n, ok := c08DeclaredN(body)
	if colon && ok && n > 4096 {
		return nil
	}
	g, derr := graph.Sparse6Decode(s)
	if derr != nil {
		return nil
	}
	if !colon || !ok {
		return fmt.Errorf("Sparse6Decode(%q) succeeded without a readable size header", s)
	}
	if e := c08WellFormed(g, int(n)); e != nil {
		return fmt.Errorf("Sparse6Decode(%q): %v", s, e)
	}
	h, derr := graph.Sparse6Decode(graph.Sparse6Encode(g))
	if derr != nil || !graph.Equal(g, h) {
		return fmt.Errorf("Sparse6Decode(%q): re-encoding does not give the same graph (%v)", s, derr)
	}
	return nil
}

var c08Fixed = []string{
	"", "~", "~~", "~?", "~??", "~~?????", "~~??", ":", ":~", ":~?", ":~~", ":~~????", ":A", ":A~", ":A~~~~", ":A?", ":A_",
	"?", "@", "A", "A_", "A?", "A~~~", "D", "DQ", "DQc", "DQc~~~", "DQ\x00", "D\x80c", "\x00", " ", "DQc\n", ">>graph6<<", ">>graph6<<DQc",
	">>graph6<<~", ">>sparse6<<", ">>sparse6<<:", ">>sparse6<<:K`ADOccQXK`IaXcQMb", ":K`ADOccQXK`IaXcQMb", ":K`ADOccQXK`IaXcQM",
	":K`ADOcc\x1fXK", ":?", ":?~~~~~~~~~~~~~~", ":@", ":@~~~", ":@???", ":Bf", ":B~~~~~", ":C~~~~~~~~", ":Fa@x^", ":Fa@x^~~~~", "Ks@HOo?PGdCK",
	"Ks@HOo?PGdC", ":~?@?", ":~?@?~~~~~~~~~~~", ":~?@?_OGCA@", "~?@?", ":~@??~~~~~~~~~~~~~~~~~~~~~~", ":~@??", "K", ":K", ":K~", "x", ":x",
	"X", ":\x00", "::", ":A\x00", ">>graph6<<:A", ">>sparse6<<A_",
}

func TestC08DemoProperty(t *testing.T) {
	inputs := append([]string(nil), c08Fixed...)
	rng := rand.New(rand.NewSource(8))
	heads := []string{"", "", "", ":", ":", ":", ">>graph6<<", ">>sparse6<<:", ":~?", "~?", ":~@", ":~", "~"}
	for k := 0; k < 2500; k++ {
		b := []byte(heads[rng.Intn(len(heads))])
		l := rng.Intn(24)
		for j := 0; j < l; j++ {
			switch rng.Intn(12) {
			case 0:
				b = append(b, byte(rng.Intn(256)))
			case 1:
				b = append(b, 126)
			case 2:
				b = append(b, 63)
			default:
				b = append(b, byte(63+rng.Intn(64)))
			}
		}
		inputs = append(inputs, string(b))
	}
	// every prefix of a few valid strings, and the valid strings with padding
	for _, v := range []string{"OsaBA`GP@`dIHWEcas_]O", ":O`ACGPDC[QPJGYCqG\\KafPK`ckeSqDsIWyn", ":Ji?c@pEUPBFaGhg@CKf", ":~?@c_OGCA@?ow", "~?@c" + string(make([]byte, 0))} {
		for i := 0; i <= len(v); i++ {
			inputs = append(inputs, v[:i], v[:i]+"~", v[:i]+"?", v[:i]+"\n")
		}
	}
	for _, s := range inputs {
		if err := c08CheckG6(s); err != nil {
			t.Error(err)
		}
		if err := c08CheckS6(s); err != nil {
			t.Error(err)
		}
	}
	t.Logf("property checked on %d inputs for each decoder", len(inputs))
}

func TestC08DemoIncidentalOld(t *testing.T) {
	for _, in := range []string{"DQc", ">>graph6<<DQc", "Ks@HOo?PGdCK", "OsaBA`GP@`dIHWEcas_]O", "J?AKagjXfo?", "D~~", "DQc~~~"} {
		g, err := graph.Graph6Decode(in)
		if err != nil {
			t.Fatalf("Graph6Decode(%q): %v", in, err)
		}
		n := g.N()
		ref := graph.NewDense(n, nil)
		for j := 1; j < n; j++ {
			for i := 0; i < j; i++ {
				if g.IsEdge(i, j) {
					ref.AddEdge(i, j)
				}
			}
		}
		// the abstract graph is the same on both trees
		if !graph.Equal(g, ref) {
			t.Fatalf("Graph6Decode(%q): rebuilt graph differs", in)
		}
		for k, b := range g.Edges {
			if b > 1 {
				t.Errorf("Graph6Decode(%q): OLD behaviour is Edges[k] in {0,1}, got Edges[%d] = %d", in, k, b)
				break
			}
		}
		if !reflect.DeepEqual(g, ref) {
			t.Errorf("Graph6Decode(%q): OLD behaviour is a struct DeepEqual to the NewDense+AddEdge graph\n got  %v\n want %v", in, g.Edges, ref.Edges)
		}
		// still true with the change: decoding the re-encoding gives the identical struct
		h, err := graph.Graph6Decode(graph.Graph6Encode(g))
		if err != nil || !reflect.DeepEqual(g, h) {
			t.Fatalf("Graph6Decode(%q): decode(encode(g)) is not identical to g", in)
		}
	}
}

package c06

// Two dimensions that the per-graph workload (graphs of up to 40 vertices,
// parameter grids of up to about 40 vertices) never varies:
//
//   - the FORM of a decoder input crossed with the SIZE RANGE: graph6 and
//     sparse6 strings with and without the optional header, with n written in
//     the 1-byte (n <= 62), the 4-byte (63 <= n <= 258047, also n >= 4096
//     where all three size bytes are used) and - for sparse6, where a graph of
//     that size is affordable - the 8-byte form (n >= 258048), each string
//     written by independent harness-side writers and certified by an
//     independent reader, the result compared with the graph that was encoded;
//
//   - parameters of the named families (and of the other constructors) beyond
//     the points where a vertex set, a ground set or a row of the adjacency no
//     longer fits into a machine word or a byte: 63..66, 127..130, 255..257
//     vertices / elements, with definitions that are evaluated on element lists
//     (no word masks) on the harness side.
//
// Values with more than maxFullN vertices are read by the lean observer (N, M,
// Degrees, Neighbours of EVERY vertex, IsEdge on the diagonal, on every edge
// of the model in both orders and on sampled pairs): reading all ordered pairs
// of a graph on 300000 vertices is not affordable.

import (
	"fmt"
	"hash/fnv"
	"sort"
	"strconv"

	"github.com/Tom-Johnston/mamba/graph"

	"verif/internal/engine"
	"verif/internal/gen"
	"verif/internal/oracle/codec"
	"verif/internal/oracle/rg"
)

// ---------------------------------------------------------------------------
// models of large graphs and the lean observer

// bigModel is the graph a large value must be equal to: a reference graph, or
// ascending neighbour lists of the vertices that have neighbours.
type bigModel struct {
	n, m int
	g    *rg.G
	adj  map[int][]int
}

func modelOfGraph(g *rg.G) *bigModel { return &bigModel{n: g.N, m: g.M(), g: g} }

// modelOfEdges: the simple graph on n vertices with the given edges (each pair once, no loops).
func modelOfEdges(n int, edges [][2]int) *bigModel {
	b := &bigModel{n: n, m: len(edges), adj: map[int][]int{}}
	for _, e := range edges {
		b.adj[e[0]] = append(b.adj[e[0]], e[1])
		b.adj[e[1]] = append(b.adj[e[1]], e[0])
	}
	for v := range b.adj {
		sort.Ints(b.adj[v])
	}
	return b
}

func (b *bigModel) nbrs(v int) []int {
	if b.g != nil {
		return b.g.Nbrs(v)
	}
	return b.adj[v]
}

func (b *bigModel) has(i, j int) bool {
	if b.g != nil {
		return b.g.Has(i, j)
	}
	l := b.adj[i]
	k := sort.SearchInts(l, j)
	return k < len(l) && l[k] == j
}

func (b *bigModel) brief() string { return fmt.Sprintf("n=%d m=%d", b.n, b.m) }

const (
	leanEdgeProbes   = 300000
	leanRandomProbes = 50000
	leanDiagonal     = 300000
)

// leanCheck reads a large value and judges it against mod.  false = violation reported.
func (r *runner) leanCheck(api, caseKey, kindPrefix string, detail interface{}, h graph.Graph, mod *bigModel, rnd *engine.Rng) bool {
	c := r.c
	c.Eval(1)
	c.Obs("judged:"+api, 1)
	c.Obs("judged:large values read through N, M, Degrees, Neighbours of every vertex, IsEdge on the diagonal, on every edge in both orders and on sampled pairs", 1)
	bad := func(kind, observed, expected string) bool {
		r.fail(api, kindPrefix+kind, "", detail, observed, expected)
		return false
	}
	var n, m int
	var deg []int
	if pi := c.Call(caseKey+"|N", func() { n = h.N() }); pi != nil {
		return bad("panic-in-N@"+engine.SiteNoLine(pi.Site), pi.String(), "the observer returns a value")
	}
	if n != mod.n {
		return bad("N", fmt.Sprintf("N()=%d", n), fmt.Sprintf("%d vertices", mod.n))
	}
	if pi := c.Call(caseKey+"|M", func() { m = h.M() }); pi != nil {
		return bad("panic-in-M@"+engine.SiteNoLine(pi.Site), pi.String(), "the observer returns a value")
	}
	if pi := c.Call(caseKey+"|Degrees", func() { deg = h.Degrees() }); pi != nil {
		return bad("panic-in-Degrees@"+engine.SiteNoLine(pi.Site), pi.String(), "the observer returns a value")
	}
	nb := make([][]int, n)
	if pi := c.Call(caseKey+"|Neighbours", func() {
		for v := 0; v < n; v++ {
			nb[v] = h.Neighbours(v)
		}
	}); pi != nil {
		return bad("panic-in-Neighbours@"+engine.SiteNoLine(pi.Site), pi.String(), "the observer returns a value")
	}
	// the pairs IsEdge is asked about
	var probes [][2]int
	stride := 1
	if mod.m > leanEdgeProbes {
		stride = 1 + mod.m/leanEdgeProbes
	}
	cnt := 0
	for v := 0; v < n; v++ {
		for _, u := range mod.nbrs(v) {
			if u < v {
				if cnt%stride == 0 {
					probes = append(probes, [2]int{u, v})
				}
				cnt++
			}
		}
	}
	if n >= 2 {
		for k := 0; k < leanRandomProbes; k++ {
			i := rnd.Intn(n)
			j := (i + 1 + rnd.Intn(n-1)) % n
			probes = append(probes, [2]int{i, j})
		}
		// neighbours the value lists that the model does not have show up in the Neighbours comparison
	}
	var diag []int
	if n <= leanDiagonal {
		for v := 0; v < n; v++ {
			diag = append(diag, v)
		}
	} else {
		for v := 0; v < 1000; v++ {
			diag = append(diag, v, n-1-v)
		}
		for k := 0; k < leanDiagonal/4; k++ {
			diag = append(diag, rnd.Intn(n))
		}
	}
	ans := make([][2]bool, len(probes))
	dans := make([]bool, len(diag))
	if pi := c.Call(caseKey+"|IsEdge", func() {
		for k, p := range probes {
			ans[k] = [2]bool{h.IsEdge(p[0], p[1]), h.IsEdge(p[1], p[0])}
		}
		for k, v := range diag {
			dans[k] = h.IsEdge(v, v)
		}
	}); pi != nil {
		return bad("panic-in-IsEdge@"+engine.SiteNoLine(pi.Site), pi.String(), "the observer returns a value")
	}
	c.Obs("IsEdge answers read from large values", 2*len(probes)+len(diag))
	for k, v := range diag {
		if dans[k] {
			return bad("loop", fmt.Sprintf("IsEdge(%d,%d)=true", v, v), "no loops: IsEdge(v,v)=false")
		}
	}
	for k, p := range probes {
		if ans[k][0] != ans[k][1] {
			return bad("asymmetric", fmt.Sprintf("IsEdge(%d,%d)=%v but IsEdge(%d,%d)=%v", p[0], p[1], ans[k][0], p[1], p[0], ans[k][1]), "symmetric IsEdge")
		}
	}
	for k, p := range probes {
		if w := mod.has(p[0], p[1]); ans[k][0] != w {
			return bad("edges", fmt.Sprintf("IsEdge(%d,%d)=%v; M()=%d", p[0], p[1], ans[k][0], m), fmt.Sprintf("IsEdge(%d,%d)=%v; %s", p[0], p[1], w, mod.brief()))
		}
	}
	for v := 0; v < n; v++ {
		w := mod.nbrs(v)
		if eqInts(nb[v], w) {
			continue
		}
		got := append([]int(nil), nb[v]...)
		sort.Ints(got)
		if eqInts(got, w) {
			return bad("Neighbours-order", fmt.Sprintf("Neighbours(%d)=%v", v, clip(nb[v])), fmt.Sprintf("ascending %v", clip(w)))
		}
		return bad("edges", fmt.Sprintf("Neighbours(%d)=%v; M()=%d", v, clip(nb[v]), m), fmt.Sprintf("%v; %s", clip(w), mod.brief()))
	}
	if m != mod.m {
		return bad("M", fmt.Sprintf("M()=%d", m), fmt.Sprintf("%d (the neighbour lists hold that many edges)", mod.m))
	}
	if len(deg) != n {
		return bad("Degrees", fmt.Sprintf("len(Degrees())=%d", len(deg)), fmt.Sprintf("%d entries", n))
	}
	for v := 0; v < n; v++ {
		if deg[v] != len(nb[v]) {
			return bad("Degrees", fmt.Sprintf("Degrees()[%d]=%d", v, deg[v]), fmt.Sprintf("%d (Neighbours(%d) has that many entries)", len(nb[v]), v))
		}
	}
	if n >= 3 && m >= 1 {
		c.NT(api, caseKey, kindPrefix)
	}
	c.ObsMax("vertices of a judged large value", n)
	return true
}

func clip(l []int) []int {
	if len(l) > 40 {
		return l[:40]
	}
	return l
}

// ---------------------------------------------------------------------------
// decoder inputs: format x header x size form

func sizeForm(n int) string {
	switch {
	case n <= 62:
		return "1-byte size"
	case n <= 258047:
		return "4-byte size"
	}
	return "8-byte size"
}

func headerWord(h bool) string {
	if h {
		return "header"
	}
	return "no header"
}

func strHash(s string) string {
	f := fnv.New64a()
	f.Write([]byte(s))
	return strconv.FormatUint(f.Sum64(), 16)
}

func clipStr(s string) string {
	if len(s) > 2000 {
		return s[:2000] + fmt.Sprintf("... (%d bytes, fnv64a %s)", len(s), strHash(s))
	}
	return s
}

// decodeForm feeds one string (body = the string without header) to the
// decoder of the format, with or without the header, and judges the result
// against the encoded graph (g for results read through all ordered pairs,
// mod for the lean observer).  Returns false after a violation.
func (r *runner) decodeForm(api, body string, header bool, writer string, n int, g *rg.G, mod *bigModel, rnd *engine.Rng) bool {
	c := r.c
	form := headerWord(header) + "|" + sizeForm(n)
	kindPrefix := "form[" + headerWord(header) + "," + sizeForm(n) + "]:"
	if body == "" {
		form = "the empty string"
		kindPrefix = "form[empty string]:"
	}
	s := body
	if header {
		if api == "Graph6Decode" {
			s = codec.G6Header + body
		} else {
			s = codec.S6Header + body
		}
	}
	caseKey := api + "|" + strconv.Quote(s)
	if len(s) > 300 {
		caseKey = fmt.Sprintf("%s|%s|n=%d|%s|fnv64a=%s", api, form, n, writer, strHash(s))
	}
	detail := map[string]interface{}{"api": api, "string": clipStr(s), "n": n, "form": form, "written_by": writer}
	var h graph.Graph
	var err error
	pi := c.Call(caseKey, func() {
		if api == "Graph6Decode" {
			var d *graph.DenseGraph
			d, err = graph.Graph6Decode(s)
			h = d
		} else {
			var d *graph.SparseGraph
			d, err = graph.Sparse6Decode(s)
			h = d
		}
	})
	want := ""
	if g != nil {
		want = brief(g)
	} else {
		want = mod.brief()
	}
	if pi != nil {
		c.Eval(1)
		r.fail(api, kindPrefix+"panic@"+engine.SiteNoLine(pi.Site), "", detail, pi.String(), "the graph "+want)
		return false
	}
	if err != nil {
		c.Eval(1)
		r.fail(api, kindPrefix+"error-on-valid-string", "", detail, "error: "+err.Error(), "the graph "+want)
		return false
	}
	if n <= maxFullN && g != nil {
		if r.check(api, caseKey, "", kindPrefix, detail, h, g) == nil {
			return false
		}
	} else {
		if mod == nil {
			mod = modelOfGraph(g)
		}
		if !r.leanCheck(api, caseKey, kindPrefix, detail, h, mod, rnd) {
			return false
		}
	}
	c.Obs("forms:"+api+"|"+form, 1)
	if n >= 4096 && n <= 258047 {
		c.Obs("forms:"+api+"|"+headerWord(header)+"|4-byte size with n >= 4096 (all three size bytes used)", 1)
	}
	if n >= 262144 {
		c.Obs("forms:"+api+"|"+headerWord(header)+"|8-byte size with n >= 262144", 1)
	}
	return true
}

type s6String struct{ body, writer string }

// sparse6Strings: the sparse6 strings (without header) of the harness-side
// writers for g, each certified by the independent reader.
func (r *runner) sparse6Strings(g *rg.G, rnd *engine.Rng, plainOnly bool) []s6String {
	c := r.c
	n := g.N
	cands := []s6String{
		{codec.Sparse6OfGraph(g), "codec.Sparse6 (nauty order)"},
		{refSparse6(g), "c06 refSparse6"},
	}
	if n >= 2 && !plainOnly {
		cands = append(cands, s6String{codec.Sparse6Alt(n, g.Edges(), func(m int) int { return rnd.Intn(m) }), "codec.Sparse6Alt (any order, any way of moving on)"})
		if s, info, ok := wildSparse6(g, rnd); ok {
			if info.Header {
				s = s[len(codec.S6Header):]
			}
			cands = append(cands, s6String{s, "c06 free-form writer (repeated pairs, loop pairs, moves without pairs, pairs behind a vertex number >= n)"})
		}
	}
	var out []s6String
	for _, t := range cands {
		sc, err := codec.Sparse6Scan(t.body, uint64(n))
		if err != nil || int(sc.N) != n || !sc.Graph().Equal(g) {
			c.Inconclusive(fmt.Sprintf("%s wrote a sparse6 string for n=%d that the independent reader does not read back as the graph: %s", t.writer, n, strconv.Quote(clipStr(t.body))))
			continue
		}
		out = append(out, t)
	}
	return out
}

// forms: every decoder input form of g (n <= 5000).
func (r *runner) forms(g *rg.G, rnd *engine.Rng, plainWritersOnly bool) {
	c := r.c
	n := g.N
	var mod *bigModel
	if n > maxFullN {
		mod = modelOfGraph(g)
	}
	// graph6: the reference codec's string, certified by the codec's strict reader and (n <= 62) by the rg writer
	s := codec.Graph6(g)
	pg, err := codec.Graph6Parse(s, n)
	switch {
	case err != nil || !pg.Equal(g) || (n <= 62 && s != g.G6()):
		c.Inconclusive(fmt.Sprintf("graph6 writers / reader of the harness disagree for n=%d: %s", n, strconv.Quote(clipStr(s))))
	default:
		for _, header := range []bool{false, true} {
			if !r.decodeForm("Graph6Decode", s, header, "codec.Graph6", n, g, mod, rnd) {
				break
			}
		}
	}
	if c.Stopped() {
		return
	}
	for _, t := range r.sparse6Strings(g, rnd, plainWritersOnly) {
		for _, header := range []bool{false, true} {
			if !r.decodeForm("Sparse6Decode", t.body, header, t.writer, n, g, mod, rnd) {
				return
			}
		}
	}
}

// formGraphs: graphs on n vertices for the decoder forms: dense, sparse, with
// isolated last vertices, (small n) complete and edgeless.
func formGraphs(n int, rnd *engine.Rng, extremes bool) []*rg.G {
	var gs []*rg.G
	gs = append(gs, gen.Random(rnd, n, 0.5))
	if n >= 3 {
		gs = append(gs, gen.Random(rnd, n, 2.0/float64(n)))
		h := gen.Random(rnd, n, 0.3)
		for v := 0; v < n-2; v++ {
			h.Del(v, n-1)
			h.Del(v, n-2)
		}
		h.Del(n-1, n-2)
		gs = append(gs, h)
	}
	if extremes {
		gs = append(gs, refComplete(n), rg.New(n))
	}
	return gs
}

// largeEdges: a few hundred edges on n >= 1000 vertices: the first and the
// last vertices, a hub, a path of consecutive vertices, clusters among the
// smallest and among the largest vertex numbers, random pairs.
func largeEdges(n int, rnd *engine.Rng) [][2]int {
	seen := map[[2]int]bool{}
	var es [][2]int
	add := func(u, v int) {
		if u == v || u < 0 || v < 0 || u >= n || v >= n {
			return
		}
		if u > v {
			u, v = v, u
		}
		if !seen[[2]int{u, v}] {
			seen[[2]int{u, v}] = true
			es = append(es, [2]int{u, v})
		}
	}
	add(0, 1)
	add(0, n-1)
	add(n-2, n-1)
	add(n/2, n-1)
	hub := rnd.Intn(n)
	for k := 0; k < 60; k++ {
		add(hub, rnd.Intn(n))
	}
	p := rnd.Intn(n - 40)
	for k := 0; k < 30; k++ {
		add(p+k, p+k+1)
	}
	for k := 0; k < 40; k++ {
		add(rnd.Intn(70), rnd.Intn(70))
		add(n-1-rnd.Intn(70), n-1-rnd.Intn(70))
	}
	for k := 0; k < 300; k++ {
		add(rnd.Intn(n), rnd.Intn(n))
	}
	// the vertex numbers around the powers of two (the highest bit of x[i] in a sparse6 pair)
	for b := uint(6); (1 << b) < n; b += 3 {
		add(1<<b, rnd.Intn(n))
		add(1<<b-1, rnd.Intn(n))
	}
	return es
}

// sparse6Large: Sparse6Decode on n vertices (n too large for a bit matrix) with a few hundred edges.
func (r *runner) sparse6Large(n int, rnd *engine.Rng) {
	c := r.c
	es := largeEdges(n, rnd)
	mod := modelOfEdges(n, es)
	cands := []s6String{
		{codec.Sparse6(n, es), "codec.Sparse6 (nauty order)"},
		{refSparse6Edges(n, es), "c06 refSparse6"},
		{codec.Sparse6Alt(n, es, func(m int) int { return rnd.Intn(m) }), "codec.Sparse6Alt (any order, any way of moving on)"},
	}
	for _, t := range cands {
		sc, err := codec.Sparse6Scan(t.body, uint64(n))
		ok := err == nil && int(sc.N) == n && sc.Loops == 0 && sc.Repeats == 0 && len(sc.Edges) == len(es)
		if ok {
			for _, e := range sc.Edges {
				if !mod.has(e[0], e[1]) {
					ok = false
					break
				}
			}
		}
		if !ok {
			c.Inconclusive(fmt.Sprintf("%s wrote a sparse6 string for n=%d that the independent reader does not read back as the graph: %s", t.writer, n, strconv.Quote(clipStr(t.body))))
			continue
		}
		for _, header := range []bool{false, true} {
			if !r.decodeForm("Sparse6Decode", t.body, header, t.writer, n, nil, mod, rnd) {
				return
			}
		}
	}
}

// longForms: strings whose size field is longer than the size needs (a small n
// in the 4-byte or the 8-byte form).  formats.txt defines the long forms only
// for the sizes that need them, so nothing but well-formedness of a returned
// graph is judged; whether the decoder reads the graph, another graph or
// reports an error is recorded.  (The 8-byte form of graph6 with a size that
// needs it, n >= 258048, would take a string of 5.5 GB.)
func (r *runner) longForms(g *rg.G) {
	c := r.c
	n := g.N
	g6 := codec.Graph6(g)[len(codec.SizeHeader(n)):]
	s6 := codec.Sparse6OfGraph(g)[1+len(codec.SizeHeader(n)):]
	for _, width := range []int{18, 36} {
		if len(codec.SizeHeader(n)) >= 1+width/6 {
			continue
		}
		for _, header := range []bool{false, true} {
			for _, api := range []string{"Graph6Decode", "Sparse6Decode"} {
				var s string
				if api == "Graph6Decode" {
					s = string(longSize(n, width)) + g6
					if header {
						s = codec.G6Header + s
					}
				} else {
					s = ":" + string(longSize(n, width)) + s6
					if header {
						s = codec.S6Header + s
					}
				}
				what := fmt.Sprintf("not_judged:%s|%s|%d-byte size field holding n <= %s", api, headerWord(header), map[int]int{18: 4, 36: 8}[width], map[int]string{18: "62", 36: "258047"}[width])
				caseKey := api + "|" + strconv.Quote(s)
				detail := map[string]interface{}{"api": api, "string": s, "n": n, "note": "size field longer than n needs (not defined by formats.txt): only the well-formedness of a returned graph is judged"}
				var h graph.Graph
				var err error
				pi := c.Call(caseKey, func() {
					if api == "Graph6Decode" {
						var d *graph.DenseGraph
						d, err = graph.Graph6Decode(s)
						h = d
					} else {
						var d *graph.SparseGraph
						d, err = graph.Sparse6Decode(s)
						h = d
					}
				})
				switch {
				case pi != nil:
					c.Obs(what+": panic", 1)
				case err != nil:
					c.Obs(what+": error", 1)
				default:
					sn := r.check(api, caseKey, "", "form["+headerWord(header)+",longer size field than needed]:", detail, h, nil)
					if sn == nil {
						return
					}
					if sn.n == n && sn.graph().Equal(g) {
						c.Obs(what+": the graph", 1)
					} else {
						c.Obs(what+": another graph", 1)
					}
				}
			}
		}
	}
}

// formUnits: the decoder-form workload.
func formUnits(c *engine.Ctx) []unit {
	var us []unit
	// sizes read through all ordered pairs: both sides of every boundary of the 1-byte / 4-byte forms, of the
	// sparse6 padding rule (2, 4, 8, 16), of k (powers of two), of a byte / a word of vertices
	small := []int{0, 1, 2, 3, 4, 5, 8, 9, 16, 17, 31, 32, 33, 61, 62, 63, 64, 65, 66, 100, 127, 128, 129, 255, 256, 257}
	if c.Thorough() {
		small = append(small, 126, 130, 191, 192, 193, 300)
	}
	per := 2
	for u := 0; u*per < len(small); u++ {
		u := u
		us = append(us, unit{fmt.Sprintf("decoder-forms/n=%d..", small[u*per]), func(r *runner) {
			for i := u * per; i < (u+1)*per && i < len(small); i++ {
				n := small[i]
				rnd := r.c.Rand("decoder-forms", n)
				for gi, g := range formGraphs(n, rnd, n <= 66 || r.c.Thorough()) {
					if r.c.Stopped() {
						return
					}
					// quick, n > 66: all four sparse6 writers on the sparse graph, the two plain ones on the others
					r.forms(g, rnd, n > 66 && gi != 1 && !r.c.Thorough())
					r.multicode(g, gid(g))
				}
			}
		}})
	}
	us = append(us, unit{"decoder-forms/longer size field than needed", func(r *runner) {
		for _, n := range []int{0, 1, 2, 5, 30, 62, 63, 64, 100} {
			rnd := r.c.Rand("decoder-long-forms", n)
			r.longForms(gen.Random(rnd, n, 0.5))
		}
		// the empty string is documented to decode as the empty graph
		r.decodeForm("Graph6Decode", "", false, "documentation of Graph6Decode: the empty string decodes as the empty graph", 0, rg.New(0), nil, r.c.Rand("decoder-long-forms", -1))
	}})
	// sizes read by the lean observer, graph given as a bit matrix: all writers (also the free-form one)
	mid := []int{4227}
	if c.Thorough() {
		mid = []int{301, 1000, 2047, 2048, 2049, 4095, 4096, 4097, 4227, 5000}
	}
	for _, n := range mid {
		n := n
		us = append(us, unit{fmt.Sprintf("decoder-forms/n=%d", n), func(r *runner) {
			rnd := r.c.Rand("decoder-forms", n)
			g := gen.Random(rnd, n, 8.0/float64(n))
			// the last vertices of the 4-byte-form sizes get edges, too
			g.Add(0, n-1)
			g.Add(n-2, n-1)
			r.forms(g, rnd, false)
		}})
	}
	// sparse6 on sizes that only a sparse representation can hold
	large := []int{4096, 65536, 65537, 258047, 258048, 262145}
	if c.Thorough() {
		large = []int{4095, 4096, 65535, 65536, 65537, 100000, 131072, 131073, 258047, 258048, 258049, 262143, 262144, 262145, 300000, 524288, 524289, 1<<20 + 1, 1<<21 + 1}
	}
	for _, n := range large {
		n := n
		us = append(us, unit{fmt.Sprintf("decoder-forms/sparse6/n=%d", n), func(r *runner) {
			r.sparse6Large(n, r.c.Rand("decoder-forms-sparse6", n))
		}})
	}
	return us
}

// ---------------------------------------------------------------------------
// family parameters beyond a machine word / a byte

// wordSizes: both sides of 64, 128 and 256.
var wordSizes = []int{63, 64, 65, 66, 127, 128, 129, 130, 255, 256, 257}

func thresholdUnits(c *engine.Ctx) []unit {
	var us []unit
	add := func(name string, f func(r *runner)) { us = append(us, unit{"thresholds/" + name, f}) }
	thorough := c.Thorough()

	add("NewDense,NewSparse,CompleteGraph,Path,Cycle,Star", func(r *runner) {
		for _, n := range wordSizes {
			n := n
			r.family("NewDense(nil)", ints(n), true, true, func() graph.Graph { return graph.NewDense(n, nil) }, func() *rg.G { return rg.New(n) })
			r.family("NewSparse(nil)", ints(n), true, true, func() graph.Graph { return graph.NewSparse(n, nil) }, func() *rg.G { return rg.New(n) })
			r.family("CompleteGraph", ints(n), true, true, func() graph.Graph { return graph.CompleteGraph(n) }, func() *rg.G { return refComplete(n) })
			r.family("Path", ints(n), true, false, func() graph.Graph { return graph.Path(n) }, func() *rg.G { return refPath(n) })
			r.family("Cycle", ints(n), true, false, func() graph.Graph { return graph.Cycle(n) }, func() *rg.G { return refCycle(n) })
			r.family("Star", ints(n), true, false, func() graph.Graph { return graph.Star(n) }, func() *rg.G { return refStar(n) })
		}
	})
	add("CompletePartiteGraph", func(r *runner) {
		ones := func(k int) []int {
			t := make([]int, k)
			for i := range t {
				t[i] = 1
			}
			return t
		}
		lists := [][]int{{63}, {64}, {65}, {64, 1}, {1, 64}, {63, 1, 1}, {32, 33}, {64, 64}, {65, 65}, {63, 0, 2}, {128, 1}, {1, 128}, {100, 29}, {43, 43, 43}, {64, 64, 64, 65}, ones(65), ones(129), append(ones(64), 64), {255, 1}, {1, 256}}
		for _, t := range lists {
			t := t
			r.family("CompletePartiteGraph", ints(t...), true, true, func() graph.Graph { return graph.CompletePartiteGraph(t...) }, func() *rg.G { return refMultipartite(t) })
		}
	})
	add("RookGraph", func(r *runner) {
		ps := [][2]int{{8, 8}, {9, 7}, {5, 13}, {13, 5}, {1, 64}, {64, 1}, {1, 65}, {65, 1}, {2, 32}, {2, 33}, {33, 2}, {3, 43}, {16, 8}, {11, 12}}
		if thorough {
			ps = append(ps, [2]int{16, 16}, [2]int{1, 257}, [2]int{128, 2}, [2]int{2, 129}, [2]int{17, 15})
		}
		for _, p := range ps {
			a, b := p[0], p[1]
			r.family("RookGraph", ints(a, b), true, false, func() graph.Graph { return graph.RookGraph(a, b) }, func() *rg.G { return refRook(a, b) })
		}
	})
	add("FlowerSnark", func(r *runner) {
		ns := []int{15, 17, 31, 33}
		if thorough {
			ns = append(ns, 63, 65, 129)
		}
		for _, n := range ns {
			n := n
			r.family("FlowerSnark", ints(n), true, false, func() graph.Graph { return graph.FlowerSnark(n) }, func() *rg.G { return refFlowerSnark(n) })
		}
	})
	add("HypercubeGraph,FoldedHypercubeGraph", func(r *runner) {
		for d := 6; d <= c.Pick(10, 12); d++ {
			d := d
			r.family("HypercubeGraph", ints(d), true, false, func() graph.Graph { return graph.HypercubeGraph(d) }, func() *rg.G { return refHypercube(d) })
			r.family("FoldedHypercubeGraph", ints(d+1), true, false, func() graph.Graph { return graph.FoldedHypercubeGraph(d + 1) }, func() *rg.G { return refFoldedHypercube(d + 1) })
		}
	})
	// Kneser graphs on ground sets of more than 64 elements (definitions on element lists): k = 1, n-1, n
	// everywhere (small graphs), k = 2 just behind the word size
	add("KneserGraph/k=0,1,n-1,n", func(r *runner) {
		for _, n := range wordSizes[:8] {
			for _, k := range []int{0, 1, n - 1, n} {
				n, k := n, k
				if r.family("KneserGraph", ints(n, k), true, true, func() graph.Graph { return graph.KneserGraph(n, k) }, func() *rg.G { return refKneserSets(n, k) }) && n > 64 {
					r.c.Obs("KneserGraph on a ground set of more than 64 elements", 1)
				}
			}
		}
	})
	k2 := []int{65}
	if thorough {
		k2 = []int{63, 64, 65, 66, 67, 70, 80}
	}
	for _, n := range k2 {
		n := n
		add(fmt.Sprintf("KneserGraph(%d,2)", n), func(r *runner) {
			if r.family("KneserGraph", ints(n, 2), true, true, func() graph.Graph { return graph.KneserGraph(n, 2) }, func() *rg.G { return refKneserSets(n, 2) }) && n > 64 {
				r.c.Obs("KneserGraph on a ground set of more than 64 elements", 1)
				r.c.Obs("KneserGraph on a ground set of more than 64 elements with k >= 2", 1)
			}
		})
	}
	if thorough {
		add("KneserGraph(65,63)", func(r *runner) {
			if r.family("KneserGraph", ints(65, 63), true, true, func() graph.Graph { return graph.KneserGraph(65, 63) }, func() *rg.G { return refKneserSets(65, 63) }) {
				r.c.Obs("KneserGraph on a ground set of more than 64 elements", 1)
			}
		})
	}
	add("BipartiteKneserGraph/k=0,1,n-1,n", func(r *runner) {
		for _, n := range wordSizes[:8] {
			for _, k := range []int{0, 1, n - 1, n} {
				n, k := n, k
				if r.family("BipartiteKneserGraph", ints(n, k), true, false, func() graph.Graph { return graph.BipartiteKneserGraph(n, k) }, func() *rg.G { return refBipartiteKneserSets(n, k) }) && n > 64 {
					r.c.Obs("BipartiteKneserGraph on a ground set of more than 64 elements", 1)
				}
			}
		}
	})
	if thorough {
		for _, p := range [][2]int{{64, 2}, {65, 2}, {66, 2}, {65, 63}} {
			n, k := p[0], p[1]
			add(fmt.Sprintf("BipartiteKneserGraph(%d,%d)", n, k), func(r *runner) {
				if r.family("BipartiteKneserGraph", ints(n, k), true, false, func() graph.Graph { return graph.BipartiteKneserGraph(n, k) }, func() *rg.G { return refBipartiteKneserSets(n, k) }) && n > 64 {
					r.c.Obs("BipartiteKneserGraph on a ground set of more than 64 elements", 1)
				}
			})
		}
	}
	add("CirculantGraph", func(r *runner) {
		for _, n := range wordSizes {
			for _, d := range [][]int{{1}, {n / 2}, {63}, {64}, {65}, {-64}, {1, 64}, {n - 1}, {n + 64}, {2, 3, 64, 65}, {-n - 65, 128}, {127, 129}} {
				n, d := n, d
				r.family("CirculantGraph", ints(append([]int{n}, d...)...), true, true, func() graph.Graph { return graph.CirculantGraph(n, d...) }, func() *rg.G { return refCirculant(n, d) })
			}
		}
	})
	add("CirculantBipartiteGraph", func(r *runner) {
		for _, p := range [][]int{{64, 64, 0, 63}, {65, 65, 64}, {65, 65, 0, 1, 64}, {63, 66, 1, 65}, {66, 63, 62, -1}, {1, 128, 0, 127}, {128, 1, 0}, {1, 129, 128}, {64, 1, 0}, {100, 29, 1, 28, -1}, {128, 128, 64, 127}, {129, 127, 126, 1}, {130, 126, 0, 64, 65}, {0, 65}, {65, 0}, {200, 57, 56, -3}} {
			n, m, d := p[0], p[1], p[2:]
			r.family("CirculantBipartiteGraph", ints(p...), true, true, func() graph.Graph { return graph.CirculantBipartiteGraph(n, m, d...) }, func() *rg.G { return refCirculantBipartite(n, m, d) })
		}
	})
	add("GeneralisedPetersenGraph,FriendshipGraph", func(r *runner) {
		for _, n := range []int{32, 33, 63, 64, 65, 66, 127, 128, 129} {
			for _, k := range []int{1, 2, 31, 32, 33, (n - 1) / 2} {
				n, k := n, k
				if k < 1 || k > (n-1)/2 {
					continue
				}
				r.family("GeneralisedPetersenGraph", ints(n, k), true, true, func() graph.Graph { return graph.GeneralisedPetersenGraph(n, k) }, func() *rg.G { return refGenPetersen(n, k) })
			}
		}
		for _, n := range []int{31, 32, 33, 63, 64, 65, 127, 128} {
			n := n
			r.family("FriendshipGraph", ints(n), true, false, func() graph.Graph { return graph.FriendshipGraph(n) }, func() *rg.G { return refFriendship(n) })
		}
	})
	add("RandomGraph,RandomTree", func(r *runner) {
		for _, n := range wordSizes[:8] {
			r.randomGraphCases(n)
			r.randomTreeCases(n)
		}
	})
	add("PruferDecode", func(r *runner) {
		for i, n := range wordSizes {
			rnd := r.c.Rand("thresholds-prufer", i)
			for v := 0; v < 3; v++ {
				p := make([]int, n-2)
				switch v {
				case 0:
					for k := range p {
						p[k] = rnd.Intn(n)
					}
				case 1: // the last vertices as inner vertices
					for k := range p {
						p[k] = n - 1 - rnd.Intn(3)
					}
				default:
					copy(p, rnd.Perm(n))
				}
				r.prufer(p, true)
			}
		}
	})
	// the constructors from slices, the decoders and every transformation on graphs around a word of vertices
	ts := []int{63, 64, 65, 129}
	if thorough {
		ts = wordSizes
	}
	for i, n := range ts {
		i, n := i, n
		add(fmt.Sprintf("per-graph pipeline/n=%d", n), func(r *runner) {
			rnd := r.c.Rand("thresholds-pipeline", i)
			g := gen.Random(rnd, n, 3.0/float64(n))
			g.Add(0, n-1)
			g.Add(n-2, n-1)
			g.Add(62, n-1)
			r.perGraph(g, rnd, pipeOpts{seeded: true})
			r.c.Obs("per-graph pipeline (constructors from slices, decoders, every transformation) on a graph with 63 or more vertices", 1)
		})
	}
	return us
}

// Demo for C09 change 4: GreedyColor validates its order argument (length, range, repetitions) and panics with
// descriptive messages.
//
// Run (from the root of the library worktree, offline):
//
//	export GOFLAGS=-mod=mod GOPROXY=off GOSUMDB=off GOTOOLCHAIN=local
//	mkdir -p greendemo && cp /tmp/green-out/C09/4/demo_test.go greendemo/demo_test.go
//	go test -vet=off -count=1 -timeout 600s -v ./greendemo
//	rm -r greendemo
//
// TestIncidentalOutsideTheDomain asserts what the OLD implementation does for arguments that are NOT vertex orders:
// the exact text of the panic for an order of the wrong length, and the (meaningless) partial colouring that is
// returned without complaint when a vertex is repeated.  It PASSES on the clean tree and FAILS with the change.
// TestPropertyGreedy checks what C09 actually demands of GreedyColor (for every vertex order, i.e. every permutation
// of the vertices, the colouring is proper and first-fit, the returned number is the largest colour, in the dense,
// sparse and view representations): it PASSES on both trees.
package greendemo

import (
	"fmt"
	"math/rand"
	"testing"

	"github.com/Tom-Johnston/mamba/graph"
	"github.com/Tom-Johnston/mamba/sortints"
)

func toSparse(g graph.Graph) *graph.SparseGraph {
	n := g.N()
	nb := make([]sortints.SortedInts, n)
	for i := 0; i < n; i++ {
		nb[i] = append(sortints.SortedInts{}, g.Neighbours(i)...)
	}
	return graph.NewSparse(n, nb)
}

// firstFit is the definition: every vertex, in the given order, gets the least colour not on an earlier neighbour.
func firstFit(g graph.Graph, order []int) (int, []int) {
	n := g.N()
	c := make([]int, n)
	for i := range c {
		c[i] = -1
	}
	maxColour := -1
	for _, v := range order {
		col := 0
	search:
		for {
			for u := 0; u < n; u++ {
				if u != v && g.IsEdge(u, v) && c[u] == col {
					col++
					continue search
				}
			}
			break
		}
		c[v] = col
		if col > maxColour {
			maxColour = col
		}
	}
	return maxColour, c
}

func checkGreedy(g graph.Graph, order []int) error {
	in := append([]int(nil), order...)
	wantMax, want := firstFit(g, order)
	gotMax, got := graph.GreedyColor(g, order)
	if fmt.Sprint(in) != fmt.Sprint(order) {
		return fmt.Errorf("order was modified: %v -> %v", in, order)
	}
	if gotMax != wantMax || fmt.Sprint(got) != fmt.Sprint(want) {
		return fmt.Errorf("order %v: GreedyColor = %d %v, first-fit = %d %v", order, gotMax, got, wantMax, want)
	}
	if g.N() > 0 && !graph.IsProperColouring(g, got) {
		return fmt.Errorf("order %v: colouring %v is not proper", order, got)
	}
	return nil
}

func permutations(n int, f func([]int)) {
	p := make([]int, n)
	for i := range p {
		p[i] = i
	}
	var rec func(k int)
	rec = func(k int) {
		if k == n {
			f(p)
			return
		}
		for i := k; i < n; i++ {
			p[k], p[i] = p[i], p[k]
			rec(k + 1)
			p[k], p[i] = p[i], p[k]
		}
	}
	rec(0)
}

func forms(g *graph.DenseGraph) map[string]graph.Graph {
	return map[string]graph.Graph{
		"dense":  g,
		"sparse": toSparse(g),
		"view":   graph.Complement(graph.ComplementDense(g)),
	}
}

func TestPropertyGreedy(t *testing.T) {
	// every labelled graph on at most 5 vertices with every vertex order, in three representations
	for n := 0; n <= 5; n++ {
		m := n * (n - 1) / 2
		for mask := 0; mask < 1<<uint(m); mask++ {
			e := make([]byte, m)
			for b := 0; b < m; b++ {
				if mask>>uint(b)&1 == 1 {
					e[b] = 1
				}
			}
			for fn, f := range forms(graph.NewDense(n, e)) {
				permutations(n, func(p []int) {
					if err := checkGreedy(f, p); err != nil {
						t.Fatalf("n=%d mask=%d (%s): %v", n, mask, fn, err)
					}
				})
			}
		}
	}
	// the nil order for the graph without vertices
	if mc, c := graph.GreedyColor(graph.NewDense(0, nil), nil); mc != -1 || len(c) != 0 {
		t.Fatalf("n=0: %d %v", mc, c)
	}
	// random larger graphs with random orders
	rng := rand.New(rand.NewSource(4))
	for it := 0; it < 500; it++ {
		n := 6 + rng.Intn(25)
		g := graph.RandomGraph(n, rng.Float64(), rng.Int63())
		for fn, f := range forms(g) {
			if err := checkGreedy(f, rng.Perm(n)); err != nil {
				t.Fatalf("random %d (%s): %v", it, fn, err)
			}
		}
	}
}

// call runs GreedyColor and reports the result or the recovered panic value.
func call(g graph.Graph, order []int) (res string) {
	defer func() {
		if r := recover(); r != nil {
			res = fmt.Sprintf("panic(%T): %v", r, r)
		}
	}()
	mc, c := graph.GreedyColor(g, order)
	return fmt.Sprintf("returns %d %v", mc, c)
}

func TestIncidentalOutsideTheDomain(t *testing.T) {
	g := graph.Path(3)
	cases := []struct {
		what  string
		order []int
		old   string
	}{
		{"order too short", []int{0, 1}, "panic(string): order does not have length  equal to g.N()"},
		{"order too long", []int{0, 1, 2, 0}, "panic(string): order does not have length  equal to g.N()"},
		{"vertex 0 twice, vertex 2 missing", []int{0, 0, 1}, "returns 1 [0 1 -1]"},
		{"vertex 1 three times", []int{1, 1, 1}, "returns 0 [-1 0 -1]"},
	}
	for _, tc := range cases {
		got := call(g, tc.order)
		t.Logf("GreedyColor(Path(3), %v) [%s]: %s", tc.order, tc.what, got)
		if got != tc.old {
			t.Errorf("%s: got %q, the old implementation gives %q", tc.what, got, tc.old)
		}
	}
}

// Demo for C08 green change 10 (Graph6Decode takes the scratch buffer into which it unpacks the edge bits from a
// sync.Pool instead of allocating a new one per call; NewDense copies it, so the buffer never leaves the function).
//
// Run (from the root of the library worktree):
//
//	cp /tmp/green-out/C08/10/demo_test.go graph/zz_c08_demo_test.go
//	export GOFLAGS=-mod=mod GOPROXY=off GOSUMDB=off GOTOOLCHAIN=local
//	go test -vet=off -count=1 -timeout 300s -run 'TestC08Demo' -v ./graph/
//	rm graph/zz_c08_demo_test.go
//
// TestC08DemoProperty      checks the property on fixed, random, truncated, padded and corrupted graph6 and sparse6
//                          strings with declared n <= 4096 (no panic, error or well-formed graph on the declared n,
//                          re-encode in both formats and decode again gives the same graph), that results held while
//                          later (larger, smaller, failing) decodes are made do not change, and that concurrent
//                          decodes give the right graphs.  PASSES on both trees.
// TestC08DemoIncidentalOld asserts the OLD allocation pattern: one Graph6Decode of a 12-vertex graph costs exactly 4
//                          allocations and one of a 200-vertex graph allocates at least two edge arrays' worth of
//                          bytes.  PASSES on the clean tree, FAILS with the change (3 allocations, one edge array).
package graph_test

import (
	"math/rand"
	"runtime"
	"sync"
	"reflect"
	"sort"
	"testing"

	"github.com/Tom-Johnston/mamba/graph"
)

// declaredN parses the size header of a graph6 body (after the optional header / ':') if there is one.
func c08DeclaredN(s string) (int, bool) {
	if len(s) == 0 {
		return 0, false
	}
	for i := 0; i < len(s); i++ {
		if s[i] < 63 || s[i] > 126 {
			return 0, false
		}
	}
	if s[0] != 126 {
		return int(s[0] - 63), true
	}
	if len(s) >= 2 && s[1] == 126 {
		if len(s) < 8 {
			return 0, false
		}
		n := 0
		for _, c := range []byte(s[2:8]) {
			n = n<<6 | int(c-63)
		}
		return n, true
	}
	if len(s) < 4 {
		return 0, false
	}
	return int(s[1]-63)<<12 | int(s[2]-63)<<6 | int(s[3]-63), true
}

func c08WellFormedSparse(t *testing.T, in string, g *graph.SparseGraph, n int) {
	if g.N() != n || len(g.Neighbourhoods) != n || len(g.DegreeSequence) != n {
		t.Fatalf("%q: wrong size", in)
	}
	sum := 0
	for v := 0; v < n; v++ {
		nb := g.Neighbourhoods[v]
		if len(nb) != g.DegreeSequence[v] || !sort.IntsAreSorted(nb) {
			t.Fatalf("%q: bad neighbourhood of %v", in, v)
		}
		for i, u := range nb {
			if u < 0 || u >= n || u == v || (i > 0 && nb[i-1] == u) || !g.IsEdge(u, v) || !g.IsEdge(v, u) {
				t.Fatalf("%q: bad neighbour %v of %v", in, u, v)
			}
		}
		sum += len(nb)
	}
	if sum != 2*g.M() {
		t.Fatalf("%q: wrong number of edges", in)
	}
}

func c08WellFormedDense(t *testing.T, in string, g *graph.DenseGraph, n int) {
	if g.N() != n || len(g.Edges) != n*(n-1)/2 || len(g.DegreeSequence) != n {
		t.Fatalf("%q: wrong size", in)
	}
	deg := make([]int, n)
	m := 0
	for j := 1; j < n; j++ {
		for i := 0; i < j; i++ {
			if g.IsEdge(i, j) != g.IsEdge(j, i) {
				t.Fatalf("%q: asymmetric", in)
			}
			if g.IsEdge(i, j) {
				deg[i]++
				deg[j]++
				m++
			}
		}
	}
	if m != g.M() || !reflect.DeepEqual(deg, g.Degrees()) {
		t.Fatalf("%q: inconsistent counts", in)
	}
}

func c08Cycle(t *testing.T, in string, g graph.Graph) {
	a, err := graph.Graph6Decode(graph.Graph6Encode(g))
	if err != nil || !graph.Equal(a, g) {
		t.Fatalf("%q: graph6 cycle fails (%v)", in, err)
	}
	b, err := graph.Sparse6Decode(graph.Sparse6Encode(g))
	if err != nil || !graph.Equal(b, g) {
		t.Fatalf("%q: sparse6 cycle fails (%v)", in, err)
	}
}

func c08CheckOne(t *testing.T, in string) {
	defer func() {
		if r := recover(); r != nil {
			t.Fatalf("%q: panic %v", in, r)
		}
	}()
	body := in
	if len(body) >= 10 && body[:10] == ">>graph6<<" {
		body = body[10:]
	}
	if n, ok := c08DeclaredN(body); !ok || n <= 4096 {
		if g, err := graph.Graph6Decode(in); err == nil {
			if body == "" {
				n = 0
			}
			c08WellFormedDense(t, in, g, n)
			if n <= 300 {
				c08Cycle(t, in, g)
			}
		}
	}
	body = in
	if len(body) >= 11 && body[:11] == ">>sparse6<<" {
		body = body[11:]
	}
	if len(body) > 0 && body[0] == ':' {
		if n, ok := c08DeclaredN(body[1:]); ok && n > 4096 {
			return
		} else if g, err := graph.Sparse6Decode(in); err == nil {
			c08WellFormedSparse(t, in, g, n)
			if n <= 300 {
				c08Cycle(t, in, g)
			}
		}
	} else if _, err := graph.Sparse6Decode(in); err == nil {
		t.Fatalf("%q: sparse6 without ':' accepted", in)
	}
}

func c08Inputs() []string {
	in := []string{"", "~", ":", ":A", ":A~", ":?", ":@", ":@~~~", ":?~~~~~~~~~~~~", "?", "@", "A_", "A", "DQc", "~?", "~~", "~~?",
		":~", ":~~", ":~?@", ":~?@?~~~~~~", ":Fa@x^", ":D]N", ":C", ":C~~~", ":Bn", ":An", ":Cn~", ">>graph6<<", ">>sparse6<<",
		">>graph6<<DQc", ">>sparse6<<:Fa@x^", "DQc\n", ":Fa@x^\n", "Ks@HOo?PGdCK", ":K`ADOccQXK`IaXcQMb", ":~?~?", "~?@?",
		":Ji?c@pEUPBFaGhg@CKf", ":O`ACGPDC[QPJGYCqG\\KafPK`ckeSqDsIWyn", "~??C", "~~?????C", ":~??C~~", ":~~?????C~~~~"}
	rng := rand.New(rand.NewSource(8))
	for i := 0; i < 1500; i++ {
		n := rng.Intn(40)
		if i%50 == 0 {
			n = 63 + rng.Intn(200)
		}
		edges := make([]byte, n*(n-1)/2)
		p := rng.Float64() * rng.Float64()
		for j := range edges {
			if rng.Float64() < p {
				edges[j] = 1
			}
		}
		g := graph.NewDense(n, edges)
		for _, s := range []string{graph.Graph6Encode(g), graph.Sparse6Encode(g)} {
			in = append(in, s)
			b := []byte(s)
			switch rng.Intn(5) {
			case 0:
				b = b[:rng.Intn(len(b)+1)]
			case 1:
				for k := rng.Intn(4); k >= 0; k-- {
					b = append(b, byte(63+rng.Intn(64)))
				}
			case 2:
				if len(b) > 1 {
					b[1+rng.Intn(len(b)-1)] = byte(63 + rng.Intn(64))
				}
			case 3:
				if len(b) > 0 {
					b[rng.Intn(len(b))] = byte(rng.Intn(256))
				}
			case 4:
				if len(b) > 1 {
					b[1] = byte(63 + rng.Intn(63))
				}
			}
			in = append(in, string(b))
		}
	}
	for i := 0; i < 1500; i++ {
		b := make([]byte, rng.Intn(12))
		for j := range b {
			b[j] = byte(58 + rng.Intn(70))
		}
		if i%2 == 0 {
			b = append([]byte{':'}, b...)
		}
		in = append(in, string(b))
	}
	// A large, very sparse graph inside the domain.
	big := graph.NewSparse(4096, nil)
	for i := 0; i < 200; i++ {
		big.AddEdge(rng.Intn(4096), rng.Intn(4096))
	}
	in = append(in, graph.Sparse6Encode(big))
	return in
}

func TestC08DemoProperty(t *testing.T) {
	in := c08Inputs()
	for _, s := range in {
		c08CheckOne(t, s)
	}
	// Results held while later calls are made: decode everything, keep the graphs and a private copy of their edges.
	type held struct {
		s     string
		g     *graph.DenseGraph
		edges []byte
	}
	var hs []held
	for _, s := range in {
		if len(s) > 0 && s[0] == ':' {
			continue
		}
		if n, ok := c08DeclaredN(s); ok && n > 4096 {
			continue
		}
		if g, err := graph.Graph6Decode(s); err == nil {
			hs = append(hs, held{s, g, append([]byte(nil), g.Edges...)})
		}
	}
	for _, h := range hs {
		if !reflect.DeepEqual(h.edges, append([]byte(nil), h.g.Edges...)) {
			t.Fatalf("%q: held result changed by later decodes", h.s)
		}
		if graph.Graph6Encode(h.g) != graph.Graph6Encode(graph.NewDense(h.g.N(), h.edges)) {
			t.Fatalf("%q: held result inconsistent", h.s)
		}
	}
	// Concurrent decodes.
	var wg sync.WaitGroup
	for w := 0; w < 8; w++ {
		wg.Add(1)
		go func(w int) {
			defer wg.Done()
			for i := w; i < len(hs); i += 3 {
				g, err := graph.Graph6Decode(hs[i].s)
				if err != nil || !graph.Equal(g, hs[i].g) {
					t.Errorf("%q: concurrent decode differs", hs[i].s)
					return
				}
			}
		}(w)
	}
	wg.Wait()
}

func TestC08DemoIncidentalOld(t *testing.T) {
	const small = "Ks@HOo?PGdCK"
	if _, err := graph.Graph6Decode(small); err != nil {
		t.Fatal(err)
	}
	allocs := testing.AllocsPerRun(200, func() { graph.Graph6Decode(small) })
	t.Logf("allocations per Graph6Decode(%q): %v", small, allocs)
	if allocs != 4 {
		t.Errorf("allocations per decode of a 12-vertex graph: %v (old: 4 = scratch, copy, degrees, struct)", allocs)
	}

	n := 200
	edges := make([]byte, n*(n-1)/2)
	for i := range edges {
		edges[i] = byte(i % 3 & 1)
	}
	big := graph.Graph6Encode(graph.NewDense(n, edges))
	graph.Graph6Decode(big)
	const runs = 50
	var before, after runtime.MemStats
	runtime.ReadMemStats(&before)
	for i := 0; i < runs; i++ {
		graph.Graph6Decode(big)
	}
	runtime.ReadMemStats(&after)
	perRun := (after.TotalAlloc - before.TotalAlloc) / runs
	t.Logf("bytes allocated per decode of a %v-vertex graph: %v (edge array: %v)", n, perRun, len(edges))
	if perRun < uint64(2*len(edges)) {
		t.Errorf("a decode allocated %v bytes, less than two edge arrays (%v) (old: scratch + copy)", perRun, 2*len(edges))
	}
}

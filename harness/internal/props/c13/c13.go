// Package c13 monitors (*Dawg).Search with pattern and anagram searchers
// against a reference filter over the sorted word list (DESIGN.md section 4,
// C13): exactly the matching words, in lexicographic order, each with its
// rank; several searchers = intersection; the Dawg is unchanged and the
// searchers are back in their initial state afterwards.
package c13

import (
	"bytes"
	"fmt"

	"github.com/Tom-Johnston/mamba/dawg"

	"verif/internal/engine"
	"verif/internal/oracle/refdawg"
	"verif/internal/props/c12"
	"verif/internal/props/c12/dawgx"
)

func init() {
	engine.Register(&engine.Property{
		ID:    "C13",
		Level: "exploration",
		Rule: "exhaustive: ALL 2^15 word sets over the words of length <= 3 over {a,b} x ALL patterns and ALL anagrams (as sequences: the order of the letters matters to the constructor) of length <= 3 over {a,b,?} plus some of length 4, each with blank '?' and with blank 'a' (a letter of the alphabet; '?' is then a letter outside it), through searcher objects that are created once and reused over all the sets of a block; all pattern x anagram pairs of equal length on every 8th set (every set: thorough); the same over the 2^13 word sets of length <= 2 over {a,b,c} with all queries of length <= 2 over {a,b,c,?}; " +
			"fixed families x blanks at every subset of positions of short members (patterns and rotated anagrams), all-blank and empty queries; seeded sets (alphabets 1..256, up to 5000 words) x conjunctions of 0..3 seeded queries (members with blanks, near-members, letters outside the alphabet, repeated letters, blank equal to a letter), each searched twice on the Dawg, once on another Dawg and again on the first, partly through counting wrappers. " +
			"User-defined searchers (the Searcher interface is public): harness-written searchers (word length in a set, byte sum modulo m, prefix in a set, the pattern rule written again) alone and combined with the library's, on every 8th of the 2^15 sets and every 2nd of the 2^13 sets (all: thorough) x 28 fixed conjunctions, on the fixed families and on seeded sets; every searcher sits behind a recorder and the recorded callback protocol is checked (complete Step / Backstep / Chosen rounds over all searchers, AllowStep(b) == true of every searcher before Step(b), nesting with depth 0 at the end, AllowWord only where the stepped letters spell a stored word, one Chosen round per returned solution where the steps spell it); " +
			"re-entrancy: a searcher whose Chosen (or AllowWord) runs complete inner searches with fresh searchers on the SAME Dawg or on another one: inner and outer results must both equal the reference; every such search carries a step budget (AllowStep refuses after 8 x trie size + 1000 calls => Search|runaway); the same conjunction on a Dawg searched before (after deeper, shallower and unconstrained searches) and on a freshly built one. " +
			"Reference: filter of the sorted list with byte-wise match predicates; ids = ranks. non-trivial = a search on a Dawg with >= 2 words whose expected result is neither empty nor the whole set; distinct = (set, conjunction) by construction in the exhaustive part, by hash otherwise",
		Assumptions: []string{
			"oracle refdawg: match predicates over BYTES (pattern: equal length, every non-blank position equal; anagram: equal length, every non-blank letter at least as often in the word; validated against the permutation definition) applied to the sorted list",
			"no searcher at all = every word (the intersection over an empty family)",
			"the Dawgs are built with dawg.New; a set that cannot be built is C12's business and is skipped here (counted)",
			"the byte slices returned by Search belong to the caller: every result is overwritten after it has been judged, and the further searches, the node dump and the lookups judge that the Dawg shares no memory with them",
			"unchanged Dawg = identical node dump (verif accessor) and identical Lookup results before and after",
			"a Search may be started from inside a Searcher callback of a running Search on the same Dawg (the Dawg is read-only during a search, nothing in the documentation forbids it); both must behave as if run alone",
			"user-defined searchers are pure functions of the letters stepped so far; their reference predicates are in the harness",
		},
		Run:            run,
		MinEvaluations: map[string]int{"quick": 5000000, "thorough": 30000000},
		MinNontrivial:  map[string]int{"quick": 1000000, "thorough": 5000000},
		RequiredObs: []string{"searches:pattern", "searches:anagram", "searches:pattern&anagram", "searches:no-searcher", "searches_with_reused_searchers", "searches_on_a_second_dawg",
			"queries:blank_is_a_letter_of_the_set", "queries:letter_outside_the_set", "queries:anagram_with_repeated_letter", "queries:all_blank", "queries:empty", "dawg_unchanged_checks", "spy:balanced_step_backstep", "results:nonempty", "results:empty", "results_overwritten_by_the_caller",
			"protocol_traces_checked", "custom:user_searchers_only", "custom:user_and_library_searchers", "nested:from_Chosen_on_the_same_dawg", "nested:from_AllowWord_on_the_same_dawg", "nested:from_Chosen_on_another_dawg", "nested:from_AllowWord_on_another_dawg", "nested:inner_searches", "cold_warm_comparisons"},
	})
}

// spy wraps a library searcher and counts the protocol calls.
type spy struct {
	in        dawg.Searcher
	steps     int
	backsteps int
	depth     int
	minDepth  int
	chosen    int
}

func (s *spy) AllowStep(b byte) bool { return s.in.AllowStep(b) }
func (s *spy) Step(b byte)           { s.steps++; s.depth++; s.in.Step(b) }
func (s *spy) Backstep() {
	s.backsteps++
	s.depth--
	if s.depth < s.minDepth {
		s.minDepth = s.depth
	}
	s.in.Backstep()
}
func (s *spy) AllowWord() bool { return s.in.AllowWord() }
func (s *spy) Chosen()         { s.chosen++; s.in.Chosen() }

func kindsOf(qs []refdawg.Query) string {
	if len(qs) == 0 {
		return "no-searcher"
	}
	s := ""
	for i, q := range qs {
		if i > 0 {
			s += "&"
		}
		if q.Kind == 'p' {
			s += "pattern"
		} else {
			s += "anagram"
		}
	}
	return s
}

func witness(set *refdawg.Set, qs []refdawg.Query) string {
	w := dawgx.Witness(set.Words)
	tl := 0
	for _, q := range qs {
		tl += len(q.Text)
	}
	if len(w) > 6 && w[:6] == "words=" && len(qs) <= 2 && tl <= 8 {
		return w + "|" + refdawg.QueriesString(qs)
	}
	return kindsOf(qs) + "|" + w
}

func detail(workload string, set *refdawg.Set, qs []refdawg.Query, extra map[string]interface{}) map[string]interface{} {
	var q []map[string]interface{}
	for _, x := range qs {
		q = append(q, map[string]interface{}{"kind": map[byte]string{'p': "pattern", 'a': "anagram"}[x.Kind], "text_go_quoted": fmt.Sprintf("%q", x.Text), "blank": x.Blank})
	}
	m := map[string]interface{}{"searchers": q}
	for k, v := range extra {
		m[k] = v
	}
	return dawgx.Detail(workload, set, m)
}

func observeQuery(c *engine.Ctx, set *refdawg.Set, qs []refdawg.Query, nres int) {
	c.Obs("searches:"+kindsOf(qs), 1)
	if nres == 0 {
		c.Obs("results:empty", 1)
	} else {
		c.Obs("results:nonempty", 1)
		c.ObsMax("result_size", nres)
	}
	var inSet [256]bool
	for _, w := range set.Words {
		for _, b := range w {
			inSet[b] = true
		}
	}
	for _, q := range qs {
		if inSet[q.Blank] {
			c.Obs("queries:blank_is_a_letter_of_the_set", 1)
		}
		if len(q.Text) == 0 {
			c.Obs("queries:empty", 1)
		}
		allBlank := len(q.Text) > 0
		var cnt [256]int
		for _, b := range q.Text {
			if b != q.Blank {
				allBlank = false
				cnt[b]++
				if !inSet[b] {
					c.Obs("queries:letter_outside_the_set", 1)
				}
			}
		}
		if allBlank {
			c.Obs("queries:all_blank", 1)
		}
		if q.Kind == 'a' {
			for _, n := range cnt {
				if n >= 2 {
					c.Obs("queries:anagram_with_repeated_letter", 1)
					break
				}
			}
		}
	}
}

// overwriteResults: the words returned by Search are the caller's.  It first
// overwrites one of them and checks that the others did not change (results
// sharing memory with each other), then overwrites all of them; that the Dawg
// does not share memory with them is judged by everything that follows
// (further searches against the reference, node dump and lookups unchanged).
func overwriteResults(c *engine.Ctx, solns [][]byte) string {
	if len(solns) == 0 {
		return ""
	}
	keep := make([][]byte, len(solns))
	k := -1
	for i, w := range solns {
		keep[i] = append([]byte{}, w...)
		if k == -1 && len(w) > 0 {
			k = i
		}
	}
	msg := ""
	if k >= 0 {
		full := solns[k][:cap(solns[k])] // the spare capacity is the caller's as well (append)
		for i := range full {
			full[i] = '#'
		}
		for i, w := range solns {
			if i != k && !bytes.Equal(w, keep[i]) {
				msg = fmt.Sprintf("after overwriting result #%d (%q) result #%d reads %q instead of %q", k, keep[k], i, w, keep[i])
				break
			}
		}
	}
	for _, w := range solns {
		for i := range w {
			w[i] = '#'
		}
		if cap(w) > len(w) {
			w = w[:cap(w)]
			for i := range w {
				w[i] = '#'
			}
		}
	}
	c.Obs("results_overwritten_by_the_caller", 1)
	return msg
}

func nontrivialResult(set *refdawg.Set, nres int) bool {
	return set.Len() >= 2 && nres > 0 && nres < set.Len()
}

// built is a Dawg with its model.
type built struct {
	d     *dawg.Dawg
	set   *refdawg.Set
	alpha []byte
	label string
}

// buildFor builds the Dawg of a set; a failure is not judged here.
func buildFor(c *engine.Ctx, callKey string, set *refdawg.Set) *dawg.Dawg {
	d, err, pi := dawgx.Build(c, callKey+"|New", set.Words)
	if pi != nil || err != nil || d == nil {
		c.Obs("builds_failed_not_judged_here(C12)", 1)
		return nil
	}
	return d
}

// snapshot reads what must not change: the node dump and all lookups.
type snapshot struct {
	nodes []dawg.VerifNode
	ranks []int
	oks   []bool
}

func snap(c *engine.Ctx, callKey string, b *built, lookups [][]byte) (*snapshot, bool) {
	s := &snapshot{}
	nodes, pi := dawgx.Nodes(c, callKey, b.d)
	if pi != nil {
		return nil, false
	}
	s.nodes = nodes
	s.ranks = make([]int, len(lookups))
	s.oks = make([]bool, len(lookups))
	if pi := c.Call(callKey+"|Lookup", func() {
		for i, w := range lookups {
			s.ranks[i], s.oks[i] = b.d.Lookup(w)
		}
	}); pi != nil {
		return nil, false
	}
	return s, true
}

func checkUnchanged(c *engine.Ctx, workload, callKey string, b *built, before *snapshot, lookups [][]byte) bool {
	after, ok := snap(c, callKey+"|after", b, lookups)
	c.Eval(1)
	if !ok {
		c.Violation("Search|dawg-unreadable-afterwards|"+dawgx.Witness(b.set.Words), dawgx.Detail(workload, b.set, map[string]interface{}{"call": callKey}), "VerifNodes / Lookup panicked after the searches", "the Dawg as before")
		return false
	}
	if diff := dawgx.NodesEqual(before.nodes, after.nodes); diff != "" {
		c.Violation("Search|modified-the-dawg|"+dawgx.Witness(b.set.Words), dawgx.Detail(workload, b.set, map[string]interface{}{"call": callKey}), diff, "identical node dumps before and after the searches")
		return false
	}
	for i := range lookups {
		if before.ranks[i] != after.ranks[i] || before.oks[i] != after.oks[i] {
			c.Violation("Search|changed-lookup|"+dawgx.Witness(b.set.Words), dawgx.Detail(workload, b.set, map[string]interface{}{"call": callKey}), fmt.Sprintf("Lookup(%q) = (%d,%v) after the searches", lookups[i], after.ranks[i], after.oks[i]), fmt.Sprintf("(%d,%v) as before", before.ranks[i], before.oks[i]))
			return false
		}
	}
	c.Obs("dawg_unchanged_checks", 1)
	return true
}

// judge compares one search result with the reference; on a mismatch with
// reused searchers it repeats the search with fresh ones to tell a wrong
// search from a searcher that did not return to its initial state.
func judge(c *engine.Ctx, workload, callKey string, b *built, qs []refdawg.Query, solns [][]byte, ids []int, reused bool, round string) bool {
	c.Eval(1)
	f := dawgx.CompareSearch(solns, ids, b.set, qs)
	if f == nil {
		return true
	}
	kind := f.Kind
	det := detail(workload, b.set, qs, map[string]interface{}{"call": callKey, "round": round})
	if reused {
		fresh, pi := dawgx.Searchers(c, callKey+"|fresh", qs)
		if pi == nil {
			s2, i2, pi2 := dawgx.Search(c, callKey+"|fresh-search", b.d, fresh)
			if pi2 == nil && dawgx.CompareSearch(s2, i2, b.set, qs) == nil {
				kind = "searcher-not-back-in-initial-state"
				f.Observed += " (fresh searchers give the expected result)"
			}
		}
	}
	c.Violation("Search|"+kind+"|"+witness(b.set, qs), det, f.Observed, f.Expected)
	return false
}

func run(c *engine.Ctx) {
	exhaustive(c)
	familiesPart(c)
	seeded(c)
	// user-defined searchers, callback protocol, nested searches, cold / warm Dawgs (custom.go)
	customExhaustive(c)
	customFamiliesAndSeeded(c)
}

// ---- 1. exhaustive ----

func exhaustive(c *engine.Ctx) {
	exhaustiveOver(c, "exhaustive", "ab", 3, []string{"????", "a???", "abab", "?aab", "bb?a"}, 128, c.Pick(8, 1))
	exhaustiveOver(c, "exhaustive3", "abc", 2, []string{"???", "a??", "cab", "?ca", "cc?", "abc?"}, 32, c.Pick(64, 8))
}

// exhaustiveOver: every subset of the words of length <= maxLen over the
// alphabet x every pattern and anagram of length <= maxLen over alphabet+'?'
// (plus the extra texts), with blank '?' and with blank 'a'; all pattern x
// anagram pairs of equal length on every pairEvery-th set.
func exhaustiveOver(c *engine.Ctx, name, alphabet string, maxLen int, extra []string, blocks, pairEvery int) {
	u := refdawg.Universe([]byte(alphabet), maxLen)
	texts := refdawg.Universe([]byte(alphabet+"?"), maxLen)
	for _, e := range extra {
		texts = append(texts, []byte(e))
	}
	var single []refdawg.Query
	for _, blank := range []byte{'?', 'a'} {
		for _, k := range []byte{'p', 'a'} {
			for _, t := range texts {
				single = append(single, refdawg.Query{Kind: k, Text: t, Blank: blank})
			}
		}
	}
	// pairs: pattern x anagram of equal length <= maxLen, blank '?'
	var pairs [][2]refdawg.Query
	for _, p := range texts {
		for _, a := range texts {
			if len(p) == len(a) && len(p) <= maxLen {
				pairs = append(pairs, [2]refdawg.Query{{Kind: 'p', Text: p, Blank: '?'}, {Kind: 'a', Text: a, Blank: '?'}})
			}
		}
	}
	per := (1 << uint(len(u))) / blocks
	label := fmt.Sprintf("all 2^%d sets over the words of length<=%d over {%s} x all patterns/anagrams of length<=%d over {%s,?}", len(u), maxLen, alphabet, maxLen, alphabet)
	for blk := 0; blk < blocks; blk++ {
		blk := blk
		c.Unit(fmt.Sprintf("%s/%03d", name, blk), func() {
			// searcher objects created once per block and reused over all its sets
			var objs []dawg.Searcher
			for _, q := range single {
				ss, pi := dawgx.Searchers(c, name+"|NewSearcher|"+q.String(), []refdawg.Query{q})
				if pi != nil {
					dawgx.Report(c, nil, pi, "NewSearcher", q.String(), map[string]interface{}{"query": q.String()})
					return
				}
				objs = append(objs, ss[0])
			}
			var pobjs [][]dawg.Searcher
			for _, pq := range pairs {
				ss, pi := dawgx.Searchers(c, name+"|NewSearcher|pair", pq[:])
				if pi != nil {
					dawgx.Report(c, nil, pi, "NewSearcher", refdawg.QueriesString(pq[:]), nil)
					return
				}
				pobjs = append(pobjs, ss)
			}
			nt := 0
			res := make([][][]byte, len(objs))
			rid := make([][]int, len(objs))
			for mask := blk * per; mask < (blk+1)*per; mask++ {
				set := c12.SubsetOf(u, mask)
				callKey := fmt.Sprintf("%s|mask=%d", name, mask)
				d := buildFor(c, callKey, set)
				if d == nil {
					continue
				}
				b := &built{d: d, set: set, label: label}
				before, ok := snap(c, callKey+"|before", b, u)
				if !ok {
					c.Obs("builds_failed_not_judged_here(C12)", 1)
					continue
				}
				at := 0
				if pi := c.Call(callKey+"|Search(all single queries)", func() {
					for at = 0; at < len(objs); at++ {
						res[at], rid[at] = d.Search(objs[at])
					}
				}); pi != nil {
					dawgx.Report(c, nil, pi, "Search", witness(set, []refdawg.Query{single[at]}), detail(label, set, []refdawg.Query{single[at]}, map[string]interface{}{"call": callKey}))
					return // the reused searchers are in an unknown state now
				}
				bad := false
				for i, q := range single {
					qs := []refdawg.Query{q}
					if !judge(c, label, callKey, b, qs, res[i], rid[i], true, "reused searcher object") {
						bad = true
						break
					}
					if nontrivialResult(set, len(res[i])) {
						nt++
					}
					if mask%64 == 5 {
						observeQuery(c, set, qs, len(res[i]))
					}
				}
				c.Obs("searches_with_reused_searchers", len(single))
				if !bad {
					for i := range res {
						if msg := overwriteResults(c, res[i]); msg != "" {
							c.Violation("Search|results-share-memory|"+witness(set, []refdawg.Query{single[i]}), detail(label, set, []refdawg.Query{single[i]}, map[string]interface{}{"call": callKey}), msg, "independent byte slices")
							bad = true
							break
						}
					}
				}
				if bad {
					return // later results of the reused searchers would only repeat the finding
				}
				// no searcher: every word with its rank
				s0, i0, pi := dawgx.Search(c, callKey+"|Search()", d, nil)
				if pi != nil {
					dawgx.Report(c, nil, pi, "Search", witness(set, nil), detail(label, set, nil, nil))
					continue
				}
				if !judge(c, label, callKey, b, nil, s0, i0, false, "") {
					continue
				}
				c.Obs("searches:no-searcher", 1)
				if mask%pairEvery == 1%pairEvery {
					pres := make([][][]byte, len(pobjs))
					pid := make([][]int, len(pobjs))
					if pi := c.Call(callKey+"|Search(all pairs)", func() {
						for at = 0; at < len(pobjs); at++ {
							pres[at], pid[at] = d.Search(pobjs[at]...)
						}
					}); pi != nil {
						dawgx.Report(c, nil, pi, "Search", witness(set, pairs[at][:]), detail(label, set, pairs[at][:], map[string]interface{}{"call": callKey}))
						return
					}
					for i := range pairs {
						if !judge(c, label, callKey, b, pairs[i][:], pres[i], pid[i], true, "reused pair of searcher objects") {
							return
						}
						if nontrivialResult(set, len(pres[i])) {
							nt++
						}
					}
					c.Obs("searches:pattern&anagram", len(pairs))
					c.Obs("searches_with_reused_searchers", len(pairs))
				}
				if !checkUnchanged(c, label, callKey, b, before, u) {
					continue
				}
			}
			c.NTDistinct(nt)
			c.Obs("exhaustive_sets_searched", per)
			if blk == 0 {
				c.Obs("exhaustive:"+label+fmt.Sprintf(" (%d searcher objects, blanks '?' and 'a'), pattern x anagram pairs of equal length on every %dth set", len(single), pairEvery), 1)
				c.Sample(name, map[string]interface{}{"universe": refdawg.QuoteList(u, 30), "single_queries": len(single), "pairs": len(pairs), "examples": []string{single[7].String(), single[len(single)/3].String(), single[2*len(single)/3].String(), refdawg.QueriesString(pairs[len(pairs)/8][:])}})
			}
		})
	}
}

// ---- 2. fixed families ----

func blankSubsets(w []byte, blank byte, max int) [][]byte {
	var out [][]byte
	n := len(w)
	if n > 10 {
		return nil
	}
	for m := 0; m < 1<<uint(n) && len(out) < max; m++ {
		t := append([]byte{}, w...)
		for i := 0; i < n; i++ {
			if m>>uint(i)&1 == 1 {
				t[i] = blank
			}
		}
		out = append(out, t)
	}
	return out
}

func rotate(t []byte, k int) []byte {
	if len(t) == 0 {
		return t
	}
	k %= len(t)
	return append(append([]byte{}, t[k:]...), t[:k]...)
}

func familiesPart(c *engine.Ctx) {
	for fi, fam := range c12.FixedFamilies() {
		fi, fam := fi, fam
		c.Unit("family/"+fam.Name, func() {
			set := fam.Set
			callKey := "family|" + fam.Name
			d := buildFor(c, callKey, set)
			if d == nil {
				return
			}
			b := &built{d: d, set: set, alpha: fam.Alpha, label: "family " + fam.Name}
			lookups := set.Words
			if len(lookups) > 600 {
				lookups = lookups[:600]
			}
			before, ok := snap(c, callKey+"|before", b, lookups)
			if !ok {
				return
			}
			rg := engine.NewRng(uint64(7000 + fi))
			var qss [][]refdawg.Query
			qss = append(qss, nil)
			// blanks at every subset of positions of short members
			budget := 2500
			stride := 1 + set.Len()/40
			for i := 0; i < set.Len() && budget > 0; i += stride {
				w := set.Words[i]
				for _, blank := range []byte{0, 'a'} {
					subs := blankSubsets(w, blank, 64)
					for k, t := range subs {
						qss = append(qss, []refdawg.Query{{Kind: 'p', Text: t, Blank: blank}})
						qss = append(qss, []refdawg.Query{{Kind: 'a', Text: rotate(t, k), Blank: blank}})
						if k%5 == 0 {
							qss = append(qss, []refdawg.Query{{Kind: 'p', Text: t, Blank: blank}, {Kind: 'a', Text: rotate(subs[(k*7+3)%len(subs)], k), Blank: blank}})
						}
						budget -= 2
					}
				}
			}
			for l := 0; l <= 6; l++ {
				qss = append(qss, []refdawg.Query{{Kind: 'p', Text: bytes.Repeat([]byte{'?'}, l), Blank: '?'}})
				qss = append(qss, []refdawg.Query{{Kind: 'a', Text: bytes.Repeat([]byte{'?'}, l), Blank: '?'}})
			}
			for i := 0; i < 300; i++ {
				qss = append(qss, refdawg.GenQueries(set, fam.Alpha, rg))
			}
			for qi, qs := range qss {
				if !searchRounds(c, b, nil, fmt.Sprintf("%s|q%d", callKey, qi), qs, qi%4 == 1) {
					break
				}
			}
			checkUnchanged(c, b.label, callKey, b, before, lookups)
			if fam.Name == "repo-anagram-words" {
				c.Sample("family", map[string]interface{}{"name": fam.Name, "words": set.Quoted(20), "conjunctions": len(qss), "example": refdawg.QueriesString(qss[17])})
			}
		})
	}
}

// searchRounds creates the searchers of one conjunction once and searches
// with the same objects: twice on b, once on other (if any), again on b.
func searchRounds(c *engine.Ctx, b, other *built, callKey string, qs []refdawg.Query, useSpy bool) bool {
	ss, pi := dawgx.Searchers(c, callKey, qs)
	if pi != nil {
		dawgx.Report(c, nil, pi, "NewSearcher", witness(b.set, qs), detail(b.label, b.set, qs, map[string]interface{}{"call": callKey}))
		return false
	}
	var spies []*spy
	if useSpy && len(ss) > 0 {
		for i := range ss {
			sp := &spy{in: ss[i]}
			spies = append(spies, sp)
			ss[i] = sp
		}
	}
	rounds := []struct {
		on   *built
		name string
	}{{b, "first search"}, {b, "second search with the same searcher objects"}, {other, "same searcher objects on another Dawg"}, {b, "same searcher objects back on the first Dawg"}}
	for ri, r := range rounds {
		if r.on == nil {
			continue
		}
		solns, ids, pi := dawgx.Search(c, fmt.Sprintf("%s|round%d", callKey, ri), r.on.d, ss)
		if pi != nil {
			dawgx.Report(c, nil, pi, "Search", witness(r.on.set, qs), detail(r.on.label, r.on.set, qs, map[string]interface{}{"call": callKey, "round": r.name}))
			return false
		}
		if !judge(c, r.on.label, callKey, r.on, qs, solns, ids, ri > 0, r.name) {
			return false
		}
		nres := len(solns)
		if msg := overwriteResults(c, solns); msg != "" {
			c.Violation("Search|results-share-memory|"+witness(r.on.set, qs), detail(r.on.label, r.on.set, qs, map[string]interface{}{"call": callKey, "round": r.name}), msg, "independent byte slices")
			return false
		}
		if ri > 0 {
			c.Obs("searches_with_reused_searchers", 1)
		}
		if ri == 2 {
			c.Obs("searches_on_a_second_dawg", 1)
		}
		if ri == 0 {
			observeQuery(c, b.set, qs, nres)
			if nontrivialResult(b.set, nres) {
				c.NT(b.set.Hash(), refdawg.QueriesString(qs))
			}
		}
		for _, sp := range spies {
			c.Eval(1)
			if sp.steps != sp.backsteps || sp.minDepth < 0 {
				c.Violation("Search|unbalanced-step-backstep|"+witness(r.on.set, qs), detail(r.on.label, r.on.set, qs, map[string]interface{}{"call": callKey, "round": r.name}),
					fmt.Sprintf("%d Step calls, %d Backstep calls, lowest depth %d", sp.steps, sp.backsteps, sp.minDepth), "every Step undone by exactly one later Backstep")
				return false
			}
			c.Obs("spy:balanced_step_backstep", 1)
			c.ObsMax("spy:steps_in_one_search", sp.steps)
			sp.steps, sp.backsteps, sp.minDepth = 0, 0, 0
		}
	}
	return true
}

// ---- 3. seeded ----

func seeded(c *engine.Ctx) {
	nSets := c.Pick(12000, 80000)
	perUnit := 40
	for un := 0; un*perUnit < nSets; un++ {
		un := un
		c.Unit(fmt.Sprintf("seeded/%d", un), func() {
			var prev *built
			for i := un * perUnit; i < (un+1)*perUnit && i < nSets; i++ {
				rg := c.Rand("c13-sets", i)
				maxWords := 300
				if i%40 == 11 {
					maxWords = 5000
				}
				set, alpha, info := refdawg.GenSet(rg, maxWords)
				callKey := fmt.Sprintf("seeded#%d", i)
				d := buildFor(c, callKey, set)
				if d == nil {
					continue
				}
				b := &built{d: d, set: set, alpha: alpha, label: "seeded " + info.String()}
				lookups := set.Words
				if len(lookups) > 300 {
					lookups = lookups[:300]
				}
				before, ok := snap(c, callKey+"|before", b, lookups)
				if !ok {
					continue
				}
				nq := 40
				if set.Len() > 1000 {
					nq = 12
				}
				for qi := 0; qi < nq; qi++ {
					qs := refdawg.GenQueries(set, alpha, rg)
					if !searchRounds(c, b, prev, fmt.Sprintf("%s|q%d", callKey, qi), qs, qi%4 == 1) {
						break
					}
					if c.Stopped() {
						return
					}
				}
				checkUnchanged(c, b.label, callKey, b, before, lookups)
				c.Obs("gen:"+info.Mode, 1)
				if info.Alphabet >= 128 {
					c.Obs("sets_alphabet>=128", 1)
				}
				c.ObsMax("words_in_a_set", set.Len())
				if i < 2 {
					c.Sample("seeded", map[string]interface{}{"gen": info.String(), "words": set.Quoted(10), "example_conjunction": refdawg.QueriesString(refdawg.GenQueries(set, alpha, rg))})
				}
				prev = b
			}
		})
	}
}

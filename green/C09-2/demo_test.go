// Demo for C09 change 2: AllMaximalCliques and CliqueNumber share one Bron-Kerbosch routine whose first pass runs
// over a degeneracy ordering of the vertices.
//
// Run (from the root of the library worktree, offline):
//
//	export GOFLAGS=-mod=mod GOPROXY=off GOSUMDB=off GOTOOLCHAIN=local
//	mkdir -p greendemo && cp /tmp/green-out/C09/2/demo_test.go greendemo/demo_test.go
//	go test -vet=off -count=1 -timeout 600s -v ./greendemo
//	rm -r greendemo
//
// TestIncidentalCliqueSequence asserts the exact sequence in which the OLD implementation sends the maximal cliques
// on the channel, and the order of the vertices inside each clique (neither is documented): it PASSES on the clean
// tree and FAILS with the change.
// TestPropertyCliques checks what C09 actually demands (the set of maximal cliques, each exactly once; exact clique,
// independence and chromatic numbers with a proper optimal colouring; same values for every labelling and
// representation): it PASSES on both trees.
package greendemo

import (
	"fmt"
	"math/rand"
	"sort"
	"testing"

	"github.com/Tom-Johnston/mamba/graph"
	"github.com/Tom-Johnston/mamba/sortints"
)

// fromMask builds the adjacency matrix of the labelled graph on n vertices whose edge {i,j}, i<j, is present when
// bit j(j-1)/2+i of mask is set.
func fromMask(n int, mask uint64) [][]bool {
	adj := make([][]bool, n)
	for i := range adj {
		adj[i] = make([]bool, n)
	}
	for j := 1; j < n; j++ {
		for i := 0; i < j; i++ {
			if mask&(1<<uint(j*(j-1)/2+i)) != 0 {
				adj[i][j] = true
				adj[j][i] = true
			}
		}
	}
	return adj
}

func dense(adj [][]bool) *graph.DenseGraph {
	n := len(adj)
	g := graph.NewDense(n, nil)
	for j := 1; j < n; j++ {
		for i := 0; i < j; i++ {
			if adj[i][j] {
				g.AddEdge(i, j)
			}
		}
	}
	return g
}

func sparse(adj [][]bool) *graph.SparseGraph {
	n := len(adj)
	nbrs := make([]sortints.SortedInts, n)
	for i := 0; i < n; i++ {
		nbrs[i] = sortints.SortedInts{}
		for j := 0; j < n; j++ {
			if adj[i][j] {
				nbrs[i] = append(nbrs[i], j)
			}
		}
	}
	return graph.NewSparse(n, nbrs)
}

// representations returns the same labelled graph as a dense graph, a sparse graph, the complement view of the dense
// complement and an induced-subgraph view on all the vertices.
func representations(adj [][]bool) map[string]graph.Graph {
	n := len(adj)
	all := make([]int, n)
	for i := range all {
		all[i] = i
	}
	return map[string]graph.Graph{
		"dense":           dense(adj),
		"sparse":          sparse(adj),
		"complement view": graph.Complement(graph.ComplementDense(dense(adj))),
		"induced view":    graph.InducedSubgraph(sparse(adj), all),
	}
}

func relabel(adj [][]bool, perm []int) [][]bool {
	n := len(adj)
	out := make([][]bool, n)
	for i := range out {
		out[i] = make([]bool, n)
	}
	for i := 0; i < n; i++ {
		for j := 0; j < n; j++ {
			out[perm[i]][perm[j]] = adj[i][j]
		}
	}
	return out
}

// bruteMaximalCliques returns the maximal cliques of the graph as sorted bitmasks (the empty set for n = 0).
func bruteMaximalCliques(adj [][]bool) []int {
	n := len(adj)
	nbr := make([]int, n)
	for i := 0; i < n; i++ {
		for j := 0; j < n; j++ {
			if adj[i][j] {
				nbr[i] |= 1 << uint(j)
			}
		}
	}
	out := []int{}
	for s := 0; s < 1<<uint(n); s++ {
		clique := true
		common := 1<<uint(n) - 1
		for v := 0; v < n && clique; v++ {
			if s&(1<<uint(v)) != 0 {
				if s&^(1<<uint(v))&^nbr[v] != 0 {
					clique = false
				}
				common &= nbr[v]
			}
		}
		//s is maximal when no vertex outside s is adjacent to all of s.
		if clique && common&^s == 0 {
			out = append(out, s)
		}
	}
	return out
}

func popcount(s int) int {
	c := 0
	for ; s != 0; s &= s - 1 {
		c++
	}
	return c
}

// bruteChromatic returns the chromatic number by exhaustive backtracking.
func bruteChromatic(adj [][]bool) int {
	n := len(adj)
	col := make([]int, n)
	var rec func(v, used, k int) bool
	rec = func(v, used, k int) bool {
		if v == n {
			return true
		}
		for c := 0; c < k && c <= used; c++ {
			ok := true
			for u := 0; u < v; u++ {
				if adj[u][v] && col[u] == c {
					ok = false
					break
				}
			}
			if ok {
				col[v] = c
				nu := used
				if c == used {
					nu++
				}
				if rec(v+1, nu, k) {
					return true
				}
			}
		}
		return false
	}
	for k := 0; ; k++ {
		if rec(0, 0, k) {
			return k
		}
	}
}

func collect(g graph.Graph) [][]int {
	c := make(chan []int)
	go graph.AllMaximalCliques(g, c)
	out := [][]int{}
	for clique := range c {
		cp := make([]int, len(clique))
		copy(cp, clique)
		out = append(out, cp)
	}
	return out
}

// checkCliques checks every clique, independence and vertex colouring demand of C09 on one representation.
func checkCliques(adj [][]bool, g graph.Graph, wantCliques []int, wantAlpha int, wantChi int) error {
	n := len(adj)
	got := []int{}
	for _, clique := range collect(g) {
		s := 0
		for _, v := range clique {
			if v < 0 || v >= n || s&(1<<uint(v)) != 0 {
				return fmt.Errorf("clique %v has a repeated or invalid vertex", clique)
			}
			s |= 1 << uint(v)
		}
		got = append(got, s)
	}
	sort.Ints(got)
	if fmt.Sprint(got) != fmt.Sprint(wantCliques) {
		return fmt.Errorf("AllMaximalCliques gives the vertex sets %v, want %v", got, wantCliques)
	}
	omega := 0
	for _, s := range wantCliques {
		if popcount(s) > omega {
			omega = popcount(s)
		}
	}
	if w := graph.CliqueNumber(g); w != omega {
		return fmt.Errorf("CliqueNumber = %d, want %d", w, omega)
	}
	if a := graph.IndependenceNumber(g); a != wantAlpha {
		return fmt.Errorf("IndependenceNumber = %d, want %d", a, wantAlpha)
	}
	chi, colouring := graph.ChromaticNumber(g)
	if chi != wantChi {
		return fmt.Errorf("ChromaticNumber = %d, want %d", chi, wantChi)
	}
	if len(colouring) != n {
		return fmt.Errorf("colouring %v has the wrong length", colouring)
	}
	used := map[int]bool{}
	for v, c := range colouring {
		if c < 0 || c >= chi {
			return fmt.Errorf("colouring %v uses a colour outside [0,%d)", colouring, chi)
		}
		used[c] = true
		for u := 0; u < v; u++ {
			if adj[u][v] && colouring[u] == c {
				return fmt.Errorf("colouring %v is not proper", colouring)
			}
		}
	}
	if len(used) != chi {
		return fmt.Errorf("colouring %v does not use exactly %d colours", colouring, chi)
	}
	for k := 0; k <= n+1; k++ {
		ok, col := graph.IsKColorable(g, k)
		if ok != (k >= wantChi) {
			return fmt.Errorf("IsKColorable(%d) = %v with chromatic number %d", k, ok, wantChi)
		}
		if ok && !graph.IsProperColouring(g, col) {
			return fmt.Errorf("IsKColorable(%d) gives the improper colouring %v", k, col)
		}
	}
	return nil
}

func complementAdj(adj [][]bool) [][]bool {
	n := len(adj)
	out := make([][]bool, n)
	for i := range out {
		out[i] = make([]bool, n)
		for j := range out[i] {
			out[i][j] = i != j && !adj[i][j]
		}
	}
	return out
}

func alpha(adj [][]bool) int {
	a := 0
	for _, s := range bruteMaximalCliques(complementAdj(adj)) {
		if popcount(s) > a {
			a = popcount(s)
		}
	}
	return a
}

func TestPropertyCliques(t *testing.T) {
	//Every labelled graph on at most 6 vertices, every representation.
	for n := 0; n <= 6; n++ {
		for mask := uint64(0); mask < 1<<uint(n*(n-1)/2); mask++ {
			adj := fromMask(n, mask)
			want := bruteMaximalCliques(adj)
			a := alpha(adj)
			chi := bruteChromatic(adj)
			for name, g := range representations(adj) {
				if err := checkCliques(adj, g, want, a, chi); err != nil {
					t.Fatalf("n=%d mask=%d %s: %v", n, mask, name, err)
				}
			}
		}
	}
	//Random larger graphs and random relabellings.
	rng := rand.New(rand.NewSource(9))
	for iter := 0; iter < 200; iter++ {
		n := 7 + rng.Intn(6)
		p := rng.Float64()
		adj := make([][]bool, n)
		for i := range adj {
			adj[i] = make([]bool, n)
		}
		for j := 1; j < n; j++ {
			for i := 0; i < j; i++ {
				if rng.Float64() < p {
					adj[i][j], adj[j][i] = true, true
				}
			}
		}
		a := alpha(adj)
		chi := bruteChromatic(adj)
		for r := 0; r < 3; r++ {
			b := adj
			if r > 0 {
				b = relabel(adj, rng.Perm(n))
			}
			want := bruteMaximalCliques(b)
			for name, g := range representations(b) {
				if err := checkCliques(b, g, want, a, chi); err != nil {
					t.Fatalf("random %d relabelling %d %s: %v", iter, r, name, err)
				}
			}
		}
	}
}

func TestIncidentalCliqueSequence(t *testing.T) {
	cases := []struct {
		name string
		g    graph.Graph
		old  string
	}{
		{"Path(4)", graph.Path(4), "[[1 0] [1 2] [3 2]]"},
		{"Cycle(5)", graph.Cycle(5), "[[0 1] [0 4] [2 1] [3 2] [3 4]]"},
		{"Star(4)", graph.Star(4), "[[0 1] [0 2] [0 3]]"},
		{"FriendshipGraph(2)", graph.FriendshipGraph(2), "[[0 1 2] [0 4 3]]"},
		{"K_{2,2,2}", graph.CompletePartiteGraph(2, 2, 2), "[[0 5 2] [0 5 3] [0 4 2] [0 4 3] [1 2 5] [1 2 4] [1 3 4] [1 3 5]]"},
		{"sparse Path(5)", sparse(fromMask(5, 1|1<<2|1<<5|1<<9)), "[[1 0] [1 2] [3 2] [4 3]]"},
	}
	for _, c := range cases {
		got := fmt.Sprint(collect(c.g))
		t.Logf("%s: %s", c.name, got)
		if got != c.old {
			t.Errorf("%s: cliques arrive as %s, the old implementation sent %s (incidental)", c.name, got, c.old)
		}
	}
}

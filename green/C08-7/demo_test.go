// Demo for C08 green change 7 (Graph6Decode builds the DenseGraph in one pass and leaves room for one more vertex
// in the backing arrays it owns).
//
// Run (from the root of the library worktree):
//
//	cp /tmp/green-out/C08/7/demo_test.go graph/zz_c08_demo_test.go
//	export GOFLAGS=-mod=mod GOPROXY=off GOSUMDB=off GOTOOLCHAIN=local
//	go test -vet=off -count=1 -timeout 300s -run 'TestC08Demo' -v ./graph/
//	rm graph/zz_c08_demo_test.go
//
// TestC08DemoProperty       checks the property itself on random, truncated, padded and corrupted strings with a
//
//	declared n <= 4096 (no panic; error or well-formed graph on the declared n; re-encode and
//	decode again gives the same graph), plus the histories a caller may build on a result
//	(AddVertex / AddEdge / RemoveVertex after decoding, two decodes are independent).
//	PASSES on the clean tree and with the change.
//
// TestC08DemoIncidentalOld  asserts the OLD capacities: len == cap for Edges and DegreeSequence of a decoded graph,
//
//	two appends to g.Edges do not see each other, AddVertex moves the adjacency data to a new
//	array, a decode costs 4 allocations.  PASSES on the clean tree, FAILS with the change.
package graph_test

import (
	"fmt"
	"math/rand"
	"testing"

	"github.com/Tom-Johnston/mamba/graph"
)

func c08WellFormedDense(g *graph.DenseGraph, n int) error {
	if g == nil {
		return fmt.Errorf("nil graph")
	}
	if g.N() != n || g.NumberOfVertices != n {
		return fmt.Errorf("N = %v, declared %v", g.N(), n)
	}
	if len(g.Edges) != n*(n-1)/2 || len(g.DegreeSequence) != n {
		return fmt.Errorf("lengths %v %v", len(g.Edges), len(g.DegreeSequence))
	}
	deg := make([]int, n)
	m := 0
	idx := 0
	for j := 0; j < n; j++ {
		for i := 0; i < j; i++ {
			if g.Edges[idx] > 0 {
				deg[i]++
				deg[j]++
				m++
			}
			if g.IsEdge(i, j) != (g.Edges[idx] > 0) || g.IsEdge(j, i) != g.IsEdge(i, j) {
				return fmt.Errorf("IsEdge(%v,%v) inconsistent", i, j)
			}
			idx++
		}
	}
	if m != g.M() {
		return fmt.Errorf("M = %v, counted %v", g.M(), m)
	}
	for v := range deg {
		if deg[v] != g.DegreeSequence[v] || len(g.Neighbours(v)) != deg[v] {
			return fmt.Errorf("degree of %v", v)
		}
	}
	return nil
}

// declaredN6 reads the size header of a graph6 / sparse6 body the way formats.txt defines it (ok=false if it is cut short).
func declaredN6(s string) (n uint64, ok bool) {
	if len(s) == 0 {
		return 0, false
	}
	if s[0] != 126 {
		return uint64(s[0] - 63), true
	}
	if len(s) < 2 || s[1] != 126 {
		if len(s) < 4 {
			return 0, false
		}
		return uint64(s[1]-63)<<12 + uint64(s[2]-63)<<6 + uint64(s[3]-63), true
	}
	if len(s) < 8 {
		return 0, false
	}
	for _, c := range []byte(s[2:8]) {
		n = n<<6 + uint64(c-63)
	}
	return n, true
}

func c08CheckGraph6(t *testing.T, s string) {
	t.Helper()
	body := s
	if len(body) >= 10 && body[:10] == ">>graph6<<" {
		body = body[10:]
	}
	inRange := true
	for i := 0; i < len(body); i++ {
		if body[i] < 63 || body[i] > 126 {
			inRange = false
		}
	}
	if inRange {
		if n, ok := declaredN6(body); ok && n > 4096 {
			return //outside the quantifier
		}
	}
	var g *graph.DenseGraph
	var err error
	func() {
		defer func() {
			if r := recover(); r != nil {
				t.Fatalf("Graph6Decode(%q) panicked: %v", s, r)
			}
		}()
		g, err = graph.Graph6Decode(s)
	}()
	if err != nil {
		return
	}
	n := 0
	if len(body) > 0 {
		d, _ := declaredN6(body)
		n = int(d)
	}
	if e := c08WellFormedDense(g, n); e != nil {
		t.Fatalf("Graph6Decode(%q): %v", s, e)
	}
	h, err := graph.Graph6Decode(graph.Graph6Encode(g))
	if err != nil || !graph.Equal(g, h) || c08WellFormedDense(h, n) != nil {
		t.Fatalf("Graph6Decode(%q): round trip failed", s)
	}
	sp, err := graph.Sparse6Decode(graph.Sparse6Encode(g))
	if err != nil || !graph.Equal(g, sp) {
		t.Fatalf("Graph6Decode(%q): sparse6 round trip failed", s)
	}
}

func TestC08DemoProperty(t *testing.T) {
	rng := rand.New(rand.NewSource(8))
	fixed := []string{"", "~", "~~", "~~~", "?", "@", "A", "A_", "A?", "DQc", "DQ", "DQcc", "DQc\n", ">>graph6<<DQc", ">>graph6<<",
		"~??D", "~??DQc", "~~?????DQc", "~~~~~~~~", "~~?", ":A", "D\x00c", "D\xffc", "}"}
	for _, s := range fixed {
		c08CheckGraph6(t, s)
	}
	for it := 0; it < 3000; it++ {
		n := rng.Intn(40)
		g := graph.NewDense(n, nil)
		for i := 0; i < n; i++ {
			for j := 0; j < i; j++ {
				if rng.Intn(3) == 0 {
					g.AddEdge(i, j)
				}
			}
		}
		s := graph.Graph6Encode(g)
		c08CheckGraph6(t, s)
		h, err := graph.Graph6Decode(s)
		if err != nil || !graph.Equal(g, h) {
			t.Fatalf("decode(encode(g)) != g for %q", s)
		}
		b := []byte(s)
		switch rng.Intn(5) {
		case 0:
			b = b[:rng.Intn(len(b)+1)]
		case 1:
			for k := rng.Intn(4); k >= 0; k-- {
				b = append(b, byte(63+rng.Intn(64)))
			}
		case 2:
			b[rng.Intn(len(b))] = byte(rng.Intn(256))
		case 3:
			b[0] = byte(63 + rng.Intn(64))
		case 4:
			b = append([]byte{126}, b...)
		}
		c08CheckGraph6(t, string(b))
	}
	//A few big ones: 4-byte header, n up to 4096.
	for _, n := range []int{62, 63, 64, 1000, 4096} {
		g := graph.NewDense(n, nil)
		for k := 0; k < 5*n; k++ {
			g.AddEdge(rng.Intn(n), rng.Intn(n))
		}
		s := graph.Graph6Encode(g)
		h, err := graph.Graph6Decode(s)
		if err != nil || !graph.Equal(g, h) || h.M() != g.M() {
			t.Fatalf("n = %v: round trip failed", n)
		}
		if _, err := graph.Graph6Decode(s[:len(s)-1]); err == nil {
			t.Fatalf("n = %v: truncated string accepted", n)
		}
	}

	//Histories on a decoded graph: it is an ordinary, independent, editable DenseGraph.
	for _, s := range []string{"DQc", "?", "@", "A_", "KlWW[EHD_BsC"} {
		a, _ := graph.Graph6Decode(s)
		b, _ := graph.Graph6Decode(s)
		ref := graph.NewDense(a.N(), a.Edges)
		n := a.N()
		nb := []int{}
		for v := 0; v < n; v += 2 {
			nb = append(nb, v)
		}
		a.AddVertex(nb)
		ref.AddVertex(nb)
		if !graph.Equal(a, ref) || c08WellFormedDense(a, n+1) != nil {
			t.Fatalf("%q: AddVertex on a decoded graph", s)
		}
		if c08WellFormedDense(b, n) != nil || graph.Graph6Encode(b) != s {
			t.Fatalf("%q: second decode changed by editing the first", s)
		}
		a.AddVertex(nil)
		ref.AddVertex(nil)
		a.AddEdge(n+1, 0)
		ref.AddEdge(n+1, 0)
		a.RemoveVertex(0)
		ref.RemoveVertex(0)
		a.AddVertex([]int{0})
		ref.AddVertex([]int{0})
		if !graph.Equal(a, ref) || c08WellFormedDense(a, n+2) != nil {
			t.Fatalf("%q: edit history on a decoded graph", s)
		}
		c, _ := graph.Graph6Decode(s)
		if !graph.Equal(b, c) {
			t.Fatalf("%q: later decode differs", s)
		}
		//The caller appends to / truncates its own slice header: the graph itself is not affected.
		x := append(c.Edges, 1, 1, 1)
		_ = x
		if c08WellFormedDense(c, n) != nil || !graph.Equal(b, c) {
			t.Fatalf("%q: append to a copy of the slice header changed the graph", s)
		}
		c.AddVertex(nil)
		if c08WellFormedDense(c, n+1) != nil || c.M() != b.M() {
			t.Fatalf("%q: AddVertex(nil) after a caller's append", s)
		}
	}
}

func TestC08DemoIncidentalOld(t *testing.T) {
	g, err := graph.Graph6Decode("DQc")
	if err != nil {
		t.Fatal(err)
	}
	if len(g.Edges) != 10 || cap(g.Edges) != 10 {
		t.Errorf("OLD: len(Edges) == cap(Edges) == 10; now len %v cap %v", len(g.Edges), cap(g.Edges))
	}
	if len(g.DegreeSequence) != 5 || cap(g.DegreeSequence) != 5 {
		t.Errorf("OLD: len(DegreeSequence) == cap(DegreeSequence) == 5; now len %v cap %v", len(g.DegreeSequence), cap(g.DegreeSequence))
	}
	a := append(g.Edges, 7)
	b := append(g.Edges, 9)
	if a[10] != 7 || b[10] != 9 {
		t.Errorf("OLD: two appends to g.Edges get separate arrays (7, 9); now a[10], b[10] = %v, %v", a[10], b[10])
	}
	before := &g.Edges[0]
	g.AddVertex([]int{0})
	if before == &g.Edges[0] {
		t.Errorf("OLD: the first AddVertex after a decode copies the adjacency data to a new array; now it stays in place")
	}
	allocs := testing.AllocsPerRun(100, func() { graph.Graph6Decode("DQc") })
	if allocs != 4 {
		t.Errorf("OLD: 4 allocations per Graph6Decode(\"DQc\"); now %v", allocs)
	}
}

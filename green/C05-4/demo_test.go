// Demo for green change C05/4 (SparseGraph.InducedSubgraph uses a position table instead of sorting V and intersecting).
//
// Run (from the root of the library):
//
//	cp /tmp/green-out/C05/4/demo_test.go graph/c05_demo4_test.go
//	GOFLAGS=-mod=mod GOPROXY=off GOSUMDB=off GOTOOLCHAIN=local go test -vet=off -count=1 -timeout 120s -run 'TestC05Demo4' -v ./graph/
//	rm graph/c05_demo4_test.go
//
// TestC05Demo4Property checks the property itself (random edit histories with valid arguments against an
// adjacency-set model, dense against sparse, InducedSubgraph with V in arbitrary order): it passes on the clean tree
// and with the change.
// TestC05Demo4OldIncidental asserts two OLD incidental behaviours of SparseGraph.InducedSubgraph: the number of heap
// allocations of a call (in the domain, but not part of the property) and the object returned when V lists a vertex
// twice (outside the domain: such a V does not describe an induced subgraph).  It passes on the clean tree and fails
// with the change.
package graph_test

import (
	"fmt"
	"math/rand"
	"sort"
	"testing"

	"github.com/Tom-Johnston/mamba/graph"
)

type model struct{ adj []map[int]bool }

func (m *model) n() int { return len(m.adj) }
func (m *model) addVertex(nb []int) {
	v := len(m.adj)
	m.adj = append(m.adj, map[int]bool{})
	for _, u := range nb {
		m.adj[u][v] = true
		m.adj[v][u] = true
	}
}
func (m *model) removeVertex(v int) {
	adj := make([]map[int]bool, 0, len(m.adj)-1)
	for i, s := range m.adj {
		if i == v {
			continue
		}
		t := map[int]bool{}
		for u := range s {
			if u < v {
				t[u] = true
			} else if u > v {
				t[u-1] = true
			}
		}
		adj = append(adj, t)
	}
	m.adj = adj
}
func (m *model) addEdge(i, j int) {
	if i != j {
		m.adj[i][j] = true
		m.adj[j][i] = true
	}
}
func (m *model) removeEdge(i, j int) {
	delete(m.adj[i], j)
	delete(m.adj[j], i)
}
func (m *model) induced(V []int) *model {
	h := &model{}
	for range V {
		h.adj = append(h.adj, map[int]bool{})
	}
	for i := range V {
		for j := range V {
			if m.adj[V[i]][V[j]] {
				h.adj[i][j] = true
			}
		}
	}
	return h
}
func (m *model) copy() *model {
	V := make([]int, m.n())
	for i := range V {
		V[i] = i
	}
	return m.induced(V)
}

func agree(t *testing.T, what string, g graph.Graph, m *model) {
	t.Helper()
	if g.N() != m.n() {
		t.Fatalf("%s: N = %d, model %d", what, g.N(), m.n())
	}
	edges := 0
	deg := g.Degrees()
	if len(deg) != m.n() {
		t.Fatalf("%s: len(Degrees) = %d, model %d", what, len(deg), m.n())
	}
	for v := 0; v < m.n(); v++ {
		want := []int{}
		for u := range m.adj[v] {
			want = append(want, u)
		}
		sort.Ints(want)
		edges += len(want)
		if got := g.Neighbours(v); fmt.Sprint(got) != fmt.Sprint(want) {
			t.Fatalf("%s: Neighbours(%d) = %v, model %v", what, v, got, want)
		}
		if deg[v] != len(want) {
			t.Fatalf("%s: Degrees[%d] = %d, model %d", what, v, deg[v], len(want))
		}
		for u := 0; u < m.n(); u++ {
			if g.IsEdge(u, v) != m.adj[u][v] {
				t.Fatalf("%s: IsEdge(%d,%d) = %v, model %v", what, u, v, g.IsEdge(u, v), m.adj[u][v])
			}
		}
	}
	if g.M() != edges/2 {
		t.Fatalf("%s: M = %d, model %d", what, g.M(), edges/2)
	}
}

func TestC05Demo4Property(t *testing.T) {
	rng := rand.New(rand.NewSource(5))
	for trial := 0; trial < 200; trial++ {
		var d graph.EditableGraph = graph.NewDense(0, nil)
		var s graph.EditableGraph = graph.NewSparse(0, nil)
		m := &model{}
		for step := 0; step < 60; step++ {
			n := m.n()
			switch op := rng.Intn(8); {
			case op <= 1 || n == 0:
				nb := rng.Perm(n)[:rng.Intn(n+1)]
				d.AddVertex(nb)
				s.AddVertex(nb)
				m.addVertex(nb)
			case op == 2 && n > 0:
				v := rng.Intn(n)
				d.RemoveVertex(v)
				s.RemoveVertex(v)
				m.removeVertex(v)
			case op <= 4:
				i, j := rng.Intn(n), rng.Intn(n)
				d.AddEdge(i, j)
				s.AddEdge(i, j)
				m.addEdge(i, j)
			case op == 5:
				i, j := rng.Intn(n), rng.Intn(n)
				d.RemoveEdge(i, j)
				s.RemoveEdge(i, j)
				m.removeEdge(i, j)
			case op == 6:
				//Continue with the copy, then check that the original did not follow.
				d2, s2, m2 := d.Copy(), s.Copy(), m.copy()
				if n > 1 {
					d2.AddEdge(0, 1)
					s2.AddEdge(0, 1)
					d2.RemoveVertex(0)
					s2.RemoveVertex(0)
				}
				agree(t, "dense source after editing the copy", d, m)
				agree(t, "sparse source after editing the copy", s, m)
				_ = m2
			default:
				V := rng.Perm(n)[:rng.Intn(n+1)]
				d2, s2, m2 := d.InducedSubgraph(V), s.InducedSubgraph(V), m.induced(V)
				agree(t, "dense induced", d2, m2)
				agree(t, "sparse induced", s2, m2)
				if rng.Intn(2) == 0 {
					d, s, m = d2, s2, m2
				}
			}
			agree(t, "dense", d, m)
			agree(t, "sparse", s, m)
		}
	}
}

func describe(h graph.Graph) string {
	out := fmt.Sprint("N=", h.N(), " M=", h.M(), " Degrees=", h.Degrees(), " Neighbours=")
	for v := 0; v < h.N(); v++ {
		out += fmt.Sprint(h.Neighbours(v))
	}
	return out
}

func TestC05Demo4OldIncidental(t *testing.T) {
	//1. Heap allocations of one call. 60 vertices, 1335 edges, V = all the vertices in reverse order.
	n := 60
	c := graph.NewSparse(n, nil)
	d := graph.NewDense(n, nil)
	for i := 0; i < n; i++ {
		for j := 0; j < i; j++ {
			if (i*7+j*3)%4 != 0 {
				c.AddEdge(i, j)
				d.AddEdge(i, j)
			}
		}
	}
	V := make([]int, n)
	for i := range V {
		V[i] = n - 1 - i
	}
	//The property on this input: the reversed graph, the same in both representations.
	hs, hd := c.InducedSubgraph(V), d.InducedSubgraph(V)
	if describe(hs) != describe(hd) {
		t.Fatalf("PROPERTY: sparse and dense disagree on the reversal")
	}
	for i := 0; i < n; i++ {
		for j := 0; j < n; j++ {
			if hs.IsEdge(i, j) != c.IsEdge(V[i], V[j]) {
				t.Fatalf("PROPERTY: IsEdge(%d,%d) of the induced subgraph is not IsEdge(V[i],V[j]) of the source", i, j)
			}
		}
	}
	allocs := testing.AllocsPerRun(20, func() { c.InducedSubgraph(V) })
	t.Logf("SparseGraph.InducedSubgraph on 60 vertices and 1335 edges: %v allocations per call", allocs)
	if allocs < 2000 {
		t.Errorf("SparseGraph.InducedSubgraph: %v allocations per call, old behaviour is about 8000 (three per edge end)", allocs)
	}

	//2. A list V with a repeated vertex, on the path 0-1-2-3. The old code gives the edges to the first copy of a repeated vertex (in sorted order), the new code to the last.
	p := graph.NewSparse(4, nil)
	p.AddEdge(0, 1)
	p.AddEdge(1, 2)
	p.AddEdge(2, 3)
	old := map[string]string{
		"[0 1 1]":   "N=3 M=1 Degrees=[1 1 1] Neighbours=[1][0][0]",
		"[1 1 0]":   "N=3 M=1 Degrees=[1 1 1] Neighbours=[2][2][0]",
		"[1 0 1 2]": "N=4 M=3 Degrees=[2 1 2 1] Neighbours=[1 3][0][1 3][0]",
	}
	for _, W := range [][]int{{0, 1, 1}, {1, 1, 0}, {1, 0, 1, 2}} {
		got := describe(p.InducedSubgraph(W))
		t.Logf("path 0-1-2-3, V = %v: %s", W, got)
		if got != old[fmt.Sprint(W)] {
			t.Errorf("V = %v: got %s, old behaviour is %s", W, got, old[fmt.Sprint(W)])
		}
	}
}

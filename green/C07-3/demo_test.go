// Demo for C07 harmless change 3 (graph6/sparse6 decoders: result and text on the ERROR path).
//
// Run (from the root of the library worktree):
//
//	cp /tmp/green-out/C07/3/demo_test.go graph/zz_c07_demo_test.go
//	GOFLAGS=-mod=mod GOPROXY=off GOSUMDB=off GOTOOLCHAIN=local go test -vet=off -count=1 -timeout 300s -run 'TestC07Demo' -v ./graph/
//	rm graph/zz_c07_demo_test.go
//
// TestC07DemoIncidental asserts the OLD incidental behaviour: for a string that is NOT an encoding of any graph the
// decoders returned, next to the error, a usable non-nil empty graph (N() == 0) and one of the old error texts. It
// passes on the clean tree and fails with the change (graph is nil, texts differ).
// TestC07DemoProperty checks the property itself (round trip with and without header for n = 0, 1, 2, edgeless graphs,
// powers of two, 17..32 and the 4-byte header sizes, allowed bytes, graph6 string against an independent writer). It
// passes on both trees.
package graph_test

import (
	"math/rand"
	"testing"

	"github.com/Tom-Johnston/mamba/graph"
)

type c07bad struct {
	codec, in, oldText string
}

var c07bads = []c07bad{
	{"graph6", "D\n", "Byte out of range. Index: 1 Value: 10"},
	{"graph6", "~?", "String too short - unable to decode n"},
	{"graph6", "~~?????", "String too short - unable to decode n"},
	{"graph6", "~~~~~~~~", "Graph too large"},
	{"graph6", "E??", "String too short - unable to decode edges"},
	{"sparse6", "", "String too short - expected the first character to be :"},
	{"sparse6", "DQc", "Incorrect first character. Expected: : Found: 68"},
	{"sparse6", ":D \n", "Byte out of range (63-126). Index: 1 Value: 32"},
	{"sparse6", ":", "String too short - unable to decode n"},
	{"sparse6", ":~?", "String too short - unable to decode n"},
	{"sparse6", ":~~???", "String too short - unable to decode n"},
}

func TestC07DemoIncidental(t *testing.T) {
	for _, b := range c07bads {
		var err error
		var isNil bool
		var n int
		if b.codec == "graph6" {
			var g *graph.DenseGraph
			g, err = graph.Graph6Decode(b.in)
			isNil = g == nil
			if !isNil {
				n = g.N()
			}
		} else {
			var g *graph.SparseGraph
			g, err = graph.Sparse6Decode(b.in)
			isNil = g == nil
			if !isNil {
				n = g.N()
			}
		}
		if err == nil {
			//Not part of the incidental behaviour, but neither tree accepts these.
			t.Errorf("%s %q: no error", b.codec, b.in)
			continue
		}
		if isNil {
			t.Errorf("%s %q: OLD behaviour was a non-nil empty graph next to the error, got nil", b.codec, b.in)
		} else if n != 0 {
			t.Errorf("%s %q: OLD behaviour was an empty graph next to the error, got N() = %d", b.codec, b.in, n)
		}
		if err.Error() != b.oldText {
			t.Errorf("%s %q: OLD error text %q, got %q", b.codec, b.in, b.oldText, err.Error())
		}
	}
}

//c07g6 is an independent graph6 writer written from formats.txt (n <= 258047).
func c07g6(n int, adj func(i, j int) bool) string {
	var s []byte
	if n <= 62 {
		s = append(s, byte(n+63))
	} else {
		s = append(s, 126, byte(n>>12&63)+63, byte(n>>6&63)+63, byte(n&63)+63)
	}
	var bitsBuf []bool
	for j := 1; j < n; j++ {
		for i := 0; i < j; i++ {
			bitsBuf = append(bitsBuf, adj(i, j))
		}
	}
	for len(bitsBuf)%6 != 0 {
		bitsBuf = append(bitsBuf, false)
	}
	for p := 0; p < len(bitsBuf); p += 6 {
		var b byte
		for q := 0; q < 6; q++ {
			b <<= 1
			if bitsBuf[p+q] {
				b |= 1
			}
		}
		s = append(s, b+63)
	}
	return string(s)
}

func c07check(t *testing.T, name string, g *graph.DenseGraph) {
	n := g.N()
	g6 := graph.Graph6Encode(g)
	if want := c07g6(n, func(i, j int) bool { return g.IsEdge(i, j) }); g6 != want {
		t.Errorf("%s: graph6 %q, formats.txt prescribes %q", name, g6, want)
	}
	for i := 0; i < len(g6); i++ {
		if g6[i] < 63 || g6[i] > 126 {
			t.Errorf("%s: graph6 byte %d out of range", name, g6[i])
		}
	}
	for _, s := range []string{g6, ">>graph6<<" + g6} {
		h, err := graph.Graph6Decode(s)
		if err != nil || h == nil || !graph.Equal(g, h) {
			t.Errorf("%s: graph6 round trip failed (err %v)", name, err)
		}
	}
	for _, src := range []graph.Graph{g, graph.NewSparse(n, nil)} {
		if sp, ok := src.(*graph.SparseGraph); ok {
			for i := 0; i < n; i++ {
				for j := 0; j < i; j++ {
					if g.IsEdge(i, j) {
						sp.AddEdge(i, j)
					}
				}
			}
		}
		s6 := graph.Sparse6Encode(src)
		if len(s6) == 0 || s6[0] != ':' {
			t.Errorf("%s: sparse6 %q does not start with ':'", name, s6)
			continue
		}
		for i := 1; i < len(s6); i++ {
			if s6[i] < 63 || s6[i] > 126 {
				t.Errorf("%s: sparse6 byte %d out of range", name, s6[i])
			}
		}
		for _, s := range []string{s6, ">>sparse6<<" + s6} {
			h, err := graph.Sparse6Decode(s)
			if err != nil || h == nil || !graph.Equal(g, h) {
				t.Errorf("%s: sparse6 round trip of %q failed (err %v)", name, s, err)
			}
		}
	}
}

func TestC07DemoProperty(t *testing.T) {
	rng := rand.New(rand.NewSource(7))
	//All graphs on at most 5 vertices.
	for n := 0; n <= 5; n++ {
		m := n * (n - 1) / 2
		for mask := 0; mask < 1<<uint(m); mask++ {
			g := graph.NewDense(n, nil)
			e := 0
			for j := 1; j < n; j++ {
				for i := 0; i < j; i++ {
					if mask>>uint(e)&1 == 1 {
						g.AddEdge(i, j)
					}
					e++
				}
			}
			c07check(t, "exhaustive", g)
		}
	}
	for _, n := range []int{6, 7, 8, 9, 15, 16, 17, 20, 24, 31, 32, 33, 62, 63, 64, 65, 100, 128} {
		c07check(t, "edgeless", graph.NewDense(n, nil))
		for rep := 0; rep < 12; rep++ {
			g := graph.NewDense(n, nil)
			edges := rng.Intn(3 * n)
			for e := 0; e < edges; e++ {
				i, j := rng.Intn(n), rng.Intn(n)
				if i != j {
					g.AddEdge(i, j)
				}
			}
			c07check(t, "random", g)
		}
	}
}

// Package dawgx holds the library-facing helpers shared by the monitors of
// C12, C13 and C14: guarded construction, the node dump read through the
// verif-tagged accessor, the node count read from the serialised header, and
// the comparison of a built automaton with the reference model (refdawg).
package dawgx

import (
	"bytes"
	"fmt"
	"strconv"
	"strings"

	"github.com/Tom-Johnston/mamba/dawg"

	"verif/internal/engine"
	"verif/internal/oracle/refdawg"
)

// Finding is a discrepancy between the library and the model.
type Finding struct {
	Kind     string // short, stable: part of the violation key
	Observed string
	Expected string
}

// Witness renders a word list for a violation key: the exact list if it is
// tiny, else a coarse bucket (so that one defect does not produce thousands of
// keys; the concrete input is always in the violation detail).
func Witness(words [][]byte) string {
	total := 0
	for _, w := range words {
		total += len(w)
	}
	if len(words) <= 4 && total <= 12 {
		return "words=" + refdawg.QuoteList(words, 10)
	}
	switch {
	case len(words) <= 15:
		return "words:5..15"
	case len(words) <= 200:
		return "words:16..200"
	}
	return "words:>200"
}

// Detail is the JSON detail of a violation about a word set.
func Detail(workload string, set *refdawg.Set, extra map[string]interface{}) map[string]interface{} {
	d := map[string]interface{}{"workload": workload, "n_words": set.Len()}
	if set.Len() <= 300 {
		ws := make([]string, set.Len())
		for i, w := range set.Words {
			ws[i] = strconv.Quote(string(w))
		}
		d["words_go_quoted"] = ws
	} else {
		d["words_go_quoted_first"] = set.Quoted(40)
	}
	for k, v := range extra {
		d[k] = v
	}
	return d
}

// PanicKey is the key of a panic violation.
func PanicKey(api string, pi *engine.PanicInfo, witness string) string {
	return api + "|panic|" + Site(pi) + "|" + witness
}

// Site is the innermost library frame of a panic as "pkg/file.go function",
// without the line number.  engine.SiteNoLine(pi.Site) cuts a method name at
// the parenthesis of its receiver ("dawg.(*Dawg).GobDecode" becomes "dawg."),
// so the function name is taken from the stack text here.
func Site(pi *engine.PanicInfo) string {
	site := engine.SiteNoLine(pi.Site)
	file := site
	if i := strings.IndexByte(site, ' '); i >= 0 {
		file = site[:i]
	}
	const pfx = "github.com/Tom-Johnston/mamba/"
	for _, line := range strings.Split(pi.Stack, "\n") {
		if strings.HasPrefix(line, pfx) {
			fn := strings.TrimPrefix(line, pfx)
			if j := strings.LastIndexByte(fn, '('); j > 0 {
				fn = fn[:j]
			}
			return file + " " + fn
		}
	}
	return site
}

// Build calls dawg.New on fresh copies of the words.
func Build(c *engine.Ctx, key string, words [][]byte) (d *dawg.Dawg, err error, pi *engine.PanicInfo) {
	in := make([][]byte, len(words))
	for i, w := range words {
		in[i] = append([]byte{}, w...)
	}
	pi = c.Call(key, func() { d, err = dawg.New(in) })
	return
}

// BuildSlowOK is Build for word lists so large that the construction itself (a linear scan of the register per finished
// node) comes close to the CPU budget of a guarded call: running over the budget is recorded as slow, not judged.
func BuildSlowOK(c *engine.Ctx, key string, words [][]byte) (d *dawg.Dawg, err error, pi *engine.PanicInfo) {
	in := make([][]byte, len(words))
	for i, w := range words {
		in[i] = append([]byte{}, w...)
	}
	pi = c.CallSlowOK(key, func() { d, err = dawg.New(in) })
	return
}

// Nodes reads the node dump through the verif-tagged accessor.
func Nodes(c *engine.Ctx, key string, d *dawg.Dawg) (nodes []dawg.VerifNode, pi *engine.PanicInfo) {
	pi = c.Call(key+"|VerifNodes", func() { nodes = d.VerifNodes() })
	return
}

// Encode calls GobEncode.
func Encode(c *engine.Ctx, key string, d *dawg.Dawg) (b []byte, err error, pi *engine.PanicInfo) {
	pi = c.Call(key+"|GobEncode", func() { b, err = d.GobEncode() })
	return
}

// ReadUvarint decodes the documented integer encoding of the dawg package (a
// byte <= 127 is the value; otherwise the byte is 128 + the number of
// big-endian bytes that follow) independently of the library.  It returns the
// value and the number of bytes consumed (0 on malformed input).
func ReadUvarint(b []byte) (uint64, int) {
	if len(b) == 0 {
		return 0, 0
	}
	if b[0] <= 127 {
		return uint64(b[0]), 1
	}
	k := int(b[0]) - 128
	if k > 8 || len(b) < 1+k {
		return 0, 0
	}
	var x uint64
	for i := 0; i < k; i++ {
		x = x<<8 | uint64(b[1+i])
	}
	return x, 1 + k
}

// HeaderCount is the node count announced by the first integer of an encoding.
func HeaderCount(b []byte) (int, bool) {
	x, n := ReadUvarint(b)
	return int(x), n > 0
}

// CheckStructure compares the node dump of an automaton with the trie of the
// set: unfolding the automaton along the trie, every node reached by a prefix
// must have the finality of that prefix, exactly the outgoing labels of the
// trie node in ascending order, and numWords equal to the number of words with
// that prefix (the size of its right language).  Hence the automaton accepts
// exactly the set.  Ids must be unique and the number of nodes must be the
// number of distinct right languages (minimality).
func CheckStructure(nodes []dawg.VerifNode, set *refdawg.Set) *Finding {
	trie := set.Trie()
	return CheckStructureTrie(nodes, trie, trie.Minimise())
}

// CheckStructureTrie is CheckStructure with the trie of the set and its
// number of distinct right languages (trie.Minimise(), which also labels the
// trie nodes with their classes) computed by the caller, for sets whose
// automata are checked many times.
func CheckStructureTrie(nodes []dawg.VerifNode, trie *refdawg.Trie, minimal int) *Finding {
	if len(nodes) == 0 {
		return &Finding{"structure-no-nodes", "VerifNodes returned no node", "the root"}
	}
	byID := make(map[uint64]int, len(nodes))
	for i, n := range nodes {
		if j, dup := byID[n.ID]; dup {
			return &Finding{"structure-duplicate-id", fmt.Sprintf("two distinct nodes (#%d and #%d of the dump) carry id %d", j, i, n.ID), "unique ids"}
		}
		byID[n.ID] = i
		if len(n.Labels) != len(n.Children) {
			return &Finding{"structure-labels-links-differ", fmt.Sprintf("node id %d: %d labels, %d links", n.ID, len(n.Labels), len(n.Children)), "equal lengths"}
		}
	}
	// language / numWords walk (iterative: words can be very long)
	type frame struct {
		t    *refdawg.Trie
		node int
		i    int
	}
	var prefix []byte
	stack := []frame{{trie, 0, -1}}
	// classOf[node index] = right-language class of the trie nodes that reached it (must be constant)
	classOf := make([]int, len(nodes))
	for i := range classOf {
		classOf[i] = -1
	}
	for len(stack) > 0 {
		f := &stack[len(stack)-1]
		n := nodes[f.node]
		if f.i == -1 {
			f.i = 0
			if n.Final != f.t.Final {
				return &Finding{"structure-wrong-finality", fmt.Sprintf("the node reached by %q has final=%v", prefix, n.Final), fmt.Sprintf("final=%v (member of the set: %v)", f.t.Final, f.t.Final)}
			}
			if !bytes.Equal(n.Labels, f.t.Labels) {
				return &Finding{"structure-wrong-labels", fmt.Sprintf("the node reached by %q has outgoing labels %q", prefix, n.Labels), fmt.Sprintf("%q (the next bytes of the words with that prefix, ascending)", f.t.Labels)}
			}
			if n.NumWords != f.t.Count {
				return &Finding{"node-numWords-wrong", fmt.Sprintf("the node reached by %q (id %d) has numWords=%d", prefix, n.ID, n.NumWords), fmt.Sprintf("%d = number of words with that prefix", f.t.Count)}
			}
			if classOf[f.node] == -1 {
				classOf[f.node] = f.t.Class
			} else if classOf[f.node] != f.t.Class {
				return &Finding{"structure-merged-different-languages", fmt.Sprintf("node id %d is reached by prefixes with different right languages (one of them %q)", n.ID, prefix), "one right language per node"}
			}
		}
		if f.i < len(f.t.Kids) {
			k := f.i
			f.i++
			ci, ok := byID[n.Children[k]]
			if !ok {
				return &Finding{"structure-dangling-link", fmt.Sprintf("node id %d links to id %d which is not in the dump", n.ID, n.Children[k]), "links to dumped nodes"}
			}
			prefix = append(prefix, f.t.Labels[k])
			stack = append(stack, frame{f.t.Kids[k], ci, -1})
			continue
		}
		stack = stack[:len(stack)-1]
		if len(prefix) > 0 {
			prefix = prefix[:len(prefix)-1]
		}
	}
	if len(nodes) != minimal {
		return &Finding{"not-minimal", fmt.Sprintf("%d nodes", len(nodes)), fmt.Sprintf("%d = number of distinct right languages (states of the minimal automaton)", minimal)}
	}
	return nil
}

// CheckOpts selects the parts of FullCheck.
type CheckOpts struct {
	Probes     [][]byte      // further probe strings (members or not)
	SkipEncode bool          // do not read the node count from GobEncode
	Trie       *refdawg.Trie // optional: the trie of the set, already minimised (Minimal = its Minimise())
	Minimal    int
}

// FullCheck compares a built automaton with the set: NumberOfWords, Lookup
// of every member (rank) and of the probes, the structure walk, and the node
// count of the GobEncode header against the minimal automaton size.  It
// returns the first discrepancy (with the API in Kind), a panic, or nil.
// evals receives the number of verdicts.
func FullCheck(c *engine.Ctx, key string, d *dawg.Dawg, set *refdawg.Set, o CheckOpts) (f *Finding, pi *engine.PanicInfo, api string) {
	var nw int
	if pi = c.Call(key+"|NumberOfWords", func() { nw = d.NumberOfWords() }); pi != nil {
		return nil, pi, "NumberOfWords"
	}
	c.Eval(1)
	if nw != set.Len() {
		return &Finding{"wrong", fmt.Sprint(nw), fmt.Sprint(set.Len())}, nil, "NumberOfWords"
	}
	// members
	n := set.Len()
	ranks := make([]int, n)
	oks := make([]bool, n)
	at := 0
	if pi = c.Call(key+"|Lookup(members)", func() {
		for at = 0; at < n; at++ {
			ranks[at], oks[at] = d.Lookup(set.Words[at])
		}
	}); pi != nil {
		return &Finding{"panic", fmt.Sprintf("Lookup(%q): %s", set.Words[at], pi), "a result"}, pi, "Lookup"
	}
	c.Eval(n)
	for i := 0; i < n; i++ {
		if !oks[i] {
			return &Finding{"member-not-found", fmt.Sprintf("Lookup(%q) = (%d,false)", set.Words[i], ranks[i]), fmt.Sprintf("(%d,true)", i)}, nil, "Lookup"
		}
		if ranks[i] != i {
			return &Finding{"wrong-rank", fmt.Sprintf("Lookup(%q) = (%d,true)", set.Words[i], ranks[i]), fmt.Sprintf("(%d,true): its rank in lexicographic order", i)}, nil, "Lookup"
		}
	}
	// probes
	if m := len(o.Probes); m > 0 {
		pr := make([]int, m)
		po := make([]bool, m)
		if pi = c.Call(key+"|Lookup(probes)", func() {
			for at = 0; at < m; at++ {
				pr[at], po[at] = d.Lookup(o.Probes[at])
			}
		}); pi != nil {
			return &Finding{"panic", fmt.Sprintf("Lookup(%q): %s", o.Probes[at], pi), "a result"}, pi, "Lookup"
		}
		c.Eval(m)
		nonMembers := 0
		for i, p := range o.Probes {
			rk, member := set.Rank(p)
			if !member {
				nonMembers++
			}
			if po[i] != member {
				kind := "non-member-found"
				if member {
					kind = "member-not-found"
				}
				return &Finding{kind, fmt.Sprintf("Lookup(%q) = (%d,%v)", p, pr[i], po[i]), fmt.Sprintf("found=%v", member)}, nil, "Lookup"
			}
			if member && pr[i] != rk {
				return &Finding{"wrong-rank", fmt.Sprintf("Lookup(%q) = (%d,true)", p, pr[i]), fmt.Sprintf("(%d,true)", rk)}, nil, "Lookup"
			}
		}
		c.Obs("lookups_of_non_members", nonMembers)
	}
	c.Obs("lookups_of_members", n)
	// structure
	nodes, pi := Nodes(c, key, d)
	if pi != nil {
		return nil, pi, "VerifNodes"
	}
	c.Eval(1)
	if o.Trie != nil {
		if f := CheckStructureTrie(nodes, o.Trie, o.Minimal); f != nil {
			return f, nil, "nodes"
		}
	} else if f := CheckStructure(nodes, set); f != nil {
		return f, nil, "nodes"
	}
	c.Obs("structure_walks", 1)
	c.ObsMax("nodes", len(nodes))
	if !o.SkipEncode {
		b, err, pi := Encode(c, key, d)
		if pi != nil {
			return nil, pi, "GobEncode"
		}
		c.Eval(1)
		if err != nil {
			return &Finding{"error", err.Error(), "no error"}, nil, "GobEncode"
		}
		// The byte layout is not part of any property (only that decoding gives the automaton back and that the
		// bytes are reproducible), so the first integer is read under the documented layout and only recorded.
		if hc, ok := HeaderCount(b); ok && hc == len(nodes) {
			c.Obs("encodings_whose_first_integer_is_the_node_count_under_the_documented_layout(recorded, not judged)", 1)
		} else {
			c.Obs("encodings_with_another_layout_of_the_first_integer(recorded, not judged)", 1)
		}
		c.Obs("header_counts_read", 1)
	}
	return nil, nil, ""
}

// Searchers builds library searchers for a conjunction of queries.
func Searchers(c *engine.Ctx, key string, qs []refdawg.Query) (ss []dawg.Searcher, pi *engine.PanicInfo) {
	pi = c.Call(key+"|NewSearcher", func() {
		for _, q := range qs {
			t := append([]byte{}, q.Text...)
			if q.Kind == 'p' {
				ss = append(ss, dawg.NewPatternSearcher(t, q.Blank))
			} else {
				ss = append(ss, dawg.NewAnagramSearcher(t, q.Blank))
			}
		}
	})
	return
}

// Search runs d.Search under the guard.
func Search(c *engine.Ctx, key string, d *dawg.Dawg, ss []dawg.Searcher) (solns [][]byte, ids []int, pi *engine.PanicInfo) {
	pi = c.Call(key, func() { solns, ids = d.Search(ss...) })
	return
}

// CompareSearch compares a search result with the reference filter.
func CompareSearch(solns [][]byte, ids []int, set *refdawg.Set, qs []refdawg.Query) *Finding {
	want, wantIDs := set.Filter(qs)
	if len(solns) != len(ids) {
		return &Finding{"words-ids-length", fmt.Sprintf("%d words, %d ids", len(solns), len(ids)), "one id per word"}
	}
	same := len(solns) == len(want)
	if same {
		for i := range want {
			if !bytes.Equal(solns[i], want[i]) || ids[i] != wantIDs[i] {
				same = false
				break
			}
		}
	}
	if same {
		return nil
	}
	return &Finding{"wrong-result", fmt.Sprintf("words %s ids %v", refdawg.QuoteList(solns, 30), trimInts(ids, 30)), fmt.Sprintf("words %s ids %v (the matching words in lexicographic order with their ranks)", refdawg.QuoteList(want, 30), trimInts(wantIDs, 30))}
}

func trimInts(a []int, n int) string {
	if len(a) <= n {
		return fmt.Sprint(a)
	}
	return fmt.Sprint(a[:n]) + fmt.Sprintf("...(%d)", len(a))
}

// NodesEqual compares two node dumps.
func NodesEqual(a, b []dawg.VerifNode) string {
	if len(a) != len(b) {
		return fmt.Sprintf("%d nodes vs %d nodes", len(a), len(b))
	}
	for i := range a {
		x, y := a[i], b[i]
		if x.ID != y.ID || x.Final != y.Final || x.NumWords != y.NumWords || !bytes.Equal(x.Labels, y.Labels) || !eqU64(x.Children, y.Children) {
			return fmt.Sprintf("node #%d (breadth-first) differs: %+v vs %+v", i, x, y)
		}
	}
	return ""
}

func eqU64(a, b []uint64) bool {
	if len(a) != len(b) {
		return false
	}
	for i := range a {
		if a[i] != b[i] {
			return false
		}
	}
	return true
}

// Report turns the outcome of a check into a violation.  The key is
// api|kind|witness (for panics api|panic|site|witness).
func Report(c *engine.Ctx, f *Finding, pi *engine.PanicInfo, api, witness string, detail interface{}) {
	if pi != nil {
		obs := pi.String()
		if f != nil {
			obs = f.Observed
		}
		c.Obs("panics_judged", 1)
		c.Violation(PanicKey(api, pi, witness), detail, obs, api+" returns normally")
		return
	}
	if f != nil {
		c.Violation(api+"|"+f.Kind+"|"+witness, detail, f.Observed, f.Expected)
	}
}

// NodesSameShape compares two node dumps up to a renaming of the ids: the
// dumps are breadth-first from the root in label order, so corresponding nodes
// have the same position.  It returns a description of the first difference
// and whether the ids themselves are equal too.
func NodesSameShape(a, b []dawg.VerifNode) (diff string, sameIDs bool) {
	if len(a) != len(b) {
		return fmt.Sprintf("%d nodes vs %d nodes", len(a), len(b)), false
	}
	ia := make(map[uint64]int, len(a))
	ib := make(map[uint64]int, len(b))
	sameIDs = true
	for i := range a {
		ia[a[i].ID] = i
		ib[b[i].ID] = i
		if a[i].ID != b[i].ID {
			sameIDs = false
		}
	}
	for i := range a {
		x, y := a[i], b[i]
		if x.Final != y.Final || x.NumWords != y.NumWords || !bytes.Equal(x.Labels, y.Labels) || len(x.Children) != len(y.Children) {
			return fmt.Sprintf("node #%d (breadth-first) differs: %+v vs %+v", i, x, y), sameIDs
		}
		for k := range x.Children {
			if ia[x.Children[k]] != ib[y.Children[k]] {
				return fmt.Sprintf("node #%d (breadth-first): link %d leads to node #%d vs node #%d", i, k, ia[x.Children[k]], ib[y.Children[k]]), sameIDs
			}
		}
	}
	return "", sameIDs
}

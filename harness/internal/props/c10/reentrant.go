package c10

// reentrant.go: calls of the functions of this property NESTED in one another.
//
// The functions take a graph.Graph, an interface the caller may implement.  An implicit graph (a power of a graph, a
// product, a quotient) is free to use the library while it answers: its IsEdge / Neighbours / Degrees may call Distance
// or ConnectedComponent on the graph it is derived from.  Every other workload of this package makes one call after
// the other, so whatever a function keeps between calls (a package-level scratch array, a pool) is only ever used by
// one call at a time.  Here an outer call runs on a nestingGraph whose observers make, at every k-th call, an INNER
// call of one of the functions on another graph (another size, the same size, the very same reference graph as a
// library graph); outer and inner results are judged against the same oracles as everywhere else.  No goroutines:
// nested, not concurrent (concurrency is C19's).

import (
	"fmt"
	"sort"

	"github.com/Tom-Johnston/mamba/graph"

	"verif/internal/engine"
	"verif/internal/oracle/rg"
)

type nestingGraph struct {
	g     *rg.G
	adj   [][]int
	m     int
	calls int
	every int
	inner func() // makes and judges one inner library call
	busy  bool
}

func (u *nestingGraph) tick() {
	if u.busy || u.inner == nil {
		return
	}
	u.calls++
	if u.calls%u.every == 0 {
		u.busy = true
		u.inner()
		u.busy = false
	}
}
func (u *nestingGraph) N() int { return u.g.N }
func (u *nestingGraph) M() int { return u.m }
func (u *nestingGraph) IsEdge(i, j int) bool {
	u.tick()
	return u.g.Has(i, j)
}
func (u *nestingGraph) Neighbours(v int) []int {
	u.tick()
	return append([]int{}, u.adj[v]...)
}
func (u *nestingGraph) Degrees() []int {
	u.tick()
	d := make([]int, u.g.N)
	for v := range d {
		d[v] = len(u.adj[v])
	}
	return d
}

type nestedFn struct {
	name string
	// call runs the function on lg and returns a printable result and the expected one
	call func(lg graph.Graph, w *want, r *engine.Rng) (got, exp string)
}

func sortedSets(a [][]int) string {
	cs, _ := canonSets(a)
	return fmt.Sprint(cs)
}

var nestedFns = []nestedFn{
	{"Distance", func(lg graph.Graph, w *want, r *engine.Rng) (string, string) {
		if w.n == 0 {
			return "", ""
		}
		i, j := r.Intn(w.n), r.Intn(w.n)
		return fmt.Sprintf("Distance(%d,%d)=%d", i, j, graph.Distance(lg, i, j)), fmt.Sprintf("Distance(%d,%d)=%d", i, j, w.dist[i][j])
	}},
	{"Eccentricity", func(lg graph.Graph, w *want, r *engine.Rng) (string, string) {
		return fmt.Sprint(graph.Eccentricity(lg)), fmt.Sprint(w.ecc)
	}},
	{"Diameter", func(lg graph.Graph, w *want, r *engine.Rng) (string, string) {
		return fmt.Sprint(graph.Diameter(lg)), fmt.Sprint(w.diam)
	}},
	{"Radius", func(lg graph.Graph, w *want, r *engine.Rng) (string, string) {
		return fmt.Sprint(graph.Radius(lg)), fmt.Sprint(w.rad)
	}},
	{"Girth", func(lg graph.Graph, w *want, r *engine.Rng) (string, string) {
		return fmt.Sprint(graph.Girth(lg)), fmt.Sprint(w.girth)
	}},
	{"ConnectedComponent", func(lg graph.Graph, w *want, r *engine.Rng) (string, string) {
		if w.n == 0 {
			return "", ""
		}
		v := r.Intn(w.n)
		got := append([]int{}, graph.ConnectedComponent(lg, v)...)
		sort.Ints(got)
		return fmt.Sprintf("v=%d:%v", v, got), fmt.Sprintf("v=%d:%v", v, w.comps[w.compOf[v]])
	}},
	{"ConnectedComponents", func(lg graph.Graph, w *want, r *engine.Rng) (string, string) {
		return sortedSets(graph.ConnectedComponents(lg)), fmt.Sprint(w.comps)
	}},
	{"BiconnectedComponents", func(lg graph.Graph, w *want, r *engine.Rng) (string, string) {
		blocks, art := graph.BiconnectedComponents(lg)
		cs, _ := canonSets(blocks)
		var withEdge [][]int
		for _, b := range cs {
			if len(b) > 1 {
				withEdge = append(withEdge, b)
			}
		}
		as := append([]int{}, art...)
		sort.Ints(as)
		return fmt.Sprint(withEdge, as), fmt.Sprint(w.blocks, w.art)
	}},
	{"NumberOfInducedPaths", func(lg graph.Graph, w *want, r *engine.Rng) (string, string) {
		if w.indPaths == nil || w.n == 0 {
			return "", ""
		}
		got := graph.NumberOfInducedPaths(lg, -1)
		if len(got) > w.n {
			got = got[:w.n]
		}
		return fmt.Sprint(got), fmt.Sprint(w.indPaths[:w.n])
	}},
	{"NumberOfInducedCycles", func(lg graph.Graph, w *want, r *engine.Rng) (string, string) {
		if w.indCycles == nil {
			return "", ""
		}
		got := graph.NumberOfInducedCycles(lg, -1)
		if len(got) > w.n+1 {
			got = got[:w.n+1]
		}
		return fmt.Sprint(got), fmt.Sprint(w.indCycles[:w.n+1])
	}},
}

func nestedGraphs(r *engine.Rng) []*rg.G {
	mk := func(n int, p float64) *rg.G {
		g := rg.New(n)
		for i := 0; i < n; i++ {
			for j := i + 1; j < n; j++ {
				if r.Bool(p) {
					g.Add(i, j)
				}
			}
		}
		return g
	}
	path := func(n int) *rg.G {
		g := rg.New(n)
		for i := 0; i+1 < n; i++ {
			g.Add(i, i+1)
		}
		return g
	}
	cyc := path(7)
	cyc.Add(0, 6)
	return []*rg.G{path(3), path(6), cyc, mk(5, 0.5), mk(8, 0.3), mk(9, 0.2), mk(4, 0.9), mk(7, 0.15)}
}

func reentrantUnits(c *engine.Ctx) {
	for fi := range nestedFns {
		fi := fi
		c.Unit("reentrant/outer="+nestedFns[fi].name, func() {
			r := fixedRng(7700, fi)
			gs := nestedGraphs(r)
			ws := make([]*want, len(gs))
			for i, g := range gs {
				ws[i] = oracle(g)
			}
			outer := nestedFns[fi]
			for gi, g := range gs {
				for hi, h := range gs {
					for ii := range nestedFns {
						inner := nestedFns[ii]
						for _, every := range []int{1, 3} {
							if every == 3 && (gi+hi+ii)%3 != 0 {
								continue
							}
							u := &nestingGraph{g: g, adj: make([][]int, g.N), m: g.M(), every: every}
							for v := range u.adj {
								u.adj[v] = g.Nbrs(v)
							}
							var innerLg graph.Graph = h.Dense()
							if (gi+hi+ii)%2 == 1 {
								innerLg = h.Sparse()
							}
							innerBad := ""
							innerCalls := 0
							u.inner = func() {
								got, exp := inner.call(innerLg, ws[hi], r)
								innerCalls++
								if got != exp && innerBad == "" {
									innerBad = fmt.Sprintf("inner %s on %s: got %s, expected %s", inner.name, h.G6(), got, exp)
								}
							}
							key := fmt.Sprintf("reentrant|outer=%s(%s)|inner=%s(%s)|every=%d", outer.name, g.G6(), inner.name, h.G6(), every)
							var got, exp string
							pi := c.Call(key, func() { got, exp = outer.call(u, ws[gi], r) })
							c.Eval(1)
							det := map[string]interface{}{"outer": outer.name, "outer_graph_g6": g.G6(), "inner": inner.name, "inner_graph_g6": h.G6(),
								"history": fmt.Sprintf("the outer function runs on a caller-implemented Graph whose IsEdge/Neighbours/Degrees make an inner call at every %d-th call (%d inner calls were made)", every, innerCalls)}
							vk := fmt.Sprintf("reentrant|%s-while-%s-is-running", inner.name, outer.name)
							switch {
							case pi != nil:
								c.Violation(vk+"|panic@"+engine.SiteNoLine(pi.Site), det, pi.String(), "both calls return their usual results")
								return
							case innerBad != "":
								c.Violation(vk+"|inner-result-wrong", det, innerBad, "the result of the same call made on its own")
								return
							case got != exp:
								c.Violation(vk+"|outer-result-wrong", det, got, exp+" (the result of the same call without inner calls)")
								return
							}
							if innerCalls > 0 {
								c.Obs("reentrant:calls_from_inside_a_caller_implemented_graph", innerCalls)
								c.NT("reentrant", outer.name, inner.name, gi, hi, every)
							}
						}
					}
				}
			}
		})
	}
}

// Package c19 runs operations on independent values, and read-only queries on
// shared finished values, from many goroutines under the race detector and
// compares every result with the result of the same operation computed
// sequentially beforehand (DESIGN.md section 4, C19).
package c19

import (
	"bytes"
	"fmt"
	"runtime"
	"runtime/debug"
	"sort"
	"strings"
	"sync"
	"sync/atomic"
	"time"

	"github.com/Tom-Johnston/mamba/comb"
	"github.com/Tom-Johnston/mamba/dawg"
	"github.com/Tom-Johnston/mamba/disjoint"
	"github.com/Tom-Johnston/mamba/graph"
	"github.com/Tom-Johnston/mamba/graph/search"
	"github.com/Tom-Johnston/mamba/ints"
	"github.com/Tom-Johnston/mamba/itertools"
	"github.com/Tom-Johnston/mamba/sortints"
	"github.com/Tom-Johnston/mamba/tsp"

	"verif/internal/engine"
	"verif/internal/gen"
	"verif/internal/oracle/rg"
)

func init() {
	engine.Register(&engine.Property{
		ID:    "C19",
		Level: "exploration",
		Race:  true,
		// every unit in a fresh process: package-level state and caches inside shared values are cold when the
		// goroutines start (a lazily filled table is only racy while it is being filled)
		UnitPerProcess: true,
		MaxJobs:        6,
		Rule: "each workload = a list of operations per goroutine (operations on values the goroutine owns, or read-only queries on a value shared by all goroutines); every unit runs in a FRESH process of a -race build and starts with the concurrent phase on freshly built (cold) values: the lists run on 16 goroutines at GOMAXPROCS 16, then 4, then 2, with seeded Gosched calls between operations, repeated; afterwards every operation is executed sequentially on a second, independently built instance of the same values to obtain its expected result fingerprint; judged: zero data-race reports (counted from the race detector's log, deduplicated by the innermost library frames) and every concurrent result equal to the sequential one. " +
			"non-trivial = pair of operations on different goroutines whose [call, return] intervals overlapped in time (one monotonic clock); distinct = (workload, round, operation pair), counted by a sweep over the recorded intervals",
		Assumptions: []string{
			"the Go race detector reports only races between accesses that were executed; schedules are sampled",
			"the harness keeps per-goroutine result slots and joins with a WaitGroup; a stub workload of pure harness operations runs under the same detector to show the harness itself is race free",
			"timestamps are used only to count overlapping pairs for the evidence, never for a verdict",
		},
		Run:            run,
		MinEvaluations: map[string]int{"quick": 20000, "thorough": 100000},
		MinNontrivial:  map[string]int{"quick": 20000, "thorough": 100000},
		RequiredObs:    []string{"race_build", "workload:search-shards", "workload:canonical", "workload:shared-dawg", "workload:shared-graphs", "workload:own-values", "workload:own-graphs", "workload:shared-large-graphs", "workload:comb", "workload:clique-producers", "workload:harness-stub", "ops_concurrent"},
	})
}

// op is one operation: a name and a function returning a fingerprint of its result.
type op struct {
	name string
	f    func() string
}

type workload struct {
	name string
	ops  [][]op // per goroutine
}

type interval struct {
	g          int
	start, end int64
}

func fp(v ...interface{}) string { return fmt.Sprint(v...) }

// ---------------------------------------------------------------------------
// workloads

func searchShards(n, m int) workload {
	w := workload{name: "search-shards"}
	for a := 0; a < m; a++ {
		a := a
		w.ops = append(w.ops, []op{{fmt.Sprintf("search.All(%d,%d,%d)", n, a, m), func() string {
			it := search.All(n, a, m)
			var sb strings.Builder
			cnt := 0
			for it.Next() {
				sb.WriteString(graph.Graph6Encode(it.Value()))
				sb.WriteByte(' ')
				cnt++
			}
			return fmt.Sprintf("%d:%x", cnt, hash(sb.String()))
		}}, {fmt.Sprintf("search.WithPruning(%d,%d,%d,trianglefree)", n, a, m), func() string {
			tf := func(g *graph.DenseGraph) bool { return graph.Girth(g) == 3 }
			it := search.WithPruning(n-1, a, m, tf, func(*graph.DenseGraph) bool { return false })
			cnt := 0
			h := uint64(0)
			for it.Next() {
				h = h*31 + hash(graph.Graph6Encode(it.Value()))
				cnt++
			}
			return fmt.Sprintf("%d:%x", cnt, h)
		}}})
	}
	return w
}

func hash(s string) uint64 {
	h := uint64(1469598103934665603)
	for i := 0; i < len(s); i++ {
		h ^= uint64(s[i])
		h *= 1099511628211
	}
	return h
}

func canonical(c *engine.Ctx, G int) workload {
	w := workload{name: "canonical"}
	fams := gen.Families()
	for g := 0; g < G; g++ {
		g := g
		var ops []op
		for t := 0; t < 6; t++ {
			f := fams[(g*7+t*13)%len(fams)]
			if f.G.N > 30 {
				f = fams[(g+t)%10]
			}
			perm := c.Rand("c19-canon", g*16+t).Perm(f.G.N)
			h := f.G.Induced(perm)
			ops = append(ops, op{"CanonicalIsomorph(" + f.Name + ")", func() string {
				p := graph.CanonicalIsomorph(h.Dense())
				return fp(p)
			}}, op{"CanonicalIsomorphFull(sparse " + f.Name + ")", func() string {
				p, o, gs := graph.CanonicalIsomorphFull(h.Sparse(), nil)
				return fp(p, []int(o), gs)
			}}, op{"CanonicalIsomorphFull(dense " + f.Name + ", two vertex classes)", func() string {
				// vertex classes: the closed neighbourhood of vertex 0 and the rest (the arguments of one call must
				// not be replaced by another call's, or dropped, when calls overlap)
				var in, out []int
				for v := 0; v < h.N; v++ {
					if v == 0 || h.Has(0, v) {
						in = append(in, v)
					} else {
						out = append(out, v)
					}
				}
				classes := [][]int{in}
				if len(out) > 0 {
					classes = append(classes, out)
				}
				p, o, gs := graph.CanonicalIsomorphFull(h.Dense(), classes)
				return fp(p, []int(o), gs)
			}})
		}
		// own storage reused across the goroutine's graphs
		ops = append(ops, op{"CanonicalIsomorphAllocated(reused storage)", func() string {
			st := graph.NewStorage(12, 66)
			part := graph.NewOrderedPartition(12, 66, nil)
			var sb strings.Builder
			r := engine.NewRng(uint64(g) + 77)
			for i := 0; i < 30; i++ {
				x := gen.Random(r, 1+r.Intn(12), 0.4)
				nb := make([][]int, x.N)
				for v := range nb {
					nb[v] = x.Nbrs(v)
				}
				part.Reset(x.N, x.M(), nil)
				p, _, gs := graph.CanonicalIsomorphAllocated(x.N, x.M(), nb, part, st, new(graph.CanonicalOptions))
				sb.WriteString(fp(p, len(gs)))
			}
			return fmt.Sprintf("%x", hash(sb.String()))
		}})
		w.ops = append(w.ops, ops)
	}
	return w
}

func words(r *engine.Rng, n int, alpha int) [][]byte {
	set := map[string]bool{}
	for len(set) < n {
		l := r.Intn(7)
		if alpha > 30 {
			l = r.Intn(4)
		}
		b := make([]byte, l)
		for i := range b {
			b[i] = byte(r.Intn(alpha))
			if alpha <= 26 {
				b[i] += 'a'
			}
		}
		set[string(b)] = true
	}
	var ws []string
	for s := range set {
		ws = append(ws, s)
	}
	sort.Strings(ws)
	out := make([][]byte, len(ws))
	for i, s := range ws {
		out[i] = []byte(s)
	}
	return out
}

func sharedDawg(c *engine.Ctx, G int, rep int) (workload, error) {
	w := workload{name: "shared-dawg"}
	// alphabet width varies with the repetition: narrow (deep sharing) to wide (nodes with > 100 links)
	alpha := []int{26, 4, 120, 12, 250, 60}[rep%6]
	ws := words(c.Rand("c19-dawg", rep), 900, alpha)
	d, err := dawg.New(ws)
	if err != nil {
		return w, err
	}
	for g := 0; g < G; g++ {
		g := g
		r := c.Rand("c19-dawg-q", g)
		var ops []op
		for t := 0; t < 25; t++ {
			word := ws[r.Intn(len(ws))]
			probe := append([]byte{}, word...)
			if t%3 == 0 && len(probe) > 0 {
				letter := byte(r.Intn(alpha)) // a letter of the alphabet
				if alpha <= 26 {
					letter += 'a'
				}
				probe[r.Intn(len(probe))] = letter
			}
			pat := append([]byte{}, word...)
			for i := range pat {
				if r.Bool(0.4) {
					pat[i] = 255
				}
			}
			ana := append([]byte{}, word...)
			r2 := engine.NewRng(uint64(g*100 + t))
			for i := len(ana) - 1; i > 0; i-- {
				j := r2.Intn(i + 1)
				ana[i], ana[j] = ana[j], ana[i]
			}
			ops = append(ops,
				op{"Lookup", func() string { id, ok := d.Lookup(probe); return fp(id, ok) }},
				op{"Search(pattern)", func() string {
					s, ids := d.Search(dawg.NewPatternSearcher(pat, 255))
					return fp(len(s), ids, hashWords(s))
				}},
				op{"Search(anagram)", func() string {
					s, ids := d.Search(dawg.NewAnagramSearcher(ana, 255))
					return fp(len(s), ids, hashWords(s))
				}},
				op{"Search(pattern+anagram)", func() string {
					s, ids := d.Search(dawg.NewPatternSearcher(pat, 255), dawg.NewAnagramSearcher(ana, 255))
					return fp(len(s), ids)
				}},
			)
		}
		ops = append(ops, op{"NumberOfWords+GobEncode", func() string {
			b, err := d.GobEncode()
			return fp(d.NumberOfWords(), len(b), hash(string(b)), err)
		}})
		w.ops = append(w.ops, ops)
	}
	return w, nil
}

func hashWords(s [][]byte) uint64 {
	h := uint64(7)
	for _, w := range s {
		h = h*1000003 + hash(string(w))
	}
	return h
}

func cliques(g graph.Graph) string {
	ch := make(chan []int)
	go graph.AllMaximalCliques(g, ch)
	// the consumer treats every clique it receives as its own slice: it appends to it (an apex vertex) and sorts it
	// in place while the producer is still running, keeps all of them and reads them only at the end
	apex := g.N()
	var kept [][]int
	for cl := range ch {
		mine := append(cl, apex)
		sort.Ints(mine)
		kept = append(kept, mine)
	}
	var all []string
	for _, x := range kept {
		all = append(all, fp(x))
	}
	sort.Strings(all)
	return fmt.Sprintf("%d:%x", len(all), hash(strings.Join(all, ";")))
}

func sharedGraphs(c *engine.Ctx, G int) workload {
	w := workload{name: "shared-graphs"}
	r := c.Rand("c19-graphs", 0)
	base := gen.Random(r, 11, 0.35)
	pet := gen.Kneser(5, 2)
	dense := base.Dense()
	sparse := base.Sparse()
	big := gen.Random(r, 16, 0.4)
	V := r.Perm(16)[:11]
	view := graph.InducedSubgraph(big.Dense(), V)
	cview := graph.Complement(pet.Sparse())
	shared := []struct {
		name string
		g    graph.Graph
		e    graph.EditableGraph
	}{{"dense", dense, dense}, {"sparse", sparse, sparse}, {"induced-view", view, nil}, {"complement-view", cview, nil}, {"petersen", pet.Dense(), pet.Dense()}}
	for g := 0; g < G; g++ {
		var ops []op
		for si := range shared {
			s := shared[(si+g)%len(shared)]
			ops = append(ops,
				op{s.name + ":observers", func() string {
					var sb strings.Builder
					n := s.g.N()
					for i := 0; i < n; i++ {
						sb.WriteString(fp(s.g.Neighbours(i)))
						for j := 0; j < n; j++ {
							if s.g.IsEdge(i, j) {
								sb.WriteByte('1')
							} else {
								sb.WriteByte('0')
							}
						}
					}
					return fp(n, s.g.M(), s.g.Degrees(), hash(sb.String()))
				}},
				op{s.name + ":clique/colouring", func() string {
					chi, col := graph.ChromaticNumber(s.g)
					d, ord := graph.Degeneracy(s.g)
					return fp(graph.CliqueNumber(s.g), graph.IndependenceNumber(s.g), chi, col, d, ord)
				}},
				op{s.name + ":distances", func() string {
					bc, ap := graph.BiconnectedComponents(s.g)
					return fp(graph.Girth(s.g), graph.Diameter(s.g), graph.Radius(s.g), graph.Eccentricity(s.g), graph.ConnectedComponents(s.g), bc, ap, graph.Distance(s.g, 0, s.g.N()-1))
				}},
				op{s.name + ":planar/induced", func() string {
					return fp(graph.IsPlanar(s.g), graph.NumberOfInducedCycles(s.g, 6), graph.NumberOfInducedPaths(s.g, 4))
				}},
				op{s.name + ":encoders", func() string {
					return fp(graph.Graph6Encode(s.g), graph.Sparse6Encode(s.g), graph.MulticodeEncode(s.g))
				}},
				op{s.name + ":canonical", func() string { return fp(graph.CanonicalIsomorph(s.g)) }},
				op{s.name + ":maximal-cliques", func() string { return cliques(s.g) }},
				op{s.name + ":chromatic-index", func() string { ci, ce := graph.ChromaticIndex(s.g); return fp(ci, ce) }},
			)
			if s.e != nil {
				ops = append(ops, op{s.name + ":polynomial/cycles", func() string {
					small := s.e.InducedSubgraph([]int{0, 1, 2, 3, 4, 5, 6})
					return fp(graph.ChromaticPolynomial(small), graph.NumberOfCycles(small))
				}}, op{s.name + ":copy-and-edit", func() string {
					cp := s.e.Copy()
					cp.RemoveVertex(2)
					cp.AddVertex([]int{0, 1})
					cp.AddEdge(3, 4)
					is := s.e.InducedSubgraph([]int{4, 2, 0, 1})
					is.RemoveEdge(0, 1)
					return fp(graph.Graph6Encode(cp), graph.Graph6Encode(is), cp.Degrees())
				}})
			}
		}
		w.ops = append(w.ops, ops)
	}
	return w
}

// ownGraphs: every goroutine owns a handful of graphs of very different shape (disconnected, trees, empty, single
// vertex, dense) and runs the read-only algorithms on them; the rounds repeat, so anything a call leaves behind in
// package-level state (a pooled scratch buffer released twice on an early-exit path, a "last result" variable) is in
// place when the next round's calls overlap.
func ownGraphs(c *engine.Ctx, G int) workload {
	w := workload{name: "own-graphs"}
	for g := 0; g < G; g++ {
		r := c.Rand("c19-own-graphs", g)
		shapes := []struct {
			name string
			g    *rg.G
		}{
			{"two-cycles(disconnected)", rg.Union(gen.Cycle(5+g%7), gen.Cycle(20))},
			{"forest(disconnected)", rg.Union(gen.RandomTree(r, 9), gen.RandomTree(r, 6))},
			{"tree", gen.RandomTree(r, 14)},
			{"G(12,.3)", gen.Random(r, 12, 0.3)},
			{"G(30,.15)", gen.Random(r, 30, 0.15)},
			{"edgeless5", rg.New(5)},
			{"K1", rg.New(1)},
			{"K0", rg.New(0)},
			{"cycle63+isolated", rg.Union(gen.Cycle(63), rg.New(2))},
			{"grid4x5", gen.Grid(4, 5)},
		}
		var ops []op
		for si, sh := range shapes {
			var h graph.Graph = sh.g.Dense()
			if (si+g)%2 == 1 {
				h = sh.g.Sparse()
			}
			n := sh.g.N
			name := sh.name
			ops = append(ops,
				op{name + ":distances", func() string {
					d := -2
					if n > 1 {
						d = graph.Distance(h, 0, n-1)
					}
					return fp(graph.Eccentricity(h), graph.Diameter(h), graph.Radius(h), graph.Girth(h), d)
				}},
				op{name + ":components", func() string {
					bc, ap := graph.BiconnectedComponents(h)
					cc := -1
					if n > 0 {
						cc = len(graph.ConnectedComponent(h, n/2))
					}
					return fp(graph.ConnectedComponents(h), bc, ap, cc)
				}},
				op{name + ":invariants", func() string {
					d, ord := graph.Degeneracy(h)
					order := make([]int, n)
					for i := range order {
						order[i] = n - 1 - i
					}
					k, col := graph.GreedyColor(h, order)
					return fp(d, ord, k, col, graph.CliqueNumber(h), graph.IsPlanar(h), graph.NumberOfInducedPaths(h, 2), graph.NumberOfInducedCycles(h, 5), graph.CanonicalIsomorph(h))
				}},
				op{name + ":codecs", func() string {
					s6 := graph.Sparse6Encode(h)
					back, err := graph.Sparse6Decode(s6)
					return fp(graph.Graph6Encode(h), s6, err, err == nil && graph.Equal(back, h), graph.MulticodeEncode(h))
				}},
			)
		}
		w.ops = append(w.ops, ops)
	}
	return w
}

// sharedLarge: shared values beyond the sizes where a word-sized mask or a small fixed buffer suffices (views on more
// than 64 / 128 vertices): only the cheap observers and polynomial algorithms.
func sharedLarge(c *engine.Ctx, G int) workload {
	w := workload{name: "shared-large-graphs"}
	r := c.Rand("c19-large", 0)
	base := gen.Random(r, 100, 0.06)
	host := gen.Random(r, 130, 0.07)
	V := r.Perm(130)[:90]
	shared := []struct {
		name string
		g    graph.Graph
	}{
		{"dense100", base.Dense()}, {"sparse100", base.Sparse()},
		{"induced-view(90 of 130, sparse host)", graph.InducedSubgraph(host.Sparse(), V)},
		{"induced-view(66 of 130, dense host)", graph.InducedSubgraph(host.Dense(), append([]int{}, V[:66]...))},
		{"complement-view(sparse100)", graph.Complement(base.Sparse())},
	}
	for g := 0; g < G; g++ {
		var ops []op
		for si := range shared {
			s := shared[(si+g)%len(shared)]
			n := s.g.N()
			ops = append(ops,
				op{s.name + ":observers", func() string {
					h := uint64(0)
					for v := 0; v < n; v++ {
						h = h*1000003 + hash(fp(s.g.Neighbours(v)))
					}
					e := 0
					for v := 0; v < n; v += 7 {
						for u := 0; u < n; u += 3 {
							if s.g.IsEdge(u, v) {
								e++
							}
						}
					}
					return fp(n, s.g.M(), hash(fp(s.g.Degrees())), h, e)
				}},
				op{s.name + ":distances", func() string {
					return fp(hash(fp(graph.Eccentricity(s.g))), graph.Girth(s.g), graph.Distance(s.g, 0, n-1), graph.Distance(s.g, n/2, 1), len(graph.ConnectedComponents(s.g)))
				}},
			)
			if !strings.HasPrefix(s.name, "complement") {
				ops = append(ops, op{s.name + ":blocks+degeneracy+encoders", func() string {
					bc, ap := graph.BiconnectedComponents(s.g)
					d, ord := graph.Degeneracy(s.g)
					return fp(len(bc), ap, d, hash(fp(ord)), hash(graph.Sparse6Encode(s.g)), hash(graph.Graph6Encode(s.g)))
				}})
			}
		}
		w.ops = append(w.ops, ops)
	}
	return w
}

func ownValues(c *engine.Ctx, G int) workload {
	w := workload{name: "own-values"}
	for g := 0; g < G; g++ {
		g := g
		seed := uint64(g*1000 + 5)
		ops := []op{
			{"itertools", func() string {
				var sb strings.Builder
				ci := itertools.Combinations(7, 3)
				for ci.Next() {
					sb.WriteString(fp(ci.Value()))
				}
				cc := itertools.CombinationsColex(7, 4)
				for cc.Next() {
					sb.WriteString(fp(cc.Value()))
				}
				pi := itertools.Permutations(5)
				for pi.Next() {
					sb.WriteString(fp(pi.Value()))
				}
				lp := itertools.LexicographicPermutations(5)
				for lp.Next() {
					sb.WriteString(fp(lp.Value()))
				}
				pa := itertools.Partitions(6)
				for pa.Next() {
					sb.WriteString(fp(pa.Value()))
				}
				ip := itertools.IntegerPartitions(12)
				for ip.Next() {
					sb.WriteString(fp(ip.Value()))
				}
				mc := itertools.MultisetCombinations([]int{2, 1, 3}, 3)
				for mc.Next() {
					sb.WriteString(fp(mc.Value(), mc.FreqValue()))
				}
				mp := itertools.MultisetPermutations([]int{2, 1, 2})
				for mp.Next() {
					sb.WriteString(fp(mp.Value()))
				}
				pr := itertools.Product(2, 3, 2)
				for pr.Next() {
					sb.WriteString(fp(pr.Value()))
				}
				ts := itertools.TopologicalSorts(5, func(i, j int) bool { return j == i+2 })
				for ts.Next() {
					sb.WriteString(fp(ts.Value(), ts.InverseValue()))
				}
				rp := itertools.RestrictedPrefixPermutations(5, func(a []int) bool { return len(a) < 2 || a[len(a)-1] != a[len(a)-2]+1 })
				for rp.Next() {
					sb.WriteString(fp(rp.Value()))
				}
				pp := itertools.PermutationsByPattern(5, func(a []int) bool { return len(a) < 3 || !(a[len(a)-3] < a[len(a)-2] && a[len(a)-2] < a[len(a)-1]) })
				for pp.Next() {
					sb.WriteString(fp(pp.Value()))
				}
				rq := itertools.RestrictedPrefixProduct(func(a []int) bool { return a[len(a)-1] != 1 || len(a) == 1 }, 3, 2, 3)
				for rq.Next() {
					sb.WriteString(fp(rq.Value()))
				}
				return fmt.Sprintf("%x", hash(sb.String()))
			}},
			{"dawg-builder", func() string {
				r := engine.NewRng(seed)
				ws := words(r, 150, 3)
				var b dawg.Builder
				for _, x := range ws {
					if err := b.Add(x); err != nil {
						return "add-error " + err.Error()
					}
				}
				d, err := b.Finish()
				if err != nil {
					return "finish-error"
				}
				enc, _ := d.GobEncode()
				var d2 dawg.Dawg
				err = d2.GobDecode(enc)
				id, ok := d2.Lookup(ws[len(ws)/2])
				return fp(d.NumberOfWords(), len(enc), hash(string(enc)), err, id, ok)
			}},
			{"sortints+ints+disjoint", func() string {
				r := engine.NewRng(seed + 1)
				s := sortints.NewSortedInts()
				ds := disjoint.New(40)
				var sb strings.Builder
				for i := 0; i < 200; i++ {
					x, y := r.Intn(40), r.Intn(40)
					s.Add(x, y)
					if i%5 == 0 {
						s.Remove(x)
					}
					t := sortints.Range(0, 40, 1+r.Intn(5))
					sb.WriteString(fp(sortints.Intersection(s, t), sortints.XOR(s, t), sortints.SetMinus(t, s), sortints.IntersectionSize(s, t), sortints.Complement(40, s)))
					u := append(sortints.SortedInts{}, s...)
					u.Union(t)
					sb.WriteString(fp(u))
					ds.Union(x, y)
					sb.WriteString(fp(ds.Find(x), ds.Find(y)))
				}
				a := r.Perm(500)
				ints.Sort(a)
				sb.WriteString(fp(a[:5], ds.Sets(), ds.SmallestRep()))
				return fmt.Sprintf("%x", hash(sb.String()))
			}},
			{"graph-generators+tsp", func() string {
				var buf bytes.Buffer
				err := tsp.LIB(&buf, 7, func(i, j int) int { return i*j + g })
				x := graph.RandomGraph(9, 0.4, int64(g))
				t := graph.RandomTree(9, int64(g))
				l := graph.LineGraphDense(x)
				d, e1 := graph.Graph6Decode(graph.Graph6Encode(x))
				sp, e2 := graph.Sparse6Decode(graph.Sparse6Encode(x))
				return fp(err, hash(buf.String()), graph.Graph6Encode(t), graph.Graph6Encode(l), graph.Equal(d, x), e1, graph.Equal(sp, x), e2, graph.PruferEncode(t),
					graph.Graph6Encode(graph.KneserGraph(5, 2)), graph.Graph6Encode(graph.HypercubeGraph(3)), graph.Graph6Encode(graph.CirculantGraph(9, 1, 3)))
			}},
		}
		w.ops = append(w.ops, ops)
	}
	return w
}

// sharedArguments: every goroutine builds its OWN values, but from argument slices that all goroutines share and
// only read (limits, frequencies, factor lists, codes, word lists, vertex lists, patterns).  The reference instance
// (fresh = true) gives every call a private copy of the same arguments.
func sharedArguments(c *engine.Ctx, G int, fresh bool) workload {
	w := workload{name: "shared-arguments"}
	limits := []int{3, 2, 4, 1, 3}
	freq := []int{2, 1, 2}
	factors := []int{2, 3, 2}
	setA := sortints.NewSortedInts(1, 3, 4, 8, 9, 12, 20)
	setB := sortints.NewSortedInts(0, 3, 5, 8, 13, 20, 21)
	code := []int{3, 3, 0, 5, 1, 1}
	r := c.Rand("c19-shared-args", 0)
	base := gen.Random(r, 10, 0.4)
	edgeBytes := base.EdgeBytes()
	multicode := []byte{5, 2, 3, 0, 3, 4, 0, 5, 0, 0}
	V := []int{7, 2, 9, 0, 4}
	ws := words(r, 60, 4)
	subset := []int{1, 4, 6, 9}
	pattern := []byte("a??")
	if len(ws) > 0 {
		pattern = append([]byte{}, ws[len(ws)/2]...)
		if len(pattern) > 1 {
			pattern[1] = '?'
		}
	}
	shared, _ := dawg.New(ws)
	ints0 := func(a []int) []int {
		if fresh {
			return append([]int{}, a...)
		}
		return a
	}
	bytes0 := func(a []byte) []byte {
		if fresh {
			return append([]byte{}, a...)
		}
		return a
	}
	for g := 0; g < G; g++ {
		g := g
		ops := []op{
			{"iterators over shared argument slices", func() string {
				var sb strings.Builder
				mc := itertools.MultisetCombinations(ints0(limits), 1+g%6)
				for mc.Next() {
					sb.WriteString(fp(mc.Value()))
				}
				mp := itertools.MultisetPermutations(ints0(freq))
				for mp.Next() {
					sb.WriteString(fp(mp.Value()))
				}
				pr := itertools.Product(ints0(factors)...)
				for pr.Next() {
					sb.WriteString(fp(pr.Value()))
				}
				rq := itertools.RestrictedPrefixProduct(func(a []int) bool { return len(a) < 2 || a[len(a)-1] != a[len(a)-2] }, ints0(factors)...)
				for rq.Next() {
					sb.WriteString(fp(rq.Value()))
				}
				return fmt.Sprintf("%x", hash(sb.String()))
			}},
			{"sets, ranks and codes from shared arguments", func() string {
				a, b := sortints.SortedInts(ints0(setA)), sortints.SortedInts(ints0(setB))
				t := graph.PruferDecode(ints0(code))
				d := graph.NewDense(10, bytes0(edgeBytes))
				mg := graph.MulticodeDecode(bytes0(multicode))
				return fp(sortints.Union(a, b), sortints.Intersection(a, b), sortints.XOR(a, b), sortints.SetMinus(a, b), sortints.ContainsSorted(a, b), sortints.IntersectionSize(a, b),
					comb.Rank(ints0(subset)), graph.Graph6Encode(t), graph.Graph6Encode(d), graph.Graph6Encode(mg),
					graph.Graph6Encode(graph.InducedSubgraph(d, ints0(V))), graph.Graph6Encode(d.InducedSubgraph(ints0(V))))
			}},
			{"dawg from a shared word list, searchers from shared patterns", func() string {
				var wl [][]byte
				if fresh {
					for _, x := range ws {
						wl = append(wl, append([]byte{}, x...))
					}
				} else {
					wl = ws
				}
				d, err := dawg.New(wl)
				if err != nil {
					return "error " + err.Error()
				}
				s1, i1 := d.Search(dawg.NewPatternSearcher(bytes0(pattern), '?'))
				s2, i2 := shared.Search(dawg.NewAnagramSearcher(bytes0(pattern), '?'))
				return fp(d.NumberOfWords(), hashWords(s1), i1, hashWords(s2), i2)
			}},
		}
		w.ops = append(w.ops, ops)
	}
	return w
}

func combTables(G int) workload {
	w := workload{name: "comb"}
	for g := 0; g < G; g++ {
		g := g
		w.ops = append(w.ops, []op{{"Coeff/Rank/Unrank", func() string {
			var sb strings.Builder
			r := engine.NewRng(uint64(g) * 31)
			for i := 0; i < 400; i++ {
				n := r.Intn(60)
				k := r.Intn(12)
				sb.WriteString(fp(comb.Coeff(n, k), comb.CoeffUint64(uint64(n+5), uint64(k))))
				u := comb.Unrank(r.Intn(3000), 1+k%5)
				sb.WriteString(fp(u, comb.Rank(u)))
			}
			sb.WriteString(fp(comb.Coeffs(20)[20]))
			return fmt.Sprintf("%x", hash(sb.String()))
		}}, {"calls that refuse (documented panics, recovered by the caller) between ordinary calls", func() string {
			// a refused call must leave nothing behind that affects later calls of this or any other goroutine
			var sb strings.Builder
			refused := func(f func()) (msg string) {
				defer func() {
					if x := recover(); x != nil {
						msg = "refused"
					}
				}()
				f()
				return "returned"
			}
			r := engine.NewRng(uint64(g)*53 + 9)
			for i := 0; i < 60; i++ {
				switch (i + g) % 4 {
				case 0:
					sb.WriteString(refused(func() { comb.Coeff(100+r.Intn(50), 48+r.Intn(5)) }))
				case 1:
					sb.WriteString(refused(func() { comb.CoeffUint64(uint64(200+r.Intn(100)), uint64(90+r.Intn(20))) }))
				case 2:
					sb.WriteString(refused(func() { comb.Rank([]int{1 << 40, 1<<41 + r.Intn(9), 1 << 42, 1<<43 + 5}) }))
				default:
					sb.WriteString(refused(func() { graph.GreedyColor(graph.Path(4), []int{0, 1}) }))
				}
				n, k := 33+r.Intn(30), 2+r.Intn(8)
				sb.WriteString(fp(comb.Coeff(n, k), comb.CoeffUint64(uint64(n), uint64(k)), comb.Rank([]int{k, n, n + 3})))
			}
			return sb.String()
		}}})
	}
	return w
}

func cliqueProducers(c *engine.Ctx, G int) workload {
	w := workload{name: "clique-producers"}
	r := c.Rand("c19-cliques", 0)
	shared := gen.Random(r, 14, 0.5).Dense()
	for g := 0; g < G; g++ {
		own := gen.Random(c.Rand("c19-cliques-own", g), 12, 0.5).Sparse()
		w.ops = append(w.ops, []op{
			{"AllMaximalCliques(shared graph, own channel)", func() string { return cliques(shared) }},
			{"AllMaximalCliques(own graph)", func() string { return cliques(own) }},
			{"RandomMaximalClique(shared)", func() string { return fp(graph.RandomMaximalClique(shared, 5)) }},
		})
	}
	return w
}

func harnessStub(G int) workload {
	w := workload{name: "harness-stub"}
	for g := 0; g < G; g++ {
		g := g
		w.ops = append(w.ops, []op{{"pure-harness", func() string {
			x := gen.Random(engine.NewRng(uint64(g)), 10, 0.5)
			return x.G6() + fp(rg.WellFormed(x.Dense()))
		}}})
	}
	return w
}

// ---------------------------------------------------------------------------

type result struct {
	got   string
	panic string
	site  string
}

// runConcurrent executes the per-goroutine op lists concurrently; returns results and intervals.
// blockedWorkers reads a dump of all goroutines: it returns the dump entries of the worker goroutines (those with
// runConcurrent.func on their stack) if EVERY one of them is parked in a blocking state (waiting for a lock, a
// semaphore, a channel ...), and "" if any of them is running or runnable (a worker that is merely starved of CPU is
// runnable, never parked).
func blockedWorkers() string {
	buf := make([]byte, 1<<22)
	buf = buf[:runtime.Stack(buf, true)]
	var parked []string
	for _, gr := range strings.Split(string(buf), "\n\n") {
		if !strings.Contains(gr, "c19.runConcurrent.func") || strings.Contains(gr, "c19.blockedWorkers") {
			continue
		}
		head := gr
		if i := strings.IndexByte(gr, '\n'); i >= 0 {
			head = gr[:i]
		}
		if strings.Contains(gr, "sync.(*WaitGroup).Wait") {
			continue // the helper that waits for the workers
		}
		if strings.Contains(head, "[running") || strings.Contains(head, "[runnable") || strings.Contains(head, "[syscall") {
			return ""
		}
		parked = append(parked, gr)
	}
	return strings.Join(parked, "\n\n")
}

func runConcurrent(w workload, seed uint64, rounds int) ([][][]result, []interval, string) {
	G := len(w.ops)
	var opsDone int64
	res := make([][][]result, G)
	ivs := make([][]interval, G)
	t0 := time.Now()
	var wg sync.WaitGroup
	start := make(chan struct{})
	for g := 0; g < G; g++ {
		res[g] = make([][]result, rounds)
		wg.Add(1)
		go func(g int) {
			defer wg.Done()
			r := engine.NewRng(seed*1000 + uint64(g))
			<-start
			for round := 0; round < rounds; round++ {
				rr := make([]result, len(w.ops[g]))
				for i, o := range w.ops[g] {
					if r.Bool(0.3) {
						runtime.Gosched()
					}
					s := time.Since(t0).Nanoseconds()
					func() {
						defer func() {
							if x := recover(); x != nil {
								rr[i].panic = fmt.Sprint(x)
								rr[i].site = string(debug.Stack())
							}
						}()
						rr[i].got = o.f()
					}()
					ivs[g] = append(ivs[g], interval{g, s, time.Since(t0).Nanoseconds()})
					atomic.AddInt64(&opsDone, 1)
				}
				res[g][round] = rr
			}
		}(g)
	}
	close(start)
	finished := make(chan struct{})
	go func() { wg.Wait(); close(finished) }()
	// A deadlock burns no CPU, so the CPU watchdog of the engine never sees it.  It is decided on the goroutines'
	// states, not on time: no operation completed between two looks 10 s apart AND at both looks every unfinished
	// worker is parked in a blocking state (a worker that is only slow or starved is running / runnable).
	var lastCount int64 = -1
	strikes := 0
	for {
		select {
		case <-finished:
			var all []interval
			for g := range ivs {
				all = append(all, ivs[g]...)
			}
			return res, all, ""
		case <-time.After(10 * time.Second):
		}
		n := atomic.LoadInt64(&opsDone)
		dump := ""
		if n == lastCount {
			dump = blockedWorkers()
		}
		if dump == "" {
			lastCount, strikes = n, 0
			continue
		}
		strikes++
		if strikes >= 2 {
			return res, nil, dump
		}
	}
}

// overlappingPairs counts pairs of intervals on different goroutines that intersect.
func overlappingPairs(ivs []interval) int64 {
	sort.Slice(ivs, func(i, j int) bool { return ivs[i].start < ivs[j].start })
	var cnt int64
	// active intervals kept in a slice (G is small)
	var active []interval
	for _, iv := range ivs {
		k := 0
		for _, a := range active {
			if a.end > iv.start {
				active[k] = a
				k++
				if a.g != iv.g {
					cnt++
				}
			}
		}
		active = append(active[:k], iv)
	}
	return cnt
}

func librarySite(stack string) string {
	lines := strings.Split(stack, "\n")
	for i := 0; i+1 < len(lines); i++ {
		if strings.HasPrefix(lines[i], "github.com/Tom-Johnston/mamba/") {
			fn := lines[i]
			if p := strings.LastIndexByte(fn, '('); p > 0 {
				fn = fn[:p]
			}
			return strings.TrimPrefix(fn, "github.com/Tom-Johnston/mamba/")
		}
	}
	return "?"
}

// runWorkload: w is the instance the goroutines work on (cold), ref an independently built second instance used
// only sequentially, afterwards, to obtain the expected fingerprints.
func runWorkload(c *engine.Ctx, w, ref workload, rounds int) {
	type conc struct {
		procs int
		res   [][][]result
	}
	var runs []conc
	for _, procs := range []int{16, 4, 2} {
		old := runtime.GOMAXPROCS(procs)
		var res [][][]result
		var ivs []interval
		key := fmt.Sprintf("c19|%s|concurrent|GOMAXPROCS=%d", w.name, procs)
		blocked := ""
		pi := c.Call(key, func() { res, ivs, blocked = runConcurrent(w, c.Seed()*7+uint64(procs), rounds) })
		runtime.GOMAXPROCS(old)
		if blocked != "" {
			c.Violation("concurrent|"+w.name+"|goroutines-blocked-for-good|"+librarySite(blocked), map[string]interface{}{"workload": w.name, "GOMAXPROCS": procs},
				"no operation completed any more and every unfinished goroutine is parked in a blocking state:\n"+blocked, "every goroutine obtains the result it would obtain running alone (and therefore returns)")
			return
		}
		if pi != nil {
			c.Violation("concurrent|"+w.name+"|panic-in-harness-goroutine", map[string]interface{}{"workload": w.name}, pi.String(), "no panic")
			return
		}
		pairs := overlappingPairs(ivs)
		c.NTDistinct(int(pairs))
		c.Obs("overlapping_pairs:"+w.name, int(pairs))
		runs = append(runs, conc{procs, res})
	}
	// sequential expectations on the second instance (a panic here is judged by the other properties: skip the op)
	expected := make([][]string, len(ref.ops))
	bad := map[string]bool{}
	for g := range ref.ops {
		expected[g] = make([]string, len(ref.ops[g]))
		for i, o := range ref.ops[g] {
			var s string
			if pi := c.Call("c19|"+w.name+"|sequential|"+o.name, func() { s = o.f() }); pi != nil {
				bad[fmt.Sprint(g, ":", i)] = true
				c.Obs("ops_panicking_sequentially(skipped)", 1)
				continue
			}
			expected[g][i] = s
			c.Obs("ops_sequential", 1)
		}
	}
	for _, cr := range runs {
		for g := range cr.res {
			for round := range cr.res[g] {
				for i, r := range cr.res[g][round] {
					if bad[fmt.Sprint(g, ":", i)] {
						continue
					}
					c.Eval(1)
					c.Obs("ops_concurrent", 1)
					name := w.ops[g][i].name
					if r.panic != "" {
						c.Violation("concurrent|"+w.name+"|panic|"+name+"|"+librarySite(r.site), map[string]interface{}{"workload": w.name, "op": name, "goroutine": g, "round": round, "GOMAXPROCS": cr.procs}, "panic: "+r.panic+"\n"+r.site, "the sequential result "+expected[g][i])
						continue
					}
					if r.got != expected[g][i] {
						c.Violation("concurrent|"+w.name+"|result-differs|"+name, map[string]interface{}{"workload": w.name, "op": name, "goroutine": g, "round": round, "GOMAXPROCS": cr.procs}, r.got, expected[g][i]+" (result of the same operation run alone on an independently built value)")
					}
				}
			}
		}
	}
	c.Obs("workload:"+w.name, 1)
}

func run(c *engine.Ctx) {
	G := 16
	rounds := c.Pick(3, 12)
	reps := c.Pick(3, 12)
	for rep := 0; rep < reps; rep++ {
		rep := rep
		mk := []struct {
			name string
			f    func() (workload, error)
		}{
			{"search-shards", func() (workload, error) {
				if c.Thorough() && rep%2 == 1 {
					return searchShards(9, 16), nil
				}
				return searchShards(8, 16), nil
			}},
			{"canonical", func() (workload, error) { return canonical(c, G), nil }},
			{"shared-dawg", func() (workload, error) { return sharedDawg(c, G, rep) }},
			{"shared-graphs", func() (workload, error) { return sharedGraphs(c, G), nil }},
			{"own-values", func() (workload, error) { return ownValues(c, G), nil }},
			{"own-graphs", func() (workload, error) { return ownGraphs(c, G), nil }},
			{"shared-arguments", func() func() (workload, error) {
				calls := 0
				return func() (workload, error) { calls++; return sharedArguments(c, G, calls == 2), nil } // 1st: the concurrent instance, 2nd: the reference
			}()},
			{"shared-large-graphs", func() (workload, error) { return sharedLarge(c, G), nil }},
			{"comb", func() (workload, error) { return combTables(G), nil }},
			{"clique-producers", func() (workload, error) { return cliqueProducers(c, G), nil }},
			{"harness-stub", func() (workload, error) { return harnessStub(G), nil }},
		}
		for _, m := range mk {
			m := m
			c.Unit(fmt.Sprintf("%s/rep%d", m.name, rep), func() {
				c.SetBudget(40) // 16 goroutines of a -race build inside one guarded call
				if raceEnabled {
					c.Obs("race_build", 1)
				}
				var w, ref workload
				var err error
				if pi := c.Call("c19|"+m.name+"|setup", func() {
					w, err = m.f()
					if err == nil {
						ref, err = m.f()
					}
				}); pi != nil || err != nil {
					c.Inconclusive(fmt.Sprintf("setup of workload %s failed: %v %v", m.name, pi, err))
					return
				}
				r := rounds
				if m.name == "search-shards" || m.name == "shared-large-graphs" {
					r = 1 + rounds/3
				}
				runWorkload(c, w, ref, r)
				if rep == 0 {
					var names []string
					for _, o := range w.ops[0] {
						names = append(names, o.name)
					}
					if len(names) > 12 {
						names = names[:12]
					}
					c.Sample(m.name, map[string]interface{}{"goroutines": len(w.ops), "ops_per_goroutine": len(w.ops[0]), "rounds": r, "ops_of_goroutine_0": names})
				}
			})
		}
	}
}

// C19 harmless change 6: graph.CanonicalIsomorphFull (and so CanonicalIsomorph) asks its Graph argument for N() and
// M() once, at the start, and uses the two numbers from then on, instead of calling g.N() four times and g.M() three
// times (for an induced-subgraph view M() sums the degree sequence every time). The values handed to
// NewOrderedPartition, NewStorage and CanonicalIsomorphAllocated are the same, so the results are the same; what
// changes is how often the read-only observers of a (possibly shared) graph are called.
//
// Run (from the root of the library worktree):
//
//	export GOFLAGS=-mod=mod GOPROXY=off GOSUMDB=off GOTOOLCHAIN=local
//	cp /tmp/green-out/C19/6/demo_test.go graph/zz_c19_demo_test.go
//	go test -race -vet=off -count=1 -timeout 600s -run 'TestC19' -v ./graph/
//	rm graph/zz_c19_demo_test.go
//
// Clean tree:   TestC19Property PASS (no race report), TestC19IncidentalObserverCalls PASS (N 4, M 3, Neighbours n per call).
// With patch 6: TestC19Property PASS (no race report), TestC19IncidentalObserverCalls FAIL (N 1, M 1, Neighbours n per call).
package graph_test

import (
	"fmt"
	"sync"
	"sync/atomic"
	"testing"

	"github.com/Tom-Johnston/mamba/graph"
)

// c19Counting is a read-only view of a graph which counts the calls of the observers. The counters are atomic so the
// view itself can be shared between goroutines.
type c19Counting struct {
	graph.Graph
	n, m, nb int64
}

func (c *c19Counting) N() int { atomic.AddInt64(&c.n, 1); return c.Graph.N() }
func (c *c19Counting) M() int { atomic.AddInt64(&c.m, 1); return c.Graph.M() }
func (c *c19Counting) Neighbours(v int) []int {
	atomic.AddInt64(&c.nb, 1)
	return c.Graph.Neighbours(v)
}

type c19Case struct {
	name    string
	g       graph.Graph
	classes [][]int
}

func c19Cases() []c19Case {
	petersen := graph.GeneralisedPetersenGraph(5, 2)
	cube := graph.HypercubeGraph(4)
	return []c19Case{
		{"petersen", petersen, nil},
		{"petersen with classes", petersen, [][]int{{0, 1, 2, 3, 4}, {5, 6, 7, 8, 9}}},
		{"cube", cube, nil},
		{"cube with classes", cube, [][]int{{0}, {1, 2, 3, 4, 5, 6, 7, 8, 9, 10, 11, 12, 13, 14, 15}}},
		{"random", graph.RandomGraph(30, 0.3, 7), nil},
		{"no edges with classes", graph.NewDense(6, nil), [][]int{{0, 2, 4}, {1, 3}, {5}}},
		{"view of an induced subgraph", graph.InducedSubgraph(graph.RookGraph(4, 4), []int{15, 3, 9, 1, 4, 12, 6, 10, 0, 7}), nil},
		{"no vertices", graph.NewDense(0, nil), nil},
	}
}

func c19Run(c c19Case) string {
	perm, orbits, gens := graph.CanonicalIsomorphFull(c.g, c.classes)
	return fmt.Sprint(perm, orbits, gens, graph.CanonicalIsomorph(c.g))
}

// The property on these inputs: goroutines which only read shared graphs (and shared vertex classes) get what they get alone.
func TestC19Property(t *testing.T) {
	cases := c19Cases()
	alone := make([]string, len(cases))
	for i, c := range cases {
		alone[i] = c19Run(c)
	}
	const G = 8
	var wg sync.WaitGroup
	errs := make(chan string, G*len(cases)*4)
	for w := 0; w < G; w++ {
		wg.Add(1)
		go func(w int) {
			defer wg.Done()
			for rep := 0; rep < 4; rep++ {
				for k := range cases {
					i := (k + w) % len(cases)
					if got := c19Run(cases[i]); got != alone[i] {
						errs <- fmt.Sprintf("goroutine %v, %v: %v, alone %v", w, cases[i].name, got, alone[i])
					}
				}
			}
		}(w)
	}
	wg.Wait()
	close(errs)
	for e := range errs {
		t.Error(e)
	}
}

// The incidental behaviour: how often the observers of the graph are called by one CanonicalIsomorphFull.
func TestC19IncidentalObserverCalls(t *testing.T) {
	for _, c := range c19Cases() {
		cg := &c19Counting{Graph: c.g}
		want := c19Run(c)
		perm, orbits, gens := graph.CanonicalIsomorphFull(cg, c.classes)
		if got := fmt.Sprint(perm, orbits, gens, graph.CanonicalIsomorph(c.g)); got != want {
			t.Fatalf("%v: the counting view changed the result", c.name)
		}
		t.Logf("%-28v N() %v  M() %v  Neighbours() %v (n = %v)", c.name, cg.n, cg.m, cg.nb, c.g.N())
		if cg.nb != int64(c.g.N()) {
			t.Errorf("%v: Neighbours called %v times, n = %v", c.name, cg.nb, c.g.N())
		}
		if cg.n != 4 || cg.m != 3 {
			t.Errorf("%v: OLD behaviour was 4 calls of N() and 3 calls of M(), got %v and %v", c.name, cg.n, cg.m)
		}
	}
}

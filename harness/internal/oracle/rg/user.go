package rg

import "fmt"

// UserGraph is a graph.Graph implemented OUTSIDE the library the way a user of the library might do it: adjacency
// lists, and Neighbours / Degrees hand out the stored slices themselves (the interface does not say that they have to
// be copies).  A library function that is given such a value must not write into those slices; Intact tells.
type UserGraph struct {
	Adj   [][]int
	Deg   []int
	Edges int
}

// User returns g as a UserGraph.
func (g *G) User() *UserGraph {
	u := &UserGraph{Adj: make([][]int, g.N), Deg: make([]int, g.N), Edges: g.M()}
	for v := 0; v < g.N; v++ {
		u.Adj[v] = g.Nbrs(v)
		u.Deg[v] = len(u.Adj[v])
	}
	return u
}

func (u *UserGraph) N() int { return len(u.Adj) }
func (u *UserGraph) M() int { return u.Edges }
func (u *UserGraph) IsEdge(i, j int) bool {
	for _, w := range u.Adj[i] {
		if w == j {
			return true
		}
	}
	return false
}
func (u *UserGraph) Neighbours(v int) []int { return u.Adj[v] }
func (u *UserGraph) Degrees() []int         { return u.Deg }

// Intact compares the stored lists with the model ("" = unchanged).
func (u *UserGraph) Intact(g *G) string {
	if len(u.Adj) != g.N || len(u.Deg) != g.N {
		return fmt.Sprintf("%d adjacency lists, %d degrees, the graph has %d vertices", len(u.Adj), len(u.Deg), g.N)
	}
	for v := 0; v < g.N; v++ {
		want := g.Nbrs(v)
		if len(want) != len(u.Adj[v]) || u.Deg[v] != len(want) {
			return fmt.Sprintf("vertex %d: stored neighbours %v, stored degree %d, the graph has neighbours %v", v, u.Adj[v], u.Deg[v], want)
		}
		for i := range want {
			if want[i] != u.Adj[v][i] {
				return fmt.Sprintf("vertex %d: stored neighbours %v, the graph has %v", v, u.Adj[v], want)
			}
		}
	}
	return ""
}

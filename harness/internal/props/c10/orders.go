package c10

// Labelling sweeps.
//
// Every function of the property visits the vertices in the order of their
// labels (the roots of the searches of Girth / Eccentricity, the start of the
// depth-first search of BiconnectedComponents, the spanning tree behind
// NumberOfCycles), and the neighbours of a vertex in ascending order.  An
// economy that carries knowledge from an earlier root to a later one (vertices
// "settled" by an earlier search, bounds found so far, the last two vertices
// never being roots) is right or wrong depending on WHICH vertices come early
// and which come late.  The other workloads of this property hand every graph
// to the library under two to four labellings; here a graph is handed over
// under tens to hundreds of labellings that are built from its structure
// (orders(): by distance from every vertex / cycle / the leaves / the cut
// vertices, near first and far first, one cycle first and another last,
// depth-first pre- and post-orders, seeded ones), and the graphs are the sparse
// ones where such economies bite: a few cycles of different lengths and
// parities, joined by paths or lying in different components, with pendant
// paths and trees.  Every single result is judged against the oracle values of
// the base graph carried through the relabelling.

import (
	"fmt"
	"runtime/debug"
	"sort"
	"sync"

	"github.com/Tom-Johnston/mamba/graph"

	"verif/internal/engine"
	"verif/internal/gen"
	"verif/internal/oracle/conn"
	"verif/internal/oracle/iso"
	"verif/internal/oracle/rg"
)

// ---------------------------------------------------------------------------
// vertex orders

// vorder is one labelling: perm[i] is the vertex of the base graph that gets
// the label i (the relabelled graph is g.Induced(perm)).
type vorder struct {
	perm []int
	kind string
}

// orderLevel selects how many labellings orders() produces.
type orderLevel int

const (
	ordersFew  orderLevel = iota // set anchors with two tie-breaks, every second vertex anchor and DFS root
	ordersMany                   // set anchors with all tie-breaks, every vertex as anchor and as DFS root
)

// orders lists labellings of g that are built from its structure.  r drives
// the seeded tie-breaks and the seeded labellings.  The list has no
// repetitions and always starts with the identity.
func orders(g *rg.G, w *want, r *engine.Rng, level orderLevel, seeded int) []vorder {
	n := g.N
	var out []vorder
	seen := map[string]bool{}
	add := func(kind string, p []int) {
		kb := make([]byte, len(p))
		for i, x := range p {
			kb[i] = byte(x) // n < 256 in every sweep
		}
		k := string(kb)
		if seen[k] {
			return
		}
		seen[k] = true
		out = append(out, vorder{p, kind})
	}
	id := make([]int, n)
	for i := range id {
		id[i] = i
	}
	add("identity", id)
	if n < 3 {
		return out
	}
	add("reverse", reverse(n))

	deg := g.Degrees()
	inf := n + 1
	neg := func(a []int) []int {
		b := make([]int, len(a))
		for i, x := range a {
			b[i] = -x
		}
		return b
	}
	distTo := func(S []int) []int {
		d := make([]int, n)
		for v := range d {
			d[v] = inf
			for _, s := range S {
				if x := w.dist[v][s]; x >= 0 && x < d[v] {
					d[v] = x
				}
			}
		}
		return d
	}
	// sortedBy orders the vertices by the given keys (lexicographic, ascending); the last tie-break is the base label
	sortedBy := func(first []int, keys ...[]int) []int {
		p := append([]int{}, first...)
		sort.SliceStable(p, func(a, b int) bool {
			x, y := p[a], p[b]
			for _, k := range keys {
				if k[x] != k[y] {
					return k[x] < k[y]
				}
			}
			return false
		})
		return p
	}
	type tie struct {
		name string
		key  func() []int
	}
	degDown := tie{"high degree first", func() []int { return neg(deg) }}
	degUp := tie{"low degree first", func() []int { return deg }}
	labUp := tie{"base label", func() []int { return id }}
	labDown := tie{"base label reversed", func() []int { return neg(id) }}
	rnd := tie{"seeded", func() []int { return r.Perm(n) }}

	// anchors: sets of vertices the distance from which orders the labels
	type anchor struct {
		name string
		set  []int
	}
	var cyc []anchor // blocks with a cycle
	var anchors []anchor
	var allCyc []int
	inCyc := make([]bool, n)
	for _, b := range w.blocks {
		if len(b) >= 3 {
			cyc = append(cyc, anchor{"a block with a cycle", b})
			for _, v := range b {
				if !inCyc[v] {
					inCyc[v] = true
					allCyc = append(allCyc, v)
				}
			}
		}
	}
	if len(cyc) > 6 {
		cyc = cyc[:6]
	}
	anchors = append(anchors, cyc...)
	if len(cyc) > 1 {
		anchors = append(anchors, anchor{"all cycle vertices", allCyc})
	}
	var leaves []int
	for v, d := range deg {
		if d == 1 {
			leaves = append(leaves, v)
		}
	}
	if len(leaves) > 0 {
		anchors = append(anchors, anchor{"the leaves", leaves})
	}
	if len(w.art) > 0 {
		anchors = append(anchors, anchor{"the cut vertices", w.art})
	}
	setTies := []tie{degDown, labUp, degUp, labDown, rnd}
	if level == ordersFew {
		setTies = []tie{degDown, rnd}
	}
	for _, a := range anchors {
		d := distTo(a.set)
		for _, tb := range setTies {
			k := tb.key()
			add("distance from "+a.name+", near first; ties: "+tb.name, sortedBy(id, d, k))
			add("distance from "+a.name+", far first; ties: "+tb.name, sortedBy(id, neg(d), k))
		}
	}
	// one cycle first, the rest by the distance from another one
	for i, a := range cyc {
		rest := []int{}
		in := map[int]bool{}
		for _, v := range a.set {
			in[v] = true
		}
		for v := 0; v < n; v++ {
			if !in[v] {
				rest = append(rest, v)
			}
		}
		for j, b := range cyc {
			if i == j {
				continue
			}
			d := distTo(b.set)
			add("one cycle first, then far from another cycle first; ties: high degree first", append(append([]int{}, a.set...), sortedBy(rest, neg(d), neg(deg))...))
			add("one cycle first, then near another cycle first; ties: high degree first", append(append([]int{}, a.set...), sortedBy(rest, d, neg(deg))...))
			if level == ordersMany {
				k := r.Perm(n)
				add("one cycle first, then far from another cycle first; ties: seeded", append(append([]int{}, a.set...), sortedBy(rest, neg(d), k)...))
			}
		}
	}
	// breadth-first layers around every vertex
	step := 1
	if level == ordersFew && n > 8 {
		step = 2
	}
	for v := 0; v < n; v += step {
		d := distTo([]int{v})
		add("distance from one vertex, near first; ties: high degree first", sortedBy(id, d, neg(deg)))
		add("distance from one vertex, far first; ties: high degree first", sortedBy(id, neg(d), neg(deg)))
		if level == ordersMany {
			k := r.Perm(n)
			add("distance from one vertex, near first; ties: seeded", sortedBy(id, d, k))
			add("distance from one vertex, far first; ties: seeded", sortedBy(id, neg(d), k))
		}
	}
	// depth-first pre- and post-order from every vertex (neighbours ascending; the other components follow from their least vertex)
	adj := make([][]int, n)
	for v := range adj {
		adj[v] = g.Nbrs(v)
	}
	for s := (step - 1); s < n; s += step {
		var pre, post []int
		vis := make([]bool, n)
		var dfs func(v int)
		dfs = func(v int) {
			vis[v] = true
			pre = append(pre, v)
			for _, u := range adj[v] {
				if !vis[u] {
					dfs(u)
				}
			}
			post = append(post, v)
		}
		dfs(s)
		for v := 0; v < n; v++ {
			if !vis[v] {
				dfs(v)
			}
		}
		add("depth-first preorder", pre)
		add("depth-first postorder", post)
	}
	for k := 0; k < seeded; k++ {
		add("seeded", r.Perm(n))
	}
	return out
}

// ---------------------------------------------------------------------------
// one labelled graph of a sweep

// What is asked about one labelled graph.  Girth is asked about every one of
// them; the other functions take turns (a function costs 10..100 microseconds
// on these graphs, the induced counters several hundred).
const (
	askEcc      = 1 << iota // Eccentricity
	askBlocks               // BiconnectedComponents, ConnectedComponents
	askDiamRad              // Diameter, Radius
	askCycles               // NumberOfCycles
	askInduced              // NumberOfInducedCycles(-1), NumberOfInducedPaths(4)
	askDistance             // Distance for all pairs, ConnectedComponent of every vertex
)

// runSweep asks the label-order dependent functions about one labelled graph
// in one guarded group of calls and judges every result.
func (t *gcase) runSweep(ask int) {
	c, w, lg, n := t.c, t.w, t.lg, t.h.N
	c.Obs("rep:"+t.rep, 1)
	ck := t.rep + "|" + t.wit + "|sweep"
	var (
		stage               string
		girth, diam, rad    int
		ecc, cycles         []int
		indc, indp          []int
		blocks, comps, ccs  [][]int
		art                 []int
		di, dj, dgot        int
		distBad             bool
		pathBound           = 4
		eg, editable        = lg.(graph.EditableGraph)
		withCycles, withInd bool
		withDist            = ask&askDistance != 0 && w.dist != nil
	)
	if ask&askCycles != 0 {
		withCycles = editable && w.cycles != nil && w.maxMu <= 8
	}
	if ask&askInduced != 0 {
		withInd = w.indCycles != nil && w.indPaths != nil && w.indSteps <= 20000
	}
	if pathBound > n-1 {
		pathBound = n - 1
	}
	pi := c.Call(ck, func() {
		stage = "Girth"
		girth = graph.Girth(lg)
		if ask&askEcc != 0 {
			stage = "Eccentricity"
			ecc = graph.Eccentricity(lg)
		}
		if ask&askBlocks != 0 {
			stage = "BiconnectedComponents"
			blocks, art = graph.BiconnectedComponents(lg)
			stage = "ConnectedComponents"
			comps = graph.ConnectedComponents(lg)
		}
		if ask&askDiamRad != 0 {
			stage = "Diameter"
			diam = graph.Diameter(lg)
			stage = "Radius"
			rad = graph.Radius(lg)
		}
		if withCycles {
			stage = "NumberOfCycles"
			cycles = graph.NumberOfCycles(eg)
		}
		if withInd {
			stage = "NumberOfInducedCycles"
			indc = graph.NumberOfInducedCycles(lg, -1)
			stage = "NumberOfInducedPaths"
			indp = graph.NumberOfInducedPaths(lg, pathBound)
		}
		if withDist {
			stage = "Distance"
			for di = 0; di < n && !distBad; di++ {
				for dj = 0; dj < n; dj++ {
					if dgot = graph.Distance(lg, di, dj); dgot != w.dist[di][dj] {
						distBad = true
						break
					}
				}
			}
			stage = "ConnectedComponent"
			ccs = make([][]int, n)
			for v := 0; v < n; v++ {
				ccs[v] = graph.ConnectedComponent(lg, v)
			}
		}
	})
	if pi != nil {
		// one verdict per case after a failure: the function that panicked
		c.Obs("calls:"+stage, 1)
		c.Eval(1)
		t.panicked(stage, pi, "a value")
		return
	}
	count := func(f string, k int) {
		c.Obs("calls:"+f, k)
		c.Obs("orders:calls:"+f, k)
		c.Eval(k)
	}
	count("Girth", 1)
	if girth != w.girth {
		t.wrong("Girth", "", fmt.Sprint(girth), fmt.Sprint(w.girth))
		return
	}
	if ask&askEcc != 0 {
		count("Eccentricity", 1)
		if !eqInts(ecc, w.ecc) {
			t.wrong("Eccentricity", "", fmt.Sprint(ecc), fmt.Sprint(w.ecc))
			return
		}
	}
	if ask&askBlocks != 0 {
		count("BiconnectedComponents", 1)
		count("ConnectedComponents", 1)
		t.judgeBlocks(blocks, art)
		t.judgeComponents(comps)
	}
	if ask&askDiamRad != 0 {
		count("Diameter", 1)
		count("Radius", 1)
		if diam != w.diam {
			t.wrong("Diameter", "", fmt.Sprint(diam), fmt.Sprint(w.diam))
			return
		}
		if rad != w.rad {
			t.wrong("Radius", "", fmt.Sprint(rad), fmt.Sprint(w.rad))
			return
		}
	}
	if withCycles {
		count("NumberOfCycles", 1)
		if len(cycles) < n+1 || !eqInts(cycles[:n+1], w.cycles) {
			t.wrong("NumberOfCycles", "", fmt.Sprint(cycles), fmt.Sprint(w.cycles)+" (index = length)")
			return
		}
	}
	if withInd {
		count("NumberOfInducedCycles", 1)
		count("NumberOfInducedPaths", 1)
		if len(indc) < n+1 || !eqInts(indc[:n+1], w.indCycles[:n+1]) {
			t.wrong("NumberOfInducedCycles", "maxLength=-1", fmt.Sprint(indc), fmt.Sprintf("%v in the entries 0..%d", w.indCycles[:n+1], n), "maxLength", -1)
			return
		}
		if pathBound >= 0 && (len(indp) < pathBound+1 || !eqInts(indp[:pathBound+1], w.indPaths[:pathBound+1])) {
			t.wrong("NumberOfInducedPaths", fmt.Sprintf("maxLength=%d", pathBound), fmt.Sprint(indp), fmt.Sprintf("%v in the entries 0..%d", w.indPaths[:pathBound+1], pathBound), "maxLength", pathBound)
			return
		}
		if len(indp) > pathBound+1 {
			c.Obs("entries_beyond_bound_not_judged", len(indp)-pathBound-1)
		}
	}
	if withDist {
		count("Distance", n*n)
		count("ConnectedComponent", n)
		if distBad {
			t.wrong("Distance", fmt.Sprintf("i=%d,j=%d", di, dj), fmt.Sprint(dgot), fmt.Sprint(w.dist[di][dj]), "i", di, "j", dj)
			return
		}
		for v := 0; v < n; v++ {
			s := append([]int{}, ccs[v]...)
			sort.Ints(s)
			if !eqInts(s, w.comps[w.compOf[v]]) {
				t.wrong("ConnectedComponent", fmt.Sprintf("v=%d", v), fmt.Sprint(ccs[v]), fmt.Sprint(w.comps[w.compOf[v]]), "v", v)
				return
			}
		}
	}
}

// sweepOpts says how a base graph is swept.
type sweepOpts struct {
	workload string
	info     map[string]interface{}
	level    orderLevel
	seeded   int  // seeded labellings on top of the structured ones
	light    bool // polynomial functions only (graphs with many cycles)
	all      bool // all n! labellings instead of the structured ones
}

// representation of the k-th labelling of a sweep (the two views cost a check of their adjacency each)
var sweepReps = []string{"sparse", "dense", "sparse", "dense", "sparse", "view", "sparse", "dense", "sparse", "dense", "sparse", "compl", "sparse", "dense", "sparse", "dense"}

// sweep hands g to the library under many labellings.  w may be nil (the
// oracle is run here).  salt varies which labelling gets which
// representation / which functions from graph to graph.
func sweep(c *engine.Ctx, g *rg.G, w *want, r *engine.Rng, salt int, o *sweepOpts) {
	if w == nil {
		if o.light {
			w = polynomialPart(g, false)
		} else {
			w = oracle(g)
		}
	}
	classifyForOrders(c, g, w)
	var ords []vorder
	if o.all {
		ords = allOrders(g.N)
	} else {
		ords = orders(g, w, r, o.level, o.seeded)
	}
	c.Obs("orders:graphs", 1)
	c.ObsMax("orders:labellings_of_one_graph", len(ords))
	if len(ords) >= 50 {
		c.Obs("orders:graphs_with_50+_labellings", 1)
	}
	for k, od := range ords {
		if c.Stopped() {
			return
		}
		// the turn of this labelling: which functions besides Girth, which representation
		turn := k + salt
		ask := 0
		switch turn % 4 {
		case 0:
			ask = askEcc
		case 1:
			ask = askBlocks
		case 2:
			ask = askDiamRad
		default:
			ask = askCycles
			if o.light {
				ask = askBlocks
			}
		}
		if !o.light && turn%32 == 9 {
			ask |= askInduced
		}
		if turn%32 == 22 {
			ask |= askDistance
		}
		rep := sweepReps[(turn/4+turn)%len(sweepReps)]
		h, wh := g, w
		info := map[string]interface{}{}
		for a, b := range o.info {
			info[a] = b
		}
		if k > 0 {
			h = g.Induced(od.perm)
			wh = w.relabelWith(od.perm, ask&askDistance != 0)
			c.Obs("relabelled_cases", 1)
		}
		if g.N <= 62 {
			info["base_g6"] = g.G6()
		}
		info["relabelling"] = od.perm
		info["relabelling_kind"] = od.kind
		g6 := h.G6()
		key := rep + "|" + g6
		var hd *held
		switch rep {
		case "dense":
			hd = &held{g: h.Dense()}
		case "sparse":
			hd = &held{g: h.Sparse()}
		default:
			var pi *engine.PanicInfo
			hd, pi = hold(c, key, h, rep, k, r)
			if pi != nil {
				c.Obs("skipped:representation_constructor_panicked:"+rep, 1)
				continue
			}
			if msg := presents(c, key+"|presents", hd.g, h); msg != "" {
				c.Obs("skipped:representation_does_not_present_the_graph:"+rep, 1)
				continue
			}
		}
		t := &gcase{c: c, workload: o.workload, h: h, g6: g6, w: wh, rep: rep, lg: hd.g, extra: hd.extra, info: info, cycleCap: 8, expCap: true, wit: "g6=" + g6}
		t.runSweep(ask)
		c.Obs("orders:labellings", 1)
		c.Obs("orders:kind:"+kindClass(od.kind), 1)
		if h.N >= 4 && h.M() >= 2 {
			c.NT(g6, rep)
		}
	}
}

// kindClass is the part of a labelling kind before the tie-break (the observation counters are kept per class).
func kindClass(kind string) string {
	for i := 0; i < len(kind); i++ {
		if kind[i] == ';' {
			return kind[:i]
		}
	}
	return kind
}

// allOrders lists all n! labellings (n <= 7), the identity first.
func allOrders(n int) []vorder {
	var out []vorder
	p := make([]int, n)
	for i := range p {
		p[i] = i
	}
	var rec func(k int)
	rec = func(k int) {
		if k == n {
			out = append(out, vorder{append([]int{}, p...), "one of all n! labellings"})
			return
		}
		for i := k; i < n; i++ {
			p[k], p[i] = p[i], p[k]
			rec(k + 1)
			p[k], p[i] = p[i], p[k]
		}
	}
	rec(0)
	return out
}

// classifyForOrders records which shapes the sweeps have seen.
func classifyForOrders(c *engine.Ctx, g *rg.G, w *want) {
	mu := conn.Cyclomatic(g)
	switch {
	case mu == 0:
		c.Obs("orders:graphs:acyclic", 1)
	case mu <= 4:
		c.Obs(fmt.Sprintf("orders:graphs:cyclomatic_number=%d", mu), 1)
	default:
		c.Obs("orders:graphs:cyclomatic_number>=5", 1)
	}
	if !w.connected {
		c.Obs("orders:graphs:disconnected", 1)
	}
	if w.cycles != nil {
		odd, even, longerOdd, longerEven := false, false, false, false
		for l, x := range w.cycles {
			if x == 0 {
				continue
			}
			if l%2 == 1 {
				odd = true
				if l > w.girth {
					longerOdd = true
				}
			} else {
				even = true
				if l > w.girth {
					longerEven = true
				}
			}
		}
		if odd && even {
			c.Obs("orders:graphs:cycles_of_both_parities", 1)
		}
		if w.girth > 0 && w.girth%2 == 0 && longerOdd {
			c.Obs("orders:graphs:even_girth_and_a_longer_odd_cycle", 1)
		}
		if w.girth > 0 && w.girth%2 == 1 && longerEven {
			c.Obs("orders:graphs:odd_girth_and_a_longer_even_cycle", 1)
		}
	}
	if w.girth >= 4 {
		c.Obs("orders:graphs:girth>=4", 1)
	}
	leaves := 0
	for _, d := range g.Degrees() {
		if d == 1 {
			leaves++
		}
	}
	if leaves >= 2 && mu >= 1 {
		c.Obs("orders:graphs:cycles_and_pendant_trees", 1)
	}
	c.Obs(fmt.Sprintf("orders:n=%d", g.N), 1)
}

// ---------------------------------------------------------------------------
// connected unicyclic graphs, every isomorphism class once

// unicyclicCount[n] is the number of connected unicyclic graphs on n vertices (OEIS A001429).
var unicyclicCount = []int{0, 0, 0, 1, 2, 5, 13, 33, 89, 240, 657}

var (
	uniMu   sync.Mutex
	uniMemo = map[int][]*rg.G{}
)

// unicyclic returns one representative of every connected graph with n
// vertices and n edges: for n <= 7 picked from the class list of the harness,
// beyond that by adding a pendant vertex to the graphs of order n-1 in every
// possible way (a connected unicyclic graph other than the cycle has a leaf),
// plus the cycle C_n, one per isomorphism class.  "" is returned with the
// list if the number of classes is the published one.
func unicyclic(n int) ([]*rg.G, string) {
	uniMu.Lock()
	defer uniMu.Unlock()
	return unicyclicLocked(n)
}

func unicyclicLocked(n int) ([]*rg.G, string) {
	if n < 3 || n >= len(unicyclicCount) {
		return nil, ""
	}
	if l, ok := uniMemo[n]; ok {
		return l, ""
	}
	var out []*rg.G
	if n <= 7 {
		for _, g := range gen.Classes(n) {
			if g.M() == n {
				if _, k := conn.Components(g, -1); k == 1 {
					out = append(out, g)
				}
			}
		}
	} else {
		prev, msg := unicyclicLocked(n - 1)
		if msg != "" {
			return nil, msg
		}
		buckets := map[uint64][]*rg.G{}
		try := func(h *rg.G) {
			inv := iso.Invariant(h)
			for _, x := range buckets[inv] {
				if iso.Isomorphic(x, h) {
					return
				}
			}
			buckets[inv] = append(buckets[inv], h)
			out = append(out, h)
		}
		for _, p := range prev {
			for v := 0; v < n-1; v++ {
				try(p.AddVertex([]int{v}))
			}
		}
		try(gen.Cycle(n))
	}
	if len(out) != unicyclicCount[n] {
		return nil, fmt.Sprintf("%d connected unicyclic graphs on %d vertices generated, %d expected", len(out), n, unicyclicCount[n])
	}
	uniMemo[n] = out
	return out, ""
}

// unicyclicUpTo concatenates the lists for 3..maxN (ascending order).
func unicyclicUpTo(maxN int) ([]*rg.G, string) {
	var all []*rg.G
	for n := 3; n <= maxN; n++ {
		l, msg := unicyclic(n)
		if msg != "" {
			return nil, msg
		}
		all = append(all, l...)
	}
	return all, ""
}

func unicyclicTotal(maxN int) int {
	t := 0
	for n := 3; n <= maxN; n++ {
		t += unicyclicCount[n]
	}
	return t
}

// joinByPath returns the disjoint union of a and b with a path of `length`
// edges (>= 1) between the vertex x of a and the vertex y of b (new inner
// vertices get the largest labels).
func joinByPath(a, b *rg.G, x, y, length int) *rg.G {
	u := rg.Union(a, b)
	y += a.N
	g := rg.New(u.N + length - 1)
	for _, e := range u.Edges() {
		g.Add(e[0], e[1])
	}
	prev := x
	for i := 0; i < length-1; i++ {
		g.Add(prev, u.N+i)
		prev = u.N + i
	}
	g.Add(prev, y)
	return g
}

// ---------------------------------------------------------------------------
// constructed graphs: a few cycles joined by paths, with pendant trees

type cycleNet struct {
	g      *rg.G
	girth  int // shortest cycle by construction
	mu     int // cyclomatic number by construction
	comps  int // components by construction
	pieces []string
}

// buildCycleNet glues k cycles with lengths in 3..maxLen (both parities when
// mixed) into a graph of about nTarget vertices: a new cycle lies in a new
// component, shares a vertex with the graph so far, hangs on a path of 1..3
// edges, or is closed by an ear over an existing cycle (two cycles sharing a
// path); what is left of the vertex budget becomes pendant paths and trees.
func buildCycleNet(r *engine.Rng, nTarget, k, maxLen int, mixed bool) *cycleNet {
	lens := make([]int, k)
	for try := 0; try < 20; try++ {
		sum := 0
		for i := range lens {
			lens[i] = 3 + r.Intn(maxLen-2)
			sum += lens[i]
		}
		if sum <= nTarget-1 {
			break
		}
		if try == 19 {
			for i := range lens {
				lens[i] = 3 + i%2
			}
		}
	}
	if mixed {
		odd, even := false, false
		for _, l := range lens {
			if l%2 == 1 {
				odd = true
			} else {
				even = true
			}
		}
		if !odd || !even {
			if lens[0] > 3 {
				lens[0]--
			} else {
				lens[0]++
			}
		}
	}
	type edge struct{ a, b int }
	var edges []edge
	nv := 0
	net := &cycleNet{girth: -1}
	note := func(l int) {
		if net.girth < 0 || l < net.girth {
			net.girth = l
		}
	}
	type cyc struct {
		verts []int
		pure  bool
	}
	var cycs []cyc
	var cycVerts []int
	newCycle := func(at int, l int) {
		// at >= 0: the cycle passes through the existing vertex at
		vs := make([]int, l)
		start := 0
		if at >= 0 {
			vs[0] = at
			start = 1
		}
		for i := start; i < l; i++ {
			vs[i] = nv
			nv++
		}
		for i := 0; i < l; i++ {
			edges = append(edges, edge{vs[i], vs[(i+1)%l]})
		}
		cycs = append(cycs, cyc{vs, true})
		cycVerts = append(cycVerts, vs[start:]...)
		note(l)
		net.mu++
	}
	for i, l := range lens {
		if i == 0 {
			newCycle(-1, l)
			net.comps = 1
			net.pieces = append(net.pieces, fmt.Sprintf("C%d", l))
			continue
		}
		x := r.Float()
		switch {
		case x < 0.2:
			newCycle(-1, l)
			net.comps++
			net.pieces = append(net.pieces, fmt.Sprintf("+C%d apart", l))
		case x < 0.35:
			newCycle(r.Intn(nv), l)
			net.pieces = append(net.pieces, fmt.Sprintf("+C%d at a vertex", l))
		case x < 0.8:
			at := r.Intn(nv)
			pl := 1 + r.Intn(3)
			for j := 0; j < pl; j++ {
				edges = append(edges, edge{at, nv})
				at = nv
				nv++
			}
			newCycle(at, l)
			net.pieces = append(net.pieces, fmt.Sprintf("+path%d+C%d", pl, l))
		default:
			// an ear over a cycle that has none yet: the new cycle of length l uses d edges of the old one
			var pure []int
			for ci, cy := range cycs {
				if cy.pure {
					pure = append(pure, ci)
				}
			}
			if len(pure) == 0 {
				newCycle(r.Intn(nv), l)
				net.pieces = append(net.pieces, fmt.Sprintf("+C%d at a vertex", l))
				break
			}
			ci := pure[r.Intn(len(pure))]
			old := cycs[ci].verts
			lc := len(old)
			d := 1 + r.Intn(lc/2)
			if d > l-2 {
				d = l - 2
			}
			if d < 1 {
				d = 1
			}
			el := l - d // edges of the ear, >= 2
			s := r.Intn(lc)
			at, to := old[s], old[(s+d)%lc]
			for j := 0; j < el-1; j++ {
				edges = append(edges, edge{at, nv})
				at = nv
				nv++
			}
			edges = append(edges, edge{at, to})
			cycs[ci].pure = false
			note(l)
			note(el + lc - d)
			net.mu++
			net.pieces = append(net.pieces, fmt.Sprintf("+ear%d over %d edges of C%d", el, d, lc))
		}
	}
	// pendant paths and trees
	for nv < nTarget {
		room := nTarget - nv
		var at int
		if r.Bool(0.6) {
			at = cycVerts[r.Intn(len(cycVerts))]
		} else {
			at = r.Intn(nv)
		}
		pl := 1 + r.Intn(3)
		if pl > room {
			pl = room
		}
		if r.Bool(0.08) {
			// a tree of its own
			at = nv
			nv++
			net.comps++
			pl--
		}
		for j := 0; j < pl; j++ {
			edges = append(edges, edge{at, nv})
			at = nv
			nv++
		}
	}
	if r.Bool(0.1) {
		// an isolated vertex with the largest label of the construction
		nv++
		net.comps++
	}
	net.g = rg.New(nv)
	for _, e := range edges {
		net.g.Add(e.a, e.b)
	}
	return net
}

// ---------------------------------------------------------------------------
// workload

// settle collects the garbage of the units that ran before in this process and
// hands the freed memory back.  In a sweep one guarded library call follows
// the other, and the engine's memory watchdog judges the resident size of the
// whole process during library calls: what earlier units left behind (on a
// busy machine the collector lags) must not be charged to these calls.
func settle() { debug.FreeOSMemory() }

func ordersWorkload(c *engine.Ctx) {
	thorough := c.Thorough()

	// (a) every connected graph with cyclomatic number 0..3 (trees, unicyclic, bicyclic, tricyclic graphs) on few vertices
	//     quick: n <= 7 under the structured labellings; thorough: n <= 7 under all n! labellings, n = 8 under the structured ones
	//     (every labelled graph on n <= 5 (6) vertices goes through the whole battery in section 2)
	for n := 4; n <= c.Pick(7, 8); n++ {
		n := n
		total := int(polyaCount[n])
		chunk := 400
		if n == 7 && thorough {
			chunk = 40
		}
		if n == 8 {
			chunk = 1600
		}
		for from := 0; from < total; from += chunk {
			from := from
			c.Unit(fmt.Sprintf("orders/few-cycles/n=%d/%d", n, from), func() {
				settle()
				cl := gen.Classes(n)
				if len(cl) != total {
					c.Inconclusive(fmt.Sprintf("class list of n=%d has %d entries, expected %d", n, len(cl), total))
					return
				}
				all := thorough && n <= 7
				cnt := 0
				for idx := from; idx < from+chunk && idx < total && !c.Stopped(); idx++ {
					g := cl[idx]
					mu := g.M() - n + 1
					if mu < 0 || mu > 3 {
						continue
					}
					if _, k := conn.Components(g, -1); k != 1 {
						continue
					}
					cnt++
					sr := c.Rand(fmt.Sprintf("orders/few-cycles/n=%d", n), idx)
					sweep(c, g, nil, sr, idx, &sweepOpts{workload: fmt.Sprintf("labelling sweep: connected graphs with at most 3 independent cycles, n=%d", n),
						info: map[string]interface{}{"class_index": idx}, level: ordersMany, seeded: 8, all: all})
				}
				c.Obs(fmt.Sprintf("orders:connected_graphs_with_0..3_independent_cycles_n=%d", n), cnt)
				if from == 0 {
					what := "structured and seeded labellings"
					if all {
						what = fmt.Sprintf("all %d! labellings", n)
					}
					c.Obs(fmt.Sprintf("exhaustive:all connected graphs with cyclomatic number 0..3 on n=%d vertices x %s", n, what), 1)
				}
			})
		}
	}

	// the unions of unicyclic graphs get the longer list of labellings in thorough
	pairLevel, pairSeeded := ordersFew, 3
	if thorough {
		pairLevel, pairSeeded = ordersMany, 6
	}

	// (b) two connected unicyclic graphs, every pair of isomorphism classes: apart, and joined by a path
	small, big := c.Pick(6, 8), 8
	S, B := unicyclicTotal(small), unicyclicTotal(big)
	pairs := 0
	for i := 0; i < S; i++ {
		pairs += B - i
	}
	per := 24
	for u := 0; u*per < pairs; u++ {
		u := u
		c.Unit(fmt.Sprintf("orders/unicyclic-pairs/%d", u), func() {
			settle()
			list, msg := unicyclicUpTo(big)
			if msg != "" {
				c.Inconclusive("generator of the unicyclic graphs: " + msg)
				return
			}
			if u == 0 {
				c.Obs("orders:unicyclic_lists_equal_the_published_counts", 1)
			}
			idx := 0
			for i := 0; i < S && !c.Stopped(); i++ {
				if idx+(B-i) <= u*per {
					idx += B - i
					continue
				}
				for j := i; j < B && !c.Stopped(); j++ {
					if idx >= u*per && idx < (u+1)*per {
						a, b := list[i], list[j]
						info := map[string]interface{}{"first": a.G6(), "second": b.G6(), "pair_index": idx}
						// the fixed part: the disjoint union, labellings with fixed tie-breaks
						g := rg.Union(a, b)
						w := oracle(g)
						wa, wb := conn.Girth(a), conn.Girth(b)
						if wb < wa {
							wa = wb
						}
						if w.girth != wa || len(w.comps) != 2 || w.cycles == nil {
							c.Inconclusive(fmt.Sprintf("union of %s and %s: girth %d from the oracle, %d from the parts", a.G6(), b.G6(), w.girth, wa))
							idx++
							continue
						}
						c.Obs("oracle_crosschecks", 1)
						sweep(c, g, w, fixedRng(8, idx), idx, &sweepOpts{workload: "labelling sweep: two unicyclic graphs side by side", info: info, level: pairLevel, seeded: 0})
						c.Obs("orders:unicyclic_pairs", 1)
						// the seeded part: the two joined by a path of 1..3 edges between seeded vertices, seeded tie-breaks and labellings
						// (quick: every second pair, the other half at the next seed)
						if !thorough && (idx+int(c.Seed()%2))%2 == 1 {
							idx++
							continue
						}
						sr := c.Rand("orders/unicyclic-pairs", idx)
						x, y, l := sr.Intn(a.N), sr.Intn(b.N), 1+sr.Intn(3)
						gj := joinByPath(a, b, x, y, l)
						wj := oracle(gj)
						if wj.girth != wa || !wj.connected {
							c.Inconclusive(fmt.Sprintf("%s and %s joined: girth %d from the oracle, %d from the parts", a.G6(), b.G6(), wj.girth, wa))
							idx++
							continue
						}
						c.Obs("oracle_crosschecks", 1)
						info2 := map[string]interface{}{"first": a.G6(), "second": b.G6(), "pair_index": idx, "joined_at": []int{x, y}, "path_edges": l}
						sweep(c, gj, wj, sr, idx+1, &sweepOpts{workload: "labelling sweep: two unicyclic graphs joined by a path", info: info2, level: pairLevel, seeded: pairSeeded})
						c.Obs("orders:unicyclic_pairs_joined_by_a_path", 1)
					}
					idx++
				}
				if idx >= (u+1)*per {
					break
				}
			}
			if u == 0 {
				c.Obs(fmt.Sprintf("exhaustive:all %d pairs of a connected unicyclic graph with <=%d and one with <=%d vertices, side by side (quick: every second pair also joined by a path, thorough: every pair), x structured labellings", pairs, small, big), 1)
				c.Sample("orders", map[string]interface{}{"unicyclic_graphs_up_to_8_vertices": len(list), "pairs": pairs})
			}
		})
	}

	// (c) three unicyclic graphs with at most 5 (6) vertices each: apart, and in a chain
	tmax := c.Pick(5, 6)
	T := unicyclicTotal(tmax)
	triples := T * (T + 1) * (T + 2) / 6
	per = 30
	for u := 0; u*per < triples; u++ {
		u := u
		c.Unit(fmt.Sprintf("orders/unicyclic-triples/%d", u), func() {
			settle()
			list, msg := unicyclicUpTo(tmax)
			if msg != "" {
				c.Inconclusive("generator of the unicyclic graphs: " + msg)
				return
			}
			idx := 0
			for i := 0; i < T; i++ {
				for j := i; j < T; j++ {
					for k := j; k < T && !c.Stopped(); k++ {
						if idx >= u*per && idx < (u+1)*per {
							a, b, d := list[i], list[j], list[k]
							info := map[string]interface{}{"parts": []string{a.G6(), b.G6(), d.G6()}, "triple_index": idx}
							g := rg.Union(rg.Union(a, b), d)
							sweep(c, g, nil, fixedRng(9, idx), idx, &sweepOpts{workload: "labelling sweep: three unicyclic graphs side by side", info: info, level: pairLevel, seeded: 0})
							sr := c.Rand("orders/unicyclic-triples", idx)
							ab := joinByPath(a, b, sr.Intn(a.N), sr.Intn(b.N), 1+sr.Intn(2))
							gj := joinByPath(ab, d, sr.Intn(ab.N), sr.Intn(d.N), 1+sr.Intn(2))
							sweep(c, gj, nil, sr, idx+1, &sweepOpts{workload: "labelling sweep: three unicyclic graphs joined by paths", info: info, level: pairLevel, seeded: pairSeeded})
							c.Obs("orders:unicyclic_triples", 1)
						}
						idx++
					}
				}
			}
			if u == 0 {
				c.Obs(fmt.Sprintf("exhaustive:all %d triples of connected unicyclic graphs with <=%d vertices, side by side and joined by paths, x structured labellings", triples, tmax), 1)
			}
		})
	}

	// (d) seeded constructions: 2..4 cycles of lengths 3..9 of both parities, joined by paths, pendant trees, 11..20 vertices
	//     (and a few with longer cycles on up to 40 vertices, polynomial functions only)
	nn := c.Pick(240, 2400)
	per = 8
	for u := 0; u*per < nn; u++ {
		u := u
		c.Unit(fmt.Sprintf("orders/cycle-nets/%d", u), func() {
			settle()
			for i := u * per; i < (u+1)*per && i < nn && !c.Stopped(); i++ {
				r := c.Rand("orders/cycle-nets", i)
				n := 11 + r.Intn(10)
				k := 2 + r.Intn(3)
				maxLen := 9
				long := i%8 == 7
				if long {
					n = 21 + r.Intn(20)
					maxLen = 13
				}
				net := buildCycleNet(r, n, k, maxLen, r.Bool(0.8))
				var w *want
				if long {
					w = polynomialPart(net.g, false)
				} else {
					w = oracle(net.g)
				}
				if w.girth != net.girth || conn.Cyclomatic(net.g) != net.mu || len(w.comps) != net.comps {
					c.Inconclusive(fmt.Sprintf("cycle net %v: construction says girth %d, %d independent cycles, %d components; the oracle says %d, %d, %d",
						net.pieces, net.girth, net.mu, net.comps, w.girth, conn.Cyclomatic(net.g), len(w.comps)))
					continue
				}
				c.Obs("oracle_crosschecks", 1)
				c.Obs("orders:cycle_nets_checked_against_their_construction", 1)
				level := ordersMany
				if long && !thorough {
					level = ordersFew
				}
				sweep(c, net.g, w, r, i, &sweepOpts{workload: "labelling sweep: cycles joined by paths with pendant trees",
					info: map[string]interface{}{"index": i, "pieces": net.pieces}, level: level, seeded: 8, light: long})
				if i < 2 {
					c.Sample("orders", map[string]interface{}{"g6": net.g.G6(), "pieces": net.pieces, "girth": net.girth})
				}
			}
		})
	}

	// (e) the named families under many labellings (polynomial functions only)
	fams := families()
	per = 6
	for u := 0; u*per < len(fams); u++ {
		u := u
		c.Unit(fmt.Sprintf("orders/families/%d", u), func() {
			settle()
			for j := u * per; j < (u+1)*per && j < len(fams) && !c.Stopped(); j++ {
				f := fams[j]
				if f.g.N < 5 || f.g.N > 30 {
					continue
				}
				level := ordersFew
				if thorough {
					level = ordersMany
				}
				sweep(c, f.g, nil, c.Rand("orders/families", j), j, &sweepOpts{workload: "labelling sweep: family " + f.name,
					info: map[string]interface{}{"family": f.name}, level: level, seeded: 4, light: true})
				c.Obs("orders:family_graphs", 1)
			}
		})
	}
}

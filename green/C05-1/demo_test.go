// Demonstration for C05, change 1 (edge indicator byte of DenseGraph becomes 0xFF instead of 1).
//
// Run (from the root of the library):
//
//	cp /tmp/green-out/C05/1/demo_test.go graph/c05_demo_test.go
//	GOFLAGS=-mod=mod GOPROXY=off GOSUMDB=off GOTOOLCHAIN=local \
//	  go test -vet=off -count=1 -timeout 120s -run 'TestC05' -v ./graph/
//	rm graph/c05_demo_test.go
//
// TestC05Property checks the property itself (observers against an adjacency-set model, both representations,
// independence of Copy/InducedSubgraph results) on random edit histories: it passes before and after the change.
// TestC05IncidentalEdgeByte asserts the OLD incidental behaviour (every byte of the exported field Edges is 0 or 1):
// it passes on the clean tree and fails with the change.
package graph_test

import (
	"fmt"
	"math/rand"
	"sort"
	"testing"

	"github.com/Tom-Johnston/mamba/graph"
)

// model is a plain adjacency-set model of a loop-free undirected graph.
type model struct {
	adj []map[int]bool
}

func (m *model) n() int { return len(m.adj) }
func (m *model) addVertex(nb []int) {
	v := len(m.adj)
	m.adj = append(m.adj, map[int]bool{})
	for _, u := range nb {
		m.adj[u][v] = true
		m.adj[v][u] = true
	}
}
func (m *model) removeVertex(v int) {
	n := len(m.adj)
	re := func(u int) int {
		if u > v {
			return u - 1
		}
		return u
	}
	out := make([]map[int]bool, 0, n-1)
	for i := 0; i < n; i++ {
		if i == v {
			continue
		}
		a := map[int]bool{}
		for k := range m.adj[i] {
			if k != v {
				a[re(k)] = true
			}
		}
		out = append(out, a)
	}
	m.adj = out
}
func (m *model) addEdge(i, j int) {
	if i != j {
		m.adj[i][j] = true
		m.adj[j][i] = true
	}
}
func (m *model) removeEdge(i, j int) {
	delete(m.adj[i], j)
	delete(m.adj[j], i)
}
func (m *model) induced(V []int) *model {
	c := &model{adj: make([]map[int]bool, len(V))}
	for i := range V {
		c.adj[i] = map[int]bool{}
	}
	for i := range V {
		for j := range V {
			if i != j && m.adj[V[i]][V[j]] {
				c.adj[i][j] = true
			}
		}
	}
	return c
}

// agree compares every observer named in the property with the model.
func agree(g graph.Graph, m *model) error {
	n := m.n()
	if g.N() != n {
		return fmt.Errorf("N = %v, want %v", g.N(), n)
	}
	edges := 0
	deg := g.Degrees()
	if len(deg) != n {
		return fmt.Errorf("len(Degrees) = %v, want %v", len(deg), n)
	}
	for v := 0; v < n; v++ {
		want := make([]int, 0, len(m.adj[v]))
		for u := range m.adj[v] {
			want = append(want, u)
		}
		sort.Ints(want)
		edges += len(want)
		got := g.Neighbours(v)
		if len(got) != len(want) {
			return fmt.Errorf("Neighbours(%v) = %v, want %v", v, got, want)
		}
		for k := range want {
			if got[k] != want[k] {
				return fmt.Errorf("Neighbours(%v) = %v, want %v", v, got, want)
			}
		}
		if deg[v] != len(want) {
			return fmt.Errorf("Degrees()[%v] = %v, want %v", v, deg[v], len(want))
		}
		for u := 0; u < n; u++ {
			if g.IsEdge(u, v) != m.adj[u][v] {
				return fmt.Errorf("IsEdge(%v, %v) = %v, want %v", u, v, g.IsEdge(u, v), m.adj[u][v])
			}
		}
	}
	if g.M() != edges/2 {
		return fmt.Errorf("M = %v, want %v", g.M(), edges/2)
	}
	return nil
}

// history applies a random edit history to a dense graph, a sparse graph and the model, calling visit after each step.
func history(t *testing.T, rng *rand.Rand, steps int, visit func(d *graph.DenseGraph, s *graph.SparseGraph)) {
	var d graph.EditableGraph = graph.NewDense(0, nil)
	var s graph.EditableGraph = graph.NewSparse(0, nil)
	m := &model{}
	check := func(what string) {
		if err := agree(d, m); err != nil {
			t.Fatalf("dense after %v: %v", what, err)
		}
		if err := agree(s, m); err != nil {
			t.Fatalf("sparse after %v: %v", what, err)
		}
		visit(d.(*graph.DenseGraph), s.(*graph.SparseGraph))
	}
	for step := 0; step < steps; step++ {
		n := m.n()
		op := rng.Intn(8)
		if n < 2 {
			op = 0
		}
		switch op {
		case 0, 1: // AddVertex, neighbours distinct and in arbitrary order
			if n >= 12 {
				continue
			}
			nb := rng.Perm(n)[:rng.Intn(n+1)]
			arg1, arg2 := append([]int{}, nb...), append([]int{}, nb...)
			d.AddVertex(arg1)
			s.AddVertex(arg2)
			m.addVertex(nb)
			check(fmt.Sprintf("AddVertex(%v)", nb))
		case 2: // RemoveVertex, any vertex
			v := rng.Intn(n)
			d.RemoveVertex(v)
			s.RemoveVertex(v)
			m.removeVertex(v)
			check(fmt.Sprintf("RemoveVertex(%v)", v))
		case 3, 4: // AddEdge, possibly already present or i == j
			i, j := rng.Intn(n), rng.Intn(n)
			d.AddEdge(i, j)
			s.AddEdge(i, j)
			m.addEdge(i, j)
			check(fmt.Sprintf("AddEdge(%v, %v)", i, j))
		case 5: // RemoveEdge, possibly absent
			i, j := rng.Intn(n), rng.Intn(n)
			d.RemoveEdge(i, j)
			s.RemoveEdge(i, j)
			m.removeEdge(i, j)
			check(fmt.Sprintf("RemoveEdge(%v, %v)", i, j))
		case 6: // Copy: continue with the copy, scribble on the source, the copy must not notice (and the reverse)
			d2, s2 := d.Copy(), s.Copy()
			scribble(d, n)
			scribble(s, n)
			d, s = d2, s2
			check("Copy (source edited afterwards)")
			d3, s3 := d.Copy(), s.Copy()
			scribble(d3, n)
			scribble(s3, n)
			check("Copy (copy edited afterwards)")
		case 7: // InducedSubgraph on distinct vertices in arbitrary order
			V := rng.Perm(n)[:1+rng.Intn(n)]
			arg1, arg2 := append([]int{}, V...), append([]int{}, V...)
			d2, s2 := d.InducedSubgraph(arg1), s.InducedSubgraph(arg2)
			if err := agree(d, m); err != nil {
				t.Fatalf("dense source after InducedSubgraph(%v): %v", V, err)
			}
			if err := agree(s, m); err != nil {
				t.Fatalf("sparse source after InducedSubgraph(%v): %v", V, err)
			}
			scribble(d, n)
			scribble(s, n)
			d, s, m = d2, s2, m.induced(V)
			check(fmt.Sprintf("InducedSubgraph(%v) (source edited afterwards)", V))
			scribble(d.Copy(), m.n())
			check("InducedSubgraph (copy of result edited afterwards)")
		}
	}
}

// scribble edits g heavily; used on graphs which must be independent of the ones under test.
func scribble(g graph.EditableGraph, n int) {
	for i := 0; i < n; i++ {
		for j := 0; j < i; j++ {
			if g.IsEdge(i, j) {
				g.RemoveEdge(i, j)
			} else {
				g.AddEdge(i, j)
			}
		}
	}
	all := make([]int, g.N())
	for i := range all {
		all[i] = i
	}
	g.AddVertex(all)
	g.RemoveVertex(0)
}

func TestC05Property(t *testing.T) {
	for seed := int64(0); seed < 200; seed++ {
		history(t, rand.New(rand.NewSource(seed)), 120, func(d *graph.DenseGraph, s *graph.SparseGraph) {})
	}
}

func TestC05IncidentalEdgeByte(t *testing.T) {
	for seed := int64(0); seed < 200; seed++ {
		history(t, rand.New(rand.NewSource(seed)), 120, func(d *graph.DenseGraph, s *graph.SparseGraph) {
			for k, b := range d.Edges {
				if b != 0 && b != 1 {
					t.Fatalf("seed %v: DenseGraph.Edges[%v] = %#x; the clean tree only ever writes 0 or 1", seed, k, b)
				}
			}
		})
	}
}

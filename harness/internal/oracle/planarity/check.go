// Package planarity holds the certificate checkers of property C11 for graphs
// of any size (slice based, no machine-word limit), builders of graphs that
// are planar by construction and carry their rotation system, and an
// independent reference planarity test (DMP on blocks) whose every verdict
// comes with a certificate for the checkers.  It shares no code with the
// library under test.
//
// Trust base: CheckRotation (a rotation system whose traced faces give
// V - E + F = 2 on every connected component is an embedding in the sphere)
// and CheckKuratowski (a subgraph that is a subdivision of K5 or K3,3 makes
// the graph non-planar), plus Euler's bound m <= 3n - 6 for planar graphs on
// n >= 3 vertices.  Everything else in this package only proposes
// certificates.
package planarity

import (
	"fmt"

	"verif/internal/oracle/rg"
)

// CheckRotation verifies that rot is a rotation system of g (rot[v] lists
// every neighbour of v exactly once; its order is the cyclic order around v)
// and that the embedding it defines has Euler genus 0 on every connected
// component.  nil means: g is planar, certified.
func CheckRotation(g *rg.G, rot [][]int) error {
	n := g.N
	if len(rot) != n {
		return fmt.Errorf("rotation system has %d vertices, graph has %d", len(rot), n)
	}
	off := make([]int, n+1)
	for v := 0; v < n; v++ {
		off[v+1] = off[v] + len(rot[v])
	}
	nd := off[n]
	if nd != 2*g.M() {
		return fmt.Errorf("rotation system has %d darts, graph has %d edges", nd, g.M())
	}
	// index of u in rot[v]
	pos := make([]map[int]int, n)
	for v := 0; v < n; v++ {
		pos[v] = make(map[int]int, len(rot[v]))
		for i, u := range rot[v] {
			if u < 0 || u >= n || u == v || !g.Has(v, u) {
				return fmt.Errorf("rot[%d] contains %d which is not a neighbour", v, u)
			}
			if _, dup := pos[v][u]; dup {
				return fmt.Errorf("rot[%d] contains %d twice", v, u)
			}
			pos[v][u] = i
		}
		if len(rot[v]) != g.Deg(v) {
			return fmt.Errorf("rot[%d] has %d entries, degree is %d", v, len(rot[v]), g.Deg(v))
		}
	}
	// connected components
	comp := make([]int, n)
	for i := range comp {
		comp[i] = -1
	}
	nc := 0
	var stack []int
	for s := 0; s < n; s++ {
		if comp[s] >= 0 {
			continue
		}
		comp[s] = nc
		stack = append(stack[:0], s)
		for len(stack) > 0 {
			v := stack[len(stack)-1]
			stack = stack[:len(stack)-1]
			for _, u := range rot[v] {
				if comp[u] < 0 {
					comp[u] = nc
					stack = append(stack, u)
				}
			}
		}
		nc++
	}
	V := make([]int, nc)
	D := make([]int, nc) // darts
	F := make([]int, nc)
	for v := 0; v < n; v++ {
		V[comp[v]]++
		D[comp[v]] += len(rot[v])
	}
	// trace faces: the dart v->rot[v][i] is followed by w->succ_w(v) where w = rot[v][i]
	seen := make([]bool, nd)
	for v := 0; v < n; v++ {
		for i := range rot[v] {
			if seen[off[v]+i] {
				continue
			}
			F[comp[v]]++
			a, ai := v, i
			steps := 0
			for !seen[off[a]+ai] {
				seen[off[a]+ai] = true
				b := rot[a][ai]
				j, ok := pos[b][a]
				if !ok {
					return fmt.Errorf("rot[%d] lacks %d", b, a)
				}
				a, ai = b, (j+1)%len(rot[b])
				steps++
				if steps > nd {
					return fmt.Errorf("face tracing did not close")
				}
			}
			if a != v || ai != i {
				return fmt.Errorf("face tracing closed on a different dart")
			}
		}
	}
	for c := 0; c < nc; c++ {
		e := D[c] / 2
		f := F[c]
		if e == 0 {
			f = 1
		}
		if V[c]-e+f != 2 {
			return fmt.Errorf("component %d: V - E + F = %d - %d + %d = %d, not 2 (Euler genus %d)", c, V[c], e, f, V[c]-e+f, 2-(V[c]-e+f))
		}
	}
	return nil
}

// CheckKuratowski verifies that edges is a set of distinct edges of g that
// forms a subdivision of K5 or of K3,3.  It returns which ("K5" or "K3,3");
// a nil error means: g is non-planar, certified.
func CheckKuratowski(g *rg.G, edges [][2]int) (string, error) {
	n := g.N
	adj := make(map[int][]int)
	seenE := make(map[[2]int]bool, len(edges))
	for _, e := range edges {
		u, v := e[0], e[1]
		if u < 0 || v < 0 || u >= n || v >= n || u == v || !g.Has(u, v) {
			return "", fmt.Errorf("%v is not an edge of the graph", e)
		}
		if u > v {
			u, v = v, u
		}
		if seenE[[2]int{u, v}] {
			return "", fmt.Errorf("edge %v listed twice", e)
		}
		seenE[[2]int{u, v}] = true
		adj[u] = append(adj[u], v)
		adj[v] = append(adj[v], u)
	}
	var branch []int
	for v := 0; v < n; v++ { // ascending: deterministic
		switch d := len(adj[v]); {
		case d == 0 || d == 2:
		case d == 3 || d == 4:
			branch = append(branch, v)
		default:
			return "", fmt.Errorf("vertex %d has degree %d in the subgraph", v, d)
		}
	}
	nb := len(branch)
	if nb != 5 && nb != 6 {
		return "", fmt.Errorf("%d branch vertices", nb)
	}
	wantDeg := 4
	if nb == 6 {
		wantDeg = 3
	}
	idx := make(map[int]int, nb)
	for i, b := range branch {
		if len(adj[b]) != wantDeg {
			return "", fmt.Errorf("branch vertex %d has degree %d, want %d", b, len(adj[b]), wantDeg)
		}
		idx[b] = i
	}
	conn := make([][]int, nb)
	for i := range conn {
		conn[i] = make([]int, nb)
	}
	used := make(map[int]bool)
	for bi, b := range branch {
		for _, first := range adj[b] {
			prev, cur := b, first
			steps := 0
			for {
				if _, ok := idx[cur]; ok {
					break
				}
				if len(adj[cur]) != 2 {
					return "", fmt.Errorf("path vertex %d has degree %d", cur, len(adj[cur]))
				}
				used[cur] = true
				nx := adj[cur][0]
				if nx == prev {
					nx = adj[cur][1]
				}
				prev, cur = cur, nx
				steps++
				if steps > len(edges) {
					return "", fmt.Errorf("path from %d does not end", b)
				}
			}
			if cur == b {
				return "", fmt.Errorf("a path returns to its branch vertex %d", b)
			}
			conn[bi][idx[cur]]++
		}
	}
	for v, a := range adj {
		if len(a) == 2 && !used[v] {
			return "", fmt.Errorf("vertex %d lies on a cycle that is not part of the subdivision", v)
		}
	}
	if nb == 5 {
		for i := 0; i < 5; i++ {
			for j := 0; j < 5; j++ {
				if i != j && conn[i][j] != 1 {
					return "", fmt.Errorf("branch vertices %d and %d joined by %d paths", branch[i], branch[j], conn[i][j])
				}
			}
		}
		return "K5", nil
	}
	side := make([]int, 6)
	cnt := 0
	for j := 1; j < 6; j++ {
		switch conn[0][j] {
		case 1:
			side[j] = 1
			cnt++
		case 0:
		default:
			return "", fmt.Errorf("branch vertices %d and %d joined by %d paths", branch[0], branch[j], conn[0][j])
		}
	}
	if cnt != 3 {
		return "", fmt.Errorf("not bipartite 3+3")
	}
	for i := 0; i < 6; i++ {
		for j := 0; j < 6; j++ {
			if i == j {
				continue
			}
			want := 0
			if side[i] != side[j] {
				want = 1
			}
			if conn[i][j] != want {
				return "", fmt.Errorf("branch vertices %d and %d joined by %d paths, want %d", branch[i], branch[j], conn[i][j], want)
			}
		}
	}
	return "K3,3", nil
}

// Cert is a planarity certificate.
type Cert struct {
	Planar bool
	Rot    [][]int  // Planar: rotation system
	Kur    [][2]int // !Planar: edges of a K5 / K3,3 subdivision (nil if Dense)
	Dense  bool     // !Planar because n >= 3 and m > 3n - 6
}

// Verify checks the certificate against g.  It returns a short description of
// the certificate kind ("rotation", "K5", "K3,3", "edge-bound").
func (c *Cert) Verify(g *rg.G) (string, error) {
	if c == nil {
		return "", fmt.Errorf("no certificate")
	}
	if c.Planar {
		if err := CheckRotation(g, c.Rot); err != nil {
			return "", err
		}
		return "rotation", nil
	}
	if c.Dense {
		if g.N >= 3 && g.M() > 3*g.N-6 {
			return "edge-bound", nil
		}
		return "", fmt.Errorf("m = %d does not exceed 3n - 6 = %d", g.M(), 3*g.N-6)
	}
	return CheckKuratowski(g, c.Kur)
}

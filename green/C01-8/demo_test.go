// Demonstration for C01, change 8 (CanonicalIsomorphAllocated answers COMPLETE graphs in its special-case block, next
// to the graphs without edges, instead of sending them through the search).
//
// Run (from the root of the library, public API only):
//
//	export GOFLAGS=-mod=mod GOPROXY=off GOSUMDB=off GOTOOLCHAIN=local
//	cp demo_test.go graph/zz_demo_test.go
//	go test -vet=off -count=1 -timeout 600s -run 'TestDemo' -v ./graph/
//	rm graph/zz_demo_test.go
//
// TestDemoProperty checks the property itself: CanonicalIsomorph returns a permutation and the canonical graph is the
// same for EVERY relabelling of every graph with at most 5 vertices (this includes K1..K5 and the graphs one edge away
// from them), for all 40320 relabellings of G|WW}K and GhcqSK, for every relabelling of K6, K7 and K7 minus an edge, and
// for random relabellings of larger graphs (K30, K30 minus an edge, K30 minus a perfect matching, Petersen, Q4, ...),
// dense and sparse, through pointers and struct values; the number of distinct canonical graphs on 5 vertices is 34.
// It passes before and after the change.
// TestDemoIncidental asserts what the CLEAN tree happens to return for the complete graphs K2..K9: the REVERSING
// permutation [n-1 ... 1 0] and, from CanonicalIsomorphFull, the n-1 generators the search comes across.  With the
// change the answer is the identity permutation and two generators (an n-cycle and a transposition); both are
// canonical labellings of Kn (every permutation is) and both generator sets generate the full symmetric group (checked
// on both trees by computing the orbits the generators span and by checking that each generator is an automorphism).
// It also prints the time for K150, which drops from a few hundred milliseconds to microseconds.
// It passes on the clean tree and fails with the change.
package graph_test

import (
	"fmt"
	"math/rand"
	"testing"
	"time"

	"github.com/Tom-Johnston/mamba/graph"
	"github.com/Tom-Johnston/mamba/sortints"
)

func demoIsPerm(p []int, n int) bool {
	if len(p) != n {
		return false
	}
	seen := make([]bool, n)
	for _, v := range p {
		if v < 0 || v >= n || seen[v] {
			return false
		}
		seen[v] = true
	}
	return true
}

func demoToSparse(g graph.Graph) *graph.SparseGraph {
	n := g.N()
	nb := make([]sortints.SortedInts, n)
	for i := 0; i < n; i++ {
		nb[i] = sortints.NewSortedInts(g.Neighbours(i)...)
	}
	return graph.NewSparse(n, nb)
}

//demoCanon returns the canonical graph of g (as a graph6 string, which determines the labelled graph) after checking that the result is a permutation.
func demoCanon(t *testing.T, g graph.Graph, relabel func([]int) graph.EditableGraph) string {
	t.Helper()
	p := graph.CanonicalIsomorph(g)
	if !demoIsPerm(p, g.N()) {
		t.Fatalf("not a permutation: %v for %v", p, graph.Graph6Encode(g))
	}
	return graph.Graph6Encode(relabel(p))
}

//demoAllForms returns the canonical graph of g in the four forms (dense pointer, dense value, sparse pointer, sparse value) and fails if they differ.
func demoAllForms(t *testing.T, d *graph.DenseGraph) string {
	t.Helper()
	s := demoToSparse(d)
	c := demoCanon(t, d, d.InducedSubgraph)
	if c2 := demoCanon(t, *d, d.InducedSubgraph); c2 != c {
		t.Fatalf("dense value %v != %v", c2, c)
	}
	if c2 := demoCanon(t, s, s.InducedSubgraph); c2 != c {
		t.Fatalf("sparse %v != %v", c2, c)
	}
	if c2 := demoCanon(t, *s, s.InducedSubgraph); c2 != c {
		t.Fatalf("sparse value %v != %v", c2, c)
	}
	return c
}

func demoPerms(n int, f func([]int)) {
	p := make([]int, n)
	for i := range p {
		p[i] = i
	}
	var rec func(k int)
	rec = func(k int) {
		if k == n {
			f(p)
			return
		}
		for i := k; i < n; i++ {
			p[k], p[i] = p[i], p[k]
			rec(k + 1)
			p[k], p[i] = p[i], p[k]
		}
	}
	rec(0)
}

func demoMinus(g *graph.DenseGraph, edges ...[2]int) *graph.DenseGraph {
	h := g.Copy().(*graph.DenseGraph)
	for _, e := range edges {
		h.RemoveEdge(e[0], e[1])
	}
	return h
}

func TestDemoProperty(t *testing.T) {
	//Every graph with at most 5 vertices, every relabelling, all four forms.
	for n := 0; n <= 5; n++ {
		classes := map[string]bool{}
		ne := n * (n - 1) / 2
		for mask := 0; mask < 1<<uint(ne); mask++ {
			e := make([]byte, ne)
			for i := range e {
				e[i] = byte(mask >> uint(i) & 1)
			}
			g := graph.NewDense(n, e)
			c := demoAllForms(t, g)
			classes[c] = true
			demoPerms(n, func(pi []int) {
				h := g.InducedSubgraph(pi).(*graph.DenseGraph)
				if c2 := demoAllForms(t, h); c2 != c {
					t.Fatalf("n=%v mask=%v pi=%v: %v != %v", n, mask, pi, c2, c)
				}
			})
		}
		want := []int{1, 1, 2, 4, 11, 34}[n]
		if len(classes) != want {
			t.Fatalf("n=%v: %v canonical graphs, want %v", n, len(classes), want)
		}
	}
	//Every relabelling of some graphs with 6 to 8 vertices.
	var all []*graph.DenseGraph
	for _, s := range []string{"G|WW}K", "GhcqSK"} {
		g, err := graph.Graph6Decode(s)
		if err != nil {
			t.Fatal(err)
		}
		all = append(all, g)
	}
	all = append(all, graph.CompleteGraph(6), graph.CompleteGraph(7), demoMinus(graph.CompleteGraph(7), [2]int{2, 5}), demoMinus(graph.CompleteGraph(6), [2]int{0, 1}, [2]int{2, 3}))
	for _, g := range all {
		c := demoAllForms(t, g)
		s := demoToSparse(g)
		demoPerms(g.N(), func(pi []int) {
			if c2 := demoCanon(t, g.InducedSubgraph(pi), g.InducedSubgraph(pi).InducedSubgraph); c2 != c {
				t.Fatalf("%v pi=%v: %v != %v", graph.Graph6Encode(g), pi, c2, c)
			}
			if g.N() < 8 {
				if c2 := demoCanon(t, s.InducedSubgraph(pi), s.InducedSubgraph(pi).InducedSubgraph); c2 != c {
					t.Fatalf("sparse %v pi=%v: %v != %v", graph.Graph6Encode(g), pi, c2, c)
				}
			}
		})
	}
	//Random relabellings of larger graphs.
	k30 := graph.CompleteGraph(30)
	var matching [][2]int
	for i := 0; i < 30; i += 2 {
		matching = append(matching, [2]int{i, i + 1})
	}
	large := []*graph.DenseGraph{k30, demoMinus(k30, [2]int{3, 17}), demoMinus(k30, matching...), demoMinus(k30, [2]int{0, 1}, [2]int{1, 2}), graph.KneserGraph(5, 2), graph.HypercubeGraph(4), graph.CompletePartiteGraph(4, 4, 4), graph.RookGraph(4, 4), graph.RandomGraph(25, 0.9, 7), graph.CompleteGraph(1), graph.CompleteGraph(2)}
	r := rand.New(rand.NewSource(8))
	seen := map[string]string{}
	for _, g := range large {
		c := demoAllForms(t, g)
		if other, ok := seen[c]; ok {
			t.Fatalf("%v and %v share a canonical graph", other, graph.Graph6Encode(g))
		}
		seen[c] = graph.Graph6Encode(g)
		for rep := 0; rep < 25; rep++ {
			pi := r.Perm(g.N())
			if c2 := demoAllForms(t, g.InducedSubgraph(pi).(*graph.DenseGraph)); c2 != c {
				t.Fatalf("%v pi=%v: %v != %v", graph.Graph6Encode(g), pi, c2, c)
			}
		}
	}
}

func TestDemoIncidental(t *testing.T) {
	for n := 2; n <= 9; n++ {
		for form := 0; form < 2; form++ {
			var g graph.Graph = graph.CompleteGraph(n)
			if form == 1 {
				g = demoToSparse(g)
			}
			p, orbits, gens := graph.CanonicalIsomorphFull(g, nil)
			fmt.Printf("K%v form %v: perm %v, %v generators %v\n", n, form, p, len(gens), gens)
			//Valid on both trees: a permutation, one orbit, generators which are automorphisms and span one orbit.
			if !demoIsPerm(p, n) {
				t.Fatalf("K%v: not a permutation: %v", n, p)
			}
			for i := 1; i < n; i++ {
				if orbits.Find(i) != orbits.Find(0) {
					t.Fatalf("K%v: vertex orbits %v", n, orbits)
				}
			}
			comp := make([]int, n)
			for i := range comp {
				comp[i] = i
			}
			for changed := true; changed; {
				changed = false
				for _, a := range gens {
					if !demoIsPerm(a, n) || !graph.Equal(g, graph.CompleteGraph(n).InducedSubgraph(a)) {
						t.Fatalf("K%v: generator %v is not an automorphism", n, a)
					}
					for i := range a {
						if comp[a[i]] != comp[i] {
							lo, hi := comp[a[i]], comp[i]
							if lo > hi {
								lo, hi = hi, lo
							}
							for j := range comp {
								if comp[j] == hi {
									comp[j] = lo
								}
							}
							changed = true
						}
					}
				}
			}
			for i := range comp {
				if comp[i] != 0 {
					t.Fatalf("K%v: the generators %v do not act transitively", n, gens)
				}
			}
			//The incidental part: what the clean tree happens to return.
			for i := range p {
				if p[i] != n-1-i {
					t.Errorf("K%v form %v: permutation %v, the clean tree returns the reversing permutation", n, form, p)
					break
				}
			}
			if len(gens) != n-1 {
				t.Errorf("K%v form %v: %v generators, the clean tree returns %v", n, form, len(gens), n-1)
			}
		}
	}
	g := graph.CompleteGraph(150)
	start := time.Now()
	p := graph.CanonicalIsomorph(g)
	fmt.Printf("K150: %v (perm starts %v)\n", time.Since(start), p[:5])
}

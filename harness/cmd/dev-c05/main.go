package main

import (
	"verif/internal/cli"
	_ "verif/internal/props/c05"
)

func main() { cli.Main() }

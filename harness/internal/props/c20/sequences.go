package c20

// SEQUENCES of tsp.LIB calls in one process (and on one writer): a call that
// failed (write failure of any mode, or a weights function that panicked and
// was recovered by the harness) must leave nothing behind that changes a later
// call.  Every call is judged on its own bytes: a healthy call returns nil and
// its bytes are a faithful TSPLIB document; a call with a failed write returns
// a non-nil error; a panic of the weights function propagates or is reported
// as an error, it never becomes a nil error.  Judged online (the verdict of a
// call depends on the process state built by the calls before it).

import (
	"bytes"
	"fmt"
	"strings"

	"github.com/Tom-Johnston/mamba/tsp"

	"verif/internal/engine"
)

type seqStep struct {
	n       int
	fam     string
	rs      uint64
	mode    string // fault of this call (modeNone: healthy writer)
	pos     int
	panicAt int // the weights function panics at its panicAt-th call (1-based; 0 = never)
}

func (st seqStep) what() string {
	switch {
	case st.panicAt > 0:
		return "weights-panic"
	case st.mode != modeNone:
		return st.mode
	}
	return "healthy"
}

func (st seqStep) String() string {
	s := fmt.Sprintf("LIB(n=%d, weights=%s)", st.n, st.fam)
	switch {
	case st.panicAt > 0:
		s += fmt.Sprintf(" weights panics at its call %d", st.panicAt)
	case st.mode != modeNone:
		s += fmt.Sprintf(" write %d fails: %s", st.pos, st.mode)
	}
	return s
}

func weightsPanic(call int) string {
	return fmt.Sprintf("c20: weights function panics at its call %d", call)
}

// rearm prepares a recWriter for the next call on the same writer: positions
// are counted from the start of the call, the bytes accumulate.
func (w *recWriter) rearm(pos int, mode string) {
	w.sizes = w.sizes[:0]
	w.pos, w.mode = pos, mode
	w.fired, w.writesAfter, w.failedCalls = false, 0, 0
}

type seqDetail struct {
	Steps  []string `json:"calls"`
	Writer string   `json:"writer"`
	Call   int      `json:"judged_call"`
	Bytes  string   `json:"bytes_of_that_call,omitempty"`
	RS     []uint64 `json:"rand_words,omitempty"`
}

// runSeq executes the steps; share = "fresh" (a new writer per call) or "same"
// (all calls on one writer).  Returns false after a violation.
func runSeq(c *engine.Ctx, steps []seqStep, share string) bool {
	c.Obs("seq:sequences:"+share, 1)
	var shared *recWriter
	if share == "same" {
		shared = &recWriter{pos: -1}
	}
	prev := "start"
	for k, st := range steps {
		w := shared
		if w == nil {
			w = &recWriter{}
		}
		w.rearm(st.pos, st.mode)
		if st.mode == modeNone {
			w.pos = -1
		}
		start := len(w.data)
		ncalls, bad := 0, 0
		wf := func(i, j int) int {
			ncalls++
			if st.panicAt > 0 && ncalls == st.panicAt {
				panic(weightsPanic(ncalls))
			}
			if !(0 <= j && j < i && i < st.n) {
				bad++
			}
			return int(weightValue(st.fam, st.n, st.rs, i, j))
		}
		var err error
		pi := c.Call(fmt.Sprintf("LIB|sequence call %d: %s (after %s, %s writer)", k, st, prev, share), func() { err = tsp.LIB(w, st.n, wf) })
		own := w.data[start:]
		c.Eval(1)
		c.Obs("seq:calls:"+st.what()+":after-"+prev, 1)
		det := func() seqDetail {
			d := seqDetail{Writer: share, Call: k, Bytes: clip(string(own), 2500)}
			for _, s := range steps {
				d.Steps = append(d.Steps, s.String())
				d.RS = append(d.RS, s.rs)
			}
			return d
		}
		switch {
		case st.panicAt > 0:
			// (d) a weights function that panics
			switch {
			case pi != nil && strings.Contains(pi.Value, weightsPanic(st.panicAt)):
				c.Obs("weights-panic:propagated_to_the_caller", 1)
			case pi != nil:
				c.Obs("weights-panic:another_panic_reached_the_caller", 1)
			case err != nil:
				c.Obs("weights-panic:reported_as_error", 1)
			default:
				c.Violation("LIB|weights-panic-swallowed|after-"+prev, det(), fmt.Sprintf("LIB returned nil although weights panicked at its call %d (%d bytes written)", st.panicAt, len(own)), "the panic propagates or a non-nil error is returned")
				return false
			}
		case st.mode != modeNone:
			if pi != nil && brokenCount(st.mode) {
				c.Obs("seq:"+st.mode+":LIB_panicked(count outside 0..len(p), not judged)", 1)
				break
			}
			if pi != nil {
				c.Violation("LIB|sequence|panic-on-write-failure|"+engine.SiteNoLine(pi.Site)+"|"+st.mode+"|after-"+prev, det(), pi.String(), "a non-nil error")
				return false
			}
			if w.fired && judgedMode(st.mode) && err == nil {
				c.Violation("LIB|sequence|write-failure-not-reported|"+st.mode+"|after-"+prev, det(), "LIB returned nil although write "+fmt.Sprint(st.pos)+" of this call failed", "a non-nil error")
				return false
			}
			if !w.fired {
				c.Obs("seq:fault_not_reached", 1)
			}
		default:
			// healthy call: judged on its own bytes
			key := "LIB|sequence|healthy-call-after-" + prev + "|"
			if pi != nil {
				c.Violation(key+"panic|"+engine.SiteNoLine(pi.Site), det(), pi.String(), "LIB returns nil")
				return false
			}
			if err != nil {
				c.Violation(key+"error-without-write-failure", det(), "error "+err.Error(), "nil: no write of this call failed")
				return false
			}
			if bad > 0 {
				c.Violation(key+"weights-called-out-of-range", det(), fmt.Sprintf("%d calls outside 0 <= j < i < n", bad), "only 0 <= j < i < n")
				return false
			}
			d, pe := parseTSPLIB(own)
			if pe == nil {
				pe = checkDoc(d, st.n, func(i, j int) int64 { return weightValue(st.fam, st.n, st.rs, i, j) })
			}
			if pe != nil {
				c.Violation(key+"output|"+pe.Kind, det(), pe.Msg, "the bytes written by this call are the TSPLIB document of (n, weights)")
				return false
			}
			c.Obs("seq:healthy_calls_checked", 1)
			if prev != "start" && prev != "healthy" {
				c.NTDistinct(1) // a healthy call that follows a failed one
			}
		}
		prev = st.what()
	}
	return true
}

// seqModes: the fault of the failed call of a sequence.  Every mode for the
// smallest instances, the judged count modes for the others.
func seqModes(n1 int) []string {
	if n1 <= 2 {
		return allInProcessModes()
	}
	return joinModes(faultModes, fullCountModes, countModes)
}

var seqFamilies = []string{"neg", "large", randFamily}

func seqUnits(c *engine.Ctx) {
	for _, fam := range seqFamilies {
		fam := fam
		c.Unit("seq/"+fam, func() {
			rsOf := func(n int) uint64 {
				if fam == randFamily {
					return c.Rand("seq-rand", n).U64()
				}
				return 0
			}
			mk := func(n int) seqStep { return seqStep{n: n, fam: fam, rs: rsOf(n), pos: -1} }
			// the number of writes of the healthy runs (a sequence in itself)
			W := map[int]int{}
			for n := 0; n <= 6; n++ {
				w := &recWriter{pos: -1}
				st := mk(n)
				c.Call("LIB|count "+st.String(), func() { tsp.LIB(w, n, func(i, j int) int { return int(weightValue(fam, n, st.rs, i, j)) }) })
				W[n] = len(w.sizes)
			}
			n1s := []int{1, 2, 3, 5}
			if c.Thorough() {
				n1s = []int{1, 2, 3, 4, 5, 6}
			}
			// failed call -> healthy call; healthy -> failed -> healthy
			for _, n1 := range n1s {
				for _, mode := range seqModes(n1) {
					perm := specs[mode].perm
					for p := 0; p < W[n1]; p++ {
						if c.Stopped() {
							return
						}
						f := mk(n1)
						f.mode, f.pos = mode, p
						n2 := (n1 + p) % 5
						if !runSeq(c, []seqStep{f, mk(n2)}, "fresh") {
							return
						}
						if p%3 == 0 && !perm {
							if !runSeq(c, []seqStep{f, mk(n2)}, "same") {
								return
							}
						}
						if p%4 == 1 {
							if !runSeq(c, []seqStep{mk(n2), f, mk(n1)}, "fresh") {
								return
							}
						}
					}
				}
			}
			// panicking weights -> healthy call
			for _, n1 := range []int{2, 3, 5, 6} {
				pairs := n1 * (n1 - 1) / 2
				for _, k := range []int{1, (pairs + 1) / 2, pairs} {
					f := mk(n1)
					f.panicAt = k
					for _, share := range []string{"fresh", "same"} {
						if !runSeq(c, []seqStep{f, mk((n1 + k) % 5)}, share) || !runSeq(c, []seqStep{mk(2), f, mk(n1), f, mk(0)}, share) {
							return
						}
					}
				}
			}
			// healthy calls with different n on one writer: exact concatenation
			for n1 := 0; n1 <= 6; n1++ {
				for n2 := 0; n2 <= 6; n2++ {
					if !runSeq(c, []seqStep{mk(n1), mk(n2), mk(n1)}, "same") {
						return
					}
					var buf bytes.Buffer
					var want []byte
					ok := true
					for _, n := range []int{n1, n2} {
						one := &recWriter{pos: -1}
						rs := rsOf(n)
						// the same closure value serves both writers
						wf := func(i, j int) int { return int(weightValue(fam, n, rs, i, j)) }
						var e1, e2 error
						p1 := c.Call(fmt.Sprintf("LIB|concat n=%d,%s|own writer", n, fam), func() { e1 = tsp.LIB(one, n, wf) })
						p2 := c.Call(fmt.Sprintf("LIB|concat n=%d,%s|shared bytes.Buffer", n, fam), func() { e2 = tsp.LIB(&buf, n, wf) })
						ok = ok && p1 == nil && p2 == nil && e1 == nil && e2 == nil
						want = append(want, one.data...)
					}
					c.Eval(1)
					c.Obs("seq:concatenations_on_one_bytes.Buffer", 1)
					if !ok || !bytes.Equal(buf.Bytes(), want) {
						c.Violation("LIB|sequence|two-calls-on-one-buffer|not-the-concatenation", seqDetail{Steps: []string{mk(n1).String(), mk(n2).String()}, Writer: "one bytes.Buffer", Bytes: clip(buf.String(), 2500)},
							fmt.Sprintf("%d bytes in the buffer", buf.Len()), fmt.Sprintf("the %d bytes of the two documents one after the other", len(want)))
						return
					}
				}
			}
		})
	}
}

// Demonstration for change 1 (single-pass merges: result capacity is an upper bound, not the exact size).
//
// Run from the repository root:
//
//	cp demo_test.go sortints/demo_test.go
//	GOFLAGS=-mod=mod GOPROXY=off GOSUMDB=off GOTOOLCHAIN=local go test -vet=off -count=1 -timeout 120s -run 'TestDemo' -v ./sortints/
//
// TestDemoProperty checks the property itself (correct strictly increasing results, arguments untouched) and passes
// both on the clean tree and with the change.
// TestDemoIncidentalExactCapacity asserts the OLD incidental behaviour (Union, Intersection and SetMinus return a
// slice with cap == len): it passes on the clean tree and FAILS with the change.
package sortints_test

import (
	"math/rand"
	"sort"
	"testing"

	"github.com/Tom-Johnston/mamba/sortints"
)

func randomSet(rng *rand.Rand, maxLen, spread int) sortints.SortedInts {
	n := rng.Intn(maxLen + 1)
	m := map[int]bool{}
	for i := 0; i < n; i++ {
		m[rng.Intn(2*spread+1)-spread] = true
	}
	return fromMap(m)
}

func fromMap(m map[int]bool) sortints.SortedInts {
	r := make([]int, 0, len(m))
	for k := range m {
		r = append(r, k)
	}
	sort.Ints(r)
	return r
}

func toMap(a []int) map[int]bool {
	m := map[int]bool{}
	for _, v := range a {
		m[v] = true
	}
	return m
}

func sameElements(a, b []int) bool {
	if len(a) != len(b) {
		return false
	}
	for i := range a {
		if a[i] != b[i] {
			return false
		}
	}
	return true
}

func TestDemoProperty(t *testing.T) {
	rng := rand.New(rand.NewSource(17))
	for iter := 0; iter < 20000; iter++ {
		a := randomSet(rng, 12, 10)
		b := randomSet(rng, 12, 10)
		//Give the arguments spare capacity filled with sentinels so that writes behind len are seen as well.
		fa := append(make([]int, 0, len(a)+3), a...)
		fb := append(make([]int, 0, len(b)+3), b...)
		for i := len(fa); i < cap(fa); i++ {
			fa[:cap(fa)][i] = 7777
		}
		for i := len(fb); i < cap(fb); i++ {
			fb[:cap(fb)][i] = 8888
		}
		snapA := append([]int(nil), fa[:cap(fa)]...)
		snapB := append([]int(nil), fb[:cap(fb)]...)
		A, B := sortints.SortedInts(fa), sortints.SortedInts(fb)

		ma, mb := toMap(a), toMap(b)
		union, inter, minus, xor := map[int]bool{}, map[int]bool{}, map[int]bool{}, map[int]bool{}
		for k := range ma {
			union[k] = true
			if mb[k] {
				inter[k] = true
			} else {
				minus[k] = true
				xor[k] = true
			}
		}
		for k := range mb {
			union[k] = true
			if !ma[k] {
				xor[k] = true
			}
		}

		if got, want := sortints.Union(A, B), fromMap(union); !sameElements(got, want) {
			t.Fatalf("Union(%v, %v) = %v, want %v", a, b, got, want)
		}
		if got, want := sortints.Intersection(A, B), fromMap(inter); !sameElements(got, want) {
			t.Fatalf("Intersection(%v, %v) = %v, want %v", a, b, got, want)
		}
		if got, want := sortints.SetMinus(A, B), fromMap(minus); !sameElements(got, want) {
			t.Fatalf("SetMinus(%v, %v) = %v, want %v", a, b, got, want)
		}
		if got, want := sortints.XOR(A, B), fromMap(xor); !sameElements(got, want) {
			t.Fatalf("XOR(%v, %v) = %v, want %v", a, b, got, want)
		}
		if got, want := sortints.IntersectionSize(A, B), len(inter); got != want {
			t.Fatalf("IntersectionSize(%v, %v) = %v, want %v", a, b, got, want)
		}
		if !sameElements(fa[:cap(fa)], snapA) || !sameElements(fb[:cap(fb)], snapB) || len(A) != len(a) || len(B) != len(b) {
			t.Fatalf("arguments were modified: %v %v", a, b)
		}

		//The results must be usable as values of their own: mutating them must not reach the arguments.
		u := sortints.Union(A, B)
		u.Add(1000, -1000)
		u.Remove(1000)
		if !sameElements(fa[:cap(fa)], snapA) || !sameElements(fb[:cap(fb)], snapB) {
			t.Fatalf("mutating a result modified the arguments: %v %v", a, b)
		}
	}
}

func TestDemoIncidentalExactCapacity(t *testing.T) {
	a := sortints.SortedInts{-3, 0, 1, 2, 5, 8}
	b := sortints.SortedInts{-3, 1, 4, 5, 9}
	u := sortints.Union(a, b)
	i := sortints.Intersection(a, b)
	m := sortints.SetMinus(a, b)
	t.Logf("Union: len %d cap %d; Intersection: len %d cap %d; SetMinus: len %d cap %d", len(u), cap(u), len(i), cap(i), len(m), cap(m))
	if cap(u) != len(u) {
		t.Errorf("Union: cap %d != len %d", cap(u), len(u))
	}
	if cap(i) != len(i) {
		t.Errorf("Intersection: cap %d != len %d", cap(i), len(i))
	}
	if cap(m) != len(m) {
		t.Errorf("SetMinus: cap %d != len %d", cap(m), len(m))
	}
}

#!/bin/bash
# usage: tools/apply_fix.sh <patch.diff>...  -- applies each patch to /repo as its own "fix:" commit (message = leading "# " lines)
set -e
for p in "$@"; do
  msg=$(grep '^#' "$p" | sed 's/^# \{0,1\}//' )
  first=$(echo "$msg" | head -1)
  rest=$(echo "$msg" | tail -n +2 | sed '/./,$!d')
  msg="$first

$rest"
  case "$first" in fix:*) ;; *) echo "patch $p has no fix: message"; exit 1;; esac
  git -C /repo apply --whitespace=nowarn "$p"
  (cd /repo && go build ./... )
  git -C /repo commit -qam "$msg"
  echo "applied $(git -C /repo rev-parse --short HEAD) $first"
done

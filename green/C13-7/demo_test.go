// Demonstration for C13 change 7 (NewAnagramSearcher counts the letters in one pass: one merged entry per
// distinct letter in increasing order, no sort, and the path buffer is only allocated by the first Step).
//
// Run from the repository root (public API only):
//
//	cp /tmp/green-out/C13/7/demo_test.go dawg/zz_c13_demo7_test.go
//	GOFLAGS=-mod=mod GOPROXY=off GOSUMDB=off GOTOOLCHAIN=local go test -vet=off -count=1 -timeout 120s -run 'TestC13Demo7' -v ./dawg
//	rm dawg/zz_c13_demo7_test.go
//
// TestC13Demo7Property checks the property itself (exact words, ranks, order, repeatability, searcher answers
// like a fresh one afterwards, Dawg encoding unchanged) against a brute-force model and passes on both trees.
// TestC13Demo7Incidental asserts the OLD internal representation of an AnagramSearcher as seen through fmt and
// reflect (one entry per occurrence of a repeated letter, entries in the order the old sort left them, an
// allocated empty path from the start so that a struct snapshot taken before a search is DeepEqual to the
// searcher after it): it PASSES on the clean tree and FAILS with the change.
package dawg_test

import (
	"bytes"
	"fmt"
	"math/rand"
	"reflect"
	"sort"
	"testing"

	"github.com/Tom-Johnston/mamba/dawg"
)

func c13d7Dawg(t *testing.T, ws []string) (*dawg.Dawg, []string) {
	set := map[string]bool{}
	for _, w := range ws {
		set[w] = true
	}
	sorted := make([]string, 0, len(set))
	for w := range set {
		sorted = append(sorted, w)
	}
	sort.Strings(sorted)
	bs := make([][]byte, len(sorted))
	for i := range sorted {
		bs[i] = []byte(sorted[i])
	}
	d, err := dawg.New(bs)
	if err != nil {
		t.Fatal(err)
	}
	return d, sorted
}

// c13d7Matches is the brute-force model of an anagram query.
func c13d7Matches(word, anagram string, blank byte) bool {
	if len(word) != len(anagram) {
		return false
	}
	var have [256]int
	blanks := 0
	for i := 0; i < len(anagram); i++ {
		if anagram[i] == blank {
			blanks++
		} else {
			have[anagram[i]]++
		}
	}
	for i := 0; i < len(word); i++ {
		if have[word[i]] > 0 {
			have[word[i]]--
		} else {
			blanks--
		}
	}
	return blanks >= 0
}

func c13d7Check(t *testing.T, d *dawg.Dawg, sorted []string, anagram string, blank byte, s *dawg.AnagramSearcher) {
	var wantW []string
	var wantI []int
	for i, w := range sorted {
		if c13d7Matches(w, anagram, blank) {
			wantW = append(wantW, w)
			wantI = append(wantI, i)
		}
	}
	for rep := 0; rep < 2; rep++ {
		solns, ids := d.Search(s)
		if len(solns) != len(wantW) || len(ids) != len(wantI) {
			t.Fatalf("words %q anagram %q rep %d: got %q %v, want %q %v", sorted, anagram, rep, solns, ids, wantW, wantI)
		}
		for i := range solns {
			if string(solns[i]) != wantW[i] || ids[i] != wantI[i] {
				t.Fatalf("words %q anagram %q rep %d: got %q %v, want %q %v", sorted, anagram, rep, solns, ids, wantW, wantI)
			}
		}
	}
	// Back in the initial state: it answers every question like a fresh searcher.
	fresh := dawg.NewAnagramSearcher([]byte(anagram), blank)
	if s.AllowWord() != fresh.AllowWord() {
		t.Fatalf("anagram %q: AllowWord differs from a fresh searcher after the search", anagram)
	}
	for b := 0; b < 256; b++ {
		if s.AllowStep(byte(b)) != fresh.AllowStep(byte(b)) {
			t.Fatalf("anagram %q: AllowStep(%d) differs from a fresh searcher after the search", anagram, b)
		}
	}
}

func TestC13Demo7Property(t *testing.T) {
	rng := rand.New(rand.NewSource(7))
	alphabet := "ab?z"
	for iter := 0; iter < 1500; iter++ {
		nw := rng.Intn(12)
		ws := make([]string, nw)
		for i := range ws {
			l := rng.Intn(5)
			w := make([]byte, l)
			for j := range w {
				w[j] = alphabet[rng.Intn(len(alphabet))]
			}
			ws[i] = string(w)
		}
		d, sorted := c13d7Dawg(t, ws)
		before, err := d.GobEncode()
		if err != nil {
			t.Fatal(err)
		}
		for q := 0; q < 6; q++ {
			l := rng.Intn(6)
			a := make([]byte, l)
			for j := range a {
				a[j] = "ab?zq"[rng.Intn(5)]
			}
			buf := append([]byte("xx"), a...) // the argument lives inside a larger caller-owned buffer
			buf = append(buf, 'y', 'y')
			arg := buf[2 : 2+l]
			s := dawg.NewAnagramSearcher(arg, '?')
			if !bytes.Equal(buf[2:2+l], a) || buf[0] != 'x' || buf[len(buf)-1] != 'y' {
				t.Fatalf("NewAnagramSearcher wrote to its argument")
			}
			for j := range arg { // the caller reuses its buffer; the searcher must not care
				arg[j] = 'z'
			}
			c13d7Check(t, d, sorted, string(a), '?', s)
		}
		after, err := d.GobEncode()
		if err != nil {
			t.Fatal(err)
		}
		if !bytes.Equal(before, after) {
			t.Fatalf("searching changed the Dawg")
		}
	}
}

func TestC13Demo7Incidental(t *testing.T) {
	// OLD: a repeated letter gets one entry per occurrence and the path is an allocated empty slice.
	got := fmt.Sprintf("%v", *dawg.NewAnagramSearcher([]byte("aab"), '?'))
	old := "{[{97 1} {97 1} {98 1}] 0 63 3 []}"
	if got != old {
		t.Errorf("representation of the searcher for \"aab\": got %s, the old one was %s", got, old)
	}
	got = fmt.Sprintf("%v", *dawg.NewAnagramSearcher([]byte("stop"), '?'))
	old = "{[{115 1} {111 1} {116 1} {112 1}] 0 63 4 []}"
	if got != old {
		t.Errorf("representation of the searcher for \"stop\": got %s, the old one was %s", got, old)
	}

	// OLD: a struct snapshot taken before a search is DeepEqual to the searcher after the search
	// (anagram without repeated letters).
	d, _ := c13d7Dawg(t, []string{"opts", "post", "pots", "spot", "stop", "tops", "pot"})
	s := dawg.NewAnagramSearcher([]byte("stop"), '?')
	snapshot := *s
	solns, _ := d.Search(s)
	if len(solns) != 6 {
		t.Fatalf("got %q", solns)
	}
	if !reflect.DeepEqual(snapshot, *s) {
		t.Errorf("snapshot before the search %#v is not DeepEqual to the searcher after it %#v", snapshot, *s)
	}
}

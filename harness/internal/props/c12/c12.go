// Package c12 monitors the DAWG builder (DESIGN.md section 4, C12): a built
// Dawg must be an exact, minimal, rank-indexed index of its word set, and
// rejected additions must not change what is built.
package c12

import (
	"bufio"
	"bytes"
	"fmt"
	"os"
	"path/filepath"
	"strconv"

	"github.com/Tom-Johnston/mamba/dawg"

	"verif/internal/engine"
	"verif/internal/oracle/refdawg"
	"verif/internal/props/c12/dawgx"
)

func init() {
	engine.Register(&engine.Property{
		ID:    "C12",
		Level: "exploration",
		Rule: "word sets: ALL 2^15 subsets of the words of length <= 3 over {a,b} and ALL 2^13 subsets of the words of length <= 2 over {a,b,c} (exhaustive; thorough adds all 2^21 subsets of the words of length <= 2 over {a,b,c,d}), fixed families (empty set, {\"\"}, chains, full fans of 1..256 single-byte words, prefix x suffix products, the repo's test lists), seeded sets over alphabets of 1..256 bytes with words of 0..12 bytes and up to 5000 words in 7 sharing shapes, the repo dictionary (thorough); " +
			"Add histories: ALL sequences of length <= 4 over {nil, \"\", a, aa, ab, b} x 3 caller behaviours (fresh slices / one reused buffer / buffer overwritten after Add) x 2 builder initialisations, and seeded histories with out-of-order and duplicate words interleaved. " +
			"Builder life cycles (ONE Builder value used for several Dawgs in a row; after every build the Dawg it finished AND every earlier Dawg of the same Builder are compared with their own word sets in full again, and once more after a final Initialise): ALL ordered pairs of the 128 subsets of the words of length <= 2 over {a,b} (Finish, Initialise, build again), all ordered pairs of the 64 subsets of {\"\",a,aa,ab,b,ba} x 7 further ways from one build to the next (Initialise twice, a partial build abandoned with Initialise, a build abandoned right after a rejected Add, Finish without any word, the Builder value copied by assignment before / after Initialise with only the copy used afterwards, rejected Adds in the second build), chains of up to 19 contrasting fixed sets (0..512 words, fan-out 0..256), seeded scripts of 2..5 builds over related sets with junk Adds, abandoned builds, repeated Initialise and moved Builder values (thorough: all ordered triples of the 32 subsets of {a,aa,ab,b,ba}, one Builder through four thinned dictionaries); the Builder starts as new(Builder), as a copy by assignment of a zero value, initialised, or as a copy of an initialised value. Add / Finish after Finish without Initialise is forbidden by the documentation and never done. " +
			"Construction routes (the SAME list given to dawg.New and, word by word, to a Builder; ARBITRARY lists with repeats and disorder, the model accepts a list iff every word is strictly greater than its predecessor, a nil and an empty slice being the same word; New has to return an error for every other list, the Builder has to reject exactly the additions the model rejects, the automata the two routes build for an accepted list are compared node by node, New must not rewrite the caller's list, and right after a rejected New the distinct words of the list, sorted, are built by New and checked in full): ALL lists of length <= 5 over {nil, \"\", a, aa, ab, b, ba, bb} (thorough: 6), the list handed to New in 4 ways (fresh slices / sub-slices of one backing buffer / a list with spare capacity holding further entries / slices overwritten after New returned; the nil list and the empty list); every subset of the 7 words of length <= 2 over {a,b} and every subset of <= 3 (thorough <= 6) of the 15 words of length <= 3 over {a,b}, sorted, with one change (any word of the universe or nil inserted at any place, two neighbours swapped); seeded lists of up to 2000 words and the fixed families with one of 12 planted changes (a word twice in a row, a word repeated later, neighbours swapped, a word moved to the front / to the end, the empty word twice as nil / empty in all 4 combinations, a proper prefix right after its extension, a word with its last byte lowered, a random word, an earlier word once more at the end, the list reversed, none) at the start / somewhere / at the end. " +
			"Each built automaton is compared with the sorted list: NumberOfWords, Lookup rank of every member, Lookup of non-members (prefixes, extensions, one-byte edits, deletions, random), an unfolding of the node graph along the trie (finality, labels, numWords = size of the right language), node count (accessor and GobEncode header) = number of distinct right languages. " +
			"non-trivial = a set with >= 2 words whose minimal automaton has fewer nodes than its trie (suffixes were actually merged), or a history (also the Builder route of a list given to both routes) with >= 1 rejected and >= 2 accepted additions, or a life cycle in which a build adds a non-empty word while an earlier non-empty Dawg of the same Builder is alive; distinct = hash of the word list / of the history / of the script",
		Assumptions: []string{
			"oracle refdawg: sorted word list (rank = index), trie, minimal automaton size by hash-consing right languages (validated against explicit right languages and hand-computed sizes; harness code, no library code)",
			"the verif-tagged accessor (*Dawg).VerifNodes reports the node graph faithfully (add-only file dawg/verif_export.go)",
			"a nil []byte and an empty []byte both denote the empty word",
			"the words handed to Add belong to the caller again once Add has returned: the model judges each Add against the bytes passed at that time",
			"\"Initialise sets up the internal state ready for use\": after Initialise a Builder value builds as a fresh one does, whatever it did before, and a Dawg that Finish has returned is finished: it does not change when its Builder is initialised and used again; a Builder value copied by assignment between builds (zero value, after Finish, after Initialise) continues as the original would have, the original is not used again",
		},
		Run:            run,
		MinEvaluations: map[string]int{"quick": 3000000, "thorough": 50000000},
		MinNontrivial:  map[string]int{"quick": 30000, "thorough": 1000000},
		RequiredObs: []string{"structure_walks", "header_counts_read", "lookups_of_non_members", "lookups_of_members", "adds_rejected_as_expected", "adds_accepted", "histories_finished", "sets_whose_input_slices_were_overwritten_after_New",
			"sets_with_empty_word", "sets_alphabet>=128",
			"life:scripts_completed", "life:earlier_non_empty_dawgs_rechecked", "life:dawgs_finished_by_a_reused_builder_checked", "life:initialise_after_finish", "life:initialise_after_an_abandoned_build", "life:initialise_after_a_rejected_add", "life:initialise_after_finish_of_an_empty_builder", "life:initialise_twice_in_a_row", "life:builder_value_copied_by_assignment_between_builds",
			"life:origin:new(Builder)", "life:origin:copy by assignment of a zero value", "life:origin:new(Builder) and Initialise()", "life:origin:copy by assignment of an initialised Builder",
			"routes:lists_given_to_both_routes", "routes:New_rejected_a_bad_list", "routes:New_accepted_a_good_list", "routes:good_lists_with_equal_automata_by_both_routes", "routes:New_of_the_repaired_list_right_after_a_rejected_New_checked",
			"routes:New_rejected:equal-neighbours", "routes:New_rejected:the-empty-word-twice", "routes:New_rejected:a-prefix-after-its-extension", "routes:New_rejected:decreasing-neighbours", "routes:New_rejected:a_word_repeated_with_other_words_in_between", "routes:New_rejected:lists_with_several_bad_pairs",
			"routes:New_rejected:first_bad_pair_the-only-pair", "routes:New_rejected:first_bad_pair_at-the-start", "routes:New_rejected:first_bad_pair_in-the-middle", "routes:New_rejected:first_bad_pair_at-the-end",
			"routes:New_rejected:the-empty-word-twice:nil_then_nil", "routes:New_rejected:the-empty-word-twice:nil_then_\"\"", "routes:New_rejected:the-empty-word-twice:\"\"_then_nil", "routes:New_rejected:the-empty-word-twice:\"\"_then_\"\"",
			"routes:New_accepted:the_nil_list", "routes:New_accepted:the_empty_non-nil_list", "routes:planted:a word twice in a row", "routes:planted:the empty word twice in front (nil / empty variants)",
			exhaustiveRoutes5, exhaustiveOneChange7, exhaustiveOneChange15,
			"exhaustive:all ordered pairs (first build, second build) of the 128 subsets of the 7 words of length<=2 over {a,b} with one Builder (Finish, Initialise, build again)", "exhaustive:all 2^15 subsets of the 15 words of length<=3 over {a,b}"},
	})
}

// checkSet builds the set with dawg.New and compares everything.  callKey
// identifies the case for the watchdog; witness goes into violation keys.
func checkSet(c *engine.Ctx, workload, callKey string, set *refdawg.Set, probes [][]byte, emptyAsNil bool) bool {
	words := set.Copy()
	if emptyAsNil && len(words) > 0 && len(words[0]) == 0 {
		words[0] = nil
	}
	witness := dawgx.Witness(set.Words)
	detail := dawgx.Detail(workload, set, map[string]interface{}{"call": callKey, "empty_word_passed_as_nil": emptyAsNil})
	var d *dawg.Dawg
	var err error
	pi := c.Call(callKey+"|New", func() { d, err = dawg.New(words) })
	c.Eval(1)
	if pi != nil {
		dawgx.Report(c, nil, pi, "dawg.New", witness, detail)
		return false
	}
	if err != nil || d == nil {
		c.Violation("dawg.New|error|"+witness, detail, fmt.Sprintf("err=%v dawg=%v", err, d != nil), "a Dawg and no error: the words are strictly increasing")
		return false
	}
	// the slices handed to New belong to the caller again: for half of the sets they are overwritten before anything is checked
	if set.Hash()%2 == 0 {
		for _, w := range words {
			for i := range w {
				w[i] = '#'
			}
		}
		detail["caller_overwrote_the_word_slices_after_New"] = true
		c.Obs("sets_whose_input_slices_were_overwritten_after_New", 1)
	}
	f, pi, api := dawgx.FullCheck(c, callKey, d, set, dawgx.CheckOpts{Probes: probes})
	if f != nil || pi != nil {
		dawgx.Report(c, f, pi, api, witness, detail)
		return false
	}
	observeSet(c, set)
	return true
}

func observeSet(c *engine.Ctx, set *refdawg.Set) {
	if set.Len() > 0 && len(set.Words[0]) == 0 {
		c.Obs("sets_with_empty_word", 1)
	}
	switch n := set.Len(); {
	case n == 0:
		c.Obs("sets:0 words", 1)
	case n == 1:
		c.Obs("sets:1 word", 1)
	case n <= 15:
		c.Obs("sets:2..15 words", 1)
	case n <= 200:
		c.Obs("sets:16..200 words", 1)
	case n <= 1000:
		c.Obs("sets:201..1000 words", 1)
	default:
		c.Obs("sets:>1000 words", 1)
	}
	c.ObsMax("words_in_a_set", set.Len())
}

// nontrivial reports whether minimisation merged something.
func nontrivial(set *refdawg.Set) bool {
	if set.Len() < 2 {
		return false
	}
	t := set.Trie()
	return t.Minimise() < t.Size()
}

// ---- Add histories ----

type hop struct {
	w     []byte
	isNil bool
}

func (h hop) String() string {
	if h.isNil {
		return "nil"
	}
	return strconv.Quote(string(h.w))
}

func histString(ops []hop) string {
	var b bytes.Buffer
	for i, o := range ops {
		if i > 0 {
			b.WriteByte(',')
		}
		b.WriteString(o.String())
	}
	return b.String()
}

var modeNames = []string{"fresh-slices", "one-reused-buffer", "buffer-overwritten-after-Add"}

func shortRepr(w []byte, isNil bool) string {
	if isNil {
		return "nil-slice"
	}
	if len(w) <= 3 {
		return strconv.Quote(string(w))
	}
	return fmt.Sprintf("len%d", len(w))
}

// runHistory feeds ops to a Builder.  mode: 0 every word in a fresh slice
// that is never touched again, 1 every word through one reused buffer, 2 the
// slice is overwritten after Add returned.  init: 0 zero value, 1 Initialise().
func runHistory(c *engine.Ctx, workload, callKey string, ops []hop, mode, init int) bool {
	_, ok := runHistoryDawg(c, workload, callKey, ops, mode, init)
	return ok
}

// runHistoryDawg is runHistory that also hands out the Dawg the Builder
// finished (checked in full against the accepted words when ok is true).
func runHistoryDawg(c *engine.Ctx, workload, callKey string, ops []hop, mode, init int) (*dawg.Dawg, bool) {
	detailOf := func(step int) map[string]interface{} {
		o := ops
		if step >= 0 && step+1 < len(o) {
			o = o[:step+1]
		}
		h := histString(o)
		if len(o) > 200 {
			h = "..." + histString(o[len(o)-40:])
		}
		return map[string]interface{}{"workload": workload, "call": callKey, "adds": h, "n_adds": len(o), "caller": modeNames[mode], "builder": []string{"zero value", "Initialise()"}[init]}
	}
	var b *dawg.Builder
	if pi := c.Call(callKey+"|Builder", func() {
		b = new(dawg.Builder)
		if init == 1 {
			b.Initialise()
		}
	}); pi != nil {
		dawgx.Report(c, nil, pi, "Builder.Initialise", "-", detailOf(-1))
		return nil, false
	}
	m := &refdawg.BuilderModel{}
	buf := make([]byte, 0, 64)
	var prevArg []byte // the slice that carried the last accepted word
	var prevNil bool
	rejected := 0
	for step, o := range ops {
		var arg []byte
		switch {
		case o.isNil:
			arg = nil
		case mode == 1:
			arg = append(buf[:0], o.w...)
		default:
			arg = append([]byte{}, o.w...)
		}
		last, has := m.Last()
		changed := has && !bytes.Equal(prevArg, last) // the caller has reused / overwritten the slice of the last accepted word
		wantAccept := m.Add(o.w)
		var err error
		pi := c.Call(fmt.Sprintf("%s|Add#%d", callKey, step), func() { err = b.Add(arg) })
		c.Eval(1)
		if pi != nil {
			dawgx.Report(c, nil, pi, "Builder.Add", "last="+shortRepr(last, prevNil)+"|add="+shortRepr(o.w, o.isNil), detailOf(step))
			return nil, false
		}
		if !bytes.Equal(arg, o.w) {
			c.Violation("Builder.Add|modified-its-argument", detailOf(step), fmt.Sprintf("%q", arg), fmt.Sprintf("%q", o.w))
			return nil, false
		}
		if (err == nil) != wantAccept {
			kind := "wrongly-accepted"
			obs := "Add returned nil"
			exp := "an error: the word is not greater than the last accepted word"
			if wantAccept {
				kind = "wrongly-rejected"
				obs = "Add returned error: " + err.Error()
				exp = "nil: the word is greater than the last accepted word"
			}
			lastS := "none"
			if has {
				lastS = shortRepr(last, prevNil)
			}
			w := "last=" + lastS + "|add=" + shortRepr(o.w, o.isNil)
			if changed {
				w = "caller-changed-the-slice-of-the-last-word-after-Add"
				obs += fmt.Sprintf(" (last accepted word was %q; the slice it was passed in now reads %q)", last, prevArg)
			}
			if has {
				exp += fmt.Sprintf(" (%q at the time it was added)", last)
			}
			c.Violation("Builder.Add|"+kind+"|"+w, detailOf(step), obs+fmt.Sprintf("; Add(%s)", o.String()), exp)
			return nil, false
		}
		if wantAccept {
			c.Obs("adds_accepted", 1)
			prevArg, prevNil = arg, o.isNil
			if o.isNil {
				c.Obs("adds_accepted_nil_empty_word", 1)
			}
		} else {
			c.Obs("adds_rejected_as_expected", 1)
			rejected++
		}
		if changed {
			c.Obs("adds_after_caller_changed_last_slice", 1)
		}
		if mode == 2 {
			fill := byte(0xFF)
			if step%2 == 1 {
				fill = 0
			}
			for i := range arg {
				arg[i] = fill
			}
		}
	}
	set := m.Set()
	witness := dawgx.Witness(set.Words)
	det := dawgx.Detail(workload, set, detailOf(-1))
	var d *dawg.Dawg
	var err error
	pi := c.Call(callKey+"|Finish", func() { d, err = b.Finish() })
	c.Eval(1)
	if pi != nil {
		dawgx.Report(c, nil, pi, "Builder.Finish", witness, det)
		return nil, false
	}
	if err != nil || d == nil {
		c.Violation("Builder.Finish|error|"+witness, det, fmt.Sprintf("err=%v", err), "the Dawg of the accepted words")
		return nil, false
	}
	probes := [][]byte{}
	for _, o := range ops {
		probes = append(probes, o.w, append(append([]byte{}, o.w...), 'a'))
		if len(probes) > 400 {
			break
		}
	}
	f, pi, api := dawgx.FullCheck(c, callKey, d, set, dawgx.CheckOpts{Probes: probes})
	if f != nil || pi != nil {
		dawgx.Report(c, f, pi, "after-history:"+api, witness, det)
		return nil, false
	}
	c.Obs("histories_finished", 1)
	c.Obs("histories:"+modeNames[mode], 1)
	if rejected >= 1 && set.Len() >= 2 {
		c.NT("hist", mode, init, histString(ops))
	}
	return d, true
}

func bs(ss ...string) [][]byte {
	r := make([][]byte, len(ss))
	for i, s := range ss {
		r[i] = []byte(s)
	}
	return r
}

type family struct {
	name  string
	words [][]byte
	alpha []byte
}

// families is the fixed (seed-independent) list of named word sets, shared
// with C13 and C14 through FixedFamilies.
func families() []family {
	var fs []family
	add := func(name string, words [][]byte, alpha string) {
		fs = append(fs, family{name, words, []byte(alpha)})
	}
	add("empty-set", nil, "ab")
	add("only-empty-word", bs(""), "ab")
	add("empty-word-and-a", bs("", "a"), "ab")
	add("single-letter", bs("a"), "ab")
	add("single-word", bs("hello"), "helo")
	add("repo-test-words", bs("abject", "abjection", "abjections", "abjectly", "abjectness", "ablate", "ablated", "ablation", "ablations"), "abcdeijlnost")
	add("repo-anagram-words", bs("alerting", "altering", "integral", "post", "pot", "pots", "relating", "spot", "stop", "tops", "tppss", "triangle", "ttps"), "aeginloprst")
	add("tap-taps-top-tops", bs("tap", "taps", "top", "tops"), "aopst")
	for _, k := range []int{1, 2, 3, 12, 126, 127, 128, 129, 130, 254, 255, 256, 257, 300} {
		// chain: the words a, aa, ..., a^k, and the single word a^k
		var ch [][]byte
		for i := 1; i <= k; i++ {
			ch = append(ch, bytes.Repeat([]byte{'a'}, i))
		}
		add(fmt.Sprintf("unary-chain-all-%d", k), ch, "ab")
		add(fmt.Sprintf("unary-single-%d", k), [][]byte{bytes.Repeat([]byte{'a'}, k)}, "ab")
	}
	for _, k := range []int{1, 2, 26, 127, 128, 129, 255, 256} {
		// fan: k single-byte words; with the empty word; below a prefix; with distinct tails
		var fan, pre, tails, fin [][]byte
		for i := 0; i < k; i++ {
			b := byte(i)
			if k < 256 {
				b = byte(i + 1) // leave 0 outside the alphabet
			}
			fan = append(fan, []byte{b})
			pre = append(pre, []byte{'x', 'y', b})
			tails = append(tails, append([]byte{b}, bytes.Repeat([]byte{'t'}, i%5)...))
			fin = append(fin, []byte{'q', b}, []byte{'q', b, b})
		}
		al := make([]byte, 0, 256)
		for i := 0; i < 256; i++ {
			al = append(al, byte(i))
		}
		fs = append(fs, family{fmt.Sprintf("fan-%d", k), fan, al})
		fs = append(fs, family{fmt.Sprintf("fan-%d-with-empty-word", k), append([][]byte{{}}, fan...), al})
		fs = append(fs, family{fmt.Sprintf("fan-%d-below-prefix", k), pre, al})
		fs = append(fs, family{fmt.Sprintf("fan-%d-distinct-tails", k), tails, al})
		fs = append(fs, family{fmt.Sprintf("fan-%d-final-children-with-loops", k), append(fin, []byte{'q'}), al})
	}
	// products
	add("product-3x3", product(bs("ab", "cd", "ef"), bs("x", "yz", "")), "abcdefxyz")
	add("product-3x3-minus-one", product(bs("ab", "cd", "ef"), bs("x", "yz", ""))[1:], "abcdefxyz")
	add("binary-len-5", refdawg.Universe([]byte("01"), 5), "01")
	add("ternary-exact-len-4", exactLen(refdawg.Universe([]byte("xyz"), 4), 4), "xyz")
	return fs
}

func product(P, S [][]byte) [][]byte {
	var out [][]byte
	for _, p := range P {
		for _, s := range S {
			out = append(out, append(append([]byte{}, p...), s...))
		}
	}
	return refdawg.FromWords(out).Words
}

func exactLen(ws [][]byte, l int) [][]byte {
	var out [][]byte
	for _, w := range ws {
		if len(w) == l {
			out = append(out, w)
		}
	}
	return out
}

// Family exposes a fixed family to the other DAWG monitors.
type Family struct {
	Name  string
	Set   *refdawg.Set
	Alpha []byte
}

// FixedFamilies returns the fixed families as sets.
func FixedFamilies() []Family {
	var out []Family
	for _, f := range families() {
		out = append(out, Family{f.name, refdawg.FromWords(f.words), f.alpha})
	}
	return out
}

// Universe15 is the sorted list of the 15 words of length <= 3 over {a,b}.
func Universe15() [][]byte { return refdawg.Universe([]byte("ab"), 3) }

// SubsetOf returns the subset of u selected by mask.
func SubsetOf(u [][]byte, mask int) *refdawg.Set {
	var ws [][]byte
	for i, w := range u {
		if mask>>uint(i)&1 == 1 {
			ws = append(ws, w)
		}
	}
	return &refdawg.Set{Words: ws}
}

// Dictionary reads the repo's word list (input source of the thorough tier).
func Dictionary() (*refdawg.Set, error) {
	repo := os.Getenv("VERIF_REPO")
	if repo == "" {
		repo = "/repo"
	}
	f, err := os.Open(filepath.Join(repo, "dawg", "testdata", "CROSSWD.TXT"))
	if err != nil {
		return nil, err
	}
	defer f.Close()
	var ws [][]byte
	sc := bufio.NewScanner(f)
	for sc.Scan() {
		w := bytes.TrimRight(sc.Bytes(), "\r")
		ws = append(ws, append([]byte{}, w...))
	}
	if err := sc.Err(); err != nil {
		return nil, err
	}
	if len(ws) < 1000 {
		return nil, fmt.Errorf("only %d lines", len(ws))
	}
	return refdawg.FromWords(ws), nil
}

func run(c *engine.Ctx) {
	// 1. exhaustive: all subsets of small universes
	type sweep struct {
		name     string
		alphabet string
		maxLen   int
		blocks   int
		thorough bool
	}
	sweeps := []sweep{
		{"subsets15", "ab", 3, 64, false},   // 15 words, 2^15 sets
		{"subsets13", "abc", 2, 32, false},  // 13 words, 2^13 sets
		{"subsets21", "abcd", 2, 512, true}, // 21 words, 2^21 sets (thorough)
	}
	for _, sw := range sweeps {
		if sw.thorough && !c.Thorough() {
			continue
		}
		sw := sw
		u := refdawg.Universe([]byte(sw.alphabet), sw.maxLen)
		probesU := refdawg.Universe([]byte(sw.alphabet), sw.maxLen+1)
		probesU = append(probesU, []byte("z"), []byte("az"), []byte("aaaaa"), []byte{0}, []byte{'a', 0})
		per := (1 << uint(len(u))) / sw.blocks
		label := fmt.Sprintf("all 2^%d subsets of the %d words of length<=%d over {%s}", len(u), len(u), sw.maxLen, commaSep(sw.alphabet))
		for blk := 0; blk < sw.blocks; blk++ {
			blk := blk
			c.Unit(fmt.Sprintf("%s/%03d", sw.name, blk), func() {
				nt := 0
				for mask := blk * per; mask < (blk+1)*per; mask++ {
					set := SubsetOf(u, mask)
					if !checkSet(c, label, fmt.Sprintf("%s|mask=%d", sw.name, mask), set, probesU, mask%3 == 1) {
						if c.Stopped() {
							return
						}
						continue
					}
					if nontrivial(set) {
						nt++
					}
				}
				c.NTDistinct(nt)
				c.Obs("exhaustive_subsets_checked", per)
				if blk == 0 {
					c.Obs("exhaustive:"+label, 1)
					c.Sample(sw.name, map[string]interface{}{"universe": refdawg.QuoteList(u, 30), "probes_per_set": len(probesU), "example_mask": 0x5a5a, "example": SubsetOf(u, 0x5a5a).Quoted(30)})
				}
			})
		}
	}

	// 2. fixed families
	for i, fam := range FixedFamilies() {
		i, fam := i, fam
		c.Unit("family/"+fam.Name, func() {
			rg := engine.NewRng(uint64(1000 + i)) // fixed part: independent of VERIF_SEED
			probes := refdawg.Probes(fam.Set, fam.Alpha, rg, 3000)
			for _, asNil := range []bool{false, true} {
				if asNil && !(fam.Set.Len() > 0 && len(fam.Set.Words[0]) == 0) {
					continue
				}
				if checkSet(c, "family "+fam.Name, "family|"+fam.Name, fam.Set, probes, asNil) {
					if nontrivial(fam.Set) {
						c.NT("family", fam.Name)
					}
					if fam.Set.Trie().MaxFanout() >= 128 {
						c.Obs("sets_alphabet>=128", 1)
					}
					c.ObsMax("fanout", fam.Set.Trie().MaxFanout())
				}
			}
			if fam.Name == "repo-test-words" {
				c.Sample("family", map[string]interface{}{"name": fam.Name, "words": fam.Set.Quoted(20), "minimal_nodes": fam.Set.MinimalStates(), "probes": len(probes)})
			}
		})
	}

	// 3. exhaustive Add histories
	tokens := []hop{{nil, true}, {[]byte{}, false}, {[]byte("a"), false}, {[]byte("aa"), false}, {[]byte("ab"), false}, {[]byte("b"), false}}
	maxL := 4
	// shortest histories first, so that the first witness of a defect is a smallest one
	for mode := 0; mode < 3; mode++ {
		for init := 0; init < 2; init++ {
			for L := 1; L <= maxL; L++ {
				firsts := []int{-1} // -1: all first tokens in one unit
				if L == maxL {
					firsts = []int{0, 1, 2, 3, 4, 5}
				}
				for _, first := range firsts {
					mode, init, L, first := mode, init, L, first
					c.Unit(fmt.Sprintf("histories-exhaustive/%s/init=%d/len=%d/first=%d", modeNames[mode], init, L, first), func() {
						seq := make([]hop, 0, L)
						count := 0
						var rec func()
						rec = func() {
							if len(seq) == L {
								count++
								runHistory(c, "all Add histories of length<=4", fmt.Sprintf("hist|%s|init=%d|%s", modeNames[mode], init, histString(seq)), seq, mode, init)
								return
							}
							for ti, t := range tokens {
								if len(seq) == 0 && first >= 0 && ti != first {
									continue
								}
								if c.Stopped() {
									return
								}
								seq = append(seq, t)
								rec()
								seq = seq[:len(seq)-1]
							}
						}
						rec()
						c.Obs("exhaustive_histories", count)
						if mode == 0 && init == 0 && L == 1 {
							c.Obs("exhaustive:all Add histories of length<=4 over {nil,\"\",a,aa,ab,b} x 3 caller behaviours x 2 initialisations", 1)
							c.Sample("histories-exhaustive", map[string]interface{}{"tokens": histString(tokens), "max_len": maxL, "caller_behaviours": modeNames})
						}
					})
				}
			}
		}
	}
	// the empty history (Finish on a fresh builder)
	c.Unit("histories-exhaustive/empty", func() {
		for init := 0; init < 2; init++ {
			runHistory(c, "empty history", fmt.Sprintf("hist|empty|init=%d", init), nil, 0, init)
		}
	})

	// 4. seeded sets
	nSets := c.Pick(16000, 80000)
	perUnit := 40
	for un := 0; un*perUnit < nSets; un++ {
		un := un
		c.Unit(fmt.Sprintf("seeded-sets/%d", un), func() {
			for i := un * perUnit; i < (un+1)*perUnit && i < nSets; i++ {
				rg := c.Rand("c12-sets", i)
				maxWords := 300
				if i%20 == 7 {
					maxWords = 5000
				}
				set, alpha, info := refdawg.GenSet(rg, maxWords)
				probes := refdawg.Probes(set, alpha, rg, 400+set.Len())
				ok := checkSet(c, "seeded "+info.String(), fmt.Sprintf("seeded-sets#%d", i), set, probes, i%5 == 2)
				if c.Stopped() {
					return
				}
				if !ok {
					continue
				}
				c.Obs("gen:"+info.Mode, 1)
				switch {
				case info.Alphabet >= 128:
					c.Obs("sets_alphabet>=128", 1)
				case info.Alphabet >= 27:
					c.Obs("sets_alphabet:27..127", 1)
				case info.Alphabet >= 5:
					c.Obs("sets_alphabet:5..26", 1)
				default:
					c.Obs("sets_alphabet:1..4", 1)
				}
				if nontrivial(set) {
					c.NT("set", set.Hash())
				}
				if i < 2 {
					c.Sample("seeded-sets", map[string]interface{}{"gen": info.String(), "words": set.Quoted(12), "minimal_nodes": set.MinimalStates(), "probes": len(probes)})
				}
			}
		})
	}

	// 5. seeded histories
	nHist := c.Pick(8000, 40000)
	for un := 0; un*perUnit < nHist; un++ {
		un := un
		c.Unit(fmt.Sprintf("seeded-histories/%d", un), func() {
			for i := un * perUnit; i < (un+1)*perUnit && i < nHist; i++ {
				rg := c.Rand("c12-hist", i)
				set, alpha, info := refdawg.GenSet(rg, 250)
				ops := junkHistory(rg, set, alpha)
				mode := i % 3
				init := (i / 3) % 2
				runHistory(c, "seeded history over "+info.String(), fmt.Sprintf("seeded-histories#%d", i), ops, mode, init)
				if c.Stopped() {
					return
				}
				if i < 2 {
					o := ops
					if len(o) > 14 {
						o = o[:14]
					}
					c.Sample("seeded-histories", map[string]interface{}{"gen": info.String(), "caller": modeNames[mode], "first_adds": histString(o), "n_adds": len(ops)})
				}
			}
		})
	}

	// 6. the repo's dictionary (thorough): whole and thinned, fed through Builder.Add
	if c.Thorough() {
		for k, keep := range []int{1, 2, 7, 50} {
			k, keep := k, keep
			c.Unit(fmt.Sprintf("dictionary/keep-1-in-%d", keep), func() {
				dict, err := Dictionary()
				if err != nil {
					c.Inconclusive("dictionary not readable: " + err.Error())
					return
				}
				rg := c.Rand("c12-dict", k)
				var ws [][]byte
				for _, w := range dict.Words {
					if keep == 1 || rg.Intn(keep) == 0 {
						ws = append(ws, w)
					}
				}
				set := &refdawg.Set{Words: ws}
				alpha := []byte("abcdefghijklmnopqrstuvwxyz")
				probes := refdawg.Probes(set, alpha, rg, 30000)
				callKey := fmt.Sprintf("dictionary|keep-1-in-%d", keep)
				witness := "dictionary"
				det := dawgx.Detail("dictionary", set, map[string]interface{}{"keep_one_in": keep})
				b := new(dawg.Builder)
				for at := 0; at < len(ws); {
					end := at + 500
					if end > len(ws) {
						end = len(ws)
					}
					var bad error
					badAt := -1
					pi := c.Call(fmt.Sprintf("%s|Add[%d:%d]", callKey, at, end), func() {
						for i := at; i < end; i++ {
							if e := b.Add(append([]byte{}, ws[i]...)); e != nil {
								bad, badAt = e, i
								return
							}
						}
					})
					c.Eval(end - at)
					if pi != nil {
						dawgx.Report(c, nil, pi, "Builder.Add", witness, det)
						return
					}
					if bad != nil {
						c.Violation("Builder.Add|wrongly-rejected|"+witness, det, fmt.Sprintf("Add(%q) after %q: %v", ws[badAt], ws[maxI(badAt-1, 0)], bad), "nil")
						return
					}
					c.Obs("adds_accepted", end-at)
					at = end
				}
				var d *dawg.Dawg
				var err2 error
				if pi := c.Call(callKey+"|Finish", func() { d, err2 = b.Finish() }); pi != nil {
					dawgx.Report(c, nil, pi, "Builder.Finish", witness, det)
					return
				}
				if err2 != nil {
					c.Violation("Builder.Finish|error|"+witness, det, err2.Error(), "nil")
					return
				}
				f, pi, api := dawgx.FullCheck(c, callKey, d, set, dawgx.CheckOpts{Probes: probes})
				if f != nil || pi != nil {
					dawgx.Report(c, f, pi, api, witness, det)
					return
				}
				observeSet(c, set)
				c.Obs("dictionary_sets_checked", 1)
				if nontrivial(set) {
					c.NT("dict", keep)
				}
				c.Sample("dictionary", map[string]interface{}{"words": set.Len(), "minimal_nodes": set.MinimalStates(), "trie_nodes": set.Trie().Size(), "probes": len(probes)})
			})
		}
	}

	// 7. Builder life cycles: one Builder used for several Dawgs in a row (life.go)
	lifeCycles(c)

	// 8. the two construction routes (dawg.New / Builder.Add) on arbitrary lists (routes.go)
	constructionRoutes(c)
}

func commaSep(s string) string {
	out := ""
	for i, r := range s {
		if i > 0 {
			out += ","
		}
		out += string(r)
	}
	return out
}

func maxI(a, b int) int {
	if a > b {
		return a
	}
	return b
}

// junkHistory interleaves the sorted words of set with out-of-order words,
// duplicates, empty words (nil and non-nil) and random words.
func junkHistory(rg *engine.Rng, set *refdawg.Set, alpha []byte) []hop {
	var ops []hop
	p := 0.05 + rg.Float()*0.5
	junk := func(i int) {
		switch rg.Intn(8) {
		case 0: // duplicate of the last word
			if i > 0 {
				ops = append(ops, hop{set.Words[i-1], false})
			}
		case 1: // an earlier word
			if i > 0 {
				ops = append(ops, hop{set.Words[rg.Intn(i)], false})
			}
		case 2: // the last word with its last byte lowered
			if i > 0 && len(set.Words[i-1]) > 0 {
				w := append([]byte{}, set.Words[i-1]...)
				if w[len(w)-1] > 0 {
					w[len(w)-1]--
					ops = append(ops, hop{w, false})
				}
			}
		case 3: // a proper prefix of the last word
			if i > 0 && len(set.Words[i-1]) > 0 {
				ops = append(ops, hop{set.Words[i-1][:rg.Intn(len(set.Words[i-1]))], false})
			}
		case 4:
			ops = append(ops, hop{nil, true})
		case 5:
			ops = append(ops, hop{[]byte{}, false})
		case 6: // a random word: accepted or not, the model decides
			l := rg.Intn(6)
			w := make([]byte, l)
			for j := range w {
				w[j] = alpha[rg.Intn(len(alpha))]
			}
			ops = append(ops, hop{w, false})
		default: // a later word (accepted; makes the following ones out of order)
			if i+1 < set.Len() {
				ops = append(ops, hop{set.Words[i+rg.Intn(set.Len()-i)], false})
			}
		}
	}
	for i, w := range set.Words {
		for rg.Bool(p) {
			junk(i)
		}
		if len(w) == 0 && rg.Bool(0.5) {
			ops = append(ops, hop{nil, true})
		} else {
			ops = append(ops, hop{w, false})
		}
	}
	for rg.Bool(p) {
		junk(set.Len())
	}
	return ops
}

package c09

// Reference computations for C09.  Everything here is harness code that
// shares nothing with the library: subset scans and plain backtracking written
// from the definitions, validated by the self-checks at the end of the file
// (published tables and mutual agreement of independent methods).

import (
	"fmt"
	"math/big"
	"math/bits"

	"verif/internal/gen"
	"verif/internal/oracle/brute"
	"verif/internal/oracle/rg"
	"verif/internal/selfcheck"
)

// ref holds the isomorphism invariants of one graph.  A field is -1 (or nil)
// when no trustworthy reference is available at that size; the corresponding
// value is then not judged (only its witness is).
type ref struct {
	n, m     int
	omega    int
	alpha    int
	chi      int
	chiIdx   int
	degen    int
	nCliques int        // number of maximal cliques, -1 unknown
	colCount []*big.Int // colCount[k] = number of proper k-colourings, k = 0..n+1; nil if not computed
}

// limits of the naive methods
const (
	maxSubsetN = 20 // 2^n subset scans (omega, alpha, maximal cliques)
	maxChiN    = 14 // 3^n subset DP
	maxDegDefN = 12 // subset definition of degeneracy
	maxPartN   = 10 // set partitions into independent sets (Bell(10) = 115975)
	maxListN   = 14 // listing of all maximal cliques by subset scan
)

// computeRef computes every reference value that is feasible for g.
// withCounts: also the numbers of proper k-colourings (n <= maxPartN);
// withIndex: also the chromatic index.
func computeRef(g *rg.G, withCounts, withIndex bool) *ref {
	n := g.N
	r := &ref{n: n, m: g.M(), omega: -1, alpha: -1, chi: -1, chiIdx: -1, degen: -1, nCliques: -1}
	if n > 32 {
		return r
	}
	b := brute.FromRG(g, n)
	if n <= maxSubsetN {
		r.omega = b.Omega()
		r.alpha = b.Alpha()
	}
	if n <= maxListN {
		r.nCliques = len(b.MaximalCliques())
	}
	if n <= maxChiN {
		r.chi = b.Chi()
	}
	if withIndex {
		r.chiIdx = edgeChromatic(g, 5_000_000)
	}
	if n <= maxDegDefN {
		r.degen = degeneracyByDefinition(b)
	} else {
		r.degen = b.Degeneracy()
	}
	if withCounts && n <= maxPartN {
		r.colCount = colouringCounts(b, n+1)
	}
	return r
}

// ---------------------------------------------------------------------------
// degeneracy from the definition: the largest minimum degree of an induced
// subgraph.

func degeneracyByDefinition(b *brute.G) int {
	n := b.N
	best := 0
	for s := uint32(1); s < uint32(1)<<uint(n); s++ {
		min := 1 << 20
		for t := s; t != 0; t &= t - 1 {
			v := bits.TrailingZeros32(t)
			if d := bits.OnesCount32(b.Adj[v] & s); d < min {
				min = d
			}
		}
		if min > best {
			best = min
		}
	}
	return best
}

// ---------------------------------------------------------------------------
// numbers of proper k-colourings through partitions into independent sets:
// a proper colouring with exactly j colours used is a partition of V into j
// non-empty independent classes together with an injective assignment of
// colours, so P(G,k) = sum_j a_j * k(k-1)...(k-j+1).

func independentPartitions(b *brute.G) []int64 {
	n := b.N
	a := make([]int64, n+1)
	blocks := make([]uint32, 0, n)
	var rec func(v int)
	rec = func(v int) {
		if v == n {
			a[len(blocks)]++
			return
		}
		for i := range blocks {
			if blocks[i]&b.Adj[v] == 0 {
				blocks[i] |= 1 << uint(v)
				rec(v + 1)
				blocks[i] &^= 1 << uint(v)
			}
		}
		blocks = append(blocks, 1<<uint(v))
		rec(v + 1)
		blocks = blocks[:len(blocks)-1]
	}
	rec(0)
	return a
}

func colouringCounts(b *brute.G, maxK int) []*big.Int {
	a := independentPartitions(b)
	out := make([]*big.Int, maxK+1)
	for k := 0; k <= maxK; k++ {
		sum := new(big.Int)
		for j, aj := range a {
			if aj == 0 {
				continue
			}
			// falling factorial k(k-1)...(k-j+1)
			ff := big.NewInt(1)
			for t := 0; t < j; t++ {
				ff.Mul(ff, big.NewInt(int64(k-t)))
			}
			ff.Mul(ff, big.NewInt(aj))
			sum.Add(sum, ff)
		}
		out[k] = sum
	}
	return out
}

// evalPoly evaluates sum p[i] k^i exactly.
func evalPoly(p []int, k int) *big.Int {
	v := new(big.Int)
	bk := big.NewInt(int64(k))
	for i := len(p) - 1; i >= 0; i-- {
		v.Mul(v, bk)
		v.Add(v, big.NewInt(int64(p[i])))
	}
	return v
}

// ---------------------------------------------------------------------------
// chromatic index: Delta or Delta+1 (Vizing); decided by a backtracking search
// for a proper edge colouring with Delta colours (most constrained edge first,
// colours beyond the first unused one are symmetric and skipped).
// Returns -1 if the node limit is exhausted (reference unavailable).

func edgeChromatic(g *rg.G, nodeLimit int) int {
	es := g.Edges()
	if len(es) == 0 {
		return 0
	}
	delta := 0
	for v := 0; v < g.N; v++ {
		if d := g.Deg(v); d > delta {
			delta = d
		}
	}
	switch edgeColourable(g.N, es, delta, nodeLimit) {
	case 1:
		return delta
	case 0:
		return delta + 1
	}
	return -1
}

// edgeColourable: 1 yes, 0 no, -1 gave up.
func edgeColourable(n int, es [][2]int, k int, nodeLimit int) int {
	m := len(es)
	if k > 62 {
		return -1
	}
	// a colour class is a matching: at most floor(n/2) edges per colour.
	if m > k*(n/2) {
		return 0
	}
	all := uint64(1)<<uint(k) - 1
	used := make([]uint64, n) // colours present at each vertex
	col := make([]int, m)
	for i := range col {
		col[i] = -1
	}
	nodes := 0
	var rec func(done, maxUsed int) int
	rec = func(done, maxUsed int) int {
		if done == m {
			return 1
		}
		nodes++
		if nodes > nodeLimit {
			return -1
		}
		// most constrained uncoloured edge
		best, bestFree := -1, uint64(0)
		bestCnt := 1 << 20
		for e := 0; e < m; e++ {
			if col[e] >= 0 {
				continue
			}
			free := all &^ (used[es[e][0]] | used[es[e][1]])
			c := bits.OnesCount64(free)
			if c < bestCnt {
				best, bestFree, bestCnt = e, free, c
				if c == 0 {
					return 0
				}
			}
		}
		u, v := es[best][0], es[best][1]
		for f := bestFree; f != 0; f &= f - 1 {
			x := bits.TrailingZeros64(f)
			if x > maxUsed+1 {
				break // colours never used so far are interchangeable
			}
			col[best] = x
			used[u] |= 1 << uint(x)
			used[v] |= 1 << uint(x)
			mu := maxUsed
			if x > mu {
				mu = x
			}
			r := rec(done+1, mu)
			used[u] &^= 1 << uint(x)
			used[v] &^= 1 << uint(x)
			col[best] = -1
			if r != 0 {
				return r
			}
		}
		return 0
	}
	return rec(0, -1)
}

// ---------------------------------------------------------------------------
// first-fit colouring in a given order.

func firstFit(g *rg.G, order []int) []int {
	n := g.N
	col := make([]int, n)
	for i := range col {
		col[i] = -1
	}
	for _, v := range order {
		taken := make([]bool, n+1) // colours of the already coloured neighbours of v
		for u := 0; u < n; u++ {
			if u != v && col[u] >= 0 && g.Has(u, v) {
				taken[col[u]] = true
			}
		}
		for x := 0; ; x++ {
			if !taken[x] {
				col[v] = x
				break
			}
		}
	}
	return col
}

// ---------------------------------------------------------------------------
// witness checkers (from the definitions, on the harness-owned model).

// checkVertexColouring returns "" if col is a proper colouring of g whose
// colours all lie in 0..limit-1; with exact it must also use every one of
// these colours.
func checkVertexColouring(g *rg.G, col []int, limit int, exact bool) string {
	if len(col) != g.N {
		return fmt.Sprintf("colouring has length %d, graph has %d vertices", len(col), g.N)
	}
	seen := make(map[int]bool)
	for v, x := range col {
		if x < 0 || x >= limit {
			return fmt.Sprintf("vertex %d has colour %d outside 0..%d", v, x, limit-1)
		}
		seen[x] = true
	}
	for _, e := range g.Edges() {
		if col[e[0]] == col[e[1]] {
			return fmt.Sprintf("adjacent vertices %d and %d both have colour %d", e[0], e[1], col[e[0]])
		}
	}
	if exact && len(seen) != limit {
		return fmt.Sprintf("colouring uses %d distinct colours, not all of 0..%d", len(seen), limit-1)
	}
	return ""
}

// checkEdgeColouring returns "" if ce is an edge array (edge ij, i<j, at
// j(j-1)/2+i) with 0 on the non-edges and a proper edge colouring with
// exactly the colours 1..k on the edges.
func checkEdgeColouring(g *rg.G, ce []byte, k int) string {
	n := g.N
	if len(ce) != n*(n-1)/2 {
		return fmt.Sprintf("edge array has length %d, want n(n-1)/2 = %d", len(ce), n*(n-1)/2)
	}
	seen := make(map[int]bool)
	at := make([]map[int]int, n) // colour -> other endpoint, per vertex
	for v := range at {
		at[v] = map[int]int{}
	}
	for j := 0; j < n; j++ {
		for i := 0; i < j; i++ {
			x := int(ce[j*(j-1)/2+i])
			if !g.Has(i, j) {
				if x != 0 {
					return fmt.Sprintf("non-edge %d-%d has entry %d, want 0", i, j, x)
				}
				continue
			}
			if x < 1 || x > k {
				return fmt.Sprintf("edge %d-%d has colour %d outside 1..%d", i, j, x, k)
			}
			seen[x] = true
			for _, v := range [2]int{i, j} {
				if w, dup := at[v][x]; dup {
					return fmt.Sprintf("edges %d-%d and %d-%d meet at %d and both have colour %d", i, j, v, w, v, x)
				}
			}
			at[i][x] = j
			at[j][x] = i
		}
	}
	if len(seen) != k {
		return fmt.Sprintf("edge colouring uses %d distinct colours, want exactly %d", len(seen), k)
	}
	return ""
}

// checkDegeneracyOrder returns "" if order is a permutation of the vertices
// in which every vertex is preceded by at most d of its neighbours.
func checkDegeneracyOrder(g *rg.G, order []int, d int) string {
	n := g.N
	if len(order) != n {
		return fmt.Sprintf("order has length %d, graph has %d vertices", len(order), n)
	}
	placed := make([]bool, n)
	for pos, v := range order {
		if v < 0 || v >= n {
			return fmt.Sprintf("order[%d] = %d is not a vertex", pos, v)
		}
		if placed[v] {
			return fmt.Sprintf("vertex %d occurs twice in the order", v)
		}
		earlier := 0
		for u := 0; u < n; u++ {
			if placed[u] && g.Has(u, v) {
				earlier++
			}
		}
		if earlier > d {
			return fmt.Sprintf("vertex %d (position %d) is preceded by %d neighbours > d = %d", v, pos, earlier, d)
		}
		placed[v] = true
	}
	return ""
}

// cliqueProblem returns "" if s is a maximal clique of g given as a list of
// distinct vertices.
func cliqueProblem(g *rg.G, s []int) string {
	in := make([]bool, g.N)
	for _, v := range s {
		if v < 0 || v >= g.N {
			return fmt.Sprintf("%d is not a vertex", v)
		}
		if in[v] {
			return fmt.Sprintf("vertex %d repeated", v)
		}
		in[v] = true
	}
	for i, u := range s {
		for _, v := range s[:i] {
			if !g.Has(u, v) {
				return fmt.Sprintf("%d and %d are not adjacent", u, v)
			}
		}
	}
	for w := 0; w < g.N; w++ {
		if in[w] {
			continue
		}
		all := true
		for _, v := range s {
			if !g.Has(w, v) {
				all = false
				break
			}
		}
		if all {
			return fmt.Sprintf("not maximal: vertex %d is adjacent to all of it", w)
		}
	}
	return ""
}

// ---------------------------------------------------------------------------
// families with published values.

type famCase struct {
	name                             string
	g                                *rg.G
	omega, alpha, chi, chiIdx, degen int  // published; -1 = not tabulated here
	heavyIndex                       bool // ChromaticIndex through the line graph is out of reach: skip that call
}

// flowerSnark returns the flower snark J_k (k odd): 4k vertices, cubic,
// chromatic index 4.
func flowerSnark(k int) *rg.G {
	g := rg.New(4 * k)
	// vertices: a_i = 4i (centre), b_i = 4i+1, c_i = 4i+2, d_i = 4i+3
	for i := 0; i < k; i++ {
		a, b, c, d := 4*i, 4*i+1, 4*i+2, 4*i+3
		g.Add(a, b)
		g.Add(a, c)
		g.Add(a, d)
		j := (i + 1) % k
		g.Add(b, 4*j+1) // the b-cycle
		if i < k-1 {
			g.Add(c, 4*j+2)
			g.Add(d, 4*j+3)
		} else {
			// the c- and d-paths close up crosswise into one 2k-cycle
			g.Add(c, 4*j+3)
			g.Add(d, 4*j+2)
		}
	}
	return g
}

func families() []famCase {
	var fs []famCase
	add := func(name string, g *rg.G, omega, alpha, chi, chiIdx, degen int) {
		fs = append(fs, famCase{name: name, g: g, omega: omega, alpha: alpha, chi: chi, chiIdx: chiIdx, degen: degen})
	}
	add("K0", rg.New(0), 0, 0, 0, 0, 0)
	add("K1", rg.New(1), 1, 1, 1, 0, 0)
	add("2K1", rg.New(2), 1, 2, 1, 0, 0)
	add("K2", gen.Complete(2), 2, 1, 2, 1, 1)
	add("K2+K1", rg.Union(gen.Complete(2), rg.New(1)), 2, 2, 2, 1, 1)
	for _, n := range []int{3, 4, 5, 6, 7, 8, 9} {
		ci := n - 1
		if n%2 == 1 {
			ci = n
		}
		add(fmt.Sprintf("K%d", n), gen.Complete(n), n, 1, n, ci, n-1)
	}
	for _, n := range []int{3, 4, 5, 6, 7, 9, 11, 12, 13} {
		chi, ci := 2, 2
		if n%2 == 1 {
			chi, ci = 3, 3
		}
		om := 2
		if n == 3 {
			om = 3
		}
		add(fmt.Sprintf("C%d", n), gen.Cycle(n), om, n/2, chi, ci, 2)
	}
	for _, n := range []int{2, 3, 6, 10} {
		ci := 2
		if n == 2 {
			ci = 1
		}
		add(fmt.Sprintf("P%d", n), gen.PathG(n), 2, (n+1)/2, 2, ci, 1)
	}
	// wheels: hub + rim cycle of length r (gen.Wheel(r) has r+1 vertices)
	for _, r := range []int{3, 4, 5, 6, 7, 9} {
		chi := 3
		if r%2 == 1 {
			chi = 4
		}
		om := 3
		if r == 3 {
			om = 4
		}
		add(fmt.Sprintf("wheel-rim%d", r), gen.Wheel(r), om, r/2, chi, r, 3)
	}
	add("petersen", gen.Kneser(5, 2), 2, 4, 3, 4, 3)
	add("kneser6_2", gen.Kneser(6, 2), 3, 5, 4, 7, 6)
	add("kneser7_3", gen.Kneser(7, 3), 2, 15, 3, -1, 4)
	add("grotzsch", gen.Mycielski(gen.Cycle(5)), 2, 5, 4, 5, 3)
	add("mycielski2(C5)", gen.Mycielski(gen.Mycielski(gen.Cycle(5))), 2, -1, 5, -1, -1)
	add("mycielski(K3)", gen.Mycielski(gen.Complete(3)), 3, 3, 4, -1, 3)
	add("K3,3", gen.CompleteMultipartite(3, 3), 2, 3, 2, 3, 3)
	add("K2,3,4", gen.CompleteMultipartite(2, 3, 4), 3, 4, 3, 7, 5)
	add("K2,2,2", gen.CompleteMultipartite(2, 2, 2), 3, 2, 3, 4, 4)
	add("K1,7", gen.CompleteMultipartite(1, 7), 2, 7, 2, 7, 1)
	add("K4,5", gen.CompleteMultipartite(4, 5), 2, 5, 2, 5, 4)
	add("K2,2,2,2,2", gen.CompleteMultipartite(2, 2, 2, 2, 2), 5, 2, 5, -1, 8)
	add("K1,2,3", gen.CompleteMultipartite(1, 2, 3), 3, 3, 3, 5, 3)
	add("flower-snark-J5", flowerSnark(5), 2, -1, 3, 4, 3)
	add("flower-snark-J3", flowerSnark(3), 3, -1, 3, 4, 3)
	add("2xPetersen", gen.Copies(gen.Kneser(5, 2), 2), 2, 8, 3, 4, 3)
	add("petersen+K1", rg.Union(gen.Kneser(5, 2), rg.New(1)), 2, 5, 3, 4, 3)
	add("C5+C4+K1", rg.Union(rg.Union(gen.Cycle(5), gen.Cycle(4)), rg.New(1)), 2, 5, 3, 3, 2)
	add("3xK3", gen.Copies(gen.Complete(3), 3), 3, 3, 3, 3, 2)
	add("K4+C5", rg.Union(gen.Complete(4), gen.Cycle(5)), 4, 3, 4, 3, 3)
	add("co-C7", gen.Cycle(7).Complement(), 3, 2, 4, -1, 4)
	add("co-petersen", gen.Kneser(5, 2).Complement(), 4, 2, 5, -1, 6)
	add("hypercube3", gen.Hypercube(3), 2, 4, 2, 3, 3)
	add("hypercube4", gen.Hypercube(4), 2, 8, 2, 4, 4)
	add("heawood", gen.Heawood(), 2, 7, 2, 3, 3)
	add("grid3x4", gen.Grid(3, 4), 2, 6, 2, 4, 2)
	add("paley13", gen.Paley(13), 3, 3, 5, -1, 6)
	add("rook3x3", gen.Rook(3, 3), 3, 3, 3, -1, 4)
	add("dodecahedron", gen.GenPetersen(10, 2), 2, 8, 3, 3, 3)
	add("gp7_2", gen.GenPetersen(7, 2), 2, -1, 3, 3, 3)
	return fs
}

// ---------------------------------------------------------------------------
// self-checks

// published histograms: number of graphs on n vertices by chromatic number
// (index = chi) and by chromatic index (index = chi'); the tables used by the
// library's own tests (OEIS A084268 / A084269-type triangles).
var chiHist = map[int][]int{
	1: {0, 1},
	2: {0, 1, 1},
	3: {0, 1, 2, 1},
	4: {0, 1, 6, 3, 1},
	5: {0, 1, 12, 16, 4, 1},
	6: {0, 1, 34, 84, 31, 5, 1},
}
var chiIdxHist = map[int][]int{
	1: {1},
	2: {1, 1},
	3: {1, 1, 1, 1},
	4: {1, 2, 3, 5},
	5: {1, 2, 5, 14, 10, 2},
	6: {1, 3, 10, 46, 58, 38},
	7: {1, 3, 15, 123, 347, 392, 159, 4},
}

func eqHist(a, b []int) bool {
	for len(a) > 0 && a[len(a)-1] == 0 {
		a = a[:len(a)-1]
	}
	for len(b) > 0 && b[len(b)-1] == 0 {
		b = b[:len(b)-1]
	}
	if len(a) != len(b) {
		return false
	}
	for i := range a {
		if a[i] != b[i] {
			return false
		}
	}
	return true
}

func init() {
	selfcheck.Add("c09: chromatic number/index histograms n<=6 (published tables)", func() error {
		for n := 1; n <= 6; n++ {
			hc := make([]int, n+2)
			hi := make([]int, n+2)
			for _, g := range gen.Classes(n) {
				b := brute.FromRG(g, n)
				hc[b.Chi()]++
				ci := edgeChromatic(g, 1<<30)
				if ci < 0 {
					return fmt.Errorf("edgeChromatic gave up on %s", g.G6())
				}
				hi[ci]++
				// the line graph route must agree where the subset DP is feasible
				if g.M() <= 12 {
					l, _ := b.LineGraph()
					if lc := l.Chi(); lc != ci {
						return fmt.Errorf("chromatic index of %s: backtracking %d, chi(line graph) %d", g.G6(), ci, lc)
					}
				}
			}
			if !eqHist(hc, chiHist[n]) {
				return fmt.Errorf("chi histogram n=%d: %v, published %v", n, hc, chiHist[n])
			}
			if !eqHist(hi, chiIdxHist[n]) {
				return fmt.Errorf("chi' histogram n=%d: %v, published %v", n, hi, chiIdxHist[n])
			}
		}
		return nil
	})
	selfcheck.Add("c09: colouring counts (partitions) vs direct backtracking; known polynomials", func() error {
		for n := 0; n <= 5; n++ {
			for _, g := range gen.Classes(n) {
				b := brute.FromRG(g, n)
				cc := colouringCounts(b, n+1)
				for k := 0; k <= n+1; k++ {
					if want := int64(b.CountColourings(k)); cc[k].Int64() != want {
						return fmt.Errorf("P(%s,%d): partitions %v, backtracking %d", g.G6(), k, cc[k], want)
					}
				}
			}
		}
		pet := brute.FromRG(gen.Kneser(5, 2), 10)
		if c := colouringCounts(pet, 3); c[3].Int64() != 120 || c[2].Int64() != 0 {
			return fmt.Errorf("Petersen: P(3)=%v (published 120), P(2)=%v", c[3], c[2])
		}
		// published chromatic polynomial of the graph used in the library's test (g6 Dhc = C5)
		c5 := []int{0, 4, -10, 10, -5, 1}
		cc := colouringCounts(brute.FromRG(gen.Cycle(5), 5), 6)
		for k := 0; k <= 6; k++ {
			if evalPoly(c5, k).Cmp(cc[k]) != 0 {
				return fmt.Errorf("C5: polynomial at %d = %v, count %v", k, evalPoly(c5, k), cc[k])
			}
		}
		return nil
	})
	selfcheck.Add("c09: degeneracy definition vs peeling; family table vs brute force", func() error {
		for n := 0; n <= 6; n++ {
			for _, g := range gen.Classes(n) {
				b := brute.FromRG(g, n)
				if a, p := degeneracyByDefinition(b), b.Degeneracy(); a != p {
					return fmt.Errorf("degeneracy of %s: definition %d, peeling %d", g.G6(), a, p)
				}
			}
		}
		for _, f := range families() {
			if f.g.N > 16 {
				continue
			}
			r := computeRef(f.g, false, true)
			chk := func(what string, pub, got int) error {
				if pub >= 0 && got >= 0 && pub != got {
					return fmt.Errorf("family %s: published %s = %d, brute force %d", f.name, what, pub, got)
				}
				return nil
			}
			for _, e := range []error{chk("omega", f.omega, r.omega), chk("alpha", f.alpha, r.alpha), chk("chi", f.chi, r.chi), chk("chi'", f.chiIdx, r.chiIdx), chk("degeneracy", f.degen, r.degen)} {
				if e != nil {
					return e
				}
			}
		}
		for _, k := range []int{3, 5} {
			g := flowerSnark(k)
			for v := 0; v < g.N; v++ {
				if g.Deg(v) != 3 {
					return fmt.Errorf("flower snark J%d is not cubic at %d", k, v)
				}
			}
			if ci := edgeChromatic(g, 1<<30); ci != 4 {
				return fmt.Errorf("flower snark J%d: chromatic index %d, published 4", k, ci)
			}
		}
		// witness checkers reject the obvious wrong witnesses
		c4 := gen.Cycle(4)
		if checkVertexColouring(c4, []int{0, 1, 0, 1}, 2, true) != "" || checkVertexColouring(c4, []int{0, 0, 1, 1}, 2, true) == "" ||
			checkVertexColouring(c4, []int{0, 1, 0, 2}, 2, false) == "" || checkVertexColouring(c4, []int{0, 1, 0, 1}, 3, true) == "" {
			return fmt.Errorf("checkVertexColouring misjudges C4")
		}
		// C4 edges in array order: 01 (idx0), 02 non-edge? C4 = circulant: 0-1,1-2,2-3,0-3
		good := make([]byte, 6)
		good[0] = 1 // 0-1
		good[2] = 2 // 1-2
		good[5] = 1 // 2-3
		good[3] = 2 // 0-3
		if p := checkEdgeColouring(c4, good, 2); p != "" {
			return fmt.Errorf("checkEdgeColouring rejects a proper colouring of C4: %s", p)
		}
		bad := append([]byte(nil), good...)
		bad[5] = 2
		if checkEdgeColouring(c4, bad, 2) == "" || checkEdgeColouring(c4, good[:5], 2) == "" || checkEdgeColouring(c4, good, 3) == "" {
			return fmt.Errorf("checkEdgeColouring accepts a wrong colouring of C4")
		}
		bad = append([]byte(nil), good...)
		bad[1] = 1
		if checkEdgeColouring(c4, bad, 2) == "" {
			return fmt.Errorf("checkEdgeColouring accepts a coloured non-edge")
		}
		if checkDegeneracyOrder(c4, []int{0, 1, 2, 3}, 2) != "" || checkDegeneracyOrder(c4, []int{0, 1, 2, 3}, 1) == "" || checkDegeneracyOrder(c4, []int{0, 1, 2, 2}, 2) == "" {
			return fmt.Errorf("checkDegeneracyOrder misjudges C4")
		}
		if cliqueProblem(c4, []int{0, 1}) != "" || cliqueProblem(c4, []int{0}) == "" || cliqueProblem(c4, []int{0, 2}) == "" {
			return fmt.Errorf("cliqueProblem misjudges C4")
		}
		return nil
	})
}

// Demonstration for C16 change 8 (Rank adds the terms from the largest element down).
//
// Run from the repository root (copy this file into a fresh directory of the module first):
//
//	mkdir -p demo8 && cp /tmp/green-out/C16/8/demo_test.go demo8/ && \
//	GOFLAGS=-mod=mod GOPROXY=off GOSUMDB=off GOTOOLCHAIN=local go test -vet=off -count=1 -timeout 300s ./demo8/ -v ; rm -rf demo8
//
// TestProperty passes before and after the change.
// TestIncidentalWhichRefusalIsReported asserts the OLD incidental behaviour (for a set that is refused for two
// reasons, the reason met first when going through the elements from the smallest up is the one reported):
// it passes on the clean tree and fails with the change (the reason belonging to the largest element is reported).
package demo8

import (
	"fmt"
	"math"
	"math/big"
	"testing"

	"github.com/Tom-Johnston/mamba/comb"
	"github.com/Tom-Johnston/mamba/itertools"
)

func rankOrPanic(c []int) (r int, p interface{}) {
	defer func() { p = recover() }()
	return comb.Rank(c), nil
}

func exactRank(c []int) *big.Int {
	r := new(big.Int)
	for i, v := range c {
		r.Add(r, new(big.Int).Binomial(int64(v), int64(i+1)))
	}
	return r
}

// The property: Rank is exact or refuses, numbers the k-subsets in the order of CombinationsColex by
// 0,1,2,..., and Unrank inverts it.
func TestProperty(t *testing.T) {
	for n := 0; n <= 12; n++ {
		for k := 0; k <= n+1; k++ {
			it := itertools.CombinationsColex(n, k)
			r := 0
			for it.Next() {
				v := it.Value()
				if got := comb.Rank(v); got != r {
					t.Fatalf("Rank(%v) = %d, it is subset number %d of CombinationsColex(%d, %d)", v, got, r, n, k)
				}
				if u := comb.Unrank(r, k); fmt.Sprint(u) != fmt.Sprint(v) {
					t.Fatalf("Unrank(%d, %d) = %v, want %v", r, k, u, v)
				}
				r++
			}
			if want := new(big.Int).Binomial(int64(n), int64(k)); k <= n && int64(r) != want.Int64() {
				t.Fatalf("CombinationsColex(%d, %d) has %d subsets", n, k, r)
			}
		}
	}
	// Exact or refuse on large sets, and a refusal whenever the rank does not fit an int.
	maxInt := big.NewInt(math.MaxInt64)
	sets := [][]int{
		{math.MaxInt64}, {0, 4294967296}, {4294967295, 4294967296}, {1 << 31, 4294967296}, {1<<31 - 1, 4294967296},
		{1<<31 + 5, 4294967296, 1 << 40}, {0, 1, 3329022}, {3329020, 3329021, 3329022}, {0, 1, 3329023},
		{5, 1000, 2000, 102570}, {1, 2, 3, 102570, 102571}, {0, 1, 2, 3, 4, 5, 6, 7, 8, 9, 10, 11, 12, 13, 14, 15, 16, 17, 80},
		{10, 20, 30, 40, 50, 60, 61, 62, 63, 64, 65, 66, 67}, {1 << 62, 1<<62 + 1}, {1 << 40, 1 << 41, 1 << 42},
	}
	for _, s := range sets {
		want := exactRank(s)
		got, p := rankOrPanic(s)
		if p != nil {
			continue // refusing is always allowed
		}
		if want.Cmp(maxInt) > 0 || int64(got) != want.Int64() {
			t.Fatalf("Rank(%v) = %d, exact value %v", s, got, want)
		}
		if len(s) < 3 {
			continue // Unrank walks up to the largest element one at a time: too slow for huge 1- and 2-sets
		}
		if u := comb.Unrank(got, len(s)); fmt.Sprint(u) != fmt.Sprint(s) {
			t.Fatalf("Unrank(Rank(%v)) = %v", s, u)
		}
	}
	for _, k := range []int{3, 4, 7, 20, 31, 32, 33, 64, 200} {
		for _, r := range []int{0, 1, 12345, 1 << 40, math.MaxInt64 - 1, math.MaxInt64} {
			u := comb.Unrank(r, k)
			if exactRank(u).Cmp(big.NewInt(int64(r))) != 0 {
				t.Fatalf("Unrank(%d, %d) = %v is not the set of that rank", r, k, u)
			}
			if got, p := rankOrPanic(u); p == nil && got != r {
				t.Fatalf("Rank(Unrank(%d, %d)) = %d", r, k, got)
			}
		}
	}
}

// Incidental: which of two applicable refusals is reported. In {2^31+5, 2^32, 2^40} the first two terms
// 2^31+5 and C(2^32, 2) = 2^63-2^31 already add up to more than MaxInt ("rank has overflowed int") and the
// third term C(2^40, 3) cannot be computed at all ("calculation overflows uint64"). Rank panics either way.
func TestIncidentalWhichRefusalIsReported(t *testing.T) {
	s := []int{1<<31 + 5, 4294967296, 1 << 40}
	_, p := rankOrPanic(s)
	t.Logf("Rank(%v) panics with %q", s, fmt.Sprint(p))
	if p == nil {
		t.Fatalf("Rank(%v) did not panic", s)
	}
	if fmt.Sprint(p) != "rank has overflowed int" {
		t.Fatalf("Rank(%v) panicked with %q, going through the elements from the smallest up gives %q", s, fmt.Sprint(p), "rank has overflowed int")
	}
}

// Demonstration for C20, change 9 (LIB flushes w when w is a *bufio.Writer and returns the error of that flush).
//
// Run (from the root of the library, after copying this file into the tsp directory):
//
//	cp demo_test.go <repo>/tsp/c20_demo_test.go
//	cd <repo> && GOFLAGS=-mod=mod GOPROXY=off GOSUMDB=off GOTOOLCHAIN=local go test -vet=off -count=1 -timeout 600s -run 'TestC20Demo' -v ./tsp
//
// TestC20DemoProperty checks the property itself, with w being (a) a plain recording writer, (b) a *bufio.Writer
// (flushed by the test afterwards, which is a no-op if LIB already did it) and (c) a real file: DIMENSION is n, the
// LOWER_DIAG_ROW section holds exactly weights(i, j) for j < i and 0 on the diagonal, row by row, then EOF; weights is
// only called with 0 <= j < i < n; a failing Write on w at every position (transient and permanent, several short
// counts) gives a non-nil error. It passes before and after the change.
// TestC20DemoIncidentalBufferedWriter pins OLD behaviour the property does not mention: after LIB(bw, ...) on a
// *bufio.Writer with a large buffer, the whole problem is still sitting in bw (Buffered() == length of the problem) and
// the writer underneath has seen no Write. It passes on the clean tree and fails with the change (Buffered() == 0, the
// writer underneath got everything in one Write).
package tsp_test

import (
	"bufio"
	"bytes"
	"errors"
	"fmt"
	"io/ioutil"
	"os"
	"strconv"
	"strings"
	"testing"

	"github.com/Tom-Johnston/mamba/tsp"
)

var errC20Injected = errors.New("c20 demo: injected write failure")

// c20Writer records what it is given and fails the Write with index failAt (0-based); short is how many bytes it
// claims to have taken on the failing Write; if permanent every later Write fails as well.
type c20Writer struct {
	buf       bytes.Buffer
	calls     int
	failAt    int
	short     int
	permanent bool
}

func (w *c20Writer) Write(p []byte) (int, error) {
	k := w.calls
	w.calls++
	if w.failAt >= 0 && (k == w.failAt || (w.permanent && k > w.failAt)) {
		s := w.short
		if s > len(p) {
			s = len(p)
		}
		w.buf.Write(p[:s])
		return s, errC20Injected
	}
	w.buf.Write(p)
	return len(p), nil
}

func c20Weights(kind int) func(i, j int) int {
	switch kind {
	case 0:
		return func(i, j int) int { return 100*j + i }
	case 1:
		return func(i, j int) int { return -(7*i - 3*j) * (i + j) }
	case 2:
		return func(i, j int) int { return (1<<62 - 1) - i*1000003 + j }
	default:
		return func(i, j int) int { return i*i - 13*j } // asymmetric in definition
	}
}

// c20Check parses out as a TSPLIB problem and compares it with n and f.
func c20Check(out string, n int, f func(i, j int) int) error {
	head := "TYPE: TSP\nDIMENSION: " + strconv.Itoa(n) + "\nDISPLAY_DATA_TYPE: NO_DISPLAY\nEDGE_WEIGHT_TYPE: EXPLICIT\nEDGE_WEIGHT_FORMAT: LOWER_DIAG_ROW\nEDGE_WEIGHT_SECTION\n"
	if !strings.HasPrefix(out, head) {
		return fmt.Errorf("bad header in %q", out)
	}
	rest := out[len(head):]
	if !strings.HasSuffix(rest, "EOF\n") {
		return fmt.Errorf("no EOF trailer")
	}
	rest = rest[:len(rest)-len("EOF\n")]
	lines := strings.Split(rest, "\n")
	if lines[len(lines)-1] != "" {
		return fmt.Errorf("weight section does not end with a newline")
	}
	lines = lines[:len(lines)-1]
	if len(lines) != n {
		return fmt.Errorf("%d rows, want %d", len(lines), n)
	}
	for i, l := range lines {
		fs := strings.Fields(l)
		if len(fs) != i+1 {
			return fmt.Errorf("row %d has %d entries", i, len(fs))
		}
		for j, s := range fs {
			v, err := strconv.Atoi(s)
			if err != nil {
				return err
			}
			want := 0
			if j < i {
				want = f(i, j)
			}
			if v != want {
				return fmt.Errorf("entry (%d,%d) = %d, want %d", i, j, v, want)
			}
		}
	}
	return nil
}

func TestC20DemoProperty(t *testing.T) {
	for _, n := range []int{0, 1, 2, 3, 5, 12, 30} {
		for kind := 0; kind < 4; kind++ {
			f := c20Weights(kind)
			guarded := func(i, j int) int {
				if !(0 <= j && j < i && i < n) {
					t.Fatalf("weights(%d, %d) called with n = %d", i, j, n)
				}
				return f(i, j)
			}
			// (a) plain writer
			w := &c20Writer{failAt: -1}
			if err := tsp.LIB(w, n, guarded); err != nil {
				t.Fatalf("n=%d: %v", n, err)
			}
			if err := c20Check(w.buf.String(), n, f); err != nil {
				t.Fatalf("n=%d kind=%d plain: %v", n, kind, err)
			}
			total := w.calls
			// (b) bufio.Writer, two buffer sizes
			for _, size := range []int{16, 1 << 20} {
				in := &c20Writer{failAt: -1}
				bw := bufio.NewWriterSize(in, size)
				if err := tsp.LIB(bw, n, guarded); err != nil {
					t.Fatalf("n=%d: %v", n, err)
				}
				if err := bw.Flush(); err != nil {
					t.Fatal(err)
				}
				if err := c20Check(in.buf.String(), n, f); err != nil {
					t.Fatalf("n=%d kind=%d bufio %d: %v", n, kind, size, err)
				}
			}
			// (c) real file
			file, err := ioutil.TempFile("", "c20demo")
			if err != nil {
				t.Fatal(err)
			}
			if err := tsp.LIB(file, n, guarded); err != nil {
				t.Fatalf("n=%d file: %v", n, err)
			}
			file.Close()
			data, _ := ioutil.ReadFile(file.Name())
			os.Remove(file.Name())
			if err := c20Check(string(data), n, f); err != nil {
				t.Fatalf("n=%d kind=%d file: %v", n, kind, err)
			}
			// failing writes at every position
			if n > 12 {
				continue
			}
			for k := 0; k < total; k++ {
				for _, permanent := range []bool{false, true} {
					for _, short := range []int{0, 1, 1 << 30} {
						fw := &c20Writer{failAt: k, short: short, permanent: permanent}
						if err := tsp.LIB(fw, n, guarded); err == nil {
							t.Fatalf("n=%d: failing Write %d (permanent=%v short=%d) gave a nil error", n, k, permanent, short)
						}
					}
				}
			}
		}
	}
	// a closed file is refused with an error
	file, err := ioutil.TempFile("", "c20demo")
	if err != nil {
		t.Fatal(err)
	}
	file.Close()
	os.Remove(file.Name())
	if err := tsp.LIB(file, 4, c20Weights(0)); err == nil {
		t.Fatal("closed file: nil error")
	}
}

func TestC20DemoIncidentalBufferedWriter(t *testing.T) {
	n := 6
	f := c20Weights(0)
	ref := &c20Writer{failAt: -1}
	if err := tsp.LIB(ref, n, f); err != nil {
		t.Fatal(err)
	}
	in := &c20Writer{failAt: -1}
	bw := bufio.NewWriterSize(in, 1<<16)
	if err := tsp.LIB(bw, n, f); err != nil {
		t.Fatal(err)
	}
	t.Logf("after LIB: bw.Buffered() = %d, Writes seen by the writer underneath = %d (problem is %d bytes)", bw.Buffered(), in.calls, ref.buf.Len())
	if bw.Buffered() != ref.buf.Len() || in.calls != 0 {
		t.Errorf("OLD behaviour gone: expected the whole problem (%d bytes) to be left in the caller's bufio.Writer and no Write underneath", ref.buf.Len())
	}
	if err := bw.Flush(); err != nil {
		t.Fatal(err)
	}
	if in.buf.String() != ref.buf.String() {
		t.Fatal("bytes differ")
	}
}

// dev-c15 links only the C15 monitor (development builds of one property).
package main

import (
	"verif/internal/cli"
	_ "verif/internal/props/c15"
)

func main() { cli.Main() }

// Demo for green change C06/5 (ComplementDense counts M and the degrees from the edges it writes and no longer asks
// the input graph for M() and Degrees()).
//
// Run (from the root of the mamba repository):
//
//	cp /tmp/green-out/C06/5/demo_test.go graph/zz_green_c06_5_demo_test.go
//	GOFLAGS=-mod=mod GOPROXY=off GOSUMDB=off GOTOOLCHAIN=local \
//	    go test -vet=off -count=1 -timeout 120s -run 'TestGreenC06_5' -v ./graph/
//	rm graph/zz_green_c06_5_demo_test.go
//
// TestGreenC06_5_Property      passes on the clean tree AND with the change: for dense, sparse and view inputs of all
//
//	small sizes ComplementDense(g) is well formed (symmetric, loop-free, M = #edges,
//	Degrees/Neighbours = adjacency, struct fields consistent) and is exactly the complement.
//
// TestGreenC06_5_OldIncidental passes on the clean tree, FAILS with the change: it pins WHICH observers of the input
//
//	graph the old implementation happened to consult (one call of M(), one of Degrees(), and
//	IsEdge(i,j) once per pair), something no documentation promises.
package graph_test

import (
	"fmt"
	"testing"

	"github.com/Tom-Johnston/mamba/graph"
	"github.com/Tom-Johnston/mamba/sortints"
)

func greenC06_5_wellFormed(g graph.Graph) error {
	n := g.N()
	m := 0
	deg := make([]int, n)
	for i := 0; i < n; i++ {
		if g.IsEdge(i, i) {
			return fmt.Errorf("loop at %d", i)
		}
		for j := 0; j < n; j++ {
			if g.IsEdge(i, j) != g.IsEdge(j, i) {
				return fmt.Errorf("not symmetric at %d,%d", i, j)
			}
			if g.IsEdge(i, j) {
				deg[i]++
				if i < j {
					m++
				}
			}
		}
	}
	if g.M() != m {
		return fmt.Errorf("M = %d but there are %d edges", g.M(), m)
	}
	d := g.Degrees()
	if len(d) != n {
		return fmt.Errorf("len(Degrees) = %d, N = %d", len(d), n)
	}
	for v := 0; v < n; v++ {
		if d[v] != deg[v] {
			return fmt.Errorf("Degrees[%d] = %d, adjacency says %d", v, d[v], deg[v])
		}
		seen := make(map[int]bool)
		nb := g.Neighbours(v)
		for _, u := range nb {
			if u < 0 || u >= n || !g.IsEdge(u, v) || seen[u] {
				return fmt.Errorf("Neighbours(%d) = %v does not match the adjacency", v, nb)
			}
			seen[u] = true
		}
		if len(nb) != deg[v] {
			return fmt.Errorf("Neighbours(%d) = %v, but the degree is %d", v, nb, deg[v])
		}
	}
	return nil
}

// greenC06_5_inputs returns a variety of well-formed input graphs: every graph on at most 5 vertices as a DenseGraph,
// and for some of them also a SparseGraph, a Complement view and an InducedSubgraph view.
func greenC06_5_inputs() []graph.Graph {
	var in []graph.Graph
	for n := 0; n <= 5; n++ {
		pairs := n * (n - 1) / 2
		for mask := 0; mask < 1<<uint(pairs); mask++ {
			edges := make([]byte, pairs)
			for k := 0; k < pairs; k++ {
				edges[k] = byte(mask >> uint(k) & 1)
			}
			d := graph.NewDense(n, edges)
			in = append(in, d)
			if mask%7 == 3 || n <= 3 {
				nbs := make([]sortints.SortedInts, n)
				for v := 0; v < n; v++ {
					nbs[v] = d.Neighbours(v)
				}
				in = append(in, graph.NewSparse(n, nbs))
				in = append(in, graph.Complement(d))
				V := make([]int, 0, n)
				for v := n - 1; v >= 0; v -= 2 {
					V = append(V, v)
				}
				in = append(in, graph.InducedSubgraph(d, V))
			}
		}
	}
	in = append(in, graph.RandomGraph(17, 0.4, 3), graph.Cycle(9), graph.CompleteGraph(8), graph.Star(1), graph.Path(2))
	return in
}

func TestGreenC06_5_Property(t *testing.T) {
	for idx, g := range greenC06_5_inputs() {
		c := graph.ComplementDense(g)
		if err := greenC06_5_wellFormed(c); err != nil {
			t.Fatalf("input %d (N=%d): ComplementDense is not well formed: %v", idx, g.N(), err)
		}
		n := g.N()
		if c.N() != n || c.NumberOfVertices != n || len(c.Edges) != n*(n-1)/2 || len(c.DegreeSequence) != n {
			t.Fatalf("input %d: wrong sizes", idx)
		}
		if c.NumberOfEdges != n*(n-1)/2-g.M() {
			t.Fatalf("input %d: M = %d, want %d", idx, c.NumberOfEdges, n*(n-1)/2-g.M())
		}
		for i := 0; i < n; i++ {
			for j := 0; j < n; j++ {
				if c.IsEdge(i, j) != (i != j && !g.IsEdge(i, j)) {
					t.Fatalf("input %d: pair %d,%d is wrong in the complement", idx, i, j)
				}
			}
		}
	}
}

// greenC06_5_counter forwards to a graph and counts how often each observer is asked.
type greenC06_5_counter struct {
	g                                      graph.Graph
	nN, nM, nIsEdge, nNeighbours, nDegrees int
}

func (c *greenC06_5_counter) N() int                 { c.nN++; return c.g.N() }
func (c *greenC06_5_counter) M() int                 { c.nM++; return c.g.M() }
func (c *greenC06_5_counter) IsEdge(i, j int) bool   { c.nIsEdge++; return c.g.IsEdge(i, j) }
func (c *greenC06_5_counter) Neighbours(v int) []int { c.nNeighbours++; return c.g.Neighbours(v) }
func (c *greenC06_5_counter) Degrees() []int         { c.nDegrees++; return c.g.Degrees() }

func TestGreenC06_5_OldIncidental(t *testing.T) {
	w := &greenC06_5_counter{g: graph.Cycle(7)}
	c := graph.ComplementDense(w)
	if err := greenC06_5_wellFormed(c); err != nil {
		t.Fatalf("not well formed: %v", err)
	}
	t.Logf("ComplementDense(C7) asked the input: N %d, M %d, IsEdge %d, Neighbours %d, Degrees %d times",
		w.nN, w.nM, w.nIsEdge, w.nNeighbours, w.nDegrees)
	if w.nIsEdge != 21 {
		t.Errorf("IsEdge was asked %d times, the old implementation asks once per pair (21)", w.nIsEdge)
	}
	if w.nM != 1 || w.nDegrees != 1 {
		t.Errorf("old implementation asks M() once and Degrees() once, got M %d, Degrees %d", w.nM, w.nDegrees)
	}
}

// Demonstration for C15 / change 3 (Combinations and CombinationsColex share one helper for their initial state; for
// k = 0 there is no state, so Value() of the one empty subset is a nil slice instead of an empty non-nil slice).
//
// Run (from the root of the library, offline):
//
//	export GOFLAGS=-mod=mod GOPROXY=off GOSUMDB=off GOTOOLCHAIN=local
//	cp /tmp/green-out/C15/3/demo_test.go itertools/zz_c15_demo3_test.go
//	go test -vet=off -count=1 -timeout 300s -run 'TestC15Demo3' -v ./itertools/
//	rm itertools/zz_c15_demo3_test.go
//
// TestC15Demo3Property checks the property itself for Combinations and CombinationsColex for all 0 <= n <= 9 and
// 0 <= k <= n+2 (every k-subset of {0, ..., n-1} once, as a strictly increasing slice, in lexicographic resp.
// colexicographic order, then exhaustion on every further call).  Slices are compared by length and contents, which is
// all that the identity of a subset depends on.  It passes on the clean tree AND with the change.
// TestC15Demo3IncidentalNil asserts the OLD encoding of the empty subset: a non-nil slice of length 0, so that
// reflect.DeepEqual(Value(), []int{}) is true.  It passes on the clean tree and FAILS with the change (Value() is a nil
// slice of length 0, the same subset).
package itertools_test

import (
	"fmt"
	"reflect"
	"testing"

	"github.com/Tom-Johnston/mamba/itertools"
)

type c15d3Iter interface {
	Next() bool
	Value() []int
}

// c15d3Subsets lists all k-subsets of {0, ..., n-1} in lexicographic order by brute force over bit masks.
func c15d3Subsets(n, k int) [][]int {
	var out [][]int
	var rec func(start int, cur []int)
	rec = func(start int, cur []int) {
		if len(cur) == k {
			c := make([]int, k)
			copy(c, cur)
			out = append(out, c)
			return
		}
		for v := start; v < n; v++ {
			rec(v+1, append(cur, v))
		}
	}
	rec(0, make([]int, 0, k))
	return out
}

// c15d3ColexLess compares two increasing slices of the same length from their largest element downwards.
func c15d3ColexLess(a, b []int) bool {
	for i := len(a) - 1; i >= 0; i-- {
		if a[i] != b[i] {
			return a[i] < b[i]
		}
	}
	return false
}

func c15d3Same(a, b []int) bool {
	if len(a) != len(b) {
		return false
	}
	for i := range a {
		if a[i] != b[i] {
			return false
		}
	}
	return true
}

func c15d3Collect(it c15d3Iter) (got [][]int, exhausted bool) {
	for it.Next() {
		v := it.Value()
		c := make([]int, len(v))
		copy(c, v)
		got = append(got, c)
	}
	exhausted = true
	for i := 0; i < 5; i++ {
		if it.Next() {
			exhausted = false
		}
	}
	return got, exhausted
}

func TestC15Demo3Property(t *testing.T) {
	for n := 0; n <= 9; n++ {
		for k := 0; k <= n+2; k++ {
			lex := c15d3Subsets(n, k)
			// Colex order: stable insertion sort of the lexicographic list by the colex comparison.
			colex := make([][]int, len(lex))
			copy(colex, lex)
			for i := 1; i < len(colex); i++ {
				for j := i; j > 0 && c15d3ColexLess(colex[j], colex[j-1]); j-- {
					colex[j], colex[j-1] = colex[j-1], colex[j]
				}
			}
			for name, tc := range map[string]struct {
				it   c15d3Iter
				want [][]int
			}{
				"Combinations":      {itertools.Combinations(n, k), lex},
				"CombinationsColex": {itertools.CombinationsColex(n, k), colex},
			} {
				got, exhausted := c15d3Collect(tc.it)
				if !exhausted {
					t.Errorf("%s(%d,%d): Next returned true after it had returned false", name, n, k)
				}
				if len(got) != len(tc.want) {
					t.Errorf("%s(%d,%d): %d subsets, want %d", name, n, k, len(got), len(tc.want))
					continue
				}
				for i := range got {
					if !c15d3Same(got[i], tc.want[i]) {
						t.Errorf("%s(%d,%d): subset %d is %v, want %v", name, n, k, i, got[i], tc.want[i])
						break
					}
				}
			}
		}
	}
}

func TestC15Demo3IncidentalNil(t *testing.T) {
	for n := 0; n <= 5; n++ {
		for name, it := range map[string]c15d3Iter{
			"Combinations":      itertools.Combinations(n, 0),
			"CombinationsColex": itertools.CombinationsColex(n, 0),
		} {
			if !it.Next() {
				t.Fatalf("%s(%d,0): no empty subset", name, n)
			}
			v := it.Value()
			desc := fmt.Sprintf("%s(%d,0).Value() = %#v", name, n, v)
			if len(v) != 0 {
				t.Fatalf("%s: not the empty subset", desc)
			}
			if v == nil || !reflect.DeepEqual(v, []int{}) {
				t.Errorf("%s: OLD behaviour was an empty NON-nil slice (reflect.DeepEqual to []int{})", desc)
			}
		}
	}
}

package c07

// buffers.go: arguments that live inside a larger buffer of the caller.
//
// The codec checks of c07.go hand every function a slice of its own
// (cap == len, nothing of the caller behind it).  Here the byte and int slices
// given to the decoders, and the slices inside the graphs given to the
// encoders, are sub-slices of larger caller-owned buffers: rows of one flat
// table, prefixes and windows of a longer sequence, records inside a stream,
// slices with one / many spare elements of capacity, three-index slices.  The
// call must return the right answer and leave the WHOLE buffer (the bytes
// before the argument, the argument, the bytes behind it up to the capacity)
// as it was.

import (
	"fmt"
	"unsafe"

	"github.com/Tom-Johnston/mamba/graph"
	"github.com/Tom-Johnston/mamba/sortints"

	"verif/internal/engine"
	"verif/internal/gen"
	"verif/internal/oracle/codec"
	"verif/internal/oracle/rg"
)

// arena is a caller-owned buffer with a snapshot.
type arena[T comparable] struct {
	name string
	back []T
	snap []T
}

func (a *arena[T]) seal() { a.snap = append([]T(nil), a.back...) }

// diff describes the first changed element relative to the argument back[lo:hi] ("" = unchanged).
func (a *arena[T]) diff(lo, hi int) (kind, text string) {
	for i := range a.back {
		if a.back[i] == a.snap[i] {
			continue
		}
		switch {
		case i < lo:
			return "caller-memory-before-the-argument-modified", fmt.Sprintf("%s: element %d (the %d. before the argument [%d:%d] of the buffer of %d) was %v, is now %v", a.name, i, lo-i, lo, hi, len(a.back), a.snap[i], a.back[i])
		case i >= hi:
			return "caller-memory-behind-the-argument-modified", fmt.Sprintf("%s: element %d (the %d. behind the argument [%d:%d], inside its spare capacity / the caller's buffer of %d) was %v, is now %v", a.name, i, i-hi+1, lo, hi, len(a.back), a.snap[i], a.back[i])
		default:
			return "argument-modified", fmt.Sprintf("%s: element %d of the argument was %v, is now %v", a.name, i-lo, a.snap[i], a.back[i])
		}
	}
	return "", ""
}

type form struct {
	name           string
	before, behind int
	clampCap       bool
}

func formsFor(l int) []form {
	return []form{
		{"a slice of its own (cap == len)", 0, 0, false},
		{"sub-slice buf[a:b] in the middle of a larger buffer", 3, 5, false},
		{"prefix buf[:k] of a longer slice", 0, 4, false},
		{"slice with exactly one spare element of capacity", 0, 1, false},
		{"three-index slice buf[a:b:b] with the caller's data behind it", 2, 3, true},
		{"sub-slice with a large spare capacity", 1, 2*l + 67, false},
	}
}

const nForms = 6

// place puts arg into a fresh buffer in the given form; fill gives the surroundings.
func place[T comparable](name string, arg []T, f form, fill func(i int) T) (*arena[T], []T, int, int) {
	total := f.before + len(arg) + f.behind
	back := make([]T, total)
	for i := range back {
		back[i] = fill(i)
	}
	lo, hi := f.before, f.before+len(arg)
	copy(back[lo:hi], arg)
	a := &arena[T]{name: name, back: back}
	a.seal()
	sub := back[lo:hi]
	if f.clampCap {
		sub = back[lo:hi:hi]
	}
	return a, sub, lo, hi
}

// fillers: what lies around the argument.
func byteFill(mode int, limit int, salt int) (string, func(int) byte) {
	switch mode % 3 {
	case 0:
		return "0xA5 around it", func(int) byte { return 0xA5 }
	case 1:
		return "zeros around it", func(int) byte { return 0 }
	}
	x := uint32(salt)*2654435761 + 99
	return "plausible data around it", func(int) byte {
		x = x*1664525 + 1013904223
		return byte(int(x>>16) % (limit + 1))
	}
}

func intFill(mode int, limit int, salt int) (string, func(int) int) {
	switch mode % 3 {
	case 0:
		return "-7 around it", func(int) int { return -7 }
	case 1:
		return "zeros around it", func(int) int { return 0 }
	}
	x := uint32(salt)*2654435761 + 99
	return "plausible data around it", func(int) int {
		x = x*1664525 + 1013904223
		if limit <= 0 {
			return 0
		}
		return int(x>>16) % limit
	}
}

func (m *mon) bufViol(api, kind, witness string, det map[string]interface{}, text string) {
	m.viol(api, kind, witness, det, text, "the caller's buffer is exactly as before the call (the argument is only read; nothing outside argument[0:len] belongs to the callee)")
}

func (m *mon) obsForm(api string, fi int) {
	m.c.Obs("buffers:"+api+":calls_with_sub-slice_arguments", 1)
	if fi > 0 {
		m.c.Obs(fmt.Sprintf("buffers:form=%d", fi), 1)
	}
}

// decodeBytesIn calls MulticodeDecode / MulticodeDecodeMultiple on arg = back[lo:hi] and judges result and buffer.
func (m *mon) decodeBytesIn(api string, a *arena[byte], sub []byte, lo, hi int, want []*rg.G, witness string, det map[string]interface{}) bool {
	c := m.c
	c.Eval(1)
	var hs []*graph.DenseGraph
	key := api + "|" + witness
	pi := c.Call(key, func() {
		if api == "MulticodeDecode" {
			hs = []*graph.DenseGraph{graph.MulticodeDecode(sub)}
		} else {
			hs = graph.MulticodeDecodeMultiple(sub)
		}
	})
	if pi != nil {
		m.viol(api, "panic|"+engine.SiteNoLine(pi.Site), witness, det, pi.String(), fmt.Sprintf("%d graph(s)", len(want)))
		return false
	}
	if len(hs) != len(want) {
		m.viol(api, "wrong-number-of-graphs", witness, det, fmt.Sprintf("%d graphs", len(hs)), fmt.Sprintf("%d graphs", len(want)))
		return false
	}
	if kind, text := a.diff(lo, hi); kind != "" {
		m.bufViol(api, kind, witness, det, text)
		return false
	}
	for i := range want {
		bad, pi := m.conforms(key+"|read-result", hs[i], want[i])
		if pi != nil {
			m.viol(api, "result-panics|"+engine.SiteNoLine(pi.Site), witness, det, pi.String(), "graph "+fmt.Sprint(i)+" readable")
			return false
		}
		if bad != "" {
			m.viol(api, "wrong-graph", witness, det, fmt.Sprintf("graph %d: %s", i, bad), want[i].String())
			return false
		}
	}
	return true
}

// pruferDecodeIn calls PruferDecode on arg = back[lo:hi].
func (m *mon) pruferDecodeIn(a *arena[int], sub []int, lo, hi int, witness string, det map[string]interface{}) bool {
	c := m.c
	c.Eval(1)
	code := append([]int(nil), a.snap[lo:hi]...) // the code as the caller wrote it
	want := treeOfCode(code)
	n := len(code) + 2
	var got *rg.G
	pi := c.Call("PruferDecode|"+witness, func() {
		h := graph.PruferDecode(sub)
		if h.N() == n {
			got = rg.FromGraph(h)
		}
	})
	switch {
	case pi != nil:
		m.viol("PruferDecode", "panic|"+engine.SiteNoLine(pi.Site), witness, det, pi.String(), "the tree of the code")
		return false
	case got == nil:
		m.viol("PruferDecode", "wrong-number-of-vertices", witness, det, "a graph on another number of vertices", fmt.Sprintf("a tree on %d vertices", n))
		return false
	}
	if kind, text := a.diff(lo, hi); kind != "" {
		m.bufViol("PruferDecode", kind, witness, det, text)
		return false
	}
	if !got.Equal(want) {
		o, e := treeDiff(got, want)
		m.viol("PruferDecode", "wrong-tree", witness, det, o, e)
		return false
	}
	return true
}

// stringDecodeIn calls Graph6Decode / Sparse6Decode on a string cut out of a larger text.
func (m *mon) stringDecodeIn(api, s string, g *rg.G, witness string, det map[string]interface{}) bool {
	c := m.c
	c.Eval(1)
	var h graph.Graph
	var err error
	pi := c.Call(api+"|"+witness, func() {
		if api == "Graph6Decode" {
			h, err = graph.Graph6Decode(s)
		} else {
			h, err = graph.Sparse6Decode(s)
		}
	})
	if pi != nil {
		m.viol(api, "panic|"+engine.SiteNoLine(pi.Site), witness, det, pi.String(), "the graph "+g.String())
		return false
	}
	if err != nil {
		m.viol(api, "error-on-valid-string", witness, det, "error: "+err.Error(), "the graph "+g.String())
		return false
	}
	bad, pi := m.conforms(api+"|"+witness+"|read-result", h, g)
	if pi != nil {
		m.viol(api, "result-panics|"+engine.SiteNoLine(pi.Site), witness, det, pi.String(), "the graph "+g.String())
		return false
	} else if bad != "" {
		m.viol(api, "wrong-graph", witness, det, bad, "the graph "+clip(g.String()))
		return false
	}
	return true
}

// decoderForms gives every decoder the encoding of x in the form fi with the surroundings filled by mode.
func (m *mon) decoderForms(x *hin, fi, mode int) {
	g := x.g
	det := graphDetail(g, x.label)
	// Multicode: one record, and a stream of records
	if g.N <= 255 {
		rec := codec.Multicode(g)
		f := formsFor(len(rec))[fi]
		fname, fill := byteFill(mode, g.N, len(rec))
		a, sub, lo, hi := place("the buffer around the Multicode record", rec, f, fill)
		w := fmt.Sprintf("%s,form=%d:%s,%s", x.gk, fi, f.name, fname)
		m.obsForm("MulticodeDecode", fi)
		m.decodeBytesIn("MulticodeDecode", a, sub, lo, hi, []*rg.G{g}, w, det)

		small := []*rg.G{rg.New(1), gen.Complete(3), rg.New(0), gen.PathG(4)}[(fi+mode)%4]
		gs := []*rg.G{g, small, g}
		var stream []byte
		for _, y := range gs {
			stream = append(stream, codec.Multicode(y)...)
		}
		f = formsFor(len(stream))[fi]
		a, sub, lo, hi = place("the buffer around the Multicode stream", stream, f, fill)
		m.obsForm("MulticodeDecodeMultiple", fi)
		m.decodeBytesIn("MulticodeDecodeMultiple", a, sub, lo, hi, gs, w+",3 records", det)
	}
	// Pruefer
	if x.tree != nil {
		f := formsFor(len(x.code))[fi]
		fname, fill := intFill(mode, g.N, len(x.code))
		a, sub, lo, hi := place("the buffer around the Pruefer code", x.code, f, fill)
		w := fmt.Sprintf("%s,form=%d:%s,%s", x.ck, fi, f.name, fname)
		m.obsForm("PruferDecode", fi)
		m.pruferDecodeIn(a, sub, lo, hi, w, map[string]interface{}{"code": runs(x.code), "form": f.name, "surroundings": fname, "buffer": clipInts(a.snap), "argument_is": fmt.Sprintf("buffer[%d:%d]", lo, hi)})
	}
	// graph6 / sparse6: the string is built from a sub-slice of a byte buffer, and is a substring of a larger text
	for _, api := range []string{"Graph6Decode", "Sparse6Decode"} {
		ref := codec.Graph6(g)
		if api == "Sparse6Decode" {
			ref = codec.Sparse6OfGraph(g)
		}
		f := formsFor(len(ref))[fi]
		fname, fill := byteFill(mode+2, 63, len(ref)) // bytes 0..63: line ends, '?', control bytes
		if mode%3 == 1 {
			fill = func(i int) byte { return "\n>>graph6<<:~?@\n"[i%16] }
			fname = "header and line-end bytes around it"
		}
		a, sub, lo, hi := place("the line buffer", []byte(ref), f, fill)
		w := fmt.Sprintf("%s,form=%d:%s,%s", x.gk, fi, f.name, fname)
		m.obsForm(api, fi)
		if m.stringDecodeIn(api, string(sub), g, w+",string(buf[a:b])", det) {
			if kind, text := a.diff(lo, hi); kind != "" {
				m.bufViol(api, kind, w, det, text)
			}
		}
		text := string(a.back)
		m.stringDecodeIn(api, text[lo:hi], g, w+",substring of a larger text", det)
	}
}

// ------------------------------------------------------------- tables

// pruferTable decodes the rows of one flat table of codes of length l, in order, each row being table[i*l:(i+1)*l].
func (m *mon) pruferTable(flat []int, l int, label string) {
	c := m.c
	a := &arena[int]{name: "the flat table of codes", back: flat[:cap(flat)]} // the spare capacity behind the last row included
	a.seal()
	rows := 1
	if l > 0 {
		rows = len(flat) / l
	}
	det := map[string]interface{}{"workload": label, "table": clipInts(a.snap), "code_length": l, "rows": rows}
	for i := 0; i < rows; i++ {
		lo, hi := i*l, (i+1)*l
		w := fmt.Sprintf("%s,row %d", label, i)
		c.Obs("buffers:PruferDecode:rows_of_a_flat_table", 1)
		m.obsForm("PruferDecode", 1)
		if !m.pruferDecodeIn(a, flat[lo:hi], lo, hi, w, det) {
			return // the table is no longer what the caller wrote
		}
	}
}

// pruferWindows decodes prefixes and windows seq[a:b] of one longer sequence (every one is a valid code).
func (m *mon) pruferWindows(seq []int, wins [][2]int, label string) {
	a := &arena[int]{name: "the sequence", back: seq[:cap(seq)]}
	a.seal()
	det := map[string]interface{}{"workload": label, "sequence": clipInts(a.snap)}
	for _, w := range wins {
		m.c.Obs("buffers:PruferDecode:prefixes_and_windows_of_a_longer_sequence", 1)
		m.obsForm("PruferDecode", 2)
		if !m.pruferDecodeIn(a, seq[w[0]:w[1]], w[0], w[1], fmt.Sprintf("%s,seq[%d:%d]", label, w[0], w[1]), det) {
			return
		}
	}
}

// multicodeStream decodes the records of one stream in place: single records stream[a:b], prefixes and windows of
// whole records through MulticodeDecodeMultiple.
func (m *mon) multicodeStream(gs []*rg.G, label string) {
	var stream []byte
	off := []int{0}
	for _, g := range gs {
		stream = append(stream, codec.Multicode(g)...)
		off = append(off, len(stream))
	}
	stream = append(stream, 0xA5, 0xA5, 0xA5)[:len(stream)] // spare capacity behind the last record
	a := &arena[byte]{name: "the stream of records", back: stream[:cap(stream)]}
	a.seal()
	det := map[string]interface{}{"workload": label, "stream": clipBytes(stream), "records": len(gs)}
	for i, g := range gs {
		m.c.Obs("buffers:MulticodeDecode:records_inside_a_stream", 1)
		m.obsForm("MulticodeDecode", 1)
		if !m.decodeBytesIn("MulticodeDecode", a, stream[off[i]:off[i+1]], off[i], off[i+1], []*rg.G{g}, fmt.Sprintf("%s,record %d", label, i), det) {
			return
		}
	}
	for i := 0; i < len(gs); i++ {
		for j := i + 1; j <= len(gs); j++ {
			if i > 0 && j < len(gs) && (i+j)%2 == 1 {
				continue
			}
			m.c.Obs("buffers:MulticodeDecodeMultiple:prefixes_and_windows_of_a_stream", 1)
			m.obsForm("MulticodeDecodeMultiple", 1)
			if !m.decodeBytesIn("MulticodeDecodeMultiple", a, stream[off[i]:off[j]], off[i], off[j], gs[i:j], fmt.Sprintf("%s,records %d..%d", label, i, j-1), det) {
				return
			}
		}
	}
}

// textFile decodes the lines of one text (graph6 or sparse6 lines) as substrings.
func (m *mon) textFile(gs []*rg.G, label string) {
	for _, api := range []string{"Graph6Decode", "Sparse6Decode"} {
		text := ""
		var at [][2]int
		for _, g := range gs {
			ref := codec.Graph6(g)
			if api == "Sparse6Decode" {
				ref = codec.Sparse6OfGraph(g)
			}
			at = append(at, [2]int{len(text), len(text) + len(ref)})
			text += ref + "\n"
		}
		for i, g := range gs {
			m.c.Obs("buffers:"+api+":lines_of_a_larger_text", 1)
			m.stringDecodeIn(api, text[at[i][0]:at[i][1]], g, fmt.Sprintf("%s,line %d", label, i), map[string]interface{}{"workload": label, "text": clip(text), "line": i})
		}
	}
}

// ------------------------------------------------ graphs inside buffers

type rowHdr struct {
	p        *int
	len, cap int
}

// graphTable holds several graphs whose slices are all cut out of shared caller-owned buffers.
type graphTable struct {
	gs     []*rg.G
	edges  *arena[byte]
	degD   *arena[int]
	flat   *arena[int]
	degS   *arena[int]
	rows   []sortints.SortedInts
	rowSn  []rowHdr
	dense  []*graph.DenseGraph
	sparse []*graph.SparseGraph
	eOff   [][2]int
	dOff   [][2]int
	fOff   [][2]int
	rOff   [][2]int
}

func buildTable(gs []*rg.G, gapOf func(i int) int, clamp bool) *graphTable {
	t := &graphTable{gs: gs}
	var eb []byte
	var dd, fl, ds []int
	nrows := 0
	type rowAt struct{ lo, hi int }
	var rowPos [][]rowAt
	for i, g := range gs {
		gap := gapOf(i)
		for k := 0; k < gap; k++ {
			eb = append(eb, 0xA5)
			dd = append(dd, -7)
			fl = append(fl, -3)
			ds = append(ds, -7)
		}
		b := g.EdgeBytes()
		for j := range b {
			if b[j] != 0 {
				b[j] = byte(1 + (i*31+j*7)%255)
			}
		}
		t.eOff = append(t.eOff, [2]int{len(eb), len(eb) + len(b)})
		eb = append(eb, b...)
		t.dOff = append(t.dOff, [2]int{len(dd), len(dd) + g.N})
		dd = append(dd, g.Degrees()...)
		t.dOff[i][1] = len(dd)
		fstart := len(fl)
		var rp []rowAt
		for v := 0; v < g.N; v++ {
			nb := g.Nbrs(v)
			rp = append(rp, rowAt{len(fl), len(fl) + len(nb)})
			fl = append(fl, nb...)
		}
		rowPos = append(rowPos, rp)
		t.fOff = append(t.fOff, [2]int{fstart, len(fl)})
		ds = append(ds, g.Degrees()...)
		t.rOff = append(t.rOff, [2]int{nrows + gap, nrows + gap + g.N})
		nrows += gap + g.N
	}
	tail := 4
	for k := 0; k < tail; k++ {
		eb = append(eb, 0xA5)
		dd = append(dd, -7)
		fl = append(fl, -3)
		ds = append(ds, -7)
	}
	nrows += tail
	// the buffers are complete: fix them and cut the slices
	eb, dd, fl, ds = append([]byte(nil), eb...), append([]int(nil), dd...), append([]int(nil), fl...), append([]int(nil), ds...)
	t.edges = &arena[byte]{name: "the buffer holding the Edges of all graphs", back: eb}
	t.degD = &arena[int]{name: "the buffer holding the DegreeSequences of the dense graphs", back: dd}
	t.flat = &arena[int]{name: "the buffer holding all neighbour lists", back: fl}
	t.degS = &arena[int]{name: "the buffer holding the DegreeSequences of the sparse graphs", back: ds}
	t.rows = make([]sortints.SortedInts, nrows)
	cut := func(lo, hi int) []int {
		if clamp {
			return fl[lo:hi:hi]
		}
		return fl[lo:hi]
	}
	for i := range t.rows { // rows that belong to no graph: the gaps
		t.rows[i] = sortints.SortedInts(fl[0:0:0])
	}
	for i, g := range gs {
		for v := 0; v < g.N; v++ {
			t.rows[t.rOff[i][0]+v] = sortints.SortedInts(cut(rowPos[i][v].lo, rowPos[i][v].hi))
		}
		e, d := t.eOff[i], t.dOff[i]
		sOff := d // the two degree buffers have the same layout
		dg := &graph.DenseGraph{NumberOfVertices: g.N, NumberOfEdges: g.M(), DegreeSequence: dd[d[0]:d[1]], Edges: eb[e[0]:e[1]]}
		sg := &graph.SparseGraph{NumberOfVertices: g.N, NumberOfEdges: g.M(), Neighbourhoods: t.rows[t.rOff[i][0]:t.rOff[i][1]], DegreeSequence: ds[sOff[0]:sOff[1]]}
		if clamp {
			dg.DegreeSequence, dg.Edges = dd[d[0]:d[1]:d[1]], eb[e[0]:e[1]:e[1]]
			sg.Neighbourhoods, sg.DegreeSequence = t.rows[t.rOff[i][0]:t.rOff[i][1]:t.rOff[i][1]], ds[sOff[0]:sOff[1]:sOff[1]]
		}
		t.dense = append(t.dense, dg)
		t.sparse = append(t.sparse, sg)
	}
	t.edges.seal()
	t.degD.seal()
	t.flat.seal()
	t.degS.seal()
	for _, r := range t.rows {
		t.rowSn = append(t.rowSn, rowHdr{unsafe.SliceData([]int(r)), len(r), cap(r)})
	}
	return t
}

// check compares all buffers with their snapshots; i is the graph that was the argument of the call.
func (t *graphTable) check(i int, sparse bool) (kind, text string) {
	g := t.gs[i]
	if sparse {
		if k, x := t.flat.diff(t.fOff[i][0], t.fOff[i][1]); k != "" {
			return k, x
		}
		if k, x := t.degS.diff(t.dOff[i][0], t.dOff[i][1]); k != "" {
			return k, x
		}
		for j, r := range t.rows {
			if h := (rowHdr{unsafe.SliceData([]int(r)), len(r), cap(r)}); h != t.rowSn[j] {
				where := "argument-modified"
				if j < t.rOff[i][0] {
					where = "caller-memory-before-the-argument-modified"
				} else if j >= t.rOff[i][1] {
					where = "caller-memory-behind-the-argument-modified"
				}
				return where, fmt.Sprintf("the buffer of neighbour-list headers: entry %d (the graph's Neighbourhoods are entries [%d:%d]) had len %d cap %d, now len %d cap %d (same memory: %v)", j, t.rOff[i][0], t.rOff[i][1], t.rowSn[j].len, t.rowSn[j].cap, h.len, h.cap, h.p == t.rowSn[j].p)
			}
		}
		if s := t.sparse[i]; s.NumberOfVertices != g.N || s.NumberOfEdges != g.M() || len(s.Neighbourhoods) != g.N || len(s.DegreeSequence) != g.N {
			return "argument-modified", "the fields of the SparseGraph struct changed"
		}
		return "", ""
	}
	if k, x := t.edges.diff(t.eOff[i][0], t.eOff[i][1]); k != "" {
		return k, x
	}
	if k, x := t.degD.diff(t.dOff[i][0], t.dOff[i][1]); k != "" {
		return k, x
	}
	if d := t.dense[i]; d.NumberOfVertices != g.N || d.NumberOfEdges != g.M() || len(d.Edges) != g.N*(g.N-1)/2 || len(d.DegreeSequence) != g.N {
		return "argument-modified", "the fields of the DenseGraph struct changed"
	}
	return "", ""
}

// encodersOnTable calls every encoder on every graph of the table, in both representations.
func (m *mon) encodersOnTable(gs []*rg.G, label string, gapOf func(int) int, clamp bool) {
	c := m.c
	t := buildTable(gs, gapOf, clamp)
	names := ""
	for i, g := range gs {
		if i > 0 {
			names += "+"
		}
		if g.N <= 8 {
			names += codec.Graph6(g)
		} else {
			names += fmt.Sprintf("n%d.%08x", g.N, hash32(g.Key()))
		}
	}
	if len(names) > 80 {
		names = fmt.Sprintf("%s...(%d graphs,fnv=%08x)", names[:40], len(gs), hash32(names))
	}
	c.Obs("buffers:tables_of_graphs", 1)
	for i, g := range gs {
		var code []int
		if g.N >= 2 && codec.IsTree(g) {
			code = codec.PruferCode(g)
		}
		for rep := 0; rep < 2; rep++ {
			var h graph.Graph = t.dense[i]
			rn := "DenseGraph"
			if rep == 1 {
				h, rn = t.sparse[i], "SparseGraph"
			}
			w := fmt.Sprintf("%s,graph %d of the table %s (%s)", rn, i, names, label)
			det := map[string]interface{}{"workload": label, "table": names, "argument": graphDetail(g, label), "representation": rn + " whose slices are sub-slices of buffers shared by all graphs of the table", "three_index_slices": clamp}
			for _, api := range []string{"Graph6Encode", "Sparse6Encode", "MulticodeEncode", "PruferEncode"} {
				if (api == "MulticodeEncode" && g.N > 255) || (api == "PruferEncode" && code == nil) {
					continue
				}
				c.Eval(1)
				c.Obs("buffers:"+api+":graphs_whose_slices_are_sub-slices_of_shared_buffers", 1)
				var s string
				var b []byte
				var pc []int
				pi := c.Call(api+"|"+w, func() {
					switch api {
					case "Graph6Encode":
						s = graph.Graph6Encode(h)
					case "Sparse6Encode":
						s = graph.Sparse6Encode(h)
					case "MulticodeEncode":
						b = graph.MulticodeEncode(h)
					default:
						pc = graph.PruferEncode(h)
					}
				})
				if pi != nil {
					m.viol(api, "panic|"+engine.SiteNoLine(pi.Site), w, det, pi.String(), "the encoding")
					return
				}
				if kind, text := t.check(i, rep == 1); kind != "" {
					m.bufViol(api, kind, w, det, text)
					return
				}
				switch api {
				case "Graph6Encode":
					if ref := codec.Graph6(g); s != ref {
						m.viol(api, "not-the-graph6-string", w, det, clip(s), clip(ref)+" (formats.txt)")
						return
					}
				case "Sparse6Encode":
					if sc, err := codec.Sparse6Scan(s, 1<<20); err != nil || int(sc.N) != g.N || sc.Loops != 0 || sc.Repeats != 0 || !sc.Graph().Equal(g) {
						m.viol(api, "string-is-another-graph", w, det, clip(s), "a string that reads as "+clip(g.String()))
						return
					}
				case "MulticodeEncode":
					if back, rest, err := codec.MulticodeParse(b); err != nil || len(rest) != 0 || !back.Equal(g) {
						m.viol(api, "wrong-bytes", w, det, clipBytes(b), clipBytes(codec.Multicode(g)))
						return
					}
				default:
					if fmt.Sprint(pc) != fmt.Sprint(code) {
						m.viol(api, "wrong-code", w, det, runs(pc), runs(code))
						return
					}
				}
			}
		}
	}
}

// --------------------------------------------------------------- units

func allCodesFlat(n int) []int {
	l := n - 2
	total := 1
	for i := 0; i < l; i++ {
		total *= n
	}
	flat := make([]int, 0, total*l+3)
	for x := 0; x < total; x++ {
		y := x
		row := make([]int, l)
		for i := l - 1; i >= 0; i-- {
			row[i] = y % n
			y /= n
		}
		flat = append(flat, row...)
	}
	return flat
}

func bufferUnits(c *engine.Ctx) {
	// every form x every kind of surroundings on all labelled graphs n <= 4 and some larger fixed graphs
	unit(c, "buffers/decoders/forms", func(m *mon) {
		cnt := 0
		for n := 0; n <= 4; n++ {
			gen.AllLabelled(n, 0, 1, func(mask uint64, g *rg.G) {
				x := newHin(g.Copy(), "all labelled graphs")
				for fi := 0; fi < nForms; fi++ {
					m.decoderForms(x, fi, int(mask)+fi)
					cnt++
				}
			})
		}
		for i, n := range []int{5, 6, 7, 9, 12, 17, 31, 32, 33, 62, 63, 64, 100, 255} {
			for k, g := range []*rg.G{pathOn(n), genRandom(fixedRng(n), n, 0.3), rg.New(n)} {
				x := newHin(g, fmt.Sprintf("fixed graph %d on %d vertices", k, n))
				for fi := 0; fi < nForms; fi++ {
					for mode := 0; mode < 3; mode++ {
						if n > 33 && (fi+mode+i+k)%3 != 0 {
							continue
						}
						m.decoderForms(x, fi, mode)
						cnt++
					}
				}
			}
		}
		c.Obs("buffers:decoder_form_cases", cnt)
		c.Obs("exhaustive:all labelled graphs on n<=4 vertices x 6 argument forms (own slice, middle of a buffer, prefix, one spare element, three-index, large spare capacity) for all five decoders", 1)
		c.Sample("buffers", map[string]interface{}{"forms": []string{formsFor(0)[1].name, formsFor(0)[2].name, formsFor(0)[3].name, formsFor(0)[4].name, formsFor(0)[5].name}, "judged": "result, argument and every element of the caller's buffer before / behind the argument"})
	})
	// flat tables of all Pruefer codes, prefixes and windows
	unit(c, "buffers/prufer/tables", func(m *mon) {
		maxN := c.Pick(5, 6)
		for n := 2; n <= maxN; n++ {
			m.pruferTable(allCodesFlat(n), n-2, fmt.Sprintf("all codes of trees on %d vertices in one flat table", n))
			// the same table with the rows in reverse order
			flat := allCodesFlat(n)
			l := n - 2
			if l > 0 {
				rows := len(flat) / l
				rev := make([]int, 0, len(flat)+1)
				for i := rows - 1; i >= 0; i-- {
					rev = append(rev, flat[i*l:(i+1)*l]...)
				}
				m.pruferTable(rev, l, fmt.Sprintf("all codes of trees on %d vertices in one flat table, descending", n))
			}
		}
		c.Obs("exhaustive:all Pruefer codes for n<=5 (6 in thorough) decoded as rows of one flat table", 1)
		// prefixes: seq[i] <= i+2 makes every prefix a code; windows: entries in 0..2 make every window a code
		for k := 0; k < 6; k++ {
			r := fixedRng(700 + k)
			L := 10 + 7*k
			seq := make([]int, L, L+k%3)
			for i := range seq {
				seq[i] = int(r.Float() * float64(i+3))
			}
			var wins [][2]int
			for e := 0; e <= L; e++ {
				wins = append(wins, [2]int{0, e})
			}
			if k%2 == 1 { // longest first
				for i, j := 0, len(wins)-1; i < j; i, j = i+1, j-1 {
					wins[i], wins[j] = wins[j], wins[i]
				}
			}
			m.pruferWindows(seq, wins, fmt.Sprintf("prefixes of fixed sequence %d", k))
			seq2 := make([]int, L)
			for i := range seq2 {
				seq2[i] = int(r.Float() * 3)
			}
			wins = nil
			for a := 0; a < L; a += 1 + k%3 {
				for b := a + 1; b <= L; b += 2 + k {
					wins = append(wins, [2]int{a, b})
				}
			}
			m.pruferWindows(seq2, wins, fmt.Sprintf("windows of fixed sequence %d over 0..2", k))
		}
	})
	// seeded: graphs of all sizes through the decoder forms, streams, text files, graph tables
	nb := c.Pick(360, 6000)
	per := 60
	for u := 0; u*per < nb; u++ {
		u := u
		unit(c, fmt.Sprintf("buffers/seeded/%d", u), func(m *mon) {
			for i := u * per; i < (u+1)*per && i < nb; i++ {
				r := c.Rand("buffers", i)
				maxN := 70
				if i%6 == 0 {
					maxN = 255
				}
				switch i % 3 {
				case 0:
					x := seededInput(r, i, maxN)
					m.decoderForms(x, 1+r.Intn(nForms-1), r.Intn(3))
					m.decoderForms(x, 1+r.Intn(nForms-1), r.Intn(3))
				case 1:
					k := 2 + r.Intn(5)
					var gs []*rg.G
					for j := 0; j < k; j++ {
						gs = append(gs, seededInput(r, i*10+j, maxN).g)
					}
					label := fmt.Sprintf("seeded table #%d", i)
					m.multicodeStream(gs, label)
					m.textFile(gs, label)
					// seeded table of codes of one length
					l := r.Intn(12)
					rows := 2 + r.Intn(6)
					flat := make([]int, rows*l, rows*l+r.Intn(3))
					for j := range flat {
						flat[j] = r.Intn(l + 2)
					}
					m.pruferTable(flat, l, fmt.Sprintf("seeded table #%d of %d codes of length %d", i, rows, l))
				default:
					k := 2 + r.Intn(4)
					var gs []*rg.G
					for j := 0; j < k; j++ {
						gs = append(gs, seededInput(r, i*10+j, maxN).g)
					}
					gaps := r.Perm(k + 3)
					zero := r.Bool(0.5)
					m.encodersOnTable(gs, fmt.Sprintf("seeded table #%d", i), func(j int) int {
						if zero {
							return 0
						}
						return gaps[j] % 3
					}, r.Bool(0.25))
				}
			}
		})
	}
	// fixed tables of graphs: the small pool, adjacent and with gaps
	unit(c, "buffers/encoders/pool", func(m *mon) {
		var gs []*rg.G
		for _, x := range smallPool() {
			gs = append(gs, x.g)
		}
		m.encodersOnTable(gs, "the small pool, adjacent", func(int) int { return 0 }, false)
		m.encodersOnTable(gs, "the small pool, gaps", func(j int) int { return j % 3 }, false)
		m.encodersOnTable(gs, "the small pool, three-index slices", func(j int) int { return 0 }, true)
		var trees []*rg.G
		for _, n := range []int{2, 3, 4, 6, 9, 20, 64, 130, 5, 2} {
			trees = append(trees, genTree(fixedRng(n), n))
		}
		m.encodersOnTable(trees, "fixed trees, adjacent", func(int) int { return 0 }, false)
		m.multicodeStream(gs, "the small pool")
		m.textFile(gs, "the small pool")
	})
}

// Demonstration for C13 change 3 (NewPatternSearcher copies the pattern instead of keeping the caller's slice).
//
// Copy to dawg/demo_test.go in the library and run:
//
//	GOFLAGS=-mod=mod GOPROXY=off GOSUMDB=off GOTOOLCHAIN=local \
//	  go test -vet=off -count=1 -timeout 600s -run 'TestDemoC13' -v ./dawg/
//
// TestDemoC13Property checks the property itself (exactly the matching words, lexicographic order, ranks,
// conjunction of several searchers, repeatability with the same searcher objects, Dawg unchanged) and passes on the
// clean tree and with the change.
// TestDemoC13IncidentalOld asserts the OLD incidental behaviour (the searcher keeps a reference to the caller's
// pattern slice, so overwriting that slice after NewPatternSearcher retargets the searcher): it passes on the clean
// tree and fails with the change.
package dawg_test

import (
	"bytes"
	"fmt"
	"sort"
	"testing"

	"github.com/Tom-Johnston/mamba/dawg"
)

var demoWords = []string{"", "a", "ab", "abc", "b", "ba", "bab", "bat", "bit", "but", "cab", "cat", "cot", "cut", "opts", "post", "pots", "spot", "stop", "tops", "z", "z?", "\x00\xff"}

func demoDawg(t *testing.T) (*dawg.Dawg, [][]byte) {
	ws := make([][]byte, len(demoWords))
	for i, w := range demoWords {
		ws[i] = []byte(w)
	}
	sort.Slice(ws, func(i, j int) bool { return bytes.Compare(ws[i], ws[j]) < 0 })
	d, err := dawg.New(ws)
	if err != nil {
		t.Fatal(err)
	}
	return d, ws
}

func matchPattern(w, pat []byte, blank byte) bool {
	if len(w) != len(pat) {
		return false
	}
	for i := range w {
		if pat[i] != blank && pat[i] != w[i] {
			return false
		}
	}
	return true
}

func matchAnagram(w, ana []byte, blank byte) bool {
	if len(w) != len(ana) {
		return false
	}
	var cnt [256]int
	blanks := 0
	for _, c := range ana {
		if c == blank {
			blanks++
		} else {
			cnt[c]++
		}
	}
	for _, c := range w {
		if cnt[c] > 0 {
			cnt[c]--
		} else {
			blanks--
		}
	}
	return blanks >= 0
}

type query struct {
	anagram bool
	text    string
	blank   byte
}

func (q query) matches(w []byte) bool {
	if q.anagram {
		return matchAnagram(w, []byte(q.text), q.blank)
	}
	return matchPattern(w, []byte(q.text), q.blank)
}

func (q query) searcher() dawg.Searcher {
	if q.anagram {
		return dawg.NewAnagramSearcher([]byte(q.text), q.blank)
	}
	return dawg.NewPatternSearcher([]byte(q.text), q.blank)
}

var demoQueries = []query{
	{false, "", '?'}, {false, "?", '?'}, {false, "??", '?'}, {false, "???", '?'}, {false, "????", '?'}, {false, "?????", '?'},
	{false, "c?t", '?'}, {false, "b?t", '?'}, {false, "?a?", '?'}, {false, "?o??", '?'}, {false, "z?", '?'}, {false, "z?", '*'},
	{false, "q??", '?'}, {false, "ab", '?'}, {false, "abc", '?'}, {false, "abcd", '?'}, {false, "\x00?", '?'}, {false, "aaa", 'a'},
	{true, "", '?'}, {true, "a", '?'}, {true, "ba", '?'}, {true, "tac", '?'}, {true, "stop", '?'}, {true, "st?p", '?'},
	{true, "??", '?'}, {true, "???", '?'}, {true, "????", '?'}, {true, "bab", '?'}, {true, "abb", '?'}, {true, "bba", '?'},
	{true, "b?b", '?'}, {true, "t?b", '?'}, {true, "?z", '*'}, {true, "?z", '?'}, {true, "qqq", '?'}, {true, "\xff\x00", '?'},
}

func expect(ws [][]byte, qs ...query) (words []string, ids []int) {
	for i, w := range ws {
		ok := true
		for _, q := range qs {
			if !q.matches(w) {
				ok = false
			}
		}
		if ok {
			words = append(words, string(w))
			ids = append(ids, i)
		}
	}
	return
}

func got(d *dawg.Dawg, ss ...dawg.Searcher) (words []string, ids []int) {
	solns, ids := d.Search(ss...)
	for _, s := range solns {
		words = append(words, string(s))
	}
	return words, append([]int(nil), ids...)
}

func same(t *testing.T, what string, gw []string, gi []int, ew []string, ei []int) {
	t.Helper()
	if fmt.Sprintf("%q", gw) != fmt.Sprintf("%q", ew) || fmt.Sprint(gi) != fmt.Sprint(ei) {
		t.Errorf("%s: got %q %v, want %q %v", what, gw, gi, ew, ei)
	}
}

func TestDemoC13Property(t *testing.T) {
	d, ws := demoDawg(t)
	before, err := d.GobEncode()
	if err != nil {
		t.Fatal(err)
	}
	// no searcher: every word
	gw, gi := got(d)
	ew, ei := expect(ws)
	same(t, "no searcher", gw, gi, ew, ei)
	for _, q := range demoQueries {
		s := q.searcher()
		ew, ei := expect(ws, q)
		gw, gi := got(d, s)
		same(t, fmt.Sprintf("%+v", q), gw, gi, ew, ei)
		gw, gi = got(d, s) // the same searcher object again
		same(t, fmt.Sprintf("%+v repeated", q), gw, gi, ew, ei)
		for _, q2 := range demoQueries {
			s2 := q2.searcher()
			ew, ei := expect(ws, q, q2)
			gw, gi := got(d, s, s2)
			same(t, fmt.Sprintf("%+v & %+v", q, q2), gw, gi, ew, ei)
			gw, gi = got(d, s2, s)
			same(t, fmt.Sprintf("%+v & %+v", q2, q), gw, gi, ew, ei)
		}
		// s has been through many searches by now and must still behave like a fresh one
		gw, gi = got(d, s)
		same(t, fmt.Sprintf("%+v at the end", q), gw, gi, ew, ei)
	}
	after, err := d.GobEncode()
	if err != nil {
		t.Fatal(err)
	}
	if !bytes.Equal(before, after) {
		t.Errorf("the Dawg changed")
	}
	if d.NumberOfWords() != len(ws) {
		t.Errorf("NumberOfWords changed")
	}
}

// The pattern handed to NewPatternSearcher is a buffer of the caller. OLD behaviour: the searcher refers to that very
// buffer, so writing to the buffer later changes what the searcher looks for.
func TestDemoC13IncidentalOld(t *testing.T) {
	d, ws := demoDawg(t)
	buf := []byte("c?t")
	s := dawg.NewPatternSearcher(buf, '?')
	gw, gi := got(d, s)
	ew, ei := expect(ws, query{false, "c?t", '?'})
	same(t, "c?t (property, both trees)", gw, gi, ew, ei)

	buf[0] = 'b' // the caller reuses its buffer
	gw, gi = got(d, s)
	t.Logf("after overwriting the caller's buffer with %q the searcher finds %q %v", buf, gw, gi)
	ew, ei = expect(ws, query{false, "b?t", '?'})
	same(t, "OLD: searcher follows the caller's buffer (b?t)", gw, gi, ew, ei)
}

// Demonstration for C14, change 4 (GobEncode lists the nodes once, computes the exact size and allocates its output once).
//
// Run (from the root of the library, after copying this file into the dawg directory):
//
//	cp demo_test.go <repo>/dawg/c14_demo_test.go
//	cd <repo> && GOFLAGS=-mod=mod GOPROXY=off GOSUMDB=off GOTOOLCHAIN=local go test -vet=off -count=1 -timeout 600s -run 'TestC14Demo' -v ./dawg
//
// TestC14DemoProperty checks the property itself (round trip directly and through encoding/gob, also into a receiver
// that already holds another dawg, stable re-encoding) and passes before and after the change.
// TestC14DemoBytesUnchanged pins the bytes of three small encodings; it passes before and after the change too (this
// change does not touch the format).
// TestC14DemoIncidentalCapacity pins the OLD allocation of the output of GobEncode: a slice of capacity
// 8 + 9*nodes + 9*edges (the upper bound the old code reserved), of which only len bytes are used.  With the change the
// slice is allocated with exactly the size of the encoding (cap == len), so this test passes on the clean tree and
// fails with the change.  It also logs the allocations per call, which differ as well (e.g. 37 -> 7 for a node with 200 links).
package dawg_test

import (
	"bytes"
	"encoding/gob"
	"fmt"
	"sort"
	"testing"

	"github.com/Tom-Johnston/mamba/dawg"
)

func c14Sorted(ws [][]byte) [][]byte {
	sort.Slice(ws, func(i, j int) bool { return bytes.Compare(ws[i], ws[j]) < 0 })
	return ws
}

// c14WordSets returns word sets with wide branching (up to 256 links per node) and with word and node counts on both
// sides of 127.
func c14WordSets() map[string][][]byte {
	sets := map[string][][]byte{}
	sets["empty"] = nil
	sets["emptyword"] = [][]byte{{}}
	for _, k := range []int{1, 127, 128, 129, 200, 256} {
		var ws [][]byte
		for b := 0; b < k; b++ {
			ws = append(ws, []byte{byte(b)})
		}
		sets[fmt.Sprintf("fan%d", k)] = ws
	}
	//256 children at the root and below them a chain of 150 nodes, every one final: more than 127 nodes.
	var ws [][]byte
	for b := 0; b < 256; b++ {
		ws = append(ws, []byte{byte(b)})
	}
	for k := 1; k <= 150; k++ {
		ws = append(ws, append([]byte{0xff}, bytes.Repeat([]byte{'a'}, k)...))
	}
	sets["fan256chain150"] = c14Sorted(ws)
	//Two levels of wide branching with different subtrees.
	ws = nil
	for a := 0; a < 130; a++ {
		for b := 0; b <= a; b += 7 {
			ws = append(ws, []byte{byte(a + 100), byte(b * 2)})
		}
	}
	sets["twolevel"] = c14Sorted(ws)
	return sets
}

func c14Same(t *testing.T, name string, words [][]byte, d, e *dawg.Dawg) {
	t.Helper()
	if d.NumberOfWords() != len(words) || e.NumberOfWords() != len(words) {
		t.Fatalf("%s: word count %d / %d, want %d", name, d.NumberOfWords(), e.NumberOfWords(), len(words))
	}
	sd, id := d.Search()
	se, ie := e.Search()
	if len(sd) != len(words) || len(se) != len(words) {
		t.Fatalf("%s: Search() lists %d / %d words, want %d", name, len(sd), len(se), len(words))
	}
	for i := range words {
		if !bytes.Equal(sd[i], words[i]) || !bytes.Equal(se[i], words[i]) || id[i] != i || ie[i] != i {
			t.Fatalf("%s: word %d differs after the round trip", name, i)
		}
		rd, okd := d.Lookup(words[i])
		re, oke := e.Lookup(words[i])
		if !okd || !oke || rd != i || re != i {
			t.Fatalf("%s: rank of word %d: %d,%v / %d,%v", name, i, rd, okd, re, oke)
		}
		if _, ok := e.Lookup(append(append([]byte{}, words[i]...), 0xfe, 0x01)); ok {
			t.Fatalf("%s: a non-word is accepted after the round trip", name)
		}
	}
	for _, pat := range [][]byte{{'?'}, {'?', '?'}, {0xff, '?'}, {'?', 0}, {0xff, 'a', 'a', '?'}} {
		pd, pid := d.Search(dawg.NewPatternSearcher(pat, '?'))
		pe, pie := e.Search(dawg.NewPatternSearcher(pat, '?'))
		if fmt.Sprint(pd, pid) != fmt.Sprint(pe, pie) {
			t.Fatalf("%s: pattern %q gives different results after the round trip", name, pat)
		}
	}
}

func TestC14DemoProperty(t *testing.T) {
	//reused is a receiver that always holds the previously decoded dawg already.
	reused := new(dawg.Dawg)
	for name, words := range c14WordSets() {
		d, err := dawg.New(words)
		if err != nil {
			t.Fatal(name, err)
		}
		enc, err := d.GobEncode()
		if err != nil {
			t.Fatal(name, err)
		}
		//Directly.
		e := new(dawg.Dawg)
		if err := e.GobDecode(append([]byte{}, enc...)); err != nil {
			t.Fatalf("%s: GobDecode: %v", name, err)
		}
		c14Same(t, name, words, d, e)
		enc2, err := e.GobEncode()
		if err != nil || !bytes.Equal(enc, enc2) {
			t.Fatalf("%s: encoding the decoded dawg again gives other bytes (err %v)", name, err)
		}
		//Directly, into a receiver which is in use.
		if err := reused.GobDecode(append([]byte{}, enc...)); err != nil {
			t.Fatalf("%s: GobDecode (reused receiver): %v", name, err)
		}
		c14Same(t, name+"/reused", words, d, reused)
		enc4, err := reused.GobEncode()
		if err != nil || !bytes.Equal(enc, enc4) {
			t.Fatalf("%s: encoding the dawg decoded into a used receiver gives other bytes (err %v)", name, err)
		}
		//Through encoding/gob.
		var buf bytes.Buffer
		if err := gob.NewEncoder(&buf).Encode(d); err != nil {
			t.Fatal(name, err)
		}
		g := new(dawg.Dawg)
		if err := gob.NewDecoder(&buf).Decode(g); err != nil {
			t.Fatalf("%s: gob: %v", name, err)
		}
		c14Same(t, name+"/gob", words, d, g)
		enc3, err := g.GobEncode()
		if err != nil || !bytes.Equal(enc, enc3) {
			t.Fatalf("%s: encoding the gob-decoded dawg again gives other bytes (err %v)", name, err)
		}
	}
}

func c14Encode(t *testing.T, words [][]byte) []byte {
	t.Helper()
	d, err := dawg.New(words)
	if err != nil {
		t.Fatal(err)
	}
	enc, err := d.GobEncode()
	if err != nil {
		t.Fatal(err)
	}
	return enc
}

func TestC14DemoBytesUnchanged(t *testing.T) {
	if enc, want := c14Encode(t, nil), []byte{1, 0, 0, 0, 0, 0}; !bytes.Equal(enc, want) {
		t.Errorf("empty: % x, want % x", enc, want)
	}
	if enc, want := c14Encode(t, [][]byte{[]byte("a"), []byte("b")}), []byte{2, 0, 1, 0, 2, 0, 2, 'a', 1, 'b', 1, 1, 1, 1, 0}; !bytes.Equal(enc, want) {
		t.Errorf("a,b: % x, want % x", enc, want)
	}
	enc := c14Encode(t, c14WordSets()["fan200"])
	if want := []byte{2, 0, 1, 0, 0x81, 0xc8, 0, 0x81, 0xc8, 0, 1, 1, 1}; !bytes.HasPrefix(enc, want) || len(enc) != 9+2*200+4 {
		t.Errorf("fan200: % x ... (%d bytes), want % x ... (%d bytes)", enc[:len(want)], len(enc), want, 9+2*200+4)
	}
}

func TestC14DemoIncidentalCapacity(t *testing.T) {
	cases := []struct {
		name         string
		words        [][]byte
		nodes, edges int
	}{
		{"empty", nil, 1, 0},
		{"a,b", [][]byte{[]byte("a"), []byte("b")}, 2, 2},
		{"fan200", c14WordSets()["fan200"], 2, 200},
		{"fan256chain150", c14WordSets()["fan256chain150"], 152, 256 + 150},
	}
	for _, c := range cases {
		d, err := dawg.New(c.words)
		if err != nil {
			t.Fatal(err)
		}
		enc, err := d.GobEncode()
		if err != nil {
			t.Fatal(err)
		}
		allocs := testing.AllocsPerRun(20, func() { d.GobEncode() })
		old := 8 + 9*c.nodes + 9*c.edges
		t.Logf("%s: len %d, cap %d (old reservation %d), %.0f allocations per call", c.name, len(enc), cap(enc), old, allocs)
		if cap(enc) != old {
			t.Errorf("%s: cap(GobEncode()) = %d, OLD behaviour is the reservation 8+9*nodes+9*edges = %d", c.name, cap(enc), old)
		}
	}
}

// Demo for C16 change 4 (Unrank is a wrapper around a new append-style UnrankAppend; the result slice comes from
// append instead of make).
//
// Run (from the root of the mamba worktree, offline):
//
//	export GOFLAGS=-mod=mod GOPROXY=off GOSUMDB=off GOTOOLCHAIN=local
//	cp /tmp/green-out/C16/4/demo_test.go comb/c16_demo_test.go
//	go test -vet=off -count=1 -timeout 120s -run 'TestC16Demo' -v ./comb/ ; rm comb/c16_demo_test.go
//
// TestC16DemoProperty checks the property itself on the demo inputs: Rank and Unrank are inverse to each other and
// agree with the order of CombinationsColex for all n <= 10 and all k (k = 0 included, the sets compared as
// sequences: same length, same elements), Unrank of large ranks (up to MaxInt) gives a strictly increasing set of
// naturals whose colex rank computed with math/big is the rank asked for, and KneserGraph (the caller that was
// moved to UnrankAppend) still builds the Petersen graph.  PASSES before and after the change.
// TestC16DemoIncidentalOldBehaviour asserts the OLD incidental behaviour: the empty set is returned as a non-nil
// empty slice (so reflect.DeepEqual(Unrank(0,0), []int{}) is true) and the capacity of the result is exactly k.
// PASSES on the clean tree, FAILS with the change (Unrank(0,0) is a nil slice; cap(Unrank(r,5)) is 6, ...).
package comb_test

import (
	"math"
	"math/big"
	"reflect"
	"testing"

	"github.com/Tom-Johnston/mamba/comb"
	"github.com/Tom-Johnston/mamba/graph"
	"github.com/Tom-Johnston/mamba/itertools"
)

func c16SameSeq(a, b []int) bool {
	if len(a) != len(b) {
		return false
	}
	for i := range a {
		if a[i] != b[i] {
			return false
		}
	}
	return true
}

func TestC16DemoProperty(t *testing.T) {
	for n := 0; n <= 10; n++ {
		for k := 0; k <= n+1; k++ {
			it := itertools.CombinationsColex(n, k)
			idx := 0
			for it.Next() {
				v := it.Value()
				if r := comb.Rank(v); r != idx {
					t.Fatalf("Rank(%v) = %d, want %d", v, r, idx)
				}
				u := comb.Unrank(idx, k)
				if !c16SameSeq(u, v) {
					t.Fatalf("Unrank(%d,%d) = %v, want %v", idx, k, u, v)
				}
				if r := comb.Rank(u); r != idx {
					t.Fatalf("Rank(Unrank(%d,%d)) = %d", idx, k, r)
				}
				idx++
			}
			if idx != comb.Coeff(n, k) {
				t.Fatalf("CombinationsColex(%d,%d) gave %d sets, want %d", n, k, idx, comb.Coeff(n, k))
			}
		}
	}
	//Large ranks: the result is a strictly increasing set of naturals with the right colex rank.
	ranks := []int{0, 1, 2, 1000, 1 << 31, 1<<40 + 12345, 1333313333400026, 1 << 62, math.MaxInt64 - 1, math.MaxInt64}
	for _, r := range ranks {
		for k := 3; k <= 40; k++ {
			u := comb.Unrank(r, k)
			if len(u) != k {
				t.Fatalf("Unrank(%d,%d) has length %d", r, k, len(u))
			}
			sum := new(big.Int)
			for i, v := range u {
				if v < 0 || (i > 0 && u[i-1] >= v) {
					t.Fatalf("Unrank(%d,%d) = %v is not a strictly increasing set of naturals", r, k, u)
				}
				sum.Add(sum, new(big.Int).Binomial(int64(v), int64(i+1)))
			}
			if !sum.IsInt64() || sum.Int64() != int64(r) {
				t.Fatalf("Unrank(%d,%d) = %v has rank %v", r, k, u, sum)
			}
		}
	}
	//The in-library caller: the Kneser graph K(5,2) is the Petersen graph.
	g := graph.KneserGraph(5, 2)
	if g.N() != 10 || g.M() != 15 {
		t.Fatalf("KneserGraph(5,2) has %d vertices and %d edges", g.N(), g.M())
	}
	for i := 0; i < 10; i++ {
		for j := 0; j < 10; j++ {
			a, b := comb.Unrank(i, 2), comb.Unrank(j, 2)
			disjoint := a[0] != b[0] && a[0] != b[1] && a[1] != b[0] && a[1] != b[1]
			if g.IsEdge(i, j) != disjoint {
				t.Fatalf("KneserGraph(5,2): edge %d-%d is %v, sets %v %v", i, j, g.IsEdge(i, j), a, b)
			}
		}
	}
}

func TestC16DemoIncidentalOldBehaviour(t *testing.T) {
	//The empty set comes back as a non-nil empty slice, as make([]int, 0) gives it.
	for _, r := range []int{0, 1, 7} {
		u := comb.Unrank(r, 0)
		if u == nil {
			t.Errorf("OLD behaviour gone: Unrank(%d,0) is a nil slice", r)
		}
		if !reflect.DeepEqual(u, []int{}) {
			t.Errorf("OLD behaviour gone: reflect.DeepEqual(Unrank(%d,0), []int{}) is false", r)
		}
	}
	//It is also deeply equal to what CombinationsColex(n, 0) visits.
	it := itertools.CombinationsColex(4, 0)
	it.Next()
	if !reflect.DeepEqual(comb.Unrank(0, 0), it.Value()) {
		t.Errorf("OLD behaviour gone: reflect.DeepEqual(Unrank(0,0), CombinationsColex(4,0).Value()) is false")
	}
	//The capacity of the result is exactly k.
	for k := 0; k <= 40; k++ {
		if c := cap(comb.Unrank(12345, k)); c != k {
			t.Errorf("OLD behaviour gone: cap(Unrank(12345,%d)) = %d, not %d", k, c, k)
		}
	}
}

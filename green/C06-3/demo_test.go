// Demo for green change C06/3 (NewSparse validates its input).
//
// Run (from the root of the mamba repository):
//
//	cp /tmp/green-out/C06/3/demo_test.go graph/zz_green_c06_3_demo_test.go
//	GOFLAGS=-mod=mod GOPROXY=off GOSUMDB=off GOTOOLCHAIN=local \
//	    go test -vet=off -count=1 -timeout 120s -run 'TestGreenC06_3' -v ./graph/
//	rm graph/zz_green_c06_3_demo_test.go
//
// TestGreenC06_3_Property      passes on the clean tree AND with the change (the property itself).
// TestGreenC06_3_OldIncidental passes on the clean tree, FAILS with the change (NewSparse now panics on
//                              neighbour lists that do not describe a simple undirected graph).
package graph_test

import (
	"fmt"
	"math/rand"
	"testing"

	"github.com/Tom-Johnston/mamba/graph"
	"github.com/Tom-Johnston/mamba/sortints"
)

// wellFormed checks the C06 conditions against an expected adjacency matrix.
func greenC06_3_wellFormed(g graph.Graph, adj [][]bool) error {
	n := len(adj)
	if g.N() != n {
		return fmt.Errorf("N = %d, want %d", g.N(), n)
	}
	m := 0
	deg := make([]int, n)
	for i := 0; i < n; i++ {
		if g.IsEdge(i, i) {
			return fmt.Errorf("loop at %d", i)
		}
		for j := 0; j < n; j++ {
			if g.IsEdge(i, j) != g.IsEdge(j, i) {
				return fmt.Errorf("IsEdge(%d,%d) != IsEdge(%d,%d)", i, j, j, i)
			}
			if g.IsEdge(i, j) != adj[i][j] {
				return fmt.Errorf("IsEdge(%d,%d) = %v, want %v", i, j, g.IsEdge(i, j), adj[i][j])
			}
			if adj[i][j] {
				deg[i]++
				if i < j {
					m++
				}
			}
		}
	}
	if g.M() != m {
		return fmt.Errorf("M = %d, want %d", g.M(), m)
	}
	d := g.Degrees()
	if len(d) != n {
		return fmt.Errorf("len(Degrees) = %d, want %d", len(d), n)
	}
	for v := 0; v < n; v++ {
		if d[v] != deg[v] {
			return fmt.Errorf("Degrees[%d] = %d, want %d", v, d[v], deg[v])
		}
		seen := make(map[int]bool)
		for _, u := range g.Neighbours(v) {
			if u < 0 || u >= n || !adj[v][u] || seen[u] {
				return fmt.Errorf("Neighbours(%d) = %v does not match the adjacency", v, g.Neighbours(v))
			}
			seen[u] = true
		}
		if len(seen) != deg[v] {
			return fmt.Errorf("Neighbours(%d) = %v does not match the adjacency", v, g.Neighbours(v))
		}
	}
	return nil
}

// The property: for neighbour lists that describe a simple graph (in any order, with repeats), NewSparse builds a
// well formed graph with exactly those edges, and it does not change when the caller's slices are modified later.
func TestGreenC06_3_Property(t *testing.T) {
	r := rand.New(rand.NewSource(6))
	for iter := 0; iter < 400; iter++ {
		n := r.Intn(9)
		adj := make([][]bool, n)
		for i := range adj {
			adj[i] = make([]bool, n)
		}
		for i := 0; i < n; i++ {
			for j := 0; j < i; j++ {
				if r.Intn(3) == 0 {
					adj[i][j], adj[j][i] = true, true
				}
			}
		}
		nb := make([]sortints.SortedInts, n)
		for i := 0; i < n; i++ {
			nb[i] = []int{}
			for j := 0; j < n; j++ {
				if adj[i][j] {
					nb[i] = append(nb[i], j)
					if r.Intn(3) == 0 {
						nb[i] = append(nb[i], j) // a repeat
					}
				}
			}
			r.Shuffle(len(nb[i]), func(a, b int) { nb[i][a], nb[i][b] = nb[i][b], nb[i][a] }) // unsorted
		}
		g := graph.NewSparse(n, nb)
		if err := greenC06_3_wellFormed(g, adj); err != nil {
			t.Fatalf("iter %d: NewSparse(%d, %v): %v", iter, n, nb, err)
		}
		// The caller scribbles over everything it passed in.
		for i := range nb {
			for k := range nb[i] {
				nb[i][k] = (nb[i][k] + 1 + r.Intn(3)) % n
			}
			nb[i] = nil
		}
		if err := greenC06_3_wellFormed(g, adj); err != nil {
			t.Fatalf("iter %d: after the caller modified its slices: %v", iter, err)
		}
	}
	// nil means the empty graph, including the smallest sizes.
	for n := 0; n < 4; n++ {
		adj := make([][]bool, n)
		for i := range adj {
			adj[i] = make([]bool, n)
		}
		if err := greenC06_3_wellFormed(graph.NewSparse(n, nil), adj); err != nil {
			t.Fatalf("NewSparse(%d, nil): %v", n, err)
		}
	}
}

// Old incidental behaviour: NewSparse accepted ANY lists of the right length without looking at them, also lists
// that are not the neighbourhoods of a simple undirected graph (one-sided entries, a vertex listed as its own
// neighbour, a neighbour that is not a vertex), and returned a struct that just mirrors them.
func TestGreenC06_3_OldIncidental(t *testing.T) {
	cases := []struct {
		name string
		n    int
		nb   []sortints.SortedInts
	}{
		{"one-sided entry", 3, []sortints.SortedInts{{1}, {}, {}}},
		{"own neighbour", 2, []sortints.SortedInts{{0, 1}, {0}}},
		{"neighbour out of range", 2, []sortints.SortedInts{{1, 5}, {0}}},
	}
	for _, c := range cases {
		func() {
			defer func() {
				if e := recover(); e != nil {
					t.Errorf("%s: NewSparse(%d, %v) panicked: %v (old behaviour: no panic)", c.name, c.n, c.nb, e)
				}
			}()
			g := graph.NewSparse(c.n, c.nb)
			for v := 0; v < c.n; v++ {
				if fmt.Sprint(g.Neighbours(v)) != fmt.Sprint([]int(c.nb[v])) {
					t.Errorf("%s: Neighbours(%d) = %v, old behaviour mirrors the input %v", c.name, v, g.Neighbours(v), c.nb[v])
				}
			}
			t.Logf("%s: accepted, Degrees = %v, M = %d", c.name, g.Degrees(), g.M())
		}()
	}
}

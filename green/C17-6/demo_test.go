// Demonstration for change 6 (Add = Union method applied to NewSortedInts(x...): inserts in place when the receiver
// has room, and treats a receiver that is not a valid SortedInts differently).
//
// Run from the repository root:
//
//	cp demo_test.go sortints/demo_test.go
//	GOFLAGS=-mod=mod GOPROXY=off GOSUMDB=off GOTOOLCHAIN=local go test -vet=off -count=1 -timeout 120s -run 'TestDemo' -v ./sortints/
//
// TestDemoProperty checks the property itself (Add with unsorted, repeated, already present and no arguments, on
// receivers with and without spare capacity, in sequences, compared with a map model; the argument list and a
// bystander set must stay untouched) and passes both on the clean tree and with the change.
// TestDemoIncidentalAddMovesReceiver asserts the OLD incidental behaviour (Add always moves the receiver to a fresh
// array with cap == len and never writes to the old array): passes on the clean tree, FAILS with the change.
// TestDemoIncidentalOutsideDomain asserts the OLD result of Add on a receiver that is not sorted (outside the domain
// of the property): passes on the clean tree, FAILS with the change.
package sortints_test

import (
	"math/rand"
	"sort"
	"testing"

	"github.com/Tom-Johnston/mamba/sortints"
)

func modelSlice(m map[int]bool) []int {
	r := make([]int, 0, len(m))
	for k := range m {
		r = append(r, k)
	}
	sort.Ints(r)
	return r
}

func sameInts(a, b []int) bool {
	if len(a) != len(b) {
		return false
	}
	for i := range a {
		if a[i] != b[i] {
			return false
		}
	}
	return true
}

func TestDemoProperty(t *testing.T) {
	rng := rand.New(rand.NewSource(1706))
	for trial := 0; trial < 3000; trial++ {
		spread := 1 + rng.Intn(40)
		model := map[int]bool{}
		for i, n := 0, rng.Intn(12); i < n; i++ {
			model[rng.Intn(2*spread+1)-spread] = true
		}
		init := modelSlice(model)
		// receiver with a random amount of spare capacity (0 included), spare part filled with junk
		backing := make([]int, len(init)+rng.Intn(3)*rng.Intn(8))
		for i := range backing {
			backing[i] = 424242
		}
		copy(backing, init)
		s := sortints.SortedInts(backing[:len(init)])
		if len(backing) == 0 && rng.Intn(2) == 0 {
			s = nil
		}
		bystander := sortints.NewSortedInts(-spread, 0, spread)
		bystanderCopy := append([]int(nil), bystander...)
		for step := 0; step < 6; step++ {
			args := make([]int, rng.Intn(7))
			for i := range args {
				switch rng.Intn(4) {
				case 0:
					if len(s) > 0 {
						args[i] = s[rng.Intn(len(s))] // already present
						break
					}
					fallthrough
				case 1:
					if i > 0 {
						args[i] = args[rng.Intn(i)] // repeat of an earlier argument
						break
					}
					fallthrough
				default:
					args[i] = rng.Intn(2*spread+1) - spread
				}
			}
			argsCopy := append([]int(nil), args...)
			if rng.Intn(5) == 0 {
				v := rng.Intn(2*spread+1) - spread
				s.Remove(v)
				delete(model, v)
			}
			s.Add(args...)
			for _, v := range args {
				model[v] = true
			}
			want := modelSlice(model)
			if !sameInts(s, want) {
				t.Fatalf("trial %d step %d: Add(%v) gave %v want %v", trial, step, args, []int(s), want)
			}
			if !sameInts(args, argsCopy) {
				t.Fatalf("trial %d step %d: Add modified its argument list", trial, step)
			}
			if !sameInts(bystander, bystanderCopy) {
				t.Fatalf("trial %d step %d: bystander changed", trial, step)
			}
		}
	}
	// extremes
	const maxInt = int(^uint(0) >> 1)
	s := sortints.NewSortedInts(0)
	s.Add(maxInt, -maxInt-1, 0, maxInt)
	if !sameInts(s, []int{-maxInt - 1, 0, maxInt}) {
		t.Fatalf("extremes: %v", []int(s))
	}
}

func TestDemoIncidentalAddMovesReceiver(t *testing.T) {
	backing := make([]int, 3, 10)
	copy(backing, []int{1, 3, 5})
	s := sortints.SortedInts(backing)
	old := s // header copy: same array
	s.Add(4, 2)
	if !sameInts(s, []int{1, 2, 3, 4, 5}) {
		t.Fatalf("wrong result %v", []int(s))
	}
	t.Logf("after Add(4, 2) on len 3 cap 10: cap %d, same backing array %v, old header now reads %v", cap(s), &s[0] == &old[0], []int(old))
	if &s[0] == &old[0] || cap(s) != len(s) || !sameInts(old, []int{1, 3, 5}) {
		t.Fatalf("OLD behaviour gone: Add inserted in place (cap %d, same array %v, old header reads %v)", cap(s), &s[0] == &old[0], []int(old))
	}
}

func TestDemoIncidentalOutsideDomain(t *testing.T) {
	s := sortints.SortedInts{9, 1, 5} // not sorted: not a valid SortedInts
	s.Add(1)
	t.Logf("SortedInts{9, 1, 5}.Add(1) = %v", []int(s))
	if !sameInts(s, []int{1, 9, 1, 5}) {
		t.Fatalf("OLD out-of-domain result gone: got %v, the clean tree gives [1 9 1 5]", []int(s))
	}
}

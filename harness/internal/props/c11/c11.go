// Package c11 monitors graph.IsPlanar against certificate-checked verdicts
// (DESIGN.md section 4, C11): every expected answer is backed by a rotation
// system of Euler genus 0 or by a K5 / K3,3 subdivision that the harness's own
// checkers (package oracle/planarity) have verified for that very graph.
package c11

import (
	"fmt"
	"hash/fnv"
	"strings"

	"github.com/Tom-Johnston/mamba/graph"

	"verif/internal/engine"
	"verif/internal/gen"
	"verif/internal/oracle/brute"
	"verif/internal/oracle/planarity"
	"verif/internal/oracle/polya"
	"verif/internal/oracle/rg"
)

func init() {
	engine.Register(&engine.Property{
		ID:    "C11",
		Level: "exploration",
		Rule: "graph.IsPlanar(g) on dense and sparse representations (filled field by field; a sixth of them with edge bytes > 1 and spare capacity, an eighth passed as struct values instead of pointers) of: every isomorphism class on n <= 8 vertices (quick; n = 9 and 1/16 of n = 10 in thorough) under all (n <= 6; n <= 7 thorough) or seeded relabellings; " +
			"graphs planar by construction with their rotation system (stacked and flip-randomised triangulations, random 2-connected plane graphs, outerplanar graphs, grids with diagonals, block trees, their random subgraphs, subdivisions, pendant / isolated vertices) up to n = 200; " +
			"graphs non-planar by construction with their Kuratowski subgraph (subdivided K5 / K3,3 overlaid on, identified with or linked to large planar graphs, in labellings that put the subdivision first, last or anywhere); " +
			"named families, random sparse graphs, rim cycles with many-attachment hubs and near-triangulations (planar +/- a few edges) judged by the reference DMP with a checked certificate; plus certificate-free metamorphic runs (relabel, subdivide, pendant, isolated, edge deletion). " +
			"Every implementation of the Graph interface: every sixteenth (thorough: every eighth) relabelling of the class sweeps and a sixth (thorough: a third) of the certified constructed graphs on up to 32 (100) vertices are ALSO presented through a seeded chain of 1..3 live views (graph.InducedSubgraph of a larger graph with junk vertices or as a relabelling, graph.Complement of the complement, views of views) over a dense or sparse base [calls:view, view:induced, view:complement, view:nested]; one call in 64 (one in four on views) is repeated on the same value and must give the same answer [repeat-call]. " +
			"Values with a history (view sessions, n = 6..30, to 90 in thorough): an editable dense / sparse host holding a graph near the planar boundary or its complement, 3..6 views of it created up front (the host itself, induced / complement chains, more created mid-way); 8..16 rounds of: IsPlanar on most values (some get Neighbours / BiconnectedComponents / Degrees calls instead, a quarter are asked twice), then ONE edit of the host through the EditableGraph interface: move an edge / re-route an end (N and M stay), 2-switch (degrees stay too), add / remove an edge, no-op edit, append a vertex, remove a vertex that no view lists, replace a vertex by one of the same degree (N and M stay), split an edge, revert the previous edit; edits prefer Kuratowski edges so the answer flips often. After every edit the host is read back and compared with the model (a host that differs is not judged), and every answer is judged against a certificate verified for the graph the value represents NOW [session:requery-after-edit = a value asked before and after an edit; session:requery:truth-changed,N+M-same = the certified answer changed across edits that kept N() and M()]. " +
			"A verdict is judged only against a certificate verified for that labelled graph (or for the class representative of which it is an explicit relabelling). " +
			"non-trivial = n >= 6 and some block has >= 5 vertices (the DMP loop runs); distinct = hash of the labelled adjacency matrix",
		Assumptions: []string{
			"a rotation system whose faces give V - E + F = 2 on every component is a plane embedding; a subgraph that is a subdivision of K5 or K3,3 excludes planarity; a simple planar graph on n >= 3 vertices has at most 3n - 6 edges (harness checkers CheckRotation / CheckKuratowski, self-checked on all rotation systems of K4, K5, K3,3 and against A005470)",
			"planarity is invariant under relabelling: in the class sweeps the certificate is verified for the class representative and the relabelled graphs are explicit images of it",
			"rg.Dense / rg.Sparse fill the exported fields of the library's graph types consistently (no constructor under test)",
			"graph.InducedSubgraph(g, V) and graph.Complement(g) are documented as live views ('reflect the current state of g', 'updating the original graph changes the complement'): a view denotes the induced subgraph / complement of what its underlying graph is at the time of the call; only edits under which every V keeps its meaning are used (vertices are appended, and removed only at indices above every V)",
			"in the view sessions the model is edited in parallel with the library host and the host is read back through all five observers after every edit; a host that differs from the model ends the session without a verdict (the edit operations are C05's subject)",
			"search.All is used as an input source for n >= 9 only (its class count is compared with the Polya count for n = 9)",
			"termination is judged as bounded progress: a call that consumes more than the CPU budget of the engine (30 CPU-s; correct runs take < 50 ms at n = 200) is reported by the engine as <key>|budget",
		},
		Run:            run,
		Finish:         finish,
		MinEvaluations: map[string]int{"quick": 600000, "thorough": 10000000},
		MinNontrivial:  map[string]int{"quick": 150000, "thorough": 4000000},
		RequiredObs: []string{"calls:dense", "calls:sparse", "cert:rotation", "cert:K5", "cert:K3,3", "cert:edge-bound",
			"classes_n=8", "family:stacked", "family:flipped", "family:plane", "family:outerplanar", "family:grid", "family:blocktree",
			"family:overlay", "family:nearplanar", "family:random", "family:hubs", "family:named", "verdict:planar", "verdict:nonplanar",
			"derived:subgraph", "derived:subdivide", "derived:pendant+isolated", "metamorphic:pairs",
			"calls:view", "view:induced", "view:complement", "view:nested", "view:over-dense", "view:over-sparse", "view:of-a-larger-graph",
			"calls:dense-variant", "calls:sparse-variant", "calls:user-defined-graph", "calls:struct-by-value", "repeat-call", "repeat-call:view",
			"calls:view-session", "session:calls-on-host", "session:calls-on-view", "session:host-dense", "session:host-sparse", "session:host-is-complement",
			"session:requery-after-edit", "session:requery-after-edit,N+M-same", "session:requery:truth-changed", "session:requery:truth-changed,N+M-same",
			"session:requery:truth-changed,N+M+degrees-same", "session:requery:truth-changed,N-changed", "session:first-query-after-edits", "session:repeat-call",
			"session:other-observer-before-edit", "session:edit:move-edge", "session:edit:2-switch", "session:edit:add-edge", "session:edit:remove-edge",
			"session:edit:no-op", "session:edit:add-vertex", "session:edit:remove-vertex", "session:edit:replace-vertex", "session:edit:split-edge", "session:edit:revert"},
	})
}

const (
	dense  = 1
	sparse = 2
	both   = 3
)

type mon struct {
	c *engine.Ctx
}

// gid is the stable identity of a labelled graph in keys.
func gid(g *rg.G) string {
	if g.N <= 12 {
		return g.G6()
	}
	h := fnv.New64a()
	h.Write([]byte(g.Key()))
	return fmt.Sprintf("n=%d,m=%d,h=%016x", g.N, g.M(), h.Sum64())
}

func graphJSON(d map[string]interface{}, g *rg.G) {
	d["n"] = g.N
	d["m"] = g.M()
	if g.N <= 62 {
		d["graph6"] = g.G6()
	} else {
		d["edges"] = g.Edges()
	}
}

func certJSON(d map[string]interface{}, cert *planarity.Cert, kind string) {
	d["certificate"] = kind
	if cert == nil {
		return
	}
	if cert.Planar {
		d["rotation_system"] = cert.Rot
	} else if cert.Kur != nil {
		d["kuratowski_subgraph"] = cert.Kur
	}
}

// reprName is the name of a representation bit in observation counters.
func reprName(repr int) string {
	switch repr {
	case dense:
		return "dense"
	case sparse:
		return "sparse"
	}
	return "view"
}

// call runs IsPlanar on one representation: a DenseGraph or SparseGraph
// filled field by field (a share of them in the variants rg.DenseVariant /
// rg.SparseVariant: edge bytes > 1, spare capacity), or - repr == view - a
// random chain of the library's live views (InducedSubgraph, Complement, views
// of views) over a dense / sparse base that contains g (wrapPlan).  One call
// in 64 (every fourth one on a view) is repeated on the same value: both
// answers must agree.  ok = false after a panic or an unstable answer
// (reported).  describe() describes the value.
func (m *mon) call(g *rg.G, id string, repr int, expect string, detail func(repr string) interface{}) (res, ok bool, describe func() string) {
	c := m.c
	hv := hashID(id)
	var h graph.Graph
	var build func()
	name := reprName(repr)
	describe = func() string { return name }
	switch repr {
	case dense:
		if k := int(hv >> 8 % 12); k >= 10 {
			h = g.DenseVariant(k)
			c.Obs("calls:dense-variant", 1)
		} else {
			h = g.Dense()
		}
	case sparse:
		if k := int(hv >> 8 % 12); k >= 10 {
			h = g.SparseVariant(k)
			c.Obs("calls:sparse-variant", 1)
		} else {
			h = g.Sparse()
		}
	}
	// a Graph implemented by the caller (adjacency lists; Neighbours and Degrees hand out the stored slices): every
	// sixth sparse call
	var user *rg.UserGraph
	if repr == sparse && hv>>16%6 == 0 {
		user = g.User()
		h = user
		name = "user-defined Graph"
		c.Obs("calls:user-defined-graph", 1)
	}
	// DenseGraph and SparseGraph have value receivers for all five observers: a struct VALUE is a Graph as well
	if repr != view && user == nil && hv>>12%8 == 0 {
		switch x := h.(type) {
		case *graph.DenseGraph:
			h = *x
		case *graph.SparseGraph:
			h = *x
		}
		name += " (struct value)"
		c.Obs("calls:struct-by-value", 1)
	}
	if repr == view {
		r := c.Rand("view", int(hv>>20))
		base, ops := wrapPlan(r, g)
		lib, over := libBase(r, base)
		name = "view " + chainShape(ops)
		describe = func() string {
			d := fmt.Sprintf("%s = %s over a %s graph on %d vertices", name, chainFull(ops), over, base.N)
			if base.N <= 62 {
				d += " (graph6 " + base.G6() + ")"
			}
			return d
		}
		build = func() { h = applyChain(lib, ops) }
		obsChain(c, ops)
		if strings.HasPrefix(over, "dense") {
			c.Obs("view:over-dense", 1)
		} else {
			c.Obs("view:over-sparse", 1)
		}
		if base.N > g.N {
			c.Obs("view:of-a-larger-graph", 1)
		}
	}
	pi := c.Call("IsPlanar|"+id+"|"+name, func() {
		if build != nil {
			build()
		}
		res = graph.IsPlanar(h)
	})
	c.Obs("calls:"+reprName(repr), 1)
	if user != nil {
		if bad := user.Intact(g); bad != "" {
			c.Violation("IsPlanar|modified-its-argument|"+id, detail(describe()), "after the call the caller's adjacency lists read: "+bad, "IsPlanar does not modify its argument (nor the slices its Neighbours / Degrees return)")
			return false, false, describe
		}
	}
	if pi != nil {
		c.Obs("panics", 1)
		key := "IsPlanar|panic|" + engine.SiteNoLine(pi.Site) + "|" + id
		if repr == view {
			key += "|" + name
		}
		c.Violation(key, detail(describe()), pi.String(), expect)
		return false, false, describe
	}
	if hv%64 == 0 || (repr == view && hv%4 == 0) {
		var again bool
		pi := c.Call("IsPlanar|"+id+"|"+name+"|again", func() { again = graph.IsPlanar(h) })
		c.Obs("repeat-call", 1)
		c.Obs("repeat-call:"+reprName(repr), 1)
		if pi != nil {
			c.Obs("panics", 1)
			c.Violation("IsPlanar|panic|"+engine.SiteNoLine(pi.Site)+"|second call|"+id+"|"+name, detail(describe()), pi.String()+" in the second call on the same value", expect)
			return false, false, describe
		}
		if again != res {
			c.Violation("IsPlanar|unstable|"+id+"|"+name, detail(describe()), fmt.Sprintf("IsPlanar = %v, then IsPlanar = %v on the same unchanged value", res, again),
				"the same answer for the same graph (IsPlanar is a function of the graph)")
			return res, false, describe
		}
	}
	return res, true, describe
}

// judge compares IsPlanar(g) in the requested representations with the
// certified truth.  It returns the library's verdict and whether the case is
// clean.
func (m *mon) judge(g *rg.G, truth bool, kind string, reprs int, confirm func() error, detail func(repr string) interface{}) (verdict, clean bool) {
	c := m.c
	id := gid(g)
	expect := fmt.Sprintf("IsPlanar = %v (certificate verified: %s)", truth, kind)
	verdict = truth
	for _, rp := range []int{dense, sparse, view} {
		if reprs&rp == 0 {
			continue
		}
		got, ok, describe := m.call(g, id, rp, expect, detail)
		c.Eval(1)
		if !ok {
			return got, false
		}
		verdict = got
		if got != truth {
			if confirm != nil {
				// the certificate was verified for an isomorphic copy: verify its image on this labelling before reporting
				if err := confirm(); err != nil {
					c.Obs("uncertified", 1)
					c.Inconclusive(fmt.Sprintf("disagreement on %s but the transformed certificate was rejected: %v", id, err))
					return got, false
				}
			}
			what := "planar-reported-nonplanar"
			if got {
				what = "nonplanar-reported-planar"
			}
			key := "IsPlanar|wrong|" + what + "|" + id
			if rp == view {
				key += "|" + strings.SplitN(describe(), " =", 2)[0]
			}
			c.Violation(key, detail(describe()), fmt.Sprintf("IsPlanar = %v", got), expect)
			return got, false
		}
	}
	if truth {
		c.Obs("verdict:planar", 1)
	} else {
		c.Obs("verdict:nonplanar", 1)
	}
	return verdict, true
}

func (m *mon) sizeObs(g *rg.G) {
	c := m.c
	switch {
	case g.N <= 10:
		c.Obs(fmt.Sprintf("size:n=%d", g.N), 1)
	case g.N <= 32:
		c.Obs("size:n=11..32", 1)
	case g.N <= 64:
		c.Obs("size:n=33..64", 1)
	case g.N <= 128:
		c.Obs("size:n=65..128", 1)
	default:
		c.Obs("size:n>128", 1)
	}
	c.ObsMax("n", g.N)
	c.ObsMax("m", g.M())
}

// nontrivial applies the NT rule and records the fingerprint.
func (m *mon) nontrivial(g *rg.G) bool {
	if g.N < 6 {
		return false
	}
	bl := planarity.Blocks(g)
	mx := 0
	for _, b := range bl {
		if len(b) > mx {
			mx = len(b)
		}
	}
	m.c.ObsMax("blocks_in_one_graph", len(bl))
	m.c.ObsMax("largest_block", mx)
	if mx >= 5 {
		m.c.NT(g.Key())
		return true
	}
	return false
}

func relabelCert(ct *planarity.Cert, perm []int) *planarity.Cert {
	switch {
	case ct.Planar:
		return &planarity.Cert{Planar: true, Rot: (&planarity.Emb{Rot: ct.Rot}).Relabel(perm).Rot}
	case ct.Dense:
		return ct
	}
	return &planarity.Cert{Kur: relabelEdges(ct.Kur, perm)}
}

// certified judges one labelled graph whose certificate is verified here.
// Returns the library verdict and whether the case was judged and clean.
func (m *mon) certified(label string, g *rg.G, ct *planarity.Cert, reprs int) (verdict, clean bool) {
	c := m.c
	kind, err := ct.Verify(g)
	if err != nil {
		c.Obs("uncertified", 1)
		c.Obs("uncertified:"+label, 1)
		c.Inconclusive(fmt.Sprintf("%s: certificate rejected for %s: %v", label, gid(g), err))
		return false, false
	}
	c.Obs("cert:"+kind, 1)
	m.sizeObs(g)
	m.nontrivial(g)
	// one certified graph in six (three in thorough) is presented through a chain of live views as well
	if (g.N*7+g.M())%c.Pick(6, 3) == 0 && g.N <= c.Pick(32, 100) {
		reprs |= view
	}
	return m.judge(g, ct.Planar, kind, reprs, nil, func(repr string) interface{} {
		d := map[string]interface{}{"workload": label, "repr": repr}
		graphJSON(d, g)
		certJSON(d, ct, kind)
		return d
	})
}

// labellings judges g under the identity, the reversal and k seeded
// relabellings, each with its own transformed and re-verified certificate.
func (m *mon) labellings(label string, g *rg.G, ct *planarity.Cert, r *engine.Rng, k int) bool {
	if _, ok := m.certified(label, g, ct, both); !ok {
		return false
	}
	n := g.N
	perms := [][]int{reversed(n)}
	for i := 0; i < k; i++ {
		perms = append(perms, r.Perm(n))
	}
	for i, p := range perms {
		rp := dense
		if i%2 == 1 {
			rp = sparse
		}
		m.c.Obs("relabellings", 1)
		if _, ok := m.certified(label+"/relabelled", g.Induced(p), relabelCert(ct, p), rp); !ok {
			return false
		}
	}
	return true
}

func run(c *engine.Ctx) {
	m := &mon{c: c}
	m.classSweeps()
	m.planarFamilies()
	m.nonplanarFamilies()
	m.referenceJudged()
	m.twoHubs()
	m.metamorphic()
	m.viewSessions()
}

func finish(s *engine.Super) {
	if s.Thorough() {
		if got, want := s.Obs("classes_n=9"), polya.Graphs(9).Int64(); got != want {
			s.Inconclusive(fmt.Sprintf("input source: search.All(9) produced %d classes, Polya count is %d", got, want))
		}
	}
	// the certified reference must reproduce the number of planar graphs (A005470) on the exhaustive class lists
	a005470 := []int64{1, 1, 2, 4, 11, 33, 142, 822, 6966, 79853}
	top := 8
	if s.Thorough() {
		top = 9
	}
	for n := 0; n <= top; n++ {
		if got := s.Obs(fmt.Sprintf("planar_classes_n=%d", n)); got != a005470[n] {
			s.Inconclusive(fmt.Sprintf("oracle: %d classes on %d vertices certified planar, A005470 says %d", got, n, a005470[n]))
		}
	}
	if u := s.Obs("uncertified"); u > 0 {
		s.Inconclusive(fmt.Sprintf("%d inputs had a certificate that the checkers rejected (oracle or generator fault)", u))
	}
	if u := s.Obs("oracle_disagreement"); u > 0 {
		s.Inconclusive(fmt.Sprintf("%d inputs on which the two reference implementations disagree", u))
	}
}

// ---------------------------------------------------------------- class sweeps

// eachPerm calls f with every permutation of 0..n-1 (Heap's algorithm); f must
// not retain the slice.
func eachPerm(n int, f func(p []int)) {
	p := identity(n)
	cnt := make([]int, n)
	f(p)
	for i := 0; i < n; {
		if cnt[i] < i {
			if i%2 == 0 {
				p[0], p[i] = p[i], p[0]
			} else {
				p[cnt[i]], p[i] = p[i], p[cnt[i]]
			}
			f(p)
			cnt[i]++
			i = 0
		} else {
			cnt[i] = 0
			i++
		}
	}
}

// sweepClass certifies the class representative g and judges it under the
// given relabellings (all of them if nperm < 0).
func (m *mon) sweepClass(g *rg.G, nperm int, r *engine.Rng, reprs int) {
	c := m.c
	n := g.N
	ct := planarity.Reference(g)
	kind, err := ct.Verify(g)
	if err != nil {
		c.Obs("uncertified", 1)
		c.Inconclusive(fmt.Sprintf("class sweep: certificate of the reference rejected for %s: %v", g.G6(), err))
		return
	}
	if n <= 9 {
		// second, structurally different reference (bit masks, own certificate checkers)
		bp, bok := brute.RefPlanar(brute.FromRG(g, n))
		if !bok || bp != ct.Planar {
			c.Obs("oracle_disagreement", 1)
			c.Inconclusive(fmt.Sprintf("class sweep: references disagree on %s: planarity.Reference planar=%v, brute.RefPlanar planar=%v certified=%v", g.G6(), ct.Planar, bp, bok))
			return
		}
		c.Obs("second_reference_agrees", 1)
	}
	c.Obs("cert:"+kind, 1)
	c.Obs(fmt.Sprintf("classes_n=%d", n), 1)
	if ct.Planar {
		c.Obs(fmt.Sprintf("planar_classes_n=%d", n), 1)
	}
	nt := false
	if n >= 6 && planarity.MaxBlock(g) >= 5 {
		nt = true
		c.Obs(fmt.Sprintf("nontrivial_classes_n=%d", n), 1)
	}
	rep := g.G6()
	one := func(p []int, idx int) bool {
		h := g
		if p != nil {
			h = g.Induced(p)
		}
		if nt {
			c.NT(h.Key())
		}
		rp := reprs
		if rp == 0 { // alternate
			rp = dense
			if idx%2 == 1 {
				rp = sparse
			}
		}
		if idx%16 == 15 || (c.Thorough() && idx%8 == 3) {
			rp |= view
		}
		c.Obs("relabellings", 1)
		hc := ct
		confirm := func() error {
			if p != nil {
				hc = relabelCert(ct, p)
			}
			_, err := hc.Verify(h)
			return err
		}
		_, ok := m.judge(h, ct.Planar, kind, rp, confirm, func(repr string) interface{} {
			d := map[string]interface{}{"workload": "class sweep", "repr": repr, "class_representative": rep}
			if p != nil {
				d["relabelling"] = append([]int(nil), p...)
				hc = relabelCert(ct, p)
			}
			graphJSON(d, h)
			certJSON(d, hc, kind)
			return d
		})
		return ok
	}
	if nperm < 0 {
		idx := 0
		stop := false
		eachPerm(n, func(p []int) {
			if stop {
				return
			}
			if !one(p, idx) {
				stop = true
			}
			idx++
		})
		return
	}
	if !one(nil, 0) {
		return
	}
	if n >= 2 && !one(reversed(n), 1) {
		return
	}
	for i := 0; i < nperm; i++ {
		if !one(r.Perm(n), i) {
			return
		}
	}
}

func (m *mon) classSweeps() {
	c := m.c
	// n <= 5: one unit, all relabellings, both representations
	c.Unit("classes/n<=5", func() {
		for n := 0; n <= 5; n++ {
			for _, g := range gen.Classes(n) {
				m.sweepClass(g, -1, nil, both)
			}
			c.Obs(fmt.Sprintf("exhaustive:all classes n=%d x all relabellings x dense+sparse", n), 1)
		}
	})
	chunked := func(n, per int, nperm int, reprs int, what string) {
		total := int(polya.Graphs(n).Int64())
		for lo, u := 0, 0; lo < total; lo, u = lo+per, u+1 {
			lo, u := lo, u
			c.Unit(fmt.Sprintf("classes/n=%d/%d", n, u), func() {
				cl := gen.Classes(n)
				hi := lo + per
				if hi > len(cl) {
					hi = len(cl)
				}
				for i := lo; i < hi && !c.Stopped(); i++ {
					var r *engine.Rng
					if nperm >= 0 {
						r = c.Rand(fmt.Sprintf("classes%d", n), i)
					}
					m.sweepClass(cl[i], nperm, r, reprs)
				}
				if u == 0 {
					c.Obs(fmt.Sprintf("exhaustive:all classes n=%d x %s", n, what), 1)
					c.Sample("class sweep", map[string]interface{}{"n": n, "classes": len(cl), "relabellings": what, "first": cl[0].G6(), "last": cl[len(cl)-1].G6()})
				}
			})
		}
	}
	chunked(6, 20, -1, both, "all relabellings x dense+sparse")
	if c.Thorough() {
		chunked(7, 24, -1, both, "all relabellings x dense+sparse")
		chunked(8, 200, 48, 0, "identity, reversal, 48 seeded relabellings (dense/sparse alternating)")
	} else {
		chunked(7, 60, 60, both, "identity, reversal, 60 seeded relabellings x dense+sparse")
		chunked(8, 250, 16, both, "identity, reversal, 16 seeded relabellings x dense+sparse")
	}
	if !c.Thorough() {
		return
	}
	fromLibrary := func(n, a, mod int, unit string, nperm int) {
		c.Unit(unit, func() {
			var list []*rg.G
			if pi := c.Call(fmt.Sprintf("search.All(%d,%d,%d)", n, a, mod), func() {
				gen.ClassesFromLibrary(n, a, mod, func(g *rg.G) { list = append(list, g) })
			}); pi != nil {
				c.Inconclusive(fmt.Sprintf("input source search.All(%d,%d,%d) panicked: %s", n, a, mod, pi.String()))
				return
			}
			for i, g := range list {
				if c.Stopped() {
					return
				}
				m.sweepClass(g, nperm, c.Rand(unit, i), 0)
			}
		})
	}
	for a := 0; a < 64; a++ {
		fromLibrary(9, a, 64, fmt.Sprintf("classes/n=9/%d", a), 2)
	}
	c.Obs("exhaustive:all classes n=9 (from search.All, count checked against Polya) x identity, reversal, 2 seeded relabellings", 1)
	const k10 = 48
	for u := 0; u < k10; u++ {
		fromLibrary(10, 16*u, 16*k10, fmt.Sprintf("classes/n=10/%d", u), 1)
	}
}

// ---------------------------------------------------------------- planar by construction

type planarGen struct {
	name string
	f    func(r *engine.Rng, n int) (*planarity.Emb, error)
}

func planarGens() []planarGen {
	tri := func(flips bool) func(r *engine.Rng, n int) (*planarity.Emb, error) {
		return func(r *engine.Rng, n int) (*planarity.Emb, error) {
			f := stacked(r, n)
			if flips {
				flipSome(r, f, 2*n+r.Intn(4*n))
			}
			return f.Emb()
		}
	}
	return []planarGen{
		{"stacked", tri(false)},
		{"flipped", tri(true)},
		{"plane", func(r *engine.Rng, n int) (*planarity.Emb, error) {
			return randomPlane(r, n, r.Float()*r.Float()).Emb()
		}},
		{"outerplanar", func(r *engine.Rng, n int) (*planarity.Emb, error) {
			return outerplanar(r, n, r.Intn(n)).Emb()
		}},
		{"grid", func(r *engine.Rng, n int) (*planarity.Emb, error) {
			a := 2 + r.Intn(7)
			b := n / a
			if b < 2 {
				b = 2
			}
			return gridEmb(r, a, b, []float64{0, 0.3, 1}[r.Intn(3)]), nil
		}},
		{"blocktree", func(r *engine.Rng, n int) (*planarity.Emb, error) {
			var parts []*planarity.Emb
			left := n
			for left > 0 {
				k := 3 + r.Intn(12)
				if k > left {
					k = left
				}
				left -= k
				var e *planarity.Emb
				var err error
				switch {
				case k < 3:
					e = planarity.NewEmb(k)
					if k == 2 {
						e.Bridge(0, 1, 0, 0)
					}
				case r.Bool(0.5):
					f := stacked(r, k)
					flipSome(r, f, k)
					e, err = f.Emb()
				default:
					e, err = randomPlane(r, k, r.Float()).Emb()
				}
				if err != nil {
					return nil, err
				}
				if r.Bool(0.3) {
					e = thin(r, e, 0.2)
				}
				parts = append(parts, e)
			}
			return blockTree(r, parts), nil
		}},
	}
}

// sizeFor spreads the sizes of constructed inputs: mostly small and medium,
// a share near the top of the tier.
func sizeFor(c *engine.Ctx, r *engine.Rng, i int) int {
	top := c.Pick(64, 200)
	switch i % 8 {
	case 0, 1:
		return r.Range(5, 12)
	case 2, 3:
		return r.Range(10, 30)
	case 4, 5:
		return r.Range(25, 64)
	case 6:
		return r.Range(top/2, top)
	default:
		if c.Thorough() {
			return r.Range(64, 140)
		}
		if i%32 == 7 { // a few big ones in the quick tier as well
			return r.Range(100, 200)
		}
		return r.Range(30, 64)
	}
}

func (m *mon) planarFamilies() {
	c := m.c
	gens := planarGens()
	cases := c.Pick(3600, 24000)
	per := 12
	for u := 0; u*per < cases; u++ {
		u := u
		c.Unit(fmt.Sprintf("planar/%d", u), func() {
			for i := u * per; i < (u+1)*per && i < cases && !c.Stopped(); i++ {
				r := c.Rand("planar", i)
				pg := gens[i%len(gens)]
				n := sizeFor(c, r, i/len(gens))
				label := "constructed planar: " + pg.name
				e, err := pg.f(r, n)
				if err != nil {
					c.Obs("uncertified", 1)
					c.Inconclusive(fmt.Sprintf("%s #%d: builder failed: %v", label, i, err))
					continue
				}
				c.Obs("family:"+pg.name, 1)
				g := e.Graph()
				ct := &planarity.Cert{Planar: true, Rot: e.Rot}
				if !m.labellings(label, g, ct, r, 2) {
					continue
				}
				if i < 2*len(gens) {
					c.Sample(label, map[string]interface{}{"n": g.N, "m": g.M(), "graph": gid(g), "blocks": len(planarity.Blocks(g))})
				}
				// subgraphs inherit the restricted rotation system
				for _, p := range []float64{0.08, 0.3, 0.55} {
					t := thin(r, e, p)
					perm := r.Perm(t.N())
					t = t.Relabel(perm)
					c.Obs("derived:subgraph", 1)
					if _, ok := m.certified(label+", random subgraph", t.Graph(), &planarity.Cert{Planar: true, Rot: t.Rot}, both); !ok {
						break
					}
				}
				// subdivisions, pendant and isolated vertices
				d := decorate(r, e, 1+r.Intn(6), 0, 0)
				c.Obs("derived:subdivide", 1)
				if _, ok := m.certified(label+", subdivided", d.Graph(), &planarity.Cert{Planar: true, Rot: d.Rot}, both); !ok {
					continue
				}
				d = decorate(r, thin(r, e, 0.15), r.Intn(3), 1+r.Intn(4), r.Intn(3))
				d = d.Relabel(r.Perm(d.N()))
				c.Obs("derived:pendant+isolated", 1)
				m.certified(label+", with pendant and isolated vertices", d.Graph(), &planarity.Cert{Planar: true, Rot: d.Rot}, both)
			}
		})
	}
}

// ---------------------------------------------------------------- non-planar by construction

func (m *mon) nonplanarFamilies() {
	c := m.c
	gens := planarGens()
	cases := c.Pick(3600, 24000)
	per := 12
	modes := []string{"alone", "cut vertex", "shared edge", "links", "branch vertices inside", "random overlay"}
	for u := 0; u*per < cases; u++ {
		u := u
		c.Unit(fmt.Sprintf("nonplanar/%d", u), func() {
			for i := u * per; i < (u+1)*per && i < cases && !c.Stopped(); i++ {
				r := c.Rand("nonplanar", i)
				mode := i % len(modes)
				five := (i/len(modes))%2 == 0
				maxSub := []int{0, 1, 3, 6}[r.Intn(4)]
				h := kSubdivision(r, five, 0, maxSub)
				label := "constructed non-planar: " + h.kind + " subdivision, " + modes[mode]
				// the planar host
				var p *rg.G
				if mode == 0 {
					p = rg.New(0)
				} else {
					pg := gens[r.Intn(len(gens))]
					n := sizeFor(c, r, i/(2*len(modes))) - h.n
					if n < 9 {
						n = 9 // every host has at least 6 vertices (block trees lose one per glued part)
					}
					e, err := pg.f(r, n)
					if err != nil {
						c.Obs("uncertified", 1)
						c.Inconclusive(fmt.Sprintf("%s #%d: builder failed: %v", label, i, err))
						continue
					}
					if r.Bool(0.3) {
						e = thin(r, e, 0.2)
					}
					p = e.Graph()
				}
				onto := map[int]int{}
				var links [][2]int
				pick := func(k int) []int { return r.Perm(p.N)[:k] }
				switch mode {
				case 1:
					onto[r.Intn(h.n)] = r.Intn(p.N)
				case 2:
					he := h.edges[r.Intn(len(h.edges))]
					pes := p.Edges()
					if len(pes) == 0 {
						onto[he[0]] = 0
					} else {
						pe := pes[r.Intn(len(pes))]
						onto[he[0]], onto[he[1]] = pe[0], pe[1]
					}
				case 3:
					k := 2 + r.Intn(3)
					hv := r.Perm(h.n)[:k]
					pv := pick(k)
					for j := 0; j < k; j++ {
						links = append(links, [2]int{hv[j], pv[j]})
					}
				case 4:
					pv := pick(len(h.branch))
					for j, b := range h.branch {
						onto[b] = pv[j]
					}
				case 5:
					k := r.Intn(h.n + 1)
					if k > p.N {
						k = p.N
					}
					hv := r.Perm(h.n)[:k]
					pv := pick(k)
					for j := 0; j < k; j++ {
						onto[hv[j]] = pv[j]
					}
					if k < 2 {
						links = append(links, [2]int{r.Intn(h.n), r.Intn(p.N)}, [2]int{r.Intn(h.n), r.Intn(p.N)})
					}
				}
				g, img := overlay(p, h, onto, links)
				c.Obs("family:overlay", 1)
				c.Obs("overlay:"+modes[mode], 1)
				ct := &planarity.Cert{Kur: img}
				// as built: host first, subdivision last; reversed: subdivision first
				if !m.labellings(label, g, ct, r, 2) {
					continue
				}
				if i < 2*len(modes) {
					c.Sample(label, map[string]interface{}{"n": g.N, "m": g.M(), "graph": gid(g), "host_vertices": p.N, "subdivision_vertices": h.n})
				}
				// derived: subdivide edges (an edge of the subdivision is replaced by its two halves)
				d := g.Copy()
				dk := append([][2]int(nil), img...)
				for t := 1 + r.Intn(5); t > 0; t-- {
					es := d.Edges()
					ed := es[r.Intn(len(es))]
					w := d.N
					d = d.AddVertex([]int{ed[0], ed[1]})
					d.Del(ed[0], ed[1])
					for j, ke := range dk {
						if (ke[0] == ed[0] && ke[1] == ed[1]) || (ke[0] == ed[1] && ke[1] == ed[0]) {
							dk[j] = [2]int{ed[0], w}
							dk = append(dk, [2]int{w, ed[1]})
							break
						}
					}
				}
				c.Obs("derived:subdivide", 1)
				if _, ok := m.certified(label+", subdivided", d, &planarity.Cert{Kur: dk}, both); !ok {
					continue
				}
				// derived: delete edges outside the subdivision, add pendant / isolated vertices, relabel
				d = g.Copy()
				inK := map[[2]int]bool{}
				for _, ke := range img {
					a, b := ke[0], ke[1]
					if a > b {
						a, b = b, a
					}
					inK[[2]int{a, b}] = true
				}
				pdel := []float64{0.1, 0.4, 0.8}[r.Intn(3)]
				for _, ed := range g.Edges() {
					if !inK[ed] && r.Bool(pdel) {
						d.Del(ed[0], ed[1])
					}
				}
				for t := r.Intn(3); t > 0; t-- {
					d = d.AddVertex([]int{r.Intn(d.N)})
				}
				for t := r.Intn(2); t > 0; t-- {
					d = d.AddVertex(nil)
				}
				perm := r.Perm(d.N)
				c.Obs("derived:subgraph", 1)
				c.Obs("derived:pendant+isolated", 1)
				m.certified(label+", edges outside the subdivision deleted", d.Induced(perm), &planarity.Cert{Kur: relabelEdges(img, perm)}, both)
			}
		})
	}
}

// ---------------------------------------------------------------- judged by the reference

// named returns fixed graphs whose planarity is well known; the monitor does
// not rely on that knowledge, the reference certifies each.
func named() map[string]*rg.G {
	out := map[string]*rg.G{}
	for _, f := range gen.Families() {
		if f.G.N <= 64 {
			out[f.Name] = f.G
		}
	}
	for k := 3; k <= 40; k += 3 {
		out[fmt.Sprintf("wheel-%d", k)] = gen.Wheel(k)
		out[fmt.Sprintf("K2,%d", k)] = gen.CompleteMultipartite(2, k)
		out[fmt.Sprintf("K1,1,%d", k)] = gen.CompleteMultipartite(1, 1, k)
		out[fmt.Sprintf("K3,%d", k)] = gen.CompleteMultipartite(3, k)
		out[fmt.Sprintf("K1,2,%d", k)] = gen.CompleteMultipartite(1, 2, k)
		out[fmt.Sprintf("prism-%d", k)] = gen.GenPetersen(k, 1)
		out[fmt.Sprintf("antiprism-%d", k+1)] = gen.Circulant(2*(k+1), 1, 2)
		out[fmt.Sprintf("moebius-ladder-%d", k)] = gen.Circulant(2*k, 1, k)
		out[fmt.Sprintf("GP(%d,2)", k+2)] = gen.GenPetersen(k+2, 2)
		out[fmt.Sprintf("GP(%d,3)", k+4)] = gen.GenPetersen(k+4, 3)
		out[fmt.Sprintf("C%d(1,3)", k+4)] = gen.Circulant(k+4, 1, 3)
	}
	for a := 2; a <= 8; a++ {
		for b := a; b <= 12; b += 3 {
			out[fmt.Sprintf("grid-%dx%d", a, b)] = gen.Grid(a, b)
			out[fmt.Sprintf("rook-%dx%d", a, b)] = gen.Rook(a, b)
		}
	}
	for d := 1; d <= 5; d++ {
		out[fmt.Sprintf("Q%d", d)] = gen.Hypercube(d)
	}
	for n := 1; n <= 9; n++ {
		out[fmt.Sprintf("K%d", n)] = gen.Complete(n)
		out[fmt.Sprintf("path-%d", 4*n)] = gen.PathG(4 * n)
		out[fmt.Sprintf("cycle-%d", 3*n)] = gen.Cycle(3 * n)
		out[fmt.Sprintf("%d disjoint K4", n)] = gen.Copies(gen.Complete(4), n)
		out[fmt.Sprintf("K5 + %d disjoint K4", n)] = rg.Union(gen.Copies(gen.Complete(4), n), gen.Complete(5))
	}
	out["K2,2,2 (octahedron)"] = gen.CompleteMultipartite(2, 2, 2)
	out["K2,2,2,2"] = gen.CompleteMultipartite(2, 2, 2, 2)
	out["K2,2,3"] = gen.CompleteMultipartite(2, 2, 3)
	out["K1,1,1,9"] = gen.CompleteMultipartite(1, 1, 1, 9)
	out["K1,1,1,1,4"] = gen.CompleteMultipartite(1, 1, 1, 1, 4)
	out["icosahedron"] = icosahedron()
	out["Mycielski(C5) (Groetzsch)"] = gen.Mycielski(gen.Cycle(5))
	return out
}

func icosahedron() *rg.G {
	g := rg.New(12)
	for i := 0; i < 5; i++ {
		g.Add(0, 1+i)
		g.Add(1+i, 1+(i+1)%5)
		g.Add(11, 6+i)
		g.Add(6+i, 6+(i+1)%5)
		g.Add(1+i, 6+i)
		g.Add(1+i, 6+(i+1)%5)
	}
	return g
}

func sortedKeys(m map[string]*rg.G) []string {
	var ks []string
	for k := range m {
		ks = append(ks, k)
	}
	for i := 1; i < len(ks); i++ {
		for j := i; j > 0 && ks[j-1] > ks[j]; j-- {
			ks[j-1], ks[j] = ks[j], ks[j-1]
		}
	}
	return ks
}

func (m *mon) referenceJudged() {
	c := m.c
	// named graphs
	nm := named()
	names := sortedKeys(nm)
	per := 20
	for u := 0; u*per < len(names); u++ {
		u := u
		c.Unit(fmt.Sprintf("named/%d", u), func() {
			for i := u * per; i < (u+1)*per && i < len(names) && !c.Stopped(); i++ {
				g := nm[names[i]]
				ct := planarity.Reference(g)
				c.Obs("family:named", 1)
				if m.labellings("named graph: "+names[i], g, ct, c.Rand("named", i), 4) {
					if ct.Planar {
						c.Obs("named_planar", 1)
					} else {
						c.Obs("named_nonplanar", 1)
					}
				}
			}
		})
	}
	// random sparse graphs and near-triangulations
	gens := planarGens()
	cases := c.Pick(4500, 30000)
	per = 12
	for u := 0; u*per < cases; u++ {
		u := u
		c.Unit(fmt.Sprintf("reference/%d", u), func() {
			for i := u * per; i < (u+1)*per && i < cases && !c.Stopped(); i++ {
				r := c.Rand("reference", i)
				n := sizeFor(c, r, i/3)
				var g *rg.G
				label := ""
				if i%3 == 2 {
					// a long rim cycle 0..L-1 (found first by a DFS from vertex 0 when no chord interferes), a few hubs
					// joined to many rim vertices (fragments with many attachment vertices), hub-hub edges, a few chords
					label = "rim cycle with hubs (fragments with many attachments)"
					c.Obs("family:hubs", 1)
					hubs := 1 + r.Intn(4)
					L := n - hubs
					if L < 4 {
						L = 4
					}
					g = rg.New(L + hubs)
					for v := 0; v < L; v++ {
						g.Add(v, (v+1)%L)
					}
					for h := 0; h < hubs; h++ {
						switch r.Intn(3) {
						case 0: // every rim vertex
							for v := 0; v < L; v++ {
								g.Add(L+h, v)
							}
						case 1: // an arc of the rim
							a, k := r.Intn(L), 2+r.Intn(L-1)
							for t := 0; t < k; t++ {
								g.Add(L+h, (a+t)%L)
							}
						default: // a random subset
							pr := 0.1 + 0.8*r.Float()
							for v := 0; v < L; v++ {
								if r.Bool(pr) {
									g.Add(L+h, v)
								}
							}
							g.Add(L+h, r.Intn(L))
							g.Add(L+h, r.Intn(L))
						}
					}
					for t := r.Intn(3); t > 0 && hubs > 1; t-- {
						g.Add(L+r.Intn(hubs), L+r.Intn(hubs))
					}
					for t := r.Intn(3); t > 0; t-- {
						g.Add(r.Intn(L), r.Intn(L))
					}
				} else if i%3 == 0 {
					// G(n, m) with m around the range where both answers occur
					label = "random sparse graph"
					c.Obs("family:random", 1)
					g = rg.New(n)
					dens := 0.8 + 1.6*r.Float()
					if n < 12 {
						dens = 1 + 2*r.Float()
					}
					want := int(dens * float64(n))
					for t := 0; t < 20*want && g.M() < want; t++ {
						a, b := r.Intn(n), r.Intn(n)
						if n > 20 && r.Bool(0.7) { // local edges keep large graphs planar more often
							b = (a + 1 + r.Intn(6)) % n
						}
						g.Add(a, b)
					}
				} else {
					// planar by construction, then a few edges deleted and a few added: the answer is not known beforehand
					label = "near-planar graph (planar - d edges + a edges)"
					c.Obs("family:nearplanar", 1)
					pg := gens[r.Intn(3)]
					e, err := pg.f(r, n)
					if err != nil {
						c.Obs("uncertified", 1)
						c.Inconclusive(fmt.Sprintf("%s #%d: builder failed: %v", label, i, err))
						continue
					}
					g = e.Graph()
					es := g.Edges()
					for t := r.Intn(2 + n/8); t > 0 && len(es) > 0; t-- {
						ed := es[r.Intn(len(es))]
						g.Del(ed[0], ed[1])
					}
					for t := 1 + r.Intn(3); t > 0; t-- {
						a, b := r.Intn(n), r.Intn(n)
						if r.Bool(0.5) {
							// short chords: often still planar
							nb := g.Nbrs(a)
							if len(nb) > 0 {
								nb2 := g.Nbrs(nb[r.Intn(len(nb))])
								b = nb2[r.Intn(len(nb2))]
							}
						}
						g.Add(a, b)
					}
				}
				ct := planarity.Reference(g)
				if ct.Planar {
					c.Obs("reference_planar", 1)
				} else {
					c.Obs("reference_nonplanar", 1)
				}
				if !m.labellings(label, g, ct, r, 2) {
					continue
				}
				if i < 4 {
					c.Sample(label, map[string]interface{}{"n": g.N, "m": g.M(), "graph": gid(g), "planar": ct.Planar})
				}
			}
		})
	}
}

// twoHubs: two hub vertices over a forest of short paths (every path vertex joined to one or both hubs).  Both hubs lie
// on many common faces, so fragments attached at exactly the two hubs keep long lists of admissible faces that shrink
// one by one while edges between neighbouring path vertices split faces into ones holding a single hub — the
// bookkeeping of those lists (removal, order, lookup) is what this family exercises; uniform random graphs almost
// never produce more than three common faces.  Planar unless the seeded extra edges say otherwise; the verdict comes
// with a verified certificate either way.
func (m *mon) twoHubs() {
	c := m.c
	cases := c.Pick(12000, 100000)
	per := 50
	for u := 0; u*per < cases; u++ {
		u := u
		c.Unit(fmt.Sprintf("twohubs/%d", u), func() {
			for i := u * per; i < (u+1)*per && i < cases && !c.Stopped(); i++ {
				r := c.Rand("twohubs", i)
				t := r.Range(6, 14)
				if i%5 >= 3 {
					t = r.Range(12, 34)
				}
				n := t + 2
				g := rg.New(n)
				A, B := t, t+1
				pEdge, qa, qb := 0.2+0.6*r.Float(), 0.5+0.5*r.Float(), 0.5+0.5*r.Float()
				for v := 0; v < t; v++ {
					if v+1 < t && r.Bool(pEdge) {
						g.Add(v, v+1)
					}
					a, b := r.Bool(qa), r.Bool(qb)
					if !a && !b {
						a = true
					}
					if a {
						g.Add(v, A)
					}
					if b {
						g.Add(v, B)
					}
				}
				if r.Bool(0.2) {
					g.Add(A, B)
				}
				for x := r.Intn(4) - 2; x > 0; x-- { // now and then edges that may destroy planarity
					g.Add(r.Intn(t), r.Intn(t))
				}
				c.Obs("family:twohubs", 1)
				g = g.Induced(r.Perm(n))
				ct := planarity.Reference(g)
				if ct.Planar {
					c.Obs("reference_planar", 1)
				} else {
					c.Obs("reference_nonplanar", 1)
				}
				k := 6
				if n <= 16 { // cheap: the order of the face splits depends on the labelling, so many of them
					k = 30
				}
				if !m.labellings("two hubs over a forest of paths", g, ct, r, k) {
					continue
				}
				if i < 2 {
					c.Sample("two hubs over a forest of paths", map[string]interface{}{"n": g.N, "m": g.M(), "graph": gid(g), "planar": ct.Planar})
				}
			}
		})
	}
}

// ---------------------------------------------------------------- metamorphic, certificate free

// metamorphic compares verdicts of the library with each other only, on
// graphs whose planarity nobody has certified: isomorphic graphs, a
// subdivision, a graph with extra pendant / isolated vertices must get the same
// answer; a subgraph of a graph reported planar must be reported planar.
func (m *mon) metamorphic() {
	c := m.c
	cases := c.Pick(1200, 12000)
	per := 12
	gens := planarGens()
	for u := 0; u*per < cases; u++ {
		u := u
		c.Unit(fmt.Sprintf("metamorphic/%d", u), func() {
			for i := u * per; i < (u+1)*per && i < cases && !c.Stopped(); i++ {
				r := c.Rand("metamorphic", i)
				n := sizeFor(c, r, i)
				var g *rg.G
				if i%3 == 0 {
					g = rg.New(n)
					want := int((0.9 + 1.3*r.Float()) * float64(n))
					for t := 0; t < 20*want && g.M() < want; t++ {
						a := r.Intn(n)
						g.Add(a, (a+1+r.Intn(8))%n)
					}
				} else {
					e, err := gens[r.Intn(len(gens))].f(r, n)
					if err != nil {
						continue
					}
					g = e.Graph()
					for t := r.Intn(3); t > 0; t-- {
						g.Add(r.Intn(g.N), r.Intn(g.N))
					}
				}
				m.nontrivial(g)
				id := gid(g)
				det := func(rel string, h *rg.G) func(string) interface{} {
					return func(repr string) interface{} {
						d := map[string]interface{}{"workload": "metamorphic", "relation": rel, "repr": repr}
						graphJSON(d, g)
						if h != nil {
							t := map[string]interface{}{}
							graphJSON(t, h)
							d["transformed"] = t
						}
						return d
					}
				}
				base, ok, _ := m.call(g, id, dense, "IsPlanar returns", det("base", nil))
				if !ok {
					continue
				}
				if base {
					c.Obs("metamorphic:base_planar", 1)
				} else {
					c.Obs("metamorphic:base_nonplanar", 1)
				}
				check := func(rel string, h *rg.G, repr int, mustEqual bool) bool {
					got, ok, _ := m.call(h, gid(h), repr, "IsPlanar returns", det(rel, h))
					if !ok {
						return false
					}
					c.Eval(1)
					c.Obs("metamorphic:pairs", 1)
					c.Obs("metamorphic:"+rel, 1)
					if got != base && (mustEqual || base) {
						c.Violation("IsPlanar|metamorphic|"+rel+"|"+id, det(rel, h)(map[int]string{dense: "dense", sparse: "sparse"}[repr]),
							fmt.Sprintf("IsPlanar(g) = %v but IsPlanar(%s of g) = %v", base, rel, got),
							"the statement demands the same answer (for a subgraph: planar stays planar)")
						return false
					}
					return true
				}
				if !check("other representation", g, sparse, true) {
					continue
				}
				if !check("relabelling", g.Induced(r.Perm(g.N)), dense, true) {
					continue
				}
				if !check("reversal", g.Induced(reversed(g.N)), sparse, true) {
					continue
				}
				// subdivide
				d := g.Copy()
				for t := 1 + r.Intn(4); t > 0 && d.M() > 0; t-- {
					es := d.Edges()
					ed := es[r.Intn(len(es))]
					d = d.AddVertex([]int{ed[0], ed[1]})
					d.Del(ed[0], ed[1])
				}
				if !check("subdivision", d, dense, true) {
					continue
				}
				// pendant + isolated
				d = g.Copy()
				for t := 1 + r.Intn(3); t > 0; t-- {
					d = d.AddVertex([]int{r.Intn(d.N)})
				}
				d = d.AddVertex(nil)
				if !check("pendant and isolated vertices", d.Induced(r.Perm(d.N)), dense, true) {
					continue
				}
				// subgraph
				d = g.Copy()
				for _, ed := range g.Edges() {
					if r.Bool(0.2) {
						d.Del(ed[0], ed[1])
					}
				}
				check("subgraph", d, sparse, false)
			}
		})
	}
}

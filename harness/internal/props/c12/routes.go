package c12

// The two construction routes of the property -- dawg.New(list) and
// Builder.Add word by word -- on ARBITRARY lists (repeats, disorder, nil and
// empty words), not only on the strictly increasing ones.  The model is the
// property statement itself: a list is acceptable iff every word is strictly
// greater than its predecessor (a nil and an empty slice are the same word).
//   - New must build the automaton of an acceptable list and return an error
//     for every other list;
//   - a Builder fed the same list must reject exactly the additions the model
//     rejects and finish the automaton of the accepted ones;
//   - for an acceptable list both routes build the same automaton;
//   - a rejected New leaves nothing behind: New of the repaired list (the
//     distinct words, sorted) right afterwards builds that set.

import (
	"bytes"
	"fmt"
	"strconv"

	"github.com/Tom-Johnston/mamba/dawg"

	"verif/internal/engine"
	"verif/internal/oracle/refdawg"
	"verif/internal/props/c12/dawgx"
)

// the ways a caller can hand a list to New
var formNames = []string{
	"fresh slices",
	"all words are sub-slices of one backing buffer (capacity reaches into the following words)",
	"the list has spare capacity whose entries repeat the last word",
	"fresh slices, overwritten by the caller after New has returned",
}

// listClass describes a list for the model, the violation keys and the evidence.
type listClass struct {
	acceptable bool
	firstBad   int    // index of the first word that is not greater than its predecessor (-1 if none)
	kind       string // kind of that pair
	pos        string // where that pair sits in the list
	badPairs   int
	farRepeat  bool // some word occurs again later with other words in between
}

func classify(ops []hop) listClass {
	cl := listClass{acceptable: true, firstBad: -1}
	n := len(ops)
	for i := 1; i < n; i++ {
		a, b := ops[i-1].w, ops[i].w
		if bytes.Compare(a, b) < 0 {
			continue
		}
		cl.badPairs++
		if cl.firstBad >= 0 {
			continue
		}
		cl.acceptable = false
		cl.firstBad = i
		switch {
		case bytes.Equal(a, b) && len(a) == 0:
			cl.kind = "the-empty-word-twice"
		case bytes.Equal(a, b):
			cl.kind = "equal-neighbours"
		case len(b) < len(a) && bytes.Equal(a[:len(b)], b):
			cl.kind = "a-prefix-after-its-extension"
		default:
			cl.kind = "decreasing-neighbours"
		}
		switch {
		case n == 2:
			cl.pos = "the-only-pair"
		case i == 1:
			cl.pos = "at-the-start"
		case i == n-1:
			cl.pos = "at-the-end"
		default:
			cl.pos = "in-the-middle"
		}
	}
	if !cl.acceptable && n <= 64 {
	outer:
		for i := 2; i < n; i++ {
			for j := 0; j < i-1; j++ {
				if bytes.Equal(ops[i].w, ops[j].w) && !bytes.Equal(ops[i-1].w, ops[i].w) {
					cl.farRepeat = true
					break outer
				}
			}
		}
	}
	return cl
}

func listDetail(workload, callKey string, ops []hop, form int, cl listClass, extra map[string]interface{}) map[string]interface{} {
	d := map[string]interface{}{"workload": workload, "call": callKey, "n_words_in_list": len(ops), "list_handed_over_as": formNames[form], "model_list_is_strictly_increasing": cl.acceptable}
	if len(ops) <= 300 {
		d["list"] = histString(ops)
	} else {
		d["list_first_words"] = histString(ops[:40])
	}
	if cl.firstBad >= 0 {
		lo, hi := cl.firstBad-3, cl.firstBad+3
		if lo < 0 {
			lo = 0
		}
		if hi > len(ops) {
			hi = len(ops)
		}
		d["first_word_not_greater_than_its_predecessor"] = map[string]interface{}{"index": cl.firstBad, "kind": cl.kind, "where": cl.pos, "list_around_it": histString(ops[lo:hi]), "from_index": lo}
	}
	for k, v := range extra {
		d[k] = v
	}
	return d
}

// handOver builds the argument of New in the given form; full is the same
// list including the entries behind its end (form 2).
func handOver(ops []hop, form int) (in [][]byte, full [][]byte) {
	n := len(ops)
	switch form {
	case 1:
		total := 0
		for _, o := range ops {
			total += len(o.w)
		}
		buf := make([]byte, 0, total+4)
		in = make([][]byte, n)
		for i, o := range ops {
			if o.isNil {
				continue
			}
			at := len(buf)
			buf = append(buf, o.w...)
			in[i] = buf[at:len(buf)] // capacity runs on into the words that follow
		}
		return in, in
	case 2:
		full = make([][]byte, n, n+3)
		for i, o := range ops {
			if !o.isNil {
				full[i] = append([]byte{}, o.w...)
			}
		}
		in = full
		full = full[:n+3]
		for i := n; i < n+3; i++ {
			if n > 0 {
				full[i] = append([]byte{}, ops[n-1].w...)
			} else {
				full[i] = []byte{}
			}
		}
		return in, full
	}
	if n == 0 && form == 0 {
		return nil, nil // the nil list
	}
	in = make([][]byte, n)
	for i, o := range ops {
		if !o.isNil {
			in[i] = append([]byte{}, o.w...)
		}
	}
	return in, in
}

// depth of a route case
const (
	newOnlyIfBad  = iota // a list the model rejects goes to New only (both routes if the model accepts it)
	bothRoutes           // New and a Builder
	bothAndRepair        // New, a Builder, and after a rejected New the repaired list through New again
)

// routeCase gives one list to both routes.
func routeCase(c *engine.Ctx, workload, callKey string, ops []hop, form, depth int) bool {
	cl := classify(ops)
	// the same verdict from the other formulation of the model (an incremental builder that rejects nothing)
	bm := &refdawg.BuilderModel{}
	rejects := 0
	for _, o := range ops {
		if !bm.Add(o.w) {
			rejects++
		}
	}
	if (rejects == 0) != cl.acceptable {
		c.Inconclusive("routes: the two formulations of the model disagree on " + histString(ops))
		return false
	}
	det := func(extra map[string]interface{}) map[string]interface{} {
		return listDetail(workload, callKey, ops, form, cl, extra)
	}
	in, full := handOver(ops, form)

	// ---- route A: dawg.New ----
	var d *dawg.Dawg
	var err error
	pi := c.Call(callKey+"|New", func() { d, err = dawg.New(in) })
	c.Eval(1)
	c.Obs("routes:lists_given_to_New", 1)
	if pi != nil {
		w := "acceptable-list"
		if !cl.acceptable {
			w = "first-bad-pair=" + cl.kind + "|" + cl.pos
		}
		dawgx.Report(c, nil, pi, "dawg.New", "list:"+w, det(nil))
		return false
	}
	// New reads its argument, it does not rewrite it
	for i := range full {
		var want []byte
		if i < len(ops) {
			want = ops[i].w
		} else if len(ops) > 0 {
			want = ops[len(ops)-1].w
		}
		if !bytes.Equal(full[i], want) || (i < len(ops) && ops[i].isNil && full[i] != nil) {
			c.Violation("dawg.New|modified-its-argument", det(nil), fmt.Sprintf("entry %d of the caller's list now reads %q", i, full[i]), fmt.Sprintf("%q as before the call", want))
			return false
		}
	}
	if !cl.acceptable {
		if err == nil {
			obs := "New returned no error"
			if d != nil {
				var nw int
				if p2 := c.Call(callKey+"|New|NumberOfWords", func() { nw = d.NumberOfWords() }); p2 == nil {
					distinct := refdawg.FromWords(opsWords(ops)).Len()
					obs += fmt.Sprintf(" and a Dawg with NumberOfWords()=%d (the list has %d entries, %d distinct words)", nw, len(ops), distinct)
				}
			} else {
				obs += " and a nil Dawg"
			}
			c.Violation("dawg.New|wrongly-accepted|first-bad-pair="+cl.kind+"|"+cl.pos, det(nil), obs,
				fmt.Sprintf("an error: entry %d (%s) is not greater than entry %d (%s) -- the words must be strictly increasing, a Builder rejects that addition", cl.firstBad, ops[cl.firstBad], cl.firstBad-1, ops[cl.firstBad-1]))
			return false
		}
		c.Obs("routes:New_rejected_a_bad_list", 1)
		c.Obs("routes:New_rejected:"+cl.kind, 1)
		c.Obs("routes:New_rejected:first_bad_pair_"+cl.pos, 1)
		if cl.badPairs > 1 {
			c.Obs("routes:New_rejected:lists_with_several_bad_pairs", 1)
		}
		if cl.farRepeat {
			c.Obs("routes:New_rejected:a_word_repeated_with_other_words_in_between", 1)
		}
		if cl.kind == "the-empty-word-twice" {
			c.Obs("routes:New_rejected:the-empty-word-twice:"+ops[cl.firstBad-1].String()+"_then_"+ops[cl.firstBad].String(), 1)
		}
		if d != nil {
			c.Obs("routes:New_returned_a_Dawg_together_with_the_error(recorded, not judged)", 1)
		}
		if depth == newOnlyIfBad {
			c.Obs("routes:bad_lists_given_to_New_only", 1)
			return true
		}
	} else {
		set := &refdawg.Set{Words: bm.Accepted}
		witness := dawgx.Witness(set.Words)
		if err != nil || d == nil {
			c.Violation("dawg.New|error|"+witness, det(nil), fmt.Sprintf("err=%v dawg=%v", err, d != nil), "a Dawg and no error: the words are strictly increasing")
			return false
		}
		if form == 3 {
			for _, w := range in {
				for i := range w {
					w[i] = '#'
				}
			}
		}
		f, pi, api := dawgx.FullCheck(c, callKey+"|New", d, set, dawgx.CheckOpts{Probes: routeProbes(ops)})
		if f != nil || pi != nil {
			dawgx.Report(c, f, pi, api, witness, det(map[string]interface{}{"route": "dawg.New"}))
			return false
		}
		c.Obs("routes:New_accepted_a_good_list", 1)
		switch {
		case len(ops) == 0 && in == nil:
			c.Obs("routes:New_accepted:the_nil_list", 1)
		case len(ops) == 0:
			c.Obs("routes:New_accepted:the_empty_non-nil_list", 1)
		}
	}

	// ---- route B: a Builder fed the same list ----
	db, ok := runHistoryDawg(c, workload+" (route: Builder.Add word by word)", callKey+"|route=Builder", ops, 0, 0)
	if !ok {
		return false
	}
	c.Obs("routes:lists_given_to_both_routes", 1)
	c.Obs("routes:list_handed_to_New_as:"+formNames[form], 1)
	if !cl.acceptable && depth < bothAndRepair {
		return true
	}
	if !cl.acceptable {
		// a rejected New leaves nothing behind: the repaired list is built right afterwards
		set := refdawg.FromWords(opsWords(ops))
		d2, err2, pi := dawgx.Build(c, callKey+"|New(repaired)", set.Words)
		c.Eval(1)
		if pi != nil {
			dawgx.Report(c, nil, pi, "dawg.New", "after-a-rejected-list", det(map[string]interface{}{"second_call": "New(the distinct words of the list, sorted)"}))
			return false
		}
		if err2 != nil || d2 == nil {
			c.Violation("dawg.New|error|after-a-rejected-list", det(map[string]interface{}{"second_call": "New(the distinct words of the list, sorted)"}), fmt.Sprintf("err=%v dawg=%v", err2, d2 != nil), "a Dawg and no error: the words are strictly increasing")
			return false
		}
		f, pi, api := dawgx.FullCheck(c, callKey+"|New(repaired)", d2, set, dawgx.CheckOpts{Probes: routeProbes(ops), SkipEncode: true})
		if f != nil || pi != nil {
			dawgx.Report(c, f, pi, "New-after-a-rejected-list:"+api, dawgx.Witness(set.Words), det(map[string]interface{}{"second_call": "New(the distinct words of the list, sorted)"}))
			return false
		}
		c.Obs("routes:New_of_the_repaired_list_right_after_a_rejected_New_checked", 1)
		return true
	}
	// both routes accepted the list: equal automata
	na, pi := dawgx.Nodes(c, callKey+"|New", d)
	if pi != nil {
		dawgx.Report(c, nil, pi, "VerifNodes", "routes", det(nil))
		return false
	}
	nb, pi := dawgx.Nodes(c, callKey+"|route=Builder", db)
	if pi != nil {
		dawgx.Report(c, nil, pi, "VerifNodes", "routes", det(nil))
		return false
	}
	c.Eval(1)
	diff, sameIDs := dawgx.NodesSameShape(na, nb)
	if diff != "" {
		c.Violation("routes|automata-differ|"+dawgx.Witness(bm.Accepted), det(nil), "the Dawg of New and the Dawg of a Builder fed the same words differ: "+diff, "the same automaton")
		return false
	}
	c.Obs("routes:good_lists_with_equal_automata_by_both_routes", 1)
	if sameIDs {
		c.Obs("routes:equal_automata_with_equal_node_ids(recorded, not judged)", 1)
	}
	return true
}

// routeProbes: the words of the list themselves and their one-letter extensions.
func routeProbes(ops []hop) [][]byte {
	var ps [][]byte
	for _, o := range ops {
		ps = append(ps, o.w, append(append([]byte{}, o.w...), 'a'))
		if len(ps) >= 200 {
			break
		}
	}
	return ps
}

var routeTokens = []hop{{nil, true}, {[]byte{}, false}, {[]byte("a"), false}, {[]byte("aa"), false}, {[]byte("ab"), false}, {[]byte("b"), false}, {[]byte("ba"), false}, {[]byte("bb"), false}}

// plant puts one defect of the given kind into the sorted word list ws near
// position class where (0 start, 1 somewhere, 2 end).  The model, not the
// planter, decides afterwards whether the list is still acceptable.
var plantNames = []string{
	"a word twice in a row",
	"a word repeated later with other words in between",
	"two neighbours swapped",
	"a word moved to the front",
	"a word moved to the end",
	"the empty word twice in front (nil / empty variants)",
	"a proper prefix of a word right after it",
	"a word with its last byte lowered right after it",
	"a random word at a random place",
	"an earlier word once more at the very end",
	"no defect (control)",
	"the list reversed",
}

func plant(rg *engine.Rng, ws [][]byte, alpha []byte, kind, where int) []hop {
	ops := wordsOps(ws)
	n := len(ops)
	at := func(lo, hi int) int { // an index in [lo,hi) chosen by the position class
		if hi <= lo {
			return lo
		}
		switch where {
		case 0:
			return lo
		case 2:
			return hi - 1
		}
		return lo + rg.Intn(hi-lo)
	}
	insert := func(i int, h hop) {
		ops = append(ops, hop{})
		copy(ops[i+1:], ops[i:])
		ops[i] = h
	}
	remove := func(i int) hop {
		h := ops[i]
		ops = append(ops[:i], ops[i+1:]...)
		return h
	}
	if n == 0 && kind != 5 && kind != 8 {
		return ops
	}
	switch kind {
	case 0:
		i := at(0, n)
		insert(i+1, ops[i])
	case 1:
		if n >= 2 {
			i := at(0, n-1)
			j := i + 2 + rg.Intn(n-i-1) // i+2..n: at least one other word in between
			if where == 2 {
				i, j = n-2, n
			}
			insert(j, ops[i])
		}
	case 2:
		if n >= 2 {
			i := at(0, n-1)
			ops[i], ops[i+1] = ops[i+1], ops[i]
		}
	case 3:
		if n >= 2 {
			h := remove(at(1, n))
			insert(0, h)
		}
	case 4:
		if n >= 2 {
			h := remove(at(0, n-1))
			ops = append(ops, h)
		}
	case 5:
		if n > 0 && len(ops[0].w) == 0 {
			remove(0)
		}
		v := rg.Intn(4)
		insert(0, hop{[]byte{}, v&1 == 1})
		insert(0, hop{[]byte{}, v&2 == 2})
		for i := 0; i < 2; i++ {
			if ops[i].isNil {
				ops[i].w = nil
			}
		}
	case 6:
		cand := []int{}
		for i, o := range ops {
			if len(o.w) > 0 {
				cand = append(cand, i)
			}
		}
		if len(cand) > 0 {
			i := cand[at(0, len(cand))]
			insert(i+1, hop{append([]byte{}, ops[i].w[:rg.Intn(len(ops[i].w))]...), false})
		}
	case 7:
		cand := []int{}
		for i, o := range ops {
			if len(o.w) > 0 && o.w[len(o.w)-1] > 0 {
				cand = append(cand, i)
			}
		}
		if len(cand) > 0 {
			i := cand[at(0, len(cand))]
			w := append([]byte{}, ops[i].w...)
			w[len(w)-1]--
			insert(i+1, hop{w, false})
		}
	case 8:
		w := make([]byte, rg.Intn(5))
		for j := range w {
			w[j] = alpha[rg.Intn(len(alpha))]
		}
		insert(at(0, n+1), hop{w, false})
	case 9:
		ops = append(ops, ops[at(0, n)])
	case 10:
	case 11:
		for i, j := 0, n-1; i < j; i, j = i+1, j-1 {
			ops[i], ops[j] = ops[j], ops[i]
		}
	}
	// the empty word of the list is handed over as nil now and then
	for i := range ops {
		if !ops[i].isNil && len(ops[i].w) == 0 && kind != 5 && rg.Bool(0.5) {
			ops[i] = hop{nil, true}
		}
	}
	return ops
}

const (
	exhaustiveRoutes5     = "exhaustive:all lists of length<=5 over {nil,\"\",a,aa,ab,b,ba,bb} (repeats and disorder included) given to dawg.New, length<=4 in each of 4 ways of handing the list over; to a Builder too: all of length<=3, a quarter of length 4, every strictly increasing one"
	exhaustiveOneChange7  = "exhaustive:every subset of the 7 words of length<=2 over {a,b}, sorted, with one change (any word of the universe or nil inserted at any place / two neighbours swapped), given to dawg.New and to a Builder"
	exhaustiveOneChange15 = "exhaustive:every subset of <=3 of the 15 words of length<=3 over {a,b}, sorted, with one change, given to dawg.New (and to a Builder if still strictly increasing)"
)

func constructionRoutes(c *engine.Ctx) {
	// 1. exhaustive: ALL lists of length <= 4 (quick: 5 with the form rotating; thorough: 5 in every form, 6 rotating)
	//    over nil and the 7 words of length <= 2 over {a,b}, shortest first
	label := "all lists (repeats and disorder included) over {nil,\"\",a,aa,ab,b,ba,bb}"
	maxL := c.Pick(5, 6)
	for L := 0; L <= maxL; L++ {
		firsts := []int{-1}
		if L >= 5 {
			firsts = []int{0, 1, 2, 3, 4, 5, 6, 7}
		}
		forms := []int{0, 1, 2, 3}
		if L == maxL {
			forms = []int{-1} // one form per list, rotating
		}
		for _, form := range forms {
			for _, first := range firsts {
				L, form, first := L, form, first
				c.Unit(fmt.Sprintf("routes/lists8/len=%d/form=%d/first=%d", L, form, first), func() {
					seq := make([]hop, 0, L)
					count := 0
					var rec func()
					rec = func() {
						if len(seq) == L {
							f, depth := form, newOnlyIfBad
							if f < 0 {
								f = count % len(formNames)
							} else if L <= 3 || f == count%len(formNames) {
								depth = bothAndRepair
							}
							count++
							routeCase(c, label, fmt.Sprintf("routes|lists8|form=%d|%s", f, histString(seq)), seq, f, depth)
							return
						}
						for ti, t := range routeTokens {
							if len(seq) == 0 && first >= 0 && ti != first {
								continue
							}
							if c.Stopped() {
								return
							}
							seq = append(seq, t)
							rec()
							seq = seq[:len(seq)-1]
						}
					}
					rec()
					c.Obs("routes:exhaustive_lists", count)
					if L == 0 && form == 0 {
						c.Obs(exhaustiveRoutes5, 1)
						c.Sample("routes-exhaustive", map[string]interface{}{"tokens": histString(routeTokens), "max_len": maxL, "list_handed_over_as": formNames})
					}
					if L == 6 && first == 0 {
						c.Obs("exhaustive:all lists of length 6 over {nil,\"\",a,aa,ab,b,ba,bb} given to dawg.New (and to a Builder if strictly increasing); length 5 in each of 4 ways of handing the list over", 1)
					}
				})
			}
		}
	}

	// 2. exhaustive: sorted subsets with ONE change -- any word of the universe (or nil) inserted at any place,
	//    any two neighbours swapped: (a) all 128 subsets of the 7 words of length <= 2 over {a,b}, both routes and
	//    the repaired list; (b) the subsets of <= 3 (thorough: <= 6) of the 15 words of length <= 3 over {a,b}
	oneChange(c, "one-change7", exhaustiveOneChange7, LifeUniverse7(), 7, 4, bothAndRepair)
	oneChange(c, "one-change15", exhaustiveOneChange15, Universe15(), 3, 16, newOnlyIfBad)
	if c.Thorough() {
		oneChange(c, "one-change15-more", "exhaustive:every subset of 4..6 of the 15 words of length<=3 over {a,b}, sorted, with one change, given to dawg.New (and to a Builder if still strictly increasing)", Universe15(), 6, 64, newOnlyIfBad)
	}

	// 3. seeded longer lists with one planted defect
	nPl := c.Pick(2400, 24000)
	perUnit := 60
	for un := 0; un*perUnit < nPl; un++ {
		un := un
		c.Unit(fmt.Sprintf("routes/planted/%d", un), func() {
			for i := un * perUnit; i < (un+1)*perUnit && i < nPl; i++ {
				rg := c.Rand("c12-routes", i)
				maxWords := 40
				switch {
				case i%12 == 5:
					maxWords = 400
				case i%60 == 7:
					maxWords = 2000
				}
				set, alpha, info := refdawg.GenSet(rg, maxWords)
				kind := i % len(plantNames)
				where := (i / len(plantNames)) % 3
				ops := plant(rg, set.Words, alpha, kind, where)
				form := (i / 7) % len(formNames)
				depth := bothRoutes
				if i%2 == 0 {
					depth = bothAndRepair
				}
				ok := routeCase(c, "seeded list over "+info.String()+" with one planted change: "+plantNames[kind], fmt.Sprintf("routes|planted#%d", i), ops, form, depth)
				if c.Stopped() {
					return
				}
				if !ok {
					continue
				}
				c.Obs("routes:planted:"+plantNames[kind], 1)
				c.ObsMax("routes:words_in_a_planted_list", len(ops))
				if i < 2 {
					o := ops
					if len(o) > 14 {
						o = o[:14]
					}
					c.Sample("routes-planted", map[string]interface{}{"gen": info.String(), "planted": plantNames[kind], "where": []string{"start", "somewhere", "end"}[where], "first_words": histString(o), "n_words": len(ops), "list_handed_over_as": formNames[form]})
				}
			}
		})
	}

	// 4. the fixed families with the planted defects at the start, somewhere and at the end (quick: one of the three
	//    places per defect, rotating; thorough: all three)
	for fi, fam := range FixedFamilies() {
		fi, fam := fi, fam
		if fam.Set.Len() > 130 && !c.Thorough() {
			continue
		}
		c.Unit("routes/family/"+fam.Name, func() {
			rg := engine.NewRng(uint64(7000 + fi)) // fixed part: independent of VERIF_SEED
			k := 0
			for kind := range plantNames {
				for where := 0; where < 3; where++ {
					if !c.Thorough() && (kind+fi)%3 != where {
						continue
					}
					ops := plant(rg, fam.Set.Words, fam.Alpha, kind, where)
					depth := bothRoutes
					if k%3 == 0 {
						depth = bothAndRepair
					}
					routeCase(c, "family "+fam.Name+" with one planted change: "+plantNames[kind], "routes|family|"+fam.Name+"|"+strconv.Itoa(kind)+"|"+strconv.Itoa(where), ops, k%len(formNames), depth)
					k++
					if c.Stopped() {
						return
					}
				}
			}
			c.Obs("routes:family_lists", k)
		})
	}
}

// oneChange gives every subset of at most maxSub words of the universe u,
// sorted, with one change to the routes: any word of u (or nil) inserted at any
// place, any two neighbours swapped.  The model decides which of the lists are
// still strictly increasing.
func oneChange(c *engine.Ctx, name, exhaustiveLabel string, u [][]byte, maxSub, blocks, depth int) {
	workload := fmt.Sprintf("subsets of <=%d of the %d words %s, sorted, with one change (a word of the universe or nil inserted at any place / two neighbours swapped)", maxSub, len(u), refdawg.QuoteList(u, 4))
	for blk := 0; blk < blocks; blk++ {
		blk := blk
		c.Unit(fmt.Sprintf("routes/%s/%02d", name, blk), func() {
			count := 0
			per := (1 << uint(len(u))) / blocks
			for mask := blk * per; mask < (blk+1)*per; mask++ {
				if popcount(mask) > maxSub {
					continue
				}
				ws := SubsetOf(u, mask).Words
				n := len(ws)
				run := func(ops []hop, what string) {
					form := count % len(formNames)
					count++
					routeCase(c, workload, fmt.Sprintf("routes|%s|mask=%d|%s|form=%d", name, mask, what, form), ops, form, depth)
				}
				for p := 0; p <= n && !c.Stopped(); p++ {
					for t := -1; t < len(u); t++ {
						ops := wordsOps(ws)
						ops = append(ops, hop{})
						copy(ops[p+1:], ops[p:])
						if t < 0 {
							ops[p] = hop{nil, true}
						} else {
							ops[p] = hop{u[t], false}
						}
						run(ops, fmt.Sprintf("insert#%d@%d", t, p))
					}
				}
				for p := 0; p+1 < n && !c.Stopped(); p++ {
					ops := wordsOps(ws)
					ops[p], ops[p+1] = ops[p+1], ops[p]
					run(ops, fmt.Sprintf("swap@%d", p))
				}
				if c.Stopped() {
					return
				}
			}
			c.Obs("routes:exhaustive_one_change_lists", count)
			if blk == 0 {
				c.Obs(exhaustiveLabel, 1)
			}
		})
	}
}

func popcount(x int) int {
	n := 0
	for ; x != 0; x &= x - 1 {
		n++
	}
	return n
}

// Demonstration for C03 change 6 (GraphIterator.Value no longer returns the graph the DFS is working on; it returns a
// snapshot owned by the iterator, refreshed by every call of Value, so a caller who modifies the returned graph
// against the documentation can no longer corrupt the search, and the pruning callbacks see another object).
//
// Copy to graph/search/demo_test.go in the library and run from the repository root:
//
//	GOFLAGS=-mod=mod GOPROXY=off GOSUMDB=off GOTOOLCHAIN=local \
//	  go test -vet=off -count=1 -timeout 300s -run 'TestDemo' -v ./graph/search/
//
// TestDemoProperty checks the property C03 itself (brute force isomorphism keys, n <= 7, several m, All and
// WithPruning with two hereditary predicates placed as preprune and as prune, well-formedness of every value) and
// passes on both trees.
// TestDemoIncidentalAliasing pins the OLD aliasing: (1) Value() returns the very *DenseGraph that was last shown to
// the prune callback, (2) a pointer fetched with Value() before the loop is a live view of the search, (3) clearing
// the returned graph (forbidden by the documentation) derails the search.  It passes on the clean tree and fails
// with the change.
package search_test

import (
	"fmt"
	"reflect"
	"testing"

	"github.com/Tom-Johnston/mamba/graph"
	"github.com/Tom-Johnston/mamba/graph/search"
)

// numClasses[n] is the number of graphs on n vertices up to isomorphism (OEIS A000088).
var numClasses = []int{1, 1, 2, 4, 11, 34, 156, 1044}

func demoPerms(n int) [][]int {
	var out [][]int
	p := make([]int, n)
	for i := range p {
		p[i] = i
	}
	var rec func(k int)
	rec = func(k int) {
		if k == n {
			out = append(out, append([]int(nil), p...))
			return
		}
		for i := k; i < n; i++ {
			p[k], p[i] = p[i], p[k]
			rec(k + 1)
			p[k], p[i] = p[i], p[k]
		}
	}
	rec(0)
	return out
}

var demoPermCache = map[int][][]int{}

// demoKey is a brute force complete isomorphism invariant: the smallest adjacency bit mask over all relabellings.
func demoKey(g *graph.DenseGraph) uint32 {
	n := g.N()
	perms, ok := demoPermCache[n]
	if !ok {
		perms = demoPerms(n)
		demoPermCache[n] = perms
	}
	type pair struct{ i, j int }
	var edges []pair
	for j := 0; j < n; j++ {
		for i := 0; i < j; i++ {
			if g.IsEdge(i, j) {
				edges = append(edges, pair{i, j})
			}
		}
	}
	best := ^uint32(0)
	for _, p := range perms {
		x := uint32(0)
		for _, e := range edges {
			a, b := p[e.i], p[e.j]
			if a > b {
				a, b = b, a
			}
			x |= 1 << uint((b*(b-1))/2+a)
		}
		if x < best {
			best = x
		}
	}
	return best
}

// demoWellFormed checks that g is a consistent DenseGraph on n vertices.
func demoWellFormed(g *graph.DenseGraph, n int) error {
	if g.NumberOfVertices != n || g.N() != n {
		return fmt.Errorf("NumberOfVertices = %d, want %d", g.NumberOfVertices, n)
	}
	if len(g.Edges) != n*(n-1)/2 {
		return fmt.Errorf("len(Edges) = %d, want %d", len(g.Edges), n*(n-1)/2)
	}
	if len(g.DegreeSequence) != n {
		return fmt.Errorf("len(DegreeSequence) = %d, want %d", len(g.DegreeSequence), n)
	}
	deg := make([]int, n)
	m := 0
	for j := 0; j < n; j++ {
		for i := 0; i < j; i++ {
			if g.Edges[(j*(j-1))/2+i] != 0 {
				if !g.IsEdge(i, j) || !g.IsEdge(j, i) {
					return fmt.Errorf("IsEdge disagrees with Edges at %d,%d", i, j)
				}
				deg[i]++
				deg[j]++
				m++
			} else if g.IsEdge(i, j) || g.IsEdge(j, i) {
				return fmt.Errorf("IsEdge disagrees with Edges at %d,%d", i, j)
			}
		}
	}
	if m != g.NumberOfEdges || m != g.M() {
		return fmt.Errorf("NumberOfEdges = %d, want %d", g.NumberOfEdges, m)
	}
	if n > 0 && !reflect.DeepEqual(deg, g.DegreeSequence) {
		return fmt.Errorf("DegreeSequence = %v, want %v", g.DegreeSequence, deg)
	}
	return nil
}

// demoCollect runs all m shards and returns key -> number of times a graph of that class was yielded.
func demoCollect(t *testing.T, n, m int, mk func(a int) *search.GraphIterator) map[uint32]int {
	seen := map[uint32]int{}
	for a := 0; a < m; a++ {
		it := mk(a)
		for it.Next() {
			g := it.Value()
			if err := demoWellFormed(g, n); err != nil {
				t.Fatalf("n=%d a=%d m=%d: malformed graph: %v", n, a, m, err)
			}
			seen[demoKey(g)]++
		}
	}
	return seen
}

func hasTriangle(g *graph.DenseGraph) bool {
	n := g.N()
	for i := 0; i < n; i++ {
		for j := i + 1; j < n; j++ {
			if !g.IsEdge(i, j) {
				continue
			}
			for k := j + 1; k < n; k++ {
				if g.IsEdge(i, k) && g.IsEdge(j, k) {
					return true
				}
			}
		}
	}
	return false
}

func maxDegreeAbove2(g *graph.DenseGraph) bool {
	for _, d := range g.Degrees() {
		if d > 2 {
			return true
		}
	}
	return false
}

func never(g *graph.DenseGraph) bool { return false }

// demoClassesSatisfying enumerates every labelled graph on n vertices to compute, independently of the
// library's search, the set of classes which are not pruned by the predicate.
func demoClassesSatisfying(n int, pruned func(*graph.DenseGraph) bool) map[uint32]bool {
	out := map[uint32]bool{}
	e := n * (n - 1) / 2
	for mask := 0; mask < 1<<uint(e); mask++ {
		g := graph.NewDense(n, nil)
		for j := 0; j < n; j++ {
			for i := 0; i < j; i++ {
				if mask>>uint((j*(j-1))/2+i)&1 == 1 {
					g.AddEdge(i, j)
				}
			}
		}
		if !pruned(g) {
			out[demoKey(g)] = true
		}
	}
	return out
}

func TestDemoProperty(t *testing.T) {
	preds := map[string]func(*graph.DenseGraph) bool{"triangle": hasTriangle, "maxdeg>2": maxDegreeAbove2}
	for n := 0; n <= 7; n++ {
		ms := []int{1, 2, 3, 4, 7}
		if n == 7 {
			ms = []int{1, 2, 3}
		}
		// The classes which do NOT get pruned, per predicate. For n <= 6 computed without the library's search (all
		// labelled graphs), for n = 7 from the unpruned m = 1 run (which is itself checked against the class count).
		want := map[string]map[uint32]bool{}
		if n <= 6 {
			all := demoClassesSatisfying(n, never)
			if len(all) != numClasses[n] {
				t.Fatalf("demo brute force is wrong: n=%d %d classes", n, len(all))
			}
			for name, pred := range preds {
				want[name] = demoClassesSatisfying(n, pred)
			}
		}
		for _, m := range ms {
			seen := demoCollect(t, n, m, func(a int) *search.GraphIterator { return search.All(n, a, m) })
			if len(seen) != numClasses[n] {
				t.Fatalf("All n=%d m=%d: %d classes, want %d", n, m, len(seen), numClasses[n])
			}
			for k, c := range seen {
				if c != 1 {
					t.Fatalf("All n=%d m=%d: class %x yielded %d times", n, m, k, c)
				}
			}
			if m == 1 && n > 6 {
				for name, pred := range preds {
					want[name] = map[uint32]bool{}
					it := search.All(n, 0, 1)
					for it.Next() {
						if !pred(it.Value()) {
							want[name][demoKey(it.Value())] = true
						}
					}
				}
			}
			for name, pred := range preds {
				for _, place := range []string{"preprune", "prune"} {
					pred, place := pred, place
					seen := demoCollect(t, n, m, func(a int) *search.GraphIterator {
						if place == "preprune" {
							return search.WithPruning(n, a, m, pred, never)
						}
						return search.WithPruning(n, a, m, never, pred)
					})
					if len(seen) != len(want[name]) {
						t.Fatalf("WithPruning %s as %s n=%d m=%d: %d classes, want %d", name, place, n, m, len(seen), len(want[name]))
					}
					for k, c := range seen {
						if c != 1 || !want[name][k] {
							t.Fatalf("WithPruning %s as %s n=%d m=%d: class %x yielded %d times, wanted=%v", name, place, n, m, k, c, want[name][k])
						}
					}
				}
			}
		}
	}
}

func TestDemoIncidentalAliasing(t *testing.T) {
	const n = 5

	// (1) The object shown to prune is the object returned by Value.
	var last *graph.DenseGraph
	it := search.WithPruning(n, 0, 1, never, func(g *graph.DenseGraph) bool { last = g; return false })
	same, total := 0, 0
	for it.Next() {
		total++
		if it.Value() == last {
			same++
		}
	}
	t.Logf("(1) Value() == graph last shown to prune in %d of %d yields", same, total)
	if total != numClasses[n] || same != total {
		t.Errorf("(1) old behaviour: Value() is the graph shown to prune in all %d yields; got %d of %d", numClasses[n], same, total)
	}

	// (2) A pointer fetched once before the loop follows the search.
	it = search.All(n, 0, 1)
	live := it.Value()
	keys := map[uint32]bool{}
	for it.Next() {
		// Value is deliberately not called again.
		if live.NumberOfVertices == n {
			keys[demoKey(live)] = true
		}
	}
	t.Logf("(2) pointer fetched before the loop showed %d different classes on %d vertices", len(keys), n)
	if len(keys) != numClasses[n] {
		t.Errorf("(2) old behaviour: the pointer fetched before the loop is a live view and shows all %d classes; got %d", numClasses[n], len(keys))
	}

	// (3) Out of contract: wiping the edges of the returned value changes what the search does next.
	count := 0
	func() {
		defer func() {
			if r := recover(); r != nil {
				t.Logf("(3) the search panicked: %v", r)
				count = -1
			}
		}()
		it := search.All(n, 0, 1)
		for it.Next() && count < 1000 {
			count++
			g := it.Value()
			for i := range g.Edges {
				g.Edges[i] = 0
			}
		}
	}()
	t.Logf("(3) iteration with a caller that wipes Value().Edges yields %d graphs (-1 = panic; undisturbed: %d)", count, numClasses[n])
	if count == numClasses[n] {
		t.Errorf("(3) old behaviour: the search is derailed by a caller who modifies the value; got the undisturbed count %d", count)
	}
}

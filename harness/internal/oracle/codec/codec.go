// Package codec is the harness-side reference implementation of the graph
// text/binary formats the library reads and writes: graph6 and sparse6 (written
// from nauty's formats.txt), Multicode (plantri / minibaum byte format) and
// Pruefer codes (from the definition).  It shares no code with the library and
// is deliberately naive: streams are explicit []int bit lists.
//
// Conventions taken from formats.txt:
//
//	N(n): one byte n+63 for n <= 62; 126 and three bytes (18 bits, big endian)
//	      for 63 <= n <= 258047; 126 126 and six bytes (36 bits) above.
//	graph6: N(n), then the bits x(0,1) x(0,2) x(1,2) x(0,3) ... of the upper
//	      triangle column by column, padded with 0 to a multiple of 6, six bits
//	      per byte, each byte + 63.
//	sparse6: ':' N(n), k = number of bits of n-1, then pairs b[i] x[i] (1 + k
//	      bits); v = 0; for each pair: if b then v++; if x > v then v = x else
//	      edge {x, v}.  Padded with 1-bits to a multiple of 6, except: if
//	      (n,k) is (2,1), (4,2), (8,3) or (16,4), vertex n-2 has an edge,
//	      vertex n-1 has none and there are k+1 or more bits to pad, one 0-bit
//	      precedes the 1-bits.  An incomplete pair at the end is discarded.
package codec

import (
	"errors"
	"fmt"
	"sort"

	"verif/internal/oracle/rg"
)

// G6Header and S6Header are the optional file headers.
const (
	G6Header = ">>graph6<<"
	S6Header = ">>sparse6<<"
)

// ---------------------------------------------------------------- bit lists

// sixes packs a bit list whose length is a multiple of 6 into bytes + 63.
func sixes(bits []uint8) []byte {
	if len(bits)%6 != 0 {
		panic("codec: bit list not a multiple of 6")
	}
	out := make([]byte, 0, len(bits)/6)
	for i := 0; i < len(bits); i += 6 {
		v := 0
		for j := 0; j < 6; j++ {
			v = v*2 + int(bits[i+j])
		}
		out = append(out, byte(v+63))
	}
	return out
}

// unsixes expands bytes (each must be in 63..126) into a bit list.
func unsixes(b []byte) ([]uint8, error) {
	bits := make([]uint8, 0, 6*len(b))
	for i, c := range b {
		if c < 63 || c > 126 {
			return nil, fmt.Errorf("byte %d at offset %d outside 63..126", c, i)
		}
		v := int(c) - 63
		for j := 5; j >= 0; j-- {
			bits = append(bits, uint8((v>>uint(j))&1))
		}
	}
	return bits, nil
}

func appendNumber(bits []uint8, x, width int) []uint8 {
	for j := width - 1; j >= 0; j-- {
		bits = append(bits, uint8((x>>uint(j))&1))
	}
	return bits
}

// BitsFor returns the number of bits needed to represent n-1 in binary (the k
// of sparse6); 0 for n <= 1.
func BitsFor(n int) int {
	k := 0
	for x := n - 1; x > 0; x /= 2 {
		k++
	}
	return k
}

// ------------------------------------------------------------- size header

// SizeHeader returns N(n).
func SizeHeader(n int) []byte {
	switch {
	case n < 0:
		panic("codec: negative n")
	case n <= 62:
		return []byte{byte(n + 63)}
	case n <= 258047:
		return append([]byte{126}, sixes(appendNumber(nil, n, 18))...)
	case n <= 68719476735:
		return append([]byte{126, 126}, sixes(appendNumber(nil, n, 36))...)
	}
	panic("codec: n too large")
}

// ParseSize reads N(n) from the start of b.  It is tolerant about
// non-canonical forms (a long form holding a small number) but every byte of
// the header must lie in 63..126 and the header must be complete.
func ParseSize(b []byte) (n uint64, used int, ok bool) {
	if len(b) == 0 || b[0] < 63 || b[0] > 126 {
		return 0, 0, false
	}
	if b[0] != 126 {
		return uint64(b[0] - 63), 1, true
	}
	num := func(bs []byte) (uint64, bool) {
		var v uint64
		for _, c := range bs {
			if c < 63 || c > 126 {
				return 0, false
			}
			v = v<<6 | uint64(c-63)
		}
		return v, true
	}
	if len(b) >= 2 && b[1] == 126 {
		if len(b) < 8 {
			return 0, 0, false
		}
		v, ok := num(b[2:8])
		return v, 8, ok
	}
	if len(b) < 4 {
		return 0, 0, false
	}
	v, ok := num(b[1:4])
	return v, 4, ok
}

// ------------------------------------------------------------------ graph6

// Graph6 returns the graph6 string of g (without header).
func Graph6(g *rg.G) string {
	n := g.N
	bits := make([]uint8, 0, n*(n-1)/2+5)
	for j := 1; j < n; j++ {
		for i := 0; i < j; i++ {
			if g.Has(i, j) {
				bits = append(bits, 1)
			} else {
				bits = append(bits, 0)
			}
		}
	}
	for len(bits)%6 != 0 {
		bits = append(bits, 0)
	}
	return string(append(SizeHeader(n), sixes(bits)...))
}

// Graph6Parse reads a graph6 string strictly: optional header, N(n), exactly
// ceil(n(n-1)/12) data bytes in 63..126, zero padding.  maxN bounds the
// allocation.
func Graph6Parse(s string, maxN int) (*rg.G, error) {
	if len(s) >= len(G6Header) && s[:len(G6Header)] == G6Header {
		s = s[len(G6Header):]
	}
	b := []byte(s)
	n64, used, ok := ParseSize(b)
	if !ok {
		return nil, errors.New("no size header")
	}
	if n64 > uint64(maxN) {
		return nil, fmt.Errorf("n=%d above the limit %d", n64, maxN)
	}
	n := int(n64)
	bits, err := unsixes(b[used:])
	if err != nil {
		return nil, err
	}
	need := n * (n - 1) / 2
	if len(bits) != (need+5)/6*6 {
		return nil, fmt.Errorf("n=%d needs %d data bytes, string has %d", n, (need+5)/6, len(bits)/6)
	}
	g := rg.New(n)
	p := 0
	for j := 1; j < n; j++ {
		for i := 0; i < j; i++ {
			if bits[p] == 1 {
				g.Add(i, j)
			}
			p++
		}
	}
	for ; p < len(bits); p++ {
		if bits[p] != 0 {
			return nil, errors.New("non-zero padding bit")
		}
	}
	return g, nil
}

// ----------------------------------------------------------------- sparse6

// NormEdges returns the edges as (lo, hi) pairs sorted by hi then lo, without
// duplicates; loops are kept (lo == hi).
func NormEdges(edges [][2]int) [][2]int {
	e := make([][2]int, 0, len(edges))
	for _, p := range edges {
		if p[0] > p[1] {
			p[0], p[1] = p[1], p[0]
		}
		e = append(e, p)
	}
	sort.Slice(e, func(i, j int) bool {
		if e[i][1] != e[j][1] {
			return e[i][1] < e[j][1]
		}
		return e[i][0] < e[j][0]
	})
	out := e[:0]
	for i, p := range e {
		if i > 0 && p == e[i-1] {
			continue
		}
		out = append(out, p)
	}
	return out
}

// padSparse6 applies the two padding rules of formats.txt to a pair stream.
// hasEdge(v) tells whether vertex v is an end of some edge.
func padSparse6(bits []uint8, n, k int, hasEdge func(v int) bool) []uint8 {
	pad := (6 - len(bits)%6) % 6
	if pad == 0 {
		return bits
	}
	special := (n == 2 && k == 1) || (n == 4 && k == 2) || (n == 8 && k == 3) || (n == 16 && k == 4)
	if special && hasEdge(n-2) && !hasEdge(n-1) && pad >= k+1 {
		bits = append(bits, 0)
		pad--
	}
	for ; pad > 0; pad-- {
		bits = append(bits, 1)
	}
	return bits
}

// Sparse6 returns the sparse6 string (without header) that nauty's writer
// (ntos6) produces for the graph on n vertices with the given edges: vertices
// v in increasing order, for each the neighbours u <= v in increasing order;
// the pair is (0,u) while v is the current vertex, (1,u) when v is the next
// vertex, and otherwise (1,v) to move followed by (0,u).
func Sparse6(n int, edges [][2]int) string {
	k := BitsFor(n)
	e := NormEdges(edges)
	touched := map[int]bool{}
	var bits []uint8
	cur := 0
	for _, p := range e {
		u, v := p[0], p[1]
		if u < 0 || v >= n {
			panic("codec: edge outside 0..n-1")
		}
		touched[u], touched[v] = true, true
		switch {
		case v == cur:
			bits = append(bits, 0)
		case v == cur+1:
			bits = append(bits, 1)
			cur = v
		default:
			bits = append(bits, 1)
			bits = appendNumber(bits, v, k)
			bits = append(bits, 0)
			cur = v
		}
		bits = appendNumber(bits, u, k)
	}
	bits = padSparse6(bits, n, k, func(v int) bool { return touched[v] })
	out := append([]byte{':'}, SizeHeader(n)...)
	return string(append(out, sixes(bits)...))
}

// Sparse6OfGraph is Sparse6 for a reference graph.
func Sparse6OfGraph(g *rg.G) string { return Sparse6(g.N, g.Edges()) }

// Sparse6Alt returns another valid sparse6 string of the same simple graph:
// the neighbours of a vertex in an order chosen by pick, moves to a new
// vertex written in any of the ways the decoding rule allows.  pick(m) must
// return a number in 0..m-1.  The result decodes (by the rule of formats.txt)
// to exactly the given edges, without loops or repeated edges.
func Sparse6Alt(n int, edges [][2]int, pick func(m int) int) string {
	k := BitsFor(n)
	e := NormEdges(edges)
	var bits []uint8
	cur := 0
	for i := 0; i < len(e); {
		v := e[i][1]
		j := i
		for j < len(e) && e[j][1] == v {
			j++
		}
		us := make([]int, 0, j-i)
		for _, p := range e[i:j] {
			us = append(us, p[0])
		}
		for a := len(us) - 1; a > 0; a-- { // order of the neighbours is free
			b := pick(a + 1)
			us[a], us[b] = us[b], us[a]
		}
		first := true
		if v > cur {
			// move to v: (0,v) sets v because v > cur; (1,v) does because
			// v > cur+1; when v == cur+1 the pair (1,u) moves and adds at once.
			switch {
			case v == cur+1 && pick(2) == 0:
				bits = append(bits, 1)
				bits = appendNumber(bits, us[0], k)
				first = false
			case v > cur+1 && pick(2) == 0:
				bits = append(bits, 1)
				bits = appendNumber(bits, v, k)
			default:
				bits = append(bits, 0)
				bits = appendNumber(bits, v, k)
			}
			cur = v
		}
		for a, u := range us {
			if a == 0 && !first {
				continue
			}
			bits = append(bits, 0)
			bits = appendNumber(bits, u, k)
		}
		i = j
	}
	// Padding by meaning: 1-bits unless they would read as the pair
	// (1, 2^k-1) with 2^k-1 <= cur+1 < n, i.e. as an edge or loop.
	pad := (6 - len(bits)%6) % 6
	if pad >= k+1 && cur+1 < n && (1<<uint(k))-1 <= cur+1 {
		bits = append(bits, 0)
		pad--
	}
	for ; pad > 0; pad-- {
		bits = append(bits, 1)
	}
	out := append([]byte{':'}, SizeHeader(n)...)
	return string(append(out, sixes(bits)...))
}

// S6 is what the rule of formats.txt reads from a sparse6 string.
type S6 struct {
	N        uint64
	K        int
	Header   int      // bytes of ':' + N(n)
	Pairs    int      // complete (b,x) pairs in the stream
	Edges    [][2]int // (lo,hi) in stream order, both ends < n, loops and repeats included
	Loops    int      // pairs that encode a loop
	Repeats  int      // pairs that repeat an earlier edge
	Beyond   int      // complete pairs met while v >= n or that set v >= n (ignored)
	TailBits int      // bits of the discarded incomplete pair
}

// Sparse6Scan reads a sparse6 string (optional header allowed) by the rule of
// formats.txt.  Unlike the library's reader it reports loops and repeated
// edges instead of dropping them.  maxN bounds the work.
func Sparse6Scan(s string, maxN uint64) (*S6, error) {
	if len(s) >= len(S6Header) && s[:len(S6Header)] == S6Header {
		s = s[len(S6Header):]
	}
	if len(s) == 0 || s[0] != ':' {
		return nil, errors.New("no ':'")
	}
	b := []byte(s[1:])
	n, used, ok := ParseSize(b)
	if !ok {
		return nil, errors.New("no size header")
	}
	if n > maxN {
		return nil, fmt.Errorf("n=%d above the limit %d", n, maxN)
	}
	bits, err := unsixes(b[used:])
	if err != nil {
		return nil, err
	}
	r := &S6{N: n, K: BitsFor(int(n)), Header: 1 + used}
	seen := map[[2]int]bool{}
	v := uint64(0)
	p := 0
	for p+1+r.K <= len(bits) {
		bb := bits[p]
		x := uint64(0)
		for j := 1; j <= r.K; j++ {
			x = x*2 + uint64(bits[p+j])
		}
		p += 1 + r.K
		r.Pairs++
		if bb == 1 {
			v++
		}
		if x > v {
			v = x
			if v >= n {
				r.Beyond++
			}
			continue
		}
		if v >= n {
			r.Beyond++
			continue
		}
		e := [2]int{int(x), int(v)}
		if x == v {
			r.Loops++
		} else if seen[e] {
			r.Repeats++
		}
		seen[e] = true
		r.Edges = append(r.Edges, e)
	}
	r.TailBits = len(bits) - p
	return r, nil
}

// Graph returns the simple graph of the scan (loops dropped, repeats merged).
func (r *S6) Graph() *rg.G {
	g := rg.New(int(r.N))
	for _, e := range r.Edges {
		g.Add(e[0], e[1])
	}
	return g
}

// Adjacency returns ascending neighbour lists of the simple graph of the scan
// as a map (only vertices with neighbours), usable for very large n.
func (r *S6) Adjacency() map[int][]int {
	return AdjacencyOf(r.Edges)
}

// AdjacencyOf returns ascending neighbour lists (loops dropped, repeats merged).
func AdjacencyOf(edges [][2]int) map[int][]int {
	adj := map[int][]int{}
	for _, e := range NormEdges(edges) {
		if e[0] == e[1] {
			continue
		}
		adj[e[0]] = append(adj[e[0]], e[1])
		adj[e[1]] = append(adj[e[1]], e[0])
	}
	for v := range adj {
		sort.Ints(adj[v])
	}
	return adj
}

// --------------------------------------------------------------- Multicode

// Multicode returns the Multicode record of g (n <= 255): the byte n, then for
// every vertex 1..n-1 (1-based) its larger neighbours followed by 0.
func Multicode(g *rg.G) []byte {
	if g.N > 255 {
		panic("codec: Multicode needs n <= 255")
	}
	out := []byte{byte(g.N)}
	for i := 0; i+1 < g.N; i++ {
		for j := i + 1; j < g.N; j++ {
			if g.Has(i, j) {
				out = append(out, byte(j+1))
			}
		}
		out = append(out, 0)
	}
	return out
}

// MulticodeParse reads one record from the start of b and returns the graph
// and the remaining bytes.
func MulticodeParse(b []byte) (*rg.G, []byte, error) {
	if len(b) == 0 {
		return nil, nil, errors.New("empty input")
	}
	n := int(b[0])
	g := rg.New(n)
	p := 1
	for i := 0; i+1 < n; i++ {
		for {
			if p >= len(b) {
				return nil, nil, errors.New("record ends inside a neighbour list")
			}
			c := int(b[p])
			p++
			if c == 0 {
				break
			}
			if c > n || c-1 <= i {
				return nil, nil, fmt.Errorf("entry %d in the list of vertex %d (n=%d)", c, i+1, n)
			}
			g.Add(i, c-1)
		}
	}
	return g, b[p:], nil
}

// ----------------------------------------------------------------- Pruefer

// PruferCode returns the Pruefer code of the labelled tree t (n >= 2):
// repeatedly delete the leaf with the smallest label and write its neighbour,
// until two vertices remain.
func PruferCode(t *rg.G) []int {
	h := t.Copy()
	alive := make([]bool, h.N)
	for i := range alive {
		alive[i] = true
	}
	code := []int{}
	for step := 0; step < h.N-2; step++ {
		for v := 0; v < h.N; v++ {
			if alive[v] && h.Deg(v) == 1 {
				u := h.Nbrs(v)[0]
				code = append(code, u)
				h.Del(u, v)
				alive[v] = false
				break
			}
		}
	}
	return code
}

// PruferTree returns the labelled tree on len(code)+2 vertices with the given
// code: at every step the smallest vertex that is neither used up nor occurs
// in the rest of the code is joined to the next code entry.
func PruferTree(code []int) *rg.G {
	n := len(code) + 2
	g := rg.New(n)
	used := make([]bool, n)
	for i, c := range code {
		for v := 0; v < n; v++ {
			if used[v] {
				continue
			}
			later := false
			for _, d := range code[i:] {
				if d == v {
					later = true
					break
				}
			}
			if !later {
				g.Add(v, c)
				used[v] = true
				break
			}
		}
	}
	var rest []int
	for v := 0; v < n; v++ {
		if !used[v] {
			rest = append(rest, v)
		}
	}
	if len(rest) == 2 {
		g.Add(rest[0], rest[1])
	}
	return g
}

// PruferTreeCounted is PruferTree in O(n^2): instead of looking through the
// rest of the code it keeps, per vertex, the number (an int) of code entries
// still to come.  Used for long codes; checked against PruferTree at start-up.
func PruferTreeCounted(code []int) *rg.G {
	n := len(code) + 2
	g := rg.New(n)
	toCome := make([]int, n)
	for _, c := range code {
		toCome[c]++
	}
	used := make([]bool, n)
	for _, c := range code {
		for v := 0; v < n; v++ {
			if !used[v] && toCome[v] == 0 {
				g.Add(v, c)
				used[v] = true
				break
			}
		}
		toCome[c]--
	}
	var rest []int
	for v := 0; v < n; v++ {
		if !used[v] {
			rest = append(rest, v)
		}
	}
	if len(rest) == 2 {
		g.Add(rest[0], rest[1])
	}
	return g
}

// IsTree reports whether g is connected with n-1 edges (n >= 1).
func IsTree(g *rg.G) bool {
	if g.N == 0 || g.M() != g.N-1 {
		return false
	}
	seen := make([]bool, g.N)
	stack := []int{0}
	seen[0] = true
	cnt := 1
	for len(stack) > 0 {
		v := stack[len(stack)-1]
		stack = stack[:len(stack)-1]
		for _, u := range g.Nbrs(v) {
			if !seen[u] {
				seen[u] = true
				cnt++
				stack = append(stack, u)
			}
		}
	}
	return cnt == g.N
}

// Package conn holds the reference oracles of property C10 that scale beyond
// the bit-mask brute force of oracle/brute: distances, components,
// articulation vertices, blocks, girth, cycle / induced cycle / induced path
// counts, all computed straight from the definitions on the harness-owned
// reference graph rg.G, plus constructors of graphs whose block structure is
// known by construction (block trees, cactus graphs).  Nothing here calls or
// copies the library under test.
package conn

import (
	"sort"

	"verif/internal/oracle/rg"
)

// Components labels the vertices of g minus the vertex `without` (-1: none)
// by connected component (labels 0..count-1 in order of the least vertex; the
// removed vertex gets -1).
func Components(g *rg.G, without int) (label []int, count int) {
	n := g.N
	label = make([]int, n)
	for i := range label {
		label[i] = -1
	}
	adj := adjacency(g)
	for s := 0; s < n; s++ {
		if s == without || label[s] >= 0 {
			continue
		}
		label[s] = count
		queue := []int{s}
		for len(queue) > 0 {
			u := queue[0]
			queue = queue[1:]
			for _, w := range adj[u] {
				if w != without && label[w] < 0 {
					label[w] = count
					queue = append(queue, w)
				}
			}
		}
		count++
	}
	return label, count
}

func adjacency(g *rg.G) [][]int {
	adj := make([][]int, g.N)
	for v := range adj {
		adj[v] = g.Nbrs(v)
	}
	return adj
}

// ComponentSets returns the components as ascending vertex lists, ordered by
// least vertex.
func ComponentSets(g *rg.G) [][]int {
	label, count := Components(g, -1)
	sets := make([][]int, count)
	for v, l := range label {
		sets[l] = append(sets[l], v)
	}
	return sets
}

// Dist returns all shortest-path lengths (-1: no path) by one BFS per source.
func Dist(g *rg.G) [][]int {
	n := g.N
	adj := adjacency(g)
	d := make([][]int, n)
	for s := 0; s < n; s++ {
		row := make([]int, n)
		for i := range row {
			row[i] = -1
		}
		row[s] = 0
		queue := []int{s}
		for len(queue) > 0 {
			u := queue[0]
			queue = queue[1:]
			for _, w := range adj[u] {
				if row[w] < 0 {
					row[w] = row[u] + 1
					queue = append(queue, w)
				}
			}
		}
		d[s] = row
	}
	return d
}

// Articulation returns, ascending, the vertices whose deletion increases the
// number of connected components (the definition of a cut vertex).
func Articulation(g *rg.G) []int {
	_, base := Components(g, -1)
	r := []int{}
	for v := 0; v < g.N; v++ {
		if _, c := Components(g, v); c > base {
			r = append(r, v)
		}
	}
	return r
}

// Blocks returns the blocks of g that contain an edge, as ascending vertex
// lists sorted lexicographically, and the isolated vertices (which some
// conventions count as singleton blocks).  Definition used: two edges belong
// to the same block iff no single vertex separates them, i.e. for every
// vertex v the ends of the two edges that survive the deletion of v lie in one
// component of g - v.
func Blocks(g *rg.G) (blocks [][]int, isolated []int) {
	n := g.N
	es := g.Edges()
	labels := make([][]int, n)
	for v := 0; v < n; v++ {
		labels[v], _ = Components(g, v)
	}
	par := make([]int, len(es))
	for i := range par {
		par[i] = i
	}
	find := func(x int) int {
		for par[x] != x {
			x = par[x]
		}
		return x
	}
	end := func(e [2]int, v int) int {
		if e[0] == v {
			return e[1]
		}
		return e[0]
	}
	for a := range es {
		for b := 0; b < a; b++ {
			same := true
			for v := 0; v < n && same; v++ {
				if labels[v][end(es[a], v)] != labels[v][end(es[b], v)] {
					same = false
				}
			}
			if same {
				par[find(a)] = find(b)
			}
		}
	}
	byRoot := map[int]map[int]bool{}
	for e := range es {
		r := find(e)
		if byRoot[r] == nil {
			byRoot[r] = map[int]bool{}
		}
		byRoot[r][es[e][0]] = true
		byRoot[r][es[e][1]] = true
	}
	for _, s := range byRoot {
		b := make([]int, 0, len(s))
		for v := range s {
			b = append(b, v)
		}
		sort.Ints(b)
		blocks = append(blocks, b)
	}
	SortSets(blocks)
	isolated = []int{}
	for v := 0; v < n; v++ {
		if g.Deg(v) == 0 {
			isolated = append(isolated, v)
		}
	}
	return blocks, isolated
}

// SortSets sorts a list of ascending int lists lexicographically.
func SortSets(a [][]int) {
	sort.Slice(a, func(i, j int) bool { return LessInts(a[i], a[j]) })
}

// LessInts is the lexicographic order on int slices.
func LessInts(a, b []int) bool {
	for k := 0; k < len(a) && k < len(b); k++ {
		if a[k] != b[k] {
			return a[k] < b[k]
		}
	}
	return len(a) < len(b)
}

// Girth returns the length of a shortest cycle (-1 if acyclic) by the
// edge-deletion definition: the shortest cycle through the edge uv has length
// 1 + dist_{g-uv}(u, v).
func Girth(g *rg.G) int {
	best := -1
	h := g.Copy()
	for _, e := range g.Edges() {
		h.Del(e[0], e[1])
		d := bfsPair(h, e[0], e[1])
		h.Add(e[0], e[1])
		if d >= 0 && (best < 0 || d+1 < best) {
			best = d + 1
		}
	}
	return best
}

func bfsPair(g *rg.G, s, t int) int {
	dist := make([]int, g.N)
	for i := range dist {
		dist[i] = -1
	}
	dist[s] = 0
	queue := []int{s}
	for len(queue) > 0 {
		u := queue[0]
		queue = queue[1:]
		if u == t {
			return dist[u]
		}
		for _, w := range g.Nbrs(u) {
			if dist[w] < 0 {
				dist[w] = dist[u] + 1
				queue = append(queue, w)
			}
		}
	}
	return -1
}

// Cyclomatic returns m - n + c, the dimension of the cycle space.
func Cyclomatic(g *rg.G) int {
	_, c := Components(g, -1)
	return g.M() - g.N + c
}

// Budget bounds the work of the exponential counters: a counter gives up
// (ok == false) after Steps elementary extensions.  It is a step count, not a
// clock, so the outcome is deterministic.
type Budget struct {
	Steps int64 // remaining
	Used  int64
}

func (b *Budget) spend() bool {
	b.Steps--
	b.Used++
	return b.Steps >= 0
}

// Cycles counts the simple cycles of g by length (index = length, slice of
// length n+1).  Every cycle is generated from its least vertex in the
// orientation whose second vertex is smaller than its last one.
func Cycles(g *rg.G, b *Budget) (byLen []int, ok bool) {
	n := g.N
	byLen = make([]int, n+1)
	adj := adjacency(g)
	used := make([]bool, n)
	ok = true
	for s := 0; s < n && ok; s++ {
		var rec func(v, second, depth int)
		rec = func(v, second, depth int) {
			for _, w := range adj[v] {
				if !ok {
					return
				}
				if w == s && depth >= 3 && second < v {
					byLen[depth]++
				}
				if w > s && !used[w] {
					if !b.spend() {
						ok = false
						return
					}
					used[w] = true
					if depth == 1 {
						rec(w, w, 2)
					} else {
						rec(w, second, depth+1)
					}
					used[w] = false
				}
			}
		}
		used[s] = true
		rec(s, -1, 1)
		used[s] = false
	}
	return byLen, ok
}

// InducedCycles counts the induced (chordless) cycles of g by length (slice
// of length n+1).  A cycle is grown from its least vertex s as an induced
// path s = p0, p1, ..., pk over larger vertices in which only p1 is adjacent
// to s; it closes with a vertex adjacent to pk and s and to nothing else on
// the path.  Both orientations are generated, so counts are halved.
func InducedCycles(g *rg.G, b *Budget) (byLen []int, ok bool) {
	n := g.N
	byLen = make([]int, n+1)
	adj := adjacency(g)
	onPath := make([]bool, n)
	ok = true
	for s := 0; s < n && ok; s++ {
		path := []int{s}
		onPath[s] = true
		var rec func()
		rec = func() {
			last := path[len(path)-1]
			for _, w := range adj[last] {
				if !ok {
					return
				}
				if w <= s || onPath[w] {
					continue
				}
				// w may touch the path only in `last` and (to close) in s
				chord := false
				for k := 1; k+1 < len(path); k++ {
					if g.Has(w, path[k]) {
						chord = true
						break
					}
				}
				if chord {
					continue
				}
				if !b.spend() {
					ok = false
					return
				}
				if len(path) >= 2 && g.Has(w, s) {
					byLen[len(path)+1]++
					continue
				}
				path = append(path, w)
				onPath[w] = true
				rec()
				onPath[w] = false
				path = path[:len(path)-1]
			}
		}
		rec()
		onPath[s] = false
	}
	for i := range byLen {
		byLen[i] /= 2
	}
	return byLen, ok
}

// InducedPaths counts the induced paths of g by number of edges (slice of
// length max(n,1); entry 0 = number of vertices).  Every path is generated
// from both ends, so counts of positive length are halved.
func InducedPaths(g *rg.G, b *Budget) (byLen []int, ok bool) {
	n := g.N
	byLen = make([]int, n+1)
	adj := adjacency(g)
	onPath := make([]bool, n)
	ok = true
	for s := 0; s < n && ok; s++ {
		path := []int{s}
		onPath[s] = true
		var rec func()
		rec = func() {
			last := path[len(path)-1]
			for _, w := range adj[last] {
				if !ok {
					return
				}
				if onPath[w] {
					continue
				}
				chord := false
				for _, x := range path[:len(path)-1] {
					if g.Has(w, x) {
						chord = true
						break
					}
				}
				if chord {
					continue
				}
				if !b.spend() {
					ok = false
					return
				}
				byLen[len(path)]++
				path = append(path, w)
				onPath[w] = true
				rec()
				onPath[w] = false
				path = path[:len(path)-1]
			}
		}
		rec()
		onPath[s] = false
	}
	for i := 1; i < len(byLen); i++ {
		byLen[i] /= 2
	}
	byLen[0] = n
	return byLen, ok
}

// BlocksFast is Blocks for large graphs.  Two edges that share a vertex v lie
// on a common cycle iff their other ends are connected in g - v; a block is a
// class of the transitive closure of that relation (inside a block any two
// edges are linked by a chain of edges sharing a vertex).  n component
// searches instead of a test of every pair of edges.
func BlocksFast(g *rg.G) (blocks [][]int, isolated []int) {
	n := g.N
	es := g.Edges()
	idx := make(map[[2]int]int, len(es))
	for i, e := range es {
		idx[e] = i
	}
	edgeOf := func(a, b int) int {
		if a > b {
			a, b = b, a
		}
		return idx[[2]int{a, b}]
	}
	par := make([]int, len(es))
	for i := range par {
		par[i] = i
	}
	find := func(x int) int {
		for par[x] != x {
			par[x] = par[par[x]]
			x = par[x]
		}
		return x
	}
	for v := 0; v < n; v++ {
		label, _ := Components(g, v)
		first := map[int]int{} // component of g - v -> an edge from v into it
		for _, a := range g.Nbrs(v) {
			e := edgeOf(v, a)
			if f, ok := first[label[a]]; ok {
				par[find(e)] = find(f)
			} else {
				first[label[a]] = e
			}
		}
	}
	members := map[int][]int{}
	for e := range es {
		r := find(e)
		members[r] = append(members[r], es[e][0], es[e][1])
	}
	for _, vs := range members {
		sort.Ints(vs)
		b := vs[:0:0]
		for i, x := range vs {
			if i == 0 || x != vs[i-1] {
				b = append(b, x)
			}
		}
		blocks = append(blocks, b)
	}
	SortSets(blocks)
	isolated = []int{}
	for v := 0; v < n; v++ {
		if g.Deg(v) == 0 {
			isolated = append(isolated, v)
		}
	}
	return blocks, isolated
}

// CountsByBlocks adds up a cycle counter over the blocks of g: every cycle
// lies inside one block, and a block is an induced subgraph, so this holds for
// all cycles and for induced cycles alike.  The result has length g.N+1.
func CountsByBlocks(g *rg.G, blocks [][]int, counter func(*rg.G, *Budget) ([]int, bool), b *Budget) ([]int, bool) {
	r := make([]int, g.N+1)
	for _, bl := range blocks {
		if len(bl) < 3 {
			continue
		}
		c, ok := counter(g.Induced(bl), b)
		if !ok {
			return nil, false
		}
		for l, x := range c {
			r[l] += x
		}
	}
	return r, true
}

package c20

// Caller-supplied writer TYPES as a dimension of the fault plane.  tsp.LIB
// takes an io.Writer; what it may do with it depends on the dynamic type
// (io.StringWriter and io.ReaderFrom fast paths of io/fmt/bufio, a caller's
// *bufio.Writer used directly, ...).  For every kind the faults are injected in
// a device at the bottom and enumerated over EVERY call the device receives
// (Write, WriteString and ReadFrom calls count alike), in all four modes.
//
// Judged: a failure that happened before LIB returned and LIB returned nil.
// For a caller's *bufio.Writer the bytes still in the caller's buffer when LIB
// returns are the caller's to flush: a fault that fires in the caller's Flush
// is recorded, not judged.  io.MultiWriter turns a short count with nil error
// of the device into io.ErrShortWrite, so that mode is judged there too: the
// writer LIB was given did return an error (seen by an observer).

import (
	"bufio"
	"bytes"
	"errors"
	"fmt"
	"io"
	"os"
	"path/filepath"
	"sort"

	"github.com/Tom-Johnston/mamba/tsp"

	"verif/internal/engine"
)

// device wrappers that add the optional interfaces
type stringDev struct{ *recWriter }

func (d stringDev) WriteString(s string) (int, error) {
	d.viaString++
	return d.recWriter.Write([]byte(s))
}

type readFromDev struct{ *recWriter }

func (d readFromDev) ReadFrom(r io.Reader) (int64, error) {
	b, rerr := io.ReadAll(r)
	d.viaReadFrom++
	n, err := d.recWriter.Write(b)
	if err == nil {
		err = rerr
	}
	return int64(n), err
}

type fullDev struct{ *recWriter }

func (d fullDev) WriteString(s string) (int, error) { return stringDev(d).WriteString(s) }
func (d fullDev) ReadFrom(r io.Reader) (int64, error) {
	return readFromDev(d).ReadFrom(r)
}

// observer hides the dynamic type of a writer and records what it returned.
type observer struct {
	w      io.Writer
	calls  int
	failed int // calls that returned a non-nil error
	short  int // calls that returned n < len with a nil error
}

func (o *observer) Write(p []byte) (int, error) {
	o.calls++
	n, err := o.w.Write(p)
	if err != nil {
		o.failed++
	} else if n < len(p) {
		o.short++
	}
	return n, err
}

type wkind struct {
	name    string
	size    int // bufio
	prefill int // bufio: bytes of the caller already in the buffer
}

func (k wkind) id(n int, fam string) string {
	if k.name == "bufio" {
		return fmt.Sprintf("bufio(size=%d,prefilled=%d)|n=%d|%s", k.size, k.prefill, n, fam)
	}
	return fmt.Sprintf("%s|n=%d|%s", k.name, n, fam)
}

type rig struct {
	w        io.Writer
	dev      *recWriter
	prefix   int
	after    func()
	pending  func() int
	top      *observer
	converts bool // a short count with nil error of the device reaches LIB as an error
	mirror   *bytes.Buffer
}

func buildRig(k wkind, pos int, mode string) *rig {
	dev := &recWriter{pos: pos, mode: mode}
	r := &rig{dev: dev, after: func() {}, pending: func() int { return 0 }}
	switch k.name {
	case "stringwriter":
		r.w = stringDev{dev}
	case "readerfrom":
		r.w = readFromDev{dev}
	case "stringwriter+readerfrom":
		r.w = fullDev{dev}
	case "bufio":
		bw := bufio.NewWriterSize(dev, k.size)
		bw.Write(bytes.Repeat([]byte{'#'}, k.prefill)) // prefill <= size: nothing reaches the device
		r.w = bw
		r.prefix = k.prefill
		// bufio turns a short count with nil error into io.ErrShortWrite when it
		// flushes its buffer but simply carries on after a direct (large) write:
		// that mode is recorded only
		r.pending = func() int { return bw.Buffered() }
		r.after = func() { bw.Flush() }
	case "multiwriter":
		r.mirror = &bytes.Buffer{}
		r.top = &observer{w: io.MultiWriter(dev, r.mirror)}
		r.w = r.top
		r.converts = true
	default:
		panic("unknown writer kind " + k.name)
	}
	return r
}

// hitBeforeReturn: the fault fired in a call made while LIB was running.
func (r *rig) hitBeforeReturn() bool { return r.dev.fired && !r.dev.firedAfterReturn }

func wviolKey(mode, kind string) string {
	return "LIB|write-failure-not-reported|" + mode + "|writer=" + kind
}

// typePlane runs the exhaustive fault plane of one writer kind on (n, fam).
func typePlane(c *engine.Ctx, k wkind, n int, fam string, rs uint64, b *baseRun, modes []string) {
	id := k.id(n, fam)
	wf := func(i, j int) int { return int(weightValue(fam, n, rs, i, j)) }
	// fault-free run through this kind of writer
	r := buildRig(k, -1, modeNone)
	var err error
	pi := c.Call("LIB|"+id, func() { err = tsp.LIB(r.w, n, wf) })
	dret := len(r.dev.sizes)
	pend := r.pending()
	r.dev.afterReturn = true
	r.after()
	c.Eval(1)
	c.Obs("wtype:fault-free:"+k.name, 1)
	det := func(extra string) caseDetail {
		return caseDetail{N: n, Weights: fam, RS: rs, Matrix: matrixRows(fam, n, rs), Note: "writer: " + id + extra}
	}
	switch {
	case pi != nil:
		c.Violation("LIB|panic|"+engine.SiteNoLine(pi.Site)+"|writer="+k.name, det(""), pi.String(), "LIB returns")
		return
	case err != nil:
		c.Violation("LIB|error-without-write-failure|writer="+k.name, det(""), "error "+err.Error(), "nil: no write failed")
		return
	case len(r.dev.data) < r.prefix || !bytes.Equal(r.dev.data[r.prefix:], b.data):
		// b.data was checked by the TSPLIB reader; the bytes must not depend on the writer type
		d := det(fmt.Sprintf("; the device received %q", clip(string(r.dev.data), 2000)))
		c.Violation("LIB|output-depends-on-writer-type|writer="+k.name, d, fmt.Sprintf("%d bytes on the device after the caller's bytes, they differ from the %d bytes written to a plain io.Writer", len(r.dev.data)-r.prefix, len(b.data)), "the same TSPLIB document")
		return
	case r.mirror != nil && !bytes.Equal(r.mirror.Bytes(), r.dev.data):
		c.Inconclusive("multiwriter rig: mirror differs from device")
		return
	}
	if pend > 0 {
		c.Obs("wtype:bufio:bytes_left_in_the_callers_buffer_at_return(fault-free, not judged)", 1)
	}
	if r.dev.viaString > 0 {
		c.Obs("wtype:device_calls_via_WriteString", r.dev.viaString)
	}
	if r.dev.viaReadFrom > 0 {
		c.Obs("wtype:device_calls_via_ReadFrom", r.dev.viaReadFrom)
	}
	D := len(r.dev.sizes)
	c.Obs("wtype_bases", 1)
	c.Emit(stream, event{K: "wbase", ID: id, Kind: k.name, N: n, WF: fam, RS: rs, W: D, DRet: dret, Modes: modes, ErrNil: true})
	for _, mode := range modes {
		for p := 0; p < D; p++ {
			if c.Stopped() {
				return
			}
			r := buildRig(k, p, mode)
			var err error
			pi := c.Call(fmt.Sprintf("LIB|%s|%s@%d", id, mode, p), func() { err = tsp.LIB(r.w, n, wf) })
			hit := r.hitBeforeReturn()
			pend := r.pending()
			r.dev.afterReturn = true
			r.after()
			ev := event{K: "wfault", ID: id, Kind: k.name, N: n, WF: fam, RS: rs, W: D, Fault: &faultDesc{Pos: p, Mode: mode},
				Fired: r.dev.fired, Hit: hit, Converts: r.converts, Pending: pend, Got: len(r.dev.data), ErrNil: err == nil, Ret: r.dev.firedRet, RetErr: r.dev.firedErr, FLen: r.dev.firedLen}
			if err != nil {
				ev.Err = errText(err)
			}
			if pi != nil {
				ev.Panic = pi.String()
			}
			c.Emit(stream, ev)
			c.Obs("wtype:fault_runs:"+k.name+":"+mode, 1)
			if hit {
				c.Obs("wtype:returned_by_the_device:"+retClass(r.dev.firedRet, r.dev.firedLen, r.dev.firedErr), 1)
			}
			if pi != nil && brokenCount(mode) {
				c.Obs("wtype:"+k.name+":"+mode+":LIB_panicked(count outside 0..len(p), not judged)", 1)
				continue
			}
			if pi != nil {
				c.Violation("LIB|panic-on-write-failure|"+engine.SiteNoLine(pi.Site)+"|"+mode+"|writer="+k.name, det(fmt.Sprintf("; device call %d of %d, %s", p, D, mode)), pi.String(), "a non-nil error")
				continue
			}
			switch {
			case !r.dev.fired:
				if !nilErrorMode(mode) {
					c.Obs("wtype:fault_not_reached", 1)
				}
			case !hit:
				res := "nil"
				if err != nil {
					res = "error"
				}
				c.Obs("wtype:"+k.name+":fault_fell_into_the_callers_flush(not judged):LIB_returned_"+res, 1)
			case !judgedUnder(mode, r.converts):
				res := "nil"
				if err != nil {
					res = "error"
				}
				c.Obs("wtype:"+k.name+":"+mode+":LIB_returned_"+res, 1)
			default:
				c.NTDistinct(1)
				if r.top != nil && r.top.failed == 0 {
					c.Inconclusive("rig: device failed but the writer above it returned no error: " + id)
					continue
				}
				if err == nil {
					c.Violation(wviolKey(mode, k.name), det(fmt.Sprintf("; device call %d of %d (%d made before LIB returned in the fault-free run) fails: %s; %d bytes of LIB were left in the caller's buffer at return", p, D, dret, mode, pend)),
						fmt.Sprintf("LIB returned nil although call %d on the device failed before LIB returned (%d bytes reached the device, fault-free: %d)", p, len(r.dev.data), len(b.data)+r.prefix), "a non-nil error")
				}
			}
		}
	}
}

// bufioKinds: buffer sizes x fill levels such that the first spill falls at
// chosen places of the document (inside the header, at both boundaries of the
// weight section, inside it, and inside the EOF line).
func bufioKinds(b *baseRun, sizes []int) []wkind {
	L := len(b.data)
	xs := []int{1, 9, b.ws - 1, b.ws, b.ws + 1, (b.ws + b.es) / 2, b.es - 1, b.es, b.es + 1, b.es + 2, b.es + 3, L - 1, L, L + 1}
	var r []wkind
	for _, S := range sizes {
		set := map[int]bool{0: true, 1: true, S / 2: true, S - 1: true, S: true}
		for _, x := range xs {
			if k := S - x; k >= 0 && k <= S {
				set[k] = true
			}
		}
		var ks []int
		for k := range set {
			ks = append(ks, k)
		}
		sort.Ints(ks)
		for _, k := range ks {
			r = append(r, wkind{name: "bufio", size: S, prefill: k})
		}
	}
	return r
}

var bufioSizes = []int{16, 17, 64, 137, 138, 139, 4096}

func typeInstances(thorough bool) []int {
	if thorough {
		return []int{1, 2, 3, 5, 8, 12, 20, 0}
	}
	return []int{1, 2, 3, 5, 8, 0}
}

// typeModes: the fault modes of a writer kind.  The interface kinds hand every
// return value of the device straight to LIB: the whole space of failing-Write
// behaviours (quick: for n <= 3, the judged count modes above that).  A caller's *bufio.Writer absorbs the count (a failed flush makes
// it fail for good): the original modes plus the full-count failures; thorough
// adds the other judged count modes.
func typeModes(kind string, n int, thorough bool) []string {
	if kind == "bufio" {
		if thorough {
			return joinModes(faultModes, fullCountModes, countModes)
		}
		return joinModes(faultModes, fullCountModes)
	}
	if thorough || n <= 3 {
		return allInProcessModes()
	}
	return joinModes(faultModes, fullCountModes, countModes)
}

var typeFamilies = []string{"neg", "large", randFamily}

var errReaderGone = errors.New("the reader of the pipe went away")

func typeUnits(c *engine.Ctx) {
	for _, n := range typeInstances(c.Thorough()) {
		for _, fam := range typeFamilies {
			n, fam := n, fam
			rsOf := func() uint64 {
				if fam == randFamily {
					return c.Rand("wtype-rand", n).U64()
				}
				return 0
			}
			c.Unit(fmt.Sprintf("wtype/interfaces/n=%d/%s", n, fam), func() {
				rs := rsOf()
				b := cleanRun(c, n, fam, rs, famKey(fam, n), true)
				if b == nil {
					c.Obs("wtype_units_skipped_after_clean_violation", 1)
					return
				}
				for _, name := range []string{"stringwriter", "readerfrom", "stringwriter+readerfrom", "multiwriter"} {
					typePlane(c, wkind{name: name}, n, fam, rs, b, typeModes(name, n, c.Thorough()))
				}
				pipeRuns(c, n, fam, rs, b)
				osFileRuns(c, n, fam, rs, b)
				faultFreeTypes(c, n, fam, rs, b)
			})
			c.Unit(fmt.Sprintf("wtype/bufio/n=%d/%s", n, fam), func() {
				rs := rsOf()
				b := cleanRun(c, n, fam, rs, famKey(fam, n), true)
				if b == nil {
					c.Obs("wtype_units_skipped_after_clean_violation", 1)
					return
				}
				ks := bufioKinds(b, bufioSizes)
				c.Obs("wtype:bufio:(size, fill level) pairs", len(ks))
				for _, k := range ks {
					typePlane(c, k, n, fam, rs, b, typeModes(k.name, n, c.Thorough()))
				}
			})
		}
	}
}

// faultFreeTypes: bytes.Buffer (fresh and already holding the caller's bytes)
// and a real *os.File.
func faultFreeTypes(c *engine.Ctx, n int, fam string, rs uint64, b *baseRun) {
	wf := func(i, j int) int { return int(weightValue(fam, n, rs, i, j)) }
	det := func(kind string) caseDetail {
		return caseDetail{N: n, Weights: fam, RS: rs, Matrix: matrixRows(fam, n, rs), Note: "writer: " + kind}
	}
	check := func(kind string, pi *engine.PanicInfo, err error, got []byte, prefix int) {
		c.Eval(1)
		c.Obs("wtype:fault-free:"+kind, 1)
		switch {
		case pi != nil:
			c.Violation("LIB|panic|"+engine.SiteNoLine(pi.Site)+"|writer="+kind, det(kind), pi.String(), "LIB returns")
		case err != nil:
			c.Violation("LIB|error-without-write-failure|writer="+kind, det(kind), "error "+err.Error(), "nil: no write failed")
		case len(got) < prefix || !bytes.Equal(got[prefix:], b.data):
			c.Violation("LIB|output-depends-on-writer-type|writer="+kind, det(kind), fmt.Sprintf("%q", clip(string(got), 2000)), "the caller's bytes followed by the same TSPLIB document as on a plain io.Writer")
		}
	}
	for _, pre := range []string{"", "COMMENT : written by the caller\n"} {
		buf := bytes.NewBufferString(pre)
		var err error
		pi := c.Call(fmt.Sprintf("LIB|bytes.Buffer|n=%d,%s", n, fam), func() { err = tsp.LIB(buf, n, wf) })
		check("bytes.Buffer", pi, err, buf.Bytes(), len(pre))
	}
	path := filepath.Join(c.OutDir(), fmt.Sprintf("c20-file-n%d-%s.tsp", n, fam))
	f, ferr := os.Create(path)
	if ferr != nil {
		c.Inconclusive("cannot create a temporary file: " + ferr.Error())
		return
	}
	var err error
	pi := c.Call(fmt.Sprintf("LIB|os.File|n=%d,%s", n, fam), func() { err = tsp.LIB(f, n, wf) })
	f.Close()
	got, _ := os.ReadFile(path)
	os.Remove(path)
	check("os.File", pi, err, got, 0)
}

// pipeRuns: LIB writes into an io.Pipe whose reader goes away after R bytes.
func pipeRuns(c *engine.Ctx, n int, fam string, rs uint64, b *baseRun) {
	wf := func(i, j int) int { return int(weightValue(fam, n, rs, i, j)) }
	L := len(b.data)
	set := map[int]bool{}
	for _, x := range []int{0, 1, 10, b.ws - 1, b.ws, b.ws + 1, (b.ws + b.es) / 2, b.es - 1, b.es, b.es + 1, L - 1, L, L + 50} {
		if x >= 0 {
			set[x] = true
		}
	}
	var rsz []int
	for x := range set {
		rsz = append(rsz, x)
	}
	sort.Ints(rsz)
	for _, R := range rsz {
		pr, pw := io.Pipe()
		done := make(chan []byte, 1)
		go func() {
			var got []byte
			buf := make([]byte, 7)
			for len(got) < R {
				m := R - len(got)
				if m > len(buf) {
					m = len(buf)
				}
				k, err := pr.Read(buf[:m])
				got = append(got, buf[:k]...)
				if err != nil {
					break
				}
			}
			pr.CloseWithError(errReaderGone)
			done <- got
		}()
		ob := &observer{w: pw}
		var err error
		pi := c.Call(fmt.Sprintf("LIB|pipe|n=%d,%s|reader closes after %d bytes", n, fam, R), func() { err = tsp.LIB(ob, n, wf) })
		pw.Close()
		got := <-done
		c.Eval(1)
		c.Obs("wtype:pipe_runs", 1)
		det := caseDetail{N: n, Weights: fam, RS: rs, Matrix: matrixRows(fam, n, rs), Note: fmt.Sprintf("writer: io.Pipe, the reader reads %d bytes and closes with an error; the document has %d bytes", R, L)}
		switch {
		case pi != nil:
			c.Violation("LIB|panic-on-write-failure|"+engine.SiteNoLine(pi.Site)+"|reader-closed|writer=pipe", det, pi.String(), "a non-nil error")
		case ob.failed > 0:
			c.Obs("wtype:pipe:writes_failed_because_the_reader_left", 1)
			sect := sectionAt(len(got), 1, b.ws, b.es)
			obsCovered(c.Obs, "wtype:pipe:reader_left_in:", sect)
			if coversWeights(sect) {
				c.NTDistinct(1)
			}
			if err == nil {
				c.Violation(wviolKey("reader-closed", "pipe"), det, fmt.Sprintf("LIB returned nil although %d of its writes failed (%d of %d bytes were read)", ob.failed, len(got), L), "a non-nil error")
			}
		default:
			c.Obs("wtype:pipe:all_writes_succeeded", 1)
			if err != nil {
				c.Violation("LIB|error-without-write-failure|writer=pipe", det, "error "+err.Error(), "nil: no write failed")
			} else if !bytes.Equal(got, b.data) && R >= L {
				c.Violation("LIB|output-depends-on-writer-type|writer=pipe", det, fmt.Sprintf("%q", clip(string(got), 2000)), "the same TSPLIB document as on a plain io.Writer")
			}
		}
		if len(got) <= L && !bytes.Equal(got, b.data[:len(got)]) {
			c.Obs("wtype:pipe:bytes_read_are_not_a_prefix_of_the_document", 1)
		}
	}
}

// typeFinish: offline re-derivation of the writer-type plane.
func typeFinish(s *engine.Super, wbases, wfaults []event) int64 {
	type info struct {
		ev   event
		seen map[string][]bool
	}
	bases := map[string]*info{}
	for _, ev := range wbases {
		if _, dup := bases[ev.ID]; dup {
			s.AddObs("offline:duplicate_base_records", 1)
			continue
		}
		bi := &info{ev: ev, seen: map[string][]bool{}}
		for _, m := range ev.Modes {
			bi.seen[m] = make([]bool, ev.W)
		}
		bases[ev.ID] = bi
	}
	judged := int64(0)
	for i := range wfaults {
		ev := &wfaults[i]
		bi := bases[ev.ID]
		if bi == nil || ev.Fault == nil || ev.Fault.Pos < 0 || ev.Fault.Pos >= bi.ev.W || bi.seen[ev.Fault.Mode] == nil {
			s.Inconclusive("event log: writer-type injected run without a matching fault-free record: " + ev.ID)
			return judged
		}
		if bi.seen[ev.Fault.Mode][ev.Fault.Pos] {
			s.AddObs("offline:duplicate_fault_records", 1)
			continue
		}
		bi.seen[ev.Fault.Mode][ev.Fault.Pos] = true
		if ev.Fired && judgedMode(ev.Fault.Mode) != retOK(ev.Ret, ev.FLen, ev.RetErr) {
			s.Inconclusive(fmt.Sprintf("event log: mode %s is judged=%v but the faulted device call returned (%d, %q) for %d bytes", ev.Fault.Mode, judgedMode(ev.Fault.Mode), ev.Ret, ev.RetErr, ev.FLen))
			return judged
		}
		if ev.Panic != "" || !ev.Fired || !ev.Hit || !judgedUnder(ev.Fault.Mode, ev.Converts) {
			s.AddObs("offline:wtype:records_not_judged", 1)
			continue
		}
		judged++
		s.AddObs("offline:wtype:judged:"+ev.Kind, 1)
		if ev.ErrNil {
			s.AddObs("offline:wtype:verdicts_violated", 1)
			s.Violation(wviolKey(ev.Fault.Mode, ev.Kind), ev, fmt.Sprintf("LIB returned nil although call %d on the device failed before LIB returned (%s)", ev.Fault.Pos, ev.ID), "a non-nil error")
		}
	}
	complete := int64(0)
	for id, bi := range bases {
		ok := true
		for m, seen := range bi.seen {
			for p, v := range seen {
				if !v {
					ok = false
					s.Inconclusive(fmt.Sprintf("event log: no record for device call %d mode %s of %s", p, m, id))
					break
				}
			}
			if !ok {
				break
			}
		}
		if ok {
			complete++
		}
	}
	s.AddObs("offline:wtype:bases_complete", complete)
	s.AddObs("offline:wtype:records_judged", judged)
	if want := s.Obs("wtype_bases"); int64(len(wbases)) < want || complete < int64(len(bases)) {
		s.Inconclusive(fmt.Sprintf("event log: writer-type plane incomplete (%d base records, %d complete, %d expected)", len(wbases), complete, want))
	}
	return judged
}

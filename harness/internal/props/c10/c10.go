// Package c10 monitors the distance, connectivity and cycle-structure
// invariants of the graph package against definition-level oracles
// (DESIGN.md section 4, C10).
package c10

import (
	"fmt"
	"sort"

	"github.com/Tom-Johnston/mamba/graph"

	"verif/internal/engine"
	"verif/internal/gen"
	"verif/internal/oracle/conn"
	"verif/internal/oracle/rg"
)

func init() {
	engine.Register(&engine.Property{
		ID:    "C10",
		Level: "exploration",
		Rule: "graphs: every isomorphism class n<=7 (quick) / n<=8 (thorough) x {identity, fixed and seeded relabellings}, every labelled graph n<=5 (6), seeded graphs 9<=n<=13, " +
			"block forests / cactus graphs built from known pieces up to n=30, named families (K_n, wheels, grids, cages, ...), n=0,1,2; each held as dense, sparse, InducedSubgraph view of a larger host and complement view of the complement; " +
			"large structured graphs with n in {31,32,33,63..66,100,127..130,200,257} (paths, cycles, stars, K_n, K_a,b, grids, tori, hypercubes, ladders, caterpillars, brooms, a long cycle with trees, disjoint unions, block forests with known blocks) as dense, sparse and view, with sampled Distance pairs / ConnectedComponent vertices and closed forms cross-checked against the polynomial oracles; " +
			"call sequences in one process on graphs with n in {300,511..513,1000,1023..1025,2048,4096} (thorough: also 1026,1500,2047,2049,3000,4095,4097) and seeded sizes 1024..2500 (cycles with a tail, relabelled cycles, cycles with a chord, paths, trees of four shapes, trees plus edges, grids, prisms, Q10/Q11, stars, sparse random graphs, disjoint unions) mixed with graphs of 0..300 vertices: " +
			"scripted sequences per function f (f twice on the same graph, then on a disconnected / a small / another large graph of the same size / the empty graph and back), seeded closed walks through every ordered pair of the 11 functions (and of the 5 search functions) where the graph of a step is that of the step before or any other of the session, large graphs as dense and as view after each other; every single result of a sequence is judged against adjacency-list oracles (induced counters with maxLength<=4, NumberOfCycles where the count is known by construction). " +
			"labelling sweeps (the functions visit the vertices in label order, so one graph is handed over under tens to hundreds of labellings built from its structure: sorted by the distance from every vertex, from every block with a cycle, from all cycle vertices, from the leaves and from the cut vertices, near first and far first, ties by degree / base label / seed; one cycle first and the rest by the distance from another cycle; depth-first pre- and post-orders from every vertex; reversed and seeded ones; all n! labellings for n<=7 in thorough): " +
			"every connected graph with cyclomatic number 0..3 on n<=7 (8) vertices, every pair of connected unicyclic graphs with <=6 (8) and <=8 vertices (all isomorphism classes, counts checked against OEIS A001429) side by side and (every second pair, alternating with the seed; thorough: every pair) joined by a seeded path, every triple with <=5 (6) vertices each, seeded constructions of 2..4 cycles of lengths 3..9 of both parities joined by shared vertices, paths and ears or lying apart, with pendant paths and trees, 11..20 vertices (every eighth one: lengths 3..13, 21..40 vertices, polynomial functions only), checked against their construction, and the named families; Girth on every labelling, the other functions in turn; dense / sparse / views. " +
			"Every value of Distance (all pairs), Eccentricity, Diameter, Radius, Girth, ConnectedComponent (all v), ConnectedComponents, BiconnectedComponents, NumberOfCycles, NumberOfInducedCycles/Paths (every maxLength in -1..n+1, entries up to the bound) " +
			"is compared with definition oracles computed on the base graph and carried through the relabelling. non-trivial = n>=4 and m>=2; distinct = (labelled graph, representation)",
		Assumptions: []string{
			"oracles (harness code, no library code): BFS distances, components by search, cut vertices by vertex deletion, blocks as classes of edges not separated by any single vertex, girth by edge deletion, cycle / induced cycle / induced path counts by exhaustive path extension; cross-checked against oracle/brute (Floyd-Warshall, cycle enumeration) and closed formulas in the self-check and again on every base graph with n<=8",
			"library graphs are built by filling the exported fields of DenseGraph / SparseGraph (no constructor under test); the InducedSubgraph and Complement views are first checked to present the intended adjacency (else the case is skipped and counted)",
			"call sequences: graphs in harness-owned adjacency lists; expected values by one BFS per source, component search, cut vertices and blocks by vertex deletion, girth by edge deletion, induced paths / cycles with at most 4 edges by path extension; compared with the closed forms of each construction before the library is judged and with the oracles of the small workloads in the self-check; a call of the property's functions may not depend on earlier calls in the same process",
			"labelling sweeps: the expected values are computed once on the base graph by the same oracles and carried through the permutation (equivariance of the oracles is checked in the class workload); the lists of connected unicyclic graphs come from the harness' own class lists (n<=7) and from pendant-vertex extension with an isomorphism test (n=8), and must have the published sizes 1,2,5,13,33,89; girth, cyclomatic number and component count of a constructed cycle net are compared with its construction before the library is judged",
			"conventions taken from the documentation: Distance -1 without a path; Eccentricity all -1, Diameter and Radius -1 when disconnected (0 for n=0); Girth -1 when acyclic; result index = length for the counters; NumberOfInducedPaths entry 0 = n; entries beyond maxLength are not judged; order of components / blocks / articulation vertices is not judged, blocks must be sorted lists, isolated vertices may or may not be singleton blocks (all or none)",
		},
		Run:            run,
		MinEvaluations: map[string]int{"quick": 1500000, "thorough": 20000000},
		MinNontrivial:  map[string]int{"quick": 20000, "thorough": 200000},
		RequiredObs: []string{
			"rep:dense", "rep:sparse", "rep:view", "rep:compl",
			"graphs:disconnected", "graphs:with_cut_vertex", "graphs:acyclic", "graphs:with_bridge", "graphs:blocks>=4",
			"calls:Distance", "calls:Eccentricity", "calls:Diameter", "calls:Radius", "calls:Girth", "calls:ConnectedComponent", "calls:ConnectedComponents",
			"calls:BiconnectedComponents", "results_appended_to_by_the_caller:BiconnectedComponents", "reentrant:calls_from_inside_a_caller_implemented_graph", "calls:NumberOfCycles", "calls:NumberOfInducedCycles", "calls:NumberOfInducedPaths",
			"relabelled_cases", "oracle_crosschecks", "entries_beyond_bound_not_judged", "large:graphs", "large:n=257", "large:calls:Distance",
			// call sequences on graphs of hundreds to thousands of vertices (huge.go)
			"huge:graphs_n>=512", "huge:graphs_n>=1024", "huge:graphs_n>=2048", "huge:graphs_n>=4096", "huge:rep:sparse", "huge:rep:dense", "huge:rep:view",
			"huge:closed_forms_checked_against_the_oracles", "seq:sessions", "seq:steps",
			"seq:same_function_same_graph_again", "seq:same_function_other_graph", "seq:other_function_same_graph", "seq:other_function_other_graph",
			"seq:large_after_small", "seq:small_after_large", "seq:large_after_larger", "seq:large_after_smaller_large", "seq:large_after_other_graph_of_equal_size",
			"seq:representation_changes", "max:seq:distinct_ordered_function_pairs_in_one_session",
			"seq:repeat_n>=1024:Distance", "seq:repeat_n>=1024:Eccentricity", "seq:repeat_n>=1024:Diameter", "seq:repeat_n>=1024:Radius", "seq:repeat_n>=1024:Girth",
			"seq:repeat_n>=1024:ConnectedComponent", "seq:repeat_n>=1024:ConnectedComponents", "seq:repeat_n>=1024:BiconnectedComponents",
			"seq:repeat_n>=1024:NumberOfCycles", "seq:repeat_n>=1024:NumberOfInducedCycles", "seq:repeat_n>=1024:NumberOfInducedPaths",
			// many labellings of sparse graphs with a few cycles (orders.go)
			"orders:graphs", "orders:labellings", "orders:graphs_with_50+_labellings", "max:orders:labellings_of_one_graph",
			"orders:unicyclic_lists_equal_the_published_counts", "orders:unicyclic_pairs", "orders:unicyclic_pairs_joined_by_a_path", "orders:unicyclic_triples", "orders:cycle_nets_checked_against_their_construction", "orders:family_graphs",
			"orders:graphs:cycles_of_both_parities", "orders:graphs:even_girth_and_a_longer_odd_cycle", "orders:graphs:odd_girth_and_a_longer_even_cycle",
			"orders:graphs:disconnected", "orders:graphs:acyclic", "orders:graphs:cycles_and_pendant_trees", "orders:graphs:girth>=4",
			"orders:graphs:cyclomatic_number=1", "orders:graphs:cyclomatic_number=2", "orders:graphs:cyclomatic_number=3", "orders:graphs:cyclomatic_number=4",
			"orders:kind:reverse", "orders:kind:seeded", "orders:kind:depth-first preorder", "orders:kind:depth-first postorder",
			"orders:kind:distance from one vertex, near first", "orders:kind:distance from one vertex, far first",
			"orders:kind:distance from a block with a cycle, near first", "orders:kind:distance from a block with a cycle, far first",
			"orders:kind:distance from all cycle vertices, far first", "orders:kind:distance from the leaves, far first", "orders:kind:distance from the cut vertices, far first",
			"orders:kind:one cycle first, then far from another cycle first", "orders:kind:one cycle first, then near another cycle first",
			"orders:calls:Girth", "orders:calls:Eccentricity", "orders:calls:Diameter", "orders:calls:Radius", "orders:calls:BiconnectedComponents", "orders:calls:ConnectedComponents",
			"orders:calls:NumberOfCycles", "orders:calls:NumberOfInducedCycles", "orders:calls:NumberOfInducedPaths", "orders:calls:Distance", "orders:calls:ConnectedComponent",
		},
	})
}

// ---------------------------------------------------------------------------
// expected values

type want struct {
	n         int
	dist      [][]int
	connected bool
	ecc       []int
	diam, rad int
	girth     int
	comps     [][]int // ascending lists, sorted
	compOf    []int   // index into comps
	art       []int   // ascending
	blocks    [][]int // blocks with an edge, ascending lists, sorted
	isolated  []int
	maxMu     int   // largest cyclomatic number of a block
	cycles    []int // nil if the oracle gave up
	indCycles []int
	indPaths  []int
	indSteps  int64 // path extensions the induced counters needed (a measure of the library's cost as well)
}

const oracleSteps = 400000

func oracle(g *rg.G) *want {
	w := polynomialPart(g, false)
	if w.maxMu <= 22 {
		if c, ok := conn.Cycles(g, &conn.Budget{Steps: oracleSteps}); ok {
			w.cycles = c
		}
	}
	bc, bp := &conn.Budget{Steps: oracleSteps}, &conn.Budget{Steps: oracleSteps}
	if c, ok := conn.InducedCycles(g, bc); ok {
		w.indCycles = c
	}
	if c, ok := conn.InducedPaths(g, bp); ok {
		w.indPaths = c
	}
	w.indSteps = bc.Used + bp.Used
	return w
}

const girthUnknown = -2

// polynomialPart computes everything that has a polynomial definition-level
// oracle.  large selects the n-search block oracle, and leaves the girth
// unknown when the edge-deletion oracle would need more than about 4e7 steps
// (the caller then supplies a closed form).
func polynomialPart(g *rg.G, large bool) *want {
	n := g.N
	w := &want{n: n}
	w.dist = conn.Dist(g)
	w.comps = conn.ComponentSets(g)
	w.compOf = make([]int, n)
	for k, s := range w.comps {
		for _, v := range s {
			w.compOf[v] = k
		}
	}
	w.connected = len(w.comps) <= 1
	w.ecc = make([]int, n)
	for i := 0; i < n; i++ {
		if !w.connected {
			w.ecc[i] = -1
			continue
		}
		for _, d := range w.dist[i] {
			if d > w.ecc[i] {
				w.ecc[i] = d
			}
		}
	}
	if n > 0 {
		if !w.connected {
			w.diam, w.rad = -1, -1
		} else {
			w.diam, w.rad = w.ecc[0], w.ecc[0]
			for _, e := range w.ecc {
				if e > w.diam {
					w.diam = e
				}
				if e < w.rad {
					w.rad = e
				}
			}
		}
	}
	if m := g.M(); large && m*(n+m) > 40000000 {
		w.girth = girthUnknown
	} else {
		w.girth = conn.Girth(g)
	}
	w.art = conn.Articulation(g)
	if large {
		w.blocks, w.isolated = conn.BlocksFast(g)
	} else {
		w.blocks, w.isolated = conn.Blocks(g)
	}
	for _, b := range w.blocks {
		m := 0
		for i := range b {
			for j := 0; j < i; j++ {
				if g.Has(b[i], b[j]) {
					m++
				}
			}
		}
		if mu := m - len(b) + 1; mu > w.maxMu {
			w.maxMu = mu
		}
	}
	return w
}

// relabel carries the expected values to h = g.Induced(p) (vertex i of h is
// vertex p[i] of g): vertex-indexed values are read through p, vertex-valued
// ones are mapped through the inverse.
func (w *want) relabel(p []int) *want { return w.relabelWith(p, true) }

// relabelWith is relabel; the matrix of distances is left out (nil) unless withDist.
func (w *want) relabelWith(p []int, withDist bool) *want {
	n := w.n
	inv := make([]int, n)
	for i, x := range p {
		inv[x] = i
	}
	mapSet := func(s []int) []int {
		r := make([]int, len(s))
		for i, x := range s {
			r[i] = inv[x]
		}
		sort.Ints(r)
		return r
	}
	mapSets := func(a [][]int) [][]int {
		r := make([][]int, len(a))
		for i, s := range a {
			r[i] = mapSet(s)
		}
		conn.SortSets(r)
		return r
	}
	v := &want{n: n, connected: w.connected, diam: w.diam, rad: w.rad, girth: w.girth, maxMu: w.maxMu,
		cycles: w.cycles, indCycles: w.indCycles, indPaths: w.indPaths, indSteps: w.indSteps}
	if withDist {
		v.dist = make([][]int, n)
	}
	v.ecc = make([]int, n)
	for i := 0; i < n; i++ {
		if withDist {
			v.dist[i] = make([]int, n)
			for j := 0; j < n; j++ {
				v.dist[i][j] = w.dist[p[i]][p[j]]
			}
		}
		v.ecc[i] = w.ecc[p[i]]
	}
	v.comps = mapSets(w.comps)
	v.compOf = make([]int, n)
	for k, s := range v.comps {
		for _, x := range s {
			v.compOf[x] = k
		}
	}
	v.art = mapSet(w.art)
	v.blocks = mapSets(w.blocks)
	v.isolated = mapSet(w.isolated)
	return v
}

func (w *want) same(o *want) string {
	a := fmt.Sprint(w.dist, w.connected, w.ecc, w.diam, w.rad, w.girth, w.comps, w.art, w.blocks, w.isolated, w.cycles, w.indCycles, w.indPaths)
	b := fmt.Sprint(o.dist, o.connected, o.ecc, o.diam, o.rad, o.girth, o.comps, o.art, o.blocks, o.isolated, o.cycles, o.indCycles, o.indPaths)
	if a != b {
		return "carried: " + a + " direct: " + b
	}
	return ""
}

// ---------------------------------------------------------------------------
// representations

var repNames = []string{"dense", "sparse", "view", "compl"}

type held struct {
	g     graph.Graph
	extra map[string]interface{}
}

// hold builds the library value that represents h.  variant selects the kind
// of host of the two views; r drives the shape of the host of an induced view
// (a fixed stream for the fixed workloads).
func hold(c *engine.Ctx, key string, h *rg.G, rep string, variant int, r *engine.Rng) (*held, *engine.PanicInfo) {
	out := &held{extra: map[string]interface{}{}}
	switch rep {
	case "dense":
		out.g = h.Dense()
	case "sparse":
		out.g = h.Sparse()
	case "compl":
		co := h.Complement()
		var host graph.Graph
		if variant%2 == 0 {
			host = co.Dense()
			out.extra["host"] = "dense complement"
		} else {
			host = co.Sparse()
			out.extra["host"] = "sparse complement"
		}
		if pi := c.Call(key+"|Complement", func() { out.g = graph.Complement(host) }); pi != nil {
			return nil, pi
		}
	case "view":
		n := h.N
		x := 1 + r.Intn(3)
		q := r.Perm(n + x)
		big := rg.New(n + x)
		for _, e := range h.Edges() {
			big.Add(q[e[0]], q[e[1]])
		}
		// the vertices outside the view are joined to the view and to each
		// other, so a view that leaks its host changes every answer
		for a := n; a < n+x; a++ {
			for b := 0; b < a; b++ {
				if r.Bool(0.5) {
					big.Add(q[a], q[b])
				}
			}
		}
		V := append([]int{}, q[:n]...)
		var host graph.Graph
		if variant%2 == 0 {
			host = big.Dense()
			out.extra["host"] = "dense"
		} else {
			host = big.Sparse()
			out.extra["host"] = "sparse"
		}
		if big.N <= 62 {
			out.extra["host_g6"] = big.G6()
		}
		out.extra["host_extra_vertices"] = x
		out.extra["V"] = V
		if pi := c.Call(key+"|InducedSubgraph", func() { out.g = graph.InducedSubgraph(host, V) }); pi != nil {
			return nil, pi
		}
	}
	return out, nil
}

// presents checks that the library value shows exactly the adjacency of h
// through N, M, IsEdge (i != j), Neighbours and Degrees.
func presents(c *engine.Ctx, key string, lg graph.Graph, h *rg.G) string {
	msg := ""
	pi := c.Call(key, func() {
		n := h.N
		if lg.N() != n {
			msg = fmt.Sprintf("N()=%d want %d", lg.N(), n)
			return
		}
		if lg.M() != h.M() {
			msg = fmt.Sprintf("M()=%d want %d", lg.M(), h.M())
			return
		}
		deg := lg.Degrees()
		if !eqInts(deg, h.Degrees()) {
			msg = fmt.Sprintf("Degrees()=%v want %v", deg, h.Degrees())
			return
		}
		for i := 0; i < n; i++ {
			if nb := lg.Neighbours(i); !eqInts(nb, h.Nbrs(i)) {
				msg = fmt.Sprintf("Neighbours(%d)=%v want %v", i, nb, h.Nbrs(i))
				return
			}
			for j := 0; j < n; j++ {
				if i != j && lg.IsEdge(i, j) != h.Has(i, j) {
					msg = fmt.Sprintf("IsEdge(%d,%d)=%v", i, j, !h.Has(i, j))
					return
				}
			}
		}
	})
	if pi != nil {
		return pi.String()
	}
	return msg
}

func eqInts(a, b []int) bool {
	if len(a) != len(b) {
		return false
	}
	for i := range a {
		if a[i] != b[i] {
			return false
		}
	}
	return true
}

// ---------------------------------------------------------------------------
// the battery of checks on one (labelled graph, representation)

type gcase struct {
	c        *engine.Ctx
	workload string
	h        *rg.G // labelled graph handed to the library
	g6       string
	w        *want
	rep      string
	lg       graph.Graph
	extra    map[string]interface{}
	info     map[string]interface{} // base graph, permutation, ...
	cycleCap int                    // largest block cyclomatic number for which NumberOfCycles is called
	expCap   bool                   // call the exponential induced counters
	wit      string                 // witness part of the keys: "g6=..." or, for large graphs, "graph=<name>/<labelling>"
	large    *sampling              // large graphs: which pairs / vertices / bounds are tried (nil: everything)
}

// sampling says what is tried on a large graph, where all pairs times all
// functions would cost minutes.
type sampling struct {
	pairs      [][2]int // Distance arguments
	verts      []int    // ConnectedComponent arguments
	bounds     []int    // maxLength values for NumberOfInducedCycles (nil: not called)
	pathBounds []int    // maxLength values for NumberOfInducedPaths (nil: not called)
	// expensive extra bounds, tried on the sparse representation of the identity labelling only
	heavyBounds, heavyPathBounds []int
	identity                     bool
}

func (t *gcase) detail(more ...interface{}) map[string]interface{} {
	d := map[string]interface{}{"workload": t.workload, "n": t.h.N, "m": t.h.M(), "representation": t.rep}
	if t.h.N <= 62 {
		d["g6"] = t.g6
		d["graph"] = t.h.String()
	} else {
		d["graph_id"] = t.wit
	}
	for k, v := range t.extra {
		d["rep_"+k] = v
	}
	for k, v := range t.info {
		d[k] = v
	}
	for i := 0; i+1 < len(more); i += 2 {
		d[fmt.Sprint(more[i])] = more[i+1]
	}
	return d
}

func (t *gcase) panicked(api string, pi *engine.PanicInfo, expected string, more ...interface{}) {
	t.c.Obs("panics_judged:"+api, 1)
	t.c.Violation(fmt.Sprintf("%s|panic|%s|%s", api, engine.SiteNoLine(pi.Site), t.wit), t.detail(more...), pi.String(), expected)
}

func (t *gcase) wrong(api, witness string, observed, expected string, more ...interface{}) {
	key := fmt.Sprintf("%s|wrong|%s", api, t.wit)
	if witness != "" {
		key += "|" + witness
	}
	t.c.Violation(key, t.detail(more...), observed, expected)
}

// bounds lists the maxLength arguments tried on the induced counters: every
// value in -1..n+1 when the counters are cheap on this graph, a few when they
// are expensive, none (nil) when the oracle gave up or the library would need
// minutes (its cost per extended path is 3..30 microseconds).
func (t *gcase) bounds() []int {
	w, n := t.w, t.h.N
	if t.large != nil || !t.expCap || w.indCycles == nil || w.indPaths == nil || w.indSteps > 60000 {
		return nil
	}
	if w.indSteps > 4000 {
		return []int{-1, 4, n / 2}
	}
	if w.indSteps > 400 && n > 8 {
		return []int{-1, 0, 2, 3, n / 2, n - 1, n + 1}
	}
	r := []int{}
	for ml := -1; ml <= n+1; ml++ {
		r = append(r, ml)
	}
	return r
}

func canonSets(a [][]int) ([][]int, bool) {
	sorted := true
	r := make([][]int, len(a))
	for i, s := range a {
		if !sort.IntsAreSorted(s) {
			sorted = false
		}
		r[i] = append([]int{}, s...)
		sort.Ints(r[i])
	}
	conn.SortSets(r)
	return r, sorted
}

func (t *gcase) run() {
	c, w, lg, n := t.c, t.w, t.lg, t.h.N
	ck := t.rep + "|" + t.wit + "|"
	c.Obs("rep:"+t.rep, 1)
	c.Obs(fmt.Sprintf("n=%d", n), 1)

	// Distance, all ordered pairs
	{
		ci, cj, got := 0, 0, 0
		bad := false
		calls := n * n
		var pi *engine.PanicInfo
		if t.large == nil {
			pi = c.Call(ck+"Distance", func() {
				for ci = 0; ci < n; ci++ {
					for cj = 0; cj < n; cj++ {
						got = graph.Distance(lg, ci, cj)
						if got != w.dist[ci][cj] {
							bad = true
							return
						}
					}
				}
			})
		} else {
			calls = len(t.large.pairs)
			pi = c.Call(ck+"Distance", func() {
				for _, pr := range t.large.pairs {
					ci, cj = pr[0], pr[1]
					got = graph.Distance(lg, ci, cj)
					if got != w.dist[ci][cj] {
						bad = true
						return
					}
				}
			})
			c.Obs("large:calls:Distance", calls)
		}
		c.Obs("calls:Distance", calls)
		c.Eval(calls)
		if pi != nil {
			t.panicked("Distance", pi, fmt.Sprintf("Distance(%d,%d)=%d", ci, cj, w.dist[ci][cj]), "i", ci, "j", cj)
		} else if bad {
			t.wrong("Distance", fmt.Sprintf("i=%d,j=%d", ci, cj), fmt.Sprint(got), fmt.Sprint(w.dist[ci][cj]), "i", ci, "j", cj)
		}
	}
	// Eccentricity
	{
		var got []int
		pi := c.Call(ck+"Eccentricity", func() { got = graph.Eccentricity(lg) })
		c.Obs("calls:Eccentricity", 1)
		c.Eval(1)
		if pi != nil {
			t.panicked("Eccentricity", pi, fmt.Sprint(w.ecc))
		} else if !eqInts(got, w.ecc) {
			t.wrong("Eccentricity", "", fmt.Sprint(got), fmt.Sprint(w.ecc))
		}
	}
	// Diameter, Radius, Girth
	for _, f := range []struct {
		name string
		f    func(graph.Graph) int
		want int
	}{{"Diameter", graph.Diameter, w.diam}, {"Radius", graph.Radius, w.rad}, {"Girth", graph.Girth, w.girth}} {
		got := 0
		pi := c.Call(ck+f.name, func() { got = f.f(lg) })
		c.Obs("calls:"+f.name, 1)
		c.Eval(1)
		if pi != nil {
			t.panicked(f.name, pi, fmt.Sprint(f.want))
		} else if got != f.want {
			t.wrong(f.name, "", fmt.Sprint(got), fmt.Sprint(f.want))
		}
	}
	// ConnectedComponent of every vertex
	ccVerts := []int{}
	if t.large != nil {
		ccVerts = t.large.verts
	} else {
		for v := 0; v < n; v++ {
			ccVerts = append(ccVerts, v)
		}
	}
	for _, v := range ccVerts {
		var got []int
		pi := c.Call(ck+fmt.Sprintf("ConnectedComponent(%d)", v), func() { got = graph.ConnectedComponent(lg, v) })
		c.Obs("calls:ConnectedComponent", 1)
		c.Eval(1)
		if pi != nil {
			t.panicked("ConnectedComponent", pi, fmt.Sprint(w.comps[w.compOf[v]]), "v", v)
			break
		}
		if sort.IntsAreSorted(got) {
			c.Obs("convention:ConnectedComponent_sorted", 1)
		} else {
			c.Obs("convention:ConnectedComponent_unsorted", 1)
		}
		s := append([]int{}, got...)
		sort.Ints(s)
		if !eqInts(s, w.comps[w.compOf[v]]) {
			t.wrong("ConnectedComponent", fmt.Sprintf("v=%d", v), fmt.Sprint(got), fmt.Sprint(w.comps[w.compOf[v]]), "v", v)
			break
		}
	}
	// ConnectedComponents
	{
		var got [][]int
		pi := c.Call(ck+"ConnectedComponents", func() { got = graph.ConnectedComponents(lg) })
		c.Obs("calls:ConnectedComponents", 1)
		c.Eval(1)
		if pi != nil {
			t.panicked("ConnectedComponents", pi, fmt.Sprint(w.comps))
		} else {
			t.judgeComponents(got)
			t.callerAppends("ConnectedComponents", got, nil)
		}
	}
	// BiconnectedComponents
	{
		var blocks [][]int
		var art []int
		pi := c.Call(ck+"BiconnectedComponents", func() { blocks, art = graph.BiconnectedComponents(lg) })
		c.Obs("calls:BiconnectedComponents", 1)
		c.Eval(1)
		if pi != nil {
			t.panicked("BiconnectedComponents", pi, fmt.Sprintf("blocks %v (+ optionally the isolated vertices %v), articulation %v", w.blocks, w.isolated, w.art))
		} else {
			t.judgeBlocks(blocks, art)
			if t.callerAppends("BiconnectedComponents", blocks, art) && t.large == nil {
				// ... and the function asked again gives what it gave the first time (the lists above now carry the caller's additions)
				var b2 [][]int
				var a2 []int
				if pi := c.Call(ck+"BiconnectedComponents(again)", func() { b2, a2 = graph.BiconnectedComponents(lg) }); pi != nil {
					t.panicked("BiconnectedComponents", pi, "the same result as at the first call", "history", "second call after the caller appended to the lists of the first result")
				} else {
					t.judgeBlocks(b2, a2)
				}
			}
		}
	}
	// NumberOfCycles (editable representations only)
	if eg, ok := lg.(graph.EditableGraph); ok {
		if w.cycles == nil || w.maxMu > t.cycleCap {
			c.Obs("skipped:NumberOfCycles_block_cyclomatic_number_over_cap", 1)
		} else {
			var got []int
			pi := c.Call(ck+"NumberOfCycles", func() { got = graph.NumberOfCycles(eg) })
			c.Obs("calls:NumberOfCycles", 1)
			c.Obs(fmt.Sprintf("NumberOfCycles:block_mu=%d", w.maxMu), 1)
			c.Eval(1)
			if pi != nil {
				t.panicked("NumberOfCycles", pi, fmt.Sprint(w.cycles))
			} else if len(got) < n+1 || !eqInts(got[:n+1], w.cycles) {
				t.wrong("NumberOfCycles", "", fmt.Sprint(got), fmt.Sprint(w.cycles)+" (index = length)")
			}
		}
	}
	// NumberOfInducedCycles / NumberOfInducedPaths for every bound
	mls, pls := t.bounds(), t.bounds()
	if t.large != nil {
		mls, pls = t.large.bounds, t.large.pathBounds
		if t.rep == "sparse" && t.large.identity {
			mls = append(append([]int{}, mls...), t.large.heavyBounds...)
			pls = append(append([]int{}, pls...), t.large.heavyPathBounds...)
			if len(mls) == 0 {
				mls = nil
			}
			if len(pls) == 0 {
				pls = nil
			}
		}
	}
	if mls == nil && pls == nil {
		c.Obs("skipped:induced_counters_over_budget", 1)
	} else {
		for _, ml := range mls {
			bound := ml
			if ml < 0 || ml > n {
				bound = n
			}
			var got []int
			pi := c.Call(ck+fmt.Sprintf("NumberOfInducedCycles(%d)", ml), func() { got = graph.NumberOfInducedCycles(lg, ml) })
			c.Obs("calls:NumberOfInducedCycles", 1)
			c.Eval(1)
			if pi != nil {
				t.panicked("NumberOfInducedCycles", pi, fmt.Sprint(w.indCycles[:bound+1]), "maxLength", ml)
				break
			}
			if len(got) < bound+1 || !eqInts(got[:bound+1], w.indCycles[:bound+1]) {
				t.wrong("NumberOfInducedCycles", fmt.Sprintf("maxLength=%d", ml), fmt.Sprint(got), fmt.Sprintf("%v in the entries 0..%d", w.indCycles[:bound+1], bound), "maxLength", ml)
				break
			}
			c.Obs(fmt.Sprintf("convention:NumberOfInducedCycles_len=n%+d", len(got)-n), 1)
			if len(got) > bound+1 {
				c.Obs("entries_beyond_bound_not_judged", len(got)-bound-1)
				if len(got) <= n+1 && !eqInts(got[bound+1:], w.indCycles[bound+1:len(got)]) {
					c.Obs("observed:entries_beyond_bound_differ_from_full_count", 1)
				}
			}
		}
		for _, ml := range pls {
			bound := ml
			if ml < 0 || ml > n-1 {
				bound = n - 1
			}
			var got []int
			pi := c.Call(ck+fmt.Sprintf("NumberOfInducedPaths(%d)", ml), func() { got = graph.NumberOfInducedPaths(lg, ml) })
			c.Obs("calls:NumberOfInducedPaths", 1)
			c.Eval(1)
			if pi != nil {
				t.panicked("NumberOfInducedPaths", pi, fmt.Sprint(w.indPaths[:bound+1]), "maxLength", ml)
				break
			}
			if len(got) < bound+1 || !eqInts(got[:bound+1], w.indPaths[:bound+1]) {
				t.wrong("NumberOfInducedPaths", fmt.Sprintf("maxLength=%d", ml), fmt.Sprint(got), fmt.Sprintf("%v in the entries 0..%d", w.indPaths[:bound+1], bound), "maxLength", ml)
				break
			}
			c.Obs(fmt.Sprintf("convention:NumberOfInducedPaths_len=n%+d", len(got)-n), 1)
			if len(got) > bound+1 {
				c.Obs("entries_beyond_bound_not_judged", len(got)-bound-1)
				if len(got) <= n+1 && !eqInts(got[bound+1:], w.indPaths[bound+1:len(got)]) {
					c.Obs("observed:entries_beyond_bound_differ_from_full_count", 1)
				}
			}
		}
	}
	// the calls must leave their argument alone, or the later verdicts of this case mean nothing
	if msg := presents(c, ck+"unchanged", lg, t.h); msg != "" {
		c.Obs("input_changed_by_calls", 1)
		c.Inconclusive(fmt.Sprintf("graph %s (%s) no longer presents its adjacency after the calls: %s", t.g6, t.rep, msg))
	}
}

// judgeComponents judges a result of ConnectedComponents (each component once, any order).
func (t *gcase) judgeComponents(got [][]int) {
	c, w := t.c, t.w
	cs, sorted := canonSets(got)
	if sorted {
		c.Obs("convention:ConnectedComponents_each_sorted", 1)
	} else {
		c.Obs("convention:ConnectedComponents_unsorted", 1)
	}
	if fmt.Sprint(cs) != fmt.Sprint(w.comps) {
		t.wrong("ConnectedComponents", "", fmt.Sprint(got), fmt.Sprint(w.comps)+" (each once, any order)")
	}
}

// callerAppends: the lists of a result belong to the caller, who may append to them.  Every list gets one more element
// appended in turn (and the flat list, if any); none of the OTHER lists may change by that.  False after a violation.
func (t *gcase) callerAppends(api string, lists [][]int, flat []int) bool {
	c := t.c
	snap := make([][]int, len(lists))
	for i, l := range lists {
		snap[i] = append([]int{}, l...)
	}
	fsnap := append([]int{}, flat...)
	intact := func() (int, bool) {
		for j := range snap {
			if len(lists[j]) < len(snap[j]) || !eqInts(lists[j][:len(snap[j])], snap[j]) {
				return j, false
			}
		}
		if len(flat) < len(fsnap) || !eqInts(flat[:len(fsnap)], fsnap) {
			return -1, false
		}
		return 0, true
	}
	c.Obs("results_appended_to_by_the_caller:"+api, 1)
	for i := range lists {
		lists[i] = append(lists[i], -7-i)
		if j, ok := intact(); !ok {
			t.wrong(api, "caller-appends-to-one-list-of-the-result-and-another-list-changes", fmt.Sprintf("after append(result[%d], %d): list %d (-1: the flat list) reads %v", i, -7-i, j, lists), fmt.Sprintf("the other lists as returned: %v %v", snap, fsnap))
			return false
		}
	}
	if flat != nil {
		flat = append(flat, -5)
		if j, ok := intact(); !ok {
			t.wrong(api, "caller-appends-to-one-list-of-the-result-and-another-list-changes", fmt.Sprintf("after append to the flat list: list %d reads %v", j, lists), fmt.Sprintf("the other lists as returned: %v", snap))
			return false
		}
	}
	return true
}

// judgeBlocks judges a result of BiconnectedComponents.
func (t *gcase) judgeBlocks(blocks [][]int, art []int) {
	c, w := t.c, t.w
	bs, sorted := canonSets(blocks)
	var withEdge, single [][]int
	for _, b := range bs {
		if len(b) == 1 {
			single = append(single, b)
		} else {
			withEdge = append(withEdge, b)
		}
	}
	var isoSets [][]int
	for _, v := range w.isolated {
		isoSets = append(isoSets, []int{v})
	}
	singlesOK := len(single) == 0 || fmt.Sprint(single) == fmt.Sprint(isoSets)
	if len(w.isolated) > 0 {
		if len(single) == 0 {
			c.Obs("convention:isolated_vertices_not_blocks", 1)
		} else {
			c.Obs("convention:isolated_vertices_are_singleton_blocks", 1)
		}
	}
	as := append([]int{}, art...)
	sort.Ints(as)
	exp := fmt.Sprintf("blocks %v (+ optionally all of the isolated vertices %v as singletons), each once and sorted; articulation set %v", w.blocks, w.isolated, w.art)
	switch {
	case !sorted:
		t.wrong("BiconnectedComponents", "unsorted-block", fmt.Sprint(blocks), exp)
	case fmt.Sprint(withEdge) != fmt.Sprint(w.blocks) || !singlesOK:
		t.wrong("BiconnectedComponents", "blocks", fmt.Sprint(blocks), exp)
	case !eqInts(as, w.art):
		t.wrong("BiconnectedComponents", "articulation", fmt.Sprint(art), exp)
	}
}

// ---------------------------------------------------------------------------
// one base graph: oracle once, then relabellings x representations

type plan struct {
	workload string
	perms    [][]int  // relabellings (nil entry = identity)
	permKind []string // "identity" | "fixed" | "seeded"
	reps     [][]string
	cycleCap []int // per relabelling
	expCap   bool
	w        *want // precomputed expectation (optional)
	info     map[string]interface{}
	viewRng  func(k int, rep string) *engine.Rng
	// large graphs (n > 62 has no short graph6): name used in keys, and the sampling of arguments
	largeID  string
	sampling func(k int, h *rg.G, wh *want) *sampling
}

func classify(c *engine.Ctx, g *rg.G, w *want) {
	if !w.connected {
		c.Obs("graphs:disconnected", 1)
	} else {
		c.Obs("graphs:connected", 1)
	}
	if len(w.art) > 0 {
		c.Obs("graphs:with_cut_vertex", 1)
	}
	if w.girth < 0 {
		c.Obs("graphs:acyclic", 1)
	} else {
		c.Obs(fmt.Sprintf("girth=%d", w.girth), 1)
	}
	for _, b := range w.blocks {
		if len(b) == 2 {
			c.Obs("graphs:with_bridge", 1)
			break
		}
	}
	if len(w.blocks) >= 4 {
		c.Obs("graphs:blocks>=4", 1)
	}
	if len(w.isolated) > 0 {
		c.Obs("graphs:with_isolated_vertex", 1)
	}
	c.ObsMax("blocks_in_one_graph", len(w.blocks))
	c.ObsMax("cut_vertices_in_one_graph", len(w.art))
	c.ObsMax("diameter", w.diam)
	c.ObsMax("n", g.N)
	if w.cycles != nil {
		tot := 0
		for _, x := range w.cycles {
			tot += x
		}
		c.ObsMax("cycles_in_one_graph", tot)
	}
}

func runBase(c *engine.Ctx, g *rg.G, p *plan) {
	w := p.w
	if w == nil {
		w = oracle(g)
	}
	classify(c, g, w)
	for k, perm := range p.perms {
		if c.Stopped() {
			return
		}
		h, wh := g, w
		info := map[string]interface{}{}
		for a, b := range p.info {
			info[a] = b
		}
		if perm != nil {
			h = g.Induced(perm)
			wh = w.relabel(perm)
			if g.N <= 62 {
				info["base_g6"] = g.G6()
			}
			info["relabelling"] = perm
			info["relabelling_kind"] = p.permKind[k]
			c.Obs("relabelled_cases", 1)
			if k == 1 && g.N <= 8 {
				// the carried expectation must equal the oracle run on the relabelled graph itself
				if msg := wh.same(oracle(h)); msg != "" {
					c.Inconclusive("oracle is not equivariant on " + g.G6() + ": " + msg)
					return
				}
				c.Obs("oracle_equivariance_checks", 1)
			}
		}
		g6 := h.G6()
		wit := "g6=" + g6
		var smp *sampling
		if p.largeID != "" {
			g6 = p.largeID + "/" + p.permKind[k]
			wit = "graph=" + g6
			smp = p.sampling(k, h, wh)
			smp.identity = perm == nil
		}
		for _, rep := range p.reps[k] {
			key := rep + "|" + g6
			hd, pi := hold(c, key, h, rep, k, p.viewRng(k, rep))
			if pi != nil {
				c.Obs("skipped:representation_constructor_panicked:"+rep, 1)
				continue
			}
			if msg := presents(c, key+"|presents", hd.g, h); msg != "" {
				c.Obs("skipped:representation_does_not_present_the_graph:"+rep, 1)
				c.Sample("representation-broken", map[string]interface{}{"g6": g6, "rep": rep, "what": msg})
				continue
			}
			t := &gcase{c: c, workload: p.workload, h: h, g6: g6, w: wh, rep: rep, lg: hd.g, extra: hd.extra, info: info, cycleCap: p.cycleCap[k], expCap: p.expCap, wit: wit, large: smp}
			t.run()
			if h.N >= 4 && h.M() >= 2 {
				c.NT(g6, rep)
			}
		}
	}
}

// fixedRng is a seed-independent stream for the fixed part of the workload.
func fixedRng(parts ...int) *engine.Rng {
	s := uint64(0xC10C10C10)
	for _, p := range parts {
		s = s*0x9E3779B97F4A7C15 + uint64(p) + 1
	}
	return engine.NewRng(s)
}

var allReps = []string{"dense", "sparse", "view", "compl"}

func repIndex(rep string) int {
	for i, r := range repNames {
		if r == rep {
			return i
		}
	}
	return 0
}

func reverse(n int) []int {
	p := make([]int, n)
	for i := range p {
		p[i] = n - 1 - i
	}
	return p
}

// ---------------------------------------------------------------------------
// workload

func run(c *engine.Ctx) {
	// 1. every isomorphism class, small sizes first (so that the first witness of a defect is the smallest)
	maxN := c.Pick(7, 8)
	for n := 0; n <= maxN; n++ {
		n := n
		total := int(polyaCount[n])
		chunk := 40
		if n == 8 {
			chunk = 64
		}
		for from := 0; from < total; from += chunk {
			from := from
			c.Unit(fmt.Sprintf("classes/n=%d/%d", n, from), func() {
				cl := gen.Classes(n)
				if len(cl) != total {
					c.Inconclusive(fmt.Sprintf("class list of n=%d has %d entries, expected %d", n, len(cl), total))
					return
				}
				to := from + chunk
				if to > total {
					to = total
				}
				for idx := from; idx < to && !c.Stopped(); idx++ {
					g := cl[idx]
					w := oracle(g)
					if msg := conn.CompareWithBrute(g); msg != "" {
						c.Inconclusive("oracles disagree on " + g.G6() + ": " + msg)
						continue
					}
					c.Obs("oracle_crosschecks", 1)
					sr := c.Rand(fmt.Sprintf("classes/n=%d", n), idx)
					p := &plan{workload: fmt.Sprintf("all classes n=%d", n), w: w, expCap: true,
						info: map[string]interface{}{"class_index": idx}}
					p.perms = [][]int{nil, fixedRng(n, idx, 1).Perm(n), reverse(n), sr.Perm(n)}
					p.permKind = []string{"identity", "fixed", "fixed", "seeded"}
					p.reps = [][]string{allReps, allReps, allReps, allReps}
					// NumberOfCycles costs about 3^mu: full depth on the first two labellings, capped on the others
					p.cycleCap = []int{15, 15, 13, 13}
					if n == 8 {
						p.cycleCap = []int{15, 13, 12, 12}
					}
					p.viewRng = func(k int, rep string) *engine.Rng {
						if p.permKind[k] == "seeded" {
							return sr
						}
						return fixedRng(n, idx, 100+k)
					}
					runBase(c, g, p)
				}
				if from == 0 {
					c.Obs(fmt.Sprintf("exhaustive:all %d isomorphism classes n=%d x 4 labellings x 4 representations", total, n), 1)
					c.Sample("classes", map[string]interface{}{"n": n, "classes": total, "first": cl[0].G6(), "last": cl[total-1].G6(), "relabellings_per_class": 4, "representations": allReps})
				}
			})
		}
	}

	// 2. every labelled graph on n <= 5 (6) vertices: state leaking between BFS roots or DFS branches depends on the labelling
	maxL := c.Pick(5, 6)
	for n := 0; n <= maxL; n++ {
		n := n
		e := n * (n - 1) / 2
		shards := 1
		if e >= 10 {
			shards = 1 << uint(e-8)
		}
		for s := 0; s < shards; s++ {
			s := s
			c.Unit(fmt.Sprintf("labelled/n=%d/%d", n, s), func() {
				cnt := 0
				gen.AllLabelled(n, uint64(s), uint64(shards), func(mask uint64, gg *rg.G) {
					if c.Stopped() {
						return
					}
					g := gg.Copy()
					cnt++
					p := &plan{workload: fmt.Sprintf("all labelled graphs n=%d", n), expCap: true, info: map[string]interface{}{"edge_mask": mask}}
					p.perms = [][]int{nil}
					p.permKind = []string{"identity"}
					p.reps = [][]string{allReps}
					p.cycleCap = []int{15}
					p.viewRng = func(k int, rep string) *engine.Rng { return fixedRng(n, int(mask), 7) }
					runBase(c, g, p)
				})
				c.Obs(fmt.Sprintf("labelled_graphs_n=%d", n), cnt)
				if s == 0 {
					c.Obs(fmt.Sprintf("exhaustive:all 2^%d labelled graphs n=%d x 4 representations", e, n), 1)
				}
			})
		}
	}

	// 3. named families with many short cycles / known structure
	fams := families()
	for i := 0; i < len(fams); i += 4 {
		i := i
		c.Unit(fmt.Sprintf("families/%d", i), func() {
			for j := i; j < i+4 && j < len(fams); j++ {
				f := fams[j]
				sr := c.Rand("families", j)
				p := &plan{workload: "family " + f.name, expCap: true, info: map[string]interface{}{"family": f.name}}
				p.perms = [][]int{nil, fixedRng(j, 5).Perm(f.g.N), sr.Perm(f.g.N)}
				p.permKind = []string{"identity", "fixed", "seeded"}
				p.reps = [][]string{allReps, allReps, {"sparse", "view"}}
				p.cycleCap = []int{14, 12, 12}
				p.viewRng = func(k int, rep string) *engine.Rng {
					if k == 2 {
						return sr
					}
					return fixedRng(j, 50+k)
				}
				runBase(c, f.g, p)
				c.Obs("family_graphs", 1)
				if j < 2 {
					c.Sample("families", map[string]interface{}{"name": f.name, "g6": f.g.G6()})
				}
			}
		})
	}

	// 4. block forests, cactus graphs and trees built from known pieces
	nb := c.Pick(480, 4800)
	per := 12
	for u := 0; u*per < nb; u++ {
		u := u
		c.Unit(fmt.Sprintf("blocktrees/%d", u), func() {
			for i := u * per; i < (u+1)*per && i < nb && !c.Stopped(); i++ {
				r := c.Rand("blocktrees", i)
				n := 4 + r.Intn(27)
				if i%5 == 0 {
					n = 2 + r.Intn(9)
				}
				mode := conn.Mode(i % 3)
				comps := 1
				if r.Bool(0.3) {
					comps = 2 + r.Intn(2)
				}
				iso := 0
				if r.Bool(0.25) {
					iso = 1 + r.Intn(2)
				}
				b := conn.BuildBlockTree(r, n, mode, comps, iso, r.Float()*0.7, r.Float()*0.7)
				w := oracle(b.G)
				if fmt.Sprint(w.blocks) != fmt.Sprint(b.Blocks) || !eqInts(w.art, b.Art) || !eqInts(w.isolated, b.Isolated) {
					c.Inconclusive(fmt.Sprintf("block forest %s: construction says blocks %v cut %v, oracle says %v %v", b.G.G6(), b.Blocks, b.Art, w.blocks, w.art))
					continue
				}
				c.Obs("oracle_crosschecks", 1)
				c.Obs("block_forests_checked_against_their_construction", 1)
				for _, k := range b.Pieces {
					c.Obs("piece:"+k, 1)
				}
				p := &plan{workload: "block forest", w: w, expCap: true, info: map[string]interface{}{"index": i, "pieces": b.Pieces, "mode": int(mode)}}
				p.perms = [][]int{nil, r.Perm(b.G.N)}
				p.permKind = []string{"identity", "seeded"}
				p.reps = [][]string{allReps, {repNames[i%4], repNames[(i+1)%4]}}
				p.cycleCap = []int{12, 12}
				p.viewRng = func(k int, rep string) *engine.Rng { return r }
				runBase(c, b.G, p)
				if i < 2 {
					c.Sample("blocktrees", map[string]interface{}{"g6": b.G.G6(), "blocks": b.Blocks, "cut_vertices": b.Art, "pieces": b.Pieces})
				}
			}
		})
	}

	// 5. seeded graphs 9 <= n <= 13 of several shapes
	ns := c.Pick(640, 6400)
	per = 16
	for u := 0; u*per < ns; u++ {
		u := u
		c.Unit(fmt.Sprintf("seeded/%d", u), func() {
			for i := u * per; i < (u+1)*per && i < ns && !c.Stopped(); i++ {
				r := c.Rand("seeded", i)
				n := 9 + r.Intn(5)
				var g *rg.G
				shape := ""
				switch i % 6 {
				case 0:
					shape = "G(n,p) sparse"
					g = gen.Random(r, n, (0.8+r.Float())/float64(n))
				case 1:
					shape = "G(n,p) medium"
					g = gen.Random(r, n, 0.15+0.2*r.Float())
				case 2:
					shape = "tree plus edges"
					g = gen.RandomTree(r, n)
					for k := r.Intn(5); k > 0; k-- {
						g.Add(r.Intn(n), r.Intn(n))
					}
				case 3:
					shape = "random cubic"
					if n%2 == 1 {
						n++
					}
					g = gen.RandomRegular(r, n, 3)
					if g == nil {
						g = gen.Cycle(n)
					}
				case 4:
					shape = "disjoint union"
					a := 3 + r.Intn(n-5)
					g = rg.Union(gen.Random(r, a, 0.5), gen.Random(r, n-a, 0.4))
					g = g.Induced(r.Perm(n))
				default:
					shape = "dense"
					g = gen.Random(r, n, 0.45+0.3*r.Float())
				}
				c.Obs("shape:"+shape, 1)
				p := &plan{workload: "seeded " + shape, expCap: true, info: map[string]interface{}{"index": i}}
				p.perms = [][]int{nil, r.Perm(n)}
				p.permKind = []string{"identity", "seeded"}
				p.reps = [][]string{allReps, {repNames[i%4], repNames[(i+2)%4]}}
				p.cycleCap = []int{12, 11}
				p.viewRng = func(k int, rep string) *engine.Rng { return r }
				runBase(c, g, p)
				if i < 2 {
					c.Sample("seeded", map[string]interface{}{"g6": g.G6(), "shape": shape})
				}
			}
		})
	}

	// 6. many labellings of sparse graphs with a few cycles (orders.go).  These units come before the ones with
	// large graphs: their library calls follow each other without a pause, and the memory watchdog of the engine looks
	// at the resident size of the process during library calls - memory that a unit with graphs of thousands of
	// vertices has just released, but the runtime has not yet returned, must not be charged to them.
	ordersWorkload(c)

	// 6b. calls nested in one another through a caller-implemented Graph (reentrant.go)
	reentrantUnits(c)

	// 7. large structured graphs around the sizes 32, 64, 128, 256
	largeWorkload(c)

	// 8. sequences of calls in one process on graphs with hundreds to thousands of vertices
	hugeWorkload(c)
}

var polyaCount = []int64{1, 1, 2, 4, 11, 34, 156, 1044, 12346}

type family struct {
	name string
	g    *rg.G
}

func families() []family {
	var fs []family
	add := func(name string, g *rg.G) { fs = append(fs, family{name, g}) }
	for n := 0; n <= 3; n++ {
		add(fmt.Sprintf("edgeless%d", n), rg.New(n))
	}
	for n := 2; n <= 7; n++ {
		add(fmt.Sprintf("K%d", n), gen.Complete(n))
	}
	for n := 3; n <= 13; n++ {
		add(fmt.Sprintf("wheel%d", n), gen.Wheel(n))
	}
	for _, d := range [][2]int{{2, 2}, {2, 7}, {3, 3}, {3, 4}, {3, 5}, {4, 4}, {3, 7}, {4, 5}, {2, 14}} {
		add(fmt.Sprintf("grid%dx%d", d[0], d[1]), gen.Grid(d[0], d[1]))
	}
	for _, d := range [][]int{{1, 9}, {2, 5}, {3, 3}, {3, 5}, {4, 4}, {2, 2, 2}, {1, 2, 3}, {3, 3, 3}, {1, 1, 6}} {
		add(fmt.Sprint("K", d), gen.CompleteMultipartite(d...))
	}
	for _, n := range []int{3, 4, 5, 8, 13, 24} {
		add(fmt.Sprintf("cycle%d", n), gen.Cycle(n))
		add(fmt.Sprintf("path%d", n), gen.PathG(n))
	}
	add("petersen", gen.Kneser(5, 2))
	add("heawood", gen.Heawood())
	add("Q3", gen.Hypercube(3))
	add("Q4", gen.Hypercube(4))
	add("prism6", gen.GenPetersen(6, 1))
	add("moebius-kantor", gen.GenPetersen(8, 3))
	add("dodecahedron", gen.GenPetersen(10, 2))
	add("desargues", gen.GenPetersen(10, 3))
	add("paley9-rook3x3", gen.Rook(3, 3))
	add("paley13", gen.Paley(13))
	add("circ12(1,5)", gen.Circulant(12, 1, 5))
	add("circ13(1,5)", gen.Circulant(13, 1, 5))
	add("grotzsch", gen.Mycielski(gen.Cycle(5)))
	add("4xK3", gen.Copies(gen.Complete(3), 4))
	add("3xC5", gen.Copies(gen.Cycle(5), 3))
	add("5xK2", gen.Copies(gen.Complete(2), 5))
	add("2xpetersen", gen.Copies(gen.Kneser(5, 2), 2))
	add("C4+C5+K1", rg.Union(rg.Union(gen.Cycle(4), gen.Cycle(5)), rg.New(1)))
	add("2xK3+3xK1", rg.Union(gen.Copies(gen.Complete(3), 2), rg.New(3)))
	add("co-cycle9", gen.Cycle(9).Complement())
	add("star12", gen.CompleteMultipartite(1, 11))
	// friendship graphs and chains of triangles / K4: many blocks at one or at many cut vertices
	for _, k := range []int{3, 7} {
		f := rg.New(2*k + 1)
		for i := 0; i < k; i++ {
			f.Add(0, 2*i+1)
			f.Add(0, 2*i+2)
			f.Add(2*i+1, 2*i+2)
		}
		add(fmt.Sprintf("friendship%d", k), f)
	}
	for _, k := range []int{4, 9} {
		ch := rg.New(3*k + 1)
		for i := 0; i < k; i++ {
			for a := 0; a < 4; a++ {
				for b := 0; b < a; b++ {
					ch.Add(3*i+a, 3*i+b)
				}
			}
		}
		add(fmt.Sprintf("K4-chain%d", k), ch)
	}
	// larger members for the polynomial functions (the exponential counters drop out by their budget)
	for _, f := range gen.Families() {
		if f.G.N >= 20 && f.G.N <= 40 {
			add("large:"+f.Name, f.G)
		}
	}
	return fs
}

// Demonstration for C20, change 3 (LIB rejects a negative dimension with an error before it writes anything).
//
// Run (from the root of the library, after copying this file into the tsp directory):
//
//	cp demo_test.go <repo>/tsp/c20_demo_test.go
//	cd <repo> && GOFLAGS=-mod=mod GOPROXY=off GOSUMDB=off GOTOOLCHAIN=local go test -vet=off -count=1 -timeout 600s -run 'TestC20Demo' -v ./tsp
//
// TestC20DemoProperty checks the property itself on its quantifier (n >= 0: well formed and faithful output for
// several n and weight functions, arguments of weights in range, a non-nil error whenever some Write of the
// underlying writer failed, at every position of the failing Write, transient and permanent, with several short
// counts) and passes before and after the change.
// TestC20DemoIncidentalNegativeDimension pins what the OLD code happened to do for n < 0, which is outside the
// quantifier of the property: it wrote a complete header with "DIMENSION: -3", an empty weight section and EOF, never
// called weights and returned nil; with a failing writer it returned the error of the writer. It passes on the clean
// tree and fails with the change (error, nothing written, not a single Write call).
package tsp_test

import (
	"errors"
	"fmt"
	"strconv"
	"strings"
	"testing"

	"github.com/Tom-Johnston/mamba/tsp"
)

var errC20Injected = errors.New("c20 demo: injected write failure")

// c20Writer records every Write. The failAt-th Write call (1-based, 0 = never) fails; if permanent every later call
// fails too. A failing call accepts short bytes of its argument (clipped to len(p)) before reporting the error.
type c20Writer struct {
	calls     int
	chunks    []string
	failAt    int
	permanent bool
	short     int
	failed    bool
}

func (w *c20Writer) Write(p []byte) (int, error) {
	w.calls++
	if w.failAt > 0 && (w.calls == w.failAt || (w.permanent && w.calls > w.failAt)) {
		w.failed = true
		k := w.short
		if k > len(p) {
			k = len(p)
		}
		w.chunks = append(w.chunks, string(p[:k]))
		return k, errC20Injected
	}
	w.chunks = append(w.chunks, string(p))
	return len(p), nil
}

func (w *c20Writer) String() string { return strings.Join(w.chunks, "") }

// c20Check parses out as the TSPLIB problem that LIB has to produce for n and weights.
func c20Check(out string, n int, weights func(i, j int) int) error {
	lines := strings.Split(out, "\n")
	if len(lines) == 0 || lines[len(lines)-1] != "" {
		return fmt.Errorf("output does not end with a newline")
	}
	lines = lines[:len(lines)-1]
	header := []string{"TYPE: TSP", "DIMENSION: " + strconv.Itoa(n), "DISPLAY_DATA_TYPE: NO_DISPLAY", "EDGE_WEIGHT_TYPE: EXPLICIT", "EDGE_WEIGHT_FORMAT: LOWER_DIAG_ROW", "EDGE_WEIGHT_SECTION"}
	if len(lines) != len(header)+n+1 {
		return fmt.Errorf("%d lines, want %d", len(lines), len(header)+n+1)
	}
	for k, h := range header {
		if lines[k] != h {
			return fmt.Errorf("header line %d is %q, want %q", k, lines[k], h)
		}
	}
	for i := 0; i < n; i++ {
		fields := strings.Fields(lines[len(header)+i])
		if len(fields) != i+1 {
			return fmt.Errorf("row %d has %d entries", i, len(fields))
		}
		for j, f := range fields {
			v, err := strconv.Atoi(f)
			if err != nil {
				return fmt.Errorf("row %d entry %d: %v", i, j, err)
			}
			want := 0
			if j < i {
				want = weights(i, j)
			}
			if v != want {
				return fmt.Errorf("row %d entry %d is %d, want %d", i, j, v, want)
			}
		}
	}
	if lines[len(lines)-1] != "EOF" {
		return fmt.Errorf("last line is %q, want EOF", lines[len(lines)-1])
	}
	return nil
}

type c20Weights struct {
	name string
	f    func(i, j int) int
}

func c20WeightFunctions() []c20Weights {
	return []c20Weights{
		{"golden", func(i, j int) int {
			if i > j {
				return 100*j + i
			}
			return 100*i + j
		}},
		{"negative", func(i, j int) int { return -(7*i + 3*j + 1) }},
		{"large", func(i, j int) int { return (1<<62 - 1) - 1000003*i - j }},
		{"asymmetric", func(i, j int) int { return (i-2*j)*(i+5) - 40 }},
		{"mixed widths", func(i, j int) int {
			v := 1
			for k := 0; k < (i*i+j)%17; k++ {
				v *= 10
			}
			if (i+j)%3 == 0 {
				v = -v
			}
			return v
		}},
	}
}

// c20Guard wraps weights and records calls with arguments outside 0 <= j < i < n.
func c20Guard(n int, f func(i, j int) int, bad *[]string) func(i, j int) int {
	return func(i, j int) int {
		if !(0 <= j && j < i && i < n) {
			*bad = append(*bad, fmt.Sprintf("(%d,%d)", i, j))
		}
		return f(i, j)
	}
}

func TestC20DemoProperty(t *testing.T) {
	for _, wf := range c20WeightFunctions() {
		for _, n := range []int{0, 1, 2, 3, 5, 11, 24, 90} {
			var bad []string
			good := &c20Writer{}
			err := tsp.LIB(good, n, c20Guard(n, wf.f, &bad))
			if err != nil {
				t.Fatalf("%s n=%d: error %v on a writer that does not fail", wf.name, n, err)
			}
			if err := c20Check(good.String(), n, wf.f); err != nil {
				t.Fatalf("%s n=%d: %v", wf.name, n, err)
			}
			if len(bad) > 0 {
				t.Fatalf("%s n=%d: weights called outside 0 <= j < i < n: %v", wf.name, n, bad)
			}
			// Failing Write at every position that exists in this build (all of them for small n, a sample for n = 90),
			// and a few positions that do not exist.
			positions := []int{}
			for k := 1; k <= good.calls+2; k++ {
				if n <= 24 || k <= 8 || k > good.calls-8 || k%97 == 0 {
					positions = append(positions, k)
				}
			}
			for _, k := range positions {
				for _, permanent := range []bool{false, true} {
					for _, short := range []int{0, 1, 1 << 30} {
						var bad []string
						w := &c20Writer{failAt: k, permanent: permanent, short: short}
						err := tsp.LIB(w, n, c20Guard(n, wf.f, &bad))
						if w.failed && err == nil {
							t.Fatalf("%s n=%d: Write call %d failed (permanent=%v short=%d) but LIB returned nil", wf.name, n, k, permanent, short)
						}
						if err == nil {
							if cerr := c20Check(w.String(), n, wf.f); cerr != nil {
								t.Fatalf("%s n=%d failAt=%d: LIB returned nil but the output is wrong: %v", wf.name, n, k, cerr)
							}
						}
						if len(bad) > 0 {
							t.Fatalf("%s n=%d failAt=%d: weights called outside 0 <= j < i < n: %v", wf.name, n, k, bad)
						}
					}
				}
			}
		}
	}
}

func TestC20DemoIncidentalNegativeDimension(t *testing.T) {
	for _, n := range []int{-1, -3, -1 << 40} {
		calls := 0
		weights := func(i, j int) int { calls++; return 7 }
		w := &c20Writer{}
		err := tsp.LIB(w, n, weights)
		t.Logf("n=%d: err=%v, %d Write calls, received %q, weights called %d times", n, err, w.calls, w.String(), calls)
		// No argument is valid for n < 0, whatever the build.
		if calls != 0 {
			t.Fatalf("PROPERTY (spirit of): weights called for n=%d", n)
		}
		if err != nil {
			t.Errorf("OLD behaviour: LIB(w, %d, ...) returns nil; got %v", n, err)
		}
		want := "TYPE: TSP\nDIMENSION: " + strconv.Itoa(n) + "\nDISPLAY_DATA_TYPE: NO_DISPLAY\nEDGE_WEIGHT_TYPE: EXPLICIT\nEDGE_WEIGHT_FORMAT: LOWER_DIAG_ROW\nEDGE_WEIGHT_SECTION\nEOF\n"
		if w.String() != want {
			t.Errorf("OLD behaviour: LIB(w, %d, ...) writes a header with DIMENSION: %d, an empty weight section and EOF; got %q", n, n, w.String())
		}
		// A failing writer: the old code returns the error of the writer after one Write call.
		fw := &c20Writer{failAt: 1, permanent: true}
		err = tsp.LIB(fw, n, weights)
		t.Logf("n=%d, failing writer: err=%v, %d Write calls", n, err, fw.calls)
		if err == nil {
			t.Fatalf("nil error although a Write failed")
		}
		if !errors.Is(err, errC20Injected) || fw.calls != 1 {
			t.Errorf("OLD behaviour: for n=%d the first header Write is attempted and its error is returned; got err=%v after %d Write calls", n, err, fw.calls)
		}
	}
}

package c06

import (
	"fmt"
	"sort"

	"github.com/Tom-Johnston/mamba/graph"

	"verif/internal/engine"
	"verif/internal/oracle/iso"
	"verif/internal/oracle/rg"
)

// snap is everything the Graph interface lets one observe about a value, read
// once (inside guarded calls) and judged afterwards by harness code only.
type snap struct {
	n, m int
	adj  [][]bool // n x n including the diagonal, exactly as IsEdge answered
	deg  []int
	nb   [][]int
}

const maxN = 4608 // a constructed graph that is read through all ordered pairs never has more vertices

// maxFullN: decoder results up to this size are read through all ordered pairs
// (observe); larger ones through the lean observer of thresholds.go.
const maxFullN = 300

// observe reads h through N, IsEdge, M, Degrees and Neighbours.  On a panic of
// an observer (or an absurd N) it returns the kind and a description instead.
func observe(c *engine.Ctx, key string, h graph.Graph) (s *snap, kind, observed string) {
	s = &snap{}
	if pi := c.Call(key+"|N", func() { s.n = h.N() }); pi != nil {
		return nil, "panic-in-N@" + engine.SiteNoLine(pi.Site), pi.String()
	}
	if s.n < 0 || s.n > maxN {
		return nil, "N", fmt.Sprintf("N()=%d", s.n)
	}
	n := s.n
	s.adj = make([][]bool, n)
	for i := range s.adj {
		s.adj[i] = make([]bool, n)
	}
	if pi := c.Call(key+"|IsEdge", func() {
		for i := 0; i < n; i++ {
			for j := 0; j < n; j++ {
				s.adj[i][j] = h.IsEdge(i, j)
			}
		}
	}); pi != nil {
		return nil, "panic-in-IsEdge@" + engine.SiteNoLine(pi.Site), pi.String()
	}
	if pi := c.Call(key+"|M", func() { s.m = h.M() }); pi != nil {
		return nil, "panic-in-M@" + engine.SiteNoLine(pi.Site), pi.String()
	}
	if pi := c.Call(key+"|Degrees", func() { s.deg = h.Degrees() }); pi != nil {
		return nil, "panic-in-Degrees@" + engine.SiteNoLine(pi.Site), pi.String()
	}
	s.nb = make([][]int, n)
	if pi := c.Call(key+"|Neighbours", func() {
		for v := 0; v < n; v++ {
			s.nb[v] = h.Neighbours(v)
		}
	}); pi != nil {
		return nil, "panic-in-Neighbours@" + engine.SiteNoLine(pi.Site), pi.String()
	}
	return s, "", ""
}

// graph returns the adjacency of the snapshot (i<j entries) as a reference graph.
func (s *snap) graph() *rg.G {
	g := rg.New(s.n)
	for j := 0; j < s.n; j++ {
		for i := 0; i < j; i++ {
			if s.adj[i][j] {
				g.Add(i, j)
			}
		}
	}
	return g
}

func eqInts(a, b []int) bool {
	if len(a) != len(b) {
		return false
	}
	for i := range a {
		if a[i] != b[i] {
			return false
		}
	}
	return true
}

func brief(g *rg.G) string {
	if g.N <= 12 {
		return g.String()
	}
	return fmt.Sprintf("n=%d m=%d key=%s", g.N, g.M(), g.Key())
}

// judge returns the first way in which the snapshot is not a well-formed
// simple graph, or (with a model) differs from the model.  kind == "" = fine.
func (s *snap) judge(model *rg.G) (kind, observed, expected string) {
	n := s.n
	if model != nil && n != model.N {
		return "N", fmt.Sprintf("N()=%d", n), fmt.Sprintf("%d vertices", model.N)
	}
	for v := 0; v < n; v++ {
		if s.adj[v][v] {
			return "loop", fmt.Sprintf("IsEdge(%d,%d)=true", v, v), "no loops: IsEdge(v,v)=false"
		}
	}
	for i := 0; i < n; i++ {
		for j := 0; j < i; j++ {
			if s.adj[i][j] != s.adj[j][i] {
				return "asymmetric", fmt.Sprintf("IsEdge(%d,%d)=%v but IsEdge(%d,%d)=%v", i, j, s.adj[i][j], j, i, s.adj[j][i]), "symmetric IsEdge"
			}
		}
	}
	own := s.graph()
	if model != nil && !own.Equal(model) {
		for j := 0; j < n; j++ {
			for i := 0; i < j; i++ {
				if own.Has(i, j) != model.Has(i, j) {
					return "edges", fmt.Sprintf("IsEdge(%d,%d)=%v; graph read through IsEdge: %s", i, j, own.Has(i, j), brief(own)), fmt.Sprintf("IsEdge(%d,%d)=%v; %s", i, j, model.Has(i, j), brief(model))
				}
			}
		}
	}
	if s.m != own.M() {
		return "M", fmt.Sprintf("M()=%d", s.m), fmt.Sprintf("%d (edges counted through IsEdge)", own.M())
	}
	if len(s.deg) != n {
		return "Degrees", fmt.Sprintf("len(Degrees())=%d", len(s.deg)), fmt.Sprintf("%d entries", n)
	}
	want := own.Degrees()
	for v := 0; v < n; v++ {
		if s.deg[v] != want[v] {
			return "Degrees", fmt.Sprintf("Degrees()=%v (vertex %d)", s.deg, v), fmt.Sprintf("%v (adjacency read through IsEdge)", want)
		}
	}
	for v := 0; v < n; v++ {
		w := own.Nbrs(v)
		if !eqInts(s.nb[v], w) {
			got := append([]int(nil), s.nb[v]...)
			sort.Ints(got)
			if eqInts(got, w) {
				return "Neighbours-order", fmt.Sprintf("Neighbours(%d)=%v", v, s.nb[v]), fmt.Sprintf("ascending %v", w)
			}
			return "Neighbours", fmt.Sprintf("Neighbours(%d)=%v", v, s.nb[v]), fmt.Sprintf("%v (adjacency read through IsEdge)", w)
		}
	}
	return "", "", ""
}

// isoVerdict: 1 isomorphic, 0 not isomorphic, -1 undecided (the cheap
// invariants agree and the budgeted search ran out of budget / the graph is
// too large for it).
func isoVerdict(a, b *rg.G) int {
	if a.N != b.N || a.M() != b.M() || !eqInts(a.DegreeMultiset(), b.DegreeMultiset()) {
		return 0
	}
	if a.Equal(b) {
		return 1
	}
	// sum of the squared degrees = work of the invariant (triangles) and of a refinement round
	work := 0
	for _, d := range a.Degrees() {
		work += d * d
	}
	if work > 20000000 {
		return -1
	}
	if iso.Invariant(a) != iso.Invariant(b) {
		return 0
	}
	if a.N > 48 {
		// the budgeted search of isobig.go (a found map is verified pair by pair)
		v, _ := isoBudgeted(a, b, 3000)
		return v
	}
	if iso.FindIsomorphism(a, b, nil, nil) != nil {
		return 1
	}
	return 0
}

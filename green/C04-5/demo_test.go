// Demonstration for C04/5 (candidate sets that fail the degree test are skipped before they are applied).
//
// Copy to graph/search/demo_test.go in the library and run
//
//	GOFLAGS=-mod=mod GOPROXY=off GOSUMDB=off GOTOOLCHAIN=local go test -vet=off -count=1 -timeout 300s -run 'TestDemoC04' -v ./graph/search/
//
// TestDemoC04Property checks the property itself (every save position, continuation of the original, a
// save/load/advance/save/load chain) and passes on the clean tree and with the change.
// TestDemoC04PrepruneCalls pins the OLD incidental behaviour: how many times the preprune callback is asked
// during a full enumeration.  It passes on the clean tree and fails with the change (fewer calls), although
// the graphs produced, their order and the saved records are identical.
package search_test

import (
	"bytes"
	"crypto/sha256"
	"fmt"
	"testing"

	"github.com/Tom-Johnston/mamba/graph"
	"github.com/Tom-Johnston/mamba/graph/search"
)

type cfg struct {
	n, a, m int
	pre     func(g *graph.DenseGraph) bool
	prune   func(g *graph.DenseGraph) bool
}

func never(g *graph.DenseGraph) bool     { return false }
func manyEdges(g *graph.DenseGraph) bool { return g.NumberOfEdges > 8 }
func hasDeg4(g *graph.DenseGraph) bool {
	for _, d := range g.DegreeSequence {
		if d >= 4 {
			return true
		}
	}
	return false
}

func digest(b []byte) string {
	h := sha256.Sum256(b)
	return fmt.Sprintf("%x", h[:6])
}

func key(g *graph.DenseGraph) string {
	return fmt.Sprint(g.NumberOfVertices, g.NumberOfEdges, g.DegreeSequence, g.Edges)
}

func rest(it *search.GraphIterator) []string {
	var out []string
	for it.Next() {
		out = append(out, key(it.Value()))
	}
	return out
}

func same(a, b []string) bool {
	if len(a) != len(b) {
		return false
	}
	for i := range a {
		if a[i] != b[i] {
			return false
		}
	}
	return true
}

func configs() []cfg {
	return []cfg{
		{0, 0, 1, never, never}, {1, 0, 1, never, never}, {2, 0, 1, never, never}, {3, 0, 1, never, never},
		{4, 0, 1, never, never}, {5, 0, 1, never, never}, {6, 0, 1, never, never},
		{6, 0, 2, never, never}, {6, 1, 2, never, never},
		{7, 0, 3, never, never}, {7, 1, 3, never, never}, {7, 2, 3, never, never},
		{7, 0, 1, manyEdges, never}, {7, 0, 1, never, hasDeg4}, {7, 1, 2, hasDeg4, manyEdges},
	}
}

func TestDemoC04Property(t *testing.T) {
	for ci, c := range configs() {
		ref := rest(search.WithPruning(c.n, c.a, c.m, c.pre, c.prune))
		for k := 0; k <= len(ref); k++ {
			orig := search.WithPruning(c.n, c.a, c.m, c.pre, c.prune)
			for j := 0; j < k; j++ {
				if !orig.Next() {
					t.Fatalf("config %d: original ended early", ci)
				}
			}
			var buf bytes.Buffer
			orig.Save(&buf)
			rec := append([]byte(nil), buf.Bytes()...)
			loaded := search.Load(&buf, c.pre, c.prune)
			// a chain: advance the loaded iterator by one, save again, load again
			chain := search.Load(bytes.NewReader(rec), c.pre, c.prune)
			var chainOut []string
			if chain.Next() {
				chainOut = append(chainOut, key(chain.Value()))
			}
			var buf2 bytes.Buffer
			chain.Save(&buf2)
			chain2 := search.Load(&buf2, c.pre, c.prune)
			chainOut = append(chainOut, rest(chain2)...)

			if got := rest(loaded); !same(got, ref[k:]) {
				t.Fatalf("config %d, k=%d: loaded iterator differs from the remaining sequence", ci, k)
			}
			if got := rest(orig); !same(got, ref[k:]) {
				t.Fatalf("config %d, k=%d: original disturbed by Save", ci, k)
			}
			if !same(chainOut, ref[k:]) {
				t.Fatalf("config %d, k=%d: chain differs from the remaining sequence", ci, k)
			}
			k1 := k + 1
			if k1 > len(ref) {
				k1 = len(ref)
			}
			if !same(rest(chain), ref[k1:]) {
				t.Fatalf("config %d, k=%d: iterator disturbed by the second Save", ci, k)
			}
		}
	}
}

// The number of graphs, a digest of their order, and the number of preprune calls on the clean tree.
func TestDemoC04PrepruneCalls(t *testing.T) {
	old := map[int][2]int{5: [2]int{34, 76}, 6: [2]int{156, 352}, 7: [2]int{1044, 2590}}
	for n := 5; n <= 7; n++ {
		calls := 0
		it := search.WithPruning(n, 0, 1, func(g *graph.DenseGraph) bool { calls++; return false }, never)
		seq := rest(it)
		graphs := len(seq)
		// digest of the sequence and of a record saved half way (identical on the clean tree and with the change)
		half := search.All(n, 0, 1)
		for j := 0; j < graphs/2; j++ {
			half.Next()
		}
		var rec bytes.Buffer
		half.Save(&rec)
		t.Logf("n=%d: %d graphs, preprune asked %d times, sequence digest %s, record digest %s", n, graphs, calls,
			digest([]byte(fmt.Sprint(seq))), digest(rec.Bytes()))
		if graphs != old[n][0] {
			t.Errorf("n=%d: %d graphs, want %d", n, graphs, old[n][0])
		}
		if calls != old[n][1] {
			t.Errorf("n=%d: preprune asked %d times, the clean tree asks %d times", n, calls, old[n][1])
		}
	}
}

// Package refdawg is the reference model of the DAWG properties C12-C14: a
// finite set of byte strings kept as a sorted list (rank = index), its trie,
// the size of its minimal deterministic automaton (number of distinct right
// languages, by hash-consing the trie), the pattern / anagram match predicates
// and a model of the incremental builder.  It shares no code with /repo and
// does not import it.  Everything works on BYTES, never on runes.
package refdawg

import (
	"bytes"
	"encoding/binary"
	"fmt"
	"sort"
	"strconv"
	"strings"
)

// Set is a finite set of byte strings, sorted by bytes.Compare, no duplicates.
type Set struct {
	Words [][]byte
}

// FromWords copies ws, sorts and removes duplicates.
func FromWords(ws [][]byte) *Set {
	cp := make([][]byte, len(ws))
	for i, w := range ws {
		cp[i] = append([]byte{}, w...)
	}
	sort.Slice(cp, func(i, j int) bool { return bytes.Compare(cp[i], cp[j]) < 0 })
	out := cp[:0]
	for i, w := range cp {
		if i > 0 && bytes.Equal(w, cp[i-1]) {
			continue
		}
		out = append(out, w)
	}
	return &Set{Words: out}
}

// FromStrings is FromWords for string literals.
func FromStrings(ws ...string) *Set {
	b := make([][]byte, len(ws))
	for i, w := range ws {
		b[i] = []byte(w)
	}
	return FromWords(b)
}

// Len is the number of words.
func (s *Set) Len() int { return len(s.Words) }

// Rank returns the index of w in the sorted list and whether w is a member.
func (s *Set) Rank(w []byte) (int, bool) {
	i := sort.Search(len(s.Words), func(i int) bool { return bytes.Compare(s.Words[i], w) >= 0 })
	if i < len(s.Words) && bytes.Equal(s.Words[i], w) {
		return i, true
	}
	return 0, false
}

// Has reports membership.
func (s *Set) Has(w []byte) bool { _, ok := s.Rank(w); return ok }

// Copy returns fresh copies of the words (safe to hand to code under test).
func (s *Set) Copy() [][]byte {
	cp := make([][]byte, len(s.Words))
	for i, w := range s.Words {
		cp[i] = append([]byte{}, w...)
	}
	return cp
}

// Quoted renders the word list for messages, truncated to max words.
func (s *Set) Quoted(max int) string {
	return QuoteList(s.Words, max)
}

// QuoteList renders a list of byte strings, truncated to max entries.
func QuoteList(ws [][]byte, max int) string {
	var sb strings.Builder
	sb.WriteByte('[')
	for i, w := range ws {
		if i > 0 {
			sb.WriteByte(' ')
		}
		if i >= max {
			fmt.Fprintf(&sb, "...(%d words)", len(ws))
			break
		}
		if len(w) > 40 {
			sb.WriteString(strconv.Quote(string(w[:40])))
			fmt.Fprintf(&sb, "...(len %d)", len(w))
			continue
		}
		sb.WriteString(strconv.Quote(string(w)))
	}
	sb.WriteByte(']')
	return sb.String()
}

// Hash is a fingerprint of the word list.
func (s *Set) Hash() uint64 {
	h := uint64(1469598103934665603)
	mix := func(b byte) { h ^= uint64(b); h *= 1099511628211 }
	for _, w := range s.Words {
		for _, b := range w {
			mix(b)
			mix(1)
		}
		mix(0)
		mix(0)
	}
	return h
}

// Trie is a node of the trie of a set.
type Trie struct {
	Final  bool
	Labels []byte  // ascending
	Kids   []*Trie // parallel to Labels
	Count  int     // number of words of the set that pass through / end at this node = size of its right language
	Class  int     // index of its right language among the distinct right languages (set by Minimise), -1 before
}

func (t *Trie) kid(b byte) *Trie {
	for i, l := range t.Labels {
		if l == b {
			return t.Kids[i]
		}
	}
	return nil
}

// Trie builds the trie of the set.  The empty set gives a single non-final
// node with Count 0.
func (s *Set) Trie() *Trie {
	root := &Trie{Class: -1}
	for _, w := range s.Words {
		cur := root
		cur.Count++
		for _, b := range w {
			nx := cur.kid(b)
			if nx == nil {
				nx = &Trie{Class: -1}
				// insert keeping labels ascending (words arrive sorted, so this is an append; do not rely on it)
				pos := len(cur.Labels)
				for pos > 0 && cur.Labels[pos-1] > b {
					pos--
				}
				cur.Labels = append(cur.Labels, 0)
				cur.Kids = append(cur.Kids, nil)
				copy(cur.Labels[pos+1:], cur.Labels[pos:])
				copy(cur.Kids[pos+1:], cur.Kids[pos:])
				cur.Labels[pos] = b
				cur.Kids[pos] = nx
			}
			cur = nx
			cur.Count++
		}
		cur.Final = true
	}
	return root
}

// Size is the number of trie nodes.
func (t *Trie) Size() int {
	n := 0
	stack := []*Trie{t}
	for len(stack) > 0 {
		x := stack[len(stack)-1]
		stack = stack[:len(stack)-1]
		n++
		stack = append(stack, x.Kids...)
	}
	return n
}

// MaxFanout is the largest number of children of a trie node (equal to the
// largest fan-out in the minimal automaton).
func (t *Trie) MaxFanout() int {
	m := 0
	stack := []*Trie{t}
	for len(stack) > 0 {
		x := stack[len(stack)-1]
		stack = stack[:len(stack)-1]
		if len(x.Kids) > m {
			m = len(x.Kids)
		}
		stack = append(stack, x.Kids...)
	}
	return m
}

// Minimise numbers the distinct right languages of the trie nodes (hash
// consing, children first) and returns how many there are: the number of
// states of the minimal deterministic automaton of the set in which every
// state is reachable and the dead state is omitted (for the empty set the
// single root state is counted: 1).  Iterative, so very long words are fine.
func (t *Trie) Minimise() int {
	ids := map[string]int{}
	type frame struct {
		n *Trie
		i int
	}
	stack := []frame{{t, 0}}
	var sig []byte
	for len(stack) > 0 {
		f := &stack[len(stack)-1]
		if f.i < len(f.n.Kids) {
			k := f.n.Kids[f.i]
			f.i++
			stack = append(stack, frame{k, 0})
			continue
		}
		n := f.n
		stack = stack[:len(stack)-1]
		sig = sig[:0]
		if n.Final {
			sig = append(sig, 1)
		} else {
			sig = append(sig, 0)
		}
		var tmp [4]byte
		for i, l := range n.Labels {
			binary.BigEndian.PutUint32(tmp[:], uint32(n.Kids[i].Class))
			sig = append(sig, l)
			sig = append(sig, tmp[:]...)
		}
		id, ok := ids[string(sig)]
		if !ok {
			id = len(ids)
			ids[string(sig)] = id
		}
		n.Class = id
	}
	return len(ids)
}

// MinimalStates is the node count of the minimal automaton of the set.
func (s *Set) MinimalStates() int { return s.Trie().Minimise() }

// MinimalStatesNaive counts the distinct right languages written out in full
// (every prefix of every word -> the sorted list of its continuations).  Only
// for small sets: used to validate Minimise.
func (s *Set) MinimalStatesNaive() int {
	langs := map[string]bool{}
	prefixes := map[string]bool{"": true}
	for _, w := range s.Words {
		for i := 0; i <= len(w); i++ {
			prefixes[string(w[:i])] = true
		}
	}
	for p := range prefixes {
		var conts []string
		for _, w := range s.Words {
			if bytes.HasPrefix(w, []byte(p)) {
				conts = append(conts, strconv.Quote(string(w[len(p):])))
			}
		}
		sort.Strings(conts)
		langs[strings.Join(conts, ",")] = true
	}
	return len(langs)
}

// MatchPattern: w matches pat iff the lengths are equal and every position of
// pat is either the blank byte or equal to the byte of w at that position.
func MatchPattern(w, pat []byte, blank byte) bool {
	if len(w) != len(pat) {
		return false
	}
	for i := range w {
		if pat[i] != blank && pat[i] != w[i] {
			return false
		}
	}
	return true
}

// MatchAnagram: w matches the anagram an iff the lengths are equal and every
// non-blank letter occurs in w at least as often as in an (the remaining
// letters of w are then covered by the blanks, one each).
func MatchAnagram(w, an []byte, blank byte) bool {
	if len(w) != len(an) {
		return false
	}
	var need, have [256]int
	for _, b := range an {
		if b != blank {
			need[b]++
		}
	}
	for _, b := range w {
		have[b]++
	}
	for x := 0; x < 256; x++ {
		if need[x] > have[x] {
			return false
		}
	}
	return true
}

// matchAnagramByPermutation is the definition itself: some rearrangement of
// an matches w as a pattern.  Exponential; self-check only.
func matchAnagramByPermutation(w, an []byte, blank byte) bool {
	if len(w) != len(an) {
		return false
	}
	p := append([]byte{}, an...)
	var rec func(k int) bool
	rec = func(k int) bool {
		if k == len(p) {
			return MatchPattern(w, p, blank)
		}
		for i := k; i < len(p); i++ {
			p[k], p[i] = p[i], p[k]
			if rec(k + 1) {
				p[k], p[i] = p[i], p[k]
				return true
			}
			p[k], p[i] = p[i], p[k]
		}
		return false
	}
	return rec(0)
}

// Query is one search condition.
type Query struct {
	Kind  byte // 'p' pattern, 'a' anagram
	Text  []byte
	Blank byte
}

// Match applies the query to one word.
func (q Query) Match(w []byte) bool {
	if q.Kind == 'p' {
		return MatchPattern(w, q.Text, q.Blank)
	}
	return MatchAnagram(w, q.Text, q.Blank)
}

func (q Query) String() string {
	k := "pattern"
	if q.Kind == 'a' {
		k = "anagram"
	}
	return fmt.Sprintf("%s(%q,blank=%q)", k, q.Text, string([]byte{q.Blank}))
}

// QueriesString renders a conjunction of queries.
func QueriesString(qs []Query) string {
	if len(qs) == 0 {
		return "no searcher"
	}
	p := make([]string, len(qs))
	for i, q := range qs {
		p[i] = q.String()
	}
	return strings.Join(p, " & ")
}

// Filter returns the words matched by all queries, in sorted order, with
// their ranks.  No query = every word.
func (s *Set) Filter(qs []Query) (words [][]byte, ids []int) {
	for i, w := range s.Words {
		ok := true
		for _, q := range qs {
			if !q.Match(w) {
				ok = false
				break
			}
		}
		if ok {
			words = append(words, w)
			ids = append(ids, i)
		}
	}
	return
}

// BuilderModel is the model of an incremental builder fed with Add calls:
// a word is accepted iff it is strictly greater than the last accepted word.
// It keeps its own copies of everything.
type BuilderModel struct {
	Accepted [][]byte
}

// Add returns true iff the word must be accepted.
func (m *BuilderModel) Add(w []byte) bool {
	if n := len(m.Accepted); n > 0 && bytes.Compare(m.Accepted[n-1], w) >= 0 {
		return false
	}
	m.Accepted = append(m.Accepted, append([]byte{}, w...))
	return true
}

// Last returns the last accepted word.
func (m *BuilderModel) Last() ([]byte, bool) {
	if len(m.Accepted) == 0 {
		return nil, false
	}
	return m.Accepted[len(m.Accepted)-1], true
}

// Set returns the accepted words as a Set.
func (m *BuilderModel) Set() *Set { return FromWords(m.Accepted) }

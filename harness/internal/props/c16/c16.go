// Package c16 monitors comb.CoeffUint64 / Coeff / Coeffs / Rank / Unrank
// against a math/big oracle (DESIGN.md section 4, C16): a binomial routine
// returns the exact value or panics, never a wrong value, and does not refuse
// while C(n,k)*min(k,n-k) still fits; Rank and Unrank are inverse bijections in
// colex order and agree with itertools.CombinationsColex.
package c16

import (
	"fmt"
	"math/big"
	"strconv"

	"github.com/Tom-Johnston/mamba/comb"
	"github.com/Tom-Johnston/mamba/itertools"

	"verif/internal/engine"
	"verif/internal/oracle/bigcomb"
)

func init() {
	engine.Register(&engine.Property{
		ID:    "C16",
		Level: "exploration",
		Rule: "CoeffUint64/Coeff: every (n,k) with n <= 80 (k up to n+2, both sides), every n within +-3 of the four exact thresholds per k <= 40 computed by the oracle " +
			"(largest n with C*k <= max, largest n with C <= max, max = 2^64-1 and 2^63-1) on both sides k and n-k, powers of two +-1 for k <= 3, seeded (n,k) concentrated around the thresholds; Coeffs(n) n <= 66; " +
			"Unrank: all r below a bound for k <= 6 (8), +-2 around C(l,k) boundaries on a ladder of l up to MaxInt for k >= 3, seeded 63-bit ranks, k = 1, 2 only with <= 10^7 expected loop steps; " +
			"Rank: seeded increasing sequences around the int boundary; CombinationsColex(n,k) n <= 12 (k >= 4: n <= 14 (18)) position by position; " +
			"the number of positions k and the room n-k as dimensions of that comparison: k = 33, 48, 62..68, 126..132 (thorough also 96, 97, 190..194, 254..259, 300, 513) and seeded k in 69..272, for each the whole family of the k-subsets of {0..k+1} " +
			"(k <= 68 and k = 130; thorough k <= 200; else its first 2k+40 values) through the iterator, Unrank(i,k) and Rank of the value, and the first values (the iterator has no seek; they do not depend on n) for n = k, k+1, k+3, k+64, k+65, 2k, k+129, 2k+131, 2^40; " +
			"k = 1, 2, 3 over ground sets of 13..257 elements (whole families, k = 3 beyond n = 34 the first 2500 (20000)); the oracle sequence is the textbook successor walk, every member certified by its big-integer rank; " +
			"a step that rewrites more than 64 (128) low positions must occur (counters colex:steps_rewriting_more_than_64/128_low_positions). " +
			"Process state across calls: every judged Unrank result and Coeffs table of a unit is kept (the slice itself) and read again after the next calls, at checkpoints and at the end of the unit; " +
			"the caller appends to what it was given (whether a result has spare capacity is not judged, that the append shows in no other result and in no later call is): at a checkpoint to every kept result (1, 2, len, len+3 values of a marker of its own) and a row to the outer slice of every table, " +
			"after Coeffs returned in turn nothing / every half row completed by symmetry by appending C(m,m-k), rows ascending / the same descending / a marker appended to every row and to the outer slice, the other rows read again after every row, between two Unrank calls to the result of two or three calls before; " +
			"at a checkpoint the caller then overwrites every kept result with a marker of its own (results sharing memory read each other's marker) and the calls next to the last one (rank+1, same, rank-1; same table) are repeated; " +
			"order of the calls as a dimension: windows of consecutive ranks (at 0, across C(l,k) boundaries on a ladder of l, at 63-bit ranks, at MaxInt) swept ascending, descending, each twice, zigzag, strided, outside-in, random with repeats, random walk, " +
			"with one k, two k alternating / in blocks / another k between every pair, Rank (on the returned slice, through a reused buffer), Coeff, Coeffs called in between, the caller editing a result before the next call; " +
			"complete tables of the k-subsets of {0..n-1} (n <= 9 (12)) filled ascending, descending, randomly, alternating k and n-k and verified afterwards; Coeffs(n) descending, repeated, random, with edited tables. " +
			"non-trivial = binomial with n > 32 and 2 <= min(k,n-k) <= 33 (guard + multiplicative loop decide), Unrank/Rank with k >= 2 and rank > 0; distinct = hash of the arguments",
		Assumptions: []string{
			"oracle: math/big binomials by the exact multiplicative formula, cross-checked against additive Pascal rows, math/big.Binomial and published values; colex unrank by binary search on the monotone predicate C(l,j) <= m, cross-checked against the numeric order of bit masks (harness code, shares nothing with the library)",
			"termination of Unrank is judged as bounded progress: the CPU budget of the engine (10^3 x the cost of any correct run of this workload)",
			"a slice returned by Unrank or Coeffs belongs to the caller: later calls into the package do not write to it, no two results share memory, and what the caller writes into it or appends to it does not influence other results or later results (whether a result has spare capacity beyond len is observed, not judged; that an append to one result does not write into another result is judged)",
			"CombinationsColex: only the values it delivers are judged here (the value at position i is the set of rank i, and no fewer than min(C(n,k), N) values come); what Next returns after the last subset is recorded, the iterator property judges it",
			"Unrank(r > 0, 0), negative ranks, negative or non-increasing Rank arguments, Coeff with n < 0 and Coeffs beyond n = 66 are not fixed by the documentation: observed, not judged",
		},
		Run:            run,
		MinEvaluations: map[string]int{"quick": 150000, "thorough": 5000000},
		MinNontrivial:  map[string]int{"quick": 20000, "thorough": 100000},
		RequiredObs: []string{
			"CoeffUint64:exact", "CoeffUint64:panic_allowed", "Coeff:exact", "Coeff:panic_allowed", "Coeffs:rows_checked",
			"Unrank:exact", "Rank:exact", "Rank:panic_allowed", "colex:positions_checked", "Unrank:risky_range_calls", "thresholds:groups", "Rank:boundary_cases_above_MaxInt", "Rank:long_dense_sets(40<k<=25000)", "Unrank:longloop_rank_above_2^53", "Unrank:constructed_from_combination",
			// process state across calls (state.go)
			"state:results_held_until_end_of_unit", "state:results_read_again_after_the_next_calls", "state:results_read_again_at_checkpoint",
			"state:results_overwritten_by_caller_and_compared_for_shared_memory", "state:Unrank_after_caller_overwrote_earlier_results",
			"state:Unrank(r,k)_directly_after_(r-1,k)", "state:Unrank(r,k)_directly_after_(r+1,k)", "state:Unrank(r,k)_directly_after_the_same_call",
			"state:Unrank(r,k)_after_(r-1,k)_with_other_k_in_between", "state:Unrank(r,k)_after_a_non-adjacent_rank_same_k", "state:Unrank_same_arguments_again_in_unit",
			"state:caller_edits_a_result_before_the_next_call", "state:Rank_on_the_slice_Unrank_returned", "state:Rank_through_a_reused_buffer",
			"state:order:ascending/one-k", "state:order:ascending/one-k/edited", "state:order:descending/one-k", "state:order:random-with-repeats/one-k", "state:order:zigzag/one-k",
			"state:order:ascending/two-k-alternating", "state:order:ascending/other-k-between-pairs", "state:order:seeded-walk",
			"state:order:table/ascending", "state:order:table/descending", "state:order:table/random",
			"state:tables_held_until_end_of_unit", "state:tables_read_again_after_the_next_calls", "state:order:coeffs/descending", "state:order:coeffs/random/edited",
			"state:Coeffs_after_caller_overwrote_earlier_tables", "state:units_with_ledger_verified_at_end",
			// many positions / much room in CombinationsColex vs Rank / Unrank
			"colex:steps_rewriting_more_than_64_low_positions", "colex:steps_rewriting_more_than_128_low_positions",
			"colex:positions_checked:k33..64", "colex:positions_checked:k65..128", "colex:positions_checked:k>128",
			"colex:positions_also_through_Rank_and_Unrank:k65..128", "colex:positions_also_through_Rank_and_Unrank:k>128",
			"colex:families:n-k65..128", "colex:families:n-k>128", "colex:whole_families", "colex:prefixes_of_families_too_large_to_drain",
			// the caller appends to what it was given
			"state:caller_appended_to_results_and_all_were_read_again", "state:tables_with_all_rows_completed_by_appending_and_the_other_rows_read_again",
			"state:half_rows_completed_by_appending", "state:caller_appended_a_row_to_the_outer_slice_of_a_table",
			"state:caller_appends_to_an_earlier_result_between_calls", "state:results_read_again_after_the_caller_appended_to_another",
		},
	})
}

const maxInt = int(^uint(0) >> 1)

var (
	bigMaxU = bigcomb.MaxUint64
	bigMaxI = bigcomb.MaxInt64
)

func us(v uint64) string { return strconv.FormatUint(v, 10) }
func is(v int) string    { return strconv.Itoa(v) }

type mon struct {
	c      *engine.Ctx
	ledger // results of earlier calls kept until the end of the unit (state.go)
}

// ---------------------------------------------------------------- binomials

// coeffU64 judges one call of CoeffUint64; false = violation recorded.
func (m *mon) coeffU64(n, k uint64, nt bool) bool {
	c := m.c
	args := "n=" + us(n) + ",k=" + us(k)
	var got uint64
	pi := c.Call("CoeffUint64|"+args, func() { got = comb.CoeffUint64(n, k) })
	v := bigcomb.Judge(n, k, bigMaxU)
	c.Eval(1)
	if nt && n > 32 && v.MinSide >= 2 && v.MinSide <= 33 {
		c.NT("u", n, k)
	}
	detail := map[string]interface{}{"api": "CoeffUint64", "n": n, "k": k}
	if pi != nil {
		if v.MustFit {
			c.Violation("CoeffUint64|refuses|"+args, detail, pi.String(),
				fmt.Sprintf("%v (C(n,k)*min(k,n-k) = %v*%d fits uint64, so the step-by-step product cannot overflow)", v.Exact, v.Exact, v.MinSide))
			return false
		}
		c.Obs("CoeffUint64:panic_allowed", 1)
		if v.TooLarge {
			c.Obs("CoeffUint64:panic_allowed:value_exceeds_uint64", 1)
		} else {
			c.Obs("CoeffUint64:panic_allowed:only_product_exceeds_uint64", 1)
		}
		if pi.Value != "calculation overflows uint64" {
			c.Obs("CoeffUint64:panic_with_other_value", 1)
			c.Sample("CoeffUint64 panic with undocumented value", map[string]interface{}{"n": n, "k": k, "panic": pi.String()})
		}
		return true
	}
	if v.TooLarge {
		c.Violation("CoeffUint64|wrong|"+args, detail, us(got), "panic: C(n,k) exceeds 2^64-1, no uint64 is the binomial coefficient")
		return false
	}
	if !v.Exact.IsUint64() || v.Exact.Uint64() != got {
		c.Violation("CoeffUint64|wrong|"+args, detail, us(got), v.Exact.String()+" (or a panic)")
		return false
	}
	c.Obs("CoeffUint64:exact", 1)
	if !v.MustFit {
		c.Obs("CoeffUint64:exact_beyond_guaranteed_range", 1)
	}
	return true
}

// coeffInt judges one call of Coeff.
func (m *mon) coeffInt(n, k int, nt bool) bool {
	c := m.c
	args := "n=" + is(n) + ",k=" + is(k)
	var got int
	pi := c.Call("Coeff|"+args, func() { got = comb.Coeff(n, k) })
	detail := map[string]interface{}{"api": "Coeff", "n": n, "k": k}
	if n < 0 {
		// convention of the code (panic "n must be non-negative"); not part of the statement
		if pi != nil {
			c.Obs("Coeff:negative_n_panics", 1)
		} else {
			c.Obs("Coeff:negative_n_returns(unjudged)", 1)
		}
		return true
	}
	c.Eval(1)
	if k < 0 {
		if pi != nil {
			c.Violation("Coeff|refuses|"+args, detail, pi.String(), "0 (C(n,k) = 0 for k < 0)")
			return false
		}
		if got != 0 {
			c.Violation("Coeff|wrong|"+args, detail, is(got), "0 (C(n,k) = 0 for k < 0)")
			return false
		}
		c.Obs("Coeff:exact", 1)
		c.Obs("Coeff:negative_k_zero", 1)
		return true
	}
	v := bigcomb.Judge(uint64(n), uint64(k), bigMaxI)
	if nt && n > 32 && v.MinSide >= 2 && v.MinSide <= 33 {
		c.NT("i", n, k)
	}
	if pi != nil {
		if v.MustFit {
			c.Violation("Coeff|refuses|"+args, detail, pi.String(),
				fmt.Sprintf("%v (C(n,k)*min(k,n-k) = %v*%d fits int)", v.Exact, v.Exact, v.MinSide))
			return false
		}
		c.Obs("Coeff:panic_allowed", 1)
		if v.TooLarge {
			c.Obs("Coeff:panic_allowed:value_exceeds_int", 1)
		} else {
			c.Obs("Coeff:panic_allowed:only_product_exceeds_int", 1)
		}
		return true
	}
	if v.TooLarge {
		c.Violation("Coeff|wrong|"+args, detail, is(got), "panic: C(n,k) exceeds MaxInt")
		return false
	}
	if got < 0 || !v.Exact.IsInt64() || v.Exact.Int64() != int64(got) {
		c.Violation("Coeff|wrong|"+args, detail, is(got), v.Exact.String()+" (or a panic)")
		return false
	}
	c.Obs("Coeff:exact", 1)
	if !v.MustFit {
		c.Obs("Coeff:exact_beyond_guaranteed_range", 1)
	}
	return true
}

// both judges (n,k) through both entry points (Coeff only when n fits an int).
// It returns false as soon as one of them is violated.
func (m *mon) both(n, k uint64, nt bool) bool {
	ok := m.coeffU64(n, k, nt)
	if n <= uint64(maxInt) && k <= uint64(maxInt) {
		if !m.coeffInt(int(n), int(k), nt) {
			ok = false
		}
	}
	return ok
}

// largestL returns the largest l >= k with C(l,k) <= limit (k >= 1, limit >= 1).
func largestL(k uint64, limit *big.Int) uint64 {
	lo, hi := k, uint64(1)<<63-1
	for lo < hi {
		mid := lo + (hi-lo)/2 + (hi-lo)%2
		if _, ok := bigcomb.Capped(mid, k, limit); ok {
			lo = mid
		} else {
			hi = mid - 1
		}
	}
	return lo
}

// ---------------------------------------------------------------- rank / unrank

func seqString(s []int) string {
	if len(s) <= 24 {
		return fmt.Sprint(s)
	}
	return fmt.Sprintf("%v...%v(len %d)", s[:6], s[len(s)-6:], len(s))
}

func toU(s []int) []uint64 {
	u := make([]uint64, len(s))
	for i, v := range s {
		u[i] = uint64(v)
	}
	return u
}

func eqU(got []int, want []uint64) bool {
	if len(got) != len(want) {
		return false
	}
	for i := range got {
		if got[i] < 0 || uint64(got[i]) != want[i] {
			return false
		}
	}
	return true
}

// riskyUnrank tells whether a multiply-then-divide walk towards want would
// leave the int range in an intermediate product.  It is used ONLY to order
// the calls of a unit (calls that cannot exercise the overflow first), never
// for a verdict.
func riskyUnrank(want []uint64) bool {
	for i, v := range want {
		j := uint64(i + 1)
		c, ok := bigcomb.Capped(v+1, j, bigMaxI)
		if !ok {
			return true
		}
		p := new(big.Int).Mul(c, new(big.Int).SetUint64(v+2))
		if p.Cmp(bigMaxI) > 0 {
			return true
		}
	}
	return false
}

// unrank judges Unrank(r,k) (k >= 1, or r == 0) against the oracle; if
// roundTrip it also feeds the result to Rank.
func (m *mon) unrank(r, k int, want []uint64, roundTrip bool) bool {
	c := m.c
	args := "r=" + is(r) + ",k=" + is(k)
	if want == nil {
		want = bigcomb.UnrankBig(big.NewInt(int64(r)), k)
	}
	var got []int
	m.lastHeld = nil
	pi := c.Call("Unrank|"+args, func() { got = comb.Unrank(r, k) })
	c.Eval(1)
	detail := map[string]interface{}{"api": "Unrank", "rank": r, "k": k}
	m.logCall("Unrank", args)
	m.noteOrder(r, k)
	if pi != nil {
		c.Violation("Unrank|panic|"+args+"|"+engine.SiteNoLine(pi.Site), m.withHistory(detail), pi.String(), fmt.Sprint(want))
		return false
	}
	if !eqU(got, want) {
		detail = m.withHistory(detail)
		c.Violation("Unrank|wrong|"+args, detail, seqString(got), fmt.Sprint(want))
		return false
	}
	c.Obs("Unrank:exact", 1)
	if k >= 2 && r > 0 {
		c.NT("un", r, k)
	}
	// the result stays on the ledger (the very slice, not a copy) until the end of the unit:
	// later calls must neither change it nor hand out memory it shares
	m.recheckRecent(4)
	m.holdUnrank(args, r, k, got, want)
	if roundTrip {
		return m.rank(got, false)
	}
	return true
}

// rank judges Rank(seq) for a strictly increasing sequence of naturals; if
// roundTrip and the rank was returned, Unrank must give seq back (only when
// the by-design loop length is acceptable).
func (m *mon) rank(seq []int, roundTrip bool) bool {
	return m.rankWith(seq, append([]int(nil), seq...), roundTrip)
}

// rankWith is rank with the slice that is handed to the library chosen by the
// caller (a fresh copy, a buffer reused from call to call, the very slice an
// earlier Unrank returned); in must read the same as seq.
func (m *mon) rankWith(seq, in []int, roundTrip bool) bool {
	c := m.c
	arg := seqString(seq)
	u := toU(seq)
	sum := new(big.Int)
	allMust := true
	for i, v := range u {
		jv := bigcomb.Judge(v, uint64(i+1), bigMaxI)
		if jv.TooLarge {
			allMust = false
			sum = nil
			break
		}
		if !jv.MustFit {
			allMust = false
		}
		sum.Add(sum, jv.Exact)
	}
	fits := sum != nil && sum.Cmp(bigMaxI) <= 0
	var got int
	pi := c.Call("Rank|"+arg, func() { got = comb.Rank(in) })
	c.Eval(1)
	detail := map[string]interface{}{"api": "Rank", "comb": seq}
	if m.ledgerLive() {
		m.logCall("Rank", arg)
		m.recheckRecent(4)
		if len(m.log) > 1 {
			detail["calls_in_unit_up_to_this_one"] = lazyHistory{m, len(m.log)}
		}
	}
	for i := range in {
		if in[i] != seq[i] {
			c.Violation("Rank|modifies-argument|"+arg, detail, fmt.Sprint(in), arg)
			return false
		}
	}
	if pi != nil {
		if allMust && fits {
			c.Violation("Rank|refuses|"+arg, detail, pi.String(), sum.String()+" (every term and the sum fit an int with the room the product needs)")
			return false
		}
		c.Obs("Rank:panic_allowed", 1)
		if fits {
			c.Obs("Rank:panic_allowed:rank_fits_but_a_term_is_beyond_the_guaranteed_range", 1)
		}
		return true
	}
	if !fits {
		c.Violation("Rank|wrong|"+arg, detail, is(got), "panic: the rank exceeds MaxInt")
		return false
	}
	if got < 0 || sum.Int64() != int64(got) {
		c.Violation("Rank|wrong|"+arg, detail, is(got), sum.String())
		return false
	}
	c.Obs("Rank:exact", 1)
	if len(seq) >= 2 && got > 0 {
		c.NT("rk", arg)
	}
	if roundTrip && len(seq) >= 1 {
		return m.unrank(got, len(seq), u, false)
	}
	return true
}

// The documented witness of the Unrank overflow loop.  Every unit that is
// about to enter the range of ranks where a naive product leaves the int range
// calls it first under the SAME key: on a tree with the overflow loop all those
// units then die on one stable witness instead of on a different rank each.
const probeRank, probeK = 1333313333400026, 3

func (m *mon) probe() {
	m.c.Obs("Unrank:probe_calls", 1)
	m.unrank(probeRank, probeK, nil, false)
}

type urCase struct {
	r, k int
	want []uint64
	rt   bool
}

// runUnranks executes the cases: those that cannot overflow first, then the
// probe, then the ones in the overflow-prone range.
func (m *mon) runUnranks(cases []urCase) {
	var risky []urCase
	for _, uc := range cases {
		if uc.want == nil {
			uc.want = bigcomb.UnrankBig(big.NewInt(int64(uc.r)), uc.k)
		}
		if riskyUnrank(uc.want) {
			risky = append(risky, uc)
			continue
		}
		m.c.Obs("Unrank:safe_range_calls", 1)
		m.unrank(uc.r, uc.k, uc.want, uc.rt)
	}
	if len(risky) == 0 {
		return
	}
	m.probe()
	for _, uc := range risky {
		m.c.Obs("Unrank:risky_range_calls", 1)
		m.c.ObsMax("Unrank:rank_bits", big.NewInt(int64(uc.r)).BitLen())
		m.unrank(uc.r, uc.k, uc.want, uc.rt)
		if m.c.Stopped() {
			return
		}
	}
}

const maxSteps = 10000000 // k = 1, 2 are linear / sqrt in the rank by design

func stepsOK(want []uint64, limit int64) bool {
	s := bigcomb.Steps(want)
	return s.IsInt64() && s.Int64() <= limit
}

// ---------------------------------------------------------------- workload

func run(c *engine.Ctx) {
	m := &mon{c: c}

	m.unit("selfcheck", func() {
		if err := bigcomb.SelfCheck(); err != nil {
			c.Inconclusive("oracle self-check failed: " + err.Error())
		}
		c.Obs("oracle_selfcheck_runs", 1)
	})

	// 0. regression witnesses of the defects found on the pinned tree (fixed part)
	m.unit("regression/binomials", func() {
		for _, w := range [][2]uint64{{4000000, 3}, {80, 19}, {3329022, 3}, {79, 19}} {
			m.both(w[0], w[1], true)
		}
		m.rank([]int{0, 1, 4000000}, false)
	})
	m.unit("regression/unrank-overflow-loop", func() {
		m.probe()
		c.Obs("Unrank:risky_range_calls", 1)
	})

	// 1. every (n,k), n <= 80
	for lo := 0; lo <= 80; lo += 9 {
		lo := lo
		m.unit(fmt.Sprintf("small/n=%d..%d", lo, lo+8), func() {
			for n := lo; n < lo+9 && n <= 80; n++ {
				for k := -2; k <= n+2; k++ {
					if k >= 0 {
						m.coeffU64(uint64(n), uint64(k), true)
					}
					m.coeffInt(n, k, true)
				}
			}
			m.coeffInt(-1, 0, false)
			m.coeffInt(-1, -1, false)
			m.coeffInt(-5, 3, false)
			if lo == 0 {
				c.Obs("exhaustive:CoeffUint64 and Coeff on all (n,k) with n<=80, -2<=k<=n+2", 1)
			}
		})
	}

	// 2. thresholds
	m.unit("thresholds/table", func() {
		var rows []string
		for k := uint64(1); k <= 40; k++ {
			a, aok := bigcomb.LargestN(k, true, bigMaxU)
			b, bok := bigcomb.LargestN(k, false, bigMaxU)
			d, dok := bigcomb.LargestN(k, true, bigMaxI)
			e, eok := bigcomb.LargestN(k, false, bigMaxI)
			f := func(v uint64, ok bool) string {
				if !ok {
					return "-"
				}
				return us(v)
			}
			rows = append(rows, fmt.Sprintf("k=%d: C*k<=2^64-1 up to n=%s; C<=2^64-1 up to n=%s; C*k<=2^63-1 up to n=%s; C<=2^63-1 up to n=%s", k, f(a, aok), f(b, bok), f(d, dok), f(e, eok)))
		}
		c.Sample("oracle thresholds (largest n >= 2k)", rows)
	})
	for k := uint64(1); k <= 40; k++ {
		k := k
		m.unit(fmt.Sprintf("thresholds/k=%d", k), func() {
			c.Obs("thresholds:groups", 1)
			type th struct {
				n    uint64
				name string
			}
			var ths []th
			add := func(mult bool, lim *big.Int, name string) {
				if n, ok := bigcomb.LargestN(k, mult, lim); ok {
					ths = append(ths, th{n, name})
				} else {
					ths = append(ths, th{2 * k, name + "(none: n=2k)"})
				}
			}
			add(true, bigMaxU, "C*k<=2^64-1")
			add(false, bigMaxU, "C<=2^64-1")
			add(true, bigMaxI, "C*k<=2^63-1")
			add(false, bigMaxI, "C<=2^63-1")
			seen := map[uint64]bool{}
			okU, okI := true, true
			for _, t := range ths {
				for d := -3; d <= 3; d++ {
					n := t.n + uint64(d)
					if (d < 0 && n > t.n) || (d > 0 && n < t.n) || n < k || seen[n] {
						continue
					}
					seen[n] = true
					c.Obs("thresholds:n_values", 1)
					// one witness per k and entry point: once the guard of this
					// k is known to be wrong, the neighbours add nothing
					for _, kk := range []uint64{k, n - k} {
						if okU {
							okU = m.coeffU64(n, kk, true)
						} else {
							c.Obs("thresholds:skipped_after_violation", 1)
						}
						if okI && n <= uint64(maxInt) {
							okI = m.coeffInt(int(n), int(kk), true)
						}
					}
				}
			}
		})
	}
	// beyond the table (k' > 40): everything with n >= 2k' exceeds 2^64-1
	m.unit("thresholds/k>40", func() {
		for k := uint64(41); k <= 72; k++ {
			for _, n := range []uint64{2*k - 1, 2 * k, 2*k + 1, 3 * k, 1 << 20, 1<<63 - 1, 1 << 63, ^uint64(0)} {
				m.both(n, k, false)
				m.both(n, n-k, false)
			}
		}
	})

	// 3. powers of two +- 1, k <= 3, both sides
	m.unit("pow2", func() {
		ok := true
		for e := uint(1); e <= 64 && ok; e++ {
			var base uint64
			if e < 64 {
				base = 1 << e
			}
			for _, n := range []uint64{base - 1, base, base + 1} {
				if e == 64 && n != ^uint64(0) {
					continue
				}
				for k := uint64(0); k <= 3 && k <= n && ok; k++ {
					ok = m.both(n, k, true) && m.both(n, n-k, true)
				}
				m.both(n, n+1, false) // k > n (wraps to 0 for n = 2^64-1: C(n,0) = 1)
			}
		}
	})

	// 4. Coeffs(n) is Pascal's triangle (rows m = 0..n, entries k <= m/2)
	m.unit("coeffs", func() {
		for n := 0; n <= 70; n++ {
			m.coeffs(n)
		}
		c.Obs("exhaustive:Coeffs(n) for n<=66 (every row, every entry)", 1)
	})

	// 5. seeded (n,k) concentrated around the thresholds
	seededCoeff(c, m)

	// 6. CombinationsColex position by position, n <= 12
	for n := 0; n <= 12; n++ {
		n := n
		m.unit(fmt.Sprintf("colex/n=%d", n), func() {
			for k := 0; k <= n; k++ {
				m.colex(n, k)
			}
			if n == 12 {
				c.Obs("exhaustive:CombinationsColex(n,k) vs Rank/Unrank for all k<=n<=12", 1)
			}
		})
	}

	// 6a. CombinationsColex with MANY positions (k and n-k at and beyond 64 / 65 / 66 / 128 / 129 / 130) and with few
	// positions over a wide ground set: the families cannot be drained there, their first values can
	colexLargeUnits(c, m)

	// 7. Unrank: all small ranks
	maxR, maxK := 5000, 6
	if c.Thorough() {
		maxR, maxK = 20000, 8
	}
	m.unit("unrank/k=0", func() {
		m.unrank(0, 0, nil, true)
		var got []int
		if pi := c.Call("Unrank|r=5,k=0", func() { got = comb.Unrank(5, 0) }); pi == nil && len(got) == 0 {
			c.Obs("Unrank:positive_rank_k=0_returns_empty(unjudged)", 1)
		} else {
			c.Obs("Unrank:positive_rank_k=0_other(unjudged)", 1)
		}
	})
	for k := 1; k <= maxK; k++ {
		for lo := 0; lo < maxR; lo += 1000 {
			k, lo := k, lo
			m.unit(fmt.Sprintf("unrank/exhaustive/k=%d/r=%d..", k, lo), func() {
				for r := lo; r < lo+1000 && r < maxR; r++ {
					if !m.unrank(r, k, nil, true) && c.Stopped() {
						return
					}
				}
				if lo == 0 {
					c.Obs(fmt.Sprintf("exhaustive:Unrank(r,%d) and Rank back for all r<%d", k, maxR), 1)
				}
			})
		}
	}

	// 8. Unrank around the C(l,k) boundaries on a ladder of l up to MaxInt
	boundaryUnits(c, m)

	// 8a. long walks and the regimes where a floating-point closed form would go wrong
	longLoopUnits(c, m)
	denseBoundaryUnits(c, m)

	// 8b. Rank around the int boundary: the combinations whose rank is MaxInt-3 .. MaxInt+3 and the
	// last ones with the same largest element (every term may fit while the sum does not)
	m.unit("rank/boundary", func() {
		for k := 1; k <= 40; k++ {
			L := largestL(uint64(k), bigMaxI)
			top := new(big.Int).Sub(bigcomb.Binomial(L+1, uint64(k)), big.NewInt(1)) // last rank with largest element L
			var rs []*big.Int
			for d := int64(-3); d <= 3; d++ {
				rs = append(rs, new(big.Int).Add(bigMaxI, big.NewInt(d)))
			}
			rs = append(rs, top, new(big.Int).Sub(top, big.NewInt(1)), new(big.Int).Rsh(new(big.Int).Add(top, bigMaxI), 1))
			for _, r := range rs {
				if !r.IsUint64() {
					continue
				}
				w := bigcomb.UnrankBig(r, k)
				seq := make([]int, len(w))
				ok := true
				for i, v := range w {
					if v > uint64(maxInt) {
						ok = false
					}
					seq[i] = int(v)
				}
				if ok {
					c.Obs("Rank:boundary_cases", 1)
					if r.Cmp(bigMaxI) > 0 {
						c.Obs("Rank:boundary_cases_above_MaxInt", 1)
					}
					m.rank(seq, false)
				}
			}
		}
	})

	// 8c. Rank of LONG, dense sets (hundreds to thousands of elements): the run {a, a+1, ..., b} has rank C(b+1,a)-1,
	// a sum of b-a+1 terms each of which is small; b around the points where the sum passes MaxInt, 2^64 (where an
	// unsigned accumulator wraps) and 2^65, also with a few elements knocked out of the run
	for a := 5; a <= 40; a++ {
		a := a
		m.unit(fmt.Sprintf("rank/long-runs/a=%d", a), func() {
			rg := engine.NewRng(uint64(31000 + a))
			two64 := new(big.Int).Lsh(big.NewInt(1), 64)
			limits := []*big.Int{bigMaxI, two64, new(big.Int).Lsh(big.NewInt(1), 65), new(big.Int).Mul(two64, big.NewInt(5))}
			seen := map[int]bool{}
			for _, lim := range limits {
				// smallest b with C(b+1,a) > lim
				b := a
				for bigcomb.Binomial(uint64(b+1), uint64(a)).Cmp(lim) <= 0 {
					b += 1 + b/64
				}
				for bigcomb.Binomial(uint64(b), uint64(a)).Cmp(lim) > 0 {
					b--
				}
				for d := -2; d <= 2; d++ {
					bb := b + d
					if bb < a || bb-a+1 > 25000 || seen[bb] {
						continue
					}
					seen[bb] = true
					for gaps := 0; gaps < 3; gaps++ {
						drop := map[int]bool{}
						for len(drop) < gaps {
							drop[a+rg.Intn(bb-a+1)] = true
						}
						var seq []int
						for v := a; v <= bb; v++ {
							if !drop[v] {
								seq = append(seq, v)
							}
						}
						c.Obs("Rank:long_dense_sets(40<k<=25000)", 1)
						c.ObsMax("Rank:longest_set", len(seq))
						if !m.rank(seq, false) {
							return
						}
					}
				}
			}
		})
	}

	// 9. seeded ranks / sequences
	seededUnrank(c, m)
	seededRank(c, m)

	// 10. process-level state across calls: the order of the calls as a dimension, results kept and read again (state.go)
	stateUnits(c, m)
}

func (m *mon) colex(n, k int) {
	c := m.c
	subs := bigcomb.ColexSubsets(n, k)
	args := "n=" + is(n) + ",k=" + is(k)
	detail := map[string]interface{}{"api": "CombinationsColex", "n": n, "k": k}
	var it *itertools.CombinationColexIterator
	if pi := c.Call("CombinationsColex|"+args, func() { it = itertools.CombinationsColex(n, k) }); pi != nil {
		c.Violation("CombinationsColex|panic|"+args, detail, pi.String(), "an iterator")
		return
	}
	for idx, want := range subs {
		var ok bool
		var val []int
		pi := c.Call("CombinationsColex.Next|"+args+",i="+is(idx), func() {
			ok = it.Next()
			if ok {
				val = append([]int(nil), it.Value()...)
				// the caller extends the subset it was shown by one element (append never writes into the k elements
				// the documentation tells it to leave alone): smaller and larger than everything in turn
				ext := append(it.Value(), []int{0, n + 3, n, -1}[idx%4])
				_ = ext
			}
		})
		c.Eval(1)
		c.Obs("colex:values_extended_by_the_caller_with_append", 1)
		detail := map[string]interface{}{"api": "CombinationsColex", "n": n, "k": k, "position": idx, "history": "after every Next the caller did append(it.Value(), x) with x = 0, n+3, n, -1 in turn"}
		if pi != nil {
			c.Violation("CombinationsColex|panic|"+args, detail, pi.String(), fmt.Sprint(want))
			return
		}
		if !ok {
			c.Violation("colex-order|short|"+args, detail, fmt.Sprintf("Next() = false at position %d", idx), fmt.Sprintf("%d subsets", len(subs)))
			return
		}
		if fmt.Sprint(val) != fmt.Sprint(want) {
			c.Violation("colex-order|differs|"+args, detail, fmt.Sprintf("position %d: %v", idx, val), fmt.Sprint(want))
			return
		}
		c.Obs("colex:positions_checked", 1)
		// the iterator's i-th value, Unrank(i,k) and Rank must agree
		if !m.unrank(idx, k, toU(want), false) {
			return
		}
		if !m.rank(val, false) {
			return
		}
	}
	// ... and the walk ends where it should
	var more bool
	var extra []int
	if pi := c.Call("CombinationsColex.Next|"+args+",after-the-last", func() {
		more = it.Next()
		if more {
			extra = append([]int(nil), it.Value()...)
		}
	}); pi == nil && more && len(subs) > 0 {
		c.Violation("colex-order|value-after-the-last|"+args, detail, fmt.Sprintf("Next() = true with %v after all %d subsets", extra, len(subs)), "false")
		return
	}
	c.NTDistinct(1)
}

// colexPrefix judges the first N values of CombinationsColex(n,k), k <= n (all of
// them when the family has no more than N members): the value at position i
// must be the k-set of colex rank i.  The oracle walks the textbook successor
// and certifies every member by its big-integer rank (a strictly increasing
// sequence of rank i is the i-th set); viaLib also asks the library's Unrank
// for rank i and its Rank for the value.  The iterator has no seek, so the
// first values are all that can be reached in a large family; they do not
// depend on n.
func (m *mon) colexPrefix(n, k, N int, viaLib bool) {
	c := m.c
	args := "n=" + is(n) + ",k=" + is(k)
	whole := false
	if f, ok := bigcomb.Capped(uint64(n), uint64(k), big.NewInt(int64(N))); ok {
		N, whole = int(f.Int64()), true
	}
	var it *itertools.CombinationColexIterator
	if pi := c.Call("CombinationsColex|"+args, func() { it = itertools.CombinationsColex(n, k) }); pi != nil {
		c.Violation("CombinationsColex|panic|"+args, map[string]interface{}{"api": "CombinationsColex", "n": n, "k": k}, pi.String(), "an iterator")
		return
	}
	cur := make([]uint64, k)
	for i := range cur {
		cur[i] = uint64(i)
	}
	bucket := func(v int) string {
		switch {
		case v > 128:
			return ">128"
		case v > 64:
			return "65..128"
		case v > 32:
			return "33..64"
		}
		return "<=32"
	}
	for idx := 0; idx < N; idx++ {
		if idx > 0 {
			j, rew := bigcomb.ColexNext(cur)
			// what the step of the order does here (read off the oracle's sequence, not off the library)
			c.ObsMax("colex:highest_position_moved_by_a_step", j)
			c.ObsMax("colex:most_low_positions_rewritten_by_one_step", rew)
			if rew > 64 {
				c.Obs("colex:steps_rewriting_more_than_64_low_positions", 1)
			}
			if rew > 128 {
				c.Obs("colex:steps_rewriting_more_than_128_low_positions", 1)
			}
		}
		if r := bigcomb.RankBig(cur); !r.IsInt64() || r.Int64() != int64(idx) {
			c.Inconclusive(fmt.Sprintf("oracle: successor walk for k=%d is at %v at position %d, which has rank %v", k, cur, idx, r))
			return
		}
		var ok bool
		var val []int
		pi := c.Call("CombinationsColex.Next|"+args+",i="+is(idx), func() {
			ok = it.Next()
			if ok {
				val = append([]int(nil), it.Value()...)
			}
		})
		c.Eval(1)
		detail := map[string]interface{}{"api": "CombinationsColex", "n": n, "k": k, "position": idx}
		if pi != nil {
			c.Violation("CombinationsColex|panic|"+args, detail, pi.String(), fmt.Sprint(cur))
			return
		}
		if !ok {
			c.Violation("colex-order|short|"+args, detail, fmt.Sprintf("Next() = false at position %d", idx), fmt.Sprintf("at least %d subsets, the one at this position being %v", N, cur))
			return
		}
		if !eqU(val, cur) {
			c.Violation("colex-order|differs|"+args, detail, fmt.Sprintf("position %d: %v", idx, val), fmt.Sprintf("%v (the %d-set of colex rank %d)", cur, k, idx))
			return
		}
		c.Obs("colex:positions_checked", 1)
		c.Obs("colex:positions_checked:k"+bucket(k), 1)
		if viaLib {
			if !m.unrank(idx, k, append([]uint64(nil), cur...), false) {
				return
			}
			if !m.rank(val, false) {
				return
			}
			c.Obs("colex:positions_also_through_Rank_and_Unrank:k"+bucket(k), 1)
		}
	}
	c.NTDistinct(1)
	c.Obs("colex:families:n-k"+bucket(n-k), 1)
	if !whole {
		c.Obs("colex:prefixes_of_families_too_large_to_drain", 1)
		return
	}
	c.Obs("colex:whole_families", 1)
	// termination of the iteration is the iterator property's business: recorded, not judged
	var more bool
	if pi := c.Call("CombinationsColex.Next|"+args+",i="+is(N), func() { more = it.Next() }); pi != nil || more {
		c.Obs("colex:Next_after_the_last_subset_not_false(unjudged)", 1)
	} else {
		c.Obs("colex:Next_after_the_last_subset_false", 1)
	}
}

// colexLargeUnits: the number of positions k and the room n-k as dimensions of
// the comparison of CombinationsColex with Rank / Unrank.  A step of the order
// that moves position j rewrites the j positions below it; in the family of the
// k-subsets of {0..k+1} (C(k+2,2) members) every j < k occurs with all of them
// changing, and the first 2k+2 values of any family contain the steps for
// j = k-1 and k-2.
func colexLargeUnits(c *engine.Ctx, m *mon) {
	type job struct {
		n, k, N int
		viaLib  bool
	}
	ks := []int{33, 48, 62, 63, 64, 65, 66, 67, 68, 126, 127, 128, 129, 130, 131, 132}
	wholeUpTo, deepAt := 68, 130
	if c.Thorough() {
		ks = append(ks, 96, 97, 190, 191, 192, 193, 194, 254, 255, 256, 257, 258, 259, 300, 513)
		wholeUpTo = 200
	}
	for i := 0; i < c.Pick(3, 12); i++ {
		rg := c.Rand("colex-large-k", i)
		k := 69 + rg.Intn(57)
		if i%3 == 2 {
			k = 133 + rg.Intn(140)
		}
		dup := false
		for _, x := range ks {
			dup = dup || x == k
		}
		if !dup {
			ks = append(ks, k)
		}
	}
	for _, k := range ks {
		k := k
		m.unit(fmt.Sprintf("colex/many-positions/k=%d", k), func() {
			N := 2*k + 40
			if k <= wholeUpTo || k == deepAt {
				N = (k+2)*(k+1)/2 + 1 // the whole family of n = k+2
			}
			jobs := []job{{k + 2, k, N, true}, {k, k, 3, false}, {k + 1, k, k + 5, false},
				// room above: the same first values whatever n is
				{k + 3, k, c.Pick(k+5, 6*k), false}, {k + 64, k, k + 5, false}, {k + 65, k, k + 5, false}, {2 * k, k, c.Pick(k+5, 3*k), false},
				{k + 129, k, k + 5, false}, {2*k + 131, k, k + 5, false}, {1 << 40, k, 2*k + 40, false}}
			for _, j := range jobs {
				m.colexPrefix(j.n, j.k, j.N, j.viaLib)
				if c.Stopped() {
					return
				}
			}
		})
	}
	// few positions, wide ground set
	for _, n := range []int{13, 14, 15, 16, 17, 31, 32, 33, 34, 63, 64, 65, 66, 67, 127, 128, 129, 130, 131, 257} {
		n := n
		m.unit(fmt.Sprintf("colex/wide/n=%d", n), func() {
			m.colexPrefix(n, 1, 1<<30, true)
			m.colexPrefix(n, 2, 1<<30, true)
			if n <= 34 || c.Thorough() && n <= 67 {
				m.colexPrefix(n, 3, 1<<30, true)
			} else {
				m.colexPrefix(n, 3, c.Pick(2500, 20000), true) // the first values only
			}
		})
	}
	// every k for some n beyond the exhaustive n <= 12
	ns := []int{13, 14}
	if c.Thorough() {
		ns = []int{13, 14, 15, 16, 17, 18}
	}
	for _, n := range ns {
		for k := 4; k <= n; k++ {
			n, k := n, k
			m.unit(fmt.Sprintf("colex/n=%d,k=%d", n, k), func() {
				m.colexPrefix(n, k, 1<<30, true)
			})
		}
	}
}

func seededCoeff(c *engine.Ctx, m *mon) {
	total := c.Pick(100000, 10000000)
	per := c.Pick(2500, 50000)
	// thresholds per small side, computed once per child (cheap)
	var tU, tI [41]uint64
	ready := false
	prep := func() {
		if ready {
			return
		}
		ready = true
		for k := uint64(1); k <= 40; k++ {
			if n, ok := bigcomb.LargestN(k, true, bigMaxU); ok {
				tU[k] = n
			} else {
				tU[k] = 2 * k
			}
			if n, ok := bigcomb.LargestN(k, true, bigMaxI); ok {
				tI[k] = n
			} else {
				tI[k] = 2 * k
			}
		}
	}
	for u := 0; u*per < total; u++ {
		u := u
		m.unit(fmt.Sprintf("seeded/coeff/%d", u), func() {
			prep()
			rg := c.Rand("coeff", u)
			for i := u * per; i < (u+1)*per && i < total; i++ {
				var n, k uint64
				// small side
				switch x := rg.Intn(100); {
				case x < 70:
					k = uint64(1 + rg.Intn(12))
				case x < 92:
					k = uint64(rg.Intn(41))
				case x < 97:
					k = uint64(rg.Intn(200))
				default:
					k = rg.U64() >> uint(rg.Intn(64))
				}
				switch x := rg.Intn(100); {
				case x < 55 && k >= 1 && k <= 40:
					// within a factor of 2 (k >= 3: 16) of a threshold
					t := tU[k]
					if rg.Bool(0.4) {
						t = tI[k]
					}
					f := 0.4 + rg.Float()*0.8 // a panic costs a stack trace: two thirds stay below the threshold
					if k <= 3 && rg.Bool(0.3) {
						f = 0.9 + rg.Float()*15
					}
					ff := float64(t) * f
					if ff >= 18446744073709551615.0 {
						n = ^uint64(0) - uint64(rg.Intn(1000))
					} else {
						n = uint64(ff)
					}
					if rg.Bool(0.3) {
						n = t - 50 + uint64(rg.Intn(100))
						if t > ^uint64(0)-100 {
							n = t - uint64(rg.Intn(100))
						}
					}
				case x < 65:
					n = rg.U64() >> uint(rg.Intn(64))
				default:
					n = uint64(rg.Intn(260))
				}
				if n < k && rg.Bool(0.9) {
					n, k = k, n
				}
				if k <= n && rg.Bool(0.4) {
					k = n - k
				}
				nt := i < 200000
				m.coeffU64(n, k, nt)
				if n <= uint64(maxInt) && k <= uint64(maxInt) {
					m.coeffInt(int(n), int(k), nt)
				}
				if c.Stopped() {
					return
				}
			}
		})
	}
}

func boundaryUnits(c *engine.Ctx, m *mon) {
	groups := [][2]int{{3, 3}, {4, 4}, {5, 6}, {7, 12}, {13, 40}, {41, 90}}
	for _, g := range groups {
		g := g
		m.unit(fmt.Sprintf("unrank/boundary/k=%d..%d", g[0], g[1]), func() {
			var cases []urCase
			seen := map[string]bool{}
			addR := func(r *big.Int, k int) {
				if r.Sign() < 0 || r.Cmp(bigMaxI) > 0 {
					return
				}
				key := r.String() + "/" + is(k)
				if seen[key] {
					return
				}
				seen[key] = true
				cases = append(cases, urCase{r: int(r.Int64()), k: k, rt: true})
			}
			for k := g[0]; k <= g[1]; k++ {
				L := largestL(uint64(k), bigMaxI)
				// onset: smallest l with C(l,k)*(l+1) > MaxInt (where a naive product first leaves the int range)
				on := uint64(k)
				{
					lo, hi := uint64(k), L+1
					for lo < hi {
						mid := lo + (hi-lo)/2
						cv, ok := bigcomb.Capped(mid, uint64(k), bigMaxI)
						over := !ok
						if ok {
							over = new(big.Int).Mul(cv, new(big.Int).SetUint64(mid+1)).Cmp(bigMaxI) > 0
						}
						if over {
							hi = mid
						} else {
							lo = mid + 1
						}
					}
					on = lo
				}
				ls := []uint64{L, L - 1, L - 2, L + 1, on - 1, on, on + 1}
				for j := uint64(1); j <= 12; j++ {
					ls = append(ls, uint64(k)+(L-uint64(k))/13*j+j)
				}
				for _, l := range ls {
					if l < uint64(k) || l > L+1 {
						continue
					}
					b := bigcomb.Binomial(l, uint64(k))
					for d := int64(-2); d <= 2; d++ {
						addR(new(big.Int).Add(b, big.NewInt(d)), k)
					}
				}
				for d := int64(0); d <= 2; d++ {
					addR(new(big.Int).Sub(bigMaxI, big.NewInt(d)), k)
				}
				c.Obs("Unrank:boundary_k_values", 1)
			}
			if g[0] == 3 {
				// k = 1, 2: linear / sqrt loop by design, keep the step count <= 10^7
				for _, r := range []int{maxSteps - 2, maxSteps - 1, 1 << 20, 999983} {
					cases = append(cases, urCase{r: r, k: 1, rt: true})
				}
				for _, l := range []uint64{4999999, 3000000, 1 << 20, 65536, 65535} {
					b := bigcomb.Binomial(l, 2)
					for d := int64(-1); d <= 1; d++ {
						r := new(big.Int).Add(b, big.NewInt(d))
						w := bigcomb.UnrankBig(r, 2)
						if stepsOK(w, maxSteps) {
							cases = append(cases, urCase{r: int(r.Int64()), k: 2, want: w, rt: true})
						}
					}
				}
			}
			m.runUnranks(cases)
			c.Sample("unrank boundary ranks", map[string]interface{}{"k_from": g[0], "k_to": g[1], "cases": len(cases)})
		})
	}
}

func randRank(rg *engine.Rng, maxBits int) uint64 {
	b := 1 + rg.Intn(maxBits)
	if b == 64 {
		return rg.U64() | 1<<63
	}
	return (rg.U64() & (1<<uint(b) - 1)) | 1<<uint(b-1)
}

func pickK(rg *engine.Rng) int {
	switch x := rg.Intn(100); {
	case x < 4:
		return 1
	case x < 10:
		return 2
	case x < 18:
		return 3
	case x < 60:
		return 4 + rg.Intn(9)
	case x < 90:
		return 13 + rg.Intn(28)
	default:
		return 41 + rg.Intn(60)
	}
}

func seededUnrank(c *engine.Ctx, m *mon) {
	total := c.Pick(4000, 60000)
	per := c.Pick(500, 1000)
	for u := 0; u*per < total; u++ {
		u := u
		m.unit(fmt.Sprintf("seeded/unrank/%d", u), func() {
			rg := c.Rand("unrank", u)
			var cases []urCase
			for i := u * per; i < (u+1)*per && i < total; i++ {
				k := pickK(rg)
				var r uint64
				switch k {
				case 1:
					r = randRank(rg, 23) // < 2^23 < 10^7 steps
				case 2:
					r = randRank(rg, 45)
				default:
					r = randRank(rg, 63)
					if rg.Bool(0.1) {
						r = uint64(maxInt) - uint64(rg.Intn(1000))
					}
				}
				w := bigcomb.UnrankBig(new(big.Int).SetUint64(r), k)
				if k <= 2 && !stepsOK(w, maxSteps) {
					c.Obs("Unrank:skipped_by_design_slow(k<=2)", 1)
					continue
				}
				cases = append(cases, urCase{r: int(r), k: k, want: w, rt: true})
				if i < 2 {
					c.Sample("seeded unrank", map[string]interface{}{"rank": r, "k": k, "expected": w})
				}
			}
			m.runUnranks(cases)
		})
	}
}

func seededRank(c *engine.Ctx, m *mon) {
	total := c.Pick(20000, 400000)
	per := c.Pick(2500, 10000)
	for u := 0; u*per < total; u++ {
		u := u
		m.unit(fmt.Sprintf("seeded/rank/%d", u), func() {
			rg := c.Rand("rank", u)
			type rc struct {
				seq []int
				rt  bool
			}
			var later []rc
			for i := u * per; i < (u+1)*per && i < total; i++ {
				k := pickK(rg)
				if k > 40 {
					k = 1 + rg.Intn(40)
				}
				var seq []int
				switch x := rg.Intn(10); {
				case x < 6:
					// the combination of a random rank around the int boundary (up to 66 bits)
					bitsMax := 66
					if k == 1 {
						bitsMax = 63
					}
					nb := 1 + rg.Intn(bitsMax)
					r := new(big.Int).SetUint64(rg.U64())
					if nb > 64 {
						r.Lsh(r, uint(nb-64))
					} else {
						r.Rsh(r, uint(64-nb))
					}
					if r.IsUint64() {
						w := bigcomb.UnrankBig(r, k)
						for _, v := range w {
							seq = append(seq, int(v))
						}
						if x < 2 && len(seq) > 0 {
							// perturb the largest element
							seq[len(seq)-1] += rg.Intn(3)
						}
					}
				default:
					v := 0
					for j := 0; j < k; j++ {
						v += int(rg.U64()>>uint(16+rg.Intn(48))) % (1 << 40)
						seq = append(seq, v)
						v++
					}
				}
				if seq == nil {
					seq = []int{}
				}
				ok := true
				for j := range seq {
					if seq[j] < 0 || (j > 0 && seq[j] <= seq[j-1]) {
						ok = false
					}
				}
				if !ok {
					continue
				}
				// round trip only when the by-design loop is short
				rt := stepsOK(toU(seq), 300000)
				if rt && riskyUnrank(toU(seq)) {
					later = append(later, rc{seq, true})
					continue
				}
				m.rank(seq, rt)
				if i < 2 {
					c.Sample("seeded rank", map[string]interface{}{"comb": seq})
				}
				if c.Stopped() {
					return
				}
			}
			if len(later) > 0 {
				m.probe()
				for _, x := range later {
					c.Obs("Unrank:risky_range_calls", 1)
					m.rank(x.seq, true)
					if c.Stopped() {
						return
					}
				}
			}
		})
	}
}

// longLoopUnits: k = 1, 2 with ranks far beyond the 10^7-step bound of the
// other workloads.  The loop of Unrank is linear (k = 1) / sqrt (k = 2) in the
// rank by design, about 5 ns per step: a rank just below C(l,2) costs 2l steps.
// These are the ranks where a closed form through float64 (l = (1+sqrt(8m+1))/2
// without an integer correction) is off by one: 8m+1 needs more than 53 bits
// from l = 2^27+1 = sqrt(2^53)*sqrt(2) on, and 94906267 = ceil(sqrt(2^53)).
// Every call is a unit of its own: a budget kill loses nothing else and the
// calls spread over the shards.
func longLoopUnits(c *engine.Ctx, m *mon) {
	type lc struct {
		l  uint64
		ds []int64
	}
	all := []int64{-2, -1, 0, 1}
	ls := []lc{{1<<20 + 1, all}, {1<<24 + 1, all}, {1<<26 + 1, all}, {1<<26 + 3, all}, {94906266, all}, {94906267, all}, {1<<27 - 1, all}, {1<<27 + 1, all}, {1<<27 + 12345, []int64{-1}}}
	stepLimit := int64(300000000)
	if c.Thorough() {
		stepLimit = 2300000000 // ~15 CPU-s, half the budget of a call
		ls = append(ls, lc{1<<28 - 1, all}, lc{1<<28 + 1, all}, lc{1<<29 + 1, all}, lc{379625062, all}, lc{1<<30 + 1, all},
			// beyond: C(l,2)-1 would need 2l > 4*10^9 steps; Unrank(MaxInt, 2) = [2^31-1, 2^32] needs 6.4*10^9 steps (> 30 CPU-s): not run
			lc{1<<31 + 1, []int64{0, 1}})
	}
	type one struct {
		r      *big.Int
		k      int
		seeded int // index of a seeded case, -1 for the fixed part
	}
	var cases []one
	for _, x := range ls {
		b := bigcomb.Binomial(x.l, 2)
		for _, d := range x.ds {
			cases = append(cases, one{new(big.Int).Add(b, big.NewInt(d)), 2, -1})
		}
	}
	// seeded: just below a triangular number, l between 2^26.5 and 2^27.5 (thorough: up to 2^29)
	ns := c.Pick(2, 8)
	for i := 0; i < ns; i++ {
		rg := c.Rand("longloop", i)
		lo, hi := 94906267, 189812531
		if c.Thorough() && i >= 2 {
			hi = 1 << 29
		}
		l := uint64(rg.Range(lo, hi))
		cases = append(cases, one{new(big.Int).Sub(bigcomb.Binomial(l, 2), big.NewInt(int64(1+rg.Intn(3)))), 2, i})
	}
	// k = 1: linear loop
	cases = append(cases, one{big.NewInt(1<<27 + 1), 1, -1})
	if c.Thorough() {
		cases = append(cases, one{big.NewInt(1<<28 + 3), 1, -1})
	}
	for _, x := range cases {
		x := x
		name := fmt.Sprintf("unrank/longloop/k=%d/r=%v", x.k, x.r)
		if x.seeded >= 0 {
			name = fmt.Sprintf("unrank/longloop/k=%d/seeded-%d", x.k, x.seeded)
		}
		m.unit(name, func() {
			w := bigcomb.UnrankBig(x.r, x.k)
			if !stepsOK(w, stepLimit) {
				c.Obs("Unrank:longloop_skipped_too_slow", 1)
				return
			}
			c.Obs("Unrank:longloop_calls", 1)
			c.ObsMax("Unrank:longloop_steps", int(bigcomb.Steps(w).Int64()))
			if x.r.BitLen() > 53 {
				c.Obs("Unrank:longloop_rank_above_2^53", 1)
			}
			m.runUnranks([]urCase{{r: int(x.r.Int64()), k: x.k, want: w, rt: true}})
		})
	}
}

// denseBoundaryUnits: for k = 3..6 the ranks C(l,k)-2 .. C(l,k)+1 for many l
// between the point where k!*m leaves the 53 bits of a float64 (where a k-th
// root estimate of l stops being exact: l ~ 208064 for k = 3) and the largest
// l with C(l,k) <= MaxInt (3810778 for k = 3), for powers of two +- 1 and for
// seeded l; and, constructed from the combination side, the combinations with
// the largest possible remaining rank below the top element ([.., b-1, b, top]).
// All of them are cheap: the loop is about l steps.
func denseBoundaryUnits(c *engine.Ctx, m *mon) {
	for k := 3; k <= 6; k++ {
		for part := 0; part < 2; part++ {
			k, part := k, part
			m.unit(fmt.Sprintf("unrank/dense-boundary/k=%d/%d", k, part), func() {
				L := largestL(uint64(k), bigMaxI)
				// smallest l with k! * C(l,k) > 2^53
				fact := big.NewInt(1)
				for i := 2; i <= k; i++ {
					fact.Mul(fact, big.NewInt(int64(i)))
				}
				lim := new(big.Int).Quo(new(big.Int).Lsh(big.NewInt(1), 53), fact)
				f := largestL(uint64(k), lim) + 1
				var ls []uint64
				if part == 0 {
					for d := uint64(0); d < 6; d++ {
						ls = append(ls, f-3+d, L-d)
					}
					for p := uint64(8); p < L; p *= 2 {
						if p > uint64(k)+2 {
							ls = append(ls, p-1, p, p+1)
						}
					}
				} else {
					rg := c.Rand("dense-boundary", k)
					n := c.Pick(40, 300)
					if k == 3 {
						n = c.Pick(24, 200)
					}
					for i := 0; i < n; i++ {
						// log-uniform between f/2 and L
						lo := float64(f) / 2
						x := lo
						for r := rg.Float() * 40; r > 0 && x < float64(L); r-- {
							x *= 1.0 + 0.1*rg.Float()
						}
						l := uint64(x)
						if l > L {
							l = L - uint64(rg.Intn(1000))
						}
						ls = append(ls, l)
					}
				}
				var cases []urCase
				seen := map[string]bool{}
				add := func(r *big.Int) {
					if r.Sign() < 0 || r.Cmp(bigMaxI) > 0 || seen[r.String()] {
						return
					}
					seen[r.String()] = true
					cases = append(cases, urCase{r: int(r.Int64()), k: k, rt: true})
				}
				for _, l := range ls {
					if l < uint64(k) || l > L+1 {
						continue
					}
					b := bigcomb.Binomial(l, uint64(k))
					for d := int64(-2); d <= 1; d++ {
						add(new(big.Int).Add(b, big.NewInt(d)))
					}
					// from the combination side: top element l-1, the two lowest positions b-1, b just
					// below the third position (largest remaining rank at position 1), 0/1 and the middle
					if part == 0 && l > uint64(k)+4 {
						top := make([]uint64, k)
						for i := 0; i < k; i++ {
							top[i] = l - uint64(k) + uint64(i) // [l-k .. l-1]: rank C(l,k)-1
						}
						for _, low := range [][2]uint64{{0, 1}, {top[2] - 2, top[2] - 1}, {top[2] / 2, top[2]/2 + 1}, {0, top[2] - 1}} {
							cc := append([]uint64(nil), top...)
							cc[0], cc[1] = low[0], low[1]
							r := bigcomb.RankBig(cc)
							if r.Cmp(bigMaxI) <= 0 && !seen[r.String()] {
								seen[r.String()] = true
								cases = append(cases, urCase{r: int(r.Int64()), k: k, want: cc, rt: true})
								c.Obs("Unrank:constructed_from_combination", 1)
							}
						}
					}
				}
				c.Obs("Unrank:dense_boundary_l_values", len(ls))
				m.runUnranks(cases)
				if part == 0 {
					c.Sample("dense boundary", map[string]interface{}{"k": k, "float_regime_from_l": f, "largest_l": L, "cases": len(cases)})
				}
			})
		}
	}
}

package engine

import "fmt"

// AppendTouchesOthers treats the lists of a result as the caller's own: one more element (a marker -7-i) is appended
// to every list i (which writes into spare capacity if the list has any), and afterwards no list may read differently
// from before in its original positions.  It returns "" if every list kept its contents, else a description of the
// first list that changed.  Linear in the total size.  The lists are left with the appended elements (callers judge
// the result BEFORE this treatment).
func AppendTouchesOthers(lists [][]int) string {
	snap := make([][]int, len(lists))
	for i, l := range lists {
		snap[i] = append([]int{}, l...)
	}
	for i := range lists {
		lists[i] = append(lists[i], -7-i)
	}
	for j := range snap {
		l := lists[j]
		if len(l) != len(snap[j])+1 {
			return fmt.Sprintf("after one append to every list, list %d has length %d (it had %d)", j, len(l), len(snap[j]))
		}
		for k, v := range snap[j] {
			if l[k] != v {
				return fmt.Sprintf("after append(result[i], -7-i) for every i, list %d reads %v, it was %v", j, l[:len(snap[j])], snap[j])
			}
		}
		if l[len(snap[j])] != -7-j {
			return fmt.Sprintf("the element appended to list %d reads %d instead of %d after the appends to the other lists", j, l[len(snap[j])], -7-j)
		}
	}
	return ""
}

// Demo for C02, change 6: a generator row that CanonicalIsomorphAllocated has to allocate
// inside the caller's CanonicalStorage is made as wide as the storage (capacity = the n
// given to NewStorage) instead of exactly as wide as the current graph, so a storage
// never allocates the same row twice when the graphs pushed through it get larger.
//
// Run (from the root of the library checkout, public API only):
//
//	cp demo_test.go graph/zz_c02_demo6_test.go
//	GOFLAGS=-mod=mod GOPROXY=off GOSUMDB=off GOTOOLCHAIN=local \
//	  go test -vet=off -count=1 -timeout 120s -run 'TestC02Demo6' -v ./graph/
//	rm graph/zz_c02_demo6_test.go
//
// TestC02Demo6Property checks the property itself by brute force (orbits = orbits of
// the class-preserving automorphism group, every generator is such an automorphism,
// the generators generate the whole group, a reused storage/partition pair that is
// Reset for graphs of sizes going up and down within its capacity gives the same
// permutation, orbits and generators as a fresh call; the results of a call are
// judged before the next call on the same storage, as the documentation of
// CanonicalIsomorphAllocated asks: "modifying storage may modify the output").
// It passes BEFORE and AFTER the change.
//
// TestC02Demo6IncidentalOld asserts the OLD incidental behaviour: the row handed out
// for a 3-vertex graph by a storage for 6 vertices has capacity 3, and therefore the
// result of that call happens to survive a following call for a LARGER graph on the
// same storage (the row is too narrow and abandoned; the outer slice of generators is
// part of the storage and changes in both trees), although it is overwritten by a
// following call for a graph of the same or a smaller size. It PASSES on the clean
// tree and FAILS with the change (capacity 6, the row is reused by the larger graph).
package graph_test

import (
	"fmt"
	"math/rand"
	"reflect"
	"sort"
	"testing"

	"github.com/Tom-Johnston/mamba/disjoint"
	"github.com/Tom-Johnston/mamba/graph"
)

// c02d6Auts lists all class-preserving automorphisms of g by backtracking.
func c02d6Auts(g graph.Graph, cls []int) [][]int {
	n := g.N()
	var out [][]int
	img := make([]int, n)
	used := make([]bool, n)
	var rec func(k int)
	rec = func(k int) {
		if k == n {
			out = append(out, append([]int(nil), img...))
			return
		}
		for v := 0; v < n; v++ {
			if used[v] || cls[v] != cls[k] {
				continue
			}
			ok := true
			for j := 0; j < k && ok; j++ {
				ok = g.IsEdge(j, k) == g.IsEdge(img[j], v)
			}
			if !ok {
				continue
			}
			used[v] = true
			img[k] = v
			rec(k + 1)
			used[v] = false
		}
	}
	rec(0)
	return out
}

func c02d6PartKey(sets [][]int) string {
	s := make([]string, len(sets))
	for i := range sets {
		c := append([]int(nil), sets[i]...)
		sort.Ints(c)
		s[i] = fmt.Sprint(c)
	}
	sort.Strings(s)
	return fmt.Sprint(s)
}

// c02d6Check verifies the statement of C02 by brute force.
func c02d6Check(g graph.Graph, classes [][]int, orbits disjoint.Set, gens [][]int) error {
	n := g.N()
	cls := make([]int, n)
	for i, c := range classes {
		for _, v := range c {
			cls[v] = i
		}
	}
	auts := c02d6Auts(g, cls)
	autSet := map[string]bool{}
	uf := disjoint.New(n)
	for _, p := range auts {
		autSet[fmt.Sprint(p)] = true
		for i := range p {
			uf.Union(i, p[i])
		}
	}
	oc := append(disjoint.Set(nil), orbits...)
	if len(oc) != n || c02d6PartKey(oc.Sets()) != c02d6PartKey(uf.Sets()) {
		return fmt.Errorf("orbits %v, want %v", oc.Sets(), uf.Sets())
	}
	for _, gen := range gens {
		if !autSet[fmt.Sprint(gen)] {
			return fmt.Errorf("generator %v is not a (class-preserving) automorphism", gen)
		}
	}
	id := make([]int, n)
	for i := range id {
		id[i] = i
	}
	seen := map[string]bool{fmt.Sprint(id): true}
	queue := [][]int{id}
	for len(queue) > 0 {
		p := queue[0]
		queue = queue[1:]
		for _, gen := range gens {
			q := make([]int, n)
			for i := range q {
				q[i] = gen[p[i]]
			}
			if k := fmt.Sprint(q); !seen[k] {
				seen[k] = true
				queue = append(queue, q)
			}
		}
	}
	if len(seen) != len(auts) {
		return fmt.Errorf("generators %v generate a group of order %d, |Aut| = %d", gens, len(seen), len(auts))
	}
	return nil
}

func c02d6Random(r *rand.Rand, n int) *graph.DenseGraph {
	edges := make([]byte, n*(n-1)/2)
	p := r.Float64()
	for i := range edges {
		if r.Float64() < p {
			edges[i] = 1
		}
	}
	return graph.NewDense(n, edges)
}

func c02d6Classes(r *rand.Rand, n int) [][]int {
	k := 1 + r.Intn(n)
	p := r.Perm(n)
	cl := make([][]int, k)
	for i, v := range p {
		if i < k {
			cl[i] = append(cl[i], v)
		} else {
			j := r.Intn(k)
			cl[j] = append(cl[j], v)
		}
	}
	return cl
}


func c02d6Nbrs(g graph.Graph) [][]int {
	nb := make([][]int, g.N())
	for i := range nb {
		nb[i] = g.Neighbours(i)
	}
	return nb
}

func TestC02Demo6Property(t *testing.T) {
	const N, M = 7, 21
	r := rand.New(rand.NewSource(6))
	st := graph.NewStorage(N, M)
	op := graph.NewOrderedPartition(N, M, nil)
	for it := 0; it < 600; it++ {
		// sizes go up and down: a slow sawtooth with noise
		n := 1 + (it/3+r.Intn(3))%N
		g := c02d6Random(r, n)
		if it%5 == 0 {
			g = graph.NewDense(n, nil) // edgeless: the shortcut allocates rows as well
		}
		var classes [][]int
		if it%2 == 1 {
			classes = c02d6Classes(r, n)
		}
		perm, orb, gens := graph.CanonicalIsomorphFull(g, classes)
		if err := c02d6Check(g, classes, orb, gens); err != nil {
			t.Errorf("fresh %s classes=%v: %v", graph.Graph6Encode(g), classes, err)
		}
		op.Reset(n, g.M(), classes)
		perm2, orb2, gens2 := graph.CanonicalIsomorphAllocated(n, g.M(), c02d6Nbrs(g), op, st, new(graph.CanonicalOptions))
		if err := c02d6Check(g, classes, orb2, gens2); err != nil {
			t.Errorf("reused %s classes=%v: %v", graph.Graph6Encode(g), classes, err)
		}
		if !reflect.DeepEqual(perm, perm2) || !reflect.DeepEqual(orb, orb2) || !reflect.DeepEqual(gens, gens2) {
			t.Errorf("reused result differs from fresh result %s classes=%v: %v %v %v / %v %v %v", graph.Graph6Encode(g), classes, perm, orb, gens, perm2, orb2, gens2)
		}
	}
}

func TestC02Demo6IncidentalOld(t *testing.T) {
	st := graph.NewStorage(6, 15)
	op := graph.NewOrderedPartition(6, 15, nil)

	p3 := graph.NewDense(3, []byte{1, 0, 1}) // path 0 - 1 - 2
	op.Reset(3, p3.M(), nil)
	_, orb1, gens1 := graph.CanonicalIsomorphAllocated(3, p3.M(), c02d6Nbrs(p3), op, st, new(graph.CanonicalOptions))
	if err := c02d6Check(p3, nil, orb1, gens1); err != nil {
		t.Fatalf("P3: %v", err)
	}
	row := gens1[0] // the generator itself (the outer slice is part of the storage in both trees)
	want := fmt.Sprint(row)
	t.Logf("P3 on a storage for 6 vertices: generators %v, cap of the row %d", gens1, cap(gens1[0]))
	if cap(gens1[0]) != 3 {
		t.Errorf("cap(generator row) = %d, the old tree allocates it with capacity 3 (the size of the graph)", cap(gens1[0]))
	}

	c5 := graph.NewDense(5, []byte{1, 0, 1, 0, 0, 1, 1, 0, 0, 1}) // cycle 0 1 2 3 4
	op.Reset(5, c5.M(), nil)
	_, orb2, gens2 := graph.CanonicalIsomorphAllocated(5, c5.M(), c02d6Nbrs(c5), op, st, new(graph.CanonicalOptions))
	if err := c02d6Check(c5, nil, orb2, gens2); err != nil {
		t.Fatalf("C5: %v", err)
	}
	t.Logf("C5 on the same storage: generators %v; the generator returned for P3 now reads %v", gens2, row)
	if got := fmt.Sprint(row); got != want {
		t.Errorf("the generator returned for P3 reads %v after the call for C5 on the same storage, it was %v; in the old tree the larger graph cannot reuse the narrow row, so it happens to survive", got, want)
	}
}

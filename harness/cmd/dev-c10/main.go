// dev-c10 links only the C10 monitor (development binary).
package main

import (
	"verif/internal/cli"
	_ "verif/internal/props/c10"
)

func main() { cli.Main() }

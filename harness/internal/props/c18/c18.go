// Package c18 monitors disjoint.Set against a naive partition model after
// every operation of union/find histories (DESIGN.md section 4, C18).
package c18

import (
	"fmt"
	"sort"
	"strings"

	"github.com/Tom-Johnston/mamba/disjoint"

	"verif/internal/engine"
)

func init() {
	engine.Register(&engine.Property{
		ID:    "C18",
		Level: "exploration",
		Rule: "histories of Union/UnionBuffered/Find/FindBuffered on disjoint.New(n): ALL op sequences up to a length bound on small n (exhaustive), binomial-tree union orders, and seeded long histories; " +
			"after every operation the whole partition (read from an independent copy of the value), Sets, SmallestRep and Roots are compared with a relabel-everything model. " +
			"non-trivial = history with >= 2 effective (class-merging) unions; distinct = hash of the operation sequence",
		Assumptions: []string{
			"oracle: naive label array where a union relabels every member (harness code, shares nothing with the library)",
			"a copy of a disjoint.Set made with append() is an independent value (it is a []int)",
			"FindBuffered/UnionBuffered buffers have capacity >= 1 (documented use)",
		},
		Run:            run,
		MinEvaluations: map[string]int{"quick": 100000, "thorough": 1000000},
		MinNontrivial:  map[string]int{"quick": 1000, "thorough": 10000},
		RequiredObs:    []string{"finds_that_compressed_paths", "ops:Union", "ops:UnionBuffered", "ops:Find", "ops:FindBuffered", "ops:view_on_the_live_value", "binomial_trees_under_every_labelling", "views_checked", "view_results_appended_to_by_the_caller", "one_array:ops_followed_by_a_read_of_both_sets"},
	})
}

type op struct {
	kind byte // 'u' union, 'U' union buffered, 'f' find, 'F' find buffered, 'v' a view (x: 0 Sets, 1 SmallestRep, 2 Roots, 3 String) called on the LIVE value
	x, y int
}

func (o op) String() string {
	switch o.kind {
	case 'u', 'U':
		return fmt.Sprintf("%c(%d,%d)", o.kind, o.x, o.y)
	}
	return fmt.Sprintf("%c(%d)", o.kind, o.x)
}

func opsString(ops []op) string {
	var sb strings.Builder
	for _, o := range ops {
		sb.WriteString(o.String())
	}
	return sb.String()
}

// model: label[i] = class label (the least element of the class).
type model []int

func newModel(n int) model {
	m := make(model, n)
	for i := range m {
		m[i] = i
	}
	return m
}

func (m model) union(x, y int) bool {
	a, b := m[x], m[y]
	if a == b {
		return false
	}
	if b < a {
		a, b = b, a
	}
	for i := range m {
		if m[i] == b {
			m[i] = a
		}
	}
	return true
}

func (m model) sets() [][]int {
	by := map[int][]int{}
	var keys []int
	for i, l := range m {
		if _, ok := by[l]; !ok {
			keys = append(keys, l)
		}
		by[l] = append(by[l], i)
	}
	sort.Ints(keys)
	r := make([][]int, 0, len(keys))
	for _, k := range keys {
		r = append(r, by[k])
	}
	return r
}

// partitionOf reads the partition of ds through Find on an independent copy.
// Returns the canonical label (least element of class) per element, or an
// error description.
func partitionOf(c *engine.Ctx, key string, ds disjoint.Set) ([]int, *engine.PanicInfo) {
	cp := append(disjoint.Set(nil), ds...)
	n := len(cp)
	rep := make([]int, n)
	if pi := c.Call(key, func() {
		for i := 0; i < n; i++ {
			rep[i] = cp.Find(i)
		}
	}); pi != nil {
		return nil, pi
	}
	least := map[int]int{}
	for i := 0; i < n; i++ {
		if _, ok := least[rep[i]]; !ok {
			least[rep[i]] = i
		}
	}
	lab := make([]int, n)
	for i := 0; i < n; i++ {
		lab[i] = least[rep[i]]
	}
	return lab, nil
}

func eqInts(a, b []int) bool {
	if len(a) != len(b) {
		return false
	}
	for i := range a {
		if a[i] != b[i] {
			return false
		}
	}
	return true
}

func depthOf(ds disjoint.Set, x int) int {
	d := 0
	for ds[x] >= 0 && d <= len(ds) {
		x = ds[x]
		d++
	}
	return d
}

type runner struct {
	c      *engine.Ctx
	label  string // workload label
	keyPfx string
}

// runHistory executes ops on a fresh Set of n elements, checking after every
// operation.  fullViews: check Sets/SmallestRep/Roots after every op (else
// only at the end).  Returns false on violation.
func (r *runner) runHistory(n int, ops []op, fullViews bool, bufCap func(step int) int) bool {
	c := r.c
	caseKey := func(step int) string {
		if len(ops) <= 12 {
			return fmt.Sprintf("disjoint|n=%d|%s", n, opsString(ops[:step+1]))
		}
		return fmt.Sprintf("disjoint|%s|n=%d|step=%d", r.keyPfx, n, step)
	}
	detail := func(step int) interface{} {
		o := ops
		if step+1 < len(o) {
			o = o[:step+1]
		}
		if len(o) > 400 {
			return map[string]interface{}{"n": n, "ops_prefix_len": len(o), "last_ops": opsString(o[len(o)-40:]), "workload": r.label}
		}
		return map[string]interface{}{"n": n, "ops": opsString(o), "workload": r.label}
	}
	var ds disjoint.Set
	if pi := c.Call(fmt.Sprintf("disjoint|New(%d)", n), func() { ds = disjoint.New(n) }); pi != nil {
		c.Violation(fmt.Sprintf("disjoint|New(%d)|panic", n), detail(-1), pi.String(), "a set of n singletons")
		return false
	}
	m := newModel(n)
	effective := 0
	for step, o := range ops {
		key := caseKey(step)
		c.Eval(1)
		before, pi := partitionOf(c, key+"|read-before", ds)
		if pi != nil {
			c.Violation(key+"|panic-in-find", detail(step), pi.String(), "Find returns")
			return false
		}
		switch o.kind {
		case 'u', 'U':
			var pi *engine.PanicInfo
			if o.kind == 'u' {
				c.Obs("ops:Union", 1)
				pi = c.Call(key, func() { ds.Union(o.x, o.y) })
			} else {
				c.Obs("ops:UnionBuffered", 1)
				buf := make([]int, bufCap(step))
				pi = c.Call(key, func() { ds.UnionBuffered(o.x, o.y, buf) })
			}
			if pi != nil {
				c.Violation(key+"|panic", detail(step), pi.String(), "union returns")
				return false
			}
			if m.union(o.x, o.y) {
				effective++
			} else {
				c.Obs("unions_of_already_joined", 1)
			}
		case 'v':
			// a view called on the live value itself (views may flatten trees): the history goes on with what it leaves
			c.Obs("ops:view_on_the_live_value", 1)
			var pi *engine.PanicInfo
			var got, want string
			switch o.x {
			case 0:
				pi = c.Call(key, func() { got = fmt.Sprint(ds.Sets()) })
				want = fmt.Sprint(m.sets())
			case 1:
				pi = c.Call(key, func() { got = fmt.Sprint(ds.SmallestRep()) })
				want = fmt.Sprint([]int(m))
			case 2:
				pi = c.Call(key, func() { got = fmt.Sprint(len(ds.Roots())) })
				want = fmt.Sprint(len(m.sets()))
			default:
				pi = c.Call(key, func() { _ = ds.String() })
			}
			if pi != nil {
				c.Violation(key+"|panic", detail(step), pi.String(), "the view returns")
				return false
			}
			if got != want {
				c.Violation(key+"|view-on-live-value-wrong", detail(step), got, want)
				return false
			}
		case 'f', 'F':
			d := depthOf(ds, o.x)
			c.ObsMax("chain_depth_before_find", d)
			raw := append([]int(nil), ds...)
			var got int
			var pi *engine.PanicInfo
			if o.kind == 'f' {
				c.Obs("ops:Find", 1)
				pi = c.Call(key, func() { got = ds.Find(o.x) })
			} else {
				c.Obs("ops:FindBuffered", 1)
				buf := make([]int, bufCap(step))
				pi = c.Call(key, func() { got = ds.FindBuffered(o.x, buf) })
			}
			if pi != nil {
				c.Violation(key+"|panic", detail(step), pi.String(), "find returns")
				return false
			}
			if !eqInts(raw, ds) {
				c.Obs("finds_that_compressed_paths", 1)
			}
			if got < 0 || got >= n || m[got] != m[o.x] {
				c.Violation(key+"|find-outside-class", detail(step), fmt.Sprintf("Find(%d)=%d", o.x, got), fmt.Sprintf("a member of the class %v", m.sets()))
				return false
			}
		}
		after, pi := partitionOf(c, key+"|read-after", ds)
		if pi != nil {
			c.Violation(key+"|panic-in-find", detail(step), pi.String(), "Find returns")
			return false
		}
		if !eqInts(after, []int(m)) {
			what := "partition-wrong-after-union"
			if o.kind == 'v' {
				what = "view-changed-partition"
			}
			if o.kind == 'f' || o.kind == 'F' {
				what = "lookup-changed-partition"
				_ = before
			}
			c.Violation(key+"|"+what, detail(step), fmt.Sprintf("classes by Find: %v (before the op: %v)", after, before), fmt.Sprintf("classes: %v", []int(m)))
			return false
		}
		if fullViews || step == len(ops)-1 {
			if !r.checkViews(key, detail(step), ds, m) {
				return false
			}
		}
	}
	if effective >= 2 {
		c.NT(n, opsString(ops))
	}
	return true
}

func (r *runner) checkViews(key string, detail interface{}, ds disjoint.Set, m model) bool {
	c := r.c
	n := len(m)
	c.Obs("views_checked", 1)
	want := m.sets()
	// Sets (on a copy, so that the observation does not disturb the history)
	cp := append(disjoint.Set(nil), ds...)
	var sets [][]int
	if pi := c.Call(key+"|Sets", func() { sets = cp.Sets() }); pi != nil {
		c.Violation(key+"|Sets|panic", detail, pi.String(), "Sets returns")
		return false
	}
	if fmt.Sprint(sets) != fmt.Sprint(want) {
		c.Violation(key+"|Sets", detail, fmt.Sprint(sets), fmt.Sprint(want))
		return false
	}
	if after, pi := partitionOf(c, key+"|read-after-Sets", cp); pi != nil || !eqInts(after, []int(m)) {
		c.Violation(key+"|Sets-changed-partition", detail, fmt.Sprintf("classes by Find after Sets: %v %v", after, pi), fmt.Sprint([]int(m)))
		return false
	}
	// the lists of Sets are the caller's: appending to one of them changes neither another list nor the Set
	c.Obs("view_results_appended_to_by_the_caller", 1)
	asReturned := append([][]int{}, sets...) // the slices as they were handed out (an append may move a list to new memory)
	if msg := engine.AppendTouchesOthers(sets); msg != "" {
		c.Violation(key+"|Sets|lists-of-the-result-share-memory", detail, msg, "lists the caller may append to independently")
		return false
	}
	if after, pi := partitionOf(c, key+"|read-after-append-to-Sets", cp); pi != nil || !eqInts(after, []int(m)) {
		c.Violation(key+"|caller-appends-to-the-lists-of-Sets-and-the-Set-changes", detail, fmt.Sprintf("classes by Find afterwards: %v %v", after, pi), fmt.Sprint([]int(m)))
		return false
	}
	// ... and the caller may overwrite what is in them: Sets asked again (of another copy of the value) gives the same sets
	for i := range asReturned {
		for k := range asReturned[i] {
			asReturned[i][k] += 1000
		}
	}
	cp = append(disjoint.Set(nil), ds...)
	var setsAgain [][]int
	if pi := c.Call(key+"|Sets-after-the-caller-overwrote-an-earlier-result", func() { setsAgain = cp.Sets() }); pi != nil || fmt.Sprint(setsAgain) != fmt.Sprint(want) {
		c.Violation(key+"|Sets-after-the-caller-overwrote-an-earlier-result", detail, fmt.Sprint(setsAgain, pi), fmt.Sprint(want))
		return false
	}
	cp = append(disjoint.Set(nil), ds...)
	var sr []int
	if pi := c.Call(key+"|SmallestRep", func() { sr = cp.SmallestRep() }); pi != nil {
		c.Violation(key+"|SmallestRep|panic", detail, pi.String(), "SmallestRep returns")
		return false
	}
	if !eqInts(sr, []int(m)) {
		c.Violation(key+"|SmallestRep", detail, fmt.Sprint(sr), fmt.Sprint([]int(m)))
		return false
	}
	// the value the view was called on still holds the same partition and gives the same answer again
	if after, pi := partitionOf(c, key+"|read-after-SmallestRep", cp); pi != nil || !eqInts(after, []int(m)) {
		c.Violation(key+"|SmallestRep-changed-partition", detail, fmt.Sprintf("classes by Find after SmallestRep: %v %v", after, pi), fmt.Sprint([]int(m)))
		return false
	}
	// ... also after the caller appended to the list it was given
	_ = append(sr, -1, -1)
	var sr2 []int
	if pi := c.Call(key+"|SmallestRep-again", func() { sr2 = cp.SmallestRep() }); pi != nil || !eqInts(sr2, []int(m)) {
		c.Violation(key+"|SmallestRep-second-call", detail, fmt.Sprint(sr2, pi), fmt.Sprint([]int(m)))
		return false
	}
	cp = append(disjoint.Set(nil), ds...)
	var roots []int
	if pi := c.Call(key+"|Roots", func() { roots = cp.Roots() }); pi != nil {
		c.Violation(key+"|Roots|panic", detail, pi.String(), "Roots returns")
		return false
	}
	seen := map[int]bool{}
	ok := len(roots) == len(want)
	for _, x := range roots {
		if x < 0 || x >= n || seen[m[x]] {
			ok = false
			break
		}
		seen[m[x]] = true
	}
	if !ok {
		c.Violation(key+"|Roots", detail, fmt.Sprint(roots), fmt.Sprintf("one element of each of %v", want))
		return false
	}
	// String must not panic or disturb (it calls Sets)
	return true
}

func run(c *engine.Ctx) {
	// 1. bounded-exhaustive: all op sequences of length <= L over n <= N.
	maxN, maxL := 4, 4
	if c.Thorough() {
		maxN, maxL = 4, 5
	}
	for n := 1; n <= maxN; n++ {
		var alphabet []op
		for x := 0; x < n; x++ {
			for y := 0; y < n; y++ {
				alphabet = append(alphabet, op{'u', x, y}, op{'U', x, y})
			}
			alphabet = append(alphabet, op{'f', x, 0}, op{'F', x, 0})
		}
		// split by first op so that there are several units
		for fi, first := range alphabet {
			fi, first, n := fi, first, n
			c.Unit(fmt.Sprintf("exhaustive/n=%d/first=%d", n, fi), func() {
				r := &runner{c: c, label: "exhaustive", keyPfx: "exh"}
				seq := make([]op, 0, maxL)
				var rec func()
				count := 0
				rec = func() {
					if len(seq) > 0 {
						count++
						if !r.runHistory(n, seq, len(seq) <= 3, func(step int) int { return 1 + (step+len(seq))%n }) {
							return
						}
					}
					if len(seq) == maxL {
						return
					}
					for _, o := range alphabet {
						seq = append(seq, o)
						rec()
						seq = seq[:len(seq)-1]
						if c.Stopped() {
							return
						}
					}
				}
				seq = append(seq, first)
				rec()
				c.Obs(fmt.Sprintf("exhaustive_histories_n=%d", n), count)
				if fi == 0 {
					c.Sample("exhaustive", map[string]interface{}{"n": n, "alphabet": len(alphabet), "max_len": maxL, "example": opsString([]op{first, alphabet[len(alphabet)/2], alphabet[len(alphabet)-1]})})
				}
			})
		}
		c.Obs(fmt.Sprintf("exhaustive:all histories of length<=%d over %d ops on n=%d", maxL, len(alphabet), n), 1)
	}

	// 1b. EVERY labelling of the deepest trees on 4 and 8 elements (binomial union order under all 24 / 40320 relabellings,
	// both argument orders): views and lookups on deep trees whose vertices carry every possible arrangement of labels
	// (which element is the root, where element 0 sits, which elements hang below it)
	for _, lg := range []int{2, 3} {
		n := 1 << uint(lg)
		chunks := 1
		if lg == 3 {
			chunks = 16
		}
		for ch := 0; ch < chunks; ch++ {
			lg, n, ch := lg, n, ch
			c.Unit(fmt.Sprintf("binomial-all-labellings/lg=%d/%d", lg, ch), func() {
				perm := make([]int, n)
				for i := range perm {
					perm[i] = i
				}
				idx := 0
				var rec func(k int)
				r := &runner{c: c, label: "binomial-all-labellings", keyPfx: fmt.Sprintf("binomial-all lg=%d", lg)}
				rec = func(k int) {
					if c.Stopped() {
						return
					}
					if k == n {
						idx++
						if idx%chunks != ch {
							return
						}
						for flip := 0; flip < 2; flip++ {
							var ops []op
							for s := 1; s < n; s *= 2 {
								for b := 0; b+s < n; b += 2 * s {
									x, y := perm[b], perm[b+s]
									if flip == 1 {
										x, y = y, x
									}
									ops = append(ops, op{'u', x, y})
								}
							}
							// a view on the live value, then lookups of everything, then the views again
							ops = append(ops, op{'v', (idx + flip) % 4, 0})
							for i := 0; i < n; i++ {
								ops = append(ops, op{'f', perm[(i*3+idx)%n], 0})
							}
							r.keyPfx = fmt.Sprintf("binomial-all lg=%d perm=%v flip=%d", lg, perm, flip)
							r.runHistory(n, ops, false, func(step int) int { return 1 })
							// and with the views checked (on copies) right after the unions, before anything was looked up
							r.runHistory(n, ops[:n-1], false, func(step int) int { return 1 })
						}
						c.Obs("binomial_trees_under_every_labelling", 1)
						return
					}
					for i := k; i < n; i++ {
						perm[k], perm[i] = perm[i], perm[k]
						rec(k + 1)
						perm[k], perm[i] = perm[i], perm[k]
					}
				}
				rec(0)
			})
		}
	}

	// 2. union orders that build deep trees before the first find
	// (binomial-tree order: equal ranks merge, so depth grows by one per
	// round), then finds from the deepest leaves; all 4 variants of ops.
	for _, lg := range []int{2, 3, 4, 5, 6, 7, 8} {
		lg := lg
		c.Unit(fmt.Sprintf("binomial/lg=%d", lg), func() {
			n := 1 << uint(lg)
			for variant := 0; variant < 8; variant++ {
				rg := c.Rand("binomial", lg*16+variant)
				perm := rg.Perm(n)
				if variant == 0 {
					for i := range perm {
						perm[i] = i
					}
				}
				var ops []op
				for s := 1; s < n; s *= 2 {
					for b := 0; b+s < n; b += 2 * s {
						x, y := perm[b], perm[b+s]
						if variant&1 == 1 {
							x, y = y, x
						}
						k := byte('u')
						if variant&2 == 2 {
							k = 'U'
						}
						// union representatives-by-construction: use arbitrary members of the blocks
						if variant&4 == 4 {
							x = perm[b+rg.Intn(s)]
							y = perm[b+s+rg.Intn(s)]
						}
						ops = append(ops, op{k, x, y})
					}
				}
				for i := 0; i < n; i++ {
					k := byte('f')
					if (i+variant)%2 == 1 {
						k = 'F'
					}
					ops = append(ops, op{k, perm[(i*7+3)%n], 0})
				}
				r := &runner{c: c, label: "binomial-order", keyPfx: fmt.Sprintf("binomial lg=%d v=%d", lg, variant)}
				r.runHistory(n, ops, n <= 32, func(step int) int { return 1 + step%3 })
				if variant == 1 && lg == 3 {
					c.Sample("binomial-order", map[string]interface{}{"n": n, "ops": opsString(ops)})
				}
			}
		})
	}

	// 3. seeded long histories
	nh := c.Pick(600, 6000)
	per := 25
	for u := 0; u*per < nh; u++ {
		u := u
		c.Unit(fmt.Sprintf("seeded/%d", u), func() {
			for i := u * per; i < (u+1)*per && i < nh; i++ {
				rg := c.Rand("seeded", i)
				n := 1 + rg.Intn(256)
				if i%3 == 0 {
					n = 1 + rg.Intn(24)
				}
				L := 200 + rg.Intn(1800)
				if n > 64 {
					L = 100 + rg.Intn(500) // each step reads the whole partition: keep the cost bounded
				}
				pFind := rg.Float() * 0.5
				local := i%2 == 0
				ops := make([]op, 0, L)
				for len(ops) < L {
					x := rg.Intn(n)
					y := rg.Intn(n)
					if local && n > 8 {
						y = (x + 1 + rg.Intn(4)) % n
					}
					if rg.Bool(0.08) {
						ops = append(ops, op{'v', rg.Intn(4), 0})
						continue
					}
					if rg.Bool(pFind) {
						k := byte('f')
						if rg.Bool(0.5) {
							k = 'F'
						}
						ops = append(ops, op{k, x, 0})
					} else {
						k := byte('u')
						if rg.Bool(0.5) {
							k = 'U'
						}
						ops = append(ops, op{k, x, y})
					}
				}
				r := &runner{c: c, label: "seeded", keyPfx: fmt.Sprintf("seeded#%d", i)}
				r.runHistory(n, ops, n <= 16, func(step int) int { return 1 + (step*31+i)%(n+1) })
				if i < 2 {
					c.Sample("seeded", map[string]interface{}{"n": n, "len": L, "first_ops": opsString(ops[:10])})
				}
			}
		})
	}

	// 4. several Sets side by side in one array (prefix views, the library's own idiom)
	runArenas(c)
}

// Demonstration for C17-8: IntersectionSize and ContainsSorted look the elements of a much smaller set up by binary search.
//
// Run (from the root of the mamba repository):
//
//	mkdir -p zz_demo && cp /tmp/green-out/C17/8/demo_test.go zz_demo/ &&
//	GOFLAGS=-mod=mod GOPROXY=off GOSUMDB=off GOTOOLCHAIN=local go test -vet=off -count=1 -timeout 120s -v ./zz_demo/ ; rm -rf zz_demo
//
// TestProperty passes on the clean tree and with the change.
// TestIncidentalOutsideDomain asserts the OLD answers for an argument that is NOT a SortedInts value at all (an unsorted
// slice converted to the type): the linear two-pointer walk happened to find the element in first position. It passes on
// the clean tree and FAILS with the change. TestTimingInfo only prints (linear walk over 4M elements versus 22 probes).
package demo

import (
	"math/rand"
	"sort"
	"testing"
	"time"

	"github.com/Tom-Johnston/mamba/sortints"
)

func randomSet(rng *rand.Rand, size, span int) (sortints.SortedInts, map[int]bool) {
	m := map[int]bool{}
	for len(m) < size {
		m[rng.Intn(span)-span/2] = true
	}
	r := make([]int, 0, size+2)
	for k := range m {
		r = append(r, k)
	}
	sort.Ints(r)
	return r, m
}

func equal(a, b []int) bool {
	if len(a) != len(b) {
		return false
	}
	for i := range a {
		if a[i] != b[i] {
			return false
		}
	}
	return true
}

// The property: correct size / boolean / sets for all pairs of sets, balanced and very unbalanced, arguments untouched.
func TestProperty(t *testing.T) {
	rng := rand.New(rand.NewSource(178))
	for trial := 0; trial < 20000; trial++ {
		na, nb := rng.Intn(5), rng.Intn(100)
		if trial%4 == 0 {
			na, nb = rng.Intn(40), rng.Intn(40)
		}
		span := 1 + nb + rng.Intn(2*nb+10)
		if na > span {
			na = span
		}
		a, am := randomSet(rng, na, span)
		b, bm := randomSet(rng, nb, span)
		if trial%8 == 1 && na > 0 {
			//make a a subset of b now and then
			a = a[:0]
			am = map[int]bool{}
			for _, i := range rng.Perm(len(b)) {
				if len(am) == na {
					break
				}
				am[b[i]] = true
			}
			for k := range am {
				a = append(a, k)
			}
			sort.Ints(a)
		}
		ca, cb := append([]int(nil), a...), append([]int(nil), b...)
		inter, subAB, subBA := 0, true, true
		for k := range am {
			if bm[k] {
				inter++
			} else {
				subAB = false
			}
		}
		for k := range bm {
			if !am[k] {
				subBA = false
			}
		}
		if got := sortints.IntersectionSize(a, b); got != inter {
			t.Fatalf("IntersectionSize(%v,%v)=%d want %d", a, b, got, inter)
		}
		if got := sortints.IntersectionSize(b, a); got != inter {
			t.Fatalf("IntersectionSize(%v,%v)=%d want %d", b, a, got, inter)
		}
		if got := sortints.ContainsSorted(b, a); got != subAB {
			t.Fatalf("ContainsSorted(%v,%v)=%v want %v", b, a, got, subAB)
		}
		if got := sortints.ContainsSorted(a, b); got != subBA {
			t.Fatalf("ContainsSorted(%v,%v)=%v want %v", a, b, got, subBA)
		}
		//The functions which size their result with IntersectionSize.
		var u, in, mi, xo []int
		for k := range am {
			u = append(u, k)
			if bm[k] {
				in = append(in, k)
			} else {
				mi = append(mi, k)
				xo = append(xo, k)
			}
		}
		for k := range bm {
			if !am[k] {
				u = append(u, k)
				xo = append(xo, k)
			}
		}
		sort.Ints(u)
		sort.Ints(in)
		sort.Ints(mi)
		sort.Ints(xo)
		if !equal(sortints.Union(a, b), u) || !equal(sortints.Intersection(b, a), in) || !equal(sortints.SetMinus(a, b), mi) || !equal(sortints.XOR(b, a), xo) {
			t.Fatalf("set algebra wrong for %v %v", a, b)
		}
		if !equal(a, ca) || !equal(b, cb) {
			t.Fatal("argument modified")
		}
	}
	//int limits
	const maxInt = int(^uint(0) >> 1)
	big := sortints.Range(-40, 40, 1)
	big = append(sortints.SortedInts{-maxInt - 1}, append(big, maxInt)...)
	if sortints.IntersectionSize(big, sortints.SortedInts{-maxInt - 1, maxInt}) != 2 || !sortints.ContainsSorted(big, sortints.SortedInts{-maxInt - 1, maxInt}) || sortints.ContainsSorted(big, sortints.SortedInts{maxInt - 1}) {
		t.Fatal("int limits")
	}
}

func TestIncidentalOutsideDomain(t *testing.T) {
	//NOT a sorted set: 50 stands in front of 1..40.
	bad := sortints.SortedInts{50}
	for i := 1; i <= 40; i++ {
		bad = append(bad, i)
	}
	single := sortints.SortedInts{50}
	gotC := sortints.ContainsSorted(bad, single)
	gotI := sortints.IntersectionSize(bad, single)
	t.Logf("unsorted first argument: ContainsSorted=%v IntersectionSize=%d", gotC, gotI)
	if !gotC {
		t.Errorf("OLD behaviour gone: ContainsSorted(unsorted, {50}) = false")
	}
	if gotI != 1 {
		t.Errorf("OLD behaviour gone: IntersectionSize(unsorted, {50}) = %d", gotI)
	}
}

func TestTimingInfo(t *testing.T) {
	a := sortints.Range(0, 1<<22, 1)
	b := sortints.SortedInts{1<<22 - 1}
	best := time.Hour
	for r := 0; r < 5; r++ {
		t0 := time.Now()
		ok := sortints.ContainsSorted(a, b)
		n := sortints.IntersectionSize(a, b)
		d := time.Since(t0)
		if !ok || n != 1 {
			t.Fatal("wrong answer")
		}
		if d < best {
			best = d
		}
	}
	t.Logf("ContainsSorted+IntersectionSize(4M elements, 1 element): best of 5 = %v", best)
}

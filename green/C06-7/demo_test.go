// Demo for green change C06/7 (Complement of a complement view hands back the underlying graph instead of stacking a
// second view on top of the first).
//
// Run (from the root of the mamba repository):
//
//	cp /tmp/green-out/C06/7/demo_test.go graph/zz_green_c06_7_demo_test.go
//	GOFLAGS=-mod=mod GOPROXY=off GOSUMDB=off GOTOOLCHAIN=local \
//	    go test -vet=off -count=1 -timeout 300s -run 'TestGreenC06_7' -v ./graph/
//	rm graph/zz_green_c06_7_demo_test.go
//
// TestGreenC06_7_Property      passes on the clean tree AND with the change: for every graph on <= 5 vertices (as
//	DenseGraph, SparseGraph, induced-subgraph view and a caller-implemented Graph), Complement(g),
//	Complement(Complement(g)) and Complement(Complement(Complement(g))) are well formed (symmetric, loop-free,
//	M = #edges, Degrees/Neighbours = adjacency), have exactly the prescribed edges, and stay live views (an edit of g
//	shows through).
//
// TestGreenC06_7_OldIncidental passes on the clean tree, FAILS with the change: it pins the dynamic type of
//	Complement(Complement(g)) (a library view type, not the caller's *DenseGraph) and the number of times the
//	double view asks the caller's graph for N() when answering M() - neither is documented.
package graph_test

import (
	"fmt"
	"testing"

	"github.com/Tom-Johnston/mamba/graph"
	"github.com/Tom-Johnston/mamba/sortints"
)

func greenC06_7_wellFormed(g graph.Graph) error {
	n := g.N()
	m := 0
	deg := make([]int, n)
	for i := 0; i < n; i++ {
		if g.IsEdge(i, i) {
			return fmt.Errorf("loop at %d", i)
		}
		for j := 0; j < n; j++ {
			if g.IsEdge(i, j) != g.IsEdge(j, i) {
				return fmt.Errorf("not symmetric at %d,%d", i, j)
			}
			if i < j && g.IsEdge(i, j) {
				m++
				deg[i]++
				deg[j]++
			}
		}
	}
	if g.M() != m {
		return fmt.Errorf("M() = %d, adjacency has %d edges", g.M(), m)
	}
	d := g.Degrees()
	if len(d) != n {
		return fmt.Errorf("len(Degrees()) = %d, n = %d", len(d), n)
	}
	for v := 0; v < n; v++ {
		if d[v] != deg[v] {
			return fmt.Errorf("Degrees()[%d] = %d, adjacency says %d", v, d[v], deg[v])
		}
		nb := g.Neighbours(v)
		if len(nb) != deg[v] {
			return fmt.Errorf("Neighbours(%d) = %v, degree %d", v, nb, deg[v])
		}
		seen := map[int]bool{}
		for _, u := range nb {
			if u < 0 || u >= n || seen[u] || !g.IsEdge(u, v) {
				return fmt.Errorf("Neighbours(%d) = %v is not the adjacency", v, nb)
			}
			seen[u] = true
		}
	}
	return nil
}

// greenC06_7_same checks that h has exactly the edges of g (or exactly the non-edges, if compl).
func greenC06_7_same(h, g graph.Graph, compl bool) error {
	if h.N() != g.N() {
		return fmt.Errorf("N: %d vs %d", h.N(), g.N())
	}
	for i := 0; i < g.N(); i++ {
		for j := 0; j < g.N(); j++ {
			want := g.IsEdge(i, j)
			if compl {
				want = i != j && !want
			}
			if h.IsEdge(i, j) != want {
				return fmt.Errorf("pair %d,%d: got %v want %v", i, j, h.IsEdge(i, j), want)
			}
		}
	}
	return nil
}

// greenC06_7_user is a caller-implemented Graph (adjacency matrix) which counts the calls it receives.
type greenC06_7_user struct {
	adj                       [][]bool
	nN, nM, nE, nNbrs, nDegrs int
}

func (u *greenC06_7_user) N() int { u.nN++; return len(u.adj) }
func (u *greenC06_7_user) M() int {
	u.nM++
	m := 0
	for i := range u.adj {
		for j := 0; j < i; j++ {
			if u.adj[i][j] {
				m++
			}
		}
	}
	return m
}
func (u *greenC06_7_user) IsEdge(i, j int) bool { u.nE++; return u.adj[i][j] }
func (u *greenC06_7_user) Neighbours(v int) []int {
	u.nNbrs++
	r := []int{}
	for j, b := range u.adj[v] {
		if b {
			r = append(r, j)
		}
	}
	return r
}
func (u *greenC06_7_user) Degrees() []int {
	u.nDegrs++
	d := make([]int, len(u.adj))
	for i := range u.adj {
		for _, b := range u.adj[i] {
			if b {
				d[i]++
			}
		}
	}
	return d
}

func greenC06_7_userOf(g graph.Graph) *greenC06_7_user {
	n := g.N()
	u := &greenC06_7_user{adj: make([][]bool, n)}
	for i := range u.adj {
		u.adj[i] = make([]bool, n)
		for j := range u.adj[i] {
			u.adj[i][j] = g.IsEdge(i, j)
		}
	}
	return u
}

func TestGreenC06_7_Property(t *testing.T) {
	check := func(name string, g graph.Graph) {
		c1 := graph.Complement(g)
		c2 := graph.Complement(c1)
		c3 := graph.Complement(c2)
		for k, h := range []graph.Graph{c1, c2, c3} {
			if err := greenC06_7_wellFormed(h); err != nil {
				t.Fatalf("%s: Complement^%d: %v", name, k+1, err)
			}
			if err := greenC06_7_same(h, g, k != 1); err != nil {
				t.Fatalf("%s: Complement^%d: %v", name, k+1, err)
			}
		}
	}
	for n := 0; n <= 5; n++ {
		pairs := n * (n - 1) / 2
		for mask := 0; mask < 1<<uint(pairs); mask++ {
			edges := make([]byte, pairs)
			for b := range edges {
				edges[b] = byte(mask >> uint(b) & 1)
			}
			d := graph.NewDense(n, edges)
			name := fmt.Sprintf("n=%d mask=%d", n, mask)
			check(name+" dense", d)
			check(name+" dense value", *d)
			nb := make([]sortints.SortedInts, n)
			for v := range nb {
				nb[v] = d.Neighbours(v)
			}
			check(name+" sparse", graph.NewSparse(n, nb))
			check(name+" user", greenC06_7_userOf(d))
			V := make([]int, 0, n)
			for v := n - 1; v >= 0; v -= 2 {
				V = append(V, v)
			}
			check(name+" view", graph.InducedSubgraph(d, V))
		}
	}
	for _, g := range []*graph.DenseGraph{graph.Path(30), graph.Cycle(17), graph.KneserGraph(5, 2), graph.RandomGraph(40, 0.4, 7), graph.HypercubeGraph(5)} {
		check(graph.Graph6Encode(g), g)
	}

	// The views stay live: an edit of the original graph shows through every level.
	g := graph.Path(6)
	c1 := graph.Complement(g)
	c2 := graph.Complement(c1)
	c3 := graph.Complement(c2)
	g.AddEdge(0, 5)
	g.RemoveEdge(2, 3)
	graph.SplitEdge(g, 0, 1)
	for k, h := range []graph.Graph{c1, c2, c3} {
		if err := greenC06_7_wellFormed(h); err != nil {
			t.Fatalf("after edit: Complement^%d: %v", k+1, err)
		}
		if err := greenC06_7_same(h, g, k != 1); err != nil {
			t.Fatalf("after edit: Complement^%d: %v", k+1, err)
		}
	}
}

func TestGreenC06_7_OldIncidental(t *testing.T) {
	g := graph.Cycle(5)
	cc := graph.Complement(graph.Complement(g))
	if got := fmt.Sprintf("%T", cc); got != "graph.complement" {
		t.Errorf("dynamic type of Complement(Complement(*DenseGraph)) = %s, the old code gave graph.complement", got)
	}
	if _, ok := cc.(graph.EditableGraph); ok {
		t.Errorf("Complement(Complement(g)) is an EditableGraph; the old code returned a read-only view")
	}

	u := greenC06_7_userOf(g)
	ucc := graph.Complement(graph.Complement(u))
	if m := ucc.M(); m != 5 {
		t.Fatalf("M = %d", m)
	}
	if u.nN != 2 || u.nM != 1 {
		t.Errorf("M() of the double complement asked the caller's graph N() %d times and M() %d times; the old code: 2 and 1", u.nN, u.nM)
	}
}

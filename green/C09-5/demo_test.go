// Demo for C09 change 5: IndependenceNumber builds the complement once as a DenseGraph (ComplementDense) instead of
// searching through the lazy Complement view.
//
// Run (from the root of the library worktree, offline):
//
//	export GOFLAGS=-mod=mod GOPROXY=off GOSUMDB=off GOTOOLCHAIN=local
//	mkdir -p greendemo && cp /tmp/green-out/C09/5/demo_test.go greendemo/demo_test.go
//	go test -vet=off -count=1 -timeout 600s -v ./greendemo
//	rm -r greendemo
//
// TestIncidentalCallProfile hands IndependenceNumber a graph.Graph implemented in this file that counts how its
// methods are used, and asserts what the OLD implementation does: it never asks for M() or Degrees(), it asks for
// the same pair of vertices many times (more IsEdge calls than there are pairs) and it also asks IsEdge(i, j) with
// i < j.  It PASSES on the clean tree and FAILS with the change (M and Degrees are called once each, IsEdge exactly
// once per pair and only with i > j).
// TestPropertyIndependenceNumber checks what C09 demands of IndependenceNumber: the value equals the definition
// (brute force over all vertex subsets), for the dense, sparse, view and counting representations and for random
// relabellings, including n = 0, 1 and disconnected graphs.  It PASSES on both trees.
package greendemo

import (
	"math/rand"
	"testing"

	"github.com/Tom-Johnston/mamba/graph"
	"github.com/Tom-Johnston/mamba/sortints"
)

// counting is a read only graph that records how it is used.
type counting struct {
	g                          graph.Graph
	nCalls, mCalls, degCalls   *int
	isEdgeCalls, isEdgeLowHigh *int
	neighbourCalls             *int
	pairs                      map[[2]int]int
}

func newCounting(g graph.Graph) counting {
	return counting{g: g, nCalls: new(int), mCalls: new(int), degCalls: new(int), isEdgeCalls: new(int),
		isEdgeLowHigh: new(int), neighbourCalls: new(int), pairs: map[[2]int]int{}}
}

func (c counting) N() int         { *c.nCalls++; return c.g.N() }
func (c counting) M() int         { *c.mCalls++; return c.g.M() }
func (c counting) Degrees() []int { *c.degCalls++; return c.g.Degrees() }
func (c counting) Neighbours(v int) []int {
	*c.neighbourCalls++
	return c.g.Neighbours(v)
}
func (c counting) IsEdge(i, j int) bool {
	*c.isEdgeCalls++
	if i < j {
		*c.isEdgeLowHigh++
		c.pairs[[2]int{i, j}]++
	} else {
		c.pairs[[2]int{j, i}]++
	}
	return c.g.IsEdge(i, j)
}

func toSparse(g graph.Graph) *graph.SparseGraph {
	n := g.N()
	nb := make([]sortints.SortedInts, n)
	for i := 0; i < n; i++ {
		nb[i] = append(sortints.SortedInts{}, g.Neighbours(i)...)
	}
	return graph.NewSparse(n, nb)
}

// bruteAlpha is the definition: the largest set of pairwise non-adjacent vertices.
func bruteAlpha(g graph.Graph) int {
	n := g.N()
	best := 0
	for mask := 0; mask < 1<<uint(n); mask++ {
		size := 0
		ok := true
	check:
		for i := 0; i < n; i++ {
			if mask>>uint(i)&1 == 0 {
				continue
			}
			size++
			for j := 0; j < i; j++ {
				if mask>>uint(j)&1 == 1 && g.IsEdge(i, j) {
					ok = false
					break check
				}
			}
		}
		if ok && size > best {
			best = size
		}
	}
	return best
}

func TestIncidentalCallProfile(t *testing.T) {
	for _, tc := range []struct {
		name string
		g    graph.Graph
	}{
		{"Petersen", graph.KneserGraph(5, 2)},
		{"Cycle(9)", graph.Cycle(9)},
		{"RandomGraph(12,0.4,1)", graph.RandomGraph(12, 0.4, 1)},
	} {
		c := newCounting(tc.g)
		alpha := graph.IndependenceNumber(c)
		n := tc.g.N()
		pairs := n * (n - 1) / 2
		maxRepeat := 0
		for _, k := range c.pairs {
			if k > maxRepeat {
				maxRepeat = k
			}
		}
		t.Logf("%s: alpha=%d  N()x%d M()x%d Degrees()x%d Neighbours()x%d IsEdge()x%d (pairs=%d, with i<j: %d, most asked pair: x%d)",
			tc.name, alpha, *c.nCalls, *c.mCalls, *c.degCalls, *c.neighbourCalls, *c.isEdgeCalls, pairs, *c.isEdgeLowHigh, maxRepeat)
		if alpha != bruteAlpha(tc.g) {
			t.Errorf("%s: PROPERTY: IndependenceNumber = %d, definition gives %d", tc.name, alpha, bruteAlpha(tc.g))
		}
		if *c.mCalls != 0 || *c.degCalls != 0 {
			t.Errorf("%s: old behaviour is that M() and Degrees() are never called; got M()x%d Degrees()x%d", tc.name, *c.mCalls, *c.degCalls)
		}
		if *c.isEdgeCalls <= pairs || maxRepeat < 2 {
			t.Errorf("%s: old behaviour is that pairs are asked for repeatedly; got %d IsEdge calls for %d pairs, most asked pair x%d", tc.name, *c.isEdgeCalls, pairs, maxRepeat)
		}
		if *c.isEdgeLowHigh == 0 {
			t.Errorf("%s: old behaviour is that IsEdge(i, j) is also called with i < j; got none", tc.name)
		}
	}
}

func relabel(g graph.Graph, perm []int) *graph.DenseGraph {
	n := g.N()
	h := graph.NewDense(n, nil)
	for i := 0; i < n; i++ {
		for j := 0; j < i; j++ {
			if g.IsEdge(i, j) {
				h.AddEdge(perm[i], perm[j])
			}
		}
	}
	return h
}

func TestPropertyIndependenceNumber(t *testing.T) {
	r := rand.New(rand.NewSource(9))
	graphs := []graph.Graph{graph.NewDense(0, nil), graph.NewDense(1, nil), graph.NewDense(5, nil), graph.CompleteGraph(6),
		graph.KneserGraph(5, 2), graph.Cycle(7), graph.Star(6), graph.CompletePartiteGraph(2, 3, 1), graph.FriendshipGraph(3)}
	for i := 0; i < 300; i++ {
		graphs = append(graphs, graph.RandomGraph(r.Intn(12), r.Float64(), r.Int63()))
	}
	for idx, g0 := range graphs {
		n := g0.N()
		want := bruteAlpha(g0)
		g := relabel(g0, r.Perm(n))
		id := make([]int, n)
		for i := range id {
			id[i] = i
		}
		reps := map[string]graph.Graph{
			"original": g0,
			"dense":    g,
			"sparse":   toSparse(g),
			"view":     graph.InducedSubgraph(g, id),
			"cocoview": graph.Complement(graph.Complement(toSparse(g))),
			"counting": newCounting(g),
		}
		for name, h := range reps {
			if got := graph.IndependenceNumber(h); got != want {
				t.Fatalf("graph %d (n=%d) %s: IndependenceNumber = %d, want %d", idx, n, name, got, want)
			}
		}
		if got := graph.CliqueNumber(graph.Complement(g)); got != want {
			t.Fatalf("graph %d: CliqueNumber(Complement) = %d, want %d", idx, got, want)
		}
	}
}

// Demo for C09 change 6: IsKColorable runs the search with min(k, n) colours (and treats every negative k like -1),
// so the memory it uses no longer grows with k and extreme values of k no longer end in a runtime error.
//
// Run (from the root of the library worktree, offline):
//
//	export GOFLAGS=-mod=mod GOPROXY=off GOSUMDB=off GOTOOLCHAIN=local
//	mkdir -p greendemo && cp /tmp/green-out/C09/6/demo_test.go greendemo/demo_test.go
//	go test -vet=off -count=1 -timeout 600s -v ./greendemo
//	rm -r greendemo
//
// TestIncidentalAllocationAndExtremeK asserts what the OLD implementation does: the bytes allocated by one call grow
// with k (n tables of k+2 ints: more than 2.5 MB for Cycle(5) with k = 65536), and for a k so large or so negative
// that make([]int, k+1) is impossible the call dies with the runtime error "makeslice: len out of range".
// It PASSES on the clean tree and FAILS with the change (a few hundred bytes whatever k is; true with a proper
// colouring for huge k, false for very negative k).
// TestPropertyIsKColorable checks what C09 demands of IsKColorable for every k from -1 to well above n (and for the
// extreme values wherever the call returns at all): ok == (k >= chi) with chi from a brute force, and when ok the
// colouring is proper and uses only colours in [0, k); in the dense, sparse and view representations and under a
// random relabelling, including n = 0, 1 and disconnected graphs.  It PASSES on both trees.
package greendemo

import (
	"fmt"
	"math"
	"math/rand"
	"runtime"
	"strings"
	"testing"

	"github.com/Tom-Johnston/mamba/graph"
	"github.com/Tom-Johnston/mamba/sortints"
)

func toSparse(g graph.Graph) *graph.SparseGraph {
	n := g.N()
	nb := make([]sortints.SortedInts, n)
	for i := 0; i < n; i++ {
		nb[i] = append(sortints.SortedInts{}, g.Neighbours(i)...)
	}
	return graph.NewSparse(n, nb)
}

func relabel(g graph.Graph, perm []int) *graph.DenseGraph {
	n := g.N()
	h := graph.NewDense(n, nil)
	for i := 0; i < n; i++ {
		for j := 0; j < i; j++ {
			if g.IsEdge(i, j) {
				h.AddEdge(perm[i], perm[j])
			}
		}
	}
	return h
}

// bruteColourable is the definition: is there a map from the vertices to {0..k-1} without a monochromatic edge.
func bruteColourable(g graph.Graph, k int) bool {
	n := g.N()
	col := make([]int, n)
	var rec func(v int) bool
	rec = func(v int) bool {
		if v == n {
			return true
		}
		for c := 0; c < k; c++ {
			ok := true
			for u := 0; u < v; u++ {
				if col[u] == c && g.IsEdge(u, v) {
					ok = false
					break
				}
			}
			if ok {
				col[v] = c
				if rec(v + 1) {
					return true
				}
			}
		}
		return false
	}
	return rec(0)
}

// checkAnswer validates one answer of IsKColorable against the definition.
func checkAnswer(g graph.Graph, k int, want bool, ok bool, colouring []int) error {
	if ok != want {
		return fmt.Errorf("ok = %v, want %v", ok, want)
	}
	if !ok {
		if colouring != nil {
			return fmt.Errorf("false with a non-nil colouring %v", colouring)
		}
		return nil
	}
	n := g.N()
	if colouring == nil || len(colouring) != n {
		return fmt.Errorf("colouring %v is not a slice of length %d", colouring, n)
	}
	for v, c := range colouring {
		if c < 0 || c >= k {
			return fmt.Errorf("vertex %d has colour %d outside [0,%d)", v, c, k)
		}
		for u := 0; u < v; u++ {
			if g.IsEdge(u, v) && colouring[u] == c {
				return fmt.Errorf("edge %d-%d is monochromatic in %v", u, v, colouring)
			}
		}
	}
	return nil
}

// call runs IsKColorable and reports a panic instead of dying.
func call(g graph.Graph, k int) (ok bool, colouring []int, panicked interface{}) {
	defer func() { panicked = recover() }()
	ok, colouring = graph.IsKColorable(g, k)
	return
}

func allocatedBy(f func()) uint64 {
	var before, after runtime.MemStats
	runtime.GC()
	runtime.ReadMemStats(&before)
	f()
	runtime.ReadMemStats(&after)
	return after.TotalAlloc - before.TotalAlloc
}

func TestIncidentalAllocationAndExtremeK(t *testing.T) {
	g := graph.Cycle(5)
	//1. Memory: the old code allocates a table of k+1 counters (plus k+2 in the search) for each of the 5 vertices.
	for _, k := range []int{3, 1 << 10, 1 << 16} {
		k := k
		bytes := allocatedBy(func() {
			ok, c := graph.IsKColorable(g, k)
			if err := checkAnswer(g, k, true, ok, c); err != nil {
				t.Errorf("PROPERTY: Cycle(5), k=%d: %v", k, err)
			}
		})
		t.Logf("Cycle(5), k=%d: %d bytes allocated by the call", k, bytes)
		if old := uint64(5 * 8 * k); k > 100 && bytes < old {
			t.Errorf("Cycle(5), k=%d: old behaviour is at least n*(k+1) ints = %d bytes allocated; got %d", k, old, bytes)
		}
	}
	//2. Extreme k: the old code cannot allocate its tables.
	for _, k := range []int{1 << 62, math.MaxInt64, -2, -1000, math.MinInt64} {
		ok, c, p := call(g, k)
		t.Logf("Cycle(5), k=%d: ok=%v colouring=%v panic=%v", k, ok, c, p)
		if p == nil {
			//Whenever the call does return, the answer has to be right (this is the property, not the incidental part).
			if err := checkAnswer(g, k, k >= 3, ok, c); err != nil {
				t.Errorf("PROPERTY: Cycle(5), k=%d: %v", k, err)
			}
		}
		err, isRuntime := p.(runtime.Error)
		if !isRuntime || !strings.Contains(err.Error(), "makeslice") {
			t.Errorf("Cycle(5), k=%d: old behaviour is a runtime error from makeslice; got ok=%v colouring=%v panic=%v", k, ok, c, p)
		}
	}
}

func TestPropertyIsKColorable(t *testing.T) {
	r := rand.New(rand.NewSource(6))
	graphs := []graph.Graph{graph.NewDense(0, nil), graph.NewDense(1, nil), graph.NewDense(4, nil), graph.CompleteGraph(5),
		graph.KneserGraph(5, 2), graph.Cycle(7), graph.Cycle(6), graph.Star(6), graph.CompletePartiteGraph(2, 3, 1), graph.FriendshipGraph(3)}
	for i := 0; i < 150; i++ {
		graphs = append(graphs, graph.RandomGraph(r.Intn(9), r.Float64(), r.Int63()))
	}
	calls := 0
	for idx, g0 := range graphs {
		n := g0.N()
		chi := 0
		for !bruteColourable(g0, chi) {
			chi++
		}
		g := relabel(g0, r.Perm(n))
		id := make([]int, n)
		for i := range id {
			id[i] = i
		}
		reps := map[string]graph.Graph{
			"original": g0,
			"dense":    g,
			"sparse":   toSparse(g),
			"view":     graph.InducedSubgraph(g, id),
			"cocoview": graph.Complement(graph.Complement(toSparse(g))),
		}
		ks := []int{}
		for k := -1; k <= 2*n+3; k++ {
			ks = append(ks, k)
		}
		ks = append(ks, 100, 1000, 1<<62, math.MaxInt64, -2, -7, math.MinInt64)
		for name, h := range reps {
			for _, k := range ks {
				ok, c, p := call(h, k)
				if p != nil {
					if k >= -1 && k <= 1000 {
						t.Fatalf("graph %d (n=%d, chi=%d) %s k=%d: panic %v", idx, n, chi, name, k, p)
					}
					continue //An extreme k on the old tree: no answer to check.
				}
				calls++
				//For n = 0 the empty colouring is a proper colouring with any number of colours.
				want := k >= chi || n == 0
				if err := checkAnswer(h, k, want, ok, c); err != nil && n > 0 {
					t.Fatalf("graph %d (n=%d, chi=%d) %s k=%d: %v", idx, n, chi, name, k, err)
				} else if n == 0 && (!ok || len(c) != 0) {
					t.Fatalf("graph %d (n=0) %s k=%d: got %v %v", idx, name, k, ok, c)
				}
			}
		}
		//The witnesses of ChromaticNumber are not touched by the change but are cheap to validate here too.
		cn, c := graph.ChromaticNumber(g)
		if cn != chi {
			t.Fatalf("graph %d: ChromaticNumber = %d, want %d", idx, cn, chi)
		}
		if n > 0 {
			if err := checkAnswer(g, chi, true, true, c); err != nil {
				t.Fatalf("graph %d: ChromaticNumber colouring: %v", idx, err)
			}
		}
	}
	t.Logf("%d answers of IsKColorable validated", calls)
}

// Demonstration for C14, change 5 (GobDecode allocates the decoded nodes in one slab and cuts their label and link
// slices out of shared chunks instead of allocating every node and every slice on its own).
//
// Run (from the root of the library, after copying this file into the dawg directory):
//
//	cp demo_test.go <repo>/dawg/c14_demo_test.go
//	cd <repo> && GOFLAGS=-mod=mod GOPROXY=off GOSUMDB=off GOTOOLCHAIN=local go test -vet=off -count=1 -timeout 600s -run 'TestC14Demo' -v ./dawg
//
// TestC14DemoProperty checks the property itself (round trip directly and through encoding/gob, also into a receiver
// that already holds another dawg, decoding the same bytes twice, clobbering the input afterwards, stable re-encoding)
// and passes before and after the change.
// TestC14DemoBytesUnchanged pins three small encodings; passes before and after (the format is not touched).
// TestC14DemoIncidentalAllocations pins the OLD allocation pattern of GobDecode: at least one allocation per decoded
// node (in fact one per non-root node plus two per node with links).  With the change a whole automaton is decoded with
// a handful of allocations (independent of the number of nodes up to 4096 links), so this test passes on the clean tree
// and fails with the change.
package dawg_test

import (
	"bytes"
	"encoding/gob"
	"fmt"
	"sort"
	"testing"

	"github.com/Tom-Johnston/mamba/dawg"
)

func c14Sorted(ws [][]byte) [][]byte {
	sort.Slice(ws, func(i, j int) bool { return bytes.Compare(ws[i], ws[j]) < 0 })
	out := ws[:0]
	for i, w := range ws {
		if i == 0 || !bytes.Equal(w, ws[i-1]) {
			out = append(out, w)
		}
	}
	return out
}

// c14WordSets returns word sets with wide branching (up to 256 links per node) and with word and node counts on both
// sides of 127.
func c14WordSets() map[string][][]byte {
	sets := map[string][][]byte{}
	sets["empty"] = nil
	sets["emptyword"] = [][]byte{{}}
	sets["ab"] = [][]byte{[]byte("a"), []byte("b")}
	for _, k := range []int{1, 127, 128, 129, 200, 256} {
		var ws [][]byte
		for c := 0; c < k; c++ {
			ws = append(ws, []byte{byte(c)})
		}
		sets[fmt.Sprintf("fan%d", k)] = c14Sorted(ws)
		// two levels, different second levels so that the nodes are not merged
		var ws2 [][]byte
		for c := 0; c < k; c++ {
			for e := 0; e <= c%5; e++ {
				ws2 = append(ws2, []byte{byte(c), byte(255 - e)})
			}
			if c%3 == 0 {
				ws2 = append(ws2, []byte{byte(c)})
			}
		}
		sets[fmt.Sprintf("fan2_%d", k)] = c14Sorted(ws2)
	}
	// a long chain: many nodes, no branching
	var chain [][]byte
	w := []byte{}
	for i := 0; i < 300; i++ {
		w = append(w, byte(i*7))
		chain = append(chain, append([]byte(nil), w...))
	}
	sets["chain300"] = c14Sorted(chain)
	// pseudo-random words over the full alphabet
	x := uint32(12345)
	next := func() uint32 { x = x*1664525 + 1013904223; return x >> 8 }
	var rnd [][]byte
	for i := 0; i < 400; i++ {
		l := int(next() % 5)
		b := make([]byte, l)
		for j := range b {
			b[j] = byte(next() % 7 * 41)
		}
		rnd = append(rnd, b)
	}
	sets["random"] = c14Sorted(rnd)
	return sets
}

type c14All struct{}

func (c14All) AllowStep(b byte) bool { return true }
func (c14All) Step(b byte)           {}
func (c14All) Backstep()             {}
func (c14All) AllowWord() bool       { return true }
func (c14All) Chosen()               {}

func c14Same(t *testing.T, name string, ws [][]byte, d, e *dawg.Dawg) {
	t.Helper()
	if d.NumberOfWords() != len(ws) || e.NumberOfWords() != len(ws) {
		t.Fatalf("%s: word count %d / %d, want %d", name, d.NumberOfWords(), e.NumberOfWords(), len(ws))
	}
	for i, w := range ws {
		r1, ok1 := d.Lookup(w)
		r2, ok2 := e.Lookup(w)
		if !ok1 || !ok2 || r1 != i || r2 != i {
			t.Fatalf("%s: rank of %v: %d,%v / %d,%v want %d", name, w, r1, ok1, r2, ok2, i)
		}
		if _, ok := e.Lookup(append(append([]byte(nil), w...), 3, 3, 3)); ok {
			t.Fatalf("%s: a word that is not in the set is found", name)
		}
	}
	s1, i1 := d.Search(c14All{})
	s2, i2 := e.Search(c14All{})
	if len(s1) != len(ws) || len(s2) != len(ws) {
		t.Fatalf("%s: search finds %d / %d words, want %d", name, len(s1), len(s2), len(ws))
	}
	for i := range ws {
		if !bytes.Equal(s1[i], ws[i]) || !bytes.Equal(s2[i], ws[i]) || i1[i] != i || i2[i] != i {
			t.Fatalf("%s: search result %d differs", name, i)
		}
	}
	for _, pat := range [][]byte{{'?'}, {'?', '?'}, {0, '?'}, {'?', 255}, {'?', '?', '?'}} {
		p1, j1 := d.Search(dawg.NewPatternSearcher(pat, '?'))
		p2, j2 := e.Search(dawg.NewPatternSearcher(pat, '?'))
		if fmt.Sprint(p1, j1) != fmt.Sprint(p2, j2) {
			t.Fatalf("%s: pattern search %v differs", name, pat)
		}
	}
}

func TestC14DemoProperty(t *testing.T) {
	other, err := dawg.New([][]byte{[]byte("x"), []byte("xy"), []byte("z")})
	if err != nil {
		t.Fatal(err)
	}
	otherBytes, _ := other.GobEncode()
	for name, ws := range c14WordSets() {
		d, err := dawg.New(ws)
		if err != nil {
			t.Fatal(name, err)
		}
		b, err := d.GobEncode()
		if err != nil {
			t.Fatal(name, err)
		}
		keep := append([]byte(nil), b...)

		// direct, twice from the same bytes
		e1, e2 := new(dawg.Dawg), new(dawg.Dawg)
		if err := e1.GobDecode(b); err != nil {
			t.Fatal(name, err)
		}
		if err := e2.GobDecode(b); err != nil {
			t.Fatal(name, err)
		}
		// into a receiver that holds another dawg
		e3 := new(dawg.Dawg)
		if err := e3.GobDecode(otherBytes); err != nil {
			t.Fatal(name, err)
		}
		if err := e3.GobDecode(b); err != nil {
			t.Fatal(name, err)
		}
		// through encoding/gob
		var buf bytes.Buffer
		if err := gob.NewEncoder(&buf).Encode(d); err != nil {
			t.Fatal(name, err)
		}
		e4 := new(dawg.Dawg)
		if err := gob.NewDecoder(&buf).Decode(e4); err != nil {
			t.Fatal(name, err)
		}
		// the decoded automata must not depend on the input slice
		for i := range b {
			b[i] = 0xAA
		}
		// decoding something else into e2 must not disturb e1
		if err := e2.GobDecode(otherBytes); err != nil {
			t.Fatal(name, err)
		}
		for k, e := range []*dawg.Dawg{e1, e3, e4} {
			c14Same(t, fmt.Sprint(name, "/", k), ws, d, e)
			b2, err := e.GobEncode()
			if err != nil || !bytes.Equal(b2, keep) {
				t.Fatalf("%s/%d: re-encoding differs", name, k)
			}
		}
		c14Same(t, name+"/other", [][]byte{[]byte("x"), []byte("xy"), []byte("z")}, other, e2)
	}
}

func TestC14DemoBytesUnchanged(t *testing.T) {
	want := map[string]string{
		"empty":     "010000000000",
		"emptyword": "010000010100",
		"ab":        "020001000200026101620101010100",
	}
	sets := c14WordSets()
	for name, hex := range want {
		d, _ := dawg.New(sets[name])
		b, _ := d.GobEncode()
		if got := fmt.Sprintf("%x", b); got != hex {
			t.Errorf("%s: encoding %s, pinned %s", name, got, hex)
		}
		e := new(dawg.Dawg)
		if err := e.GobDecode(b); err != nil {
			t.Fatal(err)
		}
		b2, _ := e.GobEncode()
		if !bytes.Equal(b, b2) {
			t.Errorf("%s: re-encoding differs", name)
		}
	}
}

// c14Nodes counts the nodes of the encoded automaton: the first integer of the encoding (1 byte <= 127, else 0x80+n
// followed by n big-endian bytes).
func c14Nodes(b []byte) int {
	if b[0] <= 127 {
		return int(b[0])
	}
	n := 0
	for _, c := range b[1 : 1+int(b[0]-128)] {
		n = n<<8 | int(c)
	}
	return n
}

func TestC14DemoIncidentalAllocations(t *testing.T) {
	sets := c14WordSets()
	for _, name := range []string{"fan2_200", "fan2_256", "chain300", "random"} {
		d, err := dawg.New(sets[name])
		if err != nil {
			t.Fatal(err)
		}
		b, _ := d.GobEncode()
		nodes := c14Nodes(b)
		e := new(dawg.Dawg)
		allocs := testing.AllocsPerRun(20, func() {
			if err := e.GobDecode(b); err != nil {
				t.Fatal(err)
			}
		})
		t.Logf("%s: %d nodes, %d bytes, %.0f allocations per GobDecode", name, nodes, len(b), allocs)
		// OLD behaviour: every node but the root is allocated on its own, and so are the two slices of every node with links.
		if allocs < float64(nodes) {
			t.Errorf("%s: GobDecode of %d nodes made only %.0f allocations; the pinned behaviour is at least one per node", name, nodes, allocs)
		}
	}
}

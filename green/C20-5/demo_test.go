// Demonstration for C20, change 5 (LIB aligns and flushes the weight section in blocks of 16 rows).
//
// Run (from the root of the library, after copying this file into the tsp directory):
//
//	cp demo_test.go <repo>/tsp/c20_demo_test.go
//	cd <repo> && GOFLAGS=-mod=mod GOPROXY=off GOSUMDB=off GOTOOLCHAIN=local go test -vet=off -count=1 -timeout 600s -run 'TestC20Demo' -v ./tsp
//
// TestC20DemoProperty checks the property itself: for several n (0 .. 40, on both sides of the block size) and weight
// functions (negative, large, asymmetric in definition) the output parses as a TSPLIB problem with DIMENSION n whose
// LOWER_DIAG_ROW section holds exactly weights(i, j) for j < i and 0 on the diagonal, one row per line, followed by
// EOF; weights is only called with 0 <= j < i < n; and a failing Write at every position (transient and permanent,
// several short counts) makes LIB return a non-nil error. It passes before and after the change.
// TestC20DemoIncidentalLayout pins the OLD white space of the weight section, which the property does not fix: the
// columns of the WHOLE section aligned together (the output of one text/tabwriter flushed once). It passes on the clean
// tree and fails with the change for n > 16, where rows 0..15 and rows 16.. are aligned separately (same numbers, same
// lines, other amounts of padding).
package tsp_test

import (
	"bytes"
	"errors"
	"fmt"
	"strconv"
	"strings"
	"testing"
	"text/tabwriter"

	"github.com/Tom-Johnston/mamba/tsp"
)

var errC20Injected = errors.New("c20 demo: injected write failure")

// c20Writer records every Write. The failAt-th Write call (1-based, 0 = never) fails; if permanent every later call
// fails too. A failing call accepts short bytes of its argument (clipped to len(p)) before reporting the error.
type c20Writer struct {
	calls     int
	buf       bytes.Buffer
	failAt    int
	permanent bool
	short     int
	failed    bool
}

func (w *c20Writer) Write(p []byte) (int, error) {
	w.calls++
	if w.failAt > 0 && (w.calls == w.failAt || (w.permanent && w.calls > w.failAt)) {
		w.failed = true
		k := w.short
		if k > len(p) {
			k = len(p)
		}
		w.buf.Write(p[:k])
		return k, errC20Injected
	}
	w.buf.Write(p)
	return len(p), nil
}

const c20Header = "DISPLAY_DATA_TYPE: NO_DISPLAY\nEDGE_WEIGHT_TYPE: EXPLICIT\nEDGE_WEIGHT_FORMAT: LOWER_DIAG_ROW\nEDGE_WEIGHT_SECTION\n"

// c20Check parses out as the TSPLIB problem that LIB has to produce for n and weights.
func c20Check(out string, n int, weights func(i, j int) int) error {
	prefix := "TYPE: TSP\nDIMENSION: " + strconv.Itoa(n) + "\n" + c20Header
	if !strings.HasPrefix(out, prefix) {
		return fmt.Errorf("bad header: %q", out)
	}
	rest := out[len(prefix):]
	if !strings.HasSuffix(rest, "EOF\n") {
		return fmt.Errorf("no EOF at the end")
	}
	rest = rest[:len(rest)-len("EOF\n")]
	var lines []string
	if rest != "" {
		if !strings.HasSuffix(rest, "\n") {
			return fmt.Errorf("weight section does not end with a newline")
		}
		lines = strings.Split(rest[:len(rest)-1], "\n")
	}
	if len(lines) != n {
		return fmt.Errorf("%d rows, want %d", len(lines), n)
	}
	for i, line := range lines {
		fields := strings.Fields(line)
		if len(fields) != i+1 {
			return fmt.Errorf("row %d has %d entries, want %d", i, len(fields), i+1)
		}
		for j, f := range fields {
			v, err := strconv.Atoi(f)
			if err != nil {
				return fmt.Errorf("row %d entry %d: %v", i, j, err)
			}
			want := 0
			if j < i {
				want = weights(i, j)
			}
			if v != want {
				return fmt.Errorf("row %d entry %d is %d, want %d", i, j, v, want)
			}
		}
	}
	return nil
}

var c20Weights = []struct {
	name string
	f    func(i, j int) int
}{
	{"small", func(i, j int) int { return (i*7 + j*3) % 10 }},
	{"mixed", func(i, j int) int { return (i*i*37+j*101)%2000 - 700 }},
	{"large", func(i, j int) int {
		if (i+j)%3 == 0 {
			return -(1 << 62) + i
		}
		return (1 << 40) * (i - 2*j)
	}},
	{"asymmetric", func(i, j int) int { return 1000*i - j }},
	{"growing", func(i, j int) int {
		v := 1
		for k := 0; k < (i+j)%9; k++ {
			v *= 10
		}
		return v
	}},
}

func TestC20DemoProperty(t *testing.T) {
	for _, wf := range c20Weights {
		for _, n := range []int{0, 1, 2, 3, 5, 11, 15, 16, 17, 31, 32, 33, 40} {
			n := n
			bad := ""
			counted := func(i, j int) int {
				if !(0 <= j && j < i && i < n) && bad == "" {
					bad = fmt.Sprintf("weights(%d, %d) called for n = %d", i, j, n)
				}
				return wf.f(i, j)
			}
			w := &c20Writer{}
			if err := tsp.LIB(w, n, counted); err != nil {
				t.Fatalf("%s n=%d: %v", wf.name, n, err)
			}
			if bad != "" {
				t.Fatalf("%s: %s", wf.name, bad)
			}
			if err := c20Check(w.buf.String(), n, wf.f); err != nil {
				t.Fatalf("%s n=%d: %v", wf.name, n, err)
			}
			if n > 18 {
				continue
			}
			total := w.calls
			for at := 1; at <= total; at++ {
				for _, permanent := range []bool{false, true} {
					for _, short := range []int{0, 1, 1 << 20} {
						fw := &c20Writer{failAt: at, permanent: permanent, short: short}
						err := tsp.LIB(fw, n, counted)
						if fw.failed && err == nil {
							t.Fatalf("%s n=%d: Write %d of %d failed (permanent=%v short=%d) but LIB returned nil", wf.name, n, at, total, permanent, short)
						}
						if !fw.failed {
							if err != nil {
								t.Fatalf("%s n=%d: no Write failed but LIB returned %v", wf.name, n, err)
							}
							if err := c20Check(fw.buf.String(), n, wf.f); err != nil {
								t.Fatalf("%s n=%d: %v", wf.name, n, err)
							}
						}
						if bad != "" {
							t.Fatalf("%s: %s", wf.name, bad)
						}
					}
				}
			}
		}
	}
}

// c20OldLayout is the output of the clean tree: the whole section aligned by one tabwriter.
func c20OldLayout(n int, weights func(i, j int) int) string {
	var b bytes.Buffer
	fmt.Fprintf(&b, "TYPE: TSP\nDIMENSION: %d\n%s", n, c20Header)
	tw := tabwriter.NewWriter(&b, 0, 1, 1, ' ', tabwriter.AlignRight)
	for i := 0; i < n; i++ {
		for j := 0; j < i; j++ {
			fmt.Fprintf(tw, "%d\t", weights(i, j))
		}
		fmt.Fprint(tw, "0\t\n")
	}
	tw.Flush()
	b.WriteString("EOF\n")
	return b.String()
}

func c20Clip(s string) string {
	if len(s) > 100 {
		return "..." + s[len(s)-100:]
	}
	return s
}

func TestC20DemoIncidentalLayout(t *testing.T) {
	for _, wf := range c20Weights {
		for _, n := range []int{0, 1, 5, 11, 16, 17, 20, 33, 40} {
			var b bytes.Buffer
			if err := tsp.LIB(&b, n, wf.f); err != nil {
				t.Fatal(err)
			}
			got, want := b.String(), c20OldLayout(n, wf.f)
			if got == want {
				continue
			}
			gl, wl := strings.Split(got, "\n"), strings.Split(want, "\n")
			for k := range gl {
				if k >= len(wl) || gl[k] != wl[k] {
					t.Errorf("%s n=%d: layout differs from the whole-section alignment, first at line %d:\n got  %q\n want %q", wf.name, n, k+1, c20Clip(gl[k]), c20Clip(wl[k]))
					break
				}
			}
		}
	}
}
